SPECIFICATION Spec
CONSTANTS
  Vers = {1, 2, 3, 12, 60, 120}
  Sizes = {400, 5000, 70000}
  Depths = {0, 1, 2, 10, 50}
  Windows = {0, 1, 10}
  Oids = {20, 32}
CHECK_DEADLOCK FALSE

SPECIFICATION Spec
CONSTANT LockHead = TRUE
INVARIANT CasViaHeadSound
INVARIANT NoLockLeft
CHECK_DEADLOCK FALSE

------------------------------ MODULE IndexFmt ------------------------------
(***************************************************************************)
(* The on-disk format of git's staging index ("DIRC"), versions 2, 3, 4,   *)
(* as C git's read-cache.c defines it and as dulwich/index.py must write   *)
(* and read it.                                                            *)
(*                                                                         *)
(* An index file is specified as a sequence of FIELDS                      *)
(*      [t |-> "u32", v |-> <<hi16, lo16>>]   big-endian 32-bit integer    *)
(*      [t |-> "u16", v |-> <<n>>]            big-endian 16-bit integer    *)
(*      [t |-> "raw", v |-> runs]             literal bytes                *)
(*      [t |-> "sha1", v |-> <<>>]            SHA-1 of everything before   *)
(* A byte string is a sequence of RUNS <<b, n>> (byte b repeated n times,  *)
(* n > 0, adjacent runs carry different bytes) so that 4 KiB and 16 KiB    *)
(* names cost nothing.  Integers wider than 31 bits are big-endian         *)
(* sequences of 16-bit limbs (TLC integers are 32-bit).                    *)
(*                                                                         *)
(* Layout(c) is the file git writes for case c = [v, skip, ents, exts];    *)
(* Expect(c) is what a reader must hand back (fields truncated to 32 bits  *)
(* as git does, times as (sec, nsec)); Sorted is git's order (path bytes,  *)
(* then stage).  Parse is a byte-level reader following git's rules (name  *)
(* length saturated at NameMask -> NUL scan, offset-varint strip count,    *)
(* padding to 8); the lemma Parse(Bytes(Layout(c))) = Expect(c) is checked *)
(* by TLC with a small NameMask so that saturation is reached by short     *)
(* names.  The case families below are what TLC enumerates for the         *)
(* conformance checks against dulwich and C git.                           *)
(***************************************************************************)
EXTENDS Naturals, Sequences, FiniteSets, TLC

CONSTANTS NameMask,   \* 4095 in git: width of the name-length field of the flags word
          Family,     \* which case family the initial states enumerate
          MaxKeys,    \* family "names": size bound of the key sets
          MaxEdits,   \* family "hist": length bound of the edit histories
          Defect      \* "none"; negative controls: "unsaturated" (name length not clamped to NameMask,
                      \* dulwich write_cache_entry at 671b511), "leb128" (little-endian base-128 strip
                      \* count instead of git's offset varint, dulwich _compress_path at 671b511),
                      \* "stalestage" (the stage of a written entry is the slot OR-ed with the stage
                      \* bits the entry object still carries from where it was read),
                      \* "readerskips" (a reader configured with skipHash does not look at the trailer),
                      \* "manyfilesforces" (feature.manyFiles=true turns skipHash on even against an
                      \* explicit index.skipHash=false)

NM1 == NameMask + 1
Min(a, b) == IF a < b THEN a ELSE b

\* ------------------------------------------------------------------ byte strings as runs
RECURSIVE RLenI(_, _)
RLenI(r, i) == IF i > Len(r) THEN 0 ELSE r[i][2] + RLenI(r, i + 1)
RLen(r) == RLenI(r, 1)

Rep(b, n) == IF n = 0 THEN <<>> ELSE << <<b, n>> >>

\* concatenation of two normal-form run sequences
RCat(a, b) ==
    IF a = <<>> THEN b
    ELSE IF b = <<>> THEN a
    ELSE IF a[Len(a)][1] = b[1][1]
         THEN SubSeq(a, 1, Len(a) - 1) \o << <<b[1][1], a[Len(a)][2] + b[1][2]>> >> \o Tail(b)
         ELSE a \o b

RECURSIVE ToRunsI(_, _, _)
ToRunsI(s, i, acc) == IF i > Len(s) THEN acc ELSE ToRunsI(s, i + 1, RCat(acc, << <<s[i], 1>> >>))
ToRuns(s) == ToRunsI(s, 1, <<>>)

RECURSIVE RDrop(_, _)
RDrop(r, k) ==
    IF k = 0 \/ r = <<>> THEN r
    ELSE IF r[1][2] <= k THEN RDrop(Tail(r), k - r[1][2])
    ELSE << <<r[1][1], r[1][2] - k>> >> \o Tail(r)

RECURSIVE RTake(_, _)
RTake(r, k) ==
    IF k = 0 \/ r = <<>> THEN <<>>
    ELSE IF r[1][2] <= k THEN RCat(<<r[1]>>, RTake(Tail(r), k - r[1][2]))
    ELSE << <<r[1][1], k>> >>

\* length of the common prefix (normal form: after a shorter run the next byte differs)
RECURSIVE RCommonI(_, _, _)
RCommonI(a, b, i) ==
    IF i > Len(a) \/ i > Len(b) \/ a[i][1] # b[i][1] THEN 0
    ELSE IF a[i][2] = b[i][2] THEN a[i][2] + RCommonI(a, b, i + 1)
    ELSE Min(a[i][2], b[i][2])
RCommon(a, b) == RCommonI(a, b, 1)

\* memcmp order with "shorter is smaller" (= git's cache_name_compare on the names)
\* a is a prefix of b (no recursion: usable on files with 10^5 runs)
RIsPrefix(a, b) ==
    \/ a = <<>>
    \/ /\ Len(a) <= Len(b)
       /\ SubSeq(a, 1, Len(a) - 1) = SubSeq(b, 1, Len(a) - 1)
       /\ a[Len(a)][1] = b[Len(a)][1]
       /\ a[Len(a)][2] <= b[Len(a)][2]

RLess(a, b) ==
    LET c == RCommon(a, b)
        x == RDrop(a, c)
        y == RDrop(b, c)
    IN  IF y = <<>> THEN FALSE
        ELSE IF x = <<>> THEN TRUE
        ELSE x[1][1] < y[1][1]

RECURSIVE Expand(_)
Expand(r) == IF r = <<>> THEN <<>> ELSE [i \in 1..r[1][2] |-> r[1][1]] \o Expand(Tail(r))

\* ------------------------------------------------------------------ numbers
N2L(n) == <<n \div 65536, n % 65536>>                 \* n < 2^31
U32(l) == LET n == Len(l) IN IF n >= 2 THEN <<l[n - 1], l[n]>> ELSE IF n = 1 THEN <<0, l[1]>> ELSE <<0, 0>>

\* git's varint.c (the "offset" varint also used for OFS_DELTA): big-endian groups of 7 bits,
\* every continuation adds one, so that no value has two encodings
RECURSIVE OVHi(_)
OVHi(m) == IF m < 128 THEN <<128 + m>> ELSE OVHi((m \div 128) - 1) \o <<128 + (m % 128)>>
RECURSIVE Leb128(_)
Leb128(n) == IF n < 128 THEN <<n>> ELSE <<128 + (n % 128)>> \o Leb128(n \div 128)
OffVarint(n) == IF Defect = "leb128" THEN Leb128(n)
                ELSE IF n < 128 THEN <<n>> ELSE OVHi((n \div 128) - 1) \o <<n % 128>>

\* ------------------------------------------------------------------ fields
F32(l)  == [t |-> "u32", v |-> U32(l)]
F16(n)  == [t |-> "u16", v |-> <<n>>]
Raw(r)  == [t |-> "raw", v |-> r]
Sha1Fld == [t |-> "sha1", v |-> <<>>]

FieldRuns(f) ==
    CASE f.t = "u32" -> ToRuns(<<f.v[1] \div 256, f.v[1] % 256, f.v[2] \div 256, f.v[2] % 256>>)
      [] f.t = "u16" -> ToRuns(<<f.v[1] \div 256, f.v[1] % 256>>)
      [] f.t = "raw" -> f.v
      [] OTHER -> <<>>

\* the bytes of a field sequence (divide and conquer keeps long files cheap)
RECURSIVE RunsDC(_, _, _)
RunsDC(fs, lo, hi) ==
    IF lo > hi THEN <<>>
    ELSE IF lo = hi THEN FieldRuns(fs[lo])
    ELSE LET mid == (lo + hi) \div 2 IN RCat(RunsDC(fs, lo, mid), RunsDC(fs, mid + 1, hi))
Runs(fs) == RunsDC(fs, 1, Len(fs))      \* the bytes before the trailer

\* ------------------------------------------------------------------ entries
\* entry = [name, stage, ct, mt, dev, ino, mode, uid, gid, size, sha, valid, skip, ita, xbit]
\*   ct, mt = [k |-> "int" | "pair" | "float", s |-> limbs, ns |-> limbs, q |-> 0..3]
\*            ("float": s + q/4 seconds as a Python float; "int": whole seconds)
\*   xbit   = the caller already set FLAG_EXTENDED in the in-memory flags (only with skip/ita)
TimeS(t)  == U32(t.s)
TimeNs(t) == CASE t.k = "int" -> <<0, 0>> [] t.k = "pair" -> U32(t.ns) [] OTHER -> N2L(t.q * 250000000)
NormTime(t) == [k |-> "pair", s |-> TimeS(t), ns |-> TimeNs(t), q |-> 0]

Extended(e) == e.skip \/ e.ita
\* the extended bit on disk: set when an extended flag is set, and also when the entry object still
\* carries FLAG_EXTENDED from where it was read (then the extended flags word is written as 0, which
\* git accepts; git itself recomputes the bit from the extended flags)
ExtOnDisk(e) == Extended(e) \/ e.xbit
Flags16(e) == (IF e.valid THEN 8 * NM1 ELSE 0) + (IF ExtOnDisk(e) THEN 4 * NM1 ELSE 0)
              + e.stage * NM1 + (IF Defect = "unsaturated" THEN RLen(e.name) ELSE Min(RLen(e.name), NameMask))
Flags2(e)  == (IF e.skip THEN 16384 ELSE 0) + (IF e.ita THEN 8192 ELSE 0)

\* what a reader hands back for e: every stat field truncated to 32 bits, times (sec, nsec)
Norm(e) == [e EXCEPT !.ct = NormTime(e.ct), !.mt = NormTime(e.mt), !.dev = U32(e.dev), !.ino = U32(e.ino),
                     !.mode = U32(e.mode), !.uid = U32(e.uid), !.gid = U32(e.gid), !.size = U32(e.size),
                     !.xbit = ExtOnDisk(e)]

\* ------------------------------------------------------------------ order
KeyLess(a, b) == RLess(a.name, b.name) \/ (a.name = b.name /\ a.stage < b.stage)

RECURSIVE Sorted(_)
Sorted(S) == IF S = {} THEN <<>>
             ELSE LET m == CHOOSE x \in S : \A y \in S \ {x} : KeyLess(x, y) IN <<m>> \o Sorted(S \ {m})

Ordered(seq) == \A i \in 1..(Len(seq) - 1) : KeyLess(seq[i], seq[i + 1])
Reverse(s) == [i \in 1..Len(s) |-> s[Len(s) + 1 - i]]

\* an entry set is a legal index content iff keys are unique and no path is both merged and unmerged
Legal(S) == \A x \in S, y \in S :
               x # y => /\ ~(x.name = y.name /\ x.stage = y.stage)
                        /\ ~(x.name = y.name /\ (x.stage = 0 \/ y.stage = 0))

\* ------------------------------------------------------------------ layout
EffVersion(v, S) == IF v < 3 /\ \E e \in S : Extended(e) THEN 3 ELSE v

EntryFields(e, v, prev) ==
    LET xb == IF ExtOnDisk(e) THEN 2 ELSE 0
        fixed == <<F32(TimeS(e.ct)), F32(TimeNs(e.ct)), F32(TimeS(e.mt)), F32(TimeNs(e.mt)),
                   F32(e.dev), F32(e.ino), F32(e.mode), F32(e.uid), F32(e.gid), F32(e.size),
                   Raw(e.sha), F16(Flags16(e))>>
                 \o (IF ExtOnDisk(e) THEN <<F16(Flags2(e))>> ELSE <<>>)
    IN  IF v >= 4
        THEN LET c == RCommon(prev, e.name) IN
             fixed \o <<Raw(ToRuns(OffVarint(RLen(prev) - c))), Raw(RDrop(e.name, c)), Raw(Rep(0, 1))>>
        ELSE LET sz == 62 + xb + RLen(e.name) IN
             fixed \o <<Raw(e.name), Raw(Rep(0, 8 - (sz % 8)))>>

\* entry i is compressed (version 4) against the name of entry i-1
RECURSIVE EntriesDC(_, _, _, _)
EntriesDC(es, v, lo, hi) ==
    IF lo > hi THEN <<>>
    ELSE IF lo = hi THEN EntryFields(es[lo], v, IF lo = 1 THEN <<>> ELSE es[lo - 1].name)
    ELSE LET mid == (lo + hi) \div 2 IN EntriesDC(es, v, lo, mid) \o EntriesDC(es, v, mid + 1, hi)
EntriesFields(es, v) == EntriesDC(es, v, 1, Len(es))

\* extension = [sig |-> runs (4 bytes), data |-> runs]
ExtFields(x) == <<Raw(x.sig), F32(N2L(RLen(x.data))), Raw(x.data)>>
RECURSIVE ExtsFields(_, _)
ExtsFields(xs, i) == IF i > Len(xs) THEN <<>> ELSE ExtFields(xs[i]) \o ExtsFields(xs, i + 1)

Dirc == ToRuns(<<68, 73, 82, 67>>)
HeaderFields(v, n) == <<Raw(Dirc), F32(N2L(v)), F32(N2L(n))>>
Trailer(skip) == IF skip THEN Raw(Rep(0, 20)) ELSE Sha1Fld

\* entry region only (what is compared with an index git wrote, whatever extensions follow)
EntryRegion(v, es) == HeaderFields(v, Len(es)) \o EntriesFields(es, v)

LayoutOf(v, skip, es, xs) == EntryRegion(v, es) \o ExtsFields(xs, 1) \o <<Trailer(skip)>>

\* case = [v, skip, ents (set), exts (sequence)]
Layout(c) == LayoutOf(EffVersion(c.v, c.ents), c.skip, Sorted(c.ents), c.exts)
MapNorm(es) == [i \in 1..Len(es) |-> Norm(es[i])]
Expect(c) == MapNorm(Sorted(c.ents))

\* extensions: optional ones have an upper-case signature; TREE/REUC/UNTR (and the threading
\* helpers EOIE/IEOT) are caches a writer may drop; everything else upper-case is unknown to
\* dulwich and has to survive a read/write cycle verbatim and in order
Sig(a, b, c, d) == ToRuns(<<a, b, c, d>>)
TREE == Sig(84, 82, 69, 69)
REUC == Sig(82, 69, 85, 67)
UNTR == Sig(85, 78, 84, 82)
IsUpper(sig) == \A i \in 1..Len(sig) : sig[i][1] >= 65 /\ sig[i][1] <= 90
Unknown(x) == IsUpper(x.sig) /\ x.sig \notin {TREE, REUC, UNTR}
MustKeep(x) == Unknown(x) /\ x.data # <<>>
\* what dulwich's writer keeps today (shape only): drops the TREE/REUC stubs and empty payloads
SDIR == Sig(115, 100, 105, 114)        \* "sdir": sparse index marker, mandatory, empty payload
Keeps(x) == x.sig \notin {TREE, REUC} /\ (x.data # <<>> \/ x.sig = SDIR)

\* ------------------------------------------------------------------ byte-level reader (lemma)
B16(s, p) == s[p] * 256 + s[p + 1]
L32(s, p) == <<B16(s, p), B16(s, p + 2)>>
B32(s, p) == (B16(s, p) * 65536) + B16(s, p + 2)       \* small values only

RECURSIVE NulAt(_, _)
NulAt(s, p) == IF p > Len(s) THEN 0 ELSE IF s[p] = 0 THEN p ELSE NulAt(s, p + 1)

\* git's decode_varint: returns <<value, next position>>
RECURSIVE DecOV(_, _, _)
DecOV(s, p, acc) == IF s[p] >= 128 THEN DecOV(s, p + 1, (acc + 1) * 128 + (s[p + 1] % 128)) ELSE <<acc, p + 1>>
DecodeOV(s, p) == DecOV(s, p, s[p] % 128)

PTime(s, p) == [k |-> "pair", s |-> L32(s, p), ns |-> L32(s, p + 4), q |-> 0]

\* one entry at position p: [e |-> entry, next |-> position after it, ok |-> well-formed]
ParseEntry(s, p, v, prev) ==
    LET fl    == B16(s, p + 60)
        nl    == fl % NM1
        stage == (fl \div NM1) % 4
        ext   == ((fl \div (4 * NM1)) % 2) = 1
        valid == ((fl \div (8 * NM1)) % 2) = 1
        fl2   == IF ext THEN B16(s, p + 62) ELSE 0
        np    == IF ext THEN p + 64 ELSE p + 62
        base  == [name |-> <<>>, stage |-> stage, ct |-> PTime(s, p), mt |-> PTime(s, p + 8),
                  dev |-> L32(s, p + 16), ino |-> L32(s, p + 20), mode |-> L32(s, p + 24),
                  uid |-> L32(s, p + 28), gid |-> L32(s, p + 32), size |-> L32(s, p + 36),
                  sha |-> ToRuns(SubSeq(s, p + 40, p + 59)), valid |-> valid,
                  skip |-> ((fl2 \div 16384) % 2) = 1, ita |-> ((fl2 \div 8192) % 2) = 1, xbit |-> ext]
    IN  IF v >= 4
        THEN LET d    == DecodeOV(s, np)
                 nul  == NulAt(s, d[2])
                 name == RCat(RTake(prev, RLen(prev) - d[1]), ToRuns(SubSeq(s, d[2], nul - 1)))
             IN  [e |-> [base EXCEPT !.name = name], next |-> nul + 1,
                  ok |-> nul # 0 /\ d[1] <= RLen(prev) /\ (nl < NameMask => RLen(name) = nl)
                         /\ (nl = NameMask => RLen(name) >= NameMask)]
        ELSE LET len  == IF nl < NameMask THEN nl ELSE NulAt(s, np) - np
                 size == (np - p) + len
             IN  [e |-> [base EXCEPT !.name = ToRuns(SubSeq(s, np, np + len - 1))],
                  next |-> p + ((size + 8) \div 8) * 8,
                  ok |-> \A q \in (np + len)..(p + ((size + 8) \div 8) * 8 - 1) : s[q] = 0]

RECURSIVE ParseEntries(_, _, _, _, _)
ParseEntries(s, p, v, n, prev) ==
    IF n = 0 THEN [es |-> <<>>, next |-> p, ok |-> TRUE]
    ELSE LET r    == ParseEntry(s, p, v, prev)
             rest == ParseEntries(s, r.next, v, n - 1, r.e.name)
         IN  [es |-> <<r.e>> \o rest.es, next |-> rest.next, ok |-> r.ok /\ rest.ok]

RECURSIVE ParseExts(_, _)
ParseExts(s, p) ==
    IF p > Len(s) THEN <<>>
    ELSE LET n == B32(s, p + 4) IN
         <<[sig |-> ToRuns(SubSeq(s, p, p + 3)), data |-> ToRuns(SubSeq(s, p + 8, p + 7 + n))]>>
         \o ParseExts(s, p + 8 + n)

\* s = the bytes before the trailer
Parse(s) ==
    LET v == B32(s, 5)
        r == ParseEntries(s, 13, v, B32(s, 9), <<>>)
    IN  [magic |-> ToRuns(SubSeq(s, 1, 4)) = Dirc, v |-> v, es |-> r.es, ok |-> r.ok,
         exts |-> ParseExts(s, r.next)]

\* The trailer is H(body) for an injective H (SHA-1 is trusted, see DESIGN section 4), modelled
\* as the body itself; a skipHash trailer is "zeros" and accepts anything.
Accepts(body, trailer) == trailer = <<"zeros">> \/ trailer = <<"H", body>>
\* The reader has a configuration of its own (index.skipHash / feature.manyFiles: rsk).  It only says
\* what the reader WRITES; what it accepts is decided by the file: a trailer that is not all zeros
\* is a checksum and is verified by every reader (git: verify_hdr skips only the null hash).
AcceptsR(rsk, body, trailer) == IF Defect = "readerskips" /\ rsk THEN TRUE ELSE Accepts(body, trailer)
Damage(s, i) == [s EXCEPT ![i] = (s[i] + 1) % 256]

\* ------------------------------------------------------------------ case universes
One == <<0, 1>>
T0 == [k |-> "pair", s |-> <<0, 0>>, ns |-> <<0, 0>>, q |-> 0]
TP(s, ns) == [k |-> "pair", s |-> s, ns |-> ns, q |-> 0]

BaseEntry(name, stage) ==
    [name |-> name, stage |-> stage, ct |-> TP(<<0, 1>>, <<0, 2>>), mt |-> TP(<<0, 3>>, <<0, 4>>),
     dev |-> <<0, 5>>, ino |-> N2L(RLen(name)), mode |-> <<0, 33188>>, uid |-> <<0, 7>>, gid |-> <<0, 8>>,
     size |-> <<0, 9 + stage>>, sha |-> Rep(16 + stage, 20),
     valid |-> FALSE, skip |-> FALSE, ita |-> FALSE, xbit |-> FALSE]

S(seq) == ToRuns(seq)
\* a = 97 b = 98 d = 100 e = 101 f = 102 / = 47 . = 46 0 = 48
NamesSmall == { S(<<97>>), S(<<97, 46, 98>>), S(<<97, 47, 98>>), S(<<97, 48>>), S(<<97, 98>>),
                S(<<255>>), S(<<195, 40, 10, 32>>) }
NamesLong == { Rep(97, NameMask - 1), Rep(97, NameMask), Rep(97, NameMask + 1), Rep(97, NameMask + 2),
               RCat(Rep(97, NameMask), S(<<47, 98>>)) }
DE(k) == RCat(S(<<100, 47>>), Rep(101, k))
NamesStrip == { DE(127), DE(128), DE(129), S(<<100, 47, 102>>) }
QR(k) == RCat(S(<<113, 47>>), Rep(114, k))
NamesStrip3 == { QR(16511), QR(16512), S(<<113, 47, 115>>) }

NamesQuick == { S(<<97>>), S(<<97, 47, 98>>), S(<<97, 48>>), S(<<255>>), Rep(97, NameMask), Rep(97, NameMask + 1),
                DE(128), S(<<100, 47, 102>>) }
NamesThree == { S(<<97, 46, 98>>), S(<<97, 98>>), S(<<195, 40, 10, 32>>), Rep(97, NameMask - 1), Rep(97, NameMask + 2),
                RCat(Rep(97, NameMask), S(<<47, 98>>)), DE(127), DE(129) }
NamesAll == NamesSmall \cup NamesLong \cup NamesStrip \cup NamesStrip3

KeySets(Names, K) ==
    LET Keys == { BaseEntry(n, st) : n \in Names, st \in 0..3 }
        Opt  == { {} } \cup { {k} : k \in Keys }
        Sets == IF K <= 2 THEN { a \cup b : a \in Opt, b \in Opt }
                ELSE { a \cup b \cup c : a \in Opt, b \in Opt, c \in Opt }
    IN  { X \in Sets : Legal(X) }

Case(v, skip, ents, exts) == [v |-> v, skip |-> skip, ents |-> ents, exts |-> exts]

CasesNames(Names) == { Case(v, FALSE, X, <<>>) : v \in {2, 3, 4}, X \in KeySets(Names, MaxKeys) }

\* flag bits x stage x name-length class x version x skipHash (a fixed neighbour sorts after)
CasesFlags ==
    { Case(v, sk, { [BaseEntry(n, st) EXCEPT !.valid = va, !.skip = sw, !.ita = it, !.xbit = xb] }
                  \cup (IF nb THEN { BaseEntry(S(<<255>>), 0) } ELSE {}), <<>>) :
        v \in {2, 3, 4}, sk \in BOOLEAN, n \in { S(<<97>>), Rep(97, NameMask), Rep(97, NameMask + 1) }, st \in 0..3,
        va \in BOOLEAN, sw \in BOOLEAN, it \in BOOLEAN, xb \in BOOLEAN, nb \in BOOLEAN }
CasesFlagsLegal == { c \in CasesFlags : \A e \in c.ents : e.xbit => Extended(e) }

Big  == { <<0, 0>>, <<0, 1>>, <<65535, 65535>>, <<1, 0, 5>>, <<256, 0, 7>> }     \* 0, 1, 2^32-1, 2^32+5, 2^40+7
Times == { [k |-> "int", s |-> <<0, 0>>, ns |-> <<0, 0>>, q |-> 0],
           [k |-> "int", s |-> <<26214, 26215>>, ns |-> <<0, 0>>, q |-> 0],
           [k |-> "int", s |-> <<65535, 65535>>, ns |-> <<0, 0>>, q |-> 0],
           TP(<<0, 1>>, <<0, 1>>), TP(<<26214, 26215>>, <<15258, 51711>>), TP(<<65535, 65535>>, <<15258, 51711>>),
           [k |-> "float", s |-> <<0, 12>>, ns |-> <<0, 0>>, q |-> 0],
           [k |-> "float", s |-> <<26214, 26215>>, ns |-> <<0, 0>>, q |-> 1],
           [k |-> "float", s |-> <<0, 0>>, ns |-> <<0, 0>>, q |-> 3] }
Modes == { <<0, 33188>>, <<0, 33261>>, <<0, 40960>>, <<0, 57344>>, <<0, 33152>>, <<65535, 65535>> }
Ids   == { <<0, 0>>, <<0, 1000>>, <<65535, 65535>> }

StatCase(v, e) == Case(v, FALSE, { e, BaseEntry(S(<<255>>), 0) }, <<>>)
CasesStat ==
    LET b == BaseEntry(S(<<102>>), 0) IN
       { StatCase(v, [b EXCEPT !.ct = c, !.mt = m]) : v \in {2, 3, 4}, c \in Times, m \in Times }
    \cup { StatCase(v, [b EXCEPT !.dev = d, !.ino = i, !.size = z]) : v \in {2, 3, 4}, d \in Big, i \in Big, z \in Big }
    \cup { StatCase(v, [b EXCEPT !.mode = mo, !.uid = u, !.gid = g]) : v \in {2, 3, 4}, mo \in Modes, u \in Ids, g \in Ids }

\* extensions: the file is rendered from the specification, read by the implementation and written again
Ext(sig, data) == [sig |-> sig, data |-> data]
ExtU == { Ext(TREE, S(<<0, 45, 49, 32, 48, 10>>)),                               \* invalidated root: "" NUL "-1 0" LF
          Ext(REUC, RCat(S(<<120, 0, 49, 48, 48, 54, 52, 52, 0, 48, 0, 48, 0>>), Rep(17, 20))),
          Ext(UNTR, S(<<1, 2, 3>>)),
          Ext(Sig(90, 90, 90, 90), S(<<1, 0, 255, 65, 66>>)),
          Ext(Sig(81, 81, 81, 81), Rep(0, 1)),
          Ext(Sig(88, 89, 90, 65), Rep(120, 300)) }
ExtSeqs == { <<>> } \cup { <<x>> : x \in ExtU } \cup { <<x, y>> \in ExtU \X ExtU : x # y }
           \cup (IF MaxKeys >= 3 THEN { <<x, y, z>> \in ExtU \X ExtU \X ExtU : x # y /\ y # z /\ x # z } ELSE {})
CasesExts ==
    { Case(v, sk, X, xs) : v \in {2, 3, 4}, sk \in BOOLEAN,
                           X \in { {}, { BaseEntry(S(<<97>>), 0) }, { BaseEntry(S(<<97>>), 2), BaseEntry(S(<<97>>), 3), BaseEntry(S(<<98>>), 0) } },
                           xs \in ExtSeqs }

\* lemma universe (NameMask small): names around the saturation point, long shared prefixes, all flag bits
NamesLemma == { S(<<97>>), S(<<97, 47, 98>>), S(<<97, 98>>), S(<<255>>),
                Rep(97, NameMask - 1), Rep(97, NameMask), Rep(97, NameMask + 1), Rep(97, NameMask + 2),
                RCat(Rep(97, NameMask), S(<<47, 98>>)), DE(126), DE(127), DE(128), S(<<100, 47, 102>>) }
LemmaExts == <<Ext(Sig(90, 90, 90, 90), S(<<1, 0, 255>>)), Ext(TREE, <<>>)>>
CasesLemmaOf(Names, SK, XS) ==
    { Case(v, sk, X, xs) : v \in {2, 3, 4}, sk \in SK, X \in KeySets(Names, MaxKeys), xs \in XS }
    \cup { Case(v, FALSE, { [BaseEntry(n, st) EXCEPT !.valid = va, !.skip = sw, !.ita = it, !.dev = <<1, 0, 5>>,
                                                     !.ct = [k |-> "float", s |-> <<1, 2>>, ns |-> <<0, 0>>, q |-> 3]] }, <<>>) :
             v \in {2, 3, 4}, n \in { S(<<97>>), Rep(97, NameMask), Rep(97, NameMask + 1) }, st \in 0..3,
             va \in BOOLEAN, sw \in BOOLEAN, it \in BOOLEAN }
CasesLemma  == CasesLemmaOf(NamesLemma, BOOLEAN, { <<>>, LemmaExts })
\* quick tier: checksummed files with extensions, ten names
CasesLemmaQ == CasesLemmaOf(NamesLemma \ { S(<<97, 98>>), DE(126), Rep(97, NameMask + 2) }, {FALSE}, { LemmaExts })

\* the cases on which the two historical defects of dulwich show (negative controls)
CasesNeg == { Case(v, FALSE, X, <<>>) : v \in {2, 3, 4},
              X \in KeySets({ DE(127), DE(128), S(<<100, 47, 102>>), Rep(97, NameMask), Rep(97, NameMask + 1) }, 2) }

\* ------------------------------------------------------------------ entry objects and edit histories
\* After an index has been read, the in-memory index maps a path to a normal entry object or to a
\* conflict with three slots (ancestor = 1, this = 2, other = 3).  An entry OBJECT is an entry record
\* whose .stage (and .name) are what it carried when it was read: the stage bits stay in its flags.
\* mem = set of [name, slot, obj].  Callers edit the index by re-slotting those objects.  What is
\* written is determined by the SLOT an object sits in, never by the bits it still carries.
Or2(a, b) == (IF a % 2 = 1 \/ b % 2 = 1 THEN 1 ELSE 0) + (IF a \div 2 = 1 \/ b \div 2 = 1 THEN 2 ELSE 0)

MemOf(E) == { [name |-> e.name, slot |-> e.stage, obj |-> e] : e \in E }
SlotsAt(mem, n) == { s \in mem : s.name = n }
Has(mem, n, k) == \E s \in mem : s.name = n /\ s.slot = k
ObjAt(mem, n, k) == (CHOOSE s \in mem : s.name = n /\ s.slot = k).obj
SetObj(mem, n, k, o) == { s \in mem : ~(s.name = n /\ s.slot = k) } \cup { [name |-> n, slot |-> k, obj |-> o] }

\* edit = [op, n (path), a (slot), b (slot), m (other path)]
Ed(op, n, a, b, m) == [op |-> op, n |-> n, a |-> a, b |-> b, m |-> m]
FlagOps == { "setskip", "clearskip", "setita", "clearita" }

EditOK(mem, e) ==
    CASE e.op = "resolve" -> e.a \in 1..3 /\ Has(mem, e.n, e.a)          \* index[n] = index[n].<side a>
      [] e.op = "swap"    -> e.a \in 1..3 /\ e.b \in 1..3 /\ e.a # e.b /\ Has(mem, e.n, e.a)   \* exchange two slots
      [] e.op = "move"    -> SlotsAt(mem, e.n) # {} /\ SlotsAt(mem, e.m) = {}   \* index[m] = index[n]; del index[n]
      [] e.op = "toslot"  -> e.b \in 1..3 /\ e.m # e.n /\ Has(mem, e.n, 0) /\ ~Has(mem, e.m, 0)   \* copy of normal n into slot b of m
      [] e.op \in FlagOps -> Has(mem, e.n, e.a)
      [] OTHER -> FALSE

Apply(mem, e) ==
    CASE e.op = "resolve" -> { s \in mem : s.name # e.n } \cup { [name |-> e.n, slot |-> 0, obj |-> ObjAt(mem, e.n, e.a)] }
      [] e.op = "swap" ->
           { s \in mem : ~(s.name = e.n /\ s.slot \in {e.a, e.b}) }
           \cup { [name |-> e.n, slot |-> e.b, obj |-> ObjAt(mem, e.n, e.a)] }
           \cup (IF Has(mem, e.n, e.b) THEN { [name |-> e.n, slot |-> e.a, obj |-> ObjAt(mem, e.n, e.b)] } ELSE {})
      [] e.op = "move" -> { s \in mem : s.name # e.n } \cup { [s EXCEPT !.name = e.m] : s \in SlotsAt(mem, e.n) }
      [] e.op = "toslot" -> SetObj(mem, e.m, e.b, ObjAt(mem, e.n, 0))
      [] e.op = "setskip" -> SetObj(mem, e.n, e.a, [ObjAt(mem, e.n, e.a) EXCEPT !.skip = TRUE, !.xbit = TRUE])       \* set_skip_worktree(True)
      [] e.op = "clearskip" -> LET o == ObjAt(mem, e.n, e.a) IN                                                     \* set_skip_worktree(False)
                               SetObj(mem, e.n, e.a, [o EXCEPT !.skip = FALSE, !.xbit = IF o.ita THEN o.xbit ELSE FALSE])
      [] e.op = "setita" -> SetObj(mem, e.n, e.a, [ObjAt(mem, e.n, e.a) EXCEPT !.ita = TRUE])     \* extended_flags |= INTEND_TO_ADD
      [] e.op = "clearita" -> SetObj(mem, e.n, e.a, [ObjAt(mem, e.n, e.a) EXCEPT !.ita = FALSE])  \* extended_flags &= ~INTEND_TO_ADD

RECURSIVE AllOK(_, _, _)
AllOK(mem, eds, i) == i > Len(eds) \/ (EditOK(mem, eds[i]) /\ AllOK(Apply(mem, eds[i]), eds, i + 1))
RECURSIVE ApplyAll(_, _, _)
ApplyAll(mem, eds, i) == IF i > Len(eds) THEN mem ELSE ApplyAll(Apply(mem, eds[i]), eds, i + 1)

\* the stage an entry is written with
WrittenStage(s) == IF Defect = "stalestage" THEN Or2(s.slot, s.obj.stage) ELSE s.slot
Written(mem)  == { [s.obj EXCEPT !.name = s.name, !.stage = WrittenStage(s)] : s \in mem }
SlotView(mem) == { [s.obj EXCEPT !.name = s.name, !.stage = s.slot] : s \in mem }

HistNew == S(<<122, 122>>)             \* "zz": a path not in any base index
EditsOf(mem) ==
    LET conf == { s.name : s \in { t \in mem : t.slot > 0 } }
        norm == { s.name : s \in { t \in mem : t.slot = 0 } }
    IN  { e \in
            { Ed("resolve", s.name, s.slot, 0, <<>>) : s \in mem }
            \cup { Ed("swap", s.name, s.slot, b, <<>>) : s \in mem, b \in 1..3 }
            \cup { Ed("move", n, 0, 0, HistNew) : n \in conf \cup norm }
            \cup { Ed("toslot", n, 0, b, m) : n \in norm, b \in 1..3, m \in conf \cup {HistNew} }
            \cup { Ed(op, s.name, s.slot, 0, <<>>) : op \in FlagOps, s \in mem }
          : /\ EditOK(mem, e)
            /\ (e.op = "swap" /\ Has(mem, e.n, e.b) => e.a < e.b)                   \* an exchange once
            /\ (e.op = "setskip" => ~ObjAt(mem, e.n, e.a).skip) /\ (e.op = "clearskip" => ObjAt(mem, e.n, e.a).skip)
            /\ (e.op = "setita" => ~ObjAt(mem, e.n, e.a).ita) /\ (e.op = "clearita" => ObjAt(mem, e.n, e.a).ita) }

\* base indexes: full and partial conflicts next to normal entries that carry flag bits
HA == S(<<97>>)
HB == S(<<98>>)
HC == S(<<99>>)
HistBases ==
    { Case(v, FALSE, X, <<>>) : v \in {2, 3, 4},
        X \in { { BaseEntry(HA, 1), BaseEntry(HA, 2), BaseEntry(HA, 3), BaseEntry(HB, 0),
                  [BaseEntry(HC, 0) EXCEPT !.skip = TRUE, !.xbit = TRUE] },
                { BaseEntry(HA, 2), BaseEntry(HA, 3),
                  [BaseEntry(HB, 0) EXCEPT !.ita = TRUE, !.valid = TRUE, !.xbit = TRUE] },
                { BaseEntry(S(<<100, 47, 102>>), 1), BaseEntry(DE(130), 0) } } }
IsHist(x) == Family \in {"hist", "quick"} /\ x \in HistBases

\* ------------------------------------------------------------------ repository configuration
\* What Repo.open_index() must derive from the configuration (git's repo-settings.c): feature.manyFiles
\* only changes DEFAULTS (index.version 4, index.skipHash true); an explicit index.skipHash /
\* index.version always wins.  index.version applies to an index file that does not exist yet.
Tri == { "unset", "true", "false" }
ConfSkip(mf, sh) == IF Defect = "manyfilesforces" THEN mf = "true" \/ sh = "true"
                    ELSE IF sh # "unset" THEN sh = "true" ELSE mf = "true"
ConfVersion(mf, iv) == IF iv # 0 THEN iv ELSE IF mf = "true" THEN 4 ELSE 2
\* git demotes version 3 to 2 when no entry needs the extended flags (and promotes 2 to 3 when one does)
GitWrites(v, E) == IF v = 4 THEN 4 ELSE IF \E e \in E : Extended(e) THEN 3 ELSE 2
NoConf == [on |-> FALSE, mf |-> "unset", sh |-> "unset", iv |-> 0, gitv |-> 0]
CasesConf ==
    { [v |-> ConfVersion(mf, iv), skip |-> ConfSkip(mf, sh), exts |-> <<>>,
       ents |-> { BaseEntry(S(<<97>>), 0), BaseEntry(S(<<100, 47, 102>>), 2) },
       cf |-> [on |-> TRUE, mf |-> mf, sh |-> sh, iv |-> iv,
               gitv |-> GitWrites(ConfVersion(mf, iv), { BaseEntry(S(<<97>>), 0), BaseEntry(S(<<100, 47, 102>>), 2) })]] :
      mf \in Tri, sh \in Tri, iv \in {0, 2, 3, 4} }
ConfOf(x) == IF "cf" \in DOMAIN x THEN x.cf ELSE NoConf

Cases == CASE Family = "names"  -> CasesNames(NamesAll)
           [] Family = "namesq" -> CasesNames(NamesQuick)
           [] Family = "names3" -> CasesNames(NamesThree)
           [] Family = "flags"  -> CasesFlagsLegal
           [] Family = "stat"   -> CasesStat
           [] Family = "exts"   -> CasesExts
           [] Family = "lemma"  -> CasesLemma
           [] Family = "lemmaq" -> CasesLemmaQ
           [] Family = "neg"    -> CasesNeg
           [] Family = "quick"  -> CasesNames(NamesQuick) \cup CasesFlagsLegal \cup CasesStat \cup CasesExts \cup HistBases
                                   \cup CasesConf
           [] Family = "conf"   -> CasesConf
           [] Family = "hist"   -> HistBases

\* ------------------------------------------------------------------ the enumeration as a state machine
VARIABLES c,        \* the case
          ph,       \* 0: chosen (histories: being edited), 1: laid out
          out,      \* see Compute
          mem,      \* histories: the in-memory index (slots holding entry objects); {} otherwise
          eds       \* histories: the edits applied so far
vars == <<c, ph, out, mem, eds>>

NoHist == [hist |-> FALSE, bv |-> 0, bins |-> <<>>, bfields |-> <<>>, eds |-> <<>>]

Compute(x) ==
    LET es == Sorted(x.ents) IN
    [v      |-> x.v, skip |-> x.skip, exts |-> x.exts,
     effv   |-> EffVersion(x.v, x.ents),
     ins    |-> Reverse(es),                 \* the order in which the entries are handed to the writer
     fields |-> Layout(x),
     expect |-> MapNorm(es),
     \* a read/write cycle through the implementation: the extensions it keeps, the ones it must keep
     keep   |-> SelectSeq(x.exts, Keeps),
     must   |-> SelectSeq(x.exts, MustKeep),
     refields |-> IF x.exts = <<>> THEN <<>>
                  ELSE LayoutOf(EffVersion(x.v, x.ents), x.skip, es, SelectSeq(x.exts, Keeps)),
     h      |-> NoHist, cf |-> ConfOf(x)]

\* a history: base index x written and read (its file: bfields, version bv), edits eds applied to the
\* objects that were read, the result written again.  expect comes from the slots; fields from what
\* the writer takes as the stage (identical unless Defect = "stalestage").
ComputeHist(x, m, ed) ==
    LET bv == EffVersion(x.v, x.ents)
        es == Sorted(SlotView(m))
        fv == EffVersion(bv, SlotView(m))
    IN
    [v      |-> x.v, skip |-> x.skip, exts |-> <<>>,
     effv   |-> fv,
     ins    |-> Reverse(es),
     fields |-> LayoutOf(fv, x.skip, Sorted(Written(m)), <<>>),
     expect |-> MapNorm(es),
     keep   |-> <<>>, must |-> <<>>, refields |-> <<>>,
     h      |-> [hist |-> TRUE, bv |-> bv, bins |-> Reverse(Sorted(x.ents)), bfields |-> Layout(x), eds |-> ed],
     cf     |-> NoConf]

Init == c \in Cases /\ ph = 0 /\ out = <<>> /\ eds = <<>> /\ mem = IF IsHist(c) THEN MemOf(c.ents) ELSE {}

Edit(e) ==
    /\ ph = 0 /\ IsHist(c) /\ Len(eds) < MaxEdits
    /\ EditOK(mem, e)
    /\ mem' = Apply(mem, e)
    /\ eds' = Append(eds, e)
    /\ UNCHANGED <<c, ph, out>>

LayOut ==
    /\ ph = 0 /\ ph' = 1
    /\ out' = IF IsHist(c) THEN ComputeHist(c, mem, eds) ELSE Compute(c)
    /\ UNCHANGED <<c, mem, eds>>

Next == LayOut \/ \E e \in EditsOf(mem) : Edit(e)
Spec == Init /\ [][Next]_vars

\* ------------------------------------------------------------------ properties of the format itself
Done == ph = 1

\* git's order: strictly increasing keys (so keys are unique and stage 0 never mixes with 1..3)
OrderInv == Done => Ordered(out.expect) /\ Len(out.expect) = Cardinality(IF out.h.hist THEN mem ELSE c.ents)

\* histories: whatever an entry object still carries, it is written at the stage of its slot, and a
\* path never ends up both merged and unmerged
StageFromSlot == /\ \A s \in mem : WrittenStage(s) = s.slot
                 /\ Legal(SlotView(mem))

\* configuration: the trailer is a checksum unless skipHash is in force, and an explicit
\* index.skipHash decides alone; feature.manyFiles decides only when index.skipHash is unset
ConfInv ==
    Done /\ out.cf.on =>
        LET zero == out.fields[Len(out.fields)].t # "sha1" IN
        /\ (out.cf.sh = "true" => zero)
        /\ (out.cf.sh = "false" => ~zero)
        /\ (out.cf.sh = "unset" => (zero <=> out.cf.mf = "true"))
        /\ (out.cf.iv # 0 => out.effv = out.cf.iv)
        /\ (out.cf.iv = 0 => out.effv = IF out.cf.mf = "true" THEN 4 ELSE 2)

\* version 2/3 entries are padded with 1..8 NULs to a multiple of 8 (counted from the entry start);
\* the name-length field never spills into the stage bits; version 2 carries no extended flags
ShapeInv ==
    Done => /\ \A i \in 1..Len(out.fields) :
                   out.fields[i].t = "u16" => out.fields[i].v[1] < 65536
            /\ out.effv \in {2, 3, 4}
            /\ (out.effv = 2 => \A i \in 1..Len(out.expect) : ~out.expect[i].xbit)
            /\ (out.effv < 4 => (RLen(Runs(out.fields)) - (IF c.skip THEN 32 ELSE 12)
                                  - RLen(Runs(ExtsFields(c.exts, 1)))) % 8 = 0)

\* the lemma: a reader following git's rules gets back exactly Expect(c), the version, and the extensions
ParseInv ==
    Done => LET body == Expand(Runs(out.fields))
                p    == Parse(IF c.skip THEN SubSeq(body, 1, Len(body) - 20) ELSE body)
            IN  /\ p.magic /\ p.ok
                /\ p.v = out.effv
                /\ p.es = out.expect
                /\ p.exts = c.exts

\* reader configuration x trailer kind: a file with a real trailer is accepted undamaged and rejected
\* with any single damaged byte by readers of BOTH configurations; a file with a zero trailer
\* (written under skipHash) is accepted by both
DamagePoints(body) == { i \in {1, 8, 12, 13, 73, Len(body) \div 2, Len(body) - 1, Len(body)} : i \in 1..Len(body) }
ChecksumInv ==
    Done => LET all  == Expand(Runs(out.fields))
                body == IF c.skip THEN SubSeq(all, 1, Len(all) - 20) ELSE all
            IN  \A rsk \in BOOLEAN :
                  /\ AcceptsR(rsk, body, <<"zeros">>)
                  /\ AcceptsR(rsk, body, <<"H", body>>)
                  /\ \A i \in DamagePoints(body) : ~AcceptsR(rsk, Damage(body, i), <<"H", body>>)
=============================================================================

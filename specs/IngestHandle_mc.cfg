SPECIFICATION Spec
CONSTANTS
  TagAfterParse = TRUE
  MaxAcc = 5
INVARIANT RepeatContained
INVARIANT NothingLost
CHECK_DEADLOCK FALSE

\* WorkTreeConf, repaired variant; the check generates the same configuration with the variant
\* (FixDelete / FixPatch) that the code under test implements and dumps the state graph for replay.
SPECIFICATION Spec
CONSTANTS
  TreeSet <- TreesNames
  Ops <- OpsAll
  MaxLen = 1
  Prots <- AllProts
  FixDelete = TRUE
  FixPatch = TRUE
  CacheTrunc = TRUE
INVARIANT TypeOK
INVARIANT Confined
INVARIANT UnsafeRefused
CONSTRAINT Modelled
CHECK_DEADLOCK FALSE

------------------------------- MODULE Graph -------------------------------
(***************************************************************************)
(* Commit graphs, clocks, and the questions dulwich answers about them.    *)
(*                                                                         *)
(* A history is a triple of sequences of equal length n:                   *)
(*   par[c]  \subseteq 1..c-1   parents of commit c (canonical numbering:  *)
(*                              the numbering is a topological order, so   *)
(*                              every DAG has a representative)            *)
(*   ts[c]   \in Nat \ {0}      commit time; NOT assumed to grow along     *)
(*                              edges (clock skew is a free dimension)     *)
(*   rank[c] \in Nat            position of the commit id in byte order    *)
(*                              (injective); this is how both priority     *)
(*                              queues of dulwich break timestamp ties     *)
(*                                                                         *)
(* Part 1 defines the graph-theoretic answers (the property C13 speaks     *)
(* about).  They do not mention timestamps.                                *)
(* Part 2 transcribes dulwich/graph.py (_find_lcas, find_merge_base,       *)
(* find_octopus_base, can_fast_forward, independent) step for step.        *)
(* Part 3 transcribes dulwich/walk.py (_CommitTimeQueue, Walker._next,     *)
(* _topo_reorder).                                                         *)
(* Part 2 also carries the repaired variant (git's remove_redundant idea,  *)
(* no timestamp cut-off) behind two switches, so that TLC can show that    *)
(* today's algorithm is inexact and the repaired one exact.                *)
(*                                                                         *)
(* Everything is an operator over explicit arguments, so the same text is  *)
(* used by GraphCases (TLC enumerates histories and emits the expected     *)
(* answers that the harness replays on the real functions), by GraphMC     *)
(* (TLC checks the transcribed algorithms against the definitions, one     *)
(* loop iteration per step) and by GraphTrace (TLC judges answers recorded *)
(* from the real code on histories far larger than TLC enumerates).        *)
(***************************************************************************)
EXTENDS Naturals, FiniteSets, Sequences, TLC

CONSTANT MaxExtra     \* walk.py:_MAX_EXTRA_COMMITS (5 in dulwich); a parameter so that TLC can show the
                      \* walk clauses do not depend on the amount of slop

SeqSet(s) == {s[i] : i \in 1..Len(s)}

(***************************************************************************)
(* Part 1 -- the graph-theoretic answers                                   *)
(***************************************************************************)

\* AncTab(par, k)[c] = reflexive-transitive ancestors of c, for c \in 1..k
RECURSIVE AncTab(_, _)
AncTab(par, k) ==
    IF k = 0 THEN <<>>
    ELSE LET t == AncTab(par, k - 1)
         IN  Append(t, {k} \cup UNION {t[p] : p \in par[k]})

Anc(par) == AncTab(par, Len(par))

\* In all operators below A is Anc(par).
IsAncestor(A, a, b) == a \in A[b]                       \* reflexive, like git merge-base --is-ancestor

\* elements of S that are not a proper ancestor of another element of S
Maximal(A, S) == S \ UNION {A[y] \ {y} : y \in S}

\* find_merge_base(repo, [c] + D): common ancestors of c and *any* of D
CommonAnc(A, c, D) == A[c] \cap UNION {A[d] : d \in D}
MergeBases(A, c, D) == Maximal(A, CommonAnc(A, c, D))   \* git merge-base --all c d1 d2 ...

\* find_octopus_base: common ancestors of *all* of S
CommonAncAll(A, S) == {x \in 1..Len(A) : \A s \in S : x \in A[s]}
OctopusBases(A, S) == Maximal(A, CommonAncAll(A, S))    \* git merge-base --all --octopus

Independent(A, S) == Maximal(A, S)                      \* git merge-base --independent

Reach(A, S) == UNION {A[s] : s \in S}
WalkSet(A, I, E) == Reach(A, I) \ Reach(A, E)           \* git rev-list I --not E

\* clock conditions on the part of the history a question looks at
Monotone(par, ts, S)       == \A c \in S : \A p \in par[c] : ts[p] <= ts[c]
StrictlyMonotone(par, ts, S) == \A c \in S : \A p \in par[c] : ts[p] < ts[c]

(* The commit-graph file is an accelerator: a partial map  cg : Commit -> parents (and a         *)
(* generation number) defined on a set S of commits that is closed under "parent of" -- the     *)
(* history that existed when the file was written; commits made afterwards are not in it.       *)
(* A correct file says cg[c] = par[c] for c \in S, so the history seen through it is par itself *)
(* and NO answer defined above may depend on S.  Generation numbers allow one sound shortcut,   *)
(* and only between two commits that are both covered.                                          *)
DownClosed(par, S) == \A c \in S : par[c] \subseteq S
SeenThrough(par, S) == [c \in DOMAIN par |-> IF c \in S THEN par[c] ELSE par[c]]
RECURSIVE GenTab(_, _)
GenTab(par, k) ==
    IF k = 0 THEN <<>>
    ELSE LET t == GenTab(par, k - 1)
             m == IF par[k] = {} THEN 0 ELSE CHOOSE g \in {t[p] : p \in par[k]} : \A p \in par[k] : t[p] <= g
         IN  Append(t, m + 1)
Gen(par) == GenTab(par, Len(par))
GenerationCutoffSound(G, A, S) ==            \* G = Gen(par)
    \A a, b \in S : G[a] > G[b] => ~ IsAncestor(A, a, b)

\* a sequence of commits lists no commit twice / no parent before one of its children
NoDup(s)        == \A i, j \in 1..Len(s) : i # j => s[i] # s[j]
TopoOK(par, s)  == \A i, j \in 1..Len(s) : i < j => s[i] \notin par[s[j]]

(***************************************************************************)
(* Part 2 -- dulwich/graph.py                                              *)
(***************************************************************************)

\* heapq pops the smallest (-time, id): newest first, ties by id
Top(Q, ts, rank) ==
    CHOOSE c \in Q : \A d \in Q : ts[d] < ts[c] \/ (ts[d] = ts[c] /\ rank[c] <= rank[d])

\* stable sort by timestamp, oldest first (results.sort(key=lambda x: x[0]))
RECURSIVE SortTs(_, _)
SortTs(s, ts) ==
    IF s = <<>> THEN <<>>
    ELSE LET x   == s[Len(s)]
             pre == SortTs(SubSeq(s, 1, Len(s) - 1), ts)
             k   == Cardinality({i \in 1..Len(pre) : ts[pre[i]] <= ts[x]})
         IN  SubSeq(pre, 1, k) \o <<x>> \o SubSeq(pre, k + 1, Len(pre))

(* State of _find_lcas: q is the work list as a bag (the heap may hold a   *)
(* commit several times), a1/a2/dnc/lca are the commits whose cstates      *)
(* entry has _ANC_OF_1/_ANC_OF_2/_DNC/_LCA set, cands the candidate list.  *)
LcasInit(n, c1, C2) ==
    [q     |-> [c \in 1..n |-> (IF c = c1 THEN 1 ELSE 0) + (IF c \in C2 THEN 1 ELSE 0)],
     a1    |-> {c1},
     a2    |-> C2,
     dnc   |-> {},
     lca   |-> {},
     cands |-> <<>>]

Queued(s) == {c \in DOMAIN s.q : s.q[c] > 0}

\* _has_candidates: some queued commit is not marked _DNC
HasCand(s) == \E c \in Queued(s) : c \notin s.dnc

\* one iteration of the while loop (graph.py:161-203)
LcasStep(par, ts, rank, minStamp, s) ==
    LET c    == Top(Queued(s), ts, rank)
        cand == c \in s.a1 /\ c \in s.a2 /\ c \notin s.dnc
        f1   == c \in s.a1
        f2   == c \in s.a2
        fd   == c \in s.dnc \/ cand                  \* cflags | _DNC for a candidate
        push == {p \in par[c] :
                   /\ ~ ((f1 => p \in s.a1) /\ (f2 => p \in s.a2) /\ (fd => p \in s.dnc))
                   /\ ts[p] >= minStamp}
    IN  [q     |-> [d \in DOMAIN s.q |-> IF d = c THEN s.q[d] - 1
                                         ELSE IF d \in push THEN s.q[d] + 1 ELSE s.q[d]],
         a1    |-> IF f1 THEN s.a1 \cup push ELSE s.a1,
         a2    |-> IF f2 THEN s.a2 \cup push ELSE s.a2,
         dnc   |-> IF fd THEN s.dnc \cup push ELSE s.dnc,
         lca   |-> IF cand THEN s.lca \cup {c} ELSE s.lca,
         cands |-> IF cand /\ c \notin s.lca THEN Append(s.cands, c) ELSE s.cands]

RECURSIVE LcasLoop(_, _, _, _, _)
LcasLoop(par, ts, rank, minStamp, s) ==
    IF HasCand(s) THEN LcasLoop(par, ts, rank, minStamp, LcasStep(par, ts, rank, minStamp, s)) ELSE s

\* graph.py:205-213
LcasResult(s, ts) == SortTs(SelectSeq(s.cands, LAMBDA c : c \notin s.dnc), ts)

FindLcas(par, ts, rank, c1, C2, minStamp) ==
    LcasResult(LcasLoop(par, ts, rank, minStamp, LcasInit(Len(par), c1, C2)), ts)

(***************************************************************************)
(* The two switches below select between dulwich as it is and the repair   *)
(* proposed in out/proposed_fixes/C13-*.diff:                              *)
(*   useMin = TRUE : can_fast_forward passes min_stamp = time of c1        *)
(*   reduce = TRUE : _find_lcas ends with git's remove_redundant step      *)
(* dulwich today = (useMin TRUE, reduce FALSE); repaired = (FALSE, TRUE).  *)
(*                                                                         *)
(* Why the repair is right: the paint-down loop always finds every maximal *)
(* common ancestor (GraphMC: NoLostBase, Superset); when a parent is not   *)
(* older than its child it can stop before a candidate found late has      *)
(* marked its ancestors _DNC, so the list may also contain common          *)
(* ancestors that are not maximal.  Hence, without a timestamp cut-off,    *)
(*   a is an ancestor of one of B  <=>  a is among the candidates of (a,B) *)
(* which gives an exact ancestor test, and with it the filter.             *)
(***************************************************************************)
IsAncAlg(par, ts, rank, a, B) == a \in SeqSet(FindLcas(par, ts, rank, a, B, 0))

RemoveRedundant(par, ts, rank, r) ==
    IF Len(r) <= 1 THEN r
    ELSE SelectSeq(r, LAMBDA x : ~ IsAncAlg(par, ts, rank, x, SeqSet(r) \ {x}))

Lcas(par, ts, rank, c1, C2, minStamp, reduce) ==
    LET r == FindLcas(par, ts, rank, c1, C2, minStamp)
    IN  IF reduce THEN RemoveRedundant(par, ts, rank, r) ELSE r

\* find_merge_base(repo, [c1] + C2)   (C2 non-empty)
FindMergeBase(par, ts, rank, c1, C2, reduce) ==
    IF c1 \in C2 THEN <<c1>> ELSE Lcas(par, ts, rank, c1, C2, 0, reduce)

\* can_fast_forward(repo, c1, c2)
CanFastForward(par, ts, rank, c1, c2, useMin, reduce) ==
    c1 = c2 \/ Lcas(par, ts, rank, c1, {c2}, IF useMin THEN ts[c1] ELSE 0, reduce) = <<c1>>

\* find_octopus_base(repo, ids), ids a sequence of length >= 1
RECURSIVE Flatten(_)
Flatten(ss) == IF ss = <<>> THEN <<>> ELSE Head(ss) \o Flatten(Tail(ss))
RECURSIVE Dedup(_)
Dedup(s) == IF s = <<>> THEN <<>>
            ELSE LET d == Dedup(SubSeq(s, 1, Len(s) - 1))
                 IN  IF s[Len(s)] \in SeqSet(d) THEN d ELSE Append(d, s[Len(s)])
RECURSIVE OctoFold(_, _, _, _, _, _)
OctoFold(par, ts, rank, lcas, rest, reduce) ==
    IF rest = <<>> THEN lcas
    ELSE LET nxt == Flatten([k \in 1..Len(lcas) |-> Lcas(par, ts, rank, Head(rest), {lcas[k]}, 0, reduce)])
         IN  OctoFold(par, ts, rank,
                      IF reduce THEN RemoveRedundant(par, ts, rank, Dedup(nxt)) ELSE nxt,
                      Tail(rest), reduce)
FindOctopusBase(par, ts, rank, ids, reduce) ==
    IF Len(ids) = 1 THEN ids
    ELSE IF Len(ids) = 2 THEN FindMergeBase(par, ts, rank, ids[1], {ids[2]}, reduce)
    ELSE OctoFold(par, ts, rank, <<ids[1]>>, Tail(ids), reduce)

\* independent(repo, ids), ids a duplicate-free sequence
IndependentAlg(par, ts, rank, ids, reduce) ==
    IF Len(ids) <= 1 THEN ids
    ELSE SelectSeq(ids, LAMBDA x :
            \A j \in 1..Len(ids) : ids[j] = x \/ FindMergeBase(par, ts, rank, x, {ids[j]}, reduce) # <<x>>)

(***************************************************************************)
(* Part 3 -- dulwich/walk.py                                               *)
(***************************************************************************)
\* _CommitTimeQueue.__init__: push every include and every exclude
WalkInit(I, E) ==
    [pq |-> I \cup E, seen |-> I \cup E, done |-> {}, excl |-> E,
     last |-> 0, extra |-> MaxExtra, fin |-> FALSE, out |-> <<>>]

\* _exclude_parents: mark parents excluded; keep going through parents that were not excluded
\* before and have been pushed at some time
RECURSIVE ExclExpand(_, _, _, _)
ExclExpand(par, seen, excl, frontier) ==
    IF frontier = {} THEN excl
    ELSE LET ps == UNION {par[c] : c \in frontier}
         IN  ExclExpand(par, seen, excl \cup ps, {p \in ps : p \notin excl /\ p \in seen})

\* one iteration of the while loop of _step (since = 0 stands for None)
WalkStep(par, ts, rank, since, s) ==
    IF s.pq = {} THEN [s EXCEPT !.fin = TRUE]
    ELSE
    LET c      == Top(s.pq, ts, rank)
        pq1    == s.pq \ {c}
        done1  == s.done \cup {c}
        newp   == {p \in par[c] : p \notin pq1 /\ p \notin done1}
        pq2    == pq1 \cup newp
        seen1  == s.seen \cup newp
        isEx   == c \in s.excl
        excl1  == IF isEx THEN ExclExpand(par, seen1, s.excl, {c}) ELSE s.excl
        reset0 == IF isEx /\ pq2 # {} /\ pq2 \subseteq excl1
                  THEN s.last # 0 /\ ts[Top(pq2, ts, rank)] >= ts[s.last]
                  ELSE TRUE
        reset  == reset0 /\ ~ (since > 0 /\ ts[c] < since)
        extra1 == IF reset THEN MaxExtra ELSE s.extra - 1
        brk    == ~ reset /\ extra1 = 0
    IN  [pq |-> pq2, seen |-> seen1, done |-> done1, excl |-> excl1,
         last  |-> IF brk \/ isEx THEN s.last ELSE c,
         extra |-> extra1,
         fin   |-> brk,
         out   |-> IF brk \/ isEx THEN s.out ELSE Append(s.out, c)]

RECURSIVE WalkLoop(_, _, _, _, _)
WalkLoop(par, ts, rank, since, s) ==
    IF s.fin THEN s ELSE WalkLoop(par, ts, rank, since, WalkStep(par, ts, rank, since, s))

\* what the queue hands to Walker._next, in order (buffered mode re-filters at the end;
\* streaming mode only exists with an empty exclude set, where the filter is vacuous)
QueueOut(par, ts, rank, I, E, since) ==
    LET s == WalkLoop(par, ts, rank, since, WalkInit(I, E))
    IN  SelectSeq(s.out, LAMBDA c : c \notin s.excl)

\* Walker._next/_should_return without paths: since/until filter, then max_entries (0 = None)
Prefix(s, k) == IF k = 0 \/ k >= Len(s) THEN s ELSE SubSeq(s, 1, k)
WalkDate(par, ts, rank, I, E, since, until, maxE) ==
    Prefix(SelectSeq(QueueOut(par, ts, rank, I, E, since),
                     LAMBDA c : (since = 0 \/ ts[c] >= since) /\ (until = 0 \/ ts[c] <= until)),
           maxE)

\* _topo_reorder.  Parents are listed in increasing index order by the harness, and
\* deque.appendleft reverses the order of the parents released by one commit.
RECURSIVE Desc(_)
Desc(S) == IF S = {} THEN <<>>
           ELSE LET m == CHOOSE x \in S : \A y \in S : y <= x IN <<m>> \o Desc(S \ {m})
TopoInit(par, s) ==
    [todo |-> s, pend |-> {}, out |-> <<>>,
     nc   |-> [c \in 1..Len(par) |-> Cardinality({i \in 1..Len(s) : c \in par[s[i]]})]]
TopoStep(par, s) ==
    LET e == Head(s.todo) IN
    IF s.nc[e] > 0
    THEN [s EXCEPT !.todo = Tail(s.todo), !.pend = s.pend \cup {e}]
    ELSE LET nc1 == [c \in DOMAIN s.nc |-> IF c \in par[e] THEN s.nc[c] - 1 ELSE s.nc[c]]
             rel == {p \in par[e] : nc1[p] = 0 /\ p \in s.pend}
         IN  [todo |-> Desc(rel) \o Tail(s.todo), pend |-> s.pend \ rel, nc |-> nc1,
              out |-> Append(s.out, e)]
RECURSIVE TopoLoop(_, _)
TopoLoop(par, s) == IF s.todo = <<>> THEN s ELSE TopoLoop(par, TopoStep(par, s))
TopoReorder(par, s) == TopoLoop(par, TopoInit(par, s)).out

RevSeq(s) == [i \in 1..Len(s) |-> s[Len(s) + 1 - i]]

\* list(Walker(store, I, exclude=E, order=, reverse=, max_entries=, since=, until=))
Walk(par, ts, rank, I, E, topo, rev, since, until, maxE) ==
    LET d == WalkDate(par, ts, rank, I, E, since, until, maxE)
        o == IF topo THEN TopoReorder(par, d) ELSE d
    IN  IF rev THEN RevSeq(o) ELSE o

=============================================================================

SPECIFICATION Spec
CONSTANTS
  Family = "frames"
INVARIANT Theorems
CHECK_DEADLOCK FALSE

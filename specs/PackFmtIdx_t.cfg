SPECIFICATION Spec
CONSTANTS
  MaxN = 3
  LargeMsbOnly = FALSE
INVARIANT Lemma
CHECK_DEADLOCK FALSE

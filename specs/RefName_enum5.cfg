SPECIFICATION EnumSpec
CONSTANTS
  MaxTokens = 5
INVARIANT Sane
CHECK_DEADLOCK FALSE

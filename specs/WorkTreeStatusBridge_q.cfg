SPECIFICATION Spec
CONSTANTS
  BCells <- CellsQ
INVARIANT TreeIdentifiesMap
INVARIANT StagedIsTreeDiff
CHECK_DEADLOCK FALSE

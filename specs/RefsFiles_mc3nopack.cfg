SPECIFICATION Spec
CONSTANTS
  Actors = {0, 1, 2}
  Menus <- Menus3NoPack
  Inits <- AllInits
  PruneBeforeWrite = FALSE
  LooseBeforePacked = FALSE
  StaleSnapshot = FALSE
  StaleShortcut = FALSE
INVARIANT VisIsAbs
INVARIANT CasSound
INVARIANT ShortcutSound
INVARIANT AddSound
INVARIANT DelSound
INVARIANT ReadSound
INVARIANT NoLockLeft
VIEW View
CHECK_DEADLOCK FALSE

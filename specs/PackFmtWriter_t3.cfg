SPECIFICATION Spec
CONSTANTS
  MaxObjs = 3
  UIds <- UMid
  RowSet <- RowsPairwise
  AllowDup = FALSE
  DedupInput = FALSE
  OfsPlain = FALSE
  EmitMod = 1
  EmitRes = 0
INVARIANT PrefixInv
INVARIANT PackInv
INVARIANT IterInv
INVARIANT IdxInv
INVARIANT GitInv
INVARIANT CountInv
CHECK_DEADLOCK FALSE

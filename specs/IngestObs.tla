------------------------------ MODULE IngestObs ------------------------------
(***************************************************************************)
(* C04 -- observation predicate for a SEQUENCE of accesses on one          *)
(* long-lived handle (a DiskRefsContainer, an Index, an object store with  *)
(* its cached pack / commit-graph / multi-pack-index / bitmap handles).    *)
(* Shared by IngestHandle (the model) and IngestTrace (judgement of what   *)
(* the real code did).                                                     *)
(*                                                                         *)
(* acc is a sequence of [k, r]: k names the access (the same k = the same  *)
(* question asked of the same handle; "write" = a rewrite of the artefact  *)
(* derived from the handle's view), r is                                   *)
(*   "error"    the access raised (for a write: and the file is unchanged) *)
(*   "same"     the answer the undamaged artefact gives                    *)
(*   "pristine" the answer of a handle that has never read anything        *)
(*   "differs"  anything else: partial or wrong data (for a write: the     *)
(*              artefact was rewritten from such a view)                   *)
(* Containment of a failed read must last: once a question has failed,     *)
(* asking it again gives the failure again or the complete answer, never   *)
(* the half-parsed prefix; and nothing is written from a view whose read   *)
(* has failed.                                                             *)
(***************************************************************************)
EXTENDS Integers, Sequences

RepeatObs(acc) ==
  /\ \A i, j \in 1..Len(acc) :
       (i < j /\ acc[i].k = acc[j].k /\ acc[i].r = "error") => acc[j].r \in {"error", "same", "pristine"}
  /\ \A j \in 1..Len(acc) :
       (acc[j].k = "write" /\ \E i \in 1..(j - 1) : acc[i].r = "error") => acc[j].r \in {"error", "same"}
=============================================================================

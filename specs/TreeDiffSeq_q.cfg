SPECIFICATION Spec
CONSTANTS
  SPaths <- ThreePaths
  SCells <- SimCells
  SMax = 2
  MaxFiles = 1
  Stale = FALSE
INVARIANT Lemmas
VIEW View
CHECK_DEADLOCK FALSE

SPECIFICATION Spec
CONSTANTS
  NameMask = 4095
  Family = "conf"
  MaxKeys = 0
  MaxEdits = 0
  Defect = "none"
INVARIANT OrderInv
INVARIANT ShapeInv
INVARIANT ConfInv
INVARIANT ParseInv
CHECK_DEADLOCK FALSE

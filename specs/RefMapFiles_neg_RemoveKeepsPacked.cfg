SPECIFICATION FSpec
CONSTANTS
  Names <- Names3
  Values = {"v1", "v2"}
  MaxDepth = 5
  Defects <- DefRemoveKeepsPacked
INVARIANT TypeOKF
PROPERTY Refines
VIEW GraphView
CHECK_DEADLOCK FALSE

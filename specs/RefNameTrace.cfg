SPECIFICATION CaseSpec
CONSTANTS
  MaxTokens = 0
CHECK_DEADLOCK FALSE

SPECIFICATION Spec
CONSTANTS
  MinN = 1
  MaxN = 1
  AttrMode = 1
  Modes = {2}
  CycleGuard = TRUE
  MemAtomic = TRUE
  DiskVerify = FALSE
  Emit = FALSE
INVARIANT Terminates
INVARIANT ErrorOrAll
INVARIANT FailedInvisible
INVARIANT TrailerChecked
INVARIANT ValidAccepted
CHECK_DEADLOCK FALSE

SPECIFICATION TraceSpec
CONSTANTS
  Paths <- TracePaths
  Trees <- NoTrees
  NewCells <- NoCells
  Contents <- NoContents
  MaxEdits = 1000000
  EditBound <- NoBound
  Acts <- TraceActs
  ModeBlind = FALSE
  LinkBlind = FALSE
CHECK_DEADLOCK FALSE

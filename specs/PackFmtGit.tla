----------------------------- MODULE PackFmtGit -----------------------------
(***************************************************************************)
(* Histories handed to C git's pack-objects (the reverse direction of      *)
(* C02: dulwich reads every pack C git writes, however deep its delta      *)
(* chains).  Every initial state is one scenario: a linear history of nver *)
(* versions of nfiles files of about `size` bytes edited in one of three   *)
(* ways, packed with --depth / --window / --delta-base-offset / --thin,    *)
(* in one of the two hash formats.  The specification's expectations about *)
(* what git may write (they are checked against git itself, never against  *)
(* dulwich): no delta at all when depth or window is 0; chains no deeper   *)
(* than depth; REF_DELTA entries only without --delta-base-offset or for   *)
(* thin bases; outside bases only with --thin.                             *)
(***************************************************************************)
EXTENDS Integers, Sequences

CONSTANTS Vers, Sizes, Depths, Windows, Oids

VARIABLES nver, nfiles, size, depth, window, ofs, thin, edit, oid, nodelta, maxdepth, refok, extok
vars == <<nver, nfiles, size, depth, window, ofs, thin, edit, oid, nodelta, maxdepth, refok, extok>>

Init ==
    /\ nver \in Vers /\ nfiles \in {1, 2} /\ size \in Sizes
    /\ depth \in Depths /\ window \in Windows
    /\ ofs \in BOOLEAN /\ thin \in BOOLEAN
    /\ edit \in {"line", "append", "insert"}
    /\ oid \in Oids
    /\ (thin => nver >= 2)
    /\ nodelta = (depth = 0 \/ window = 0)       \* every entry is a full object
    /\ maxdepth = depth                          \* no chain is deeper
    /\ refok = (~ofs \/ thin)                    \* REF_DELTA entries may occur
    /\ extok = thin                              \* bases outside the pack may occur
Next == UNCHANGED vars
Spec == Init /\ [][Next]_vars
=============================================================================

SPECIFICATION Spec
CONSTANTS
  Fam = "cdelta"
  MaxLen = 3
  Sel = {}
INVARIANT Lemmas
INVARIANT InModel
CHECK_DEADLOCK FALSE

SPECIFICATION Spec
CONSTANTS
  Layouts = {1, 2, 3}
  MaxOps = 4
  TrustMidx = FALSE
INVARIANT ReadInv
CHECK_DEADLOCK FALSE

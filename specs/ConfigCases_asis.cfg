\* dulwich 671b511 as it is (all variant constants FALSE): TLC finds PropRoundTrip violated (value ";", "\r",
\* VT at an edge) -- the negative control for ConfigCases_mc.cfg.  Without the INVARIANT lines this is the
\* enumeration the harness replays on the real code (-dump <file> gives one state per case, variable j = JSON).
SPECIFICATION Spec
CONSTANTS
  Space = "val"
  MaxLen = 2
  QuoteSemi = FALSE
  CrRaw = FALSE
  QuoteAnySpace = FALSE
  ValueStripGit = FALSE
  HdrEscAware = FALSE
INVARIANT PropRoundTrip
INVARIANT PropInteropDG
INVARIANT PropInteropGD
CHECK_DEADLOCK FALSE

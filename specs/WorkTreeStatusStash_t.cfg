SPECIFICATION SSpec
CONSTANTS
  Paths <- StashPaths
  Trees <- StashTrees
  NewCells <- StashNew
  Contents <- StashContents
  MaxEdits = 6
  EditBound = 4
  Acts <- StashActs
  ModeBlind = FALSE
  LinkBlind = FALSE
INVARIANT TypeOK
INVARIANT StatusExact
INVARIANT CleanIffEqual
INVARIANT Partition
INVARIANT PushClean
INVARIANT NormalCovers
PROPERTY PopRestores
CHECK_DEADLOCK FALSE

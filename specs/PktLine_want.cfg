SPECIFICATION Spec
CONSTANTS
  Family = "want"
INVARIANT Theorems
CHECK_DEADLOCK FALSE

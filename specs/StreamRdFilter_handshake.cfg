SPECIFICATION Spec
CONSTANTS
  Scen = "handshake"
  Gen = TRUE
  EmptyIsFlush = FALSE
INVARIANT ConsumerExact
INVARIANT NeverStarved
INVARIANT EmitLeaf
CHECK_DEADLOCK FALSE

SPECIFICATION Spec
CONSTANTS
  Refs = {1, 2}
  Pushers = {1}
  Inits <- Inits01
  PushIn <- WireNeg
  CasMatch <- CasMatchZeroAny
  CheckCas = TRUE
  CheckObj = TRUE
  AtomicMode = "txn"
  LocalCheckObj = TRUE
  LocalAtomicMode = "txn"
  KeepHist = FALSE
  Emit = FALSE
INVARIANT StatusExact
INVARIANT NoDanglingRef
INVARIANT AtomicOK
CHECK_DEADLOCK FALSE

----------------------------- MODULE DeltaStruct -----------------------------
(***************************************************************************)
(* Structured deltas: families of cases built from op templates, beyond    *)
(* what the byte-level enumeration of DeltaEnum reaches -- size varints of *)
(* 1..11 bytes (padded encodings, values up to 2^77), declared sizes up to *)
(* and beyond 2^63/2^64, copy ops with every one of the 128 operand masks  *)
(* and two values per operand byte against bases that need 3- and 4-byte   *)
(* offsets, copy ops cut after every operand, truncated inserts, opcode 0  *)
(* in every position, ops running past the declared size (including the    *)
(* same 64 KiB copy repeated thousands of times).                          *)
(*                                                                         *)
(* Only the length of the base matters to the op-level decoder; the        *)
(* harness materialises outputs from the segment lists on its own pattern  *)
(* base of that length.  A state = one case; initial states = one root per *)
(* family, the action Pick produces the family's cases.                    *)
(***************************************************************************)
EXTENDS Delta

CONSTANTS Big,       \* TRUE: also the 16 MiB base and the long repetitions
          Only       \* families to generate (a set of names)

RECURSIVE DigitsOf(_)
DigitsOf(n) == IF n = 0 THEN <<>> ELSE <<n % 128>> \o DigitsOf(n \div 128)
Zeros(k) == [j \in 1..k |-> 0]
Pow2D(k) == Zeros(k \div 7) \o <<2 ^ (k % 7)>>
Pow2M1D(k) == [j \in 1..(k \div 7) |-> 127] \o (IF k % 7 = 0 THEN <<>> ELSE <<(2 ^ (k % 7)) - 1>>)
\* d + x, for 0 < x < 128 - d[1]
Plus(d, x) == [d EXCEPT ![1] = @ + x]
\* d + 2^k for Len(d) <= k \div 7
AddPow(d, k) == d \o Zeros((k \div 7) - Len(d)) \o <<2 ^ (k % 7)>>
PadLens(d) == (IF Len(d) = 0 THEN 1 ELSE Len(d))..11

B1 == 300               \* offsets need 2 bytes
B2 == 70000             \* offsets need 3 bytes; a 0x10000 copy fits
B3 == 16777516          \* 2^24 + 300: offsets need 4 bytes

X == 120
Body3 == <<3, 120, 121, 122>>

HdrVals ==
    {DigitsOf(0), DigitsOf(2), DigitsOf(3), DigitsOf(4), DigitsOf(127), DigitsOf(128),
     DigitsOf(16383), DigitsOf(16384), Pow2M1D(21), Pow2D(21), Pow2M1D(28), Pow2D(28),
     Pow2M1D(31), Pow2D(31), Pow2M1D(32), Pow2D(32), Plus(Pow2D(32), 3), Pow2D(35), Pow2D(40),
     Pow2D(47), Pow2D(48), Pow2M1D(49), Pow2D(56), Pow2D(62), Pow2M1D(63), Pow2D(63),
     Plus(Pow2D(63), 3), Pow2M1D(64), Pow2D(64), Plus(Pow2D(64), 3), Pow2D(70),
     Plus(Pow2D(70), 3), Pow2M1D(77)}

\* a case: the delta is pre \o (unit repeated reps times); long repetitions are kept in this
\* compressed form in the state (the harness expands them)
Rep(op, k) == LET n == Len(op) IN [i \in 1..(k * n) |-> op[((i - 1) % n) + 1]]
C(blen, delta) == [blen |-> blen, pre |-> delta, unit |-> <<>>, reps |-> 0]
CR(blen, pre, unit, k) == [blen |-> blen, pre |-> pre, unit |-> unit, reps |-> k]
DeltaOf(c) == IF c.reps = 0 THEN c.pre ELSE c.pre \o Rep(c.unit, c.reps)

\* declared target size: every value, every padded width, with and without a 3-byte insert
FamHdrDst ==
    UNION {UNION {{C(bl, EncSize(bl) \o EncDigits(v, k) \o body) : body \in {<<>>, Body3}}
                  : k \in PadLens(v)} : v \in HdrVals, bl \in {0, B1}}

\* declared source size: padded widths, and values that equal the base length modulo 2^32 / 2^64
FamHdrSrc ==
    UNION {{C(bl, EncDigits(DigitsOf(bl), k) \o EncSize(3) \o Body3) : k \in PadLens(DigitsOf(bl))}
           \cup {C(bl, EncDigits(AddPow(DigitsOf(bl), p), 11) \o EncSize(3) \o Body3) : p \in {32, 63, 64, 70}}
           : bl \in {0, B1}}

\* over-long size headers whose value, computed with a shift count taken modulo 64 (what a 64-bit
\* shift instruction does), equals the real length: limb k (k >= 10, i.e. the 11th byte or later)
\* holds b, so the declared size is at least 2^70 while the "wrapped" size is b * 2^((7k) % 64)
\* (+ the low limbs).  The body produces exactly the wrapped size.  Every decoder must refuse them.
WrapVal(k, b) == b * (2 ^ ((7 * k) % 64))
Produce(t) == IF t <= 127 THEN <<t>> \o [i \in 1..t |-> X] ELSE EncCopy(0, t)
WrapDigits(low, k, b) == low \o Zeros(k - Len(low)) \o <<b>>
FamHdrWrap ==
    \* target size wraps
    UNION {{C(B2, EncSize(B2) \o EncDigits(WrapDigits(low, k, b), k + 1) \o Produce(IntOf(low) + WrapVal(k, b)))
            : low \in {<<>>, <<3>>}, b \in {1, 3}} : k \in {10, 11, 19, 20, 64}}
    \* source size wraps (base of 64 and of 67 bytes), target size plain
    \cup UNION {{C(64 + IntOf(low), EncDigits(WrapDigits(low, k, 1), k + 1) \o EncSize(n) \o body)
                 : low \in {<<>>, <<3>>}, body \in {EncCopy(0, n), Produce(n)}} : k \in {10}, n \in {5, 64}}
    \* both wrap
    \cup {C(64, EncDigits(WrapDigits(<<>>, 10, 1), 11) \o EncDigits(WrapDigits(<<>>, 10, 1), 11) \o EncCopy(0, 64)),
          C(64, EncDigits(WrapDigits(<<>>, 10, 1), 11) \o EncDigits(WrapDigits(<<>>, 19, 2), 20) \o Produce(64))}

\* truncated / degenerate headers
FamHdrTrunc ==
    {C(0, d) : d \in {<<>>, <<128>>, <<255, 255>>, <<0>>, <<0, 128>>, <<0, 255, 255, 255>>,
                      [j \in 1..11 |-> 128], [j \in 1..12 |-> 255], <<0, 0>>, <<128, 0, 128, 0>>}}

\* one copy op: all 128 masks, two values per operand byte
Choices == <<{0, 16}, {0, 1}, {0, 1}, {0, 1}, {0, 5}, {0, 1}, {0, 1}>>
RECURSIVE OpBytes(_, _)
OpBytes(cmd, k) ==
    IF k = 7 THEN {<<>>}
    ELSE IF Bit(cmd, k) THEN {<<x>> \o t : x \in Choices[k + 1], t \in OpBytes(cmd, k + 1)}
    ELSE OpBytes(cmd, k + 1)

CopyCase(bl, op) == C(bl, EncSize(bl) \o EncSize(ParseOp(op, 1).n) \o op)
FamCopy(bl) == UNION {{CopyCase(bl, <<cmd>> \o ob) : ob \in OpBytes(cmd, 0)} : cmd \in 128..255}

\* offsets at and beyond 2^28 / high bytes
FamFar == {CopyCase(B2, <<152, o3, 5>>) : o3 \in {15, 16, 127, 128, 255}}
          \cup {CopyCase(B2, <<159, 255, 255, 255, 255, 5>>), CopyCase(B2, <<255, 255, 255, 255, 255, 255, 255, 255>>)}

\* a copy op cut after j of its p operand bytes
PopCount(cmd) == Cardinality({k \in 0..6 : Bit(cmd, k)})
FamCopyTrunc ==
    UNION {{C(B1, EncSize(B1) \o EncSize(1) \o <<cmd>> \o [i \in 1..j |-> 1]) : j \in 0..(PopCount(cmd) - 1)}
           : cmd \in 129..255}

\* inserts: n announced, k literal bytes present, several declared sizes
FamInsert ==
    UNION {UNION {{C(bl, EncSize(bl) \o EncSize(d) \o <<n>> \o [i \in 1..k |-> X])
                   : d \in {n, k, 0, n + 1}} : k \in {0, 1, n - 1, n}} : n \in {1, 2, 126, 127}, bl \in {0, B1}}

\* opcode 0 in every position of short bodies, with declared sizes that make the prefix complete or not
FamZero ==
    UNION {{C(B1, EncSize(B1) \o EncSize(d) \o body)
            : body \in {<<0>>, <<1, X, 0>>, <<0, 1, X>>, <<144, 2, 0>>, <<0, 144, 2>>, <<1, X, 0, 1, X>>, <<1, 0>>, <<2, 0, 0>>}}
           : d \in {0, 1, 2, 3}}

\* ops running past the declared size
CopyBig == <<129, 1>>           \* offset 1, size 0 = 0x10000
Ins127 == <<127>> \o [i \in 1..127 |-> X]
FamOverrun ==
    UNION {{C(B2, EncSize(B2) \o EncSize(d) \o Rep(CopyBig, k)) : d \in {65536, 65535, 65536 * k, (65536 * k) - 1, 70000}}
           : k \in {1, 2, 3, 64}}
    \cup UNION {{C(0, EncSize(0) \o EncSize(d) \o Rep(Ins127, k)) : d \in {127, 126, 127 * k, (127 * k) + 1, 0}}
                : k \in {1, 2, 3, 64}}
    \cup {C(B1, EncSize(B1) \o EncSize(d) \o <<144, 200, 5, 1, 2, 3, 4, 5, 145, 100, 200>>) : d \in {200, 205, 204, 405, 404, 406}}

\* copies that end one byte before, exactly at, and one byte past the end of the base, alone or
\* followed by a one-byte insert, with declared sizes around what the ops announce
FamEdge ==
    UNION {{C(B1, EncSize(B1) \o EncSize(d) \o EncCopy(e - n, n) \o tail)
            : d \in {n - 1, n, n + 1, n + 2}, tail \in {<<>>, <<1, X>>, <<2, X, X>>}}
           : n \in {1, 5, 299}, e \in {B1 - 1, B1, B1 + 1}}

\* the same 64 KiB copy repeated far beyond a small declared size: output produced by a decoder
\* without a running bound is out of proportion to base + delta
FamAmplify ==
    {CR(B2, EncSize(B2) \o EncSize(d), CopyBig, k) : d \in {65536, 131072}, k \in {4096}}
    \cup {CR(0, EncSize(0) \o EncSize(127), Ins127, 2048)}

FamNames == {"hdrdst", "hdrsrc", "hdrtrunc", "copy3", "far", "copytrunc", "insert", "zero", "overrun", "edge", "hdrwrap"}
            \cup (IF Big THEN {"copy4", "amplify"} ELSE {})
CasesOf(f) ==
    CASE f = "hdrdst" -> FamHdrDst [] f = "hdrsrc" -> FamHdrSrc [] f = "hdrtrunc" -> FamHdrTrunc
      [] f = "copy3" -> FamCopy(B2) [] f = "far" -> FamFar [] f = "copytrunc" -> FamCopyTrunc
      [] f = "insert" -> FamInsert [] f = "zero" -> FamZero [] f = "overrun" -> FamOverrun
      [] f = "copy4" -> FamCopy(B3) [] f = "amplify" -> FamAmplify [] f = "edge" -> FamEdge [] f = "hdrwrap" -> FamHdrWrap

RECURSIVE Flat(_)
Flat(segs) == IF segs = <<>> THEN <<>> ELSE segs[1] \o Flat(Tail(segs))

VARIABLES fam, root, blen, pre, unit, reps, st, why, prod, segs, dst, chas, csegs
vars == <<fam, root, blen, pre, unit, reps, st, why, prod, segs, dst, chas, csegs>>

Init ==
    /\ fam \in FamNames \cap Only /\ root = TRUE
    /\ blen = 0 /\ pre = <<>> /\ unit = <<>> /\ reps = 0 /\ st = "root" /\ why = "" /\ prod = 0 /\ segs = <<>>
    /\ dst = <<>> /\ chas = FALSE /\ csegs = <<>>

Pick(c) ==
    LET delta == DeltaOf(c)
        r == Run(c.blen, delta)
        h == Header(delta)
        k == Cand(c.blen, delta)
    IN /\ root /\ root' = FALSE /\ fam' = fam
       /\ blen' = c.blen /\ pre' = c.pre /\ unit' = c.unit /\ reps' = c.reps
       /\ st' = r.st /\ why' = r.why /\ prod' = r.prod /\ segs' = Flat(r.segs)
       /\ dst' = IF h.ok THEN h.dst ELSE <<0 - 1>>
       /\ chas' = k.has /\ csegs' = Flat(k.segs)

Next == root /\ \E c \in CasesOf(fam) : Pick(c)
Spec == Init /\ [][Next]_vars

InModel == st \in {"root", "ok", "err"}
\* the reference decoder's output satisfies the postcondition (same segments)
RefSatisfiesPost == st = "ok" => (chas /\ csegs = segs)
=============================================================================

SPECIFICATION Spec
CONSTANTS
  Paths <- EditPaths
  Trees <- EditTrees4
  NewCells <- EditNew
  Contents <- EditContents
  MaxEdits = 4
  Acts <- AllActs
  ModeBlind = FALSE
  LinkBlind = FALSE
INVARIANT TypeOK
INVARIANT StatusExact
INVARIANT CleanIffEqual
INVARIANT Partition
INVARIANT RoundTrip
INVARIANT StageAllComplete
INVARIANT StageComplete
INVARIANT NormalCovers
PROPERTY StageAllAfterCheckout
CHECK_DEADLOCK FALSE

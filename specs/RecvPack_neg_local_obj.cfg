SPECIFICATION Spec
CONSTANTS
  Refs = {1, 2}
  Pushers = {1}
  Inits <- Inits01
  PushIn <- LocalAll
  CheckCas = TRUE
  CheckObj = TRUE
  AtomicMode = "txn"
  LocalCheckObj = FALSE
  LocalAtomicMode = "txn"
  KeepHist = FALSE
  Emit = FALSE
INVARIANT StatusExact
INVARIANT NoDanglingRef
INVARIANT AtomicOK
CHECK_DEADLOCK FALSE

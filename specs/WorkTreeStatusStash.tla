------------------------- MODULE WorkTreeStatusStash -------------------------
(***************************************************************************)
(* WorkTreeStatus with a stash (property C18: status stays exact after     *)
(* *any* edit of the working directory or index -- stash push / pop edit   *)
(* both at once and write the stat data status relies on).                 *)
(*                                                                         *)
(*   porcelain.stash_push (Stash.push)   ~ StashPush                       *)
(*   porcelain.stash_pop  (Stash.pop)    ~ StashPop  (git stash pop --index)*)
(*                                                                         *)
(* `stash` holds what one push saved: the HEAD tree it was made on, the    *)
(* index and the tracked part of the directory.  Push leaves index and the *)
(* tracked paths at HEAD; pop (on the same HEAD, tracked paths clean) puts *)
(* both back.  Modelled where nothing tracked was removed (from the index  *)
(* or from the directory) and no file/directory conflict is involved.      *)
(***************************************************************************)
EXTENDS WorkTreeStatus

CONSTANT EditBound      \* edits of the base specification only while n < EditBound

VARIABLE stash
svars == <<vars, stash>>
NoStash == [has |-> FALSE, h |-> Empty(Paths), i |-> Empty(Paths), w |-> Empty(Paths)]

\* what push saves of the directory: the paths the index knows, as they are now
StashWd(i, w) == [p \in DOMAIN i |-> IF i[p] # NoCell THEN w[p] ELSE NoCell]
Saved(h, i, w) == [has |-> TRUE, h |-> h, i |-> i, w |-> StashWd(i, w)]

StashPushOK(h, i, w) ==
    /\ Valid(i)
    /\ h # i \/ \E p \in Present(i) : w[p] # i[p]           \* there is something to stash
    /\ \A p \in Present(h) : i[p] # NoCell                   \* nothing removed from the index
    /\ \A p \in Present(i) : w[p] # NoCell                   \* every tracked path is a file or link of the directory
    /\ \A p \in Present(i) : i[p] # h[p] => w[p] # h[p]      \* what is staged at a path is not undone in the directory
    /\ NoCollision({u \in Present(w) : u \notin Tracked(h, i)}, h)
    /\ NoCollision({u \in Present(w) : u \notin Tracked(h, i)}, i)

StashPopOK(s, h, i, w) ==
    /\ s.has /\ s.h = h /\ i = h
    /\ \A p \in Present(i) : w[p] = i[p]                     \* tracked paths clean
    /\ NoCollision({u \in Present(w) : i[u] = NoCell}, s.i)  \* no untracked file in the way

PopIndex(s) == s.i
PopWd(s, w) == [p \in DOMAIN w |-> IF s.i[p] # NoCell THEN s.w[p] ELSE w[p]]

StashPush ==
    /\ "StashPush" \in Acts /\ Tick /\ ~stash.has
    /\ StashPushOK(head, index, wd)
    /\ stash' = Saved(head, index, wd)
    /\ index' = head /\ wd' = WdTo(head, index, wd, head)
    /\ Step("StashPush", NoPath, NoPath, NoCell) /\ UNCHANGED head /\ Observe

StashPop ==
    /\ "StashPop" \in Acts /\ Tick
    /\ StashPopOK(stash, head, index, wd)
    /\ index' = PopIndex(stash) /\ wd' = PopWd(stash, wd)
    /\ stash' = NoStash
    /\ Step("StashPop", NoPath, NoPath, NoCell) /\ UNCHANGED head /\ Observe

SInit == Init /\ stash = NoStash
SNext ==
    \/ (last.act = "Init" \/ n < EditBound) /\ Next /\ UNCHANGED stash
    \/ StashPush \/ StashPop
SSpec == SInit /\ [][SNext]_svars

\* ---- properties
\* right after a push the tracked paths are at HEAD and nothing tracked is reported
PushClean ==
    last.act = "StashPush" =>
        /\ index = head /\ \A p \in Present(head) : wd[p] = head[p]
        /\ rep.add = {} /\ rep.del = {} /\ rep.mod = {} /\ rep.unstaged = {}
\* a pop right after the push gives back the index and the tracked paths, hence the same report
PopRestores ==
    [][(last.act = "StashPush" /\ last'.act = "StashPop") =>
          (index' = stash.i /\ \A p \in Present(stash.i) : wd'[p] = stash.w[p])]_svars
=============================================================================

SPECIFICATION FSpec
CONSTANTS
  Names <- Names3
  Values = {"v1", "v2"}
  MaxDepth = 5
  Defects <- DefAddNoPackedProbe
INVARIANT CollisionFree
VIEW GraphView
CHECK_DEADLOCK FALSE

---------------------------- MODULE TransferOps ----------------------------
(***************************************************************************)
(* C05 -- operators shared by Transfer (the transfer as a state machine,   *)
(* model checked), TransferCases (case enumeration for replay on the real  *)
(* code) and TransferTrace (judging recorded real transfers):              *)
(*                                                                         *)
(* Part 1  object universe (commits, trees with shared subtrees and blobs, *)
(*         gitlinks, annotated tags and tag chains), stores, closures.     *)
(* Part 2  MissingObjectFinder (dulwich/object_store.py) transcribed:      *)
(*         _split_commits_and_tags, get_reachable_commits,                 *)
(*         _collect_ancestors, remote_has, the work-set iteration          *)
(*         (__next__) with sha_done, leaf entries and include-tag.         *)
(* Part 3  the have/ACK negotiation: ObjectStoreGraphWalker (client),      *)
(*         find_common_revisions + Single/Multi/MultiAckDetailed graph     *)
(*         walker implementations (server.py).                             *)
(***************************************************************************)
EXTENDS Integers, Sequences, FiniteSets, TLC

CONSTANT Bug     \* "none", or a seeded defect of the model (negative controls)

(***************************************************************************)
(* Part 1 -- objects                                                        *)
(***************************************************************************)
C(i) == <<"c", i>>
T(i) == <<"t", i>>
B(i) == <<"b", i>>
G(i) == <<"g", i>>
Kind(o) == o[1]
Num(o)  == o[2]
Rank(o) == (CASE Kind(o) = "c" -> 0 [] Kind(o) = "g" -> 1 [] Kind(o) = "t" -> 2 [] OTHER -> 3) * 1000 + Num(o)
Least(S) == CHOOSE o \in S : \A p \in S : Rank(o) <= Rank(p)
RECURSIVE SetToSeqLeast(_)
SetToSeqLeast(S) == IF S = {} THEN <<>> ELSE <<Least(S)>> \o SetToSeqLeast(S \ {Least(S)})

(* A universe U is a record                                                *)
(*   par : sequence (per commit) of sets of parent commit numbers           *)
(*   tr  : sequence (per commit) of root tree numbers                       *)
(*   ent : sequence (per tree) of sets of child objects (trees, blobs);     *)
(*         a gitlink entry is NOT an object of any store and is not listed  *)
(*   lnk : sequence (per tree): 0 no gitlink, -1 a gitlink naming a commit  *)
(*         of no repository, k > 0 a gitlink naming commit k of this very    *)
(*         universe (a branch embedded as a submodule).  Whatever it names,  *)
(*         a gitlink is not an edge: Kids, Closure, TreeObjs and the         *)
(*         MissingObjectFinder walk never look at it -- in particular an id  *)
(*         seen in a gitlink says nothing about what the peer has.           *)
(*   tg  : sequence (per tag) of target objects (commit/tree/blob/tag)      *)
CommitsOf(U) == {C(i) : i \in 1..Len(U.par)}
TagsOf(U)    == {G(i) : i \in 1..Len(U.tg)}

Kids(U, o) ==
    CASE Kind(o) = "c" -> {T(U.tr[Num(o)])} \cup {C(p) : p \in U.par[Num(o)]}
      [] Kind(o) = "t" -> U.ent[Num(o)]
      [] Kind(o) = "g" -> {U.tg[Num(o)]}
      [] OTHER         -> {}

RECURSIVE Close(_, _, _)
Close(U, done, front) ==
    IF front = {} THEN done
    ELSE Close(U, done \cup front, (UNION {Kids(U, o) : o \in front}) \ (done \cup front))
Closure(U, S) == Close(U, {}, S)            \* everything reachable from S, S included

AllObjects(U) == Closure(U, CommitsOf(U) \cup TagsOf(U))
Closed(U, S)  == \A o \in S : Kids(U, o) \subseteq S

\* shallow repositories: the parents of a commit listed in .git/shallow are not part of the
\* repository; "complete" then means closed under KidsCut
KidsCut(U, cut, o) == IF Kind(o) = "c" /\ o \in cut THEN {T(U.tr[Num(o)])} ELSE Kids(U, o)
RECURSIVE CloseCut(_, _, _, _)
CloseCut(U, cut, done, front) ==
    IF front = {} THEN done
    ELSE CloseCut(U, cut, done \cup front, (UNION {KidsCut(U, cut, o) : o \in front}) \ (done \cup front))
ClosureCut(U, cut, S) == CloseCut(U, cut, {}, S)
ClosedCut(U, cut, S)  == \A o \in S : KidsCut(U, cut, o) \subseteq S

RECURSIVE AncIdx(_, _, _)
AncIdx(U, done, front) ==                   \* commit numbers reachable through parents
    IF front = {} THEN done
    ELSE AncIdx(U, done \cup front, (UNION {U.par[i] : i \in front}) \ (done \cup front))
Anc(U, cs) == {C(i) : i \in AncIdx(U, {}, {Num(c) : c \in cs})}     \* ancestors-or-self

RECURSIVE Peel(_, _)
Peel(U, o) == IF Kind(o) = "g" THEN Peel(U, U.tg[Num(o)]) ELSE o
RECURSIVE TagChain(_, _)
TagChain(U, o) == IF Kind(o) = "g" THEN {o} \cup TagChain(U, U.tg[Num(o)]) ELSE {}

\* depth-limited fetch (find_shallow): level 1 = the wanted commits (tags peeled), level k + 1 =
\* their parents not seen at a smaller level.  inner = levels < d, edge = level d (the shallow
\* boundary); a fetch with depth d has to deliver ClosureCut(U, edge, wants)
RECURSIVE DepthLevels(_, _, _, _, _)
DepthLevels(U, d, k, seen, front) ==
    IF front = {} \/ k = d THEN [inner |-> seen, edge |-> front]
    ELSE DepthLevels(U, d, k + 1, seen \cup front,
                     (UNION {{C(p) : p \in U.par[Num(c)]} : c \in front}) \ (seen \cup front))
DepthCut(U, wants, d) ==
    DepthLevels(U, d, 1, {}, {Peel(U, w) : w \in wants} \cap CommitsOf(U))

(***************************************************************************)
(* Part 2 -- MissingObjectFinder                                            *)
(***************************************************************************)
\* _split_commits_and_tags(store, [o], unknown="ignore"): (commits, tags, others), tags peeled
\* recursively; objects the store does not hold are dropped
RECURSIVE SplitOne(_, _, _)
SplitOne(U, store, o) ==
    IF o \notin store THEN [c |-> {}, g |-> {}, o |-> {}]
    ELSE IF Kind(o) = "c" THEN [c |-> {o}, g |-> {}, o |-> {}]
    ELSE IF Kind(o) = "g" THEN LET r == SplitOne(U, store, U.tg[Num(o)])
                               IN  [c |-> r.c, g |-> r.g \cup {o}, o |-> r.o]
    ELSE [c |-> {}, g |-> {}, o |-> {o}]
Split(U, store, lst) ==
    [c |-> UNION {SplitOne(U, store, x).c : x \in lst},
     g |-> UNION {SplitOne(U, store, x).g : x \in lst},
     o |-> UNION {SplitOne(U, store, x).o : x \in lst}]

\* _collect_ancestors(store, heads, common): (commits reachable from heads without passing a
\* commit of common, the commits of common met on the way); the result does not depend on the
\* queue order, so it is given as a fixpoint
RECURSIVE CollectMissing(_, _, _, _)
CollectMissing(U, common, done, front) ==
    LET f == front \ (common \cup done) IN
    IF f = {} THEN done
    ELSE CollectMissing(U, common, done \cup f, UNION {{C(p) : p \in U.par[Num(c)]} : c \in f})
Missing(U, heads, common) == CollectMissing(U, common, {}, heads)
Bases(U, heads, common) ==
    LET m == Missing(U, heads, common)
    IN  (heads \cup UNION {{C(p) : p \in U.par[Num(c)]} : c \in m}) \cap common

\* _collect_filetree_revs(store, tree, kset): everything below the tree, the tree itself NOT included
TreeObjs(U, t) == Closure(U, U.ent[t])

\* get_tagged(): peeled object -> one tag whose ref peels to it (dict, a later ref overwrites an
\* earlier one: any choice); only consulted with include-tag
TaggedChoices(U, tagrefs) ==
    LET P == {Peel(U, g) : g \in tagrefs}
    IN  {f \in [P -> tagrefs] : \A p \in P : Peel(U, f[p]) = p}

\* MissingObjectFinder.__init__
MofInit(U, store, haves, wants) ==
    LET hv == Split(U, store, haves)
        wv == Split(U, store, wants)
        allAnc == Anc(U, hv.c)
        miss == Missing(U, wv.c, allAnc)
        bases0 == Bases(U, wv.c, allAnc)
        \* negative control: the parents of the wanted commits are taken for common without
        \* looking whether the peer really has them
        bases == IF Bug = "RemoteHasParents"
                 THEN bases0 \cup UNION {{C(p) : p \in U.par[Num(c)]} : c \in wv.c}
                 ELSE bases0
        rh == bases \cup UNION {TreeObjs(U, U.tr[Num(b)]) : b \in bases} \cup hv.g
    IN  [remoteHas |-> rh,
         todo |-> {<<o, FALSE>> : o \in miss \cup (wv.g \ hv.g) \cup (wv.o \ hv.o)}]

\* one iteration of __next__ for the popped entry e = <<object, leaf>>: (todo', shaDone', sent')
MofStep(U, tagged, todo, shaDone, sent, e) ==
    LET o == e[1]
        rest == todo \ {e}
    IN  IF o \in shaDone THEN [todo |-> rest, shaDone |-> shaDone, sent |-> sent]
        ELSE LET exp == IF e[2] THEN {}
                        ELSE CASE Kind(o) = "c" -> {<<T(U.tr[Num(o)]), FALSE>>}
                               [] Kind(o) = "t" -> {<<k, Kind(k) = "b">> : k \in U.ent[Num(o)]}
                               [] Kind(o) = "g" -> {<<U.tg[Num(o)], FALSE>>}
                               [] OTHER -> {}
                 tg  == IF o \in DOMAIN tagged THEN {<<tagged[o], TRUE>>} ELSE {}
                 add == {x \in exp \cup tg : x[1] \notin shaDone}
             IN  [todo |-> rest \cup add, shaDone |-> shaDone \cup {o}, sent |-> sent \cup {o}]

\* the iteration run to the end, popping the least entry (reference result for the traces; the
\* model checks with PopAny that the order is irrelevant)
RECURSIVE MofRun(_, _, _, _, _)
MofRun(U, tagged, todo, shaDone, sent) ==
    IF todo = {} THEN sent
    ELSE LET e == CHOOSE x \in todo : \A y \in todo :
                      Rank(x[1]) * 2 + (IF x[2] THEN 1 ELSE 0) <= Rank(y[1]) * 2 + (IF y[2] THEN 1 ELSE 0)
             r == MofStep(U, tagged, todo, shaDone, sent, e)
         IN  MofRun(U, tagged, r.todo, r.shaDone, r.sent)
MofSent(U, store, haves, wants, tagged) ==
    LET i == MofInit(U, store, haves, wants)
    IN  MofRun(U, tagged, i.todo, i.remoteHas, {})

(***************************************************************************)
(* Part 3 -- negotiation                                                    *)
(***************************************************************************)
\* ObjectStoreGraphWalker: heads = set of commit numbers, wp[i] = <<0,{}>> not in self.parents,
\* <<1, ps>> parents recorded, <<2, {}>> None
WalkerInit(n) == [i \in 1..n |-> <<0, {}>>]

\* next() having popped head h; ps = parents of h in the client's store
WalkerNext(U, heads, wp, h) ==
    LET ps  == U.par[h]
        wp2 == [wp EXCEPT ![h] = <<1, ps>>]
    IN  [heads |-> (heads \ {h}) \cup {p \in ps : wp2[p][1] = 0}, wp |-> wp2]

RECURSIVE WalkerAck(_, _, _)
WalkerAck(heads, wp, anc) ==
    IF heads = {} THEN [heads |-> heads, wp |-> wp]
    ELSE LET h2  == heads \ anc
             new == UNION {IF wp[a][1] = 1 THEN wp[a][2] ELSE {} : a \in anc}
             wp2 == [a \in DOMAIN wp |-> IF a \in anc THEN <<2, {}>> ELSE wp[a]]
         IN  IF new = {} THEN [heads |-> h2, wp |-> wp2] ELSE WalkerAck(h2, wp2, new)

\* the complete walk against a sender store (LocalGitClient: find_common_revisions is called with
\* the client's walker directly): the set of haves found does depend on the pop order, the set
\* of their ancestors does not; CompleteWalk picks the least head each time
RECURSIVE CompleteWalk(_, _, _, _, _)
CompleteWalk(U, sstore, heads, wp, found) ==
    IF heads = {} THEN found
    ELSE LET h == CHOOSE x \in heads : \A y \in heads : x >= y
             n == WalkerNext(U, heads, wp, h)
         IN  IF C(h) \in sstore
             THEN LET a == WalkerAck(n.heads, n.wp, {h}) IN CompleteWalk(U, sstore, a.heads, a.wp, found \cup {C(h)})
             ELSE CompleteWalk(U, sstore, n.heads, n.wp, found)

\* server.py _want_satisfied / _all_wants_satisfied with commit times that increase from parent to
\* child (the time cut-off is then exact): a want is satisfied iff it is a commit that has one of
\* the haves among its ancestors-or-self; a want that is not a commit is never satisfied
AllSatisfied(U, wants, common) ==
    /\ wants # {}
    /\ \A w \in wants : Kind(w) = "c" /\ Anc(U, {w}) \cap common # {}

\* what the server writes after reading "have h" and how its state changes.
\* st = [common: Seq(obj), found: BOOLEAN, haves: Seq(obj)]
SrvHave(U, sstore, wants, mode, st, h) ==
    LET known == h \in sstore IN
    CASE mode = "single" ->
           IF known
           THEN [st |-> [st EXCEPT !.haves = Append(@, h),
                                   !.common = IF st.common = <<>> THEN <<h>> ELSE @],
                 out |-> IF st.common = <<>> THEN <<<<"ACK", h, "">>>> ELSE <<>>]
           ELSE [st |-> st, out |-> <<>>]
      [] mode = "multi" ->
           LET blind == IF st.found THEN <<<<"ACK", h, "continue">>>> ELSE <<>> IN
           IF known
           THEN LET c2 == Append(st.common, h)
                    f2 == st.found \/ AllSatisfied(U, wants, {c2[i] : i \in 1..Len(c2)})
                IN  [st |-> [common |-> c2, found |-> f2, haves |-> Append(st.haves, h)],
                     out |-> blind \o (IF st.found THEN <<>> ELSE <<<<"ACK", h, "continue">>>>)]
           ELSE [st |-> st, out |-> blind]
      [] OTHER ->  \* "detailed"
           IF known
           THEN [st |-> [st EXCEPT !.common = Append(@, h), !.haves = Append(@, h)],
                 out |-> <<<<"ACK", h, "common">>>>]
           ELSE [st |-> st, out |-> <<>>]

\* a flush-pkt in the middle of the haves (C git clients; the dulwich client never sends one)
SrvFlush(U, wants, mode, st) ==
    CASE mode = "multi"    -> <<<<"NAK">>>>
      [] mode = "detailed" -> (IF AllSatisfied(U, wants, {st.common[i] : i \in 1..Len(st.common)})
                               THEN <<<<"ACK", st.common[Len(st.common)], "ready">>>> ELSE <<>>) \o <<<<"NAK">>>>
      [] OTHER             -> <<>>         \* single: a flush ends the have list like "done"

\* handle_done after "done"
SrvDone(mode, st) ==
    CASE mode = "single" -> IF st.common = <<>> THEN <<<<"NAK">>>> ELSE <<>>
      [] OTHER           -> IF st.common = <<>> THEN <<<<"NAK">>>>
                            ELSE <<<<"ACK", st.common[Len(st.common)], "">>>>

=============================================================================

-------------------------------- MODULE Delta --------------------------------
(***************************************************************************)
(* The git delta format: reference semantics of decoding, the statement's  *)
(* postcondition, and a reference encoder.  Constant-level module: every   *)
(* definition is an operator on byte sequences (Seq(0..255)); the modules  *)
(* DeltaEnum / DeltaStruct / DeltaRT / DeltaTrace instantiate them on      *)
(* enumerated or recorded inputs.                                          *)
(*                                                                         *)
(* A delta is   varint(source size) varint(target size) op*                *)
(*   op 0x00            reserved: error                                    *)
(*   op 0x01..0x7f = n  insert the next n bytes of the delta               *)
(*   op 0x80|mask       copy: bits 0..3 say which of the 4 offset bytes    *)
(*                      follow, bits 4..6 which of the 3 size bytes        *)
(*                      (little endian, absent = 0); size 0 means 0x10000; *)
(*                      copies base[off, off+size)                         *)
(*                                                                         *)
(* Numbers.  TLC integers are 32 bit, delta headers are unbounded LEB128.  *)
(* A header value is carried as its base-128 digit sequence, least         *)
(* significant first, without trailing zero digits ("limbs").  A value is  *)
(* Small iff it has at most 4 digits (< 2^28); every real length handled   *)
(* by the model (base, produced output) is below MaxOut = 2^28, so a value *)
(* that is not Small is larger than every real length.                     *)
(*                                                                         *)
(* Positions.  TLA+ sequences are 1-based; the segments handed to the      *)
(* harness are 0-based <<kind, offset, length>> with kind 0 = slice of the *)
(* base, kind 1 = slice of the delta (a literal insert).                   *)
(***************************************************************************)
EXTENDS Naturals, Sequences, FiniteSets, TLC

MaxOut == 268435456          \* 2^28

Bit(c, k) == (c \div (2 ^ k)) % 2 = 1

\* ------------------------------------------------------------------ limbs
RECURSIVE StripZ(_)
StripZ(d) == IF Len(d) > 0 /\ d[Len(d)] = 0 THEN StripZ(SubSeq(d, 1, Len(d) - 1)) ELSE d

Small(d) == Len(d) <= 4

RECURSIVE IntOf(_)
IntOf(d) == IF d = <<>> THEN 0 ELSE d[1] + 128 * IntOf(Tail(d))

\* LEB128 value starting at s[i]; acc = digits read so far
RECURSIVE VarintAt(_, _, _)
VarintAt(s, i, acc) ==
    IF i > Len(s) THEN [ok |-> FALSE, d |-> acc, next |-> i]
    ELSE IF s[i] >= 128 THEN VarintAt(s, i + 1, Append(acc, s[i] - 128))
    ELSE [ok |-> TRUE, d |-> StripZ(Append(acc, s[i])), next |-> i + 1]

Header(s) ==
    LET a == VarintAt(s, 1, <<>>) IN
    IF ~a.ok THEN [ok |-> FALSE, src |-> <<>>, dst |-> <<>>, next |-> a.next]
    ELSE LET b == VarintAt(s, a.next, <<>>) IN
         [ok |-> b.ok, src |-> a.d, dst |-> IF b.ok THEN b.d ELSE <<>>, next |-> b.next]

\* ------------------------------------------------------------------ one op
\* operand bytes of a copy op: seven values in mask order, 0 where absent
RECURSIVE Operands(_, _, _, _, _)
Operands(s, i, cmd, k, acc) ==
    IF k = 7 THEN [ok |-> TRUE, v |-> acc, next |-> i]
    ELSE IF Bit(cmd, k)
         THEN IF i > Len(s) THEN [ok |-> FALSE, v |-> acc, next |-> i]
              ELSE Operands(s, i + 1, cmd, k + 1, Append(acc, s[i]))
         ELSE Operands(s, i, cmd, k + 1, Append(acc, 0))

NoOp(kind) == [k |-> kind, off |-> 0, n |-> 0, far |-> FALSE, next |-> 0]

\* the op starting at s[i] (i <= Len(s)).  k = "ins": literal bytes are s[i+1 .. i+n], i.e.
\* 0-based delta offset i.  k = "copy": base[off, off+n); far = offset >= 2^28 (not
\* representable, beyond every base of the model).
ParseOp(s, i) ==
    LET c == s[i] IN
    IF c = 0 THEN NoOp("zero")
    ELSE IF c < 128
         THEN IF i + c > Len(s) THEN NoOp("trunc")
              ELSE [k |-> "ins", off |-> i, n |-> c, far |-> FALSE, next |-> i + 1 + c]
         ELSE LET p == Operands(s, i + 1, c, 0, <<>>) IN
              IF ~p.ok THEN NoOp("trunc")
              ELSE LET v  == p.v
                       sz == v[5] + 256 * v[6] + 65536 * v[7]
                   IN [k    |-> "copy",
                       far  |-> v[4] >= 16,
                       off  |-> IF v[4] >= 16 THEN 0
                                ELSE v[1] + 256 * v[2] + 65536 * v[3] + 16777216 * v[4],
                       n    |-> IF sz = 0 THEN 65536 ELSE sz,
                       next |-> p.next]

WellFormed(op) == op.k \in {"ins", "copy"}
InBase(op, blen) == op.k = "ins" \/ (~op.far /\ op.off + op.n <= blen)
Seg(op) == <<IF op.k = "copy" THEN 0 ELSE 1, op.off, op.n>>

\* ------------------------------------------------------------------ reference decoder
\* git's patch_delta(): every op must be well formed, inside the base, and no larger than
\* what is left of the declared target size; at the end nothing may be left.
Res(st, why, segs, prod) == [st |-> st, why |-> why, segs |-> segs, prod |-> prod]

\* prod + n <= declared target size
Fits(n, prod, dst) == IF Small(dst) THEN prod + n <= IntOf(dst) ELSE TRUE

RECURSIVE RunFrom(_, _, _, _, _, _)
RunFrom(blen, s, i, dst, prod, segs) ==
    IF i > Len(s)
    THEN IF Small(dst) /\ prod = IntOf(dst) THEN Res("ok", "ok", segs, prod)
         ELSE Res("err", "short", segs, prod)
    ELSE LET op == ParseOp(s, i) IN
         IF op.k = "zero" THEN Res("err", "opcode0", segs, prod)
         ELSE IF op.k = "trunc" THEN Res("err", "truncated", segs, prod)
         ELSE IF ~InBase(op, blen) THEN Res("err", "outside-base", segs, prod)
         ELSE IF ~Fits(op.n, prod, dst) THEN Res("err", "overrun", segs, prod)
         ELSE IF prod + op.n > MaxOut THEN Res("outside-model", "MaxOut", segs, prod)
         ELSE RunFrom(blen, s, op.next, dst, prod + op.n, Append(segs, Seg(op)))

\* op-level decoding: needs only the length of the base
Run(blen, s) ==
    LET h == Header(s) IN
    IF ~h.ok THEN Res("err", "header", <<>>, 0)
    ELSE IF ~(Small(h.src) /\ IntOf(h.src) = blen) THEN Res("err", "src-size", <<>>, 0)
    ELSE RunFrom(blen, s, h.next, h.dst, 0, <<>>)

RECURSIVE Mat(_, _, _)
Mat(base, s, segs) ==
    IF segs = <<>> THEN <<>>
    ELSE LET g == segs[1] IN
         SubSeq(IF g[1] = 0 THEN base ELSE s, g[2] + 1, g[2] + g[3]) \o Mat(base, s, Tail(segs))

\* byte-level decoding
Decode(base, s) ==
    LET r == Run(Len(base), s) IN
    [st |-> r.st, out |-> IF r.st = "ok" THEN Mat(base, s, r.segs) ELSE <<>>]

\* C git as a decoder (third opinion, and one of the statement's decoders): patch_delta() is the
\* reference decoder, except that it refuses every delta shorter than DELTA_SIZE_MIN = 4 bytes.
\* Only a delta to an empty target is that short (two headers and no op); git never creates one.
\* The harness offers a delta to git index-pack only when Len(s) >= 4 and both size headers are
\* at most 9 bytes long (beyond that git's 64-bit shift arithmetic, not the format, decides).
GitAccepts(blen, s) == Len(s) >= 4 /\ Run(blen, s).st = "ok"

\* ------------------------------------------------------------------ the postcondition
\* "output whose length equals the size the delta declares and that consists only of slices of
\* the base and literal inserts", stated on the op list: the output is the concatenation of the
\* results of a prefix of the delta's ops, each well formed and inside the base, and its length
\* is the declared size.  Every op yields at least one byte, so at most one prefix has the right
\* length: Cand computes it (has = FALSE: no output whatsoever satisfies the postcondition).
\* The source-size header does not occur in the statement and is not consulted.
RECURSIVE CandFrom(_, _, _, _, _, _)
CandFrom(blen, s, i, want, prod, segs) ==
    IF prod >= want \/ i > Len(s) THEN [prod |-> prod, segs |-> segs]
    ELSE LET op == ParseOp(s, i) IN
         IF WellFormed(op) /\ InBase(op, blen) /\ prod + op.n <= MaxOut
         THEN CandFrom(blen, s, op.next, want, prod + op.n, Append(segs, Seg(op)))
         ELSE [prod |-> prod, segs |-> segs]

Cand(blen, s) ==
    LET h == Header(s) IN
    IF ~h.ok \/ ~Small(h.dst) THEN [has |-> FALSE, segs |-> <<>>]
    ELSE LET c == CandFrom(blen, s, h.next, IntOf(h.dst), 0, <<>>) IN
         [has |-> c.prod = IntOf(h.dst), segs |-> IF c.prod = IntOf(h.dst) THEN c.segs ELSE <<>>]

Post(base, s, out) ==
    LET c == Cand(Len(base), s) IN c.has /\ out = Mat(base, s, c.segs)

\* what an implementation may do with (base, s): return out with Post, or fail with the delta error
\* obs = [kind |-> "bytes", out |-> ...] | [kind |-> "delta-error"] | anything else
Allowed(base, s, obs) ==
    \/ obs.kind = "delta-error"
    \/ obs.kind = "bytes" /\ Post(base, s, obs.out)

\* the reference decoder itself satisfies the statement (checked by TLC on every enumerated case)
RefSound(base, s) ==
    LET r == Decode(base, s) IN r.st = "ok" => Post(base, s, r.out)

\* ------------------------------------------------------------------ reference encoder
RECURSIVE EncSize(_)
EncSize(n) == IF n < 128 THEN <<n>> ELSE <<128 + (n % 128)>> \o EncSize(n \div 128)

\* digits -> LEB128 bytes, padded with zero digits to exactly k bytes (k >= number of digits, k >= 1)
EncDigits(d, k) ==
    [j \in 1..k |-> (IF j <= Len(d) THEN d[j] ELSE 0) + (IF j < k THEN 128 ELSE 0)]

RECURSIVE SelectNZ(_)
SelectNZ(b) == IF b = <<>> THEN <<>> ELSE (IF b[1] # 0 THEN <<b[1]>> ELSE <<>>) \o SelectNZ(Tail(b))

RECURSIVE MaskOf(_, _)
MaskOf(b, k) == IF b = <<>> THEN 0 ELSE (IF b[1] # 0 THEN 2 ^ k ELSE 0) + MaskOf(Tail(b), k + 1)

\* version-2 copy op (size 1..0xFFFF, offset < 2^28 in the model): only non-zero bytes are written
EncCopy(off, n) ==
    LET b == <<off % 256, (off \div 256) % 256, (off \div 65536) % 256, off \div 16777216,
               n % 256, (n \div 256) % 256>>
    IN <<128 + MaskOf(b, 0)>> \o SelectNZ(b)

RECURSIVE EncInsert(_)
EncInsert(lit) ==
    IF lit = <<>> THEN <<>>
    ELSE LET k == IF Len(lit) > 127 THEN 127 ELSE Len(lit) IN
         <<k>> \o SubSeq(lit, 1, k) \o EncInsert(SubSeq(lit, k + 1, Len(lit)))

\* longest match of target[j..] in base, leftmost among the longest: <<length, 0-based offset>>
Longest(base, target, j) ==
    LET C == {c \in (0..(Len(target) - j + 1)) \X (0..Len(base)) :
                 \/ c[1] = 0 /\ c[2] = 0
                 \/ c[1] > 0 /\ c[2] + c[1] <= Len(base)
                    /\ SubSeq(base, c[2] + 1, c[2] + c[1]) = SubSeq(target, j, j + c[1] - 1)}
    IN CHOOSE c \in C : \A d \in C : c[1] > d[1] \/ (c[1] = d[1] /\ c[2] <= d[2])

\* greedy: copy when at least MinCopy bytes match, else extend the pending literal
RECURSIVE EncBody(_, _, _, _, _)
EncBody(base, target, j, lit, minCopy) ==
    IF j > Len(target) THEN EncInsert(lit)
    ELSE LET m == Longest(base, target, j) IN
         IF m[1] >= minCopy
         THEN EncInsert(lit) \o EncCopy(m[2], m[1]) \o EncBody(base, target, j + m[1], <<>>, minCopy)
         ELSE EncBody(base, target, j + 1, Append(lit, target[j]), minCopy)

Encode(base, target, minCopy) ==
    EncSize(Len(base)) \o EncSize(Len(target)) \o EncBody(base, target, 1, <<>>, minCopy)

\* the round-trip lemma
RoundTrip(base, target, minCopy) ==
    Decode(base, Encode(base, target, minCopy)) = [st |-> "ok", out |-> target]

\* ------------------------------------------------------------------ helpers for enumerations
\* all sequences over S of length 0..n
RECURSIVE SeqsUpTo(_, _)
SeqsUpTo(S, n) ==
    IF n = 0 THEN {<<>>}
    ELSE LET P == SeqsUpTo(S, n - 1) IN
         P \cup {Append(p, x) : p \in {q \in P : Len(q) = n - 1}, x \in S}
=============================================================================

SPECIFICATION Spec
CONSTANTS
  N = 3
  Refs = {"a", "b"}
  MaxDepth = 6
  MaxPacks = 2
  WithCopies = TRUE
  WithIdx = TRUE
  MidxChecksPack = TRUE
  CgChecksStore = TRUE
  CgWriterCloses = TRUE
  BitmapChecksum = TRUE
  BitmapClosedPack = TRUE
  BitmapExcludeExact = TRUE
  ProvidersAgree = TRUE
  DeleteDropsPacked = TRUE
  BitmapHonoursShallow = TRUE
  CgOctopusOk = TRUE
  MaxParents = 2
  GraftsBeforeGraph = TRUE
  IdxLargeFrom31 = TRUE
  CgHonoursShallow = TRUE
  Focus = "all"
INVARIANT TypeOK
INVARIANT IdxTransparent
INVARIANT Transparent
INVARIANT RefsTransparent
INVARIANT StaleRejected
VIEW view
CHECK_DEADLOCK FALSE

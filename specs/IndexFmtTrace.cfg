SPECIFICATION TraceSpec
CONSTANTS
  NameMask = 4095
  Family = "trace"
  MaxKeys = 0
  Defect = "none"
CHECK_DEADLOCK FALSE

SPECIFICATION TraceSpec
CONSTANTS
  NameMask = 4095
  Family = "trace"
  MaxKeys = 0
  MaxEdits = 1
  Defect = "none"
CHECK_DEADLOCK FALSE

SPECIFICATION Spec
CONSTANTS
  N = 3
  Refs = {"a", "b"}
  MaxDepth = 6
  MaxPacks = 2
  WithCopies = TRUE
  WithIdx = FALSE
  MidxChecksPack = TRUE
  CgChecksStore = TRUE
  CgWriterCloses = TRUE
  BitmapChecksum = TRUE
  BitmapClosedPack = TRUE
  BitmapExcludeExact = TRUE
  ProvidersAgree = TRUE
  DeleteDropsPacked = TRUE
  BitmapHonoursShallow = FALSE
  CgOctopusOk = TRUE
  MaxParents = 2
  GraftsBeforeGraph = TRUE
  IdxLargeFrom31 = TRUE
  CgHonoursShallow = TRUE
  Focus = "bmp"
INVARIANT TypeOK
INVARIANT Transparent
VIEW view
CHECK_DEADLOCK FALSE

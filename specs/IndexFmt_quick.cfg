SPECIFICATION Spec
CONSTANTS
  NameMask = 4095
  Family = "quick"
  MaxKeys = 2
  Defect = "none"
INVARIANT OrderInv
INVARIANT ShapeInv
CHECK_DEADLOCK FALSE

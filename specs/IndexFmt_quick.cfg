SPECIFICATION Spec
CONSTANTS
  NameMask = 4095
  Family = "quick"
  MaxKeys = 2
  MaxEdits = 1
  Defect = "none"
INVARIANT OrderInv
INVARIANT ShapeInv
INVARIANT StageFromSlot
INVARIANT ConfInv
CHECK_DEADLOCK FALSE

SPECIFICATION TraceSpec
CONSTANTS
  Radius = 0
  TreeMax = 0
  Alphabet <- NoKinds
  Kinds <- NoKinds
  EmptyLine <- EmptyTuple
  Part = 0
  Edits = FALSE
CHECK_DEADLOCK FALSE

SPECIFICATION TraceSpec
CONSTANTS
  Radius = 0
  TreeMax = 0
  Alphabet <- NoKinds
  Kinds <- NoKinds
  EmptyLine <- EmptyTuple
CHECK_DEADLOCK FALSE

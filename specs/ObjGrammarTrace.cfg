SPECIFICATION TraceSpec
CONSTANTS
  Radius = 0
  TreeMax = 0
  Alphabet <- NoKinds
  Kinds <- NoKinds
  EmptyLine <- EmptyTuple
  Edits = FALSE
CHECK_DEADLOCK FALSE

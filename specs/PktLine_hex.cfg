SPECIFICATION Spec
CONSTANTS
  Family = "prefix-hex"
INVARIANT Theorems
CHECK_DEADLOCK FALSE

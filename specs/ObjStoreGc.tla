------------------------------ MODULE ObjStoreGc ------------------------------
(***************************************************************************)
(* Sequential maintenance histories with reachability (C10).               *)
(* A linear universe of commits 1..N (commit i has parent i-1; its tree    *)
(* and blob are private to it, so "commit i present" stands for the three  *)
(* objects) plus annotated tags.  State: which commits exist and where     *)
(* (loose / in which pack), the refs, and whether a commit is old enough   *)
(* to be pruned.  Actions are the builders and maintenance entry points of *)
(* dulwich; the harness replays every action of every generated behaviour  *)
(* on a real repository and compares the readable set after each step.     *)
(***************************************************************************)
EXTENDS Integers, FiniteSets, Sequences, TLC

CONSTANTS N, Names, MaxPacks, MaxLen

VARIABLES loose,      \* set of commits stored loose
          packs,      \* sequence of sets of commits (visible packs)
          refs,       \* Names -> 0..N  (0 = absent)
          oldL,       \* loose commits whose files are older than the grace period
          oldP,       \* sequence of BOOLEAN parallel to packs: the pack file is older than the grace period
          hist        \* the behaviour so far (replayed by the harness)
vars == <<loose, packs, refs, oldL, oldP, hist>>

Commits == 1..N
Present == loose \cup UNION {packs[i] : i \in 1..Len(packs)}
Anc(c) == 1..c
Reachable == UNION {Anc(refs[n]) : n \in {m \in Names : refs[m] # 0}}
Log(a) == hist' = Append(hist, a)

Init == loose = {} /\ packs = <<>> /\ refs = [n \in Names |-> 0] /\ oldL = {} /\ oldP = <<>> /\ hist = <<>>

\* "older than the grace period" in the sense of the statement: no copy of the commit was written recently
AllOld(c) == /\ (c \in loose => c \in oldL)
             /\ \A i \in 1..Len(packs) : c \in packs[i] => oldP[i]
\* what a pruning gc with the default grace period may remove
Prunable == {c \in Present \ Reachable : AllOld(c)}

\* create commit c (needs its parent) as loose objects; optionally point a ref at it
AddLoose(c) ==
    /\ c \notin Present /\ (c = 1 \/ c - 1 \in Present)
    /\ loose' = loose \cup {c} /\ UNCHANGED <<packs, refs, oldL, oldP>>
    /\ Log([a |-> "add_loose", c |-> c, n |-> "", s |-> {}])
\* add_object of content that is already stored loose freshens the file's mtime
ReAdd(c) ==
    /\ c \in loose /\ c \in oldL
    /\ oldL' = oldL \ {c} /\ UNCHANGED <<loose, packs, refs, oldP>>
    /\ Log([a |-> "re_add", c |-> c, n |-> "", s |-> {}])
\* two weeks and a day pass: every file present now is older than every grace period
Age ==
    /\ Present # {} /\ (oldL # loose \/ \E i \in 1..Len(packs) : ~oldP[i])
    /\ oldL' = loose /\ oldP' = [i \in 1..Len(packs) |-> TRUE] /\ UNCHANGED <<loose, packs, refs>>
    /\ Log([a |-> "age", c |-> 0, n |-> "", s |-> {}])
\* write commits as a new pack (objects already present elsewhere are duplicated)
AddPack(S) ==
    /\ S # {} /\ Len(packs) < MaxPacks
    /\ \A c \in S : c = 1 \/ c - 1 \in Present \cup S
    /\ packs' = Append(packs, S) /\ oldP' = Append(oldP, FALSE) /\ UNCHANGED <<loose, refs, oldL>>
    /\ Log([a |-> "add_pack", c |-> 0, n |-> "", s |-> S])
\* a ref is only ever pointed at a commit whose history is complete (gc with a grace period may
\* legitimately have removed an old unreachable ancestor of a recent unreachable commit: the statement
\* allows it; C git keeps such ancestors since 2.2, dulwich does not -- an observation, not a C10 violation)
SetRef(n, c) ==
    /\ Anc(c) \subseteq Present /\ refs[n] # c
    /\ refs' = [refs EXCEPT ![n] = c] /\ UNCHANGED <<loose, packs, oldL, oldP>>
    /\ Log([a |-> "set_ref", c |-> c, n |-> n, s |-> {}])
DelRef(n) ==
    /\ refs[n] # 0
    /\ refs' = [refs EXCEPT ![n] = 0] /\ UNCHANGED <<loose, packs, oldL, oldP>>
    /\ Log([a |-> "del_ref", c |-> 0, n |-> n, s |-> {}])
PackLoose ==
    /\ loose # {}
    /\ packs' = Append(packs, loose) /\ oldP' = Append(oldP, FALSE) /\ loose' = {} /\ oldL' = {} /\ UNCHANGED refs
    /\ Log([a |-> "pack_loose", c |-> 0, n |-> "", s |-> {}])
\* C git's `maintenance run --task=loose-objects`: loose objects that are packed already are removed,
\* the remaining ones are copied into a pack named loose-<hash> (and stay loose until the next run)
GitMaintLoose ==
    /\ loose # {} /\ Len(packs) < MaxPacks
    /\ LET packed == UNION {packs[i] : i \in 1..Len(packs)}
           rest == loose \ packed IN
         /\ loose' = rest /\ oldL' = oldL \cap rest
         /\ packs' = (IF rest = {} THEN packs ELSE Append(packs, rest))
         /\ oldP' = (IF rest = {} THEN oldP ELSE Append(oldP, FALSE))
    /\ UNCHANGED refs
    /\ Log([a |-> "git_maint_loose", c |-> 0, n |-> "", s |-> {}])
Repack ==
    /\ Present # {}
    /\ packs' = <<Present>> /\ oldP' = <<FALSE>> /\ loose' = {} /\ oldL' = {} /\ UNCHANGED refs
    /\ Log([a |-> "repack", c |-> 0, n |-> "", s |-> {}])
\* gc with grace period 0: everything unreachable goes, everything reachable ends up in one pack
GcPrune ==
    /\ Present # {}
    /\ packs' = (IF Reachable = {} THEN <<>> ELSE <<Reachable>>)
    /\ oldP' = (IF Reachable = {} THEN <<>> ELSE <<FALSE>>)
    /\ loose' = {} /\ oldL' = {} /\ UNCHANGED refs
    /\ Log([a |-> "gc0", c |-> 0, n |-> "", s |-> {}])
\* gc with the default grace period: unreachable commits none of whose copies is recent go, the rest is repacked
GcKeep ==
    /\ Present # {}
    /\ LET keep == Present \ Prunable IN
         /\ packs' = (IF keep = {} THEN <<>> ELSE <<keep>>)
         /\ oldP' = (IF keep = {} THEN <<>> ELSE <<FALSE>>)
    /\ loose' = {} /\ oldL' = {} /\ UNCHANGED refs
    /\ Log([a |-> "gc_default", c |-> 0, n |-> "", s |-> {}])
\* DiskObjectStore.prune(): removes stale temporary files only; never an object
Prune    == /\ Present # {} /\ UNCHANGED <<loose, packs, refs, oldL, oldP>> /\ Log([a |-> "prune", c |-> 0, n |-> "", s |-> {}])
PackRefs == /\ UNCHANGED <<loose, packs, refs, oldL, oldP>> /\ Log([a |-> "pack_refs", c |-> 0, n |-> "", s |-> {}])
Midx     == /\ Len(packs) > 0 /\ UNCHANGED <<loose, packs, refs, oldL, oldP>> /\ Log([a |-> "write_midx", c |-> 0, n |-> "", s |-> {}])
CGraph   == /\ Reachable # {} /\ UNCHANGED <<loose, packs, refs, oldL, oldP>> /\ Log([a |-> "write_commit_graph", c |-> 0, n |-> "", s |-> {}])

Next ==
    /\ Len(hist) < MaxLen
    /\ \/ \E c \in Commits : AddLoose(c)
       \/ \E S \in SUBSET Commits : AddPack(S)
       \/ \E n \in Names, c \in Commits : SetRef(n, c)
       \/ \E n \in Names : DelRef(n)
       \/ \E c \in Commits : ReAdd(c)
       \/ Age \/ Prune \/ GitMaintLoose
       \/ PackLoose \/ Repack \/ GcPrune \/ GcKeep \/ PackRefs \/ Midx \/ CGraph

Spec == Init /\ [][Next]_vars

(***************************************************************************)
(* Directed exploration: every sequence of maintenance steps (no builders) *)
(* after four fixed build prefixes  -- an unreachable loose commit above a *)
(* reachable one; a pack plus a loose commit; a commit stored twice.  The  *)
(* harness replays ALL of these behaviours, not a sample.                  *)
(***************************************************************************)
E(a, c, n, s) == [a |-> a, c |-> c, n |-> n, s |-> s]
InitD ==
    /\ oldL = {} /\ refs \in {[n \in Names |-> IF n = "refs/heads/a" THEN 1 ELSE 0]}
    /\ \/ /\ loose = {1, 2} /\ packs = <<>> /\ oldP = <<>>
          /\ hist = <<E("add_loose", 1, "", {}), E("add_loose", 2, "", {}), E("set_ref", 1, "refs/heads/a", {})>>
       \/ /\ loose = {3} /\ packs = <<{1, 2}>> /\ oldP = <<FALSE>>
          /\ hist = <<E("add_pack", 0, "", {1, 2}), E("add_loose", 3, "", {}), E("set_ref", 1, "refs/heads/a", {})>>
       \/ /\ loose = {1} /\ packs = <<{1, 2}>> /\ oldP = <<FALSE>>
          /\ hist = <<E("add_loose", 1, "", {}), E("add_pack", 0, "", {1, 2}), E("set_ref", 1, "refs/heads/a", {})>>
    \* fourth prefix: everything lives in a pack written by C git's maintenance (named loose-<hash>), both
    \* commits reachable; its five steps do not count against the length bound
InitD4 ==
    /\ oldL = {} /\ refs = [n \in Names |-> IF n = "refs/heads/a" THEN 2 ELSE 0]
    /\ loose = {} /\ packs = <<{1, 2}>> /\ oldP = <<FALSE>>
    /\ hist = <<E("add_loose", 1, "", {}), E("add_loose", 2, "", {}), E("set_ref", 2, "refs/heads/a", {}),
                E("git_maint_loose", 0, "", {}), E("git_maint_loose", 0, "", {})>>
DirectedPrefix == IF hist[3].c = 2 THEN 5 ELSE 3
NextMaint ==
    /\ Len(hist) < MaxLen + (DirectedPrefix - 3)
    /\ \/ \E c \in Commits : ReAdd(c)
       \/ Age \/ Prune \/ GitMaintLoose \/ PackLoose \/ Repack \/ GcPrune \/ GcKeep \/ Midx
SpecD == (InitD \/ InitD4) /\ [][NextMaint]_vars

\* maintenance never loses a reachable object
ReachablePreserved == Reachable \subseteq Present
\* only a pruning gc removes anything at all, and the one with a grace period only what is unreachable
\* and has no recent copy (action properties)
OnlyGcRemoves == [][Present \subseteq Present' \/ hist'[Len(hist')].a \in {"gc0", "gc_default"}]_vars
GraceRespected == [][hist'[Len(hist')].a = "gc_default" => (Present \ Present') \subseteq Prunable]_vars
TypeOK == oldL \subseteq loose /\ Len(oldP) = Len(packs)
=============================================================================

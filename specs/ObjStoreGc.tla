------------------------------ MODULE ObjStoreGc ------------------------------
(***************************************************************************)
(* Sequential maintenance histories with reachability (C10).               *)
(* A linear universe of commits 1..N (commit i has parent i-1; its tree    *)
(* and blob are private to it, so "commit i present" stands for the three  *)
(* objects) plus annotated tags.  State: which commits exist and where     *)
(* (loose / in which pack), the refs, and whether a commit is old enough   *)
(* to be pruned.  Actions are the builders and maintenance entry points of *)
(* dulwich; the harness replays every action of every generated behaviour  *)
(* on a real repository and compares the readable set after each step.     *)
(***************************************************************************)
EXTENDS Integers, FiniteSets, Sequences, TLC

CONSTANTS N, Names, MaxPacks, MaxLen

VARIABLES loose,      \* set of commits stored loose
          packs,      \* sequence of sets of commits (visible packs)
          refs,       \* Names -> 0..N  (0 = absent)
          hist        \* the behaviour so far (replayed by the harness)
vars == <<loose, packs, refs, hist>>

Commits == 1..N
Present == loose \cup UNION {packs[i] : i \in 1..Len(packs)}
Anc(c) == 1..c
Reachable == UNION {Anc(refs[n]) : n \in {m \in Names : refs[m] # 0}}
Log(a) == hist' = Append(hist, a)

Init == loose = {} /\ packs = <<>> /\ refs = [n \in Names |-> 0] /\ hist = <<>>

\* create commit c (needs its parent) as loose objects; optionally point a ref at it
AddLoose(c) ==
    /\ c \notin Present /\ (c = 1 \/ c - 1 \in Present)
    /\ loose' = loose \cup {c} /\ UNCHANGED <<packs, refs>>
    /\ Log([a |-> "add_loose", c |-> c, n |-> "", s |-> {}])
\* write commits as a new pack (objects already present elsewhere are duplicated)
AddPack(S) ==
    /\ S # {} /\ Len(packs) < MaxPacks
    /\ \A c \in S : c = 1 \/ c - 1 \in Present \cup S
    /\ packs' = Append(packs, S) /\ UNCHANGED <<loose, refs>>
    /\ Log([a |-> "add_pack", c |-> 0, n |-> "", s |-> S])
SetRef(n, c) ==
    /\ c \in Present /\ refs[n] # c
    /\ refs' = [refs EXCEPT ![n] = c] /\ UNCHANGED <<loose, packs>>
    /\ Log([a |-> "set_ref", c |-> c, n |-> n, s |-> {}])
DelRef(n) ==
    /\ refs[n] # 0
    /\ refs' = [refs EXCEPT ![n] = 0] /\ UNCHANGED <<loose, packs>>
    /\ Log([a |-> "del_ref", c |-> 0, n |-> n, s |-> {}])
PackLoose ==
    /\ loose # {}
    /\ packs' = Append(packs, loose) /\ loose' = {} /\ UNCHANGED refs
    /\ Log([a |-> "pack_loose", c |-> 0, n |-> "", s |-> {}])
Repack ==
    /\ Present # {}
    /\ packs' = <<Present>> /\ loose' = {} /\ UNCHANGED refs
    /\ Log([a |-> "repack", c |-> 0, n |-> "", s |-> {}])
\* gc with grace period 0: everything unreachable goes, everything reachable ends up in one pack
GcPrune ==
    /\ Present # {}
    /\ packs' = (IF Reachable = {} THEN <<>> ELSE <<Reachable>>)
    /\ loose' = {} /\ UNCHANGED refs
    /\ Log([a |-> "gc0", c |-> 0, n |-> "", s |-> {}])
\* gc with the default grace period: nothing recent is pruned (everything here is recent), all is repacked
GcKeep ==
    /\ Present # {}
    /\ packs' = <<Present>> /\ loose' = {} /\ UNCHANGED refs
    /\ Log([a |-> "gc_default", c |-> 0, n |-> "", s |-> {}])
PackRefs == /\ UNCHANGED <<loose, packs, refs>> /\ Log([a |-> "pack_refs", c |-> 0, n |-> "", s |-> {}])
Midx     == /\ Len(packs) > 0 /\ UNCHANGED <<loose, packs, refs>> /\ Log([a |-> "write_midx", c |-> 0, n |-> "", s |-> {}])
CGraph   == /\ Reachable # {} /\ UNCHANGED <<loose, packs, refs>> /\ Log([a |-> "write_commit_graph", c |-> 0, n |-> "", s |-> {}])

Next ==
    /\ Len(hist) < MaxLen
    /\ \/ \E c \in Commits : AddLoose(c)
       \/ \E S \in SUBSET Commits : AddPack(S)
       \/ \E n \in Names, c \in Commits : SetRef(n, c)
       \/ \E n \in Names : DelRef(n)
       \/ PackLoose \/ Repack \/ GcPrune \/ GcKeep \/ PackRefs \/ Midx \/ CGraph

Spec == Init /\ [][Next]_vars

\* maintenance never loses a reachable object
ReachablePreserved == Reachable \subseteq Present
\* only gc removes anything at all (action property)
OnlyGcRemoves == [][Present \subseteq Present' \/ hist'[Len(hist')].a \in {"gc0"}]_vars
=============================================================================

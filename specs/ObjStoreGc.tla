------------------------------ MODULE ObjStoreGc ------------------------------
(***************************************************************************)
(* Sequential maintenance histories with reachability (C10).               *)
(* A linear universe of commits 1..N (commit i has parent i-1; its tree    *)
(* and blob are private to it, so "commit i present" stands for the three  *)
(* objects) plus one annotated tag object (id N+2, naming commit 2) and an *)
(* alternate object store that maintenance never touches.  State: which commits exist and where     *)
(* (loose / in which pack), the refs, and whether a commit is old enough   *)
(* to be pruned.  Actions are the builders and maintenance entry points of *)
(* dulwich; the harness replays every action of every generated behaviour  *)
(* on a real repository and compares the readable set after each step.     *)
(***************************************************************************)
EXTENDS Integers, FiniteSets, Sequences, TLC

CONSTANTS N, Names, MaxPacks, MaxLen

VARIABLES loose,      \* set of commits stored loose
          packs,      \* sequence of sets of commits (visible packs)
          refs,       \* Names -> 0..N  (0 = absent)
          oldL,       \* loose commits whose files are older than the grace period
          oldP,       \* sequence of BOOLEAN parallel to packs: the pack file is older than the grace period
          alt,        \* objects held by the alternate object store (objects/info/alternates)
          hist        \* the behaviour so far (replayed by the harness)
vars == <<loose, packs, refs, oldL, oldP, alt, hist>>

Commits == 1..N
TagTargets == {c \in Commits : c = 2}          \* the commits that can carry an annotated tag object
TagOf(c) == N + c
Objects == Commits \cup {TagOf(c) : c \in TagTargets}
Local == loose \cup UNION {packs[i] : i \in 1..Len(packs)}
Present == Local \cup alt
\* everything an object needs: a commit its history, a tag object itself and the history of its commit
Anc(x) == IF x <= N THEN 1..x ELSE {x} \cup (1..(x - N))
Needs(x) == Anc(x) \ {x}
Reachable == UNION {Anc(refs[n]) : n \in {m \in Names : refs[m] # 0}}
Log(a) == hist' = Append(hist, a)

Init == loose = {} /\ packs = <<>> /\ refs = [n \in Names |-> 0] /\ oldL = {} /\ oldP = <<>> /\ alt = {} /\ hist = <<>>

\* "older than the grace period" in the sense of the statement: no copy of the commit was written recently
AllOld(c) == /\ (c \in loose => c \in oldL)
             /\ \A i \in 1..Len(packs) : c \in packs[i] => oldP[i]
\* what a pruning gc with the default grace period may remove (never anything the alternate store holds)
Prunable == {c \in Present \ Reachable : c \notin alt /\ AllOld(c)}

\* create commit c (needs its parent) as loose objects; optionally point a ref at it
AddLoose(c) ==
    /\ c \notin Present /\ Needs(c) \subseteq Present
    /\ loose' = loose \cup {c} /\ UNCHANGED <<packs, refs, oldL, oldP, alt>>
    /\ Log([a |-> "add_loose", c |-> c, n |-> "", s |-> {}])
\* add_object of content that is stored already and has no recent copy: a loose file has its mtime freshened,
\* an object that is only packed gets a (recent) loose copy -- either way it is recent again
ReAdd(c) ==
    /\ c \in Local /\ AllOld(c)
    /\ IF c \in loose THEN oldL' = oldL \ {c} /\ UNCHANGED loose
                      ELSE loose' = loose \cup {c} /\ UNCHANGED oldL
    /\ UNCHANGED <<packs, refs, oldP, alt>>
    /\ Log([a |-> "re_add", c |-> c, n |-> "", s |-> {}])
\* two weeks and a day pass: every file present now is older than every grace period
Age ==
    /\ Local # {} /\ (oldL # loose \/ \E i \in 1..Len(packs) : ~oldP[i])
    /\ oldL' = loose /\ oldP' = [i \in 1..Len(packs) |-> TRUE] /\ UNCHANGED <<loose, packs, refs, alt>>
    /\ Log([a |-> "age", c |-> 0, n |-> "", s |-> {}])
\* write commits as a new pack (objects already present elsewhere are duplicated)
AddPack(S) ==
    /\ S # {} /\ Len(packs) < MaxPacks
    /\ \A c \in S : Needs(c) \subseteq Present \cup S
    /\ packs' = Append(packs, S) /\ oldP' = Append(oldP, FALSE) /\ UNCHANGED <<loose, refs, oldL, alt>>
    /\ Log([a |-> "add_pack", c |-> 0, n |-> "", s |-> S])
\* objects stored in the alternate object store (a second objects directory listed in info/alternates)
AddAlt(S) ==
    /\ S # {} /\ S \cap alt = {}
    /\ \A c \in S : Needs(c) \subseteq Present \cup S
    /\ alt' = alt \cup S /\ UNCHANGED <<loose, packs, refs, oldL, oldP>>
    /\ Log([a |-> "add_alt", c |-> 0, n |-> "", s |-> S])
\* a ref is only ever pointed at a commit whose history is complete (gc with a grace period may
\* legitimately have removed an old unreachable ancestor of a recent unreachable commit: the statement
\* allows it; C git keeps such ancestors since 2.2, dulwich does not -- an observation, not a C10 violation)
SetRef(n, c) ==
    /\ Anc(c) \subseteq Present /\ refs[n] # c
    /\ refs' = [refs EXCEPT ![n] = c] /\ UNCHANGED <<loose, packs, oldL, oldP, alt>>
    /\ Log([a |-> "set_ref", c |-> c, n |-> n, s |-> {}])
DelRef(n) ==
    /\ refs[n] # 0
    /\ refs' = [refs EXCEPT ![n] = 0] /\ UNCHANGED <<loose, packs, oldL, oldP, alt>>
    /\ Log([a |-> "del_ref", c |-> 0, n |-> n, s |-> {}])
PackLoose ==
    /\ loose # {}
    /\ packs' = Append(packs, loose) /\ oldP' = Append(oldP, FALSE) /\ loose' = {} /\ oldL' = {} /\ UNCHANGED <<refs, alt>>
    /\ Log([a |-> "pack_loose", c |-> 0, n |-> "", s |-> {}])
\* C git's `maintenance run --task=loose-objects`: loose objects that are packed already are removed,
\* the remaining ones are copied into a pack named loose-<hash> (and stay loose until the next run)
GitMaintLoose ==
    /\ loose # {} /\ Len(packs) < MaxPacks
    /\ LET packed == UNION {packs[i] : i \in 1..Len(packs)}
           rest == loose \ packed IN
         /\ loose' = rest /\ oldL' = oldL \cap rest
         /\ packs' = (IF rest = {} THEN packs ELSE Append(packs, rest))
         /\ oldP' = (IF rest = {} THEN oldP ELSE Append(oldP, FALSE))
    /\ UNCHANGED <<refs, alt>>
    /\ Log([a |-> "git_maint_loose", c |-> 0, n |-> "", s |-> {}])
Repack ==
    /\ Local # {}
    /\ packs' = <<Local>> /\ oldP' = <<FALSE>> /\ loose' = {} /\ oldL' = {} /\ UNCHANGED <<refs, alt>>
    /\ Log([a |-> "repack", c |-> 0, n |-> "", s |-> {}])
\* gc with grace period 0: everything unreachable goes, everything reachable ends up in one pack
GcPrune ==
    /\ Local # {}
    /\ LET keep == Reachable \cap Local IN
         /\ packs' = (IF keep = {} THEN <<>> ELSE <<keep>>)
         /\ oldP' = (IF keep = {} THEN <<>> ELSE <<FALSE>>)
    /\ loose' = {} /\ oldL' = {} /\ UNCHANGED <<refs, alt>>
    /\ Log([a |-> "gc0", c |-> 0, n |-> "", s |-> {}])
\* gc with the default grace period: unreachable commits none of whose copies is recent go, the rest is repacked
GcKeep ==
    /\ Local # {}
    /\ LET keep == Local \ {c \in Local \ Reachable : AllOld(c)} IN
         /\ packs' = (IF keep = {} THEN <<>> ELSE <<keep>>)
         /\ oldP' = (IF keep = {} THEN <<>> ELSE <<FALSE>>)
    /\ loose' = {} /\ oldL' = {} /\ UNCHANGED <<refs, alt>>
    /\ Log([a |-> "gc_default", c |-> 0, n |-> "", s |-> {}])
\* gc with gc.pruneExpire = never: nothing is ever pruned (the operation may also refuse the setting)
GcNever ==
    /\ Local # {}
    /\ \/ /\ packs' = <<Local>> /\ oldP' = <<FALSE>> /\ loose' = {} /\ oldL' = {}
       \/ UNCHANGED <<loose, packs, oldL, oldP>>
    /\ UNCHANGED <<refs, alt>>
    /\ Log([a |-> "gc_never", c |-> 0, n |-> "", s |-> {}])
\* DiskObjectStore.prune(): removes stale temporary files only; never an object
Prune    == /\ Present # {} /\ UNCHANGED <<loose, packs, refs, oldL, oldP, alt>> /\ Log([a |-> "prune", c |-> 0, n |-> "", s |-> {}])
PackRefs == /\ UNCHANGED <<loose, packs, refs, oldL, oldP, alt>> /\ Log([a |-> "pack_refs", c |-> 0, n |-> "", s |-> {}])
Midx     == /\ Len(packs) > 0 /\ UNCHANGED <<loose, packs, refs, oldL, oldP, alt>> /\ Log([a |-> "write_midx", c |-> 0, n |-> "", s |-> {}])
CGraph   == /\ Reachable # {} /\ UNCHANGED <<loose, packs, refs, oldL, oldP, alt>> /\ Log([a |-> "write_commit_graph", c |-> 0, n |-> "", s |-> {}])

Next ==
    /\ Len(hist) < MaxLen
    /\ \/ \E c \in Objects : AddLoose(c)
       \/ \E S \in SUBSET Objects : AddPack(S)
       \/ \E S \in SUBSET Objects : AddAlt(S)
       \/ \E n \in Names, c \in Objects : SetRef(n, c)
       \/ \E n \in Names : DelRef(n)
       \/ \E c \in Objects : ReAdd(c)
       \/ Age \/ Prune \/ GitMaintLoose
       \/ PackLoose \/ Repack \/ GcPrune \/ GcKeep \/ GcNever \/ PackRefs \/ Midx \/ CGraph

Spec == Init /\ [][Next]_vars

(***************************************************************************)
(* Directed exploration: every sequence of maintenance steps (no builders) *)
(* after six fixed build prefixes   -- an unreachable loose commit above a *)
(* reachable one; a pack plus a loose commit; a commit stored twice.  The  *)
(* harness replays ALL of these behaviours, not a sample.                  *)
(***************************************************************************)
E(a, c, n, s) == [a |-> a, c |-> c, n |-> n, s |-> s]
InitD ==
    /\ oldL = {} /\ alt = {} /\ refs \in {[n \in Names |-> IF n = "refs/heads/a" THEN 1 ELSE 0]}
    /\ \/ /\ loose = {1, 2} /\ packs = <<>> /\ oldP = <<>>
          /\ hist = <<E("add_loose", 1, "", {}), E("add_loose", 2, "", {}), E("set_ref", 1, "refs/heads/a", {})>>
       \/ /\ loose = {3} /\ packs = <<{1, 2}>> /\ oldP = <<FALSE>>
          /\ hist = <<E("add_pack", 0, "", {1, 2}), E("add_loose", 3, "", {}), E("set_ref", 1, "refs/heads/a", {})>>
       \/ /\ loose = {1} /\ packs = <<{1, 2}>> /\ oldP = <<FALSE>>
          /\ hist = <<E("add_loose", 1, "", {}), E("add_pack", 0, "", {1, 2}), E("set_ref", 1, "refs/heads/a", {})>>
    \* fourth prefix: everything lives in a pack written by C git's maintenance (named loose-<hash>), both
    \* commits reachable; its five steps do not count against the length bound
InitD4 ==
    /\ oldL = {} /\ alt = {} /\ refs = [n \in Names |-> IF n = "refs/heads/a" THEN 2 ELSE 0]
    /\ loose = {} /\ packs = <<{1, 2}>> /\ oldP = <<FALSE>>
    /\ hist = <<E("add_loose", 1, "", {}), E("add_loose", 2, "", {}), E("set_ref", 2, "refs/heads/a", {}),
                E("git_maint_loose", 0, "", {}), E("git_maint_loose", 0, "", {})>>
    \* fifth prefix: history 1,2 only in the alternate store, commit 3 and the tag object of 2 loose; the branch
    \* names 1, the tag ref names the tag object (so 2 is reachable only through the tag), 3 is unreachable
InitD5 ==
    /\ oldL = {} /\ alt = {1, 2} /\ loose = {3, TagOf(2)} /\ packs = <<>> /\ oldP = <<>>
    /\ refs = [n \in Names |-> IF n = "refs/heads/a" THEN 1 ELSE IF n = "refs/tags/t" THEN TagOf(2) ELSE 0]
    /\ hist = <<E("add_alt", 0, "", {1, 2}), E("add_loose", 3, "", {}), E("add_loose", TagOf(2), "", {}),
                E("set_ref", 1, "refs/heads/a", {}), E("set_ref", TagOf(2), "refs/tags/t", {})>>
    \* sixth prefix: unreachable commits 2, 3 stored twice -- in an old pack and in a pack written after the ageing
InitD6 ==
    /\ oldL = {} /\ alt = {} /\ loose = {} /\ packs = <<{1, 2, 3}, {2, 3}>> /\ oldP = <<TRUE, FALSE>>
    /\ refs = [n \in Names |-> IF n = "refs/heads/a" THEN 1 ELSE 0]
    /\ hist = <<E("add_pack", 0, "", {1, 2, 3}), E("set_ref", 1, "refs/heads/a", {}), E("age", 0, "", {}),
                E("add_pack", 0, "", {2, 3})>>
DirectedPrefix == IF hist[1].a = "add_alt" \/ hist[3].c = 2 THEN 5 ELSE IF hist[3].a = "age" THEN 4 ELSE 3
NextMaint ==
    /\ Len(hist) < MaxLen + (DirectedPrefix - 3)
    /\ \/ \E c \in Objects : ReAdd(c)
       \/ Age \/ Prune \/ GitMaintLoose \/ PackLoose \/ Repack \/ GcPrune \/ GcKeep \/ GcNever \/ Midx
SpecD == (InitD \/ InitD4 \/ InitD5 \/ InitD6) /\ [][NextMaint]_vars

\* maintenance never loses a reachable object
ReachablePreserved == Reachable \subseteq Present
\* only a pruning gc removes anything at all, and the one with a grace period only what is unreachable
\* and has no recent copy (action properties)
OnlyGcRemoves == [][Present \subseteq Present' \/ hist'[Len(hist')].a \in {"gc0", "gc_default"}]_vars
GraceRespected == [][hist'[Len(hist')].a = "gc_default" => (Present \ Present') \subseteq Prunable]_vars
TypeOK == oldL \subseteq loose /\ Len(oldP) = Len(packs) /\ Present \subseteq Objects
=============================================================================

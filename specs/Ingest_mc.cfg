SPECIFICATION Spec
CONSTANTS
  MaxWrites = 3
  MaxFaults = 1
  Rollback = TRUE
  RollbackRobust = TRUE
  MemAtomic = TRUE
INVARIANT FailedIngestInvisible
INVARIANT NoPartialPackUsed
INVARIANT SuccessIsConsistent
INVARIANT TmpNeverInstalledPartial
INVARIANT Finishes
CHECK_DEADLOCK FALSE

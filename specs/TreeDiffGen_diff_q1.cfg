SPECIFICATION DiffSpec
CONSTANTS
  BPaths <- TinyPaths
  BCells <- FourCells
  BMax = 2
  DPaths <- ConflictPaths
  DCells <- TwoCells
  DMax = 2
  Filters <- StdFilters
INVARIANT Lemmas
CHECK_DEADLOCK FALSE

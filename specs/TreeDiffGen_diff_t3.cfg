SPECIFICATION DiffSpec
CONSTANTS
  BPaths <- TinyPaths
  BCells <- FourCells
  BMax = 2
  DPaths <- DeepPaths
  DCells <- ThreeCells
  DMax = 3
  Filters <- StdFilters
INVARIANT Lemmas
CHECK_DEADLOCK FALSE

------------------------------ MODULE IngestFetch ------------------------------
(***************************************************************************)
(* C04 -- a transfer into a repository (GitClient.fetch with depth /       *)
(* unshallow, porcelain.fetch on top of it) as a transaction over ALL the  *)
(* repository state it can touch, not only the object store:               *)
(*                                                                         *)
(*   Negotiate   the server announces the new shallow boundary ahead of    *)
(*               the pack (result.new_shallow / new_unshallow)             *)
(*   Receive     the pack stream is copied into the store's incoming file  *)
(*               (it may arrive damaged: flipped bit, cut short, hostile)  *)
(*   Commit      the store ingests it (Ingest.tla): all objects or none    *)
(*   UpdateShallow   .git/shallow is rewritten to the announced boundary   *)
(*   UpdateRefs      the caller (porcelain.fetch) moves the tracking refs  *)
(*   Return                                                                *)
(*                                                                         *)
(* ShallowAfterCommit = TRUE is the code as it is: the boundary is         *)
(* recorded only after a successful Commit.  FALSE (negative control): it  *)
(* is recorded as soon as fetch_pack returns -- a pack that then fails     *)
(* ingestion leaves a repository that claims parents it never stored.      *)
(***************************************************************************)
EXTENDS Integers, TLC

CONSTANT ShallowAfterCommit

VARIABLES pc, stream,     \* "good" | "damaged"
          objs, shallow, refs,   \* "old" | "new"
          res             \* "none" | "ok" | "failed"

fvars == <<pc, stream, objs, shallow, refs, res>>

Init == /\ pc = "negotiate" /\ stream \in {"good", "damaged"}
        /\ objs = "old" /\ shallow = "old" /\ refs = "old" /\ res = "none"

Negotiate == /\ pc = "negotiate" /\ pc' = "receive" /\ UNCHANGED <<stream, objs, shallow, refs, res>>

Receive == /\ pc = "receive"
           /\ pc' = (IF ShallowAfterCommit THEN "commit" ELSE "shallow")
           /\ UNCHANGED <<stream, objs, shallow, refs, res>>

Commit == /\ pc = "commit"
          /\ IF stream = "good"
               THEN objs' = "new" /\ pc' = (IF ShallowAfterCommit THEN "shallow" ELSE "refs") /\ UNCHANGED res
               ELSE res' = "failed" /\ pc' = "done" /\ UNCHANGED objs      \* Ingest: a failed ingestion publishes nothing
          /\ UNCHANGED <<stream, shallow, refs>>

UpdateShallow == /\ pc = "shallow" /\ shallow' = "new"
                 /\ pc' = (IF ShallowAfterCommit THEN "refs" ELSE "commit")
                 /\ UNCHANGED <<stream, objs, refs, res>>

UpdateRefs == /\ pc = "refs" /\ refs' = "new" /\ pc' = "ret" /\ UNCHANGED <<stream, objs, shallow, res>>

Return == /\ pc = "ret" /\ res' = "ok" /\ pc' = "done" /\ UNCHANGED <<stream, objs, shallow, refs>>

Next == Negotiate \/ Receive \/ Commit \/ UpdateShallow \/ UpdateRefs \/ Return
Spec == Init /\ [][Next]_fvars

(* the observation the harness makes on the real repository: every file of the control directory + visible objects *)
FailedTransferInvisible == res = "failed" => (objs = "old" /\ shallow = "old" /\ refs = "old")
SuccessIsComplete == res = "ok" => (objs = "new" /\ shallow = "new" /\ refs = "new" /\ stream = "good")
(* the boundary never runs ahead of the objects it presupposes once the call is over *)
ShallowNeverAhead == pc = "done" => (shallow = "new" => objs = "new")
=============================================================================

\* negative control: exclusion is NOT exact when a parent is newer than its child (WalkExcludes violated) -- the statement's monotone condition is needed
SPECIFICATION Spec
CONSTANTS
  MaxExtra = 1
  N = 4
  L = 3
  Mode = "walk"
  UseMinStamp = TRUE
  Reduce = FALSE
  Clocks = "any"
  MaxD = 1
  TieBreak = "both"
INVARIANT WalkExcludes
CHECK_DEADLOCK FALSE

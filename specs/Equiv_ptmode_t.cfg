SPECIFICATION Spec
CONSTANTS
  Fam = "ptmode"
  MaxLen = 4
  Sel = {1, 2, 3, 4}
INVARIANT Lemmas
INVARIANT InModel
CHECK_DEADLOCK FALSE

---------------------------- MODULE IngestTrace ----------------------------
(***************************************************************************)
(* Batch judgement of what the real code did, against Ingest.              *)
(*                                                                         *)
(* One ndjson line per record:                                             *)
(*   kind = "ev": one read / ingestion of a damaged or crafted artefact:   *)
(*       o = [outcome, ordinary, pre, post, bad, partialvisible, trailerok,*)
(*            rawpath, ms, budget]                                         *)
(*     the verdict is the first observation clause of Ingest that fails.   *)
(*   kind = "tx": one ingestion under os-level interposition (possibly     *)
(*     with an injected fault): path, inp = [bad, dup], the projected      *)
(*     file-system events ev = <<[op, role, ok, tmp, pack, lock, idx,      *)
(*     partialvisible]>> (state observed after the call) and the final     *)
(*     observation o.                                                      *)
(*     Every event is first matched against Ingest!Next (label and         *)
(*     observed existence of the four files).  If no model step matches,   *)
(*     the execution has left the modelled protocol: recorded as drift,    *)
(*     the observed state is adopted, and judging continues.  Property     *)
(*     clauses: NoPartialPackUsed after every event, and all observation   *)
(*     clauses on o at the end.                                            *)
(*   kind = "seq": a sequence of accesses on one long-lived handle over a  *)
(*     damaged artefact: o (containment of the whole sequence) and         *)
(*     acc = <<[k, r]>>, judged with RepeatObs (clause RepeatContained).   *)
(***************************************************************************)
EXTENDS Ingest, Json, IOUtils

Traces == ndJsonDeserialize(IOEnv.TRACE_FILE)

VARIABLES tid, l, verdict, failAt, driftAt
tvars == <<vars, tid, l, verdict, failAt, driftAt>>

T == Traces[tid]
ToSet(s) == {s[k] : k \in 1..Len(s)}
ObsOf(o) == [outcome |-> o.outcome, ordinary |-> o.ordinary, pre |-> ToSet(o.pre), post |-> ToSet(o.post),
             bad |-> o.bad, partialvisible |-> o.partialvisible, trailerok |-> o.trailerok,
             rawpath |-> o.rawpath, ms |-> o.ms, budget |-> o.budget]

ObsClause(o) ==
  IF ~ContainedObs(o) THEN "Contained"
  ELSE IF ~PromptObs(o) THEN "Prompt"
  ELSE IF ~FailedInvisibleObs(o) THEN "FailedIngestInvisible"
  ELSE IF ~NoPartialObs(o) THEN "NoPartialPackUsed"
  ELSE IF ~ConsistentObs(o) THEN "SuccessIsConsistent"
  ELSE IF ~TrailerObs(o) THEN "TrailerChecked"
  ELSE "ok"

IsTx == T.kind = "tx"
Ev == T.ev

TraceInit ==
  /\ tid \in 1..Len(Traces)
  /\ l = 1 /\ verdict = "ok" /\ failAt = 0 /\ driftAt = 0
  /\ Init
  /\ IF IsTx THEN kind = T.path /\ inp = [bad |-> T.inp.bad, dup |-> T.inp.dup]
     ELSE kind = "memory" /\ inp = [bad |-> "none", dup |-> FALSE]

Exists(x) == x \notin {"none", "absent"}

Strict(e) ==
  /\ Next
  /\ last' = [op |-> e.op, role |-> e.role, ok |-> e.ok]
  /\ Exists(tmp') = e.tmp /\ Exists(pack') = e.pack /\ Exists(lock') = e.lock /\ Exists(idx') = e.idx

(* ghost update from the observed call when the model has no matching step *)
Generic(e) ==
  /\ last' = [op |-> e.op, role |-> e.role, ok |-> e.ok]
  /\ tmp' = (IF e.tmp THEN (IF tmp = "none" THEN "open" ELSE tmp) ELSE "none")
  /\ pack' = (IF e.pack THEN "present" ELSE "absent")
  /\ lock' = (IF e.lock THEN (IF lock = "none" THEN "open" ELSE lock) ELSE "none")
  /\ idx' = (IF e.idx THEN "present" ELSE "absent")
  /\ pc' = (IF e.op = "ret" THEN "done" ELSE "drift")
  /\ res' = (IF e.op = "ret" THEN (IF e.ok THEN "ok" ELSE "failed") ELSE res)
  /\ failing' = (failing \/ ~e.ok)
  /\ UNCHANGED <<kind, inp, tmpc, packc, lockc, idxc, validated, madded, nw, faults>>

Consume ==
  /\ IsTx /\ l <= Len(Ev)
  /\ LET e == Ev[l] IN
       /\ IF ENABLED Strict(e)
            THEN Strict(e) /\ driftAt' = driftAt
            ELSE Generic(e) /\ driftAt' = (IF driftAt = 0 THEN l ELSE driftAt)
       /\ LET c == IF e.partialvisible THEN "NoPartialPackUsed" ELSE "ok" IN
            /\ verdict' = (IF verdict = "ok" THEN c ELSE verdict)
            /\ failAt' = (IF verdict = "ok" /\ c # "ok" THEN l ELSE failAt)
  /\ l' = l + 1
  /\ UNCHANGED tid

Finish ==
  /\ l = (IF IsTx THEN Len(Ev) + 1 ELSE 1)
  /\ LET c0 == ObsClause(ObsOf(T.o))
         c == IF c0 = "ok" /\ T.kind = "seq" /\ ~RepeatObs(T.acc) THEN "RepeatContained" ELSE c0
         v == IF verdict = "ok" THEN c ELSE verdict
         f == IF verdict = "ok" /\ c # "ok" THEN l ELSE failAt
     IN PrintT(<<"VERDICT", T.tid, v, f, driftAt>>)
  /\ l' = l + 1
  /\ UNCHANGED <<vars, tid, verdict, failAt, driftAt>>

TraceNext == Consume \/ Finish
TraceSpec == TraceInit /\ [][TraceNext]_tvars
=============================================================================

SPECIFICATION Spec
CONSTANTS
  NameMask = 4095
  Family = "exts"
  MaxKeys = 3
  MaxEdits = 1
  Defect = "none"
INVARIANT OrderInv
INVARIANT ShapeInv
CHECK_DEADLOCK FALSE

-------------------------- MODULE ConfigSharedTrace --------------------------
(***************************************************************************)
(* Recorded executions of a real long-lived Repo, the real git binary and  *)
(* a second dulwich handle on one .git/config, judged against              *)
(* ConfigShared.  One ndjson line per execution: [tid, ev]; an event is    *)
(*   [op, w, k, v, ret, raised, lock, after]                               *)
(* op "read" | "oset" | "ext" | "refused"; ret = value index the owner     *)
(* returned; raised / lock = the refused rewrite raised / left config.lock;*)
(* after = <<value of key 1, value of key 2>> parsed from the file after   *)
(* the step by an independent reader (0 = key missing).                    *)
(* Verdict: the first property clause an event violates (with its index),  *)
(* and shape differences (an external writer or a read that changed the    *)
(* file in an unexpected way) as drift.                                    *)
(***************************************************************************)
EXTENDS Naturals, Sequences, TLC, Json, IOUtils

Traces == ndJsonDeserialize(IOEnv.TRACE_FILE)

Upd(f, k, v) == [i \in 1..2 |-> IF i = k THEN v ELSE f[i]]
Clause(pre, e) ==
    CASE e.op = "read"    -> IF e.ret = pre[e.k] THEN "ok" ELSE "ReadFresh"
    []   e.op = "oset"    -> IF e.after = Upd(pre, e.k, e.v) THEN "ok" ELSE "WritePreserves"
    []   e.op = "refused" -> IF e.raised /\ ~e.lock /\ e.same /\ e.after = pre THEN "ok" ELSE "RefusedAtomic"
    []   OTHER            -> "ok"
Shape(pre, e) ==
    CASE e.op = "read" -> e.after = pre
    []   e.op = "ext"  -> e.after = Upd(pre, e.k, e.v)
    []   OTHER         -> TRUE

RECURSIVE Walk(_, _, _, _)
\* -> <<clause, index of the failing event, index of the first drift event>>
Walk(ev, i, pre, drift) ==
    IF i > Len(ev) THEN <<"ok", 0, drift>>
    ELSE LET e == ev[i]
             c == Clause(pre, e)
             d == IF drift = 0 /\ ~Shape(pre, e) THEN i ELSE drift
         IN  IF c # "ok" THEN <<c, i, d>> ELSE Walk(ev, i + 1, e.after, d)

Judge(t) == LET r == Walk(t.ev, 1, <<1, 1>>, 0)
            IN  ToJson([tid |-> t.tid, prop |-> r[1], at |-> r[2], drift |-> r[3]])

GroupSize == 200
NGroups == (Len(Traces) + GroupSize - 1) \div GroupSize
VARIABLES grp, tid, j
tvars == <<grp, tid, j>>
TraceInit == grp \in 1..NGroups /\ tid = 0 /\ j = ""
TraceNext == /\ tid = 0
             /\ tid' \in ((grp - 1) * GroupSize + 1)..(IF grp * GroupSize < Len(Traces) THEN grp * GroupSize ELSE Len(Traces))
             /\ j' = Judge(Traces[tid'])
             /\ UNCHANGED grp
TraceSpec == TraceInit /\ [][TraceNext]_tvars
=============================================================================

SPECIFICATION Spec
CONSTANTS
  MaxN = 1
  NP = 1
  LoffAt32 = TRUE
INVARIANT Lemma
CHECK_DEADLOCK FALSE

SPECIFICATION Spec
CONSTANTS
  Fam = "deltax"
  MaxLen = 3
  Sel = {}
INVARIANT Lemmas
INVARIANT InModel
CHECK_DEADLOCK FALSE

SPECIFICATION Spec
CONSTANTS
  Family = "prefix-classq"
INVARIANT Theorems
CHECK_DEADLOCK FALSE

\* _CommitTimeQueue with the smallest possible slop: complete without excludes under any clock, exact excludes under monotone clocks
SPECIFICATION Spec
CONSTANTS
  MaxExtra = 1
  N = 4
  L = 3
  Mode = "walk"
  UseMinStamp = TRUE
  Reduce = FALSE
  Clocks = "any"
  MaxD = 1
  TieBreak = "both"
INVARIANT WalkSound
INVARIANT WalkOnce
INVARIANT WalkComplete
INVARIANT WalkExcludesWhenMonotone
CHECK_DEADLOCK FALSE

SPECIFICATION Spec
CONSTANTS
  Fam = "items"
  MaxLen = 4
  Sel = {"F", "T", "G"}
INVARIANT Lemmas
INVARIANT InModel
CHECK_DEADLOCK FALSE

SPECIFICATION Spec
CONSTANTS
  NameMask = 7
  Family = "lemmaq"
  MaxKeys = 2
  MaxEdits = 1
  Defect = "none"
INVARIANT OrderInv
INVARIANT ShapeInv
CHECK_DEADLOCK FALSE
INVARIANT ParseInv
INVARIANT ChecksumInv

SPECIFICATION Spec
CONSTANTS
  Fam = "ptstr"
  MaxLen = 4
  Sel = {1, 2, 5, 7}
INVARIANT Lemmas
INVARIANT InModel
CHECK_DEADLOCK FALSE

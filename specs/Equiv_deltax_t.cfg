SPECIFICATION Spec
CONSTANTS
  Fam = "deltax"
  MaxLen = 4
  Sel = {}
INVARIANT Lemmas
INVARIANT InModel
CHECK_DEADLOCK FALSE

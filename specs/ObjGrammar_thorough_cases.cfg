SPECIFICATION Spec
CONSTANTS
  Radius = 3
  TreeMax = 3
  Alphabet = {1, 45, 48, 97, 255}
  Kinds = {"commit", "tag", "tree", "blob"}
  EmptyLine = 0
  Part = 0
  Edits = FALSE
INVARIANT WellFormed
INVARIANT TreeSorted
CHECK_DEADLOCK FALSE

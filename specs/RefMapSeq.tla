------------------------------ MODULE RefMapSeq ------------------------------
(***************************************************************************)
(* The sequential ref store: one map, one call at a time.  This is the     *)
(* contract every backend is compared with, and the sequential             *)
(* specification the concurrent ref specifications are linearized against. *)
(***************************************************************************)
EXTENDS RefMap, TLC

VARIABLES refs,     \* the ref map
          last      \* [c, res]: the call just made and what it returned

svars == <<refs, last>>

NoCall == [c |-> Call("Init", NoName, AnyOld, "", NoName), res |-> "None"]

SInit == refs = EmptyMap /\ last = NoCall

Do(c) ==
    LET r == Apply(refs, c) IN
    /\ refs' = r.m
    /\ last' = [c |-> c, res |-> r.res]

\* pack_refs / C git packing the directory / re-opening the container: nothing observable happens
Invisible(op, arg) ==
    /\ refs' = refs
    /\ last' = [c |-> Call(op, NoName, AnyOld, arg, NoName), res |-> "None"]

SNext == \/ \E c \in Calls : Do(c)
         \/ \E arg \in {"all", "tags"} : Invisible("PackRefs", arg)
         \/ Invisible("GitPack", "")
         \/ Invisible("Reopen", "")
SSpec == SInit /\ [][SNext]_svars

\* ------------------------------------------------------------- properties of the contract
TypeOK == refs \in RefMaps

\* no two existing refs collide as file versus directory
CollisionFree == NoCollision(refs)

\* unconditional calls on a non-colliding name always take effect; conditional ones exactly
\* when their condition held in the state before
IsCall(c) == c.op \in {"Set", "SetIfEquals", "AddIfNew", "RemoveIfEquals", "Remove", "SetSymbolic"}
ContractStep ==
    LET c == last'.c  res == last'.res  tgt == Target(refs, c) IN
    /\ (c.op \in {"Set", "SetIfEquals", "AddIfNew", "RemoveIfEquals", "Remove", "SetSymbolic"}
          /\ res \notin {"True", "None"}) => refs' = refs
    /\ (c.op \in {"Set", "SetIfEquals"} /\ ~Colliding(refs, c)) =>
          /\ res = "True" <=> (c.old = AnyOld \/ Content(refs, tgt) = c.old)
          /\ res = "True" => /\ refs'[tgt] = Direct(c.v)
                             /\ \A n \in Names \ {tgt} : refs'[n] = refs[n]
                             /\ (Follow(refs, c.n).res # "loop" => GetStr(refs', c.n) = c.v)
    /\ (c.op = "AddIfNew" /\ ~Colliding(refs, c)) =>
          /\ res = "True" <=> Follow(refs, c.n).res = "missing"
          /\ res = "True" => GetStr(refs', c.n) = c.v
    /\ (c.op \in {"Remove", "RemoveIfEquals"} /\ ~Colliding(refs, c)) =>
          /\ res = "True" <=> (c.old = AnyOld \/ Content(refs, c.n) = c.old)
          /\ res = "True" => /\ refs'[c.n] = Absent
                             /\ \A n \in Names \ {c.n} : refs'[n] = refs[n]
    /\ (c.op = "SetSymbolic" /\ ~Colliding(refs, c)) =>
          /\ res = "None" /\ refs'[c.n] = Sym(c.t)
          /\ \A n \in Names \ {c.n} : refs'[n] = refs[n]
    /\ (IsCall(c) /\ Colliding(refs, c)) => res \in {"Refused", "NoEffect"}
    /\ c.op \in {"PackRefs", "GitPack", "Reopen"} => refs' = refs
Contract == [][ContractStep]_svars

\* no action reads `last`; the step property reads only last'
SeqView == refs
=============================================================================

------------------------------- MODULE RefName -------------------------------
(***************************************************************************)
(* git check-ref-format <name> (no options) as a predicate over byte       *)
(* strings, written from the rules of git-check-ref-format(1):             *)
(*   1. slash-separated components, none may begin with "." or end with    *)
(*      ".lock";                                                           *)
(*   2. at least two components (one "/");                                 *)
(*   3. no ".." anywhere;                                                  *)
(*   4. no control character (< 0x20, 0x7f), space, "~", "^", ":";         *)
(*   5. no "?", "*", "[";                                                  *)
(*   6. no leading or trailing "/", no "//" (no empty component);          *)
(*   7. does not end with ".";                                             *)
(*   8. no "@{";                                                           *)
(*   9. is not the single character "@";                                   *)
(*  10. no "\".                                                            *)
(* Bytes >= 0x80 are ordinary characters.  dulwich.refs.check_ref_format   *)
(* claims exactly these rules.                                             *)
(*                                                                         *)
(* For enumeration the module also defines a token alphabet (one           *)
(* representative per character class, plus "lock" and "loc" as tokens so  *)
(* that the ".lock" rule and its near misses are inside a small bound):    *)
(* TLC enumerates every token string up to MaxTokens, one initial state    *)
(* per string, with the expanded bytes and the verdict.                    *)
(***************************************************************************)
EXTENDS Naturals, Sequences, FiniteSets

CONSTANTS MaxTokens

SLASH == 47  DOT == 46  AT == 64  LBRACE == 123
BadBytes == (0..31) \cup {127, 32, 126, 94, 58, 63, 42, 91, 92}     \* ctrl DEL space ~ ^ : ? * [ \
DotLock == <<46, 108, 111, 99, 107>>

\* indices at which a component starts: 1, and after every slash; a component ends before the
\* next slash or at the end
Slashes(b) == {i \in 1..Len(b) : b[i] = SLASH}
CompStarts(b) == {1} \cup {i + 1 : i \in Slashes(b)}
CompEnd(b, s) ==          \* index of the last byte of the component starting at s (s - 1 if empty)
    LET later == {i \in Slashes(b) : i >= s} IN
    IF later = {} THEN Len(b) ELSE (CHOOSE i \in later : \A j \in later : i <= j) - 1

EndsWithLock(b, s, e) == e - s + 1 >= 5 /\ SubSeq(b, e - 4, e) = DotLock

Valid(b) ==
    /\ Len(b) > 0
    /\ b # <<AT>>                                                          \* 9
    /\ Slashes(b) # {}                                                     \* 2
    /\ \A i \in 1..Len(b) : b[i] \notin BadBytes                           \* 4, 5, 10
    /\ \A i \in 1..(Len(b) - 1) : ~(b[i] = DOT /\ b[i + 1] = DOT)          \* 3
    /\ \A i \in 1..(Len(b) - 1) : ~(b[i] = AT /\ b[i + 1] = LBRACE)        \* 8
    /\ b[Len(b)] # DOT                                                     \* 7
    /\ \A s \in CompStarts(b) :
          LET e == CompEnd(b, s) IN
          /\ e >= s                                                        \* 6 (no empty component)
          /\ b[s] # DOT                                                    \* 1a
          /\ ~EndsWithLock(b, s, e)                                        \* 1b

\* ------------------------------------------------------------- enumeration
Tokens == { <<47>>, <<46>>, <<64>>, <<123>>, <<92>>, <<1>>, <<127>>, <<32>>, <<126>>, <<42>>,
            <<108, 111, 99, 107>>, <<108, 111, 99>>, <<120>> }
RECURSIVE Expand(_)
Expand(ts) == IF ts = <<>> THEN <<>> ELSE Head(ts) \o Expand(Tail(ts))
TokSeqs == UNION {[1..n -> Tokens] : n \in 0..MaxTokens}

VARIABLES bytes, ok
EnumInit == \E ts \in TokSeqs : bytes = Expand(ts) /\ ok = Valid(bytes)
EnumNext == UNCHANGED <<bytes, ok>>
EnumSpec == EnumInit /\ [][EnumNext]_<<bytes, ok>>

\* sanity of the predicate itself (checked on every enumerated string):
\* a valid name stays valid when a valid name is appended as further components, and every
\* component of a valid name, prefixed with "x/", is valid
Sane == ok => /\ Valid(bytes \o <<SLASH, 120>>)
              /\ Valid(<<120, SLASH>> \o bytes)
              /\ ~Valid(bytes \o <<SLASH>>) /\ ~Valid(<<SLASH>> \o bytes) /\ ~Valid(bytes \o <<DOT>>)
=============================================================================

SPECIFICATION Spec
CONSTANTS
  Family = "prefix-classt"
INVARIANT Theorems
CHECK_DEADLOCK FALSE

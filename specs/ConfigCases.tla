----------------------------- MODULE ConfigCases -----------------------------
(***************************************************************************)
(* Enumeration of C20 case spaces with TLC.  The state is a string x over  *)
(* the alphabet of the chosen space, grown one character per step (a tree, *)
(* so the successors of different states are computed by different         *)
(* workers).  x stands for a configuration (spaces "val", "sub", "name")   *)
(* or for a hand-written file (spaces "fval", "fhdr").  Every state        *)
(* carries, as JSON in j, what Config.tla says about the case: the bytes   *)
(* both writers produce and what both readers read from them.  The harness *)
(* executes every case on the real dulwich and the real git and compares.  *)
(***************************************************************************)
EXTENDS Config

CONSTANTS
    Space,          \* "val" | "sub" | "name" | "fval" | "fhdr"
    MaxLen          \* longest enumerated string

\* ================================================================== case spaces
S1 == <<115>>                   \* "s"
K1 == <<107>>                   \* "k"
V1 == <<118>>                   \* "v"
ValAlphabet == {SP, TAB, DQ, BSL, HASH, SEMI, LF, CR, 110, 116, 98, 97, EQ, VT}
SubAlphabet == {DQ, BSL, DOT, SP, 97, 65, RBR, HASH, SEMI, TAB, EQ, CR}
NameAlphabet == {97, 65, 49, DASH}
FileValAlphabet == {SP, TAB, DQ, BSL, HASH, SEMI, LF, CR, 110, 116, 98, 97, EQ, LBR}
FileHdrAlphabet == {115, 83, SP, TAB, DQ, BSL, RBR, DOT, HASH, LF, DASH, EQ, 49}

OneVal(sec, hs, sub, k, v) == <<[sec |-> sec, hs |-> hs, sub |-> sub, items |-> <<[k |-> k, v |-> v]>>]>>
Alphabet == CASE Space = "val" -> ValAlphabet [] Space = "sub" -> SubAlphabet [] Space = "name" -> NameAlphabet
            [] Space = "fval" -> FileValAlphabet [] Space = "fhdr" -> FileHdrAlphabet

\* the configuration a string of the space stands for (spaces of configurations)
CfgOf(x) == CASE Space = "val"  -> OneVal(S1, FALSE, <<>>, K1, x)
            []   Space = "sub"  -> OneVal(S1, TRUE, x, K1, V1)
            []   Space = "name" -> OneVal(x, FALSE, <<>>, <<107>> \o x, V1)
\* the file a string of the space stands for (spaces of hand-written files)
FileOf(x) == CASE Space = "fval" -> <<LBR, 115, RBR, LF, TAB, 107, SP, EQ>> \o x \o <<LF>>
             []   Space = "fhdr" -> <<LBR>> \o x \o <<LF, 107, EQ, 118, LF>>

IsCfgSpace == Space \in {"val", "sub", "name"}
Legal(x) == Space # "name" \/ Len(x) >= 1

Opt(same, r) == IF same THEN <<>> ELSE <<r>>     \* compact JSON: [] = "as expected"
CaseJson(x) ==
    IF IsCfgSpace THEN
        LET cfg == CfgOf(x)
            dw == DulWrite(cfg)  dr == DulRead(dw)  gr == GitRead(dw)
            gw == GitWrite(cfg)  dg == DulRead(gw)  gg == GitRead(gw)
            rt == dr.ok /\ Norm(dr.cfg) = Norm(cfg)
            dgok == gr.ok /\ SameMeaning(gr.ents, Flat(cfg))
            gdv == dg.ok /\ SameMeaning(Flat(dg.cfg), Flat(cfg))
            gdg == dg.ok /\ gg.ok /\ SameMeaning(Flat(dg.cfg), gg.ents)
        IN  ToJson([x |-> x, dw |-> dw, gw |-> gw, rt |-> rt, dgok |-> dgok, gd |-> gdv \/ gdg,
                    dr |-> Opt(rt, dr), gr |-> Opt(dgok, gr), dg |-> Opt(gdv, dg),
                    gg |-> Opt(gg.ok /\ SameMeaning(gg.ents, Flat(cfg)), gg)])
    ELSE
        LET f == FileOf(x) dr == DulRead(f) gr == GitRead(f)
        IN  ToJson([x |-> x, f |-> f, dr |-> dr, gr |-> gr,
                    agree |-> (dr.ok = gr.ok) /\ (dr.ok => SameMeaning(Flat(dr.cfg), gr.ents))])

VARIABLES x, j
vars == <<x, j>>
Init == x = <<>> /\ j = IF Legal(<<>>) THEN CaseJson(<<>>) ELSE ""
Next == /\ Len(x) < MaxLen
        /\ \E c \in Alphabet : x' = Append(x, c)
        /\ j' = CaseJson(x')
Spec == Init /\ [][Next]_vars

\* model-level statement of C20 on the enumerated configurations (an invariant of Spec)
PropRoundTrip == (IsCfgSpace /\ Legal(x)) => RoundTrip(CfgOf(x))
PropInteropDG == (IsCfgSpace /\ Legal(x)) => InteropDG(CfgOf(x))
PropInteropGD == (IsCfgSpace /\ Legal(x)) => InteropGD(CfgOf(x))
=============================================================================

------------------------------- MODULE Config -------------------------------
(***************************************************************************)
(* git configuration files: what C git reads, what dulwich reads, what     *)
(* dulwich and C git write.                                                *)
(*                                                                         *)
(*   GitRead(bytes)   git 2.39.5 config.c (git_parse_source, get_base_var, *)
(*                    get_extended_base_var, get_value, parse_value,       *)
(*                    get_next_char) as a character automaton              *)
(*   GitWrite(cfg)    config.c write_pair / write_section quoting rules    *)
(*   DulRead(bytes)   dulwich/config.py ConfigFile.from_file with          *)
(*                    _parse_section_header_line, _strip_comments,         *)
(*                    _is_line_continuation, _parse_string,                *)
(*                    _unescape_subsection, CaseInsensitiveOrderedMultiDict*)
(*   DulWrite(cfg)    ConfigFile.write_to_file with _format_string,        *)
(*                    _escape_value, _escape_subsection                    *)
(*                                                                         *)
(* Bytes are naturals 0..255, byte strings are sequences.  A configuration *)
(* (what a ConfigFile object holds) is a sequence of sections              *)
(*     [sec, hs, sub, items]     hs = "has a subsection"                   *)
(* with items a sequence of [k, v].  What git reports (config --list) is a *)
(* sequence of entries [sec, hs, sub, k, hv, v] in file order (hv = FALSE  *)
(* for a key without "= value").                                           *)
(*                                                                         *)
(* The property (C20) is stated at the end: RoundTrip, InteropDG,          *)
(* InteropGD.  This module has no variables; ConfigCases (enumeration of   *)
(* case spaces), ConfigOps (set/add/remove/rewrite histories) and          *)
(* ConfigTrace (validation of recorded real executions) extend it.         *)
(***************************************************************************)
EXTENDS Naturals, Sequences, FiniteSets, TLC, Json

CONSTANTS
    \* declared variants of the dulwich code; FALSE everywhere = dulwich 671b511 as it is
    QuoteSemi,      \* writer: a value containing ';' is written inside double quotes
    CrRaw,          \* writer: CR is written raw inside double quotes instead of as "\r"
    QuoteAnySpace,  \* writer: quotes on leading/trailing VT, FF, CR, LF too (not only SP, TAB)
    ValueStripGit,  \* reader: _parse_string strips SP TAB CR LF only (git's isspace), not VT / FF
    HdrEscAware     \* reader: _strip_comments honours backslash escapes

\* ------------------------------------------------------------------ characters
BS == 8     TAB == 9    LF == 10    VT == 11    FF == 12    CR == 13    SP == 32
DQ == 34    HASH == 35  DASH == 45  DOT == 46   SEMI == 59  EQ == 61
LBR == 91   BSL == 92   RBR == 93

IsUpper(c) == c >= 65 /\ c <= 90
IsLower(c) == c >= 97 /\ c <= 122
IsDigit(c) == c >= 48 /\ c <= 57
IsAlpha(c) == IsUpper(c) \/ IsLower(c)
IsAlnum(c) == IsAlpha(c) \/ IsDigit(c)
Lower(c)   == IF IsUpper(c) THEN c + 32 ELSE c
LowerS(s)  == [i \in 1..Len(s) |-> Lower(s[i])]
GitSpace(c) == c \in {SP, TAB, LF, CR}              \* git's sane_ctype isspace
PySpace(c)  == c \in {SP, TAB, LF, CR, VT, FF}      \* bytes.strip() / bytes.lstrip()
KeyChar(c)  == IsAlnum(c) \/ c = DASH               \* git iskeychar, dulwich _check_variable_name

\* ------------------------------------------------------------------ byte-string helpers
RECURSIVE SkipFwd(_, _)
SkipFwd(s, i) == IF i <= Len(s) /\ PySpace(s[i]) THEN SkipFwd(s, i + 1) ELSE i
RECURSIVE SkipBack(_, _)
SkipBack(s, i) == IF i >= 1 /\ PySpace(s[i]) THEN SkipBack(s, i - 1) ELSE i
LStrip(s) == SubSeq(s, SkipFwd(s, 1), Len(s))
RStrip(s) == SubSeq(s, 1, SkipBack(s, Len(s)))
Strip(s)  == LStrip(RStrip(s))
RECURSIVE SkipFwdG(_, _)
SkipFwdG(s, i) == IF i <= Len(s) /\ GitSpace(s[i]) THEN SkipFwdG(s, i + 1) ELSE i
RECURSIVE SkipBackG(_, _)
SkipBackG(s, i) == IF i >= 1 /\ GitSpace(s[i]) THEN SkipBackG(s, i - 1) ELSE i
StripG(s) == LET t == SubSeq(s, 1, SkipBackG(s, Len(s))) IN SubSeq(t, SkipFwdG(t, 1), Len(t))

RECURSIVE Find(_, _, _)          \* first index >= i holding c, 0 if none
Find(s, c, i) == IF i > Len(s) THEN 0 ELSE IF s[i] = c THEN i ELSE Find(s, c, i + 1)
Has(s, c) == Find(s, c, 1) # 0
EndsWith(s, t) == Len(s) >= Len(t) /\ SubSeq(s, Len(s) - Len(t) + 1, Len(s)) = t
DropLast(s, n) == SubSeq(s, 1, Len(s) - n)
RECURSIVE Repeat(_, _)
Repeat(c, n) == IF n = 0 THEN <<>> ELSE <<c>> \o Repeat(c, n - 1)
RECURSIVE Concat(_)
Concat(ss) == IF ss = <<>> THEN <<>> ELSE Head(ss) \o Concat(Tail(ss))

\* ================================================================== C git: reader
(* get_next_char(): CR LF -> LF, a lone CR stays; at end of file LF is     *)
(* delivered (again and again).                                            *)
RECURSIVE FoldCrLf(_, _)
FoldCrLf(s, i) ==
    IF i > Len(s) THEN <<>>
    ELSE IF s[i] = CR /\ i < Len(s) /\ s[i + 1] = LF THEN FoldCrLf(s, i + 1)
    ELSE <<s[i]>> \o FoldCrLf(s, i + 1)

GInit == [m |-> "top", sec |-> <<>>, hs |-> FALSE, sub |-> <<>>, key |-> <<>>, val |-> <<>>,
          sp |-> 0, q |-> FALSE, out |-> <<>>]

GEmit(g, hv) == [g EXCEPT !.m = "top",
                          !.out = Append(@, [sec |-> g.sec, hs |-> g.hs, sub |-> g.sub, k |-> g.key,
                                             hv |-> hv, v |-> IF hv THEN g.val ELSE <<>>])]
GErr(g) == [g EXCEPT !.m = "err"]

\* get_value() after the name: skip SP/TAB, then LF (no value) or '='
GAfterKey(g, c) ==
    IF c = SP \/ c = TAB THEN [g EXCEPT !.m = "keysp"]
    ELSE IF c = LF THEN GEmit(g, FALSE)
    ELSE IF c = EQ THEN [g EXCEPT !.m = "val", !.val = <<>>, !.sp = 0, !.q = FALSE]
    ELSE GErr(g)

GitStep(g, c) ==
    CASE g.m = "err" -> g
    []   g.m = "top" ->                                   \* git_parse_source main loop
            IF GitSpace(c) THEN g
            ELSE IF c = HASH \/ c = SEMI THEN [g EXCEPT !.m = "cmt"]
            ELSE IF c = LBR THEN [g EXCEPT !.m = "base", !.sec = <<>>, !.hs = FALSE, !.sub = <<>>]
            ELSE IF IsAlpha(c) THEN [g EXCEPT !.m = "key", !.key = <<Lower(c)>>]
            ELSE GErr(g)
    []   g.m = "cmt" -> IF c = LF THEN [g EXCEPT !.m = "top"] ELSE g
    []   g.m = "base" ->                                  \* get_base_var
            IF c = RBR THEN (IF Len(g.sec) < 1 THEN GErr(g) ELSE [g EXCEPT !.m = "top"])
            ELSE IF GitSpace(c) THEN (IF c = LF THEN GErr(g) ELSE [g EXCEPT !.m = "extsp"])
            ELSE IF KeyChar(c) \/ c = DOT THEN [g EXCEPT !.sec = Append(@, Lower(c))]
            ELSE GErr(g)
    []   g.m = "extsp" ->                                 \* get_extended_base_var: blanks, then '"'
            IF c = LF THEN GErr(g)
            ELSE IF GitSpace(c) THEN g
            ELSE IF c = DQ THEN [g EXCEPT !.m = "extq", !.hs = TRUE]
            ELSE GErr(g)
    []   g.m = "extq" ->
            IF c = LF THEN GErr(g)
            ELSE IF c = DQ THEN [g EXCEPT !.m = "extend"]
            ELSE IF c = BSL THEN [g EXCEPT !.m = "extesc"]
            ELSE [g EXCEPT !.sub = Append(@, c)]
    []   g.m = "extesc" ->
            IF c = LF THEN GErr(g) ELSE [g EXCEPT !.m = "extq", !.sub = Append(@, c)]
    []   g.m = "extend" -> IF c = RBR THEN [g EXCEPT !.m = "top"] ELSE GErr(g)
    []   g.m = "key" ->                                   \* get_value: the name
            IF KeyChar(c) THEN [g EXCEPT !.key = Append(@, Lower(c))] ELSE GAfterKey(g, c)
    []   g.m = "keysp" -> GAfterKey(g, c)
    []   g.m = "val" ->                                   \* parse_value
            IF c = LF THEN (IF g.q THEN GErr(g) ELSE GEmit(g, TRUE))
            ELSE IF GitSpace(c) /\ ~g.q THEN (IF Len(g.val) > 0 THEN [g EXCEPT !.sp = @ + 1] ELSE g)
            ELSE IF ~g.q /\ (c = SEMI \/ c = HASH) THEN [g EXCEPT !.m = "valcmt"]
            ELSE LET h == [g EXCEPT !.val = @ \o Repeat(SP, g.sp), !.sp = 0] IN
                 IF c = BSL THEN [h EXCEPT !.m = "valesc"]
                 ELSE IF c = DQ THEN [h EXCEPT !.q = ~@]
                 ELSE [h EXCEPT !.val = Append(@, c)]
    []   g.m = "valesc" ->
            IF c = LF THEN [g EXCEPT !.m = "val"]         \* continuation line
            ELSE IF c = 116 THEN [g EXCEPT !.m = "val", !.val = Append(@, TAB)]
            ELSE IF c = 98 THEN [g EXCEPT !.m = "val", !.val = Append(@, BS)]
            ELSE IF c = 110 THEN [g EXCEPT !.m = "val", !.val = Append(@, LF)]
            ELSE IF c = BSL \/ c = DQ THEN [g EXCEPT !.m = "val", !.val = Append(@, c)]
            ELSE GErr(g)
    []   g.m = "valcmt" -> IF c = LF THEN GEmit(g, TRUE) ELSE g

RECURSIVE GitRun(_, _, _)
GitRun(g, s, i) == IF i > Len(s) THEN g ELSE GitRun(GitStep(g, s[i]), s, i + 1)

GitRead(bytes) ==
    LET g == GitRun(GInit, FoldCrLf(bytes, 1) \o <<LF, LF>>, 1)
    IN  [ok |-> g.m # "err", ents |-> g.out]

\* ================================================================== C git: writer
GitEscape(v) == Concat([i \in 1..Len(v) |->
                    IF v[i] = LF THEN <<BSL, 110>>
                    ELSE IF v[i] = TAB THEN <<BSL, 116>>
                    ELSE IF v[i] = DQ \/ v[i] = BSL THEN <<BSL, v[i]>>
                    ELSE <<v[i]>>])
GitFormat(v) ==
    \* 2.39.5-0+deb12u3 carries the CVE-2025-48384 change: a value containing CR is quoted as well
    LET quote == Len(v) > 0 /\ (v[1] = SP \/ v[Len(v)] = SP \/ Has(v, SEMI) \/ Has(v, HASH) \/ Has(v, CR))
    IN  IF quote THEN <<DQ>> \o GitEscape(v) \o <<DQ>> ELSE GitEscape(v)
SubEscape(s) == Concat([i \in 1..Len(s) |-> IF s[i] = DQ \/ s[i] = BSL THEN <<BSL, s[i]>> ELSE <<s[i]>>])
Header(s) == IF s.hs THEN <<LBR>> \o s.sec \o <<SP, DQ>> \o SubEscape(s.sub) \o <<DQ, RBR, LF>>
             ELSE <<LBR>> \o s.sec \o <<RBR, LF>>
WriteWith(cfg, Fmt(_)) ==
    Concat([n \in 1..Len(cfg) |->
        Header(cfg[n]) \o Concat([i \in 1..Len(cfg[n].items) |->
            <<TAB>> \o cfg[n].items[i].k \o <<SP, EQ, SP>> \o Fmt(cfg[n].items[i].v) \o <<LF>>])])
\* a fresh file to which `git config --file F --add sec[.sub].key value` was applied item by item
GitWrite(cfg) == WriteWith(cfg, GitFormat)

\* ================================================================== dulwich: writer
DulEscape(v) == Concat([i \in 1..Len(v) |->
                    IF v[i] = BSL THEN <<BSL, BSL>>
                    ELSE IF v[i] = CR THEN (IF CrRaw THEN <<CR>> ELSE <<BSL, 114>>)
                    ELSE IF v[i] = LF THEN <<BSL, 110>>
                    ELSE IF v[i] = TAB THEN <<BSL, 116>>
                    ELSE IF v[i] = DQ THEN <<BSL, DQ>>
                    ELSE <<v[i]>>])
DulFormat(v) ==
    LET edge(c) == IF QuoteAnySpace THEN PySpace(c) ELSE (c = SP \/ c = TAB)
        quote == \/ Len(v) > 0 /\ (edge(v[1]) \/ edge(v[Len(v)]))
                 \/ Has(v, HASH)
                 \/ QuoteSemi /\ Has(v, SEMI)
                 \/ CrRaw /\ Has(v, CR)
    IN  IF quote THEN <<DQ>> \o DulEscape(v) \o <<DQ>> ELSE DulEscape(v)
DulWrite(cfg) == WriteWith(cfg, DulFormat)

\* ================================================================== dulwich: reader
\* f.readlines(): pieces ending in LF (the last one possibly without)
RECURSIVE Lines(_, _)
Lines(s, i) ==
    IF i > Len(s) THEN <<>>
    ELSE LET j == Find(s, LF, i) IN
         IF j = 0 THEN <<SubSeq(s, i, Len(s))>> ELSE <<SubSeq(s, i, j)>> \o Lines(s, j + 1)

\* _strip_comments: cut at the first '#' / ';' outside double quotes (quotes toggle on every '"')
RECURSIVE CommentAt(_, _, _, _)
CommentAt(s, i, open, esc) ==
    IF i > Len(s) THEN Len(s) + 1
    ELSE IF esc THEN CommentAt(s, i + 1, open, FALSE)
    ELSE IF HdrEscAware /\ s[i] = BSL THEN CommentAt(s, i + 1, open, TRUE)
    ELSE IF s[i] = DQ THEN CommentAt(s, i + 1, ~open, FALSE)
    ELSE IF ~open /\ (s[i] = HASH \/ s[i] = SEMI) THEN i
    ELSE CommentAt(s, i + 1, open, FALSE)
StripComments(s) == SubSeq(s, 1, CommentAt(s, 1, FALSE, FALSE) - 1)

\* _is_line_continuation
RECURSIVE TrailingBsl(_, _)
TrailingBsl(s, i) == IF i >= 1 /\ s[i] = BSL THEN 1 + TrailingBsl(s, i - 1) ELSE 0
IsCont(v) ==
    LET crlf == EndsWith(v, <<BSL, CR, LF>>)
        content == IF crlf THEN DropLast(v, 2) ELSE DropLast(v, 1)
    IN  (crlf \/ EndsWith(v, <<BSL, LF>>)) /\ TrailingBsl(content, Len(content)) % 2 = 1
ContBody(v) == IF EndsWith(v, <<BSL, CR, LF>>) THEN DropLast(v, 3) ELSE DropLast(v, 2)

\* _parse_string as an automaton over value.strip(); esc = a backslash is pending
PInit == [ret |-> <<>>, ws |-> <<>>, q |-> FALSE, esc |-> FALSE, done |-> FALSE]
PFlush(p) == [p EXCEPT !.ret = @ \o p.ws, !.ws = <<>>]
PNormal(p, c) ==
    IF c = BSL THEN [p EXCEPT !.esc = TRUE]
    ELSE IF c = DQ THEN [p EXCEPT !.q = ~@]
    ELSE IF (c = HASH \/ c = SEMI) /\ ~p.q THEN [p EXCEPT !.done = TRUE]
    ELSE IF c = TAB \/ c = SP THEN (IF p.q THEN [p EXCEPT !.ret = Append(@, c)] ELSE [p EXCEPT !.ws = Append(@, c)])
    ELSE [PFlush(p) EXCEPT !.ret = Append(@, c)]
PStep(p, c) ==
    IF p.done THEN p
    ELSE IF p.esc THEN
        LET f == [PFlush(p) EXCEPT !.esc = FALSE] IN
        IF c = BSL \/ c = DQ THEN [f EXCEPT !.ret = Append(@, c)]
        ELSE IF c = 110 THEN [f EXCEPT !.ret = Append(@, LF)]
        ELSE IF c = 116 THEN [f EXCEPT !.ret = Append(@, TAB)]
        ELSE IF c = 98 THEN [f EXCEPT !.ret = Append(@, BS)]
        ELSE PNormal([f EXCEPT !.ret = Append(@, BSL)], c)     \* unknown escape: literal backslash, reprocess c
    ELSE PNormal(p, c)
RECURSIVE PRun(_, _, _)
PRun(p, s, i) == IF i > Len(s) THEN p ELSE PRun(PStep(p, s[i]), s, i + 1)
ParseString(value) ==
    LET s == IF ValueStripGit THEN StripG(value) ELSE Strip(value)
        p == PRun(PInit, s, 1)
        r == IF p.esc /\ ~p.done THEN [PFlush(p) EXCEPT !.ret = Append(@, BSL)] ELSE p
    IN  [ok |-> ~r.q, v |-> r.ret]

\* _unescape_subsection
RECURSIVE Unescape(_, _)
Unescape(s, i) ==
    IF i > Len(s) THEN <<>>
    ELSE IF s[i] = BSL /\ i + 1 <= Len(s) THEN <<s[i + 1]>> \o Unescape(s, i + 2)
    ELSE <<s[i]>> \o Unescape(s, i + 1)

SecNameOk(s) == \A i \in 1..Len(s) : KeyChar(s[i]) \/ s[i] = DOT
VarNameOk(s) == \A i \in 1..Len(s) : KeyChar(s[i])

\* _parse_section_header_line: index of the closing ']' (0 if none)
RECURSIVE CloseAt(_, _, _, _)
CloseAt(s, i, inq, esc) ==
    IF i > Len(s) THEN 0
    ELSE IF esc THEN CloseAt(s, i + 1, inq, FALSE)
    ELSE LET inq2 == IF s[i] = DQ THEN ~inq ELSE inq IN
         IF s[i] = RBR /\ ~inq2 THEN i
         ELSE CloseAt(s, i + 1, inq2, s[i] = BSL)
INCLUDEIF == <<105, 110, 99, 108, 117, 100, 101, 73, 102>>
Quoted(s) == Len(s) >= 1 /\ s[1] = DQ /\ s[Len(s)] = DQ
Inner(s) == SubSeq(s, 2, Len(s) - 1)
HdrBad == [ok |-> FALSE, sec |-> <<>>, hs |-> FALSE, sub |-> <<>>, rest |-> <<>>]
ParseHeader(line0) ==
    LET line == RStrip(StripComments(line0))
        last == CloseAt(line, 1, FALSE, FALSE)
        body == SubSeq(line, 2, last - 1)
        rest == SubSeq(line, last + 1, Len(line))
        spi  == Find(body, SP, 1)
        p0   == IF spi = 0 THEN body ELSE SubSeq(body, 1, spi - 1)
        p1   == SubSeq(body, spi + 1, Len(body))
        doti == Find(p0, DOT, 1)
    IN  IF last = 0 THEN HdrBad
        ELSE IF spi # 0 THEN
            IF Quoted(p1) THEN
                IF SecNameOk(p0) THEN [ok |-> TRUE, sec |-> p0, hs |-> TRUE, sub |-> Unescape(Inner(p1), 1), rest |-> rest]
                ELSE HdrBad
            ELSE IF p0 = INCLUDEIF THEN
                LET t == Strip(p1) IN
                [ok |-> TRUE, sec |-> p0, hs |-> TRUE, sub |-> IF Quoted(t) THEN Unescape(Inner(t), 1) ELSE t, rest |-> rest]
            ELSE HdrBad
        ELSE IF ~SecNameOk(p0) THEN HdrBad
        ELSE IF doti # 0 THEN [ok |-> TRUE, sec |-> SubSeq(p0, 1, doti - 1), hs |-> TRUE,
                               sub |-> SubSeq(p0, doti + 1, Len(p0)), rest |-> rest]
        ELSE [ok |-> TRUE, sec |-> p0, hs |-> FALSE, sub |-> <<>>, rest |-> rest]

\* CaseInsensitiveOrderedMultiDict keyed by lower_key(section tuple) / key.lower()
SameSec(a, b) == LowerS(a.sec) = LowerS(b.sec) /\ a.hs = b.hs /\ a.sub = b.sub
SecIndex(cfg, s) == LET I == {n \in 1..Len(cfg) : SameSec(cfg[n], s)}
                    IN  IF I = {} THEN 0 ELSE CHOOSE n \in I : \A m \in I : n <= m
SetDefault(cfg, s) == IF SecIndex(cfg, s) # 0 THEN cfg
                      ELSE Append(cfg, [sec |-> s.sec, hs |-> s.hs, sub |-> s.sub, items |-> <<>>])
AddItem(cfg, s, k, v) ==
    LET c2 == SetDefault(cfg, s) n == SecIndex(c2, s)
    IN  [c2 EXCEPT ![n].items = Append(@, [k |-> k, v |-> v])]
RemoveKey(items, k) == SelectSeq(items, LAMBDA it : LowerS(it.k) # LowerS(k))
SetItem(cfg, s, k, v) ==
    LET c2 == SetDefault(cfg, s) n == SecIndex(c2, s)
    IN  [c2 EXCEPT ![n].items = Append(RemoveKey(@, k), [k |-> k, v |-> v])]
HasKey(cfg, s, k) == LET n == SecIndex(cfg, s) IN
                     n # 0 /\ \E i \in 1..Len(cfg[n].items) : LowerS(cfg[n].items[i].k) = LowerS(k)
DelKey(cfg, s, k) == LET n == SecIndex(cfg, s) IN [cfg EXCEPT ![n].items = RemoveKey(@, k)]

\* ConfigFile.from_file main loop, one line at a time
DInit == [ok |-> TRUE, cfg |-> <<>>, hasSec |-> FALSE, cur |-> [sec |-> <<>>, hs |-> FALSE, sub |-> <<>>],
          inSet |-> FALSE, set |-> <<>>, cont |-> <<>>]
TRUEBYTES == <<116, 114, 117, 101>>

DSetting(d, line) ==            \* "name = value" part of a line (setting is None branch, after the header)
    IF Strip(StripComments(line)) = <<>> THEN d
    ELSE IF ~d.hasSec THEN [d EXCEPT !.ok = FALSE]
    ELSE LET e == Find(line, EQ, 1)
             name == Strip(IF e = 0 THEN line ELSE SubSeq(line, 1, e - 1))
             value == IF e = 0 THEN TRUEBYTES ELSE SubSeq(line, e + 1, Len(line))
         IN  IF ~VarNameOk(name) THEN [d EXCEPT !.ok = FALSE]
             ELSE IF IsCont(value) THEN [d EXCEPT !.inSet = TRUE, !.set = name, !.cont = ContBody(value)]
             ELSE LET r == ParseString(value) IN
                  IF ~r.ok THEN [d EXCEPT !.ok = FALSE]
                  ELSE [d EXCEPT !.cfg = AddItem(@, d.cur, name, r.v)]

DLine(d, raw) ==
    IF ~d.ok THEN d
    ELSE LET line == LStrip(raw) IN
    IF d.inSet THEN
        IF IsCont(line) THEN [d EXCEPT !.cont = @ \o ContBody(line)]
        ELSE LET r == ParseString(d.cont \o line) IN
             IF ~r.ok THEN [d EXCEPT !.ok = FALSE]
             ELSE [d EXCEPT !.cfg = AddItem(@, d.cur, d.set, r.v), !.inSet = FALSE]
    ELSE IF Len(line) > 0 /\ line[1] = LBR THEN
        LET h == ParseHeader(line) IN
        IF ~h.ok THEN [d EXCEPT !.ok = FALSE]
        ELSE LET s == [sec |-> h.sec, hs |-> h.hs, sub |-> h.sub] IN
             DSetting([d EXCEPT !.hasSec = TRUE, !.cur = s, !.cfg = SetDefault(@, s)], h.rest)
    ELSE DSetting(d, line)

RECURSIVE DRun(_, _, _)
DRun(d, ls, i) == IF i > Len(ls) THEN d ELSE DRun(DLine(d, ls[i]), ls, i + 1)
BOM == <<239, 187, 191>>
DulRead(bytes) ==
    LET b == IF Len(bytes) >= 3 /\ SubSeq(bytes, 1, 3) = BOM THEN SubSeq(bytes, 4, Len(bytes)) ELSE bytes
        d == DRun(DInit, Lines(b, 1), 1)
    IN  [ok |-> d.ok, cfg |-> IF d.ok THEN d.cfg ELSE <<>>]

\* ================================================================== meaning and the property
(* git's case rules: section and variable names are case-insensitive,      *)
(* subsections are case-sensitive.                                         *)
Norm(cfg) == [n \in 1..Len(cfg) |->
                [sec |-> LowerS(cfg[n].sec), hs |-> cfg[n].hs, sub |-> cfg[n].sub,
                 items |-> [i \in 1..Len(cfg[n].items) |-> [k |-> LowerS(cfg[n].items[i].k), v |-> cfg[n].items[i].v]]]]
Flat(cfg) == Concat([n \in 1..Len(cfg) |-> [i \in 1..Len(cfg[n].items) |->
                [sec |-> LowerS(cfg[n].sec), hs |-> cfg[n].hs, sub |-> cfg[n].sub,
                 k |-> LowerS(cfg[n].items[i].k), hv |-> TRUE, v |-> cfg[n].items[i].v]]])
FullKey(e) == LowerS(e.sec) \o (IF e.hs THEN <<DOT>> \o e.sub ELSE <<>>) \o <<DOT>> \o LowerS(e.k)
ValuesOf(ents, key) == LET s == SelectSeq(ents, LAMBDA e : FullKey(e) = key)
                       IN  [i \in 1..Len(s) |-> <<s[i].hv, s[i].v>>]
KeysOf(ents) == {FullKey(ents[i]) : i \in 1..Len(ents)}
\* the same variables with the same values in the same order per variable (git config --get-all)
SameMeaning(e1, e2) == \A key \in KeysOf(e1) \cup KeysOf(e2) : ValuesOf(e1, key) = ValuesOf(e2, key)

RoundTrip(cfg) == LET r == DulRead(DulWrite(cfg)) IN r.ok /\ Norm(r.cfg) = Norm(cfg)
InteropDG(cfg) == LET r == GitRead(DulWrite(cfg)) IN r.ok /\ SameMeaning(r.ents, Flat(cfg))
\* dulwich reads from git's file the values that were stored, or at least what git itself reads
InteropGD(cfg) == LET f == GitWrite(cfg) d == DulRead(f) g == GitRead(f) IN
                  d.ok /\ (SameMeaning(Flat(d.cfg), Flat(cfg)) \/ (g.ok /\ SameMeaning(Flat(d.cfg), g.ents)))

=============================================================================

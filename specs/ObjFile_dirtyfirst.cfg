SPECIFICATION Spec
CONSTANTS
  NF = 3
  Vals = {0, 1}
  IsBlob = FALSE
  SetterMarksDirty = TRUE
  ExplicitSha1Recomputes = TRUE
  DirtyUntilSerialized = FALSE
  ChunkedResetsSha = TRUE
INVARIANT NoStaleAfterFailure
CHECK_DEADLOCK FALSE

------------------------------ MODULE DeltaEnum ------------------------------
(***************************************************************************)
(* Exhaustive case enumeration for the decoders.  A state is one byte      *)
(* string offered as a delta against one of the small bases; the action    *)
(* Extend appends one byte of the alphabet, so the reachable states are    *)
(* exactly the strings of length 0..MaxLen.  Every state carries the       *)
(* reference verdict (st, why), the reference output (rout), the declared  *)
(* target size (dst, limbs; <<-1>> = the delta declares none) and the one  *)
(* output the statement's postcondition admits (chas, cout).  The harness  *)
(* reads the state dump and runs the real decoders on every state.         *)
(*                                                                         *)
(* Alphabet: 0x00 (reserved opcode / size 0 / varint terminator),          *)
(* 0x01 0x02 0x03 0x05 0x7f (inserts, sizes of the bases, header values),  *)
(* 0x80 (copy without operands = offset 0 size 0x10000; varint digit 0     *)
(* with continuation), 0x81 (offset byte / digit 1 with continuation),     *)
(* 0x90 (size byte), 0x91 (offset + size byte), 0xb0 (two size bytes),     *)
(* 0xff (all seven operands / digit 127 with continuation).  The bases use *)
(* bytes outside the alphabet, so base slices and literals are never       *)
(* confused.                                                               *)
(*                                                                         *)
(* PruneSrc = TRUE stops extending a string once its complete header       *)
(* declares a source size different from the base (the reference verdict   *)
(* of every extension is the same "src-size" error); FALSE enumerates all  *)
(* strings.                                                                *)
(***************************************************************************)
EXTENDS Delta

CONSTANTS MaxLen,      \* longest delta
          BaseSel,     \* subset of 1..3: which bases
          PruneSrc

Alphabet == {0, 1, 2, 3, 5, 127, 128, 129, 144, 145, 176, 255}
BaseOf(b) == CASE b = 1 -> <<>> [] b = 2 -> <<97, 98>> [] b = 3 -> <<97, 98, 99>>

VARIABLES bi, delta, st, why, dst, rout, chas, cout
vars == <<bi, delta, st, why, dst, rout, chas, cout>>

Judge(b, s) ==
    LET base == BaseOf(b)
        r == Run(Len(base), s)
        h == Header(s)
        c == Cand(Len(base), s)
    IN [st |-> r.st, why |-> r.why,
        dst |-> IF h.ok THEN h.dst ELSE <<0 - 1>>,
        rout |-> IF r.st = "ok" THEN Mat(base, s, r.segs) ELSE <<>>,
        chas |-> c.has, cout |-> Mat(base, s, c.segs)]

Set(b, s) ==
    LET j == Judge(b, s) IN
    /\ bi' = b /\ delta' = s
    /\ st' = j.st /\ why' = j.why /\ dst' = j.dst /\ rout' = j.rout /\ chas' = j.chas /\ cout' = j.cout

Init ==
    /\ bi \in BaseSel /\ delta = <<>>
    /\ LET j == Judge(bi, <<>>) IN
       st = j.st /\ why = j.why /\ dst = j.dst /\ rout = j.rout /\ chas = j.chas /\ cout = j.cout

Extend(x) ==
    /\ Len(delta) < MaxLen
    /\ ~(PruneSrc /\ why = "src-size")
    /\ Set(bi, Append(delta, x))

Next == \E x \in Alphabet : Extend(x)
Spec == Init /\ [][Next]_vars

\* model-level theorems, checked on every enumerated case
InModel == st \in {"ok", "err"}
\* the reference decoder's output satisfies the statement's postcondition
RefSatisfiesPost == st = "ok" => (chas /\ cout = rout)
\* declared size and length agree for the admitted output
CandLength == chas => (Small(dst) /\ Len(cout) = IntOf(dst))
\* the operator form of the postcondition agrees with the candidate
PostAgrees == chas => Post(BaseOf(bi), delta, cout)
=============================================================================

SPECIFICATION Spec
CONSTANTS
  NameMask = 4095
  Family = "hist"
  MaxKeys = 0
  MaxEdits = 2
  Defect = "none"
INVARIANT OrderInv
INVARIANT ShapeInv
INVARIANT StageFromSlot
INVARIANT ParseInv
CHECK_DEADLOCK FALSE

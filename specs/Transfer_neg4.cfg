\* thorough: every DAG on 4 commits (diamonds, criss-cross), one sender branch, one want, all ack modes
\* (harness/props/c05.py writes the same configuration at run time; TransferCases uses the same constants
\*  plus SampleMod / SampleSeed)
SPECIFICATION Spec
CONSTANTS
  NC = 4
  NTP = 1
  NT = 0
  MaxHeads = 1
  MaxWants = 1
  Modes = {"single", "multi", "detailed"}
  IncTag = {FALSE}
  Thin = {FALSE}
  SFull = {FALSE}
  Forge = FALSE
  MaxInVain = 2
  AtomicNeg = FALSE
  PopAny = FALSE
  MaxDangle = 0
  Bug = "none"
INVARIANT TypeOK
INVARIANT Antecedent
INVARIANT ReceiverComplete
INVARIANT NoLoss
INVARIANT SenderSound
INVARIANT WantValidation
INVARIANT ThinResolvable
INVARIANT Confluent
INVARIANT HavesSound
CHECK_DEADLOCK FALSE

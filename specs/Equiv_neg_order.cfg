SPECIFICATION Spec
CONSTANTS
  Fam = "negorder"
  MaxLen = 0
  Sel = {}
INVARIANT Lemmas
CHECK_DEADLOCK FALSE

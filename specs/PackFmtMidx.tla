---------------------------- MODULE PackFmtMidx ----------------------------
(***************************************************************************)
(* Multi-pack-index layout on synthetic entry tables: the second index     *)
(* dulwich writes over packs (write_midx / DiskObjectStore.write_midx) and *)
(* through which DiskObjectStore resolves names first (core.multiPackIndex)*)
(* Every initial state is one table of up to MaxN entries spread over NP   *)
(* packs -- first name bytes from the fan-out boundary set, offsets from   *)
(* the 31/32-bit boundary set -- for one hash length, together with what   *)
(* the layout has to be: OOFF words (31-bit offset in place or MSB + index *)
(* into LOFF), the LOFF table (entry order, nothing else), the chunk count *)
(* (LOFF present iff some offset >= 2^31) and the file length.  The lemma: *)
(* a file laid out like that gives every entry's offset back -- i.e. the   *)
(* same offset the pack's own index (IdxLayout, version 2) stands for.     *)
(* Replay: write_midx is called with the table, the bytes are parsed       *)
(* independently and compared; MultiPackIndex reads them back.             *)
(***************************************************************************)
EXTENDS PackFmt

CONSTANTS MaxN, NP,
          LoffAt32      \* defect model: the LOFF chunk is only written when some offset is >= 2^32

VARIABLES firsts, offs, pids, oid, o32, o64, nchunks, len
vars == <<firsts, offs, pids, oid, o32, o64, nchunks, len>>

FirstBytes == {0, 128, 255}
OffSet == { N(12), <<1, B - 1>>, <<2, 0>>, <<2, 4096>>, <<3, B - 1>>, <<4, 0>>, <<1024, 12>> }

RECURSIVE Seqs(_, _)
Seqs(n, S) == IF n = 0 THEN { <<>> } ELSE { Append(s, b) : s \in Seqs(n - 1, S), b \in S }
Sortedness(s) == \A i \in 1..(Len(s) - 1) : s[i] <= s[i + 1]

Es(f, o) == [ i \in DOMAIN f |-> [first |-> f[i], off |-> o[i]] ]

\* pack names are "pack-<k>.idx": 10 bytes + NUL each, the chunk padded to 4 bytes
PnamLen == ((11 * NP + 3) \div 4) * 4
ExpectedMidxLen(es, oidlen, nch, n64) ==
    12 + (nch + 1) * 12 + PnamLen + 1024 + Len(es) * oidlen + Len(es) * 8 + 8 * n64 + 20

Init ==
    /\ \E n \in 0..MaxN :
          /\ firsts \in { s \in Seqs(n, FirstBytes) : Sortedness(s) }
          /\ offs \in Seqs(n, OffSet)
          /\ pids \in Seqs(n, 0..(NP - 1))
    /\ oid \in {20, 32}
    /\ LET es == Es(firsts, offs)
           want64 == ExpectedO64(es, 2)
           drop == LoffAt32 /\ ~ \E i \in DOMAIN es : LLeq(P32, es[i].off) IN
       /\ o32 = ExpectedO32(es, 2)
       /\ o64 = IF drop THEN <<>> ELSE want64
       /\ nchunks = IF o64 = <<>> THEN 4 ELSE 5
       /\ len = ExpectedMidxLen(es, oid, nchunks, Len(o64))
Next == UNCHANGED vars
Spec == Init /\ [][Next]_vars

\* the offset part of the file seen as an index of version 2 (same two-level encoding)
Mx == [ v |-> 2, first |-> firsts, o32 |-> o32, o64 |-> o64 ]

Lemma ==
    /\ \A i \in DOMAIN firsts : IdxOffset(Mx, i) = offs[i]
    /\ OffsetTablesOK(Mx)
    /\ (nchunks = 5) <=> (\E i \in DOMAIN offs : LLeq(P31, offs[i]))
=============================================================================

SPECIFICATION Spec
CONSTANTS
  Fam = "blocks"
  MaxLen = 3
  Sel <- BlocksSelT
INVARIANT Lemmas
INVARIANT InModel
CHECK_DEADLOCK FALSE

----------------------- MODULE WorkTreeConfNamesMC -----------------------
EXTENDS WorkTreeConfNames

(***************************************************************************)
(* Enumeration for the harness: one initial state per (element, setting)   *)
(***************************************************************************)
VARIABLES comp, cpr, acc, uns, chars, rank
NamesInit == /\ comp \in Comps /\ cpr \in AllProts
             /\ acc = Accept(Chars[comp], cpr)
             /\ uns = Unsafe(Chars[comp], cpr)
             /\ chars = Chars[comp] /\ rank = Rank[comp]
NamesNext == UNCHANGED <<comp, cpr, acc, uns, chars, rank>>
NamesSpec == NamesInit /\ [][NamesNext]_<<comp, cpr, acc, uns, chars, rank>>
NamesInv  == uns => ~acc
=============================================================================

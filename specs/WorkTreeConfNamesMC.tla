----------------------- MODULE WorkTreeConfNamesMC -----------------------
EXTENDS WorkTreeConfNames

(***************************************************************************)
(* Enumeration for the harness: one initial state per (element, setting)   *)
(***************************************************************************)
VARIABLES comp, cpr, acc, uns
NamesInit == /\ comp \in Comps /\ cpr \in AllProts
             /\ acc = Accept(Chars[comp], cpr)
             /\ uns = Unsafe(Chars[comp], cpr)
NamesNext == UNCHANGED <<comp, cpr, acc, uns>>
NamesSpec == NamesInit /\ [][NamesNext]_<<comp, cpr, acc, uns>>
NamesInv  == uns => ~acc
=============================================================================

---------------------------- MODULE AccelRefStep ----------------------------
(***************************************************************************)
(* C14, ref storage at the granularity of the file system.                 *)
(*                                                                         *)
(* Accel!DeleteRef / SetRef / PackRefs are single steps.  The real entry   *)
(* points (DiskRefsContainer.remove_if_equals, set_if_equals, add_if_new,  *)
(* pack_refs) perform several visible file-system mutations: rename of     *)
(* packed-refs.lock over packed-refs, rename of <ref>.lock over the loose  *)
(* file, unlink of the loose file.  Between any two of them another        *)
(* process may read the ref, and the writer may die (Crash).  packed-refs  *)
(* is acceleration data shadowed by the loose file: a packed entry that is *)
(* stale must never become THE value.  For one ref with loose value lref   *)
(* and packed entry pref (0 = absent) and one operation op, every state    *)
(* of every behaviour must show the value before the operation or the      *)
(* value the operation installs (Atomic), and the completed operation the  *)
(* latter (Final).                                                         *)
(*                                                                         *)
(* Guards (TRUE = the design in which the property holds):                 *)
(*   DeletePackedFirst  a delete drops the packed entry before it unlinks  *)
(*                      the loose file                                     *)
(*   PackWriteFirst     pack-refs puts the new packed-refs in place before *)
(*                      it prunes the loose file                           *)
(***************************************************************************)
EXTENDS Integers, TLC
CONSTANTS V, DeletePackedFirst, PackWriteFirst
VARIABLES lref, pref, op, old, new, dead
vars == <<lref, pref, op, old, new, dead>>

RefVal == IF lref # 0 THEN lref ELSE pref
Ops == {<<"Delete", 0>>, <<"Pack", 0>>} \cup {<<"Set", v>> : v \in 1..V}
Target(o, cur) == CASE o[1] = "Delete" -> 0 [] o[1] = "Pack" -> cur [] OTHER -> o[2]

Init == /\ lref \in 0..V /\ pref \in 0..V /\ op \in Ops /\ dead = FALSE
        /\ old = RefVal /\ new = Target(op, RefVal)
        /\ op[1] \in {"Delete", "Pack"} => RefVal # 0
        /\ op[1] = "Set" => op[2] # RefVal

\* ---- delete: _remove_packed_ref (rename packed-refs.lock -> packed-refs), os.remove(loose file)
DropPacked == /\ ~dead /\ op[1] = "Delete" /\ pref # 0 /\ (DeletePackedFirst \/ lref = 0)
              /\ pref' = 0 /\ UNCHANGED <<lref, op, old, new, dead>>
Unlink     == /\ ~dead /\ op[1] = "Delete" /\ lref # 0 /\ (DeletePackedFirst => pref = 0)
              /\ lref' = 0 /\ UNCHANGED <<pref, op, old, new, dead>>
\* ---- set: rename <ref>.lock -> loose file (the packed entry stays, shadowed)
WriteLoose == /\ ~dead /\ op[1] = "Set" /\ lref # op[2]
              /\ lref' = op[2] /\ UNCHANGED <<pref, op, old, new, dead>>
\* ---- pack-refs: _add_packed_refs (rename packed-refs.lock -> packed-refs), then _prune_loose_ref
WritePacked == /\ ~dead /\ op[1] = "Pack" /\ pref # old /\ (PackWriteFirst \/ lref = 0)
               /\ pref' = old /\ UNCHANGED <<lref, op, old, new, dead>>
Prune      == /\ ~dead /\ op[1] = "Pack" /\ lref # 0 /\ (PackWriteFirst => pref = lref)
              /\ lref' = 0 /\ UNCHANGED <<pref, op, old, new, dead>>
Step  == DropPacked \/ Unlink \/ WriteLoose \/ WritePacked \/ Prune
\* the writer dies (or: is simply not scheduled any more while a reader looks)
Crash == /\ ~dead /\ ENABLED Step /\ dead' = TRUE /\ UNCHANGED <<lref, pref, op, old, new>>
Next  == Step \/ Crash
Spec  == Init /\ [][Next]_vars

TypeOK == lref \in 0..V /\ pref \in 0..V /\ op \in Ops /\ old \in 0..V /\ new \in 0..V /\ dead \in BOOLEAN
\* whatever a reader sees, whenever it looks and however the writer ended
Atomic == RefVal \in {old, new}
Final  == (~dead /\ ~ENABLED Step) => RefVal = new
=============================================================================

SPECIFICATION Spec
CONSTANTS
  TreeSet <- TreesPatchNeg
  Ops <- OpsAll
  MaxLen = 2
  Prots <- ProtsDefault
  FixDelete = TRUE
  FixPatch = FALSE
  CacheTrunc = TRUE
INVARIANT TypeOK
INVARIANT Confined
INVARIANT UnsafeRefused
CHECK_DEADLOCK FALSE
CONSTRAINT Modelled

SPECIFICATION Spec
CONSTANTS
  Scen = "pkts"
  RBuf = 3
  MaxOps = 5
  MaxItems = 3
  MaxLen = 40
  Gen = FALSE
  EmptyReadAsserts = FALSE
INVARIANT OpExact
INVARIANT TotalDecoder
INVARIANT Conservation
INVARIANT BufferBound
CHECK_DEADLOCK FALSE

------------------------------ MODULE PackFmt ------------------------------
(***************************************************************************)
(* Git pack / pack-index format: the part of dulwich/pack.py that property *)
(* C02 talks about, as constant-level operators (no variables here; the    *)
(* writer state machine is PackFmtWriter, the case generators are          *)
(* PackFmtVarint / PackFmtIdx, the judge of recorded executions is         *)
(* PackFmtTrace -- all of them EXTEND this module).                        *)
(*                                                                         *)
(*  1. wide integers as limbs <<hi, lo>> base 2^30 (TLC integers are       *)
(*     32 bit; pack offsets and sizes are 64 bit)                          *)
(*  2. the three varints of the format:                                    *)
(*       ObjHeader / DecodeObjHeader    type + size, 4 bits then 7-bit     *)
(*                                      groups, least significant first    *)
(*       OfsEncode / OfsDecode          OFS_DELTA distance, 7-bit groups,  *)
(*                                      most significant first, biased by  *)
(*                                      +1 per continuation                *)
(*       Leb / UnLeb                    delta header sizes (LEB128)        *)
(*  3. the layout invariants of a pack given as an event list              *)
(*     Entry(kind, off, end, id, base, dist, type, size, isize, hdr, ofsb, *)
(*     crc) as projected from real bytes by an independent parser          *)
(*  4. the writer's per-record rule (PackChunkGenerator._pack_data_chunks) *)
(*     replayed over that event list                                       *)
(*  5. IdxLayout: the pack index, versions 1, 2 and 3                      *)
(*  6. ReadBack: the map id -> (type, content) obtained by reading         *)
(***************************************************************************)
EXTENDS Integers, Sequences, FiniteSets, TLC

\* ------------------------------------------------------------------ 1. limbs
B == 1073741824                       \* 2^30
N(i) == <<0, i>>                      \* 0 <= i < 2^30
IsLimb(n) == /\ n[1] >= 0 /\ n[2] >= 0 /\ n[2] < B
LZero(n) == n[1] = 0 /\ n[2] = 0
LLess(a, b) == a[1] < b[1] \/ (a[1] = b[1] /\ a[2] < b[2])
LLeq(a, b) == a = b \/ LLess(a, b)
\* m is a power of two, 2 <= m <= 2^30
LMod(n, m) == n[2] % m
LDiv(n, m) == << n[1] \div m, (n[2] \div m) + (n[1] % m) * (B \div m) >>
\* n * m + d for m a power of two, 0 <= d < m (caller keeps the result below 2^60)
LMulAdd(n, m, d) == << n[1] * m + (n[2] \div (B \div m)), (n[2] % (B \div m)) * m + d >>
LInc(n) == IF n[2] = B - 1 THEN <<n[1] + 1, 0>> ELSE <<n[1], n[2] + 1>>
LDec(n) == IF n[2] > 0 THEN <<n[1], n[2] - 1>> ELSE <<n[1] - 1, B - 1>>
LAdd(a, b) == LET s == a[2] + b[2] IN
              IF s >= B THEN <<a[1] + b[1] + 1, s - B>> ELSE <<a[1] + b[1], s>>
\* a - b for a >= b
LSub(a, b) == IF a[2] >= b[2] THEN <<a[1] - b[1], a[2] - b[2]>>
              ELSE <<a[1] - b[1] - 1, (a[2] - b[2]) + B>>
AddSmall(n, k) == LAdd(n, N(k))
\* as a plain integer (only for values below 2^31) and back
LInt(n) == n[1] * B + n[2]
OfInt(i) == << i \div B, i % B >>

P31 == <<2, 0>>                       \* 2^31
P32 == <<4, 0>>                       \* 2^32

\* ------------------------------------------------------------------ 2. varints
IsByte(b) == b \in 0..255
\* a varint: every byte but the last has the continuation bit, the last one has not
WellFormedVarint(bs) ==
    /\ Len(bs) >= 1
    /\ \A i \in 1..Len(bs) : IsByte(bs[i]) /\ ((bs[i] >= 128) <=> (i < Len(bs)))

RECURSIVE Leb(_)
Leb(n) == IF LLess(n, N(128)) THEN <<n[2]>>
          ELSE <<128 + LMod(n, 128)>> \o Leb(LDiv(n, 128))

RECURSIVE UnLeb(_)
UnLeb(bs) == IF bs = <<>> THEN N(0) ELSE LMulAdd(UnLeb(Tail(bs)), 128, bs[1] % 128)

\* pack_object_header: c = type<<4 | size&15; size >>= 4; while size: emit c|0x80; c = size&0x7f ...
ObjHeader(t, n) ==
    LET low == LMod(n, 16)  rest == LDiv(n, 16) IN
    IF LZero(rest) THEN << t * 16 + low >>
    ELSE << 128 + t * 16 + low >> \o Leb(rest)

DecodeObjHeader(bs) ==
    [ type |-> (bs[1] \div 16) % 8,
      size |-> LMulAdd(UnLeb(Tail(bs)), 16, bs[1] % 16) ]

\* OFS_DELTA distance: ret = [n & 0x7f]; n >>= 7; while n: n -= 1; ret.insert(0, 0x80|(n&0x7f)); n >>= 7
RECURSIVE OfsPrefix(_, _)
OfsPrefix(m, acc) ==
    IF LZero(m) THEN acc
    ELSE LET m1 == LDec(m) IN OfsPrefix(LDiv(m1, 128), <<128 + LMod(m1, 128)>> \o acc)
OfsEncode(n) == OfsPrefix(LDiv(n, 128), << LMod(n, 128) >>)

RECURSIVE OfsFold(_, _, _)
OfsFold(bs, i, v) ==
    IF i > Len(bs) THEN v ELSE OfsFold(bs, i + 1, LMulAdd(LInc(v), 128, bs[i] % 128))
OfsDecode(bs) == OfsFold(bs, 2, N(bs[1] % 128))

\* the un-biased (plain big-endian base-128) encoding: the classic mistake; used as a defect model
RECURSIVE PlainPrefix(_, _)
PlainPrefix(m, acc) ==
    IF LZero(m) THEN acc ELSE PlainPrefix(LDiv(m, 128), <<128 + LMod(m, 128)>> \o acc)
OfsEncodePlain(n) == PlainPrefix(LDiv(n, 128), << LMod(n, 128) >>)

\* the lemmas (checked by TLC on the boundary set, see PackFmtVarint)
HeaderRoundTrip(t, n) ==
    LET h == ObjHeader(t, n) IN
    /\ WellFormedVarint(h)
    /\ DecodeObjHeader(h) = [type |-> t, size |-> n]
OfsRoundTrip(n) ==
    LET e == OfsEncode(n) IN WellFormedVarint(e) /\ OfsDecode(e) = n
LebRoundTrip(n) ==
    LET e == Leb(n) IN WellFormedVarint(e) /\ UnLeb(e) = n

\* ------------------------------------------------------------------ 3. pack layout
\* pack object types
COMMIT == 1  TREE == 2  BLOB == 3  TAG == 4  OFS == 6  REF == 7
FullTypes == {COMMIT, TREE, BLOB, TAG}

Rng(s) == { s[i] : i \in DOMAIN s }
If(b, name) == IF b THEN <<>> ELSE <<name>>

(* A pack as projected from bytes:                                         *)
(*   pk.count   limb, the count field of the header                        *)
(*   pk.hlen    12                                                         *)
(*   pk.dlen    limb, number of bytes before the trailer                   *)
(*   pk.trailer TRUE iff the trailer is the hash of everything before it   *)
(*   pk.oidlen  20 | 32                                                    *)
(*   pk.ext     set of ids of objects a thin pack may use as outside bases *)
(*   pk.es      sequence of entries, in file order:                        *)
(*     off,end  limbs: first byte / one past the last byte                 *)
(*     id       small int naming the object the entry resolves to          *)
(*     kind     "full" | "ofs" | "ref"                                     *)
(*     t        type field of the header (1..4, 6, 7)                      *)
(*     size     limb: inflated length of the zlib stream (measured)        *)
(*     hdr      bytes of the type+size varint                              *)
(*     ofsb     bytes of the distance varint ("ofs")                       *)
(*     base     id of the base ("ofs": the id of the entry found at the    *)
(*              decoded position, 0 if there is none; "ref": the id the    *)
(*              20/32 name bytes stand for)                                *)
(*     crc      <<hi16, lo16>> CRC-32 of the entry's bytes                 *)
(*     rt       object type after resolving (1..4), 0 if unresolved        *)

EntryAt(pk, off) == { i \in DOMAIN pk.es : pk.es[i].off = off }

\* offsets strictly increasing, contiguous from the header to the trailer
OffsetsOK(pk) ==
    /\ \A i \in DOMAIN pk.es : LLess(pk.es[i].off, pk.es[i].end)
    /\ \A i \in DOMAIN pk.es :
          pk.es[i].off = IF i = 1 THEN N(pk.hlen) ELSE pk.es[i - 1].end
    /\ pk.dlen = IF pk.es = <<>> THEN N(pk.hlen) ELSE pk.es[Len(pk.es)].end

CountOK(pk) == pk.count = N(Len(pk.es))

\* the type+size varint is well formed and says the truth about the inflated stream
HeaderOK(e) ==
    /\ WellFormedVarint(e.hdr)
    /\ DecodeObjHeader(e.hdr).type = e.t
    /\ DecodeObjHeader(e.hdr).size = e.size
    /\ e.t \in FullTypes \cup {OFS, REF}
    /\ (e.kind = "full") <=> (e.t \in FullTypes)
    /\ (e.kind = "ofs") <=> (e.t = OFS)
    /\ (e.kind = "ref") <=> (e.t = REF)

\* an OFS distance is positive, stays inside the pack and lands exactly on an earlier entry
OfsLands(pk, i) ==
    LET e == pk.es[i] IN
    e.kind = "ofs" =>
       /\ WellFormedVarint(e.ofsb)
       /\ LET d == OfsDecode(e.ofsb) IN
            /\ ~LZero(d)
            /\ LLeq(d, LSub(e.off, N(pk.hlen)))
            /\ \E j \in 1..(i - 1) : pk.es[j].off = LSub(e.off, d) /\ pk.es[j].id = e.base

\* a REF base is an object of the pack or, for a thin pack, one of the declared outside bases
RefResolves(pk, i) ==
    LET e == pk.es[i] IN
    e.kind = "ref" => (\E j \in DOMAIN pk.es : pk.es[j].id = e.base /\ j # i) \/ e.base \in pk.ext

\* no entry is (transitively) its own base
RECURSIVE ChainOK(_, _, _)
ChainOK(pk, i, fuel) ==
    LET e == pk.es[i] IN
    IF e.kind = "full" THEN TRUE
    ELSE IF fuel = 0 THEN FALSE
    ELSE IF e.kind = "ref" /\ e.base \in pk.ext /\ ~\E j \in DOMAIN pk.es : pk.es[j].id = e.base THEN TRUE
    ELSE \E j \in DOMAIN pk.es : pk.es[j].id = e.base /\ j # i /\ ChainOK(pk, j, fuel - 1)

RECURSIVE Depth(_, _, _)
Depth(pk, i, fuel) ==
    LET e == pk.es[i] IN
    IF e.kind = "full" \/ fuel = 0 THEN 0
    ELSE LET js == { j \in DOMAIN pk.es : pk.es[j].id = e.base /\ j # i } IN
         IF js = {} THEN 1 ELSE 1 + Depth(pk, CHOOSE j \in js : \A k \in js : j <= k, fuel - 1)
MaxDepth(pk) ==
    IF pk.es = <<>> THEN 0
    ELSE LET ds == { Depth(pk, i, Len(pk.es)) : i \in DOMAIN pk.es } IN CHOOSE d \in ds : \A x \in ds : x <= d

\* failed layout clauses of a pack (property clauses: the statement's "mutually consistent")
PackLayout(pk) ==
       If(OffsetsOK(pk), "Offsets")
    \o If(CountOK(pk), "Count")
    \o If(pk.trailer, "PackTrailer")
    \o If(\A i \in DOMAIN pk.es : HeaderOK(pk.es[i]), "Header")
    \o If(\A i \in DOMAIN pk.es : OfsLands(pk, i), "OfsLands")
    \o If(\A i \in DOMAIN pk.es : RefResolves(pk, i), "RefResolves")
    \o If(\A i \in DOMAIN pk.es : ChainOK(pk, i, Len(pk.es)), "Chain")

\* ------------------------------------------------------------------ 4. the writer's rule
(* PackChunkGenerator._pack_data_chunks: entries : id -> offset; a record  *)
(* whose base is already in entries is written OFS(offset - entries[base]),*)
(* a record whose base is not (yet) in entries is written REF(base), a     *)
(* record without base is written in full; the varints are the canonical   *)
(* encodings.  WriterRule replays this over the projected entries and      *)
(* returns the failed clauses (shape clauses: git accepts other choices).  *)
LastBefore(pk, i, id) ==
    LET js == { j \in 1..(i - 1) : pk.es[j].id = id } IN
    IF js = {} THEN 0 ELSE CHOOSE j \in js : \A k \in js : k <= j

WriterEntryOK(pk, i) ==
    LET e == pk.es[i]  lb == LastBefore(pk, i, e.base) IN
    /\ e.hdr = ObjHeader(e.t, e.size)                         \* canonical varint
    /\ e.kind = "ofs" =>
          /\ lb # 0
          /\ e.ofsb = OfsEncode(LSub(e.off, pk.es[lb].off))   \* the most recent entry of that id
    /\ e.kind = "ref" => lb = 0                               \* would have been OFS otherwise
WriterRule(pk) == If(\A i \in DOMAIN pk.es : WriterEntryOK(pk, i), "WriterRule")

\* ------------------------------------------------------------------ 5. pack index
(* An index as projected from bytes:                                       *)
(*   ix.v       1 | 2 | 3                                                  *)
(*   ix.oidlen  20 | 32                                                    *)
(*   ix.len     limb, file length                                          *)
(*   ix.fan     256 ints                                                   *)
(*   ix.first   first byte of every name, in file order                    *)
(*   ix.names   rank of every name, in file order (rank = position in the  *)
(*              bytewise order of all names of the case; equal names have  *)
(*              equal ranks)                                               *)
(*   ix.ids     id of every name, in file order                            *)
(*   ix.crcs    <<hi16, lo16>> per entry (v2, v3)                          *)
(*   ix.o32     per entry <<msb, low31>>  (v1: <<0|1, low31>> of the raw   *)
(*              32-bit field)                                              *)
(*   ix.o64     limbs of the 64-bit table                                  *)
(*   ix.packsum TRUE iff the pack checksum field equals the pack's trailer *)
(*   ix.idxsum  TRUE iff the last field is the hash of everything before   *)
(*   ix.hdr     v3: <<hash id, shortened oid length>>                      *)

IdxN(ix) == Len(ix.first)

FanCount(first, b) == Cardinality({ i \in DOMAIN first : first[i] <= b })
FanOK(ix) ==
    /\ Len(ix.fan) = 256
    /\ \A b \in 1..255 : ix.fan[b] <= ix.fan[b + 1]
    /\ ix.fan[256] = IdxN(ix)
    /\ \A b \in 0..255 : ix.fan[b + 1] = FanCount(ix.first, b)

NamesSorted(ix) == \A i \in 1..(IdxN(ix) - 1) : ix.names[i] <= ix.names[i + 1]
NamesDistinct(ix) == \A i \in 1..(IdxN(ix) - 1) : ix.names[i] # ix.names[i + 1]

\* the offset an index entry stands for; <<-1, 0>> if the indirection is broken
IdxOffset(ix, i) ==
    LET w == ix.o32[i] IN
    IF ix.v = 1 THEN (IF w[1] = 1 THEN LAdd(P31, OfInt(w[2])) ELSE OfInt(w[2]))
    ELSE IF w[1] = 0 THEN OfInt(w[2])
    ELSE IF w[2] + 1 \in DOMAIN ix.o64 THEN ix.o64[w[2] + 1] ELSE <<-1, 0>>

\* 31-bit offsets in place, larger ones through the 64-bit table, which is filled in entry order
\* and holds nothing else
RECURSIVE LargeSeq(_, _)
LargeSeq(ix, i) ==
    IF i > IdxN(ix) THEN <<>>
    ELSE (IF ix.o32[i][1] = 1 THEN <<ix.o32[i][2]>> ELSE <<>>) \o LargeSeq(ix, i + 1)
OffsetTablesOK(ix) ==
    IF ix.v = 1 THEN ix.o64 = <<>>
    ELSE /\ \A i \in 1..IdxN(ix) : IdxOffset(ix, i)[1] >= 0
         /\ LargeSeq(ix, 1) = [k \in 1..Len(ix.o64) |-> k - 1]
         /\ \A k \in DOMAIN ix.o64 : LLeq(P31, ix.o64[k])

IdxHeaderLen(ix) == IF ix.v = 1 THEN 0 ELSE IF ix.v = 2 THEN 8 ELSE 16
IdxLenOK(ix) ==
    LET n == IdxN(ix)
        per == IF ix.v = 1 THEN ix.oidlen + 4 ELSE ix.oidlen + 8 IN
    ix.len = N(IdxHeaderLen(ix) + 1024 + n * per + 8 * Len(ix.o64) + 2 * ix.oidlen)

IdxV3HeaderOK(ix) == ix.v = 3 => ix.hdr = << (IF ix.oidlen = 20 THEN 1 ELSE 2), ix.oidlen >>

\* failed clauses of an index on its own
IdxLayout(ix) ==
       If(FanOK(ix), "Fanout")
    \o If(NamesSorted(ix), "NamesSorted")
    \o If(OffsetTablesOK(ix), "OffsetTables")
    \o If(IdxLenOK(ix), "IdxLength")
    \o If(IdxV3HeaderOK(ix), "IdxV3Header")
    \o If(ix.idxsum, "IdxTrailer")

\* failed clauses of an index against the pack it belongs to
IdxMatchesPack(ix, pk) ==
       If(ix.packsum, "IdxPackChecksum")
    \o If(IdxN(ix) = Len(pk.es), "IdxCount")
    \o If(Rng(ix.ids) = { pk.es[j].id : j \in DOMAIN pk.es }, "IdxNames")
    \o If(\A i \in 1..IdxN(ix) :
             \E j \in DOMAIN pk.es : pk.es[j].id = ix.ids[i] /\ pk.es[j].off = IdxOffset(ix, i), "IdxOffsets")
    \o If(ix.v = 1 \/ \A i \in 1..IdxN(ix) :
             \A j \in DOMAIN pk.es : pk.es[j].off = IdxOffset(ix, i) => pk.es[j].crc = ix.crcs[i], "IdxCrc")

(* What a writer has to lay out for entries es = sequence of [first, off]   *)
(* (sorted by name) in version v: the expected tables, or refusal.          *)
IdxRefuses(es, v, oidlen) ==
    \/ v = 1 /\ (oidlen # 20 \/ \E i \in DOMAIN es : LLeq(P32, es[i].off))
    \/ v = 3 /\ oidlen # 20          \* write_pack_index_v3: SHA-256 not implemented (refusal, not an error)
RECURSIVE LargeCountBefore(_, _)
LargeCountBefore(es, i) ==
    IF i = 0 THEN 0 ELSE LargeCountBefore(es, i - 1) + (IF LLeq(P31, es[i].off) THEN 1 ELSE 0)
ExpectedO32(es, v) ==
    [ i \in DOMAIN es |->
        IF v = 1 THEN (IF LLeq(P31, es[i].off) THEN <<1, LInt(LSub(es[i].off, P31))>> ELSE <<0, LInt(es[i].off)>>)
        ELSE IF LLess(es[i].off, P31) THEN <<0, LInt(es[i].off)>>
        ELSE <<1, LargeCountBefore(es, i - 1)>> ]
ExpectedO64(es, v) ==
    IF v = 1 THEN <<>> ELSE
    LET large == SelectSeq(es, LAMBDA e : LLeq(P31, e.off)) IN [ k \in DOMAIN large |-> large[k].off ]
ExpectedFan(es) == [ b \in 1..256 |-> Cardinality({ i \in DOMAIN es : es[i].first <= b - 1 }) ]
ExpectedIdxLen(es, v, oidlen) ==
    (IF v = 1 THEN 0 ELSE IF v = 2 THEN 8 ELSE 16) + 1024
    + Len(es) * (IF v = 1 THEN oidlen + 4 ELSE oidlen + 8)
    + 8 * Len(ExpectedO64(es, v)) + 2 * oidlen

\* ------------------------------------------------------------------ 6. read back
(* written : set of <<id, type, content>> ; a reading is a sequence of      *)
(* <<id, type, content>> (content = small int naming the byte string).      *)
AsMap(S) == S
ReadBackOK(written, reading) ==
    /\ Rng(reading) = written
    /\ \A a, b \in Rng(reading) : a[1] = b[1] => a = b
=============================================================================

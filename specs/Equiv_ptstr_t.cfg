SPECIFICATION Spec
CONSTANTS
  Fam = "ptstr"
  MaxLen = 5
  Sel = {1, 2, 5, 7, 8, 10}
INVARIANT Lemmas
INVARIANT InModel
CHECK_DEADLOCK FALSE

SPECIFICATION Spec
CONSTANTS
  Fam = "ptstr"
  MaxLen = 5
  Sel = {1, 2, 3, 4, 5, 6, 7, 8, 9, 10}
INVARIANT Lemmas
INVARIANT InModel
CHECK_DEADLOCK FALSE

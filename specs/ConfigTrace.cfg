\* Trace validation (TRACE_FILE=<ndjson> in the environment; -dump <file> gives one state per verdict).
SPECIFICATION TraceSpec
CONSTANTS
  QuoteSemi = FALSE
  CrRaw = FALSE
  QuoteAnySpace = FALSE
  ValueStripGit = FALSE
  HdrEscAware = FALSE
CHECK_DEADLOCK FALSE

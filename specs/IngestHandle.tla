----------------------------- MODULE IngestHandle -----------------------------
(***************************************************************************)
(* C04 -- a cached reader over a damaged artefact, accessed repeatedly.    *)
(*                                                                         *)
(* Transcribes the caching discipline of DiskRefsContainer.get_packed_refs *)
(* (the pattern is the same for every handle that keeps parsed state):     *)
(* the cache is filled while the file is parsed and is tagged with the     *)
(* identity of the file it was read from; a tagged cache is served without *)
(* looking at the file again; _add_packed_refs rewrites the file from the  *)
(* handle's view (under the lock) and invalidates the cache.               *)
(*                                                                         *)
(* The file holds items 1..K; a damaged file parses up to the damage and   *)
(* then raises.  TagAfterParse = TRUE: the tag is recorded only after a    *)
(* complete parse (the code as it is) -- a failed read leaves an untagged  *)
(* partial cache that is thrown away by the next access.  FALSE (negative  *)
(* control): the tag is recorded before parsing -- the second access       *)
(* serves the half-parsed prefix and a write makes the loss permanent.     *)
(***************************************************************************)
EXTENDS IngestObs, TLC

CONSTANTS TagAfterParse, MaxAcc

VARIABLES file,     \* "intact" | "damaged" | "lost" (rewritten from a partial view: the items after the damage are gone)
          cache,    \* "none" | "partial" | "complete"
          tagged,   \* the cache is marked as current for the file on disk
          acc       \* the answers so far

hvars == <<file, cache, tagged, acc>>

Init == /\ file \in {"intact", "damaged"} /\ cache = "none" /\ tagged = FALSE /\ acc = <<>>

(* what get_packed_refs() does; returns the answer and the new cache state *)
View ==
  IF cache # "none" /\ tagged
    THEN [r |-> IF cache = "complete" THEN "same" ELSE "differs", cache |-> cache, tagged |-> tagged]
  ELSE IF file = "intact" THEN [r |-> "same", cache |-> "complete", tagged |-> TRUE]
  ELSE IF file = "damaged" THEN [r |-> "error", cache |-> "partial", tagged |-> ~TagAfterParse]
  ELSE [r |-> "differs", cache |-> "complete", tagged |-> TRUE]

Read ==
  /\ Len(acc) < MaxAcc
  /\ LET v == View IN
       /\ acc' = Append(acc, [k |-> "get", r |-> v.r])
       /\ cache' = v.cache /\ tagged' = v.tagged
  /\ UNCHANGED file

(* _add_packed_refs: lock, re-read through the cache, write the merged view, invalidate *)
Write ==
  /\ Len(acc) < MaxAcc
  /\ LET v == View IN
       /\ acc' = Append(acc, [k |-> "write", r |-> v.r])
       /\ file' = (IF v.r = "differs" THEN "lost" ELSE file)      \* "error": the lock file is aborted, nothing changes
  /\ cache' = "none" /\ tagged' = FALSE

Next == Read \/ Write
Spec == Init /\ [][Next]_hvars

RepeatContained == RepeatObs(acc)
NothingLost == file # "lost"
=============================================================================

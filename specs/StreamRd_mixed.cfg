SPECIFICATION Spec
CONSTANTS
  Scen = "mixed"
  RBuf = 3
  MaxOps = 4
  MaxItems = 2
  MaxLen = 40
  Gen = FALSE
  EmptyReadAsserts = FALSE
INVARIANT OpExact
INVARIANT TotalDecoder
INVARIANT Conservation
INVARIANT BufferBound
CHECK_DEADLOCK FALSE

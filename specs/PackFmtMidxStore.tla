-------------------------- MODULE PackFmtMidxStore --------------------------
(***************************************************************************)
(* Random access through an object store directory whose pack is looked up *)
(* through a multi-pack-index first (DiskObjectStore, core.multiPackIndex).*)
(* One pack name (a pack is named after the set of object names it holds), *)
(* several byte layouts of it (order of objects, compression level, deltas:*)
(* the write options of the property), and a multi-pack-index that records *)
(* the offsets of the layout it was written from.  Another process may     *)
(* rewrite pack + index under the same name without rewriting the          *)
(* multi-pack-index (repack -adf); the pack's own index is then the only   *)
(* consistent source of offsets.  The property at every state: a fresh     *)
(* reader gets every object back, exactly (ReadInv).                       *)
(* Every state is a history that is replayed on a real directory.          *)
(***************************************************************************)
EXTENDS Naturals, Sequences, FiniteSets

CONSTANTS Layouts,      \* ids of the byte layouts (harness/c02_child.py: MIDX_LAYOUTS)
          MaxOps,
          TrustMidx     \* defect model: the reader seeks to the offset the multi-pack-index recorded

VARIABLES layout,       \* 0: no pack yet, else the layout on disk
          midx,         \* 0: no multi-pack-index, else the layout whose offsets it recorded
          hist          \* the operations so far
vars == <<layout, midx, hist>>

Init == layout = 0 /\ midx = 0 /\ hist = <<>>

WritePack(l) == /\ layout = 0
                /\ layout' = l /\ hist' = Append(hist, <<"pack", l>>) /\ UNCHANGED midx
Repack(l) ==    /\ layout # 0 /\ l # layout
                /\ layout' = l /\ hist' = Append(hist, <<"repack", l>>) /\ UNCHANGED midx
WriteMidx ==    /\ layout # 0 /\ midx # layout
                /\ midx' = layout /\ hist' = Append(hist, <<"midx", 0>>) /\ UNCHANGED layout
DropMidx ==     /\ midx # 0
                /\ midx' = 0 /\ hist' = Append(hist, <<"dropmidx", 0>>) /\ UNCHANGED layout
Next == /\ Len(hist) < MaxOps
        /\ \/ \E l \in Layouts : WritePack(l) \/ Repack(l)
           \/ WriteMidx \/ DropMidx
Spec == Init /\ [][Next]_vars

Stale == midx # 0 /\ midx # layout
\* where a reader finds an object: the layout whose offsets it uses, applied to the layout on disk
OffsetsFrom == IF TrustMidx /\ midx # 0 THEN midx ELSE layout
Readable == layout # 0 /\ OffsetsFrom = layout
ReadInv == layout # 0 => Readable
=============================================================================

SPECIFICATION Spec
CONSTANTS
  Actors = {0, 1, 2}
  Menus <- Menus3NoDel
  Inits <- AllInits
  PruneBeforeWrite = FALSE
  LooseBeforePacked = FALSE
  StaleSnapshot = FALSE
INVARIANT CasSound
INVARIANT AddSound
INVARIANT NoLockLeft
VIEW View
CHECK_DEADLOCK FALSE

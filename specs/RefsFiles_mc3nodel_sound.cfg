SPECIFICATION Spec
CONSTANTS
  Actors = {0, 1, 2}
  Menus <- Menus3NoDel
  Inits <- AllInits
  PruneBeforeWrite = FALSE
  LooseBeforePacked = FALSE
  StaleSnapshot = FALSE
  StaleShortcut = FALSE
INVARIANT CasSound
INVARIANT ShortcutSound
INVARIANT AddSound
INVARIANT NoLockLeft
VIEW View
CHECK_DEADLOCK FALSE

SPECIFICATION Spec
CONSTANTS
  NF = 3
  Vals = {0, 1}
  IsBlob = FALSE
  SetterMarksDirty = TRUE
  ExplicitSha1Recomputes = TRUE
  DirtyUntilSerialized = TRUE
  ChunkedResetsSha = TRUE
INVARIANT TypeOK
INVARIANT IdIsHash
INVARIANT SerCurrent
INVARIANT NoStaleAfterFailure
INVARIANT CacheCoherent
CHECK_DEADLOCK FALSE

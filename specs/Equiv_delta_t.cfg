SPECIFICATION Spec
CONSTANTS
  Fam = "delta"
  MaxLen = 6
  Sel = {1, 2, 3}
INVARIANT Lemmas
INVARIANT InModel
CHECK_DEADLOCK FALSE

------------------------------- MODULE ObjFile -------------------------------
(***************************************************************************)
(* Life cycle of a dulwich ShaFile (objects.py): field values, the dirty   *)
(* flag _needs_serialization, the cached serialisation _chunked_text and   *)
(* the cached name _sha, under every order of setter calls and reads.      *)
(*                                                                         *)
(* A VALUATION is a tuple of field values; Ser is injective on the field   *)
(* pools (ObjGrammar), so a serialisation is identified with the valuation *)
(* it serialises and a name with the valuation it is the hash of (H is     *)
(* treated as injective; the harness computes it with hashlib).            *)
(*                                                                         *)
(*   serializable_property.set   = Set(f, x)     (also Commit.parents,     *)
(*        Tag.object, Tree.add/__setitem__/__delitem__)                    *)
(*   as_raw_chunks()             = AsRaw  (re-serialises iff dirty; then   *)
(*        drops the cached sha)                                            *)
(*   sha() / id                  = ReadId (uses the cache unless it is     *)
(*        empty or the object is dirty)                                    *)
(*   sha(F)/get_id(F), F given   = ReadIdF(F), F = 1 (SHA-1), 2 (SHA-256): *)
(*        an explicit request is never answered from the cache, whatever   *)
(*        format the cached name has                                       *)
(*   set_raw_string/_chunks      = SetRaw(v, w) (parses: fields := v); w = 0*)
(*        no name given, w = 1 / 2 the caller gives the trusted SHA-1 /    *)
(*        SHA-256 name (FixedSha), as a sha1 / sha256 object store does    *)
(*   copy(), check(), from_file(as_legacy_object()) = Copy, Check, Reload  *)
(*   Blob.data = SetRaw(v, FALSE); Blob.chunked = SetChunked(v): a Blob    *)
(*        has no fields besides its text cache                             *)
(***************************************************************************)
EXTENDS Naturals, FiniteSets, Sequences, TLC

CONSTANTS NF,                \* number of fields (valuations are tuples of length NF)
          Vals,              \* values of a field
          IsBlob,            \* TRUE: Blob (fields = text cache, setters data/chunked)
          SetterMarksDirty,  \* FALSE: defect model -- the setter of field 1 forgets _needs_serialization
          ChunkedResetsSha,  \* FALSE: defect model -- Blob.chunked keeps the cached sha (objects.py at 671b511)
          ExplicitSha1Recomputes  \* FALSE: defect model -- sha(SHA1)/get_id(SHA1) is answered from the cache like .id

Valuations == [1..NF -> Vals]
V0 == [i \in 1..NF |-> CHOOSE x \in Vals : \A y \in Vals : x <= y]
NoText == [some |-> FALSE, v |-> V0]
Text(v) == [some |-> TRUE, v |-> v]
\* a cached name is the hash of a valuation IN A FORMAT: 1 = SHA-1, 2 = SHA-256 (0 = no name)
Formats == {1, 2}
NoSha  == [k |-> "none", v |-> V0, fmt |-> 0]
Computed(v) == [k |-> "computed", v |-> v, fmt |-> 1]       \* sha() caches a SHA-1 hashlib object
Fixed(v, F) == [k |-> "fixed", v |-> v, fmt |-> F]

VARIABLES fields,   \* current field values
          dirty,    \* _needs_serialization
          text,     \* _chunked_text: NoText or the valuation it is the serialisation of
          sha,      \* _sha: NoSha, Computed(v) (a hashlib object), Fixed(v, F) (FixedSha given by the caller)
          last      \* [op, f, x, ret, rfmt]: the call just made, the valuation its result stands for and,
                    \* for a name, the format it is the hash in
vars == <<fields, dirty, text, sha, last>>

Step(op, f, x, ret, rfmt) == last' = [op |-> op, f |-> f, x |-> x, ret |-> ret, rfmt |-> rfmt]

\* what as_raw_chunks() leaves behind
TextAfter == IF dirty THEN Text(fields) ELSE text
ShaAfterRaw == IF dirty THEN NoSha ELSE sha

Init ==
    /\ \E v \in Valuations, origin \in {"new", "raw", "rawsha"}, F \in Formats :
         /\ fields = v
         /\ (origin # "rawsha" => F = 1)
         /\ IF origin = "new" /\ ~IsBlob
            THEN dirty = TRUE /\ text = NoText /\ sha = NoSha           \* constructor + setters
            ELSE /\ dirty = FALSE /\ text = Text(v)                     \* from_string / from_raw_string / from_file
                 /\ sha = IF origin = "rawsha" THEN Fixed(v, F) ELSE NoSha   \* loaded by a sha1 / sha256 store
         /\ last = [op |-> origin, f |-> IF origin = "rawsha" THEN F ELSE 0, x |-> 0, ret |-> v, rfmt |-> 0]

Set(f, x) ==
    /\ ~IsBlob
    /\ fields' = [fields EXCEPT ![f] = x]
    /\ dirty' = IF SetterMarksDirty \/ f # 1 THEN TRUE ELSE dirty
    /\ UNCHANGED <<text, sha>>
    /\ Step("set", f, x, fields', 0)

AsRaw ==
    /\ text' = TextAfter /\ sha' = ShaAfterRaw /\ dirty' = FALSE
    /\ UNCHANGED fields
    /\ Step("raw", 0, 0, TextAfter.v, 0)

\* .id / sha(): the cache, if there is one and the object is clean -- in the format it was given in
UseCache == sha.k # "none" /\ ~dirty
ReadId ==
    /\ IF UseCache THEN UNCHANGED <<text, dirty, sha>>
       ELSE text' = TextAfter /\ dirty' = FALSE /\ sha' = Computed(TextAfter.v)
    /\ UNCHANGED fields
    /\ Step("id", 0, 0, sha'.v, sha'.fmt)

\* sha(F) / get_id(F) with the format given: always recomputed, in the requested format
\* (defect model: an explicit SHA-1 request takes the path of .id)
ReadIdF(F) ==
    LET cached == F = 1 /\ ~ExplicitSha1Recomputes IN
    /\ IF cached /\ UseCache THEN UNCHANGED <<text, dirty, sha>>
       ELSE /\ text' = TextAfter /\ dirty' = FALSE
            /\ sha' = IF cached THEN Computed(TextAfter.v) ELSE ShaAfterRaw
    /\ UNCHANGED fields
    /\ Step("idF", F, 0, IF cached THEN sha'.v ELSE TextAfter.v, IF cached THEN sha'.fmt ELSE F)

SetRaw(v, w) ==
    /\ fields' = v /\ text' = Text(v) /\ dirty' = FALSE
    /\ sha' = IF w = 0 THEN NoSha ELSE Fixed(v, w)
    /\ Step("setraw", w, 0, v, 0)

SetChunked(v) ==
    /\ IsBlob
    /\ fields' = v /\ text' = Text(v)
    /\ sha' = IF ChunkedResetsSha THEN NoSha ELSE sha
    /\ UNCHANGED dirty
    /\ Step("chunked", 0, 0, v, 0)

\* copy(): from_raw_string(type, as_raw_string(), self.id) -- result stands for the copy's content
Copy ==
    /\ text' = TextAfter /\ dirty' = FALSE
    /\ sha' = IF ShaAfterRaw.k = "none" THEN Computed(TextAfter.v) ELSE ShaAfterRaw
    /\ UNCHANGED fields
    /\ Step("copy", 0, 0, TextAfter.v, 0)

\* check(): old = id; _deserialize(as_raw_chunks()); _sha = None; new = id
Check ==
    /\ text' = TextAfter /\ dirty' = FALSE
    /\ fields' = TextAfter.v
    /\ sha' = Computed(TextAfter.v)
    /\ Step("check", 0, 0, TextAfter.v, 0)

\* the object is written in loose-object form and read back (from_file; w as in SetRaw: the name a
\* sha1 / sha256 object store found it by).  DiskObjectStore.add_object + __getitem__ is this step.
Reload(w) ==
    /\ text' = TextAfter /\ dirty' = FALSE
    /\ fields' = TextAfter.v
    /\ sha' = IF w = 0 THEN NoSha ELSE Fixed(TextAfter.v, w)
    /\ Step("reload", w, 0, TextAfter.v, 0)

Next ==
    \/ \E f \in 1..NF, x \in Vals : Set(f, x)
    \/ AsRaw \/ ReadId \/ Copy \/ Check
    \/ \E F \in Formats : ReadIdF(F)
    \/ \E v \in Valuations, w \in {0} \cup Formats : SetRaw(v, w)
    \/ \E v \in Valuations : SetChunked(v)
    \/ \E w \in {0} \cup Formats : Reload(w)

Spec == Init /\ [][Next]_vars

\* ------------------------------------------------------------------ properties
TypeOK == /\ fields \in Valuations /\ dirty \in BOOLEAN
          /\ text.v \in Valuations /\ sha.v \in Valuations /\ sha.k \in {"none", "computed", "fixed"}
          /\ sha.fmt \in {0} \cup Formats /\ (sha.k = "none" <=> sha.fmt = 0) /\ (sha.k = "computed" => sha.fmt = 1)

\* every way of reading the name returns the hash of the serialisation of the CURRENT fields; an
\* explicit request sha(F)/get_id(F) returns it IN THE REQUESTED FORMAT, whatever is cached
IdIsHash == /\ (last.op = "id" => last.ret = fields)
            /\ (last.op = "idF" => last.ret = fields /\ last.rfmt = last.f)

\* every way of reading the bytes returns the serialisation of the current fields; a copy, a
\* checked and a reloaded object carry the current fields
SerCurrent == last.op \in {"raw", "copy", "check", "reload"} => last.ret = fields

\* what makes the two above inductive: a clean object's caches describe its fields
CacheCoherent == /\ (~dirty => text.some /\ text.v = fields)
                 /\ (~dirty /\ sha.k # "none" => sha.v = fields)
                 /\ (~text.some => dirty)
=============================================================================

------------------------------- MODULE ObjFile -------------------------------
(***************************************************************************)
(* Life cycle of a dulwich ShaFile (objects.py): field values, the dirty   *)
(* flag _needs_serialization, the cached serialisation _chunked_text and   *)
(* the cached name _sha, under every order of setter calls and reads.      *)
(*                                                                         *)
(* A VALUATION is a tuple of field values; Ser is injective on the field   *)
(* pools (ObjGrammar), so a serialisation is identified with the valuation *)
(* it serialises and a name with the valuation it is the hash of (H is     *)
(* treated as injective; the harness computes it with hashlib).            *)
(*                                                                         *)
(*   serializable_property.set   = Set(f, x)     (also Commit.parents,     *)
(*        Tag.object, Tree.add/__setitem__/__delitem__)                    *)
(*   as_raw_chunks()             = AsRaw  (re-serialises iff dirty; then   *)
(*        drops the cached sha)                                            *)
(*   sha() / id                  = ReadId (uses the cache unless it is     *)
(*        empty or the object is dirty)                                    *)
(*   sha(object_format)/get_id   = ReadId256 (never cached)                *)
(*   set_raw_string/_chunks      = SetRaw(v, withSha) (parses: fields := v)*)
(*   copy(), check(), from_file(as_legacy_object()) = Copy, Check, Reload  *)
(*   Blob.data = SetRaw(v, FALSE); Blob.chunked = SetChunked(v): a Blob    *)
(*        has no fields besides its text cache                             *)
(***************************************************************************)
EXTENDS Naturals, FiniteSets, Sequences, TLC

CONSTANTS NF,                \* number of fields (valuations are tuples of length NF)
          Vals,              \* values of a field
          IsBlob,            \* TRUE: Blob (fields = text cache, setters data/chunked)
          SetterMarksDirty,  \* FALSE: defect model -- the setter of field 1 forgets _needs_serialization
          ChunkedResetsSha   \* FALSE: defect model -- Blob.chunked keeps the cached sha (objects.py at 671b511)

Valuations == [1..NF -> Vals]
V0 == [i \in 1..NF |-> CHOOSE x \in Vals : \A y \in Vals : x <= y]
NoText == [some |-> FALSE, v |-> V0]
Text(v) == [some |-> TRUE, v |-> v]
NoSha  == [k |-> "none", v |-> V0]
Computed(v) == [k |-> "computed", v |-> v]
Fixed(v)    == [k |-> "fixed", v |-> v]

VARIABLES fields,   \* current field values
          dirty,    \* _needs_serialization
          text,     \* _chunked_text: NoText or the valuation it is the serialisation of
          sha,      \* _sha: NoSha, Computed(v) (a hashlib object), Fixed(v) (FixedSha given by the caller)
          last      \* [op, f, x, ret]: the call just made and the valuation its result stands for
vars == <<fields, dirty, text, sha, last>>

Step(op, f, x, ret) == last' = [op |-> op, f |-> f, x |-> x, ret |-> ret]

\* what as_raw_chunks() leaves behind
TextAfter == IF dirty THEN Text(fields) ELSE text
ShaAfterRaw == IF dirty THEN NoSha ELSE sha

Init ==
    /\ \E v \in Valuations, origin \in {"new", "raw", "rawsha"} :
         /\ fields = v
         /\ IF origin = "new" /\ ~IsBlob
            THEN dirty = TRUE /\ text = NoText /\ sha = NoSha           \* constructor + setters
            ELSE /\ dirty = FALSE /\ text = Text(v)                     \* from_string / from_raw_string / from_file
                 /\ sha = IF origin = "rawsha" THEN Fixed(v) ELSE NoSha
         /\ last = [op |-> origin, f |-> 0, x |-> 0, ret |-> v]

Set(f, x) ==
    /\ ~IsBlob
    /\ fields' = [fields EXCEPT ![f] = x]
    /\ dirty' = IF SetterMarksDirty \/ f # 1 THEN TRUE ELSE dirty
    /\ UNCHANGED <<text, sha>>
    /\ Step("set", f, x, fields')

AsRaw ==
    /\ text' = TextAfter /\ sha' = ShaAfterRaw /\ dirty' = FALSE
    /\ UNCHANGED fields
    /\ Step("raw", 0, 0, TextAfter.v)

ReadId ==
    /\ IF sha.k = "none" \/ dirty
       THEN text' = TextAfter /\ dirty' = FALSE /\ sha' = Computed(TextAfter.v)
       ELSE UNCHANGED <<text, dirty, sha>>
    /\ UNCHANGED fields
    /\ Step("id", 0, 0, sha'.v)

ReadId256 ==
    /\ text' = TextAfter /\ sha' = ShaAfterRaw /\ dirty' = FALSE
    /\ UNCHANGED fields
    /\ Step("id256", 0, 0, TextAfter.v)

SetRaw(v, withSha) ==
    /\ fields' = v /\ text' = Text(v) /\ dirty' = FALSE
    /\ sha' = IF withSha THEN Fixed(v) ELSE NoSha
    /\ Step(IF withSha THEN "setrawsha" ELSE "setraw", 0, 0, v)

SetChunked(v) ==
    /\ IsBlob
    /\ fields' = v /\ text' = Text(v)
    /\ sha' = IF ChunkedResetsSha THEN NoSha ELSE sha
    /\ UNCHANGED dirty
    /\ Step("chunked", 0, 0, v)

\* copy(): from_raw_string(type, as_raw_string(), self.id) -- result stands for the copy's content
Copy ==
    /\ text' = TextAfter /\ dirty' = FALSE
    /\ sha' = IF ShaAfterRaw.k = "none" THEN Computed(TextAfter.v) ELSE ShaAfterRaw
    /\ UNCHANGED fields
    /\ Step("copy", 0, 0, TextAfter.v)

\* check(): old = id; _deserialize(as_raw_chunks()); _sha = None; new = id
Check ==
    /\ text' = TextAfter /\ dirty' = FALSE
    /\ fields' = TextAfter.v
    /\ sha' = Computed(TextAfter.v)
    /\ Step("check", 0, 0, TextAfter.v)

\* the object is written in loose-object form and read back (from_file, with or without a sha)
Reload(withSha) ==
    /\ text' = TextAfter /\ dirty' = FALSE
    /\ fields' = TextAfter.v
    /\ sha' = IF withSha THEN Fixed(TextAfter.v) ELSE NoSha
    /\ Step(IF withSha THEN "reloadsha" ELSE "reload", 0, 0, TextAfter.v)

Next ==
    \/ \E f \in 1..NF, x \in Vals : Set(f, x)
    \/ AsRaw \/ ReadId \/ ReadId256 \/ Copy \/ Check
    \/ \E v \in Valuations, w \in BOOLEAN : SetRaw(v, w)
    \/ \E v \in Valuations : SetChunked(v)
    \/ \E w \in BOOLEAN : Reload(w)

Spec == Init /\ [][Next]_vars

\* ------------------------------------------------------------------ properties
TypeOK == /\ fields \in Valuations /\ dirty \in BOOLEAN
          /\ text.v \in Valuations /\ sha.v \in Valuations /\ sha.k \in {"none", "computed", "fixed"}

\* every way of reading the name returns the hash of the serialisation of the CURRENT fields
IdIsHash == last.op \in {"id", "id256"} => last.ret = fields

\* every way of reading the bytes returns the serialisation of the current fields; a copy, a
\* checked and a reloaded object carry the current fields
SerCurrent == last.op \in {"raw", "copy", "check", "reload", "reloadsha"} => last.ret = fields

\* what makes the two above inductive: a clean object's caches describe its fields
CacheCoherent == /\ (~dirty => text.some /\ text.v = fields)
                 /\ (~dirty /\ sha.k # "none" => sha.v = fields)
                 /\ (~text.some => dirty)
=============================================================================

------------------------------- MODULE ObjFile -------------------------------
(***************************************************************************)
(* Life cycle of a dulwich ShaFile (objects.py): field values, the dirty   *)
(* flag _needs_serialization, the cached serialisation _chunked_text and   *)
(* the cached name _sha, under every order of setter calls and reads.      *)
(*                                                                         *)
(* A VALUATION is a tuple of field values; Ser is injective on the field   *)
(* pools (ObjGrammar), so a serialisation is identified with the valuation *)
(* it serialises and a name with the valuation it is the hash of (H is     *)
(* treated as injective; the harness computes it with hashlib).            *)
(*                                                                         *)
(*   serializable_property.set   = Set(f, x)     (also Commit.parents,     *)
(*        Tag.object, Tree.add/__setitem__/__delitem__)                    *)
(*   as_raw_chunks()             = AsRaw  (re-serialises iff dirty; then   *)
(*        drops the cached sha)                                            *)
(*   sha() / id                  = ReadId (uses the cache unless it is     *)
(*        empty or the object is dirty)                                    *)
(*   sha(F)/get_id(F), F given   = ReadIdF(F), F = 1 (SHA-1), 2 (SHA-256): *)
(*        an explicit request is never answered from the cache, whatever   *)
(*        format the cached name has                                       *)
(*   set_raw_string/_chunks      = SetRaw(v, w) (parses: fields := v); w = 0*)
(*        no name given, w = 1 / 2 the caller gives the trusted SHA-1 /    *)
(*        SHA-256 name (FixedSha), as a sha1 / sha256 object store does    *)
(*   copy(), check(), from_file(as_legacy_object()) = Copy, Check, Reload  *)
(*   a setter given a value that cannot be serialised (a time zone that is *)
(*        not a whole minute, tree/name None, a tree entry with a bad mode)*)
(*        = Spoil; setting the good value again = Unspoil.  While spoiled  *)
(*        and dirty every read calls _serialize(), which raises: FailedRead*)
(*        -- and it must raise AGAIN when the caller asks again            *)
(*   Blob.data = SetRaw(v, FALSE); Blob.chunked = SetChunked(v): a Blob    *)
(*        has no fields besides its text cache                             *)
(***************************************************************************)
EXTENDS Naturals, FiniteSets, Sequences, TLC

CONSTANTS NF,                \* number of fields (valuations are tuples of length NF)
          Vals,              \* values of a field
          IsBlob,            \* TRUE: Blob (fields = text cache, setters data/chunked)
          SetterMarksDirty,  \* FALSE: defect model -- the setter of field 1 forgets _needs_serialization
          ChunkedResetsSha,  \* FALSE: defect model -- Blob.chunked keeps the cached sha (objects.py at 671b511)
          ExplicitSha1Recomputes, \* FALSE: defect model -- sha(SHA1)/get_id(SHA1) is answered from the cache like .id
          DirtyUntilSerialized    \* FALSE: defect model -- as_raw_chunks clears _needs_serialization BEFORE _serialize()

Valuations == [1..NF -> Vals]
V0 == [i \in 1..NF |-> CHOOSE x \in Vals : \A y \in Vals : x <= y]
NoText == [some |-> FALSE, v |-> V0]
Text(v) == [some |-> TRUE, v |-> v]
\* a cached name is the hash of a valuation IN A FORMAT: 1 = SHA-1, 2 = SHA-256 (0 = no name)
Formats == {1, 2}
NoSha  == [k |-> "none", v |-> V0, fmt |-> 0]
Computed(v) == [k |-> "computed", v |-> v, fmt |-> 1]       \* sha() caches a SHA-1 hashlib object
Fixed(v, F) == [k |-> "fixed", v |-> v, fmt |-> F]

VARIABLES fields,   \* current field values
          dirty,    \* _needs_serialization
          text,     \* _chunked_text: NoText or the valuation it is the serialisation of
          sha,      \* _sha: NoSha, Computed(v) (a hashlib object), Fixed(v, F) (FixedSha given by the caller)
          bad,      \* some field holds a value that _serialize() cannot write (it raises)
          last      \* [op, f, x, ret, rfmt, err]: the call just made, the valuation its result stands for,
                    \* for a name the format it is the hash in, and whether the call raised
vars == <<fields, dirty, text, sha, bad, last>>

Step(op, f, x, ret, rfmt) == last' = [op |-> op, f |-> f, x |-> x, ret |-> ret, rfmt |-> rfmt, err |-> FALSE]

\* a read of a dirty object calls _serialize(); it raises iff the object is spoiled
Fails == dirty /\ bad

\* what as_raw_chunks() leaves behind
TextAfter == IF dirty THEN Text(fields) ELSE text
ShaAfterRaw == IF dirty THEN NoSha ELSE sha

Init ==
    /\ \E v \in Valuations, origin \in {"new", "raw", "rawsha"}, F \in Formats :
         /\ fields = v
         /\ (origin # "rawsha" => F = 1)
         /\ IF origin = "new" /\ ~IsBlob
            THEN dirty = TRUE /\ text = NoText /\ sha = NoSha           \* constructor + setters
            ELSE /\ dirty = FALSE /\ text = Text(v)                     \* from_string / from_raw_string / from_file
                 /\ sha = IF origin = "rawsha" THEN Fixed(v, F) ELSE NoSha   \* loaded by a sha1 / sha256 store
         /\ bad = FALSE
         /\ last = [op |-> origin, f |-> IF origin = "rawsha" THEN F ELSE 0, x |-> 0, ret |-> v, rfmt |-> 0, err |-> FALSE]

Set(f, x) ==
    /\ ~IsBlob
    /\ fields' = [fields EXCEPT ![f] = x]
    /\ dirty' = IF SetterMarksDirty \/ f # 1 THEN TRUE ELSE dirty
    /\ UNCHANGED <<text, sha, bad>>
    /\ Step("set", f, x, fields', 0)

\* an edit that cannot be serialised, and its repair (both go through an ordinary setter)
Spoil ==
    /\ ~IsBlob /\ ~bad
    /\ bad' = TRUE /\ dirty' = TRUE
    /\ UNCHANGED <<fields, text, sha>>
    /\ Step("spoil", 0, 0, fields, 0)
Unspoil ==
    /\ bad
    /\ bad' = FALSE /\ dirty' = TRUE
    /\ UNCHANGED <<fields, text, sha>>
    /\ Step("unspoil", 0, 0, fields, 0)

\* any read (as_raw_*, id, sha(F), copy, check, as_legacy_object) of a spoiled dirty object: as_raw_chunks() drops the
\* cached sha, calls _serialize(), which raises; the object must stay dirty so that the next read
\* fails again (defect model: the flag is cleared first and the next read returns the old text)
FailedRead ==
    /\ Fails
    /\ sha' = NoSha
    /\ dirty' = DirtyUntilSerialized
    /\ UNCHANGED <<fields, text, bad>>
    /\ last' = [op |-> "fail", f |-> 0, x |-> 0, ret |-> fields, rfmt |-> 0, err |-> TRUE]

AsRaw ==
    /\ ~Fails /\ UNCHANGED bad
    /\ text' = TextAfter /\ sha' = ShaAfterRaw /\ dirty' = FALSE
    /\ UNCHANGED fields
    /\ Step("raw", 0, 0, TextAfter.v, 0)

\* .id / sha(): the cache, if there is one and the object is clean -- in the format it was given in
UseCache == sha.k # "none" /\ ~dirty
ReadId ==
    /\ ~Fails /\ UNCHANGED bad
    /\ IF UseCache THEN UNCHANGED <<text, dirty, sha>>
       ELSE text' = TextAfter /\ dirty' = FALSE /\ sha' = Computed(TextAfter.v)
    /\ UNCHANGED fields
    /\ Step("id", 0, 0, sha'.v, sha'.fmt)

\* sha(F) / get_id(F) with the format given: always recomputed, in the requested format
\* (defect model: an explicit SHA-1 request takes the path of .id)
ReadIdF(F) ==
    LET cached == F = 1 /\ ~ExplicitSha1Recomputes IN
    /\ ~Fails /\ UNCHANGED bad
    /\ IF cached /\ UseCache THEN UNCHANGED <<text, dirty, sha>>
       ELSE /\ text' = TextAfter /\ dirty' = FALSE
            /\ sha' = IF cached THEN Computed(TextAfter.v) ELSE ShaAfterRaw
    /\ UNCHANGED fields
    /\ Step("idF", F, 0, IF cached THEN sha'.v ELSE TextAfter.v, IF cached THEN sha'.fmt ELSE F)

SetRaw(v, w) ==
    /\ bad' = FALSE                       \* parsing overwrites every field
    /\ fields' = v /\ text' = Text(v) /\ dirty' = FALSE
    /\ sha' = IF w = 0 THEN NoSha ELSE Fixed(v, w)
    /\ Step("setraw", w, 0, v, 0)

SetChunked(v) ==
    /\ IsBlob
    /\ fields' = v /\ text' = Text(v)
    /\ sha' = IF ChunkedResetsSha THEN NoSha ELSE sha
    /\ UNCHANGED <<dirty, bad>>
    /\ Step("chunked", 0, 0, v, 0)

\* copy(): from_raw_string(type, as_raw_string(), self.id) -- result stands for the copy's content
Copy ==
    /\ ~Fails /\ UNCHANGED bad
    /\ text' = TextAfter /\ dirty' = FALSE
    /\ sha' = IF ShaAfterRaw.k = "none" THEN Computed(TextAfter.v) ELSE ShaAfterRaw
    /\ UNCHANGED fields
    /\ Step("copy", 0, 0, TextAfter.v, 0)

\* check(): old = id; _deserialize(as_raw_chunks()); _sha = None; new = id
Check ==
    /\ ~Fails /\ bad' = FALSE            \* re-parses the text into the fields
    /\ text' = TextAfter /\ dirty' = FALSE
    /\ fields' = TextAfter.v
    /\ sha' = Computed(TextAfter.v)
    /\ Step("check", 0, 0, TextAfter.v, 0)

\* the object is written in loose-object form and read back (from_file; w as in SetRaw: the name a
\* sha1 / sha256 object store found it by).  DiskObjectStore.add_object + __getitem__ is this step.
Reload(w) ==
    /\ ~Fails /\ bad' = FALSE
    /\ text' = TextAfter /\ dirty' = FALSE
    /\ fields' = TextAfter.v
    /\ sha' = IF w = 0 THEN NoSha ELSE Fixed(TextAfter.v, w)
    /\ Step("reload", w, 0, TextAfter.v, 0)

Next ==
    \/ \E f \in 1..NF, x \in Vals : Set(f, x)
    \/ AsRaw \/ ReadId \/ Copy \/ Check
    \/ \E F \in Formats : ReadIdF(F)
    \/ \E v \in Valuations, w \in {0} \cup Formats : SetRaw(v, w)
    \/ \E v \in Valuations : SetChunked(v)
    \/ \E w \in {0} \cup Formats : Reload(w)
    \/ Spoil \/ Unspoil \/ FailedRead

Spec == Init /\ [][Next]_vars

\* ------------------------------------------------------------------ properties
TypeOK == /\ fields \in Valuations /\ dirty \in BOOLEAN /\ bad \in BOOLEAN
          /\ text.v \in Valuations /\ sha.v \in Valuations /\ sha.k \in {"none", "computed", "fixed"}
          /\ sha.fmt \in {0} \cup Formats /\ (sha.k = "none" <=> sha.fmt = 0) /\ (sha.k = "computed" => sha.fmt = 1)

\* every way of reading the name returns the hash of the serialisation of the CURRENT fields; an
\* explicit request sha(F)/get_id(F) returns it IN THE REQUESTED FORMAT, whatever is cached
IdIsHash == /\ (last.op = "id" /\ ~last.err => last.ret = fields)
            /\ (last.op = "idF" /\ ~last.err => last.ret = fields /\ last.rfmt = last.f)

\* every way of reading the bytes returns the serialisation of the current fields; a copy, a
\* checked and a reloaded object carry the current fields
SerCurrent == last.op \in {"raw", "copy", "check", "reload"} /\ ~last.err => last.ret = fields

\* bytes or a name are only ever handed out for fields that can be serialised: after a failed
\* serialisation the same request fails again, it never returns what was cached before the edit
Reads == {"raw", "id", "idF", "copy", "check", "reload"}
NoStaleAfterFailure == last.op \in Reads /\ ~last.err => ~bad \/ last.op \in {"check", "reload"}

\* what makes the two above inductive: a clean object's caches describe its fields
CacheCoherent == /\ (~dirty => text.some /\ text.v = fields /\ ~bad)
                 /\ (~dirty /\ sha.k # "none" => sha.v = fields)
                 /\ (~text.some => dirty)
=============================================================================

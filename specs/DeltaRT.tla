------------------------------- MODULE DeltaRT -------------------------------
(***************************************************************************)
(* Model-level round trip: for every pair (base, target) of strings over   *)
(* Letters up to MaxStr bytes and every copy threshold, the reference      *)
(* decoder applied to the reference encoder's delta yields the target,     *)
(* and that delta satisfies the postcondition.  Plus the encoder lemmas    *)
(* for size varints and copy ops on boundary values (checked as ASSUME).   *)
(* The states double as the (base, target) cases on which the harness      *)
(* runs the real encoders (spec -> code) and whose reference deltas it     *)
(* feeds to the real decoders.                                             *)
(***************************************************************************)
EXTENDS Delta

CONSTANTS Letters, MaxStr, MinCopies

Strs == SeqsUpTo(Letters, MaxStr)

VARIABLES root, b, t, mc, d
vars == <<root, b, t, mc, d>>

Init == root = TRUE /\ b \in Strs /\ t = <<>> /\ mc = 0 /\ d = <<>>

Next ==
    /\ root /\ root' = FALSE /\ b' = b
    /\ \E tt \in Strs, m \in MinCopies : t' = tt /\ mc' = m /\ d' = Encode(b, tt, m)

Spec == Init /\ [][Next]_vars

RoundTripHolds == ~root => Decode(b, d) = [st |-> "ok", out |-> t]
PostHolds == ~root => Post(b, d, t)
\* the encoder never emits a reserved opcode, an empty insert or an over-long insert header
NoWaste == ~root => Run(Len(b), d).prod = Len(t)

\* ---------------------------------------------------------------- encoder lemmas
SizeSamples == {0, 1, 127, 128, 129, 255, 256, 16383, 16384, 65535, 65536, 2097151, 2097152, 268435455}
ASSUME \A n \in SizeSamples :
         LET v == VarintAt(EncSize(n), 1, <<>>) IN v.ok /\ IntOf(v.d) = n /\ v.next = Len(EncSize(n)) + 1

OffSamples == {0, 1, 255, 256, 257, 65535, 65536, 65537, 16777215, 16777216, 16777217, 268435455}
LenSamples == {1, 2, 255, 256, 257, 65535}
ASSUME \A o \in OffSamples, n \in LenSamples :
         LET e == EncCopy(o, n)
             p == ParseOp(e, 1)
         IN p.k = "copy" /\ ~p.far /\ p.off = o /\ p.n = n /\ p.next = Len(e) + 1
=============================================================================

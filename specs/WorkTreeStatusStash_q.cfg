SPECIFICATION SSpec
CONSTANTS
  Paths <- StashPaths
  Trees <- StashTreesQ
  NewCells <- StashNewQ
  Contents <- StashContents
  MaxEdits = 5
  EditBound = 3
  Acts <- StashActsQ
  ModeBlind = FALSE
  LinkBlind = FALSE
INVARIANT TypeOK
INVARIANT StatusExact
INVARIANT CleanIffEqual
INVARIANT Partition
INVARIANT PushClean
INVARIANT NormalCovers
PROPERTY PopRestores
CHECK_DEADLOCK FALSE

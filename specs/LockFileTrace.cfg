SPECIFICATION TraceSpec
CONSTANTS
  Actors = {0, 1, 2}
  MaxWrites = 3
  MaxFaults = 10
  CleanupAfterReplace = FALSE
  CloseOnError = FALSE
CHECK_DEADLOCK FALSE

SPECIFICATION Spec
CONSTANTS
  Fam = "delta"
  MaxLen = 4
  Sel = {1, 2, 3}
INVARIANT Lemmas
INVARIANT InModel
CHECK_DEADLOCK FALSE

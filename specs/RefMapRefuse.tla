---------------------------- MODULE RefMapRefuse ----------------------------
(***************************************************************************)
(* The sequential ref store with an ENVIRONMENT: while one call is made,   *)
(* another process holds packed-refs.lock or the .lock of one ref.  The    *)
(* call then either completes (the contract of RefMap applies) or is       *)
(* REFUSED (it raises).  Contract of a refused call: the observable map    *)
(* (this container, a re-opened one, C git) is the map before the call.    *)
(*                                                                         *)
(* Part 1 (cases): the initial states are every (placement of the refs     *)
(* loose/packed/both, call, held lock); the two successors carry the map   *)
(* and the reads each outcome must show.  The harness executes every case  *)
(* on DiskRefsContainer and compares with the successor of the outcome it  *)
(* saw (spec -> code).                                                      *)
(* Part 2 (steps): remove_if_equals as the steps the files backend makes   *)
(* (drop the packed entry under packed-refs.lock, unlink the loose file),  *)
(* a step failing when its lock is held; invariant RefusedUnchanged.  With *)
(* LooseFirst = TRUE (the historical order) the invariant fails: the       *)
(* negative control.                                                        *)
(***************************************************************************)
EXTENDS RefMap, TLC

CONSTANT LooseFirst

VARIABLES loose, packed,    \* placement before the call
          c,                \* the call
          held,             \* the lock file another process holds: <<"packed-refs">> or a ref name
          phase,            \* "case" | "refused" | "done" | "step1"
          res, want,        \* result class and observable map of the outcome
          shown             \* what every reader (this container, a re-opened one, C git) must then show

rvars == <<loose, packed, c, held, phase, res, want, shown>>

Eff(l, p) == [n \in Names |-> IF l[n].k # "absent" THEN l[n] ELSE p[n]]
ShownOf(m) == [get |-> [n \in Names |-> GetStr(m, n)], has |-> [n \in Names |-> Contains(m, n)]]

PackedLock == <<"packed-refs">>
Held == {PackedLock} \cup Names

\* placements of one branch: absent / loose / packed / packed but shadowed by a newer loose value / both equal
BranchPl == { <<Absent, Absent>>, <<Direct("v1"), Absent>>, <<Absent, Direct("v1")>>,
              <<Direct("v2"), Direct("v1")>>, <<Direct("v1"), Direct("v1")>> }
BranchPlSmall == { <<Absent, Absent>>, <<Direct("v2"), Direct("v1")>> }
HeadPl == { <<Sym(nA), Absent>>, <<Direct("v1"), Absent>> }

PackCalls == {Call("PackRefs", NoName, AnyOld, a, NoName) : a \in {"all", "tags"}}
RCalls == Calls \cup PackCalls

ApplyR(m, cc) == IF cc.op = "PackRefs" THEN Res("None", m) ELSE Apply(m, cc)

RInit ==
    /\ \E h \in HeadPl, a \in BranchPl, b \in BranchPlSmall :
          /\ loose  = [n \in Names |-> IF n = nHEAD THEN h[1] ELSE IF n = nA THEN a[1] ELSE b[1]]
          /\ packed = [n \in Names |-> IF n = nHEAD THEN h[2] ELSE IF n = nA THEN a[2] ELSE b[2]]
    /\ c \in RCalls
    /\ held \in Held
    /\ phase = "case" /\ res = "" /\ want = Eff(loose, packed) /\ shown = ShownOf(want)

Refuse ==
    /\ phase = "case"
    /\ phase' = "refused" /\ res' = "Raised" /\ want' = Eff(loose, packed) /\ shown' = ShownOf(want')
    /\ UNCHANGED <<loose, packed, c, held>>

Complete ==
    /\ phase = "case"
    /\ LET r == ApplyR(Eff(loose, packed), c) IN res' = r.res /\ want' = r.m /\ shown' = ShownOf(r.m)
    /\ phase' = "done"
    /\ UNCHANGED <<loose, packed, c, held>>

\* ---- part 2: the steps of remove_if_equals in the files backend, under the held lock
IsRemove == c.op \in {"Remove", "RemoveIfEquals"} /\ (c.old = AnyOld \/ Content(Eff(loose, packed), c.n) = c.old)
DropPacked(n) == packed' = [packed EXCEPT ![n] = Absent]
DropLoose(n)  == loose'  = [loose EXCEPT ![n] = Absent]
NeedsPackedLock(n) == packed[n].k # "absent"

StepRefuse == phase' = "refused" /\ res' = "Raised" /\ UNCHANGED <<loose, packed, c, held, want, shown>>

RemoveStep1 ==
    /\ phase = "case" /\ IsRemove
    /\ IF held = c.n THEN StepRefuse                           \* the ref's own lock is taken first
       ELSE IF LooseFirst
            THEN DropLoose(c.n) /\ phase' = "step1" /\ UNCHANGED <<packed, c, held, res, want, shown>>
            ELSE IF NeedsPackedLock(c.n) /\ held = PackedLock THEN StepRefuse
                 ELSE DropPacked(c.n) /\ phase' = "step1" /\ UNCHANGED <<loose, c, held, res, want, shown>>
RemoveStep2 ==
    /\ phase = "step1"
    /\ IF LooseFirst
       THEN IF NeedsPackedLock(c.n) /\ held = PackedLock THEN StepRefuse
            ELSE DropPacked(c.n) /\ phase' = "done" /\ res' = "True" /\ UNCHANGED <<loose, c, held, want, shown>>
       ELSE DropLoose(c.n) /\ phase' = "done" /\ res' = "True" /\ UNCHANGED <<packed, c, held, want, shown>>

RNext == Refuse \/ Complete
RSpec == RInit /\ [][RNext]_rvars
StepSpec == RInit /\ [][RemoveStep1 \/ RemoveStep2]_rvars

\* a refused call leaves the observable map as it was (want is the map of the initial state here)
RefusedUnchanged == phase = "refused" => Eff(loose, packed) = want
\* a completed remove shows the map the contract predicts
DoneApplied == (phase = "done" /\ IsRemove) => Eff(loose, packed) = ApplyR(want, c).m

TypeOKR == want \in RefMaps /\ phase \in {"case", "refused", "done", "step1"}
OutcomeOK == /\ phase = "refused" => want = Eff(loose, packed)
             /\ phase = "done" => want = ApplyR(Eff(loose, packed), c).m
             /\ shown = ShownOf(want)

NamesR == {nHEAD, nA, nB}
=============================================================================

SPECIFICATION FairSpec
CONSTANTS
  Actors = {0, 1}
  MaxWrites = 2
  MaxFaults = 1
  CleanupAfterReplace = FALSE
  CloseOnError = FALSE
PROPERTY Terminates
PROPERTY LockFreeAtEnd
CHECK_DEADLOCK FALSE

SPECIFICATION Spec
CONSTANTS
  NameMask = 4095
  Family = "hist"
  MaxKeys = 0
  MaxEdits = 1
  Defect = "stalestage"
INVARIANT StageFromSlot
CHECK_DEADLOCK FALSE

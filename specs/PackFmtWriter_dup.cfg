SPECIFICATION Spec
CONSTANTS
  MaxObjs = 3
  UIds <- UDup
  RowSet <- RowsPlain
  AllowDup = TRUE
  DedupInput = FALSE
  OfsPlain = FALSE
  EmitMod = 1
  EmitRes = 0
INVARIANT PrefixInv
INVARIANT PackInv
INVARIANT IterInv
CHECK_DEADLOCK FALSE

------------------------ MODULE WorkTreeStatusStashMC ------------------------
(* Model-checking instance of WorkTreeStatusStash (a cfg file cannot hold tuples or records). *)
EXTENDS WorkTreeStatusStash

PA == <<"a">>
PDB == <<"d", "b">>
PG == <<"g">>
F1 == Cell("F", 1)
F3 == Cell("F", 3)
X1 == Cell("X", 1)
X2 == Cell("X", 2)
L1 == Cell("L", 1)
L2 == Cell("L", 2)
Tree(P, S) == [p \in P |-> IF \E e \in S : e[1] = p THEN (CHOOSE e \in S : e[1] = p)[2] ELSE NoCell]

StashPaths == {PA, PDB, PG}
ST1 == Tree(StashPaths, {<<PA, F1>>, <<PDB, X2>>})
ST2 == Tree(StashPaths, {<<PA, L1>>, <<PG, F3>>})
StashTrees == {ST1, ST2}
StashTreesQ == {ST1}
StashNew == {F1, L2}
StashNewQ == {L2}
StashContents == {1, 2, 3}
StashActs == {"Checkout", "Modify", "Retype", "Create", "Stage", "StageAll", "Unstage", "StashPush", "StashPop"}
StashActsQ == {"Checkout", "Modify", "Create", "Stage", "StageAll", "StashPush", "StashPop"}
=============================================================================

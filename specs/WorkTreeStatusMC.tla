-------------------------- MODULE WorkTreeStatusMC --------------------------
(***************************************************************************)
(* Model-checking instances of WorkTreeStatus: path universes, tree sets   *)
(* and cell menus (a cfg file cannot hold tuples or records).              *)
(***************************************************************************)
EXTENDS WorkTreeStatus

PA == <<"a">>
PAX == <<"a", "x">>
PD == <<"d">>
PDB == <<"d", "b">>
PDC == <<"d", "c">>
PG == <<"g">>

F1 == Cell("F", 1)
F2 == Cell("F", 2)
F3 == Cell("F", 3)
X1 == Cell("X", 1)
X2 == Cell("X", 2)
L1 == Cell("L", 1)
L2 == Cell("L", 2)

Tree(P, S) == [p \in P |-> IF \E e \in S : e[1] = p THEN (CHOOSE e \in S : e[1] = p)[2] ELSE NoCell]
AllTreesOver(P, C(_)) ==
    {t \in [P -> UNION {C(p) : p \in P} \cup {NoCell}] :
        (\A p \in P : t[p] = NoCell \/ t[p] \in C(p)) /\ Valid(t)}

AllActs == {"Checkout", "Switch", "Modify", "Chmod", "Delete", "Create", "Retype", "FileToDir", "DirToFile",
            "Stage", "StageAll", "Unstage", "RmCached", "Commit", "ResetMixed", "ResetHard"}

\* ---- all pairs of trees for the branch switch: a and d each absent / file / exec / link /
\* directory, every content or kind change, one or two files in the directory
PairPaths == {PA, PAX, PD, PDB, PDC}
PairCells(p) == IF p = PDC THEN {F1, L1} ELSE {F1, F2, X1, L1, L2}
PairTrees == AllTreesOver(PairPaths, PairCells)
PairActs == {"Checkout", "Switch", "StageAll"}
\* the same over fewer cells (quick tier)
PairCellsQ(p) == IF p = PDC THEN {F1} ELSE IF p = PA THEN {F1, F2, X1, L1, L2} ELSE {F1, F2, X1, L1}
PairTreesQ == AllTreesOver(PairPaths, PairCellsQ)

\* ---- edit sequences from a few trees that between them hold every kind, a directory with two
\* entries, a directory that is a file elsewhere, and a path (g) no tree knows
EditPaths == {PA, PAX, PD, PDB, PDC, PG}
T1 == Tree(EditPaths, {<<PA, F1>>, <<PDB, X1>>, <<PDC, L1>>})
T2 == Tree(EditPaths, {<<PAX, F2>>, <<PD, L2>>})
T3 == Tree(EditPaths, {<<PA, L1>>, <<PDB, F1>>, <<PG, X2>>})
T4 == Tree(EditPaths, {<<PA, X1>>, <<PD, F2>>})
EditTrees == {T1, T2, T3}
EditTrees4 == {T1, T2, T3, T4}
EditNew == {F1, X2, L1}
EditContents == {1, 2, 3}

\* ---- a tiny instance for the negative controls
TinyPaths == {PA, PDB}
TinyTrees == {Tree(TinyPaths, {<<PA, F1>>, <<PDB, L1>>})}
=============================================================================

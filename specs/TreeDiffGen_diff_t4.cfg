SPECIFICATION DiffSpec
CONSTANTS
  BPaths <- TinyPaths
  BCells <- FourCells
  BMax = 2
  DPaths <- MiniPaths
  DCells <- AllCells
  DMax = 2
  Filters <- StdFilters
INVARIANT Lemmas
CHECK_DEADLOCK FALSE

SPECIFICATION TraceSpec
CONSTANTS
  MaxWrites = 40
  MaxFaults = 3
  Rollback = TRUE
  RollbackRobust = TRUE
  MemAtomic = TRUE
CHECK_DEADLOCK FALSE

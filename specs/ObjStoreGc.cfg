SPECIFICATION Spec
CONSTANTS
  N = 3
  Names = {"refs/heads/a", "refs/tags/t", "HEAD"}
  MaxPacks = 3
  MaxLen = 5
INVARIANT ReachablePreserved
INVARIANT TypeOK
PROPERTY OnlyGcRemoves
PROPERTY GraceRespected
CHECK_DEADLOCK FALSE

SPECIFICATION Spec
CONSTANTS
  N = 3
  Names = {"refs/heads/a", "refs/heads/b"}
  MaxPacks = 3
  MaxLen = 5
INVARIANT ReachablePreserved
PROPERTY OnlyGcRemoves
CHECK_DEADLOCK FALSE

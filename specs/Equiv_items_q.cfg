SPECIFICATION Spec
CONSTANTS
  Fam = "items"
  MaxLen = 3
  Sel = {"F", "T", "G"}
INVARIANT Lemmas
INVARIANT InModel
CHECK_DEADLOCK FALSE

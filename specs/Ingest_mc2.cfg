SPECIFICATION Spec
CONSTANTS
  MaxWrites = 6
  MaxFaults = 2
  Rollback = TRUE
  RollbackRobust = TRUE
  MemAtomic = TRUE
INVARIANT FailedIngestInvisible
INVARIANT NoPartialPackUsed
INVARIANT SuccessIsConsistent
INVARIANT TmpNeverInstalledPartial
INVARIANT Finishes
CHECK_DEADLOCK FALSE

SPECIFICATION Spec
CONSTANTS
  Actors = {0, 1, 2}
  MaxWrites = 2
  MaxFaults = 2
  CleanupAfterReplace = FALSE
  CloseOnError = TRUE
VIEW View
CHECK_DEADLOCK FALSE
INVARIANT AtomicReplace

SPECIFICATION Spec
CONSTANTS
  Objs = {1, 2, 3}
  Readers = {10, 11}
  InitLayouts <- Layouts
  MaintOps = {"pack_loose", "repack"}
  RetryAfterLooseMiss = TRUE
  OldBeforeNew = FALSE
INVARIANT ReachablePreserved
INVARIANT NoSpuriousMiss
CHECK_DEADLOCK FALSE

\* negative control: seeded model defect "NoWantCheck"; TLC must report WantValidation violated
SPECIFICATION Spec
CONSTANTS
  NC = 2
  NTP = 3
  NT = 1
  MaxHeads = 2
  MaxWants = 1
  Modes = {"detailed"}
  IncTag = {FALSE}
  Thin = {FALSE}
  SFull = {TRUE}
  Forge = TRUE
  MaxInVain = 2
  AtomicNeg = TRUE
  PopAny = FALSE
  Bug = "NoWantCheck"
INVARIANT TypeOK
INVARIANT Antecedent
INVARIANT ReceiverComplete
INVARIANT NoLoss
INVARIANT SenderSound
INVARIANT WantValidation
INVARIANT ThinResolvable
INVARIANT Confluent
INVARIANT HavesSound
CHECK_DEADLOCK FALSE

--------------------------- MODULE WorkTreeStatus ---------------------------
(***************************************************************************)
(* The triple (HEAD tree, index, working directory) of a git work tree as  *)
(* dulwich's porcelain drives it, and what `status` must report about it   *)
(* (property C18).                                                         *)
(*                                                                         *)
(*   porcelain.checkout / switch / reset(hard) / WorkTree.reset_index      *)
(*        (build_index_from_tree, update_working_tree)   ~ Checkout, Switch*)
(*   the user's editor, chmod, rm, ln -s, mkdir           ~ Modify, Chmod, *)
(*        Delete, Create, Retype, FileToDir, DirToFile                     *)
(*   porcelain.add(paths=[p]) / porcelain.add()           ~ Stage, StageAll*)
(*   WorkTree.unstage / porcelain.restore(staged=True)    ~ Unstage        *)
(*   porcelain.rm(cached=True)                            ~ RmCached       *)
(*   porcelain.commit                                     ~ Commit         *)
(*   porcelain.reset(mixed) / reset(hard, HEAD)           ~ ResetMixed/Hard*)
(*   porcelain.status (get_tree_changes,                                   *)
(*        get_unstaged_changes, get_untracked_paths)      ~ Report         *)
(*                                                                         *)
(* A path is a non-empty tuple of names.  Each of head, index, wd is a     *)
(* total function Paths -> cell; a cell is [k, c]: kind "F" (regular file  *)
(* 100644), "X" (executable 100755), "L" (symbolic link 120000) and a      *)
(* content id (file bytes / link target); NoCell = nothing at that path.   *)
(* A directory exists exactly where some present path lies below it (git   *)
(* does not see empty directories).  Content sizes: ids 1 and 2 have the   *)
(* same length, every other id another one (the harness keeps that).       *)
(* The identity of a tree is the map itself: equal listings <=> equal tree *)
(* id (TreeDiff!Build is injective on valid listings, property C12; the    *)
(* harness computes real SHA-1 ids).                                       *)
(*                                                                         *)
(* `rep` is what a status call returns in the current state.  The          *)
(* operators are written over arbitrary maps so that WorkTreeStatusTrace   *)
(* can evaluate them on triples projected from a real repository.          *)
(***************************************************************************)
EXTENDS Naturals, Sequences, FiniteSets, TLC

CONSTANTS Paths,        \* the path universe of a configuration
          Trees,        \* trees that can be checked out / switched to (maps over Paths)
          NewCells,     \* cells an edit may put at a path that is absent from the directory
          Contents,     \* content ids an edit may write into an existing file or link
          MaxEdits,     \* bound on the number of steps after the first checkout
          Acts,         \* action families enabled in this configuration
          ModeBlind,    \* defect model: unstaged changes are detected by content only (no kind)
          LinkBlind     \* defect model: the untracked scan resolves symbolic links

NoCell == [k |-> "-", c |-> 0]
FileKinds == {"F", "X", "L"}
Cell(k, c) == [k |-> k, c |-> c]

\* ------------------------------------------------------------------ paths and maps
Above(p, q) == Len(p) < Len(q) /\ SubSeq(q, 1, Len(p)) = p       \* p is a proper ancestor of q
Clash(p, q) == Above(p, q) \/ Above(q, p)                         \* file/directory conflict
Present(m) == {p \in DOMAIN m : m[p] # NoCell}
Valid(m) == \A p, q \in Present(m) : ~Above(p, q)                 \* prefix free
IsDir(m, d) == \E q \in Present(m) : Above(d, q)                  \* d is a directory in m
DirsOf(p) == {SubSeq(p, 1, k) : k \in 1..(Len(p) - 1)}
Empty(P) == [p \in P |-> NoCell]
Covered(P, p) == {q \in P : q = p \/ Above(p, q)}                 \* what the pathspec p selects

\* ------------------------------------------------------------------ status
\* staged: HEAD tree against index (Index.changes_from_tree / `git diff --cached --name-status`)
StagedAdd(h, i) == {p \in DOMAIN h : h[p] = NoCell /\ i[p] # NoCell}
StagedDel(h, i) == {p \in DOMAIN h : h[p] # NoCell /\ i[p] = NoCell}
StagedMod(h, i) == {p \in DOMAIN h : h[p] # NoCell /\ i[p] # NoCell /\ h[p] # i[p]}
\* unstaged: index against the directory, tracked paths only (get_unstaged_changes / `git diff-files`).
\* A tracked path that is now a directory, or lies below something that is now a file, is absent.
Differs(x, y) == IF ModeBlind /\ x # NoCell /\ y # NoCell THEN x.c # y.c ELSE x # y
Unstaged(i, w) == {p \in DOMAIN i : i[p] # NoCell /\ Differs(i[p], w[p])}
\* untracked: files of the directory that the index does not mention (get_untracked_paths "all")
Untracked(i, w) == {p \in DOMAIN i : w[p] # NoCell /\ (i[p] = NoCell \/ (LinkBlind /\ w[p].k = "L"))}
\* untracked, default presentation ("normal"): a directory without any tracked path below it is
\* named once, at its topmost such level, instead of the files in it
TrackedUnder(i, d) == \E q \in Present(i) : Above(d, q)
Shortest(S) == CHOOSE d \in S : \A e \in S : Len(d) <= Len(e)
NormalEntry(i, u) ==
    LET cand == {d \in DirsOf(u) : ~TrackedUnder(i, d)}
    IN  IF cand = {} THEN [p |-> u, dir |-> FALSE] ELSE [p |-> Shortest(cand), dir |-> TRUE]
UntrackedNormal(i, w) == {NormalEntry(i, u) : u \in Untracked(i, w)}
\* git itself does not name a directory that stands where the index has a file; where that
\* happens the default presentation is not compared
NormalComparable(i, w) == \A p \in Present(i) : ~IsDir(w, p)

Report(h, i, w) ==
    [add |-> StagedAdd(h, i), del |-> StagedDel(h, i), mod |-> StagedMod(h, i),
     unstaged |-> Unstaged(i, w), untracked |-> Untracked(i, w)]
CleanReport == [add |-> {}, del |-> {}, mod |-> {}, unstaged |-> {}, untracked |-> {}]

\* ------------------------------------------------------------------ the effect of each action
\* all of them as operators over maps, so that the trace specification can apply them to
\* observed states

\* `add -A -- p`: every selected path takes its state from the directory
StageOn(i, w, Q) == [q \in DOMAIN i |-> IF q \in Q THEN w[q] ELSE i[q]]
\* what porcelain.add() selects: the paths status reports as unstaged or untracked
StageAllSel(i, w) == Unstaged(i, w) \cup Untracked(i, w)
\* `reset -- p` / unstage: every selected path takes its state from HEAD
UnstageOn(h, i, Q) == [q \in DOMAIN i |-> IF q \in Q THEN h[q] ELSE i[q]]
\* tracked = known to the index or to HEAD; everything else in the directory is left alone
Tracked(h, i) == Present(h) \cup Present(i)
NoCollision(U, t) == \A u \in U, q \in Present(t) : u # q /\ ~Clash(u, q)
\* the directory after switching the tracked paths to tree t
WdTo(h, i, w, t) == [p \in DOMAIN w |-> IF p \in Tracked(h, i) \/ t[p] # NoCell THEN t[p] ELSE w[p]]

\* single-path staging is modelled where no entry has to be evicted from the index because of
\* a file/directory conflict with a path outside the selection (git evicts it; dulwich's
\* WorkTree.stage leaves both entries -- outside this property, see the evidence notes)
StageOK(i, w, P, p) ==
    /\ \A r \in Present(w) : ~Above(r, p)          \* git refuses a pathspec below a file or link
    /\ w[p] # NoCell => ~IsDir(i, p)               \* a file where the index has a directory: entries to evict
    /\ \A q \in Covered(P, p) : w[q] # NoCell =>
          \A r \in Present(i) : Clash(r, q) => r \in Covered(P, p)
UnstageOK(h, i, p) ==
    /\ h[p] # NoCell \/ i[p] # NoCell
    /\ ~IsDir(h, p) /\ ~IsDir(i, p)
    /\ \A r \in Present(h) \cup Present(i) : ~Above(r, p)

CanCreate(w, p) == w[p] = NoCell /\ \A q \in Present(w) : ~Clash(p, q)

\* ------------------------------------------------------------------ the state machine
VARIABLES head, index, wd,      \* the triple
          rep,                  \* what status reports now
          n,                    \* steps taken after the first checkout
          last                  \* the step just taken: [act, p, q, cell] (binding)

vars == <<head, index, wd, rep, n, last>>
NoPath == <<>>
Step(a, p, q, c) == last' = [act |-> a, p |-> p, q |-> q, cell |-> c]
Observe == rep' = Report(head', index', wd')
Tick == last.act # "Init" /\ n < MaxEdits /\ n' = n + 1     \* the first step is a checkout
Clean == rep = CleanReport

Init ==
    /\ head = Empty(Paths) /\ index = Empty(Paths) /\ wd = Empty(Paths)
    /\ rep = CleanReport /\ n = 0
    /\ last = [act |-> "Init", p |-> NoPath, q |-> NoPath, cell |-> NoCell]

\* a fresh checkout into the empty directory of a new repository
Checkout(t) ==
    /\ last.act = "Init" /\ "Checkout" \in Acts
    /\ head' = t /\ index' = t /\ wd' = t /\ n' = n
    /\ Step("Checkout", NoPath, NoPath, NoCell) /\ Observe

\* branch switch: nothing staged, nothing modified; untracked files that are not in the way stay
Switch(t) ==
    /\ "Switch" \in Acts /\ Tick
    /\ rep.add = {} /\ rep.del = {} /\ rep.mod = {} /\ rep.unstaged = {}
    /\ t # head
    /\ NoCollision(rep.untracked, t) /\ NoCollision(rep.untracked, head)
    /\ head' = t /\ index' = t /\ wd' = WdTo(head, index, wd, t)
    /\ Step("Switch", NoPath, NoPath, NoCell) /\ Observe

\* ---- the user edits the directory
Modify(p, c) ==
    /\ "Modify" \in Acts /\ Tick /\ wd[p] # NoCell /\ c # wd[p].c
    /\ wd' = [wd EXCEPT ![p] = Cell(wd[p].k, c)]
    /\ Step("Modify", p, NoPath, wd'[p]) /\ UNCHANGED <<head, index>> /\ Observe

Chmod(p) ==
    /\ "Chmod" \in Acts /\ Tick /\ wd[p].k \in {"F", "X"}
    /\ wd' = [wd EXCEPT ![p] = Cell(IF wd[p].k = "F" THEN "X" ELSE "F", wd[p].c)]
    /\ Step("Chmod", p, NoPath, wd'[p]) /\ UNCHANGED <<head, index>> /\ Observe

Delete(p) ==
    /\ "Delete" \in Acts /\ Tick /\ wd[p] # NoCell
    /\ wd' = [wd EXCEPT ![p] = NoCell]
    /\ Step("Delete", p, NoPath, NoCell) /\ UNCHANGED <<head, index>> /\ Observe

Create(p, cell) ==
    /\ "Create" \in Acts /\ Tick /\ CanCreate(wd, p)
    /\ wd' = [wd EXCEPT ![p] = cell]
    /\ Step("Create", p, NoPath, cell) /\ UNCHANGED <<head, index>> /\ Observe

\* file <-> symbolic link, same content id
Retype(p) ==
    /\ "Retype" \in Acts /\ Tick /\ wd[p] # NoCell
    /\ wd' = [wd EXCEPT ![p] = Cell(IF wd[p].k = "L" THEN "F" ELSE "L", wd[p].c)]
    /\ Step("Retype", p, NoPath, wd'[p]) /\ UNCHANGED <<head, index>> /\ Observe

\* a file or link becomes a directory holding q
FileToDir(p, q, cell) ==
    /\ "FileToDir" \in Acts /\ Tick /\ wd[p] # NoCell /\ Above(p, q)
    /\ \A r \in Present(wd) : r # p => ~Clash(q, r)
    /\ wd' = [wd EXCEPT ![p] = NoCell, ![q] = cell]
    /\ Step("FileToDir", p, q, cell) /\ UNCHANGED <<head, index>> /\ Observe

\* a directory, with everything in it, becomes a file or link
DirToFile(d, cell) ==
    /\ "DirToFile" \in Acts /\ Tick /\ IsDir(wd, d) /\ \A r \in Present(wd) : ~Above(r, d)
    /\ wd' = [p \in Paths |-> IF p = d THEN cell ELSE IF Above(d, p) THEN NoCell ELSE wd[p]]
    /\ Step("DirToFile", d, NoPath, cell) /\ UNCHANGED <<head, index>> /\ Observe

\* ---- the user edits the index
Stage(p) ==
    /\ "Stage" \in Acts /\ Tick
    /\ wd[p] # NoCell \/ index[p] # NoCell \/ IsDir(wd, p)      \* p names something that is there or is tracked
    /\ StageOK(index, wd, Paths, p)
    /\ index' = StageOn(index, wd, Covered(Paths, p))
    /\ Step("Stage", p, NoPath, NoCell) /\ UNCHANGED <<head, wd>> /\ Observe

StageAll ==
    /\ "StageAll" \in Acts /\ Tick
    /\ index' = StageOn(index, wd, StageAllSel(index, wd))
    /\ Step("StageAll", NoPath, NoPath, NoCell) /\ UNCHANGED <<head, wd>> /\ Observe

Unstage(p) ==
    /\ "Unstage" \in Acts /\ Tick /\ UnstageOK(head, index, p)
    /\ index' = UnstageOn(head, index, {p})
    /\ Step("Unstage", p, NoPath, NoCell) /\ UNCHANGED <<head, wd>> /\ Observe

RmCached(p) ==
    /\ "RmCached" \in Acts /\ Tick /\ index[p] # NoCell
    /\ index' = [index EXCEPT ![p] = NoCell]
    /\ Step("RmCached", p, NoPath, NoCell) /\ UNCHANGED <<head, wd>> /\ Observe

Commit ==
    /\ "Commit" \in Acts /\ Tick /\ Valid(index)
    /\ head' = index
    /\ Step("Commit", NoPath, NoPath, NoCell) /\ UNCHANGED <<index, wd>> /\ Observe

ResetMixed ==
    /\ "ResetMixed" \in Acts /\ Tick
    /\ index' = head
    /\ Step("ResetMixed", NoPath, NoPath, NoCell) /\ UNCHANGED <<head, wd>> /\ Observe

ResetHard ==
    /\ "ResetHard" \in Acts /\ Tick /\ Valid(index)
    /\ NoCollision({u \in Present(wd) : u \notin Tracked(head, index)}, head)
    /\ index' = head /\ wd' = WdTo(head, index, wd, head)
    /\ Step("ResetHard", NoPath, NoPath, NoCell) /\ UNCHANGED head /\ Observe

Next ==
    \/ \E t \in Trees : Checkout(t) \/ Switch(t)
    \/ \E p \in Paths :
          \/ \E c \in Contents : Modify(p, c)
          \/ Chmod(p) \/ Delete(p) \/ Retype(p)
          \/ \E cell \in NewCells : Create(p, cell) \/ DirToFile(p, cell)
          \/ \E q \in Paths, cell \in NewCells : FileToDir(p, q, cell)
          \/ Stage(p) \/ Unstage(p) \/ RmCached(p)
    \/ StageAll \/ Commit \/ ResetMixed \/ ResetHard

Spec == Init /\ [][Next]_vars

\* ------------------------------------------------------------------ properties (C18)
TypeOK ==
    /\ head \in [Paths -> [k : FileKinds \cup {"-"}, c : Nat]]
    /\ index \in [Paths -> [k : FileKinds \cup {"-"}, c : Nat]]
    /\ wd \in [Paths -> [k : FileKinds \cup {"-"}, c : Nat]]
    /\ Valid(head) /\ Valid(wd) /\ Valid(index)
    /\ n \in 0..MaxEdits

\* status is exact: it is the difference of the three maps, nothing else
StatusExact == rep = Report(head, index, wd)
\* ... hence clean exactly when the three agree
CleanIffEqual == (rep = CleanReport) <=> (head = index /\ index = wd)
\* the staged classes partition the staged paths; untracked and tracked are disjoint
Partition ==
    /\ rep.add \cap rep.del = {} /\ rep.add \cap rep.mod = {} /\ rep.del \cap rep.mod = {}
    /\ ~LinkBlind => rep.untracked \cap Present(index) = {}
    /\ rep.unstaged \subseteq Present(index)

\* round trip: right after a checkout, a branch switch or a hard reset the directory holds the
\* tree, the index writes the same tree and nothing tracked is reported
RoundTrip ==
    last.act \in {"Checkout", "Switch", "ResetHard"} =>
        /\ index = head
        /\ \A p \in Present(head) : wd[p] = head[p]
        /\ rep.add = {} /\ rep.del = {} /\ rep.mod = {} /\ rep.unstaged = {}
        /\ last.act = "Checkout" => wd = head /\ Clean
\* ... and staging everything then is a no-op on the tree (checked as an action property)
StageAllAfterCheckout ==
    [][(last.act \in {"Checkout", "Switch"} /\ last'.act = "StageAll" /\ rep.untracked = {}) => index' = head]_vars

\* staging everything status names makes the index equal the directory: this is what ties the
\* exactness of status to `checkout; add` reproducing the tree.  (False under ModeBlind.)
StageAllComplete == last.act = "StageAll" => index = wd

\* ... and so does staging one path or directory, for what lies at or below it
StageComplete == last.act = "Stage" => \A q \in Covered(Paths, last.p) : index[q] = wd[q]

\* the default presentation of untracked paths names every untracked file exactly once
NormalCovers ==
    \A u \in rep.untracked :
        Cardinality({e \in UntrackedNormal(index, wd) : e.p = u \/ (e.dir /\ Above(e.p, u))}) = 1
=============================================================================

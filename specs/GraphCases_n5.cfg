\* all 1024 canonical DAGs on 5 commits x all 541 weak orders (thorough; quick uses K = 4 sampled orders per DAG)
SPECIFICATION Spec
CONSTANTS
  MaxExtra = 5
  N = 5
  L = 5
  K = 0
  Seed = 0
INVARIANT DefsOK
CHECK_DEADLOCK FALSE

----------------------------- MODULE EquivCases -----------------------------
(***************************************************************************)
(* Exhaustive input enumeration for C15.  One state = one input of one     *)
(* function family together with the answer of the reference semantics of  *)
(* Equiv; the harness reads the state dump and runs the real pure-Python   *)
(* and Rust implementations on every state (spec -> code).  The lemmas of  *)
(* Equiv are checked on every enumerated input as invariants (`ok`).       *)
(*                                                                         *)
(*   Fam       inp                                  exp                    *)
(*   "ptstr"   <<preRLE, mid, postRLE, shaLen>>     <<ParseTree(.., FALSE),*)
(*   "ptmode"  (text = pre . mid . post)              ParseTree(.., TRUE)>>*)
(*   "items"   <<items, nameOrder>>                 sorted items           *)
(*   "delta"   <<base, delta>>                      <<st, why, out,        *)
(*   "deltax"  <<base, delta>>                        chas, cout>>         *)
(*   "cdelta"  <<base, target>>                     reference delta        *)
(*   "bisect"  <<table, lo, hi, key, off, idLen>>   Find                   *)
(*   "merge"   <<prefix, t1, t2>>                   merged pairs           *)
(*   "istree"  <<kind, type, perm>>                 0 / 1                  *)
(*   "blocks"  <<rle>>                              Count                  *)
(*                                                                         *)
(* String families grow by the action Extend (one byte of the alphabet     *)
(* appended), so that TLC's workers share the enumeration; the other       *)
(* families are sets of initial states.                                    *)
(***************************************************************************)
EXTENDS Equiv

CONSTANTS Fam,       \* which family
          MaxLen,    \* its size bound (meaning per family, see below)
          Sel        \* its selector set (meaning per family, see below)

VARIABLES inp, exp, ok
vars == <<inp, exp, ok>>

Bool(b) == IF b THEN 1 ELSE 0
Rle1(b) == [k \in DOMAIN b |-> <<b[k], 1>>]

\* all sequences over S of length 0..n
RECURSIVE SeqsUpTo(_, _)
SeqsUpTo(S, n) ==
    IF n = 0 THEN {<<>>}
    ELSE LET P == SeqsUpTo(S, n - 1) IN
         P \cup {Append(p, x) : p \in {q \in P : Len(q) = n - 1}, x \in S}

\* ========================================================================= tree payloads
\* DESIGN section 3 C15: 0 1 4 7 8 + - _ SP NUL a / 0xff
PtAlphabet == {48, 49, 52, 55, 56, 43, 45, 95, 32, 0, 97, 47, 255}
\* mode spellings: 0 1 7 8 + - _ TAB LF FF o O x a 0xff NUL
ModeAlphabet == {48, 49, 55, 56, 43, 45, 95, 9, 10, 12, 111, 79, 120, 97, 255, 0}

EntryB == <<52, 32, 98, 0>>                                    \* "4 b" NUL
\* tails after the enumerated head: <<RLE, shaLen>>; 115 = 's', 116 = 't'
TailK(k) ==
    CASE k = 1  -> << <<>>, 20 >>
      [] k = 2  -> << <<<<115, 19>>>>, 20 >>
      [] k = 3  -> << <<<<115, 20>>>>, 20 >>
      [] k = 4  -> << <<<<115, 21>>>>, 20 >>
      [] k = 5  -> << <<<<115, 20>>>> \o Rle1(EntryB) \o <<<<116, 20>>>>, 20 >>
      [] k = 6  -> << <<<<115, 20>>>>, 32 >>
      [] k = 7  -> << <<<<115, 32>>>>, 32 >>
      [] k = 8  -> << <<<<115, 32>>>> \o Rle1(EntryB) \o <<<<116, 32>>>>, 32 >>
      [] k = 9  -> << <<<<115, 31>>>>, 32 >>
      [] k = 10 -> << <<<<115, 32>>>>, 20 >>

PtJudge(pre, mid, post, shaLen) ==
    LET text == UnRle(pre) \o mid \o UnRle(post) IN
    <<ParseTree(text, shaLen, FALSE), ParseTree(text, shaLen, TRUE)>>
PtLemma(pre, mid, post, shaLen) == ParseSerializeLemma(UnRle(pre) \o mid \o UnRle(post), shaLen)

PtSet(pre, mid, post, shaLen) ==
    /\ inp' = <<pre, mid, post, shaLen>>
    /\ exp' = PtJudge(pre, mid, post, shaLen)
    /\ ok' = PtLemma(pre, mid, post, shaLen)

\* ---- "ptstr": every string of length <= MaxLen over PtAlphabet, followed by TailK(k), k \in Sel
PtStrInit ==
    \E k \in Sel :
        /\ inp = << <<>>, <<>>, TailK(k)[1], TailK(k)[2] >>
        /\ exp = PtJudge(<<>>, <<>>, TailK(k)[1], TailK(k)[2])
        /\ ok = TRUE
PtStrNext ==
    /\ Len(inp[2]) < MaxLen
    /\ \E x \in PtAlphabet : PtSet(inp[1], Append(inp[2], x), inp[3], inp[4])

\* ---- "ptmode": one entry whose mode text is any string of length <= MaxLen over ModeAlphabet
\*      or one of LongModes; the entry is " a" NUL id (optionally preceded by a valid entry,
\*      optionally followed by one); Sel = set of frames
LongModes == {
    <<49,48,48,54,52,52>>, <<48,52,48,48,48,48>>, <<52,48,48,48,48>>, <<49,54,48,48,48,48>>,      \* 100644 040000 40000 160000
    <<49,50,48,48,48,48>>, <<49,48,48,55,53,53>>,                                                \* 120000 100755
    <<51,55,55,55,55,55,55,55,55,55,55>>,                                                         \* 2^32-1
    <<52,48,48,48,48,48,48,48,48,48,48>>,                                                         \* 2^32
    <<48,51,55,55,55,55,55,55,55,55,55,55>>,                                                      \* 0 2^32-1
    <<48,48,52,48,48,48,48,48,48,48,48,48,48>>,                                                   \* 00 2^32
    <<49,48,48,48,48,48,48,48,48,48,48,48>>,                                                      \* 8^11
    <<55,55,55,55,55,55,55,55,55,55,55,55,55,55>>,                                                \* 14 digits
    <<49,55,55,55,55,55,55,55,55,55,55,55,55,55,55,55,55,55,55,55,55,55>>,                        \* 2^64-1
    <<50,48,48,48,48,48,48,48,48,48,48,48,48,48,48,48,48,48,48,48,48,48>>,                        \* 2^64
    <<48,48,48,48,48,48,48,48,48,48,48,48,48,48,48,48,48,48,48,48,48,48,48,55>>,                  \* many zeros 7
    <<43,49,48,48,54,52,52>>, <<45,49,48,48,54,52,52>>, <<43,52,48,48,48,48,48,48,48,48,48,48>>,  \* +100644 -100644 +2^32
    <<45,51,55,55,55,55,55,55,55,55,55,55>>,                                                      \* -(2^32-1)
    <<49,48,48,95,54,52,52>>, <<49,95,48,48,54,52,52>>, <<49,48,48,54,52,52,95>>,                 \* 100_644 1_00644 100644_
    <<48,111,49,48,48,54,52,52>>, <<48,79,52,48,48,48,48>>, <<48,120,49,70>>, <<48,98,49,48>>,    \* 0o100644 0O40000 0x1F 0b10
    <<9,49,48,48,54,52,52>>, <<49,48,48,54,52,52,10>>, <<11,52,48,48,48,48,13>>,                  \* TAB100644 100644LF VT40000CR
    <<49,48,48,54,52,52,0>>, <<194,160,49,48,48,54,52,52>>, <<217,161,217,160>>,                  \* 100644NUL NBSP100644 arabic digits
    <<49,48,48,54,52,56>>, <<49,48,48,54,52,101,49>>, <<49,46,48>>                                \* 100648 10064e1 1.0
}
ValidEntry(name, c, shaLen) == Rle1(<<49,48,48,54,52,52,32,name,0>>) \o <<<<c, shaLen>>>>   \* "100644 <name>" NUL id
\* frame f: <<pre, post, shaLen>>
Frame(f) ==
    CASE f = 1 -> << <<>>, Rle1(<<32, 97, 0>>) \o <<<<115, 20>>>>, 20 >>
      [] f = 2 -> << ValidEntry(112, 114, 20), Rle1(<<32, 97, 0>>) \o <<<<115, 20>>>>, 20 >>
      [] f = 3 -> << <<>>, Rle1(<<32, 97, 0>>) \o <<<<115, 32>>>> \o ValidEntry(122, 116, 32), 32 >>
      [] f = 4 -> << <<>>, Rle1(<<32, 0>>) \o <<<<115, 20>>>>, 20 >>

PtModeInit ==
    \E f \in Sel : \E m \in {<<>>} \cup LongModes :
        /\ inp = <<Frame(f)[1], m, Frame(f)[2], Frame(f)[3]>>
        /\ exp = PtJudge(Frame(f)[1], m, Frame(f)[2], Frame(f)[3])
        /\ ok = PtLemma(Frame(f)[1], m, Frame(f)[2], Frame(f)[3])
PtModeNext ==
    /\ Len(inp[2]) < MaxLen
    /\ inp[2] \notin LongModes
    /\ \E x \in ModeAlphabet : PtSet(inp[1], Append(inp[2], x), inp[3], inp[4])

\* ========================================================================= sorted_tree_items
\* names: a  a.b  a-  a0  ab  b   (prefixes of one another; '-' '.' sort before '/', '0' after);
\* Sel = mode tags ("T" directory, "F" file, "G" gitlink, "X" executable, "L" symlink);
\* all insertion orders of all dictionaries with <= MaxLen names
ItemNames == {<<97>>, <<97, 46, 98>>, <<97, 45>>, <<97, 48>>, <<97, 98>>, <<98>>}
RECURSIVE ItemSeqs(_)
ItemSeqs(n) ==
    IF n = 0 THEN {<<>>}
    ELSE LET P == ItemSeqs(n - 1) IN
         P \cup {s \in {Append(p, <<nm, tg>>) : p \in {q \in P : Len(q) = n - 1}, nm \in ItemNames, tg \in Sel} :
                    \A i \in 1..(Len(s) - 1) : s[i][1] # s[Len(s)][1]}
ItemsInit ==
    \E s \in ItemSeqs(MaxLen) : \E no \in BOOLEAN :
        /\ inp = <<s, Bool(no)>>
        /\ exp = SortItems(s, no)
        /\ ok = \A i, j \in DOMAIN s : i # j => OrderLemma(s[i], s[j])

\* ========================================================================= apply_delta
\* ---- "delta": the enumeration of C03 (same alphabet and bases): every string of length
\*      <= MaxLen; a string whose complete header declares a wrong source size is not extended
DeltaAlphabet == {0, 1, 2, 3, 5, 127, 128, 129, 144, 145, 176, 255}
BaseOf(b) == CASE b = 1 -> <<>> [] b = 2 -> <<97, 98>> [] b = 3 -> <<97, 98, 99>>
DeltaSet(base, s) ==
    /\ inp' = <<base, s>>
    /\ exp' = DeltaJudge(base, s)
    /\ ok' = D!RefSound(base, s)
DeltaInit ==
    \E b \in Sel : inp = <<BaseOf(b), <<>>>> /\ exp = DeltaJudge(BaseOf(b), <<>>) /\ ok = TRUE
DeltaNext ==
    /\ Len(inp[2]) < MaxLen
    /\ exp[2] # "src-size"
    /\ \E x \in DeltaAlphabet : DeltaSet(inp[1], Append(inp[2], x))

\* ---- "deltax": op templates against base "ab": header (source size 2, target size 0..5, plain or
\*      padded to 2 / 9 / 10 / 11 bytes, or declaring d + 2^64, d + 2^70, 2^40), then <= MaxLen ops
OpTemplates == {
    <<1, 120>>, <<2, 120, 121>>,          \* insert 1, insert 2
    <<5, 120>>,                           \* insert 5 with one byte present (truncated unless ops follow)
    <<144, 1>>, <<144, 2>>, <<145, 1, 1>>,\* copy [0,1) [0,2) [1,2)
    <<144, 3>>, <<145, 2, 1>>,            \* copy beyond the base
    <<128>>,                              \* copy [0, 0x10000)
    <<0>>                                 \* reserved opcode
}
RECURSIVE Flatten(_)
Flatten(s) == IF s = <<>> THEN <<>> ELSE s[1] \o Flatten(Tail(s))
\* target size headers: <<bytes>>
DstHeaders ==
    {<<d>> : d \in 0..5}
    \cup {D!EncDigits(<<d>>, k) : d \in {0, 2}, k \in {2, 9, 10, 11}}
    \cup {D!EncDigits(<<d, 0, 0, 0, 0, 0, 0, 0, 0, 2>>, 10) : d \in {0, 2}}          \* d + 2^64
    \cup {D!EncDigits(<<d, 0, 0, 0, 0, 0, 0, 0, 0, 0, 1>>, 11) : d \in {0, 2}}       \* d + 2^70
    \cup {D!EncDigits(<<0, 0, 0, 0, 0, 32>>, 6)}                                     \* 2^40
SrcHeaders == {<<2>>} \cup {D!EncDigits(<<2>>, k) : k \in {2, 10, 11}}
\* every copy opcode 0x80|mask with its operand bytes (offset byte 0 = o0, size byte 0 = s0, the
\* other present operand bytes 0), alone or followed by an insert
CopyOp(mask, o0, s0) ==
    LET val == <<o0, 0, 0, 0, s0, 0, 0>> IN
    <<128 + mask>> \o Flatten([k \in 1..7 |-> IF D!Bit(mask, k - 1) THEN <<val[k]>> ELSE <<>>])
MaskDeltas ==
    {<<2, d>> \o CopyOp(m, o0, s0) \o tl :
        d \in 1..3, m \in 0..127, o0 \in {0, 1}, s0 \in {1, 2}, tl \in {<<>>, <<1, 120>>}}
DeltaXInit ==
    \/ \E sh \in SrcHeaders : \E dh \in DstHeaders : \E ops \in SeqsUpTo(OpTemplates, MaxLen) :
        /\ (sh # <<2>> => Len(dh) = 1 /\ Len(ops) <= 1)
        /\ (Len(dh) > 1 => Len(ops) <= 2)
        /\ inp = <<BaseOf(2), sh \o dh \o Flatten(ops)>>
        /\ exp = DeltaJudge(BaseOf(2), sh \o dh \o Flatten(ops))
        /\ ok = D!RefSound(BaseOf(2), sh \o dh \o Flatten(ops))
    \/ \E s \in MaskDeltas :
        /\ inp = <<BaseOf(2), s>>
        /\ exp = DeltaJudge(BaseOf(2), s)
        /\ ok = D!RefSound(BaseOf(2), s)

\* ---- "cdelta": every (base, target) over {a, b} with lengths <= MaxLen; exp = the reference
\*      encoder's delta (a valid delta offered to the real decoders); lemma: it round-trips
CDeltaInit ==
    \E b \in SeqsUpTo({97, 98}, MaxLen) : \E t \in SeqsUpTo({97, 98}, MaxLen) :
        /\ inp = <<b, t>>
        /\ exp = D!Encode(b, t, 2)
        /\ ok = D!RoundTrip(b, t, 2)

\* ========================================================================= bisect_find_sha
\* tables: non-decreasing sequences over {2, 4, 6} of length <= MaxLen; keys 1..7; every
\* (lo, hi) with 0 <= lo <= n, -1 <= hi <= n; Sel = set of <<offset class, id length>>
SortedTables(n) == {t \in SeqsUpTo({2, 4, 6}, n) : Sorted(t)}
BisectInit ==
    \E t \in SortedTables(MaxLen) : \E lo \in 0..Len(t) : \E hi \in (0 - 1)..Len(t) : \E key \in 1..7 : \E v \in Sel :
        /\ inp = <<t, lo, hi, key, v[1], v[2]>>
        /\ exp = Find(t, lo, hi, key)
        /\ ok = FindLemma(t, lo, hi, key)

\* ========================================================================= _merge_entries
\* a tree argument is <<1, entries>> (<= MaxLen entries over names a a.b a0 b, Sel = cells
\* <<modeTag, id>>) or <<0, <<>>>> (None); prefixes 0 = "", 1 = "d", 2 = "d/e"
MergeNames == {<<97>>, <<97, 46, 98>>, <<97, 48>>, <<98>>}
MTrees ==
    {<<0, <<>>>>} \cup
    UNION { { <<1, SortSeq(SetToSeq({<<n, f[n][1], f[n][2]>> : n \in S}), LAMBDA x, y : TD!LexLess(x[1], y[1]))>> : f \in [S -> Sel] }
            : S \in {S \in SUBSET MergeNames : Cardinality(S) <= MaxLen} }
MergeInit ==
    \E t1 \in MTrees : \E t2 \in MTrees : \E p \in 0..2 :
        /\ inp = <<p, t1, t2>>
        /\ exp = MergeEntries(t1, t2)
        /\ ok = MergeLemma(t1, t2)

\* ========================================================================= _is_tree
IsTreeInit ==
    \/ /\ inp = <<"no-entry", 0, 0>> /\ exp = 0 /\ ok = TRUE
    \/ /\ inp = <<"no-mode", 0, 0>> /\ exp = 0 /\ ok = TRUE
    \/ \E ty \in 0..15 : \E pm \in {0, 420, 493, 4095} :            \* 0 0644 0755 07777
        /\ inp = <<"mode", ty, pm>> /\ exp = Bool(IsTree(ty, pm)) /\ ok = TRUE

\* ========================================================================= _count_blocks
\* content by run-length classes: <= MaxLen runs, each of a byte of Sel[1] and a length of Sel[2],
\* at most 200 bytes (the harness hands every content to the real code in one chunk and in
\* chunks of 1, 63 and 64 bytes)
BlocksSet(r) ==
    /\ inp' = <<r>>
    /\ exp' = Count(UnRle(r))
    /\ ok' = SplitLemma(UnRle(r))
BlocksInit == inp = << <<>> >> /\ exp = <<>> /\ ok = SplitLemma(<<>>)
RECURSIVE RleLen(_)
RleLen(r) == IF r = <<>> THEN 0 ELSE r[1][2] + RleLen(Tail(r))
BlocksNext ==
    /\ Len(inp[1]) < MaxLen
    /\ \E c \in Sel[1] : \E n \in Sel[2] :
          /\ RleLen(inp[1]) + n <= 200
          /\ BlocksSet(Append(inp[1], <<c, n>>))

\* ========================================================================= negative controls
\* (the lemmas must bite: TLC has to report `Lemmas` violated on these two families)
\* ---- "negorder": a name containing '/' breaks the equivalence of git's one-byte-lookahead
\*      comparison with the name/ order (dir "a" vs file "a/b" compare equal in base_name_compare)
NegOrderInit ==
    \E s \in {<< <<<<97>>, "T">>, <<<<97, 47, 98>>, "F">> >>, << <<<<97>>, "F">>, <<<<97, 46>>, "F">> >>} :
        /\ inp = <<s, 0>>
        /\ exp = SortItems(s, FALSE)
        /\ ok = \A i, j \in DOMAIN s : i # j => OrderLemma(s[i], s[j])
\* ---- "negpyint": a model of what Python's int(text, 8) accepts (white space around, a sign, a
\*      0o prefix, single underscores between digits) -- the defect model of F16: "the reference
\*      accepts every mode text that int() accepts" must fail on the enumerated mode texts
IsWs(c) == c \in {9, 10, 11, 12, 13, 32}
RECURSIVE LStrip(_)
LStrip(m) == IF m # <<>> /\ IsWs(m[1]) THEN LStrip(Tail(m)) ELSE m
RECURSIVE RStrip(_)
RStrip(m) == IF m # <<>> /\ IsWs(m[Len(m)]) THEN RStrip(SubSeq(m, 1, Len(m) - 1)) ELSE m
PyDigits(d) ==
    /\ d # <<>> /\ IsOct(d[1]) /\ IsOct(d[Len(d)])
    /\ \A k \in DOMAIN d : IsOct(d[k]) \/ d[k] = 95
    /\ \A k \in 1..(Len(d) - 1) : ~(d[k] = 95 /\ d[k + 1] = 95)
PyIntAccepts(m) ==
    LET s == RStrip(LStrip(m))
        t == IF s # <<>> /\ s[1] \in {43, 45} THEN Tail(s) ELSE s
        u == IF Len(t) >= 2 /\ t[1] = 48 /\ t[2] \in {111, 79}
             THEN (IF Len(t) >= 3 /\ t[3] = 95 THEN SubSeq(t, 4, Len(t)) ELSE SubSeq(t, 3, Len(t)))
             ELSE t
    IN PyDigits(u)
RefAcceptsMode(m) == ParseTree(m \o <<32, 97, 0>> \o Rep(115, 20), 20, FALSE)[1] = "ok"
NegPyIntInit == inp = <<>> /\ exp = <<>> /\ ok = TRUE
NegPyIntNext ==
    /\ Len(inp) < MaxLen
    /\ \E x \in ModeAlphabet :
          /\ inp' = Append(inp, x)
          /\ exp' = <<Bool(PyIntAccepts(Append(inp, x))), Bool(RefAcceptsMode(Append(inp, x)))>>
          /\ ok' = (PyIntAccepts(Append(inp, x)) => RefAcceptsMode(Append(inp, x)))

\* ========================================================================= selector sets
\* (cfg files cannot hold tuples: defined here, substituted with <-)
BisectSelQ == {<<0, 20>>, <<0, 32>>, <<1, 20>>, <<2, 20>>}
BisectSelT == {0, 1, 2, 3} \X {20, 32}
MergeCellsQ == {<<"F", "x">>, <<"F", "y">>, <<"T", "x">>}
MergeCellsT == {<<"F", "x">>, <<"F", "y">>, <<"T", "x">>, <<"T", "y">>, <<"G", "x">>}
BlocksSelQ == << {120, 10}, {1, 63, 64, 65} >>
BlocksSelT == << {120, 121, 10}, {1, 2, 63, 64, 65, 128} >>

\* ========================================================================= the machine
Init ==
    CASE Fam = "ptstr"  -> PtStrInit
      [] Fam = "ptmode" -> PtModeInit
      [] Fam = "items"  -> ItemsInit
      [] Fam = "delta"  -> DeltaInit
      [] Fam = "deltax" -> DeltaXInit
      [] Fam = "cdelta" -> CDeltaInit
      [] Fam = "bisect" -> BisectInit
      [] Fam = "merge"  -> MergeInit
      [] Fam = "istree" -> IsTreeInit
      [] Fam = "blocks" -> BlocksInit
      [] Fam = "negorder" -> NegOrderInit
      [] Fam = "negpyint" -> NegPyIntInit

Next ==
    CASE Fam = "ptstr"  -> PtStrNext
      [] Fam = "ptmode" -> PtModeNext
      [] Fam = "delta"  -> DeltaNext
      [] Fam = "blocks" -> BlocksNext
      [] Fam = "negpyint" -> NegPyIntNext
      [] OTHER -> FALSE /\ UNCHANGED vars

Spec == Init /\ [][Next]_vars

\* every lemma of the reference semantics holds on every enumerated input
Lemmas == ok
\* the reference decoder stays inside its model on the delta families
InModel == Fam \in {"delta", "deltax"} => exp[1] \in {"ok", "err"}
=============================================================================

--------------------------- MODULE PackFmtVarint ---------------------------
(***************************************************************************)
(* The varint lemmas of PackFmt checked by TLC, and at the same time the   *)
(* case generator for replay on pack_object_header / _decode_object_header *)
(* / _decode_delta_base_offset / _delta_encode_size / unpack_object_at:    *)
(* every initial state is one (type, value) pair with the bytes the        *)
(* specification encodes it to.                                            *)
(*                                                                         *)
(* Values: 0..Small exhaustively, and the boundary set (limbs): the size   *)
(* varint classes 4 / 11 / 18 / 25 / 32 / 39 bits, the OFS classes         *)
(* (127|128, 16511|16512, 2113663|2113664, 270549119|270549120), the       *)
(* 64 KiB copy limit, 2^31 and 2^32 (the index's large-offset limits) and  *)
(* 2^40.                                                                   *)
(***************************************************************************)
EXTENDS PackFmt

CONSTANTS Small,      \* exhaustive range 0..Small
          Plain       \* defect model: un-biased OFS encoding (the lemma must fail)

VARIABLES t, x, hdr, ofs, leb
vars == <<t, x, hdr, ofs, leb>>

Around(p) == { LDec(p), p, LInc(p) }
Boundary ==
    UNION { Around(p) : p \in { N(16), N(128), N(2048), N(16384), N(16512), N(65536), N(262144), N(2113664),
                                N(33554432), N(268435456), N(270549120), <<2, 0>>, <<4, 0>>, <<128, 0>>, <<1024, 0>> } }
    \cup { N(0), N(1) }

Init ==
    /\ t \in {COMMIT, TREE, BLOB, TAG, OFS, REF}
    /\ x \in Boundary \cup { N(i) : i \in 0..Small }
    /\ hdr = ObjHeader(t, x)
    /\ ofs = IF Plain THEN OfsEncodePlain(x) ELSE OfsEncode(x)
    /\ leb = Leb(x)
Next == UNCHANGED vars
Spec == Init /\ [][Next]_vars

\* number of bytes the encodings must take (the encodings are the shortest ones)
HdrLen(n) == IF LLess(n, N(16)) THEN 1 ELSE IF LLess(n, N(2048)) THEN 2 ELSE IF LLess(n, N(262144)) THEN 3
             ELSE IF LLess(n, N(33554432)) THEN 4 ELSE IF LLess(n, <<4, 0>>) THEN 5 ELSE IF LLess(n, <<512, 0>>) THEN 6 ELSE 7
OfsLen(n) == IF LLess(n, N(128)) THEN 1 ELSE IF LLess(n, N(16512)) THEN 2 ELSE IF LLess(n, N(2113664)) THEN 3
             ELSE IF LLess(n, N(270549120)) THEN 4 ELSE IF LLess(n, <<32, 270549120>>) THEN 5 ELSE 6

Lemma ==
    /\ WellFormedVarint(hdr) /\ DecodeObjHeader(hdr) = [type |-> t, size |-> x] /\ Len(hdr) = HdrLen(x)
    /\ WellFormedVarint(ofs) /\ OfsDecode(ofs) = x /\ Len(ofs) = OfsLen(x)
    /\ WellFormedVarint(leb) /\ UnLeb(leb) = x
=============================================================================

---------------------------- MODULE StreamRdPack ----------------------------
(***************************************************************************)
(* dulwich/pack.py:PackStreamReader -- read()/recv() over two callbacks    *)
(* (read_all: blocks until size bytes or end of stream; read_some: returns *)
(* 1..size bytes), the private read buffer into which read_objects() puts  *)
(* back the bytes zlib did not use, and _read()'s bookkeeping: every byte  *)
(* that comes off the wire is hashed except the last hash_size ones, which *)
(* are kept in a deque (the pack trailer).                                 *)
(*                                                                         *)
(* The stream is a sequence of distinct byte values, so that any loss,     *)
(* duplication or reordering is visible.  One step per operation; the      *)
(* environment chooses how much read_some returns.                         *)
(***************************************************************************)
EXTENDS Integers, Sequences, FiniteSets, TLC, Json

CONSTANTS N,          \* stream length
          HS,         \* hash size (digest length of the hash function handed to the reader)
          MaxOps,
          Sizes,      \* sizes asked by the client
          Gen,
          HashAfterPop   \* TRUE: the code as it is (old trailer bytes hashed before the new data)

Min(a, b) == IF a < b THEN a ELSE b
Max(a, b) == IF a > b THEN a ELSE b
Take(s, n) == SubSeq(s, 1, Min(n, Len(s)))
Drop(s, n) == SubSeq(s, Min(n, Len(s)) + 1, Len(s))
PyTo(s, i)   == IF i >= 0 THEN Take(s, i) ELSE Take(s, Max(0, Len(s) + i))     \* s[:i]
PyFrom(s, i) == IF i >= 0 THEN Drop(s, i) ELSE Drop(s, Max(0, Len(s) + i))     \* s[i:]

VARIABLES stream,    \* the pack stream: distinct byte values in the model, the real bytes in trace validation
          wpos,      \* bytes the callbacks have returned (= _offset)
          rbuf,      \* unread part of PackStreamReader._rbuf
          trailer,   \* the deque
          hashed,    \* everything fed to sha.update, in order
          cons,      \* bytes the client has consumed (= the `offset` property)
          last,      \* [t, n, d, wire]: last operation, its result, whether it touched the wire
          nops, hist
vars == <<stream, wpos, rbuf, trailer, hashed, cons, last, nops, hist>>

Init == /\ stream = [i \in 1..N |-> 10 + i]
        /\ wpos = 0 /\ rbuf = <<>> /\ trailer = <<>> /\ hashed = <<>> /\ cons = 0
        /\ last = [t |-> "none", n |-> 0, d |-> <<>>, wire |-> 0] /\ nops = 0 /\ hist = <<>>

\* _read(): data just came off the wire
Track(data) ==
    LET n == Len(data)
        tn == Len(trailer)
        toPop == IF n >= HS THEN tn ELSE Max(n + tn - HS, 0)
        toAdd == IF n >= HS THEN HS ELSE n
        popped == Take(trailer, toPop)
        body == PyTo(data, 0 - toAdd) IN
    /\ hashed' = IF HashAfterPop THEN hashed \o popped \o body ELSE hashed \o body \o popped
    /\ trailer' = Drop(trailer, toPop) \o PyFrom(data, 0 - toAdd)
    /\ wpos' = wpos + n
    /\ UNCHANGED stream

\* history entry: operation, size asked, bytes the callback returned (-1: not called), result, and the
\* state after it: _offset, length of the deque, client offset
Log(t, n, k, d) == hist' = IF Gen THEN Append(hist, <<t, n, k, d, wpos', Len(trailer'), cons'>>) ELSE hist
Can == nops < MaxOps

Read(size) ==                       \* PackStreamReader.read(size)
    /\ Can /\ nops' = nops + 1
    /\ IF Len(rbuf) >= size
       THEN /\ rbuf' = Drop(rbuf, size)
            /\ last' = [t |-> "read", n |-> size, d |-> Take(rbuf, size), wire |-> 0]
            /\ cons' = cons + size
            /\ UNCHANGED <<stream, wpos, trailer, hashed>>
            /\ Log("read", size, -1, Take(rbuf, size))
       ELSE LET want == size - Len(rbuf)
                data == SubSeq(stream, wpos + 1, Min(wpos + want, Len(stream))) IN      \* read_all: all of it unless the stream ends
            /\ Track(data)
            /\ rbuf' = <<>>
            /\ last' = [t |-> "read", n |-> size, d |-> rbuf \o data, wire |-> Len(data)]
            /\ cons' = cons + Len(rbuf) + Len(data)
            /\ Log("read", size, Len(data), rbuf \o data)

Recv(size, k) ==                    \* PackStreamReader.recv(size); read_some returns k bytes
    /\ Can /\ nops' = nops + 1
    /\ IF rbuf # <<>>
       THEN /\ k = 0
            /\ rbuf' = Drop(rbuf, size)
            /\ last' = [t |-> "recv", n |-> size, d |-> Take(rbuf, size), wire |-> 0]
            /\ cons' = cons + Min(size, Len(rbuf))
            /\ UNCHANGED <<stream, wpos, trailer, hashed>>
            /\ Log("recv", size, -1, Take(rbuf, size))
       ELSE LET data == SubSeq(stream, wpos + 1, wpos + k) IN
            /\ k \in (IF wpos = Len(stream) THEN {0} ELSE 1..Min(size, Len(stream) - wpos))
            /\ Track(data)
            /\ last' = [t |-> "recv", n |-> size, d |-> data, wire |-> k]
            /\ cons' = cons + k
            /\ UNCHANGED rbuf
            /\ Log("recv", size, k, data)

\* read_objects(): the last j bytes just received were not part of the object; they go back in front
Pushback(j) ==
    /\ Can /\ nops' = nops + 1
    /\ last.t = "recv" /\ j \in 1..Len(last.d)
    /\ rbuf' = PyFrom(last.d, 0 - j) \o rbuf
    /\ cons' = cons - j
    /\ last' = [t |-> "push", n |-> j, d |-> <<>>, wire |-> 0]
    /\ UNCHANGED <<stream, wpos, trailer, hashed>>
    /\ Log("push", j, -1, <<>>)

Next == \/ \E s \in Sizes : Read(s)
        \/ \E s \in Sizes, k \in 0..N : Recv(s, k)
        \/ \E j \in 1..N : Pushback(j)
Spec == Init /\ [][Next]_vars

\* ---------------------------------------------------------------- properties
\* hashed positions = all but the last hash_size, in order, for every mix of read/recv and every chunking
TrailerExact ==
    /\ hashed \o trailer = Take(stream, wpos)
    /\ Len(trailer) = Min(HS, wpos)

\* the client sees the stream in order, nothing lost or repeated; read() is complete unless the stream ended
ByteExact ==
    /\ rbuf = SubSeq(stream, cons + 1, wpos)
    /\ last.t \in {"read", "recv"} => last.d = SubSeq(stream, cons - Len(last.d) + 1, cons)
    /\ last.t = "read" => (Len(last.d) = last.n \/ (wpos = Len(stream) /\ rbuf = <<>>))
    /\ last.t = "recv" => (Len(last.d) \in 1..last.n \/ (wpos = Len(stream) /\ Len(last.d) = 0))

Done == nops = MaxOps
EmitLeaf == (Gen /\ Done) => PrintT(ToJson([leaf |-> "pack", hs |-> HS, stream |-> stream, hist |-> hist,
                                           hashed |-> hashed, trailer |-> trailer, offset |-> cons]))
=============================================================================

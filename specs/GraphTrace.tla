----------------------------- MODULE GraphTrace -----------------------------
(***************************************************************************)
(* TLC as the judge of answers recorded from the real code (code -> spec). *)
(*                                                                         *)
(* One ndjson line per history:                                            *)
(*   [tid, par: <<<<parents>>..>>, ts: <<..>>, rank: <<..>>, q: <<query>>, *)
(*    cg: <<commits covered by the repository's commit-graph file>>,       *)
(*    opar: parents as written in the commit objects, cut: <<per commit>>] *)
(* par is what the repository presents = View(opar, cut), see below.       *)
(* cg is only checked to be a legal extent (down-closed); no clause looks  *)
(* at it: the answers must not depend on the accelerator.                  *)
(* A query records what was asked of the real dulwich function and what it *)
(* answered (commit numbers; sets as sequences):                           *)
(*   [k |-> "mb",   a, d: <<..>>, r: <<..>>]     find_merge_base([a] + d)  *)
(*   [k |-> "ff",   a, b, r: <<0|1>>]            can_fast_forward(a, b)    *)
(*   [k |-> "oct",  s: <<..>>, r]                find_octopus_base(s)      *)
(*   [k |-> "ind",  s: <<..>>, r]                independent(s)            *)
(*   [k |-> "walk", i, e, topo, rev, since, until, max, r, base]           *)
(*                                               list(get_walker(...))     *)
(* and the porcelain wrappers that answer the same questions (branches are *)
(* refs/heads/c<n> at commit n, HEAD a symbolic ref to one of them):        *)
(*   [k |-> "pm", h, s: <<branches>>, r, nr]     merged_branches /          *)
(*                                               no_merged_branches, HEAD=h *)
(*   [k |-> "pc", a, s: <<branches>>, r]         branches_containing(a)     *)
(*   [k |-> "pa", a, b, r: <<0|1>>]              porcelain.is_ancestor      *)
(*   [k |-> "pb", s, oct, all, r]                porcelain.merge_base       *)
(*   [k |-> "pi", s, r]                          independent_commits        *)
(*   [k |-> "pr", i, r]                          porcelain.rev_list         *)
(* plus  m: 1 = also run the transcribed algorithm of Graph.tla part 2/3   *)
(*          and say whether it predicts r exactly,                         *)
(*       g: <<>> or <<answer of C git>> (set as sequence / 0|1).           *)
(*                                                                         *)
(* Verdict per query = name of the first clause of the property statement  *)
(* that the recorded answer contradicts, "ok" otherwise.  The clauses only *)
(* use the definitions of Graph.tla part 1.  A verdict "SpecVsGit" means   *)
(* the *specification* disagrees with C git: that is a bug of the          *)
(* specification or harness and is reported as a machinery failure.        *)
(***************************************************************************)
EXTENDS Graph, Json, IOUtils

CONSTANTS UseMinStamp, Reduce   \* which variant of graph.py the tree implements (Graph.tla part 2);
                                \* only used for the "does the transcription predict it" bit

Traces == ndJsonDeserialize(IOEnv.TRACE_FILE)

VARIABLES tid, stage
tvars == <<tid, stage>>

Min(a, b) == IF a < b THEN a ELSE b

Clock(par, ts, S) == IF StrictlyMonotone(par, ts, S) THEN "strict"
                     ELSE IF Monotone(par, ts, S) THEN "ties" ELSE "skew"

Diff(R, E, CA) == IF R = E THEN "same"
                  ELSE IF E \subseteq R THEN (IF R \subseteq CA THEN "extra-nonmaximal" ELSE "extra-foreign")
                  ELSE IF R \subseteq E THEN "missing" ELSE "wrong"

\* ---------------------------------------------------------------- per query
\* result: <<clause, detail, clock, agrees (1/0/2 = not asked)>>
Judge(par, ts, rank, A, q) ==
    CASE q.k = "mb" ->
           LET D  == SeqSet(q.d)
               E  == MergeBases(A, q.a, D)
               R  == SeqSet(q.r)
               mo == FindMergeBase(par, ts, rank, q.a, D, Reduce)
           IN  << IF q.g # <<>> /\ SeqSet(q.g[1]) # E THEN "SpecVsGit"
                  ELSE IF R = E THEN "ok" ELSE "MergeBaseExact",
                  Diff(R, E, CommonAnc(A, q.a, D)),
                  Clock(par, ts, Reach(A, D \cup {q.a})),
                  IF q.m = 1 THEN (IF mo = q.r THEN 1 ELSE 0) ELSE 2 >>
      [] q.k = "ff" ->
           LET e  == IsAncestor(A, q.a, q.b)
               r  == q.r[1] = 1
               mo == CanFastForward(par, ts, rank, q.a, q.b, UseMinStamp, Reduce)
           IN  << IF q.g # <<>> /\ (q.g[1] = 1) # e THEN "SpecVsGit"
                  ELSE IF r = e /\ q.r[1] \in {0, 1} THEN "ok" ELSE "FastForwardExact",
                  IF q.r[1] \notin {0, 1} THEN "exception"
                  ELSE IF r = e THEN "same" ELSE IF e THEN "false-negative" ELSE "false-positive",
                  Clock(par, ts, Reach(A, {q.a, q.b})),
                  IF q.m = 1 THEN (IF mo = r THEN 1 ELSE 0) ELSE 2 >>
      [] q.k = "oct" ->
           LET S  == SeqSet(q.s)
               E  == OctopusBases(A, S)
               R  == SeqSet(q.r)
               mo == FindOctopusBase(par, ts, rank, q.s, Reduce)
           IN  << IF q.g # <<>> /\ SeqSet(q.g[1]) # E THEN "SpecVsGit"
                  ELSE IF R = E THEN "ok" ELSE "OctopusBaseExact",
                  Diff(R, E, CommonAncAll(A, S)),
                  Clock(par, ts, Reach(A, S)),
                  IF q.m = 1 THEN (IF mo = q.r THEN 1 ELSE 0) ELSE 2 >>
      [] q.k = "ind" ->
           LET S  == SeqSet(q.s)
               E  == Independent(A, S)
               R  == SeqSet(q.r)
               mo == IndependentAlg(par, ts, rank, q.s, Reduce)
           IN  << IF q.g # <<>> /\ SeqSet(q.g[1]) # E THEN "SpecVsGit"
                  ELSE IF R = E /\ NoDup(q.r) THEN "ok" ELSE "IndependentExact",
                  IF R = E THEN "same" ELSE IF E \subseteq R THEN "kept-ancestor"
                  ELSE IF R \subseteq E THEN "dropped-independent" ELSE "wrong",
                  Clock(par, ts, Reach(A, S)),
                  IF q.m = 1 THEN (IF mo = q.r THEN 1 ELSE 0) ELSE 2 >>
      [] q.k = "pm" ->
           LET S  == SeqSet(q.s)
               E  == {c \in S : IsAncestor(A, c, q.h)}
               R  == SeqSet(q.r)
               NR == SeqSet(q.nr)
           IN  << IF R = E /\ NR = S \ E THEN "ok" ELSE "BranchMergedExact",
                  IF ~ (R \subseteq E) \/ ~ ((S \ E) \subseteq NR) THEN "merged-but-not-an-ancestor"
                  ELSE IF R = E /\ NR = S \ E THEN "same" ELSE "ancestor-reported-not-merged",
                  Clock(par, ts, Reach(A, S \cup {q.h})), 2 >>
      [] q.k = "pc" ->
           LET S == SeqSet(q.s)
               E == {c \in S : IsAncestor(A, q.a, c)}
               R == SeqSet(q.r)
           IN  << IF R = E THEN "ok" ELSE "BranchContainsExact",
                  IF R = E THEN "same" ELSE IF E \subseteq R THEN "extra" ELSE IF R \subseteq E THEN "missing" ELSE "wrong",
                  Clock(par, ts, Reach(A, S \cup {q.a})), 2 >>
      [] q.k = "pa" ->
           LET e == IsAncestor(A, q.a, q.b)
               r == q.r[1] = 1
           IN  << IF r = e /\ q.r[1] \in {0, 1} THEN "ok" ELSE "IsAncestorExact",
                  IF q.r[1] \notin {0, 1} THEN "exception"
                  ELSE IF r = e THEN "same" ELSE IF e THEN "false-negative" ELSE "false-positive",
                  Clock(par, ts, Reach(A, {q.a, q.b})), 2 >>
      [] q.k = "pb" ->
           LET S == SeqSet(q.s)
               E == IF q.oct = 1 THEN OctopusBases(A, S) ELSE MergeBases(A, q.s[1], SeqSet(Tail(q.s)))
               R == SeqSet(q.r)
               CA == IF q.oct = 1 THEN CommonAncAll(A, S) ELSE CommonAnc(A, q.s[1], SeqSet(Tail(q.s)))
           IN  << IF q.all = 1 THEN (IF R = E THEN "ok" ELSE "PorcelainMergeBaseExact")
                  ELSE IF (E = {} /\ q.r = <<>>) \/ (Len(q.r) = 1 /\ q.r[1] \in E) THEN "ok" ELSE "PorcelainMergeBaseExact",
                  IF q.all = 1 THEN Diff(R, E, CA) ELSE "first-of-list",
                  Clock(par, ts, Reach(A, S)), 2 >>
      [] q.k = "pi" ->
           LET S == SeqSet(q.s)
               E == Independent(A, S)
               R == SeqSet(q.r)
           IN  << IF R = E /\ NoDup(q.r) THEN "ok" ELSE "PorcelainIndependentExact",
                  IF R = E THEN "same" ELSE IF E \subseteq R THEN "kept-ancestor"
                  ELSE IF R \subseteq E THEN "dropped-independent" ELSE "wrong",
                  Clock(par, ts, Reach(A, S)), 2 >>
      [] q.k = "pr" ->
           LET I == SeqSet(q.i)
               R == SeqSet(q.r)
           IN  << IF NoDup(q.r) /\ R = Reach(A, I) THEN "ok" ELSE "RevListComplete",
                  IF R = Reach(A, I) THEN "same" ELSE IF R \subseteq Reach(A, I) THEN "missing" ELSE "extra",
                  Clock(par, ts, Reach(A, I)), 2 >>
      [] q.k = "walk" ->
           LET I     == SeqSet(q.i)
               E     == SeqSet(q.e)
               R     == SeqSet(q.r)
               topo  == q.topo = 1
               rev   == q.rev = 1
               S     == Reach(A, I \cup E)
               mono  == Monotone(par, ts, S)
               plain == q.since = 0 /\ q.until = 0 /\ q.max = 0
               W     == WalkSet(A, I, E)
               F     == {c \in W : (q.since = 0 \/ ts[c] >= q.since) /\ (q.until = 0 \/ ts[c] <= q.until)}
               \* the statement promises the excluded part (and the since cut-off, which is the
               \* same mechanism) only for monotone clocks
               exact == mono \/ (E = {} /\ q.since = 0)
               mo    == Walk(par, ts, rank, I, E, topo, rev, q.since, q.until, q.max)
           IN  << IF q.g # <<>> /\ exact /\ q.max = 0 /\ SeqSet(q.g[1]) # F THEN "SpecVsGit"
                  ELSE IF q.g # <<>> /\ topo /\ ~ TopoOK(par, IF rev THEN RevSeq(q.g[1]) ELSE q.g[1]) THEN "SpecVsGit"
                  \* date order is unambiguous when the timestamps in sight are pairwise different: newest
                  \* first from a priority queue; with excludes only compared for monotone clocks
                  ELSE IF q.g # <<>> /\ ~ topo /\ plain /\ (E = {} \/ mono)
                          /\ (\A x, y \in S : x # y => ts[x] # ts[y]) /\ q.r # q.g[1] THEN "WalkAgreesWithGit"
                  ELSE IF ~ NoDup(q.r) THEN "WalkOnce"
                  ELSE IF ~ (R \subseteq Reach(A, I)) THEN "WalkReachable"
                  ELSE IF E = {} /\ plain /\ R # Reach(A, I) THEN "WalkComplete"
                  ELSE IF E # {} /\ plain /\ mono /\ R # W THEN "WalkExcludes"
                  ELSE IF exact /\ q.max = 0 /\ R # F THEN "WalkSinceUntil"
                  ELSE IF topo /\ ~ TopoOK(par, IF rev THEN RevSeq(q.r) ELSE q.r) THEN "TopoOrder"
                  ELSE IF rev /\ q.r # RevSeq(q.base) THEN "WalkReverse"
                  ELSE IF ~ rev /\ q.max > 0 /\ ~ topo /\ q.r # Prefix(q.base, q.max) THEN "WalkMaxEntries"
                  ELSE IF ~ rev /\ q.max > 0 /\ Len(q.r) # Min(q.max, Len(q.base)) THEN "WalkMaxEntries"
                  ELSE "ok",
                  IF R = F THEN "same" ELSE IF F \subseteq R THEN "extra" ELSE IF R \subseteq F THEN "missing" ELSE "wrong",
                  Clock(par, ts, S),
                  IF q.m = 1 THEN (IF mo = q.r THEN 1 ELSE 0) ELSE 2 >>

\* ---------------------------------------------------------------- per history
\* The history the questions are about is the one the repository presents: the parents written in
\* the commit objects (opar) except where the repository was told otherwise -- cut[c] = <<>>: as
\* written; <<0>>: c is a shallow boundary (no parents); <<1, p..>>: graft point with parents p..
\* A commit-graph file describes the OBJECTS (it may have been written before the cut): its extent
\* is down-closed there, and no clause looks at it.
View(opar, cut) == [c \in DOMAIN opar |-> IF cut[c] = <<>> THEN opar[c] ELSE SeqSet(Tail(cut[c]))]

JudgeAll(T) ==
    LET n    == Len(T.opar)
        opar == [c \in 1..n |-> SeqSet(T.opar[c])]
        par  == View(opar, T.cut)
        A    == Anc(par)
        V   == [k \in 1..Len(T.q) |-> Judge(par, T.ts, T.rank, A, T.q[k])]
        bad == {k \in 1..Len(T.q) : V[k][1] # "ok" \/ V[k][4] = 0}
    IN  /\ Assert(DownClosed(opar, SeqSet(T.cg)), <<"commit-graph extent is not down-closed", T.tid>>)
        /\ Assert(Len(T.par) = n /\ \A c \in 1..n : SeqSet(T.par[c]) = par[c],
                  <<"the harness's idea of the repository's view is not View(opar, cut)", T.tid>>)
        /\ Assert(\A c \in 1..n : par[c] \subseteq 1..(c - 1), <<"view is not canonical", T.tid>>)
        /\ \A k \in bad : PrintT(<<"V", T.tid, k, V[k][1], V[k][2], V[k][3], V[k][4]>>)
        /\ PrintT(<<"T", T.tid, Len(T.q), Cardinality(bad)>>)

TraceInit == tid \in 1..Len(Traces) /\ stage = 0
TraceNext == stage = 0 /\ stage' = 1 /\ tid' = tid /\ JudgeAll(Traces[tid])
TraceSpec == TraceInit /\ [][TraceNext]_tvars
=============================================================================

SPECIFICATION BuildSpec
CONSTANTS
  BPaths <- ConflictPaths
  BCells <- AllCells
  BMax = 4
  DPaths <- TinyPaths
  DCells <- FourCells
  DMax = 2
  Filters <- StdFilters
INVARIANT Lemmas
CHECK_DEADLOCK FALSE

SPECIFICATION Spec
CONSTANTS
  Refs = {1, 2}
  Pushers = {1}
  Inits <- Inits01
  PushIn <- WireNeg
  CheckCas = TRUE
  CheckObj = TRUE
  AtomicMode = "hooks"
  LocalCheckObj = TRUE
  LocalAtomicMode = "txn"
  KeepHist = FALSE
  Emit = FALSE
INVARIANT StatusExact
INVARIANT NoDanglingRef
INVARIANT AtomicOK
CHECK_DEADLOCK FALSE

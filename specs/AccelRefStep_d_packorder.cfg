SPECIFICATION Spec
CONSTANTS
  V = 2
  DeletePackedFirst = TRUE
  PackWriteFirst = FALSE
INVARIANT TypeOK
INVARIANT Atomic
INVARIANT Final
CHECK_DEADLOCK FALSE

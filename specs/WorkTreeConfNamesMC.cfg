SPECIFICATION NamesSpec
INVARIANT NamesInv
CHECK_DEADLOCK FALSE

SPECIFICATION Spec
CONSTANTS
  Paths <- TinyPaths
  Trees <- TinyTrees
  NewCells <- EditNew
  Contents <- EditContents
  MaxEdits = 3
  Acts <- AllActs
  ModeBlind = TRUE
  LinkBlind = FALSE
INVARIANT StageAllComplete
CHECK_DEADLOCK FALSE

------------------------------ MODULE ObjStoreMC ------------------------------
EXTENDS ObjStore
Empty == [objs |-> {}, pack |-> FALSE, idx |-> FALSE]
P(s) == [objs |-> s, pack |-> TRUE, idx |-> TRUE]
Layouts ==
  { [loose |-> {1, 2, 3}, packs |-> (0 :> Empty)],
    [loose |-> {3},       packs |-> (0 :> Empty @@ 1 :> P({1, 2}))],
    [loose |-> {},        packs |-> (0 :> Empty @@ 1 :> P({1, 2}) @@ 2 :> P({2, 3}))],
    [loose |-> {2, 3},    packs |-> (0 :> Empty @@ 1 :> P({1, 2}))] }
=============================================================================

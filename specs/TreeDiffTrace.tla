---------------------------- MODULE TreeDiffTrace ----------------------------
(***************************************************************************)
(* Batch validation of results recorded from the real dulwich code against *)
(* the operators of TreeDiff (property C12, direction code -> spec).       *)
(*                                                                         *)
(* One ndjson line per execution:                                          *)
(*   [tid, kind, A, B, fl, paths, cl, c, tree, iter, res]                  *)
(*   kind "build":  A listing; tree = the stored tree object read back by  *)
(*                  an independent parser; iter = iter_tree_contents       *)
(*   kind "diff":   c = list(tree_changes(A, B, flags fl, paths))          *)
(*   kind "rename": c = RenameDetector.changes_with_renames(A, B); m =     *)
(*                  max_files of the detector object, which may have been  *)
(*                  used for other diffs before (step > 0)                 *)
(*   kind "patch":  tree = commit_tree_changes(tree of A, cl) read back    *)
(* Entries use the field names of TreeDiff; a tree entry carries the       *)
(* nested content of the real tree object, so identity is structural.      *)
(*                                                                         *)
(* The verdict names the first *property* clause that the real result      *)
(* violates ("ok" if none); `drift` says that the result differs from the  *)
(* model only in shape (order of the list, delete+add vs modify labels).   *)
(***************************************************************************)
EXTENDS TreeDiff, Json, IOUtils

Traces == ndJsonDeserialize(IOEnv.TRACE_FILE)

VARIABLES i, done

\* a change list as the set of its half-changes: what disappears, what appears, what is
\* reported as unchanged.  Two lists with the same halves describe the same difference.
Halves(s) ==
    {<<"old", s[k].old>> : k \in {k \in DOMAIN s : s[k].type \in {"delete", "modify", "rename"} /\ s[k].old # NoEntry}}
    \cup {<<"new", s[k].new>> : k \in {k \in DOMAIN s : s[k].type \in {"add", "modify", "rename", "copy"} /\ s[k].new # NoEntry}}
    \cup {<<"same", s[k].old>> : k \in {k \in DOMAIN s : s[k].type = "unchanged"}}

BuildVerdict(L, t, T) ==
    IF ~Valid(L) THEN "input"
    ELSE IF t.res # "ok" THEN "build-raised"
    ELSE IF ~Canonical(t.tree) THEN "order"
    ELSE IF Flatten(t.tree, <<>>) # L THEN "inverse"
    ELSE IF t.tree # T THEN "build"
    ELSE IF Range(t.iter) # L THEN "flatten"
    ELSE "ok"
BuildDrift(L, t, T) == t.res = "ok" /\ t.iter # IterRoot(T, FALSE)

\* a filtered diff that mentions a path the model does not (or misses one): say what that path
\* is on either side
KindAt(L, p) == IF p \in PathsOf(L) THEN "B" ELSE IF p \in Dirs(L) THEN "T" ELSE "-"
LeastPath(S) == CHOOSE p \in S : \A q \in S : ~PathLess(q, p)
PathsVerdict0(A, B, EP, MP) ==
    IF EP # {} THEN "paths-extra(" \o KindAt(A, LeastPath(EP)) \o ">" \o KindAt(B, LeastPath(EP)) \o ")"
    ELSE IF MP # {} THEN "paths-missing(" \o KindAt(A, LeastPath(MP)) \o ">" \o KindAt(B, LeastPath(MP)) \o ")"
    ELSE "paths-differs"
PathsVerdict(A, B, c, exp) ==
    PathsVerdict0(A, B, {ChangePath(c[k]) : k \in DOMAIN c} \ {ChangePath(exp[k]) : k \in DOMAIN exp},
                        {ChangePath(exp[k]) : k \in DOMAIN exp} \ {ChangePath(c[k]) : k \in DOMAIN c})

DiffVerdict(A, B, fl, P, t, exp) ==
    IF ~Valid(A) \/ ~Valid(B) THEN "input"
    ELSE IF t.res # "ok" THEN "diff-raised"
    ELSE IF P = {} /\ ~Sound(Range(t.c), A, B) THEN "apply"
    ELSE IF ~Once(t.c, fl.cts) THEN "once"
    ELSE IF Halves(t.c) # Halves(exp) THEN (IF P = {} THEN "diff" ELSE PathsVerdict(A, B, t.c, exp))
    ELSE "ok"
Expected(A, B, fl, P) == IF P = {} THEN DiffSeq(A, B, fl) ELSE DiffFiltered(A, B, fl, P)

RenameVerdict(A, B, t, D0) ==
    IF ~Valid(A) \/ ~Valid(B) THEN "input"
    ELSE IF t.res # "ok" THEN "rename-raised"
    ELSE IF ~RenameSound(Range(t.c), A, B) THEN "rename-sound"
    ELSE IF ~Once(t.c, FALSE) THEN "once"
    \* t.m = max_files of the detector object; where the model determines the result, it is the
    \* result of a fresh detector whatever the object was used for before
    ELSE IF Determined0(D0, t.m) /\ Range(t.c) # Detect0({}, ExactRenames(D0), t.m, FALSE).res THEN "rename-exact"
    ELSE "ok"

PatchVerdict(A, cl, t) ==
    IF ~Valid(A) \/ ~ApplicableCL(cl, A) THEN "input"
    ELSE IF t.res # "ok" THEN "patch-raised"
    ELSE IF t.tree # Patch(A, cl) THEN "patch"
    ELSE "ok"

FlagsOf(t) == Flags(t.fl[1], t.fl[2], t.fl[3])
Verdict(t) ==
    CASE t.kind = "build"  -> BuildVerdict(Range(t.A), t, Build(Range(t.A)))
      [] t.kind = "diff"   -> DiffVerdict(Range(t.A), Range(t.B), FlagsOf(t), Range(t.paths), t,
                                          Expected(Range(t.A), Range(t.B), FlagsOf(t), Range(t.paths)))
      [] t.kind = "rename" -> RenameVerdict(Range(t.A), Range(t.B), t, Range(DiffSeq(Range(t.A), Range(t.B), Default)))
      [] t.kind = "patch"  -> PatchVerdict(Range(t.A), t.cl, t)
      [] OTHER -> "input"
Drift(t) ==
    CASE t.kind = "build" -> BuildDrift(Range(t.A), t, Build(Range(t.A)))
      [] t.kind = "diff"  -> t.res = "ok" /\ t.c # Expected(Range(t.A), Range(t.B), FlagsOf(t), Range(t.paths))
      [] OTHER -> FALSE

Judge(t, v) == PrintT(<<"VERDICT", t.tid, v, IF v = "ok" THEN Drift(t) ELSE FALSE>>)

TraceInit == i \in 1..Len(Traces) /\ done = FALSE
TraceNext == ~done /\ done' = TRUE /\ i' = i /\ Judge(Traces[i], Verdict(Traces[i]))
TraceSpec == TraceInit /\ [][TraceNext]_<<i, done>>
=============================================================================

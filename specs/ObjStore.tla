------------------------------- MODULE ObjStore -------------------------------
(***************************************************************************)
(* The on-disk object store (dulwich/object_store.py) under maintenance,   *)
(* with concurrent readers (C10, and the ingestion transaction of C04).    *)
(*                                                                         *)
(*   loose : set of objects that have a (complete) loose file              *)
(*   packs : PackId -> [objs, pack: .pack present, idx: .idx present]      *)
(*           a pack is consulted only when both files exist                *)
(*   One maintainer runs pack_loose_objects or repack, one step per        *)
(*   file-system call that other processes can observe:                    *)
(*     scan -> install new pack (.pack renamed in, then .idx)              *)
(*          -> unlink each loose object it packed                          *)
(*          -> (repack) remove each old pack: unlink .pack, then .idx      *)
(*   Readers look one object up the way PackBasedObjectStore.get_raw /     *)
(*   __contains__ do: cached packs (a pack whose file vanished is evicted  *)
(*   and the directory rescanned), one rescan if nothing was found, then   *)
(*   the loose file, and -- RetryAfterLooseMiss -- the packs once more.    *)
(*                                                                         *)
(* Every object of Objs is reachable here; unreachable ones are the        *)
(* business of ObjStoreGc below (sequential histories).                    *)
(***************************************************************************)
EXTENDS Integers, FiniteSets, Sequences, TLC

CONSTANTS Objs,                 \* e.g. {1, 2, 3}
          Readers,              \* e.g. {10, 11}
          InitLayouts,          \* set of [loose, packs] records to start from
          MaintOps,             \* subset of {"pack_loose", "repack"}
          RetryAfterLooseMiss,  \* TRUE: look in the packs again after the loose miss (git's reprepare)
          OldBeforeNew          \* TRUE: historical/mutant order: remove old copies before the new pack is visible

NewPack == 0                    \* id of the pack the maintainer creates; existing packs have ids > 0

VARIABLES loose, packs,
          mop, mpc, mset, mold,     \* maintainer: operation, pc, objects it packs, old packs to remove
          rpc, robj, rcache, rres, rresc, rgone, rpass,   \* readers
          everMissing               \* ghost, per reader: the object was unreadable at some instant of the lookup
vars == <<loose, packs, mop, mpc, mset, mold, rpc, robj, rcache, rres, rresc, rgone, rpass, everMissing>>

PackIds == DOMAIN packs
Visible(p) == packs[p].pack /\ packs[p].idx
Readable == loose \cup UNION {packs[p].objs : p \in {q \in PackIds : Visible(q)}}
Note == everMissing' = [r \in Readers |-> everMissing[r] \/ (rpc[r] \notin {"idle", "done"} /\ robj[r] \notin Readable')]

Init ==
    /\ \E l \in InitLayouts : loose = l.loose /\ packs = l.packs
    /\ mop \in MaintOps /\ mpc = "scan" /\ mset = {} /\ mold = {}
    /\ rpc = [r \in Readers |-> "idle"]
    /\ robj \in [Readers -> Objs]
    /\ rcache \in [Readers -> SUBSET {p \in PackIds : p # NewPack}]   \* what the reader's pack cache knows (warm or cold)
    /\ rres = [r \in Readers |-> "none"]
    /\ rresc = [r \in Readers |-> FALSE]
    /\ rgone = [r \in Readers |-> FALSE]
    /\ rpass = [r \in Readers |-> 1]
    /\ everMissing = [r \in Readers |-> FALSE]

\* ----------------------------------------------------------------- maintainer
MScan ==
    /\ mpc = "scan"
    /\ mset' = IF mop = "pack_loose" THEN loose ELSE Readable
    /\ mold' = IF mop = "repack" THEN {p \in PackIds : Visible(p) /\ p # NewPack} ELSE {}
    /\ mpc' = IF mset' = {} THEN "done" ELSE (IF OldBeforeNew THEN "unlink" ELSE "install_pack")
    /\ UNCHANGED <<loose, packs, mop, rpc, robj, rcache, rres, rresc, rgone, rpass, everMissing>>

MInstallPack ==                 \* os.rename(tmp, pack-X.pack)
    /\ mpc = "install_pack"
    /\ packs' = [packs EXCEPT ![NewPack] = [objs |-> mset, pack |-> TRUE, idx |-> FALSE]]
    /\ mpc' = "install_idx"
    /\ UNCHANGED <<loose, mop, mset, mold, rpc, robj, rcache, rres, rresc, rgone, rpass>>
    /\ Note

MInstallIdx ==                  \* GitFile(pack-X.idx) ... rename
    /\ mpc = "install_idx"
    /\ packs' = [packs EXCEPT ![NewPack].idx = TRUE]
    /\ mpc' = IF OldBeforeNew THEN "done" ELSE "unlink"
    /\ UNCHANGED <<loose, mop, mset, mold, rpc, robj, rcache, rres, rresc, rgone, rpass>>
    /\ Note

MUnlinkLoose ==                 \* delete_loose_object, one per step
    /\ mpc = "unlink"
    /\ IF mset \cap loose # {}
       THEN \E o \in mset \cap loose : loose' = loose \ {o} /\ UNCHANGED <<packs, mpc, mold>>
       ELSE IF mold # {}
            THEN \E p \in mold : /\ packs' = [packs EXCEPT ![p].pack = FALSE]      \* unlink .pack
                                 /\ mpc' = "unlink_idx" /\ mold' = {p} \cup mold /\ UNCHANGED loose
            ELSE UNCHANGED <<loose, packs, mold>> /\ mpc' = IF OldBeforeNew THEN "install_pack" ELSE "done"
    /\ UNCHANGED <<mop, mset, rpc, robj, rcache, rres, rresc, rgone, rpass>>
    /\ Note

MUnlinkIdx ==                   \* then its .idx
    /\ mpc = "unlink_idx"
    /\ \E p \in {q \in mold : ~packs[q].pack /\ packs[q].idx} :
          /\ packs' = [packs EXCEPT ![p].idx = FALSE]
          /\ mold' = mold \ {p}
    /\ mpc' = "unlink"
    /\ UNCHANGED <<loose, mop, mset, rpc, robj, rcache, rres, rresc, rgone, rpass>>
    /\ Note

\* ----------------------------------------------------------------- reader (one lookup)
RStart(r) ==
    /\ rpc[r] = "idle"
    /\ rpc' = [rpc EXCEPT ![r] = "packs"]
    /\ everMissing' = [everMissing EXCEPT ![r] = robj[r] \notin Readable]
    /\ UNCHANGED <<loose, packs, mop, mpc, mset, mold, robj, rcache, rres, rresc, rgone, rpass>>

\* search the cached packs.  A cached pack whose .pack vanished raises PackFileDisappeared: evict.
RPacks(r) ==
    /\ rpc[r] = "packs"
    /\ LET hit  == {p \in rcache[r] : packs[p].pack /\ robj[r] \in packs[p].objs}
           gone == {p \in rcache[r] : ~packs[p].pack}
       IN IF hit # {}
          THEN rres' = [rres EXCEPT ![r] = "hit"] /\ rpc' = [rpc EXCEPT ![r] = "done"] /\ UNCHANGED <<rcache, rgone>>
          ELSE /\ rcache' = [rcache EXCEPT ![r] = @ \ gone]
               /\ rgone' = [rgone EXCEPT ![r] = gone # {}]
               /\ rpc' = [rpc EXCEPT ![r] = "rescan"] /\ UNCHANGED rres
    /\ UNCHANGED <<loose, packs, mop, mpc, mset, mold, robj, rresc, rpass, everMissing>>

\* _update_pack_cache(): after a disappearance always; otherwise once
RRescan(r) ==
    /\ rpc[r] = "rescan"
    /\ LET after == IF rpass[r] = 1 THEN "loose" ELSE "miss" IN
       IF rgone[r] \/ ~rresc[r]
       THEN LET new == {p \in PackIds : Visible(p)} \ rcache[r] IN
            /\ rcache' = [rcache EXCEPT ![r] = @ \cup new]
            /\ rresc' = [rresc EXCEPT ![r] = TRUE]
            /\ rpc' = [rpc EXCEPT ![r] = IF rgone[r] \/ new # {} THEN "packs" ELSE after]
            /\ rgone' = [rgone EXCEPT ![r] = FALSE]
       ELSE rpc' = [rpc EXCEPT ![r] = after] /\ UNCHANGED <<rcache, rresc, rgone>>
    /\ UNCHANGED <<loose, packs, mop, mpc, mset, mold, robj, rres, rpass, everMissing>>

RLoose(r) ==
    /\ rpc[r] = "loose"
    /\ IF robj[r] \in loose
       THEN rres' = [rres EXCEPT ![r] = "hit"] /\ rpc' = [rpc EXCEPT ![r] = "done"] /\ UNCHANGED <<rpass, rresc>>
       ELSE IF RetryAfterLooseMiss
            \* the object may have been packed (and its loose file removed) since the packs were
            \* searched: search the packs once more, rescanning the directory (git's reprepare)
            THEN /\ rpc' = [rpc EXCEPT ![r] = "packs"] /\ rpass' = [rpass EXCEPT ![r] = 2]
                 /\ rresc' = [rresc EXCEPT ![r] = FALSE] /\ UNCHANGED rres
            ELSE rres' = [rres EXCEPT ![r] = "miss"] /\ rpc' = [rpc EXCEPT ![r] = "done"] /\ UNCHANGED <<rpass, rresc>>
    /\ UNCHANGED <<loose, packs, mop, mpc, mset, mold, robj, rcache, rgone, everMissing>>

RMiss(r) ==
    /\ rpc[r] = "miss"
    /\ rres' = [rres EXCEPT ![r] = "miss"] /\ rpc' = [rpc EXCEPT ![r] = "done"]
    /\ UNCHANGED <<loose, packs, mop, mpc, mset, mold, robj, rcache, rresc, rgone, rpass, everMissing>>

Next ==
    \/ MScan \/ MInstallPack \/ MInstallIdx \/ MUnlinkLoose \/ MUnlinkIdx
    \/ \E r \in Readers : RStart(r) \/ RPacks(r) \/ RRescan(r) \/ RLoose(r) \/ RMiss(r)

Spec == Init /\ [][Next]_vars

\* ----------------------------------------------------------------- properties (C10)
\* maintenance never makes an object unreadable (all of Objs are reachable here)
ReachablePreserved == Objs \subseteq Readable
\* a reader never reports "missing" for an object that existed throughout its lookup
NoSpuriousMiss == \A r \in Readers : rres[r] = "miss" => everMissing[r]
Terminates == <>(mpc = "done" /\ \A r \in Readers : rpc[r] = "done")
=============================================================================

SPECIFICATION Spec
CONSTANTS
  NameMask = 4095
  Family = "names"
  MaxKeys = 2
  MaxEdits = 1
  Defect = "none"
INVARIANT OrderInv
INVARIANT ShapeInv
CHECK_DEADLOCK FALSE

SPECIFICATION Spec
CONSTANTS
  Small = 80000
  Plain = FALSE
INVARIANT Lemma
CHECK_DEADLOCK FALSE

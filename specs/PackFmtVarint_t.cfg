SPECIFICATION Spec
CONSTANTS
  Small = 300000
  Plain = FALSE
INVARIANT Lemma
CHECK_DEADLOCK FALSE

SPECIFICATION TraceSpec
CONSTANTS
  TreeSet <- TreesTiny
  Ops <- OpsAll
  MaxLen = 12
  Prots <- AllProts
  FixDelete = TRUE
  FixPatch = TRUE
  CacheTrunc = TRUE
CHECK_DEADLOCK FALSE

SPECIFICATION Spec
CONSTANTS
  MaxN = 1
  LargeMsbOnly = TRUE
INVARIANT Lemma
CHECK_DEADLOCK FALSE

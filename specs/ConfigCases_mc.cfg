\* Model checking proper: with the repairs proposed for dulwich (all variant constants TRUE except the
\* alternative QuoteAnySpace) the three clauses of C20 are invariants of every value <= MaxLen over the
\* special-character alphabet.  The harness generates this configuration (and the ones for the spaces
\* "sub", "name") itself; this copy is for running TLC by hand:
\*   java -cp tla2tools.jar:CommunityModules-deps.jar tlc2.TLC -config ConfigCases_mc.cfg ConfigCases.tla
SPECIFICATION Spec
CONSTANTS
  Space = "val"
  MaxLen = 3
  QuoteSemi = TRUE
  CrRaw = TRUE
  QuoteAnySpace = FALSE
  ValueStripGit = TRUE
  HdrEscAware = TRUE
INVARIANT PropRoundTrip
INVARIANT PropInteropDG
INVARIANT PropInteropGD
CHECK_DEADLOCK FALSE

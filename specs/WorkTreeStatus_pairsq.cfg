SPECIFICATION Spec
CONSTANTS
  Paths <- PairPaths
  Trees <- PairTreesQ
  NewCells <- EditNew
  Contents <- EditContents
  MaxEdits = 2
  Acts <- PairActs
  ModeBlind = FALSE
  LinkBlind = FALSE
INVARIANT TypeOK
INVARIANT StatusExact
INVARIANT CleanIffEqual
INVARIANT Partition
INVARIANT RoundTrip
INVARIANT StageAllComplete
INVARIANT StageComplete
INVARIANT NormalCovers
PROPERTY StageAllAfterCheckout
CHECK_DEADLOCK FALSE

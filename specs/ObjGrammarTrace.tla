--------------------------- MODULE ObjGrammarTrace ---------------------------
(***************************************************************************)
(* TLC as the judge of real (field values, bytes) pairs -- code -> spec.   *)
(*                                                                         *)
(* One ndjson line per object: [tid, kind, c, obs].  c is the case in the  *)
(* shape ObjGrammar defines, with atoms given as byte tuples (identities,  *)
(* lines, hex ids, raw ids, chunks, names); obs is the byte tuple the      *)
(* implementation under judgement produced for these field values          *)
(* (dulwich's as_raw_string(), or the object C git wrote).  The verdict is *)
(* "ok", "illformed" (the case is outside the canonical domain: harness    *)
(* error) or "differs" with the first differing position.                  *)
(***************************************************************************)
EXTENDS ObjGrammar

EmptyTuple == <<>>
NoKinds == {}
Traces == ndJsonDeserialize(IOEnv.TRACE_FILE)

\* the tree case arrives as a sequence of entries
CaseOfTrace(t) == IF t.kind = "tree" THEN {t.c[i] : i \in 1..Len(t.c)} ELSE t.c

OK(k, c) == CASE k = "commit" -> CommitOK(c)
              [] k = "tag"    -> TagOK(c)
              [] k = "tree"   -> TreeOK(c)
              [] OTHER        -> TRUE

MinOf(a, b) == IF a < b THEN a ELSE b
FirstDiff(a, b) ==
    IF \E i \in 1..MinOf(Len(a), Len(b)) : a[i] # b[i]
    THEN CHOOSE i \in 1..MinOf(Len(a), Len(b)) : a[i] # b[i] /\ \A j \in 1..(i - 1) : a[j] = b[j]
    ELSE MinOf(Len(a), Len(b)) + 1

Judge(t) ==
    LET c == CaseOfTrace(t) IN
    IF ~OK(t.kind, c) THEN <<"illformed", 0>>
    ELSE LET e == Render(Ser(t.kind, c)) IN
         IF e = t.obs THEN <<"ok", 0>> ELSE <<"differs", FirstDiff(e, t.obs)>>

TraceInit ==
    /\ ix \in 1..Len(Traces)
    /\ kind = Traces[ix].kind
    /\ case = 0 /\ key = "" /\ toks = <<>> /\ strict = TRUE

Emit ==
    /\ case = 0
    /\ LET v == Judge(Traces[ix]) IN
         /\ PrintT(<<"VERDICT", Traces[ix].tid, v[1], v[2]>>)
         /\ toks' = v
    /\ case' = 1
    /\ UNCHANGED <<kind, ix, key, strict>>

TraceSpec == TraceInit /\ [][Emit]_vars
=============================================================================

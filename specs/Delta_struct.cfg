SPECIFICATION Spec
CONSTANTS
  Big = TRUE
  Only = {"hdrdst", "hdrsrc", "hdrtrunc", "copy3", "copy4", "far", "copytrunc", "insert", "zero", "overrun", "amplify", "edge", "hdrwrap"}
INVARIANT InModel
INVARIANT RefSatisfiesPost
CHECK_DEADLOCK FALSE

SPECIFICATION Spec
CONSTANTS
  Scen = "response"
  MaxChunks = 2
  Gen = TRUE
  EmptyIsFlush = FALSE
INVARIANT ConsumerExact
INVARIANT NeverStarved
INVARIANT EmitLeaf
CHECK_DEADLOCK FALSE

\* negative control: seeded model defect "TaggedAny"; TLC must report SenderSound violated
SPECIFICATION Spec
CONSTANTS
  NC = 2
  NTP = 3
  NT = 1
  MaxHeads = 2
  MaxWants = 1
  Modes = {"detailed"}
  IncTag = {TRUE}
  Thin = {FALSE}
  SFull = {FALSE}
  Forge = FALSE
  MaxInVain = 2
  AtomicNeg = TRUE
  PopAny = FALSE
  MaxDangle = 0
  Bug = "TaggedAny"
INVARIANT TypeOK
INVARIANT Antecedent
INVARIANT ReceiverComplete
INVARIANT NoLoss
INVARIANT SenderSound
INVARIANT WantValidation
INVARIANT ThinResolvable
INVARIANT Confluent
INVARIANT HavesSound
CHECK_DEADLOCK FALSE

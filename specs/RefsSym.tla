------------------------------- MODULE RefsSym -------------------------------
(***************************************************************************)
(* Updating a branch THROUGH the symbolic ref HEAD while HEAD is being     *)
(* re-pointed (C08, finding F59).  Design-level model of the three-actor   *)
(* history that RefsLin.tla rejects on the real code:                      *)
(*                                                                         *)
(*   u : set_if_equals(HEAD, Old -> New)      (refs.py: follow(HEAD), then *)
(*        lock the resolved branch, compare, write, unlock)                *)
(*   s : set_symbolic_ref(HEAD, n)            (lock HEAD, write, unlock)   *)
(*   d : refs[m] = Old                        (lock m, write, unlock)      *)
(*                                                                         *)
(* Initially HEAD -> m, m = 1, n = 2, Old = 3, New = 4: u can only succeed *)
(* on m after d, and on n never.  If s RETURNED before d WAS CALLED, every *)
(* sequential order consistent with real time has s before d, so HEAD      *)
(* points at n by the time m = Old: u must fail.  CasViaHeadSound says     *)
(* exactly that (it is the linearizability condition specialised to this   *)
(* scenario, see DESIGN.md 10.2 F59).                                      *)
(*                                                                         *)
(* LockHead = FALSE : dulwich today -- u never touches HEAD.lock.          *)
(* LockHead = TRUE  : the repair C git uses -- u holds HEAD.lock from      *)
(*                    before it resolves HEAD until it has written.        *)
(***************************************************************************)
EXTENDS Naturals

CONSTANT LockHead

Old == 3
New == 4

VARIABLES head,      \* "m" or "n": what HEAD points at
          val,       \* [name -> value]
          lockH,     \* owner of HEAD.lock ("" = free)
          lockR,     \* [name -> owner of <name>.lock]
          pc,        \* [actor -> control state]
          tgt,       \* the name u resolved HEAD to
          res,       \* u's result: "", "ok", "failed", "locked"
          sBeforeD   \* ghost: s had returned when d was called
vars == <<head, val, lockH, lockR, pc, tgt, res, sBeforeD>>

Init ==
    /\ head = "m" /\ val = [x \in {"m", "n"} |-> IF x = "m" THEN 1 ELSE 2]
    /\ lockH = "" /\ lockR = [x \in {"m", "n"} |-> ""]
    /\ pc = [a \in {"u", "s", "d"} |-> "start"]
    /\ tgt = "" /\ res = "" /\ sBeforeD = FALSE

\* ------------------------------------------------------------------ u: set_if_equals(HEAD, Old, New)
UTakeHead ==            \* repaired protocol only
    /\ LockHead /\ pc["u"] = "start"
    /\ IF lockH = "" THEN lockH' = "u" /\ pc' = [pc EXCEPT !["u"] = "resolve"] /\ res' = res
       ELSE lockH' = lockH /\ pc' = [pc EXCEPT !["u"] = "done"] /\ res' = "locked"
    /\ UNCHANGED <<head, val, lockR, tgt, sBeforeD>>
UResolve ==             \* follow(HEAD)
    /\ pc["u"] = (IF LockHead THEN "resolve" ELSE "start")
    /\ tgt' = head /\ pc' = [pc EXCEPT !["u"] = "lock"]
    /\ UNCHANGED <<head, val, lockH, lockR, res, sBeforeD>>
ULock ==                \* GitFile(<branch>, "wb")
    /\ pc["u"] = "lock"
    /\ IF lockR[tgt] = "" THEN lockR' = [lockR EXCEPT ![tgt] = "u"] /\ pc' = [pc EXCEPT !["u"] = "compare"] /\ res' = res
       ELSE lockR' = lockR /\ pc' = [pc EXCEPT !["u"] = "unlockH"] /\ res' = "locked"
    /\ UNCHANGED <<head, val, lockH, tgt, sBeforeD>>
UCompareWrite ==        \* read again under the lock; write and rename if equal, abort otherwise
    /\ pc["u"] = "compare"
    /\ IF val[tgt] = Old THEN val' = [val EXCEPT ![tgt] = New] /\ res' = "ok"
       ELSE val' = val /\ res' = "failed"
    /\ lockR' = [lockR EXCEPT ![tgt] = ""]
    /\ pc' = [pc EXCEPT !["u"] = "unlockH"]
    /\ UNCHANGED <<head, lockH, tgt, sBeforeD>>
UUnlockHead ==
    /\ pc["u"] = "unlockH"
    /\ lockH' = (IF lockH = "u" THEN "" ELSE lockH)
    /\ pc' = [pc EXCEPT !["u"] = "done"]
    /\ UNCHANGED <<head, val, lockR, tgt, res, sBeforeD>>

\* ------------------------------------------------------------------ s: set_symbolic_ref(HEAD, n)
SLock ==
    /\ pc["s"] = "start"
    /\ IF lockH = "" THEN lockH' = "s" /\ pc' = [pc EXCEPT !["s"] = "write"]
       ELSE lockH' = lockH /\ pc' = [pc EXCEPT !["s"] = "done"]       \* FileLocked: a legitimate loser
    /\ UNCHANGED <<head, val, lockR, tgt, res, sBeforeD>>
SWrite ==
    /\ pc["s"] = "write"
    /\ head' = "n" /\ lockH' = "" /\ pc' = [pc EXCEPT !["s"] = "done"]
    /\ UNCHANGED <<val, lockR, tgt, res, sBeforeD>>

\* ------------------------------------------------------------------ d: refs[m] = Old
DLock ==
    /\ pc["d"] = "start"
    /\ sBeforeD' = (pc["s"] = "done" /\ head = "n")        \* d is called now: had s returned (successfully)?
    /\ IF lockR["m"] = "" THEN lockR' = [lockR EXCEPT !["m"] = "d"] /\ pc' = [pc EXCEPT !["d"] = "write"]
       ELSE lockR' = lockR /\ pc' = [pc EXCEPT !["d"] = "done"]
    /\ UNCHANGED <<head, val, lockH, tgt, res>>
DWrite ==
    /\ pc["d"] = "write"
    /\ val' = [val EXCEPT !["m"] = Old] /\ lockR' = [lockR EXCEPT !["m"] = ""] /\ pc' = [pc EXCEPT !["d"] = "done"]
    /\ UNCHANGED <<head, lockH, tgt, res, sBeforeD>>

Next == UTakeHead \/ UResolve \/ ULock \/ UCompareWrite \/ UUnlockHead \/ SLock \/ SWrite \/ DLock \/ DWrite
Spec == Init /\ [][Next]_vars

\* a conditional update issued on HEAD succeeds only if, at one moment, HEAD's target held the expected value
CasViaHeadSound == ~(res = "ok" /\ tgt = "m" /\ sBeforeD)
NoLockLeft == (\A a \in {"u", "s", "d"} : pc[a] = "done") => (lockH = "" /\ \A x \in {"m", "n"} : lockR[x] = "")
=============================================================================

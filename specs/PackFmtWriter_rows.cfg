SPECIFICATION Spec
CONSTANTS
  MaxObjs = 2
  UIds <- USmall
  RowSet <- RowsAll
  AllowDup = FALSE
  DedupInput = FALSE
  OfsPlain = FALSE
  EmitMod = 1
  EmitRes = 0
INVARIANT PrefixInv
INVARIANT PackInv
INVARIANT IterInv
INVARIANT IdxInv
INVARIANT GitInv
INVARIANT CountInv
CHECK_DEADLOCK FALSE

------------------------------ MODULE RefsFiles ------------------------------
(***************************************************************************)
(* The files ref backend (dulwich/refs.py:DiskRefsContainer) for ONE ref   *)
(* stored loose and/or packed, at the grain of the file-system calls that  *)
(* other processes can observe, as a refinement of an atomic ref cell.     *)
(*                                                                         *)
(*   loose, packed : value in the loose file / in packed-refs (0 = none)   *)
(*   refLock, packLock : holder of <ref>.lock / packed-refs.lock           *)
(*   abs : ghost -- the abstract value of the ref; changed only at the     *)
(*         linearization point of a successful update                      *)
(*   Vis == IF loose # 0 THEN loose ELSE packed  -- what a reader resolves *)
(*                                                                         *)
(* Operations (one per actor, op[a] = [k, old, new]):                      *)
(*   "cas"    set_if_equals(ref, old, new)  (old = -1: unconditional)      *)
(*   "add"    add_if_new(ref, new)                                         *)
(*   "del"    remove_if_equals(ref, old)    (old = -1: unconditional)      *)
(*   "read"   refs[ref]                                                    *)
(*   "pack"   pack_refs(all=True)                                          *)
(* Switches reproduce historical orders (negative controls):               *)
(*   PruneBeforeWrite : add_packed_refs unlinks the loose ref before the   *)
(*                      new packed-refs is in place, without the ref lock  *)
(*   LooseBeforePacked: remove_if_equals unlinks the loose file first      *)
(*   StaleSnapshot    : set_if_equals compares with the packed-refs        *)
(*                      snapshot taken before the lock                     *)
(***************************************************************************)
EXTENDS Integers, FiniteSets, Sequences, TLC

CONSTANTS Actors, Menus, Inits, PruneBeforeWrite, LooseBeforePacked, StaleSnapshot, StaleShortcut

None == 0 - 1

VARIABLES loose, packed, refLock, packLock, abs,
          op,      \* per actor: [k, old, new]
          pc,      \* per actor: control state
          snap,    \* per actor: packed-refs snapshot taken before the lock (set_if_equals)
          val,     \* per actor: value read (pack: value to pack; read: result)
          res,     \* per actor: result (1 / 0 / value read / -2 = exception)
          seen,    \* per actor (read): abstract values current during the read so far
          last     \* [a, ev]: observable event of the step just taken ("tau" = internal)

vars == <<loose, packed, refLock, packLock, abs, op, pc, snap, val, res, seen, last>>

Vis == IF loose # 0 THEN loose ELSE packed
Ev(a, e) == last' = [a |-> a, ev |-> e]
Tau(a) == Ev(a, "tau")
\* every step that changes abs extends the "seen" set of every read in progress
See(newabs) == seen' = [b \in Actors |-> IF pc[b] \in {"r_loose", "r_packed"} THEN seen[b] \cup {newabs} ELSE seen[b]]
Goto(a, l) == pc' = [pc EXCEPT ![a] = l]
Ret(a, r) == res' = [res EXCEPT ![a] = r]

Init ==
    /\ \E i \in Inits : loose = i[1] /\ packed = i[2]
    /\ refLock = None /\ packLock = None
    /\ abs = Vis
    /\ op \in Menus
    /\ pc = [a \in Actors |-> "start"]
    /\ snap = [a \in Actors |-> 0]
    /\ val = [a \in Actors |-> 0]
    /\ res = [a \in Actors |-> -9]
    /\ seen = [a \in Actors |-> {}]
    /\ last = [a |-> None, ev |-> "init"]

\* ----------------------------------------------------------------- set_if_equals / add_if_new
Start(a) ==
    /\ pc[a] = "start"
    /\ CASE op[a].k = "cas"  -> Goto(a, "c_snap")
         [] op[a].k = "add"  -> Goto(a, "a_follow")
         [] op[a].k = "del"  -> Goto(a, "d_lock")
         [] op[a].k = "read" -> Goto(a, "r_loose")
         [] op[a].k = "pack" -> Goto(a, "p_read")
    /\ seen' = [seen EXCEPT ![a] = {abs}]
    /\ Tau(a)
    /\ UNCHANGED <<loose, packed, refLock, packLock, abs, op, snap, val, res>>

CasSnap(a) ==                   \* packed_refs = self.get_packed_refs()   (before the lock)
    /\ pc[a] = "c_snap"
    /\ snap' = [snap EXCEPT ![a] = packed]
    /\ Goto(a, "c_lock") /\ Tau(a)
    /\ UNCHANGED <<loose, packed, refLock, packLock, abs, op, val, res, seen>>

LockRef(a, from, to) ==
    /\ pc[a] = from
    /\ IF refLock = None
       THEN refLock' = a /\ Goto(a, to) /\ Ev(a, "lock_ref") /\ UNCHANGED res
       ELSE UNCHANGED refLock /\ Goto(a, "done") /\ Ev(a, "lock_ref_fail") /\ Ret(a, -2)
    /\ UNCHANGED <<loose, packed, packLock, abs, op, snap, val, seen>>

\* the lock file cannot be created for another reason than EEXIST: a concurrent delete removed
\* the (now empty) parent directory between ensure_dir_exists and the open -> FileNotFoundError.
\* The operation fails without any effect.
LockRefErr(a, from) ==
    /\ pc[a] = from
    /\ Goto(a, "done") /\ Ev(a, "lock_ref_err") /\ Ret(a, -2)
    /\ UNCHANGED <<loose, packed, refLock, packLock, abs, op, snap, val, seen>>

CasCompare(a) ==                \* under the lock: loose file, else packed-refs (re-read, or the stale snapshot)
    /\ pc[a] = "c_cmp"
    /\ LET orig == IF loose # 0 THEN loose ELSE (IF StaleSnapshot THEN snap[a] ELSE packed)
           \* the "already has this value" shortcut: packed-refs re-read under the lock (fix d0a4507), or the
           \* snapshot taken before the lock (StaleShortcut: the code before that fix, F62)
           cur  == IF loose # 0 THEN loose ELSE (IF StaleShortcut THEN snap[a] ELSE packed)
       IN IF op[a].old # -1 /\ orig # op[a].old
          THEN Goto(a, "unlock_ref") /\ Ret(a, 0)
          ELSE IF cur # 0 /\ cur = op[a].new
               THEN Goto(a, "unlock_ref") /\ Ret(a, 1)      \* already there: abort, report success
               ELSE Goto(a, "c_write") /\ UNCHANGED res
    /\ Tau(a)
    /\ UNCHANGED <<loose, packed, refLock, packLock, abs, op, snap, val, seen>>

CasWrite(a) ==                  \* os.replace(ref.lock, ref): linearization point, releases the lock
    /\ pc[a] = "c_write"
    /\ loose' = op[a].new /\ abs' = op[a].new /\ See(op[a].new)
    /\ refLock' = None
    /\ Goto(a, "done") /\ Ret(a, 1) /\ Ev(a, "rename_ref")
    /\ UNCHANGED <<packed, packLock, op, snap, val>>

AddFollow(a) ==                 \* follow(): contents is not None -> False, before any lock
    /\ pc[a] = "a_follow"
    /\ IF Vis # 0 THEN Goto(a, "done") /\ Ret(a, 0) ELSE Goto(a, "a_lock") /\ UNCHANGED res
    /\ Tau(a)
    /\ UNCHANGED <<loose, packed, refLock, packLock, abs, op, snap, val, seen>>

AddCheck(a) ==                  \* under the lock: os.path.exists(file) or name in packed refs
    /\ pc[a] = "a_chk"
    /\ IF loose # 0 \/ packed # 0
       THEN Goto(a, "unlock_ref") /\ Ret(a, 0)
       ELSE Goto(a, "c_write") /\ UNCHANGED res
    /\ Tau(a)
    /\ UNCHANGED <<loose, packed, refLock, packLock, abs, op, snap, val, seen>>

UnlockRef(a) ==                 \* f.abort(): os.remove(ref.lock)
    /\ pc[a] = "unlock_ref"
    /\ refLock' = IF refLock = a THEN None ELSE refLock
    /\ Goto(a, "done") /\ Ev(a, "unlock_ref")
    /\ UNCHANGED <<loose, packed, packLock, abs, op, snap, val, res, seen>>

\* ----------------------------------------------------------------- remove_if_equals
DelCompare(a) ==
    /\ pc[a] = "d_cmp"
    /\ LET orig == IF loose # 0 THEN loose ELSE packed IN
       IF op[a].old # -1 /\ orig # op[a].old
       THEN Goto(a, "unlock_ref") /\ Ret(a, 0)
       ELSE Goto(a, IF LooseBeforePacked THEN "d_loose" ELSE "d_packed") /\ UNCHANGED res
    /\ Tau(a)
    /\ UNCHANGED <<loose, packed, refLock, packLock, abs, op, snap, val, seen>>

DelPacked(a) ==                 \* _remove_packed_ref: only if the name is packed; takes packed-refs.lock
    /\ pc[a] = "d_packed"
    /\ IF packed = 0
       THEN /\ Goto(a, IF LooseBeforePacked THEN "d_done" ELSE "d_loose") /\ Tau(a)
            /\ UNCHANGED <<packLock, res>>
       ELSE IF packLock = None
            THEN packLock' = a /\ Goto(a, "d_packed_w") /\ Ev(a, "lock_packed") /\ UNCHANGED res
            ELSE UNCHANGED packLock /\ Goto(a, "unlock_ref") /\ Ev(a, "lock_packed_fail") /\ Ret(a, -2)
    /\ UNCHANGED <<loose, packed, refLock, abs, op, snap, val, seen>>

DelPackedAbort(a) ==            \* re-read under the lock: the name is not packed any more -> f.abort()
    /\ pc[a] = "d_packed_w" /\ packed = 0
    /\ packLock' = None
    /\ Goto(a, IF LooseBeforePacked THEN "d_done" ELSE "d_loose") /\ Ev(a, "unlock_packed")
    /\ UNCHANGED <<loose, packed, refLock, abs, op, snap, val, res, seen>>

DelPackedWrite(a) ==            \* rewrite packed-refs without the name; rename; lock released
    /\ pc[a] = "d_packed_w" /\ packed # 0
    /\ packed' = 0
    /\ abs' = IF loose = 0 THEN 0 ELSE abs      \* linearization point iff nothing loose shadows it
    /\ See(IF loose = 0 THEN 0 ELSE abs)
    /\ packLock' = None
    /\ Goto(a, IF LooseBeforePacked THEN "d_done" ELSE "d_loose") /\ Ev(a, "rename_packed")
    /\ UNCHANGED <<loose, refLock, op, snap, val, res>>

DelLoose(a) ==                  \* os.remove(ref) if it exists
    /\ pc[a] = "d_loose"
    /\ IF loose = 0
       THEN Tau(a) /\ UNCHANGED <<loose, abs, seen>>
       ELSE /\ loose' = 0 /\ Ev(a, "unlink_ref")
            /\ abs' = IF LooseBeforePacked THEN (IF packed = 0 THEN 0 ELSE abs) ELSE 0
            /\ See(IF LooseBeforePacked THEN (IF packed = 0 THEN 0 ELSE abs) ELSE 0)
    /\ Goto(a, IF LooseBeforePacked THEN "d_packed" ELSE "d_done")
    /\ UNCHANGED <<packed, refLock, packLock, op, snap, val, res>>

DelDone(a) ==
    /\ pc[a] = "d_done"
    /\ Goto(a, "unlock_ref") /\ Ret(a, 1) /\ Tau(a)
    /\ UNCHANGED <<loose, packed, refLock, packLock, abs, op, snap, val, seen>>

\* ----------------------------------------------------------------- read
ReadLoose(a) ==
    /\ pc[a] = "r_loose"
    /\ IF loose # 0 THEN Goto(a, "done") /\ Ret(a, loose) ELSE Goto(a, "r_packed") /\ UNCHANGED res
    /\ Tau(a)
    /\ UNCHANGED <<loose, packed, refLock, packLock, abs, op, snap, val, seen>>

ReadPacked(a) ==
    /\ pc[a] = "r_packed"
    /\ Goto(a, "done") /\ Ret(a, packed) /\ Tau(a)
    /\ UNCHANGED <<loose, packed, refLock, packLock, abs, op, snap, val, seen>>

\* ----------------------------------------------------------------- pack_refs
PackRead(a) ==                  \* sha = self[ref], BEFORE packed-refs.lock is taken
    /\ pc[a] = "p_read"
    /\ val' = [val EXCEPT ![a] = Vis]
    /\ Goto(a, "p_lock")          \* other refs (tags ...) are packed too: the lock is taken even if this ref is absent
    /\ Tau(a)
    /\ UNCHANGED <<loose, packed, refLock, packLock, abs, op, snap, res, seen>>

PackLock(a) ==
    /\ pc[a] = "p_lock"
    /\ IF packLock = None
       THEN packLock' = a /\ Goto(a, IF PruneBeforeWrite THEN "p_prune_old" ELSE "p_write") /\ Ev(a, "lock_packed") /\ UNCHANGED res
       ELSE UNCHANGED packLock /\ Goto(a, "done") /\ Ev(a, "lock_packed_fail") /\ Ret(a, -2)
    /\ UNCHANGED <<loose, packed, refLock, abs, op, snap, val, seen>>

PackPruneOld(a) ==              \* historical: os.remove(loose) under packed-refs.lock only, before the rename
    /\ pc[a] = "p_prune_old"
    /\ loose' = IF val[a] # 0 THEN 0 ELSE loose
    /\ IF loose # 0 /\ val[a] # 0 THEN Ev(a, "unlink_ref") ELSE Tau(a)
    /\ Goto(a, "p_write")
    /\ UNCHANGED <<packed, refLock, packLock, abs, op, snap, val, res, seen>>

PackWrite(a) ==                 \* packed-refs rewritten with the value read earlier; rename; unlock
    /\ pc[a] = "p_write"
    /\ packed' = IF val[a] # 0 THEN val[a] ELSE packed    \* other entries are re-read under the lock
    /\ packLock' = None
    /\ Goto(a, IF PruneBeforeWrite \/ val[a] = 0 THEN "p_done" ELSE "p_prune_lock") /\ Ev(a, "rename_packed")
    /\ UNCHANGED <<loose, refLock, abs, op, snap, val, res, seen>>

PackPruneLock(a) ==             \* _prune_loose_ref: take the ref's own lock (skip if busy)
    /\ pc[a] = "p_prune_lock"
    /\ IF refLock = None
       THEN refLock' = a /\ Goto(a, "p_prune") /\ Ev(a, "lock_ref")
       ELSE UNCHANGED refLock /\ Goto(a, "p_done") /\ Ev(a, "lock_ref_fail")
    /\ UNCHANGED <<loose, packed, packLock, abs, op, snap, val, res, seen>>

PackPruneLockErr(a) ==          \* the ref's directory is gone (deleted meanwhile): nothing to prune
    /\ pc[a] = "p_prune_lock"
    /\ Goto(a, "p_done") /\ Ev(a, "lock_ref_err")
    /\ UNCHANGED <<loose, packed, refLock, packLock, abs, op, snap, val, res, seen>>

PackPrune(a) ==                 \* remove the loose file only if it still holds the packed value
    /\ pc[a] = "p_prune"
    /\ IF loose = val[a] THEN loose' = 0 /\ Ev(a, "unlink_ref") ELSE UNCHANGED loose /\ Tau(a)
    /\ Goto(a, "p_unlock")
    /\ UNCHANGED <<packed, refLock, packLock, abs, op, snap, val, res, seen>>

PackUnlock(a) ==
    /\ pc[a] = "p_unlock"
    /\ refLock' = None
    /\ Goto(a, "p_done") /\ Ev(a, "unlock_ref")
    /\ UNCHANGED <<loose, packed, packLock, abs, op, snap, val, res, seen>>

PackDone(a) ==
    /\ pc[a] = "p_done"
    /\ Goto(a, "done") /\ Ret(a, 1) /\ Tau(a)
    /\ UNCHANGED <<loose, packed, refLock, packLock, abs, op, snap, val, seen>>

ActorNext(a) ==
    \/ Start(a) \/ CasSnap(a) \/ LockRef(a, "c_lock", "c_cmp") \/ CasCompare(a) \/ CasWrite(a)
    \/ AddFollow(a) \/ LockRef(a, "a_lock", "a_chk") \/ AddCheck(a) \/ UnlockRef(a)
    \/ LockRef(a, "d_lock", "d_cmp") \/ DelCompare(a) \/ DelPacked(a) \/ DelPackedAbort(a) \/ DelPackedWrite(a) \/ DelLoose(a) \/ DelDone(a)
    \/ ReadLoose(a) \/ ReadPacked(a)
    \/ LockRefErr(a, "c_lock") \/ LockRefErr(a, "a_lock") \/ LockRefErr(a, "d_lock")
    \/ PackRead(a) \/ PackLock(a) \/ PackPruneOld(a) \/ PackWrite(a) \/ PackPruneLock(a) \/ PackPruneLockErr(a) \/ PackPrune(a)
    \/ PackUnlock(a) \/ PackDone(a)

Next == \E a \in Actors : ActorNext(a)
Spec == Init /\ [][Next]_vars
FairSpec == Spec /\ \A a \in Actors : WF_vars(ActorNext(a))

\* ----------------------------------------------------------------- properties (C08)
\* refinement: what any reader resolves is the abstract value, at every instant
VisIsAbs == Vis = abs

\* a conditional update takes effect only at a state where its condition holds
CasSound == \A a \in Actors :
    (pc[a] = "c_write" /\ op[a].k = "cas" /\ op[a].old # -1) => abs = op[a].old
\* ... and reports success without writing only at a state where the ref already holds the new value
ShortcutSound == \A a \in Actors :
    (pc[a] = "unlock_ref" /\ op[a].k = "cas" /\ res[a] = 1) => abs = op[a].new
AddSound == \A a \in Actors : (pc[a] = "c_write" /\ op[a].k = "add") => abs = 0
DelSound == \A a \in Actors :
    (pc[a] \in {"d_packed", "d_packed_w", "d_loose"} /\ op[a].old # -1 /\ res[a] = -9) => (abs = op[a].old \/ abs = 0)

\* a reader returns a value that was current at some instant of the read
ReadSound == \A a \in Actors : (pc[a] = "done" /\ op[a].k = "read") => res[a] \in seen[a]

\* an operation that raised left no lock behind and had no effect of its own
NoLockLeft == (\A a \in Actors : pc[a] = "done") => (refLock = None /\ packLock = None)

Terminates == <>(\A a \in Actors : pc[a] = "done")

View == <<loose, packed, refLock, packLock, abs, op, pc, snap, val, res, seen>>
=============================================================================

-------------------------------- MODULE Crash --------------------------------
(***************************************************************************)
(* Crash consistency of repository-changing operations (C09).              *)
(*                                                                         *)
(* One ndjson line per recorded operation:                                 *)
(*  [tid, deps: <<set of object ids directly referenced by object i>>,     *)
(*   pre: <<value per ref>>, post: <<value per ref>>, head: ref index the  *)
(*   symbolic HEAD points to (0 = none), preclo: objects reachable before, *)
(*   states: <<s>>]                                                        *)
(* where the k-th state is the abstract projection of the repository       *)
(* directory after the k-th file-system call of the operation (= the       *)
(* state a process crash at that boundary leaves), optionally followed by  *)
(* power-loss variants of it (non-durable data dropped):                   *)
(*  s = [k, mode, loose: set of valid loose objects, packs: <<[pack, idx,  *)
(*       objs]>>, lrefs: <<loose value per ref>>, prefs: <<packed value    *)
(*       per ref>>, filesok: BOOLEAN]                                      *)
(* Values: 0 = absent, -3 = unparsable content, >0 = object id.            *)
(*                                                                         *)
(* A state with mode "retry" is a crash state continued by running the     *)
(* same operation again (as it is, or after the stale lock files were      *)
(* removed): it must satisfy RecoveryInv except that refs may have moved   *)
(* on from the first attempt's old/new values.                             *)
(* RecoveryInv must hold in every such state.  StepInv relates each state  *)
(* to its predecessor: the ordering obligations (object before ref, pack   *)
(* before index, new copy before old copy is removed, packed-refs before   *)
(* the loose ref it supersedes is removed).                                *)
(***************************************************************************)
EXTENDS Integers, Sequences, FiniteSets, TLC, Json, IOUtils

Traces == ndJsonDeserialize(IOEnv.TRACE_FILE)

VARIABLES tid, i, verdicts
vars == <<tid, i, verdicts>>

T == Traces[tid]
S(k) == T.states[k]
Refs == 1..Len(T.pre)
Objs == 1..Len(T.deps)
ToSet(s) == {s[j] : j \in 1..Len(s)}

Readable(s) == ToSet(s.loose) \cup UNION {ToSet(p.objs) : p \in {q \in ToSet(s.packs) : q.pack /\ q.idx}}
Vis(s, r) == IF s.lrefs[r] # 0 THEN s.lrefs[r] ELSE s.prefs[r]

RECURSIVE Clo(_, _)
Clo(todo, acc) == IF todo = {} THEN acc
                  ELSE LET o == CHOOSE x \in todo : TRUE
                           new == (ToSet(T.deps[o]) \ acc) \ {o}
                       IN Clo((todo \ {o}) \cup new, acc \cup {o})
Closure(v) == IF v <= 0 THEN {} ELSE Clo({v}, {})

\* ----------------------------------------------------------------- invariant of every crash state
RefOldOrNew(s)   == \A r \in Refs : Vis(s, r) \in {T.pre[r], T.post[r]}
RefsReadable(s)  == \A r \in Refs : Closure(Vis(s, r)) \subseteq Readable(s)
PrePreserved(s)  == ToSet(T.preclo) \subseteq Readable(s)
FilesOk(s)       == s.filesok

Clause(s) ==
    IF ~FilesOk(s) THEN "HalfWrittenFileVisible"
    ELSE IF s.mode # "retry" /\ ~RefOldOrNew(s) THEN "RefNeitherOldNorNew"
    ELSE IF ~RefsReadable(s) THEN "RefNamesMissingObject"
    ELSE IF ~PrePreserved(s) THEN "ReachableObjectLost"
    ELSE "ok"

\* ----------------------------------------------------------------- ordering obligations (process-crash states only)
\* a ref may only start naming v in a state where v's closure is already readable
ObjectBeforeRef(s, t) == \A r \in Refs : Vis(t, r) # Vis(s, r) => Closure(Vis(t, r)) \subseteq Readable(s)
\* an object stops being readable in one place only if it is still readable elsewhere, or was never needed
NewBeforeOld(s, t) == \A o \in Readable(s) \ Readable(t) :
                          o \notin ToSet(T.preclo) /\ \A r \in Refs : o \notin Closure(Vis(t, r))
\* a loose ref is removed only when packed-refs (already in place) carries the same value, or the ref is being deleted
PackedBeforeLoose(s, t) == \A r \in Refs : (s.lrefs[r] # 0 /\ t.lrefs[r] = 0) => Vis(t, r) \in {s.lrefs[r], T.post[r]}

StepClause(s, t) ==
    IF ~ObjectBeforeRef(s, t) THEN "RefBeforeObject"
    ELSE IF ~NewBeforeOld(s, t) THEN "OldCopyRemovedFirst"
    ELSE IF ~PackedBeforeLoose(s, t) THEN "LooseRefRemovedBeforePacked"
    ELSE "ok"

Init == tid \in 1..Len(Traces) /\ i = 1 /\ verdicts = <<>>

Step ==
    /\ i <= Len(T.states)
    /\ LET s == S(i)
           c == Clause(s)
           prev == IF i > 1 /\ s.mode = "process" THEN
                      LET js == {j \in 1..(i - 1) : S(j).mode = "process"} IN
                      IF js = {} THEN 0 ELSE CHOOSE j \in js : \A j2 \in js : j2 <= j
                   ELSE 0
           sc == IF prev = 0 THEN "ok" ELSE StepClause(S(prev), s)
       IN verdicts' = IF c = "ok" /\ sc = "ok" THEN verdicts
                      ELSE Append(verdicts, <<i, IF c # "ok" THEN c ELSE sc>>)
    /\ i' = i + 1
    /\ UNCHANGED tid

Finish ==
    /\ i = Len(T.states) + 1
    /\ PrintT(<<"CRASH", T.tid, verdicts>>)
    /\ i' = i + 1
    /\ UNCHANGED <<tid, verdicts>>

Next == Step \/ Finish
Spec == Init /\ [][Next]_vars
=============================================================================

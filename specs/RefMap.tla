------------------------------- MODULE RefMap -------------------------------
(***************************************************************************)
(* The sequential contract of a git ref store (dulwich RefsContainer,      *)
(* refs.py:500-607), as PURE OPERATORS over a ref map.  No variables are   *)
(* declared here: state machines (RefMapSeq, RefMapFiles, RefMapTrace, and *)
(* the concurrent specifications of C08 / C06) EXTEND or INSTANCE this     *)
(* module and apply the operators to whatever map they keep.               *)
(*                                                                         *)
(* A ref name is a sequence of path components, <<"refs","heads","a">>;    *)
(* HEAD is <<"HEAD">>.  File-versus-directory collisions are then plain    *)
(* sequence prefixes.  An object id is a string.  A ref map is a function  *)
(* Names -> Entry, an entry being absent, a direct id, or a symbolic ref   *)
(* to another name.                                                        *)
(*                                                                         *)
(* Every update operator returns [res, m]: the value the call returns /    *)
(* the exception class it raises, and the map afterwards.                  *)
(*   res = "True" | "False"       as returned by the *_if_equals/add calls *)
(*         "None"                 set_symbolic_ref returns nothing         *)
(*         "Refused"              the name collides (file vs directory)    *)
(*                                with an existing ref: any OSError or     *)
(*                                False, and no effect                     *)
(*         "NoEffect"             delete of a name that cannot exist       *)
(*                                because it collides: anything, no effect *)
(*         "KeyError" | "SymrefLoop"                                        *)
(***************************************************************************)
EXTENDS Naturals, Sequences, FiniteSets

CONSTANTS Names,      \* the universe of ref names (sequences of strings)
          Values,     \* object ids (strings), Zero and AnyOld excluded
          MaxDepth    \* refs read while following a chain before giving up (5 in dulwich and git)

Zero == "ZERO"        \* the all-zero id as old value: "the ref must not exist"
AnyOld == "ANY"        \* None as old value: unconditional
SymContent == "SYM"   \* what a conditional operation compares with when the ref is symbolic
NoName == <<>>

Absent    == [k |-> "absent", v |-> "",  t |-> NoName]
Direct(v) == [k |-> "direct", v |-> v,   t |-> NoName]
Sym(t)    == [k |-> "sym",    v |-> "",  t |-> t]
Entries   == {Absent} \cup {Direct(v) : v \in Values} \cup {Sym(t) : t \in Names}
RefMaps   == [Names -> Entries]
EmptyMap  == [n \in Names |-> Absent]

EntryOf(m, n) == IF n \in DOMAIN m THEN m[n] ELSE Absent
Present(m)    == {n \in DOMAIN m : m[n].k # "absent"}

\* ------------------------------------------------------------- file/directory collisions
IsStrictPrefix(a, b) == Len(a) < Len(b) /\ SubSeq(b, 1, Len(a)) = a
Collide(a, b)        == IsStrictPrefix(a, b) \/ IsStrictPrefix(b, a)
Blockers(m, n)       == {b \in Present(m) : Collide(b, n)}
NoCollision(m)       == \A a, b \in Present(m) : ~Collide(a, b)

\* ------------------------------------------------------------- reading
\* refs.py follow(): read the name; stop at a missing ref; give up once more than MaxDepth
\* refs have been read (also when the last one read is direct); otherwise continue at the target.
RECURSIVE FollowR(_, _, _)
FollowR(m, n, d) ==
    LET e == EntryOf(m, n) IN
    IF e.k = "absent"      THEN [res |-> "missing", last |-> n, v |-> ""]
    ELSE IF d + 1 > MaxDepth THEN [res |-> "loop",    last |-> n, v |-> ""]
    ELSE IF e.k = "direct" THEN [res |-> "ok",      last |-> n, v |-> e.v]
    ELSE FollowR(m, e.t, d + 1)
Follow(m, n) == FollowR(m, n, 0)

\* refs[name]: the id at the end of the chain, KeyError, or SymrefLoop
Get(m, n) ==
    LET f == Follow(m, n) IN
    IF f.res = "ok" THEN [res |-> "ok", v |-> f.v]
    ELSE IF f.res = "missing" THEN [res |-> "KeyError", v |-> ""]
    ELSE [res |-> "SymrefLoop", v |-> ""]
GetStr(m, n) == LET g == Get(m, n) IN IF g.res = "ok" THEN g.v ELSE g.res

Contains(m, n) == EntryOf(m, n).k # "absent"                    \* name in refs (not followed)
Resolvable(m)  == {n \in DOMAIN m : Get(m, n).res = "ok"}
AsDict(m)      == [n \in Resolvable(m) |-> Get(m, n).v]          \* as_dict(): unresolvable refs are skipped
Symrefs(m)     == [n \in {x \in DOMAIN m : m[x].k = "sym"} |-> m[n].t]   \* get_symrefs()

\* what a conditional operation compares its old value with (the ref is NOT followed here)
Content(m, n) ==
    LET e == EntryOf(m, n) IN
    IF e.k = "absent" THEN Zero ELSE IF e.k = "direct" THEN e.v ELSE SymContent

\* the ref an update of `n` really writes: the end of the symref chain (which may be a
\* missing ref: an unborn branch), or n itself when the chain does not end
RealName(m, n) == LET f == Follow(m, n) IN IF f.res = "loop" THEN n ELSE f.last

\* ------------------------------------------------------------- updating
Res(r, m) == [res |-> r, m |-> m]

\* set_if_equals(n, old, v); old = AnyOld: unconditional (refs[n] = v); old = Zero: must not exist
SetIfEquals(m, n, old, v) ==
    LET r == RealName(m, n) IN
    IF Blockers(m, r) # {} THEN Res("Refused", m)
    ELSE IF old # AnyOld /\ Content(m, r) # old THEN Res("False", m)
    ELSE Res("True", [m EXCEPT ![r] = Direct(v)])
Set(m, n, v) == SetIfEquals(m, n, AnyOld, v)

\* add_if_new(n, v): only if the end of the chain does not exist
AddIfNew(m, n, v) ==
    LET f == Follow(m, n) IN
    IF f.res = "loop" THEN Res("SymrefLoop", m)
    ELSE IF f.res = "ok" THEN Res("False", m)
    ELSE IF Blockers(m, f.last) # {} THEN Res("Refused", m)
    ELSE Res("True", [m EXCEPT ![f.last] = Direct(v)])

\* remove_if_equals(n, old): symbolic refs are NOT followed; old = AnyOld: del refs[n]
RemoveIfEquals(m, n, old) ==
    IF Blockers(m, n) # {} THEN Res("NoEffect", m)
    ELSE IF old # AnyOld /\ Content(m, n) # old THEN Res("False", m)
    ELSE Res("True", [m EXCEPT ![n] = Absent])
Remove(m, n) == RemoveIfEquals(m, n, AnyOld)

\* set_symbolic_ref(n, t): unconditional, n itself is (over)written
SetSymbolic(m, n, t) ==
    IF Blockers(m, n) # {} THEN Res("Refused", m)
    ELSE Res("None", [m EXCEPT ![n] = Sym(t)])

\* ------------------------------------------------------------- calls as data
Call(op, n, old, v, t) == [op |-> op, n |-> n, old |-> old, v |-> v, t |-> t]
OldValues == Values \cup {Zero}
Calls ==
    {Call("Set", n, AnyOld, v, NoName) : n \in Names, v \in Values}
    \cup {Call("SetIfEquals", n, o, v, NoName) : n \in Names, o \in OldValues, v \in Values}
    \cup {Call("AddIfNew", n, AnyOld, v, NoName) : n \in Names, v \in Values}
    \cup {Call("Remove", n, AnyOld, "", NoName) : n \in Names}
    \cup {Call("RemoveIfEquals", n, o, "", NoName) : n \in Names, o \in OldValues}
    \cup {Call("SetSymbolic", n, AnyOld, "", t) : n \in Names, t \in Names}

Apply(m, c) ==
    CASE c.op = "Set"            -> Set(m, c.n, c.v)
      [] c.op = "SetIfEquals"    -> SetIfEquals(m, c.n, c.old, c.v)
      [] c.op = "AddIfNew"       -> AddIfNew(m, c.n, c.v)
      [] c.op = "Remove"         -> Remove(m, c.n)
      [] c.op = "RemoveIfEquals" -> RemoveIfEquals(m, c.n, c.old)
      [] c.op = "SetSymbolic"    -> SetSymbolic(m, c.n, c.t)

\* The ref whose file/record the call creates, overwrites or deletes.
Target(m, c) ==
    IF c.op \in {"Set", "SetIfEquals"} THEN RealName(m, c.n)
    ELSE IF c.op = "AddIfNew" THEN Follow(m, c.n).last
    ELSE c.n

\* The part of the contract every backend shares (files, in-memory, reftable): calls that do not
\* write through a symbolic ref and do not touch a colliding name.
ThroughSymref(m, c) == c.op \in {"Set", "SetIfEquals", "AddIfNew"} /\ EntryOf(m, c.n).k = "sym"
Colliding(m, c)     == Blockers(m, Target(m, c)) # {}
Common(m, c)        == ~ThroughSymref(m, c) /\ ~Colliding(m, c)

\* ------------------------------------------------------------- universes (cfg files cannot hold <<>>)
nHEAD == <<"HEAD">>
nA    == <<"refs", "heads", "a">>
nAB   == <<"refs", "heads", "a", "b">>
nB    == <<"refs", "heads", "b">>
nT    == <<"refs", "tags", "t">>
Names3 == {nHEAD, nA, nAB}
Names4 == {nHEAD, nA, nAB, nT}
Names5 == {nHEAD, nA, nAB, nB, nT}
=============================================================================

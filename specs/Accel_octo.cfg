SPECIFICATION Spec
CONSTANTS
  N = 5
  Refs = {"a", "b"}
  MaxDepth = 6
  MaxPacks = 2
  WithCopies = TRUE
  WithIdx = FALSE
  MidxChecksPack = TRUE
  CgChecksStore = TRUE
  CgWriterCloses = TRUE
  BitmapChecksum = TRUE
  BitmapClosedPack = TRUE
  BitmapExcludeExact = TRUE
  ProvidersAgree = TRUE
  DeleteDropsPacked = TRUE
  BitmapHonoursShallow = TRUE
  CgOctopusOk = TRUE
  MaxParents = 3
  GraftsBeforeGraph = TRUE
  IdxLargeFrom31 = TRUE
  CgHonoursShallow = TRUE
  Focus = "octo"
INVARIANT TypeOK
INVARIANT Transparent
INVARIANT Exact
INVARIANT RefsTransparent
INVARIANT StaleRejected
VIEW view
CHECK_DEADLOCK FALSE

------------------------------ MODULE PackAttack ------------------------------
(***************************************************************************)
(* C04 (a) -- structural attacks on a pack and the readers that meet them. *)
(*                                                                         *)
(* A pack is a sequence of entries; entry i is meant to be object i:       *)
(*   <<0, 0>>  full object                                                 *)
(*   <<1, b>>  OFS_DELTA, b >= 1: distance to the start of entry b (b < i) *)
(*                        b =  0: distance 0 (the entry itself)            *)
(*                        b = -1: lands strictly inside an earlier entry   *)
(*                                (inside the 12-byte header for entry 1)  *)
(*                        b = -2: beyond the start of the pack (negative)  *)
(*             (a forward distance is not expressible: the encoding is an  *)
(*              unsigned value that is subtracted)                         *)
(*   <<2, b>>  REF_DELTA,  b in 1..n: the name of object b (earlier, later *)
(*                         or the entry itself; cycles of any length arise *)
(*                         from these), b = n+1: an object already in the  *)
(*                         store (S), b = n+2: an object nobody has (M)    *)
(* plus container damage: header count n-1 / n / n+1, trailer good / bad,  *)
(* one entry whose declared size is smaller / larger than its payload.     *)
(* Every delta is a *valid* delta from the content of the base it names.   *)
(*                                                                         *)
(* The reader is a transcription of dulwich/pack.py:                       *)
(*   scan      PackData.iter_unpacked / PackStreamReader.read_objects +    *)
(*             DeltaChainIterator.record (_pending_ofs, _pending_ref,      *)
(*             _full_ofs), trailer handling of the stream reader,          *)
(*             PackData.check() where the path calls it                    *)
(*   walk      DeltaChainIterator._walk_all_chains / _follow_chain /       *)
(*             _walk_ref_chains / _ensure_no_pending / assert not pending  *)
(*   random    Pack.get_raw -> Pack.resolve_object's base walk through the *)
(*             pack index (mode 7)                                         *)
(* configured per ingestion path (ModeRec).                                *)
(*                                                                         *)
(* Properties: Terminates (bounded number of steps, no stuck state),       *)
(* ErrorOrAll, FailedInvisible, TrailerChecked, ValidAccepted (vacuity).   *)
(***************************************************************************)
EXTENDS Integers, Sequences, FiniteSets, TLC

CONSTANTS MinN, MaxN,   \* number of entries of the enumerated packs
          AttrMode,     \* 0: intact container, 1: at most one container damage, 2: every combination
          Modes,        \* reader configurations explored (subset of 1..7)
          CycleGuard,   \* Pack.resolve_object notices a revisited entry (repaired) / only "based on itself" (as is)
          MemAtomic,    \* MemoryObjectStore publishes objects after the whole pack inflated (repaired) / one by one (as is)
          DiskVerify,   \* DiskObjectStore.add_pack commit() checks the trailer (repaired) / rewrites it (as is)
          Emit          \* print one line per finished case (consumed by the harness)

ASSUME MinN \in 1..MaxN /\ AttrMode \in 0..2 /\ Modes \subseteq 1..7

(* ----------------------------------------------------------------------- *)
(* reader configurations                                                    *)
ModeRec(m) ==
  CASE m = 1 -> [name |-> "disk.add_thin_pack", stream |-> TRUE,  verify |-> TRUE,       thin |-> TRUE,  resolve |-> "chain",  nodelta |-> FALSE, atomic |-> TRUE,      raw |-> TRUE]
    [] m = 2 -> [name |-> "disk.add_pack",      stream |-> FALSE, verify |-> DiskVerify, thin |-> TRUE,  resolve |-> "chain",  nodelta |-> FALSE, atomic |-> TRUE,      raw |-> TRUE]
    [] m = 3 -> [name |-> "mem.add_pack",       stream |-> FALSE, verify |-> TRUE,       thin |-> TRUE,  resolve |-> "chain",  nodelta |-> FALSE, atomic |-> MemAtomic, raw |-> TRUE]
    [] m = 4 -> [name |-> "mem.add_thin_pack",  stream |-> TRUE,  verify |-> TRUE,       thin |-> TRUE,  resolve |-> "chain",  nodelta |-> FALSE, atomic |-> MemAtomic, raw |-> TRUE]
    [] m = 5 -> [name |-> "add_pack_data",      stream |-> FALSE, verify |-> FALSE,      thin |-> FALSE, resolve |-> "chain",  nodelta |-> TRUE,  atomic |-> TRUE,      raw |-> FALSE]
    [] m = 6 -> [name |-> "stream",             stream |-> TRUE,  verify |-> TRUE,       thin |-> FALSE, resolve |-> "none",   nodelta |-> FALSE, atomic |-> TRUE,      raw |-> TRUE]
    [] m = 7 -> [name |-> "direct",             stream |-> FALSE, verify |-> FALSE,      thin |-> FALSE, resolve |-> "random", nodelta |-> FALSE, atomic |-> TRUE,      raw |-> FALSE]

(* ----------------------------------------------------------------------- *)
(* the space of packs                                                       *)
AllEntries == {<<0, 0>>} \cup {<<1, b>> : b \in (-2)..(MaxN - 1)} \cup {<<2, b>> : b \in 1..(MaxN + 2)}

EntryOK(i, n, e) ==
  \/ e = <<0, 0>>
  \/ e[1] = 1 /\ e[2] \in (-2)..(i - 1)
  \/ e[1] = 2 /\ e[2] \in 1..(n + 2)

Packs(n) == {p \in [1..n -> AllEntries] : \A i \in 1..n : EntryOK(i, n, p[i])}

Intact == [hdr |-> 0, tr |-> 1, szat |-> 0, szdir |-> 0]
AttrAll(n) == [hdr : {-1, 0, 1}, tr : {0, 1}, szat : {0}, szdir : {0}]
                \cup [hdr : {-1, 0, 1}, tr : {0, 1}, szat : 1..n, szdir : {-1, 1}]
Damage(a) == (IF a.hdr # 0 THEN 1 ELSE 0) + (IF a.tr = 0 THEN 1 ELSE 0) + (IF a.szat # 0 THEN 1 ELSE 0)
Attrs(n) == IF AttrMode = 0 THEN {Intact}
            ELSE IF AttrMode = 1 THEN {a \in AttrAll(n) : Damage(a) <= 1}
            ELSE AttrAll(n)

VARIABLES
  case,      \* [mode, n, e, hdr, tr, szat, szdir, start]: the input, constant during a run
  pc, i,     \* control state, scan position
  pofs,      \* _pending_ofs: base position (entry number, or -1 / -2 for a position that is no entry start) -> entries waiting
  pref,      \* _pending_ref: object name -> entries waiting
  fulls,     \* _full_ofs
  todo,      \* the stack of _follow_chain
  extq, extdone,   \* _walk_ref_chains: children of the external base still to follow
  yielded,   \* sequence of <<entry, base it was resolved against>>
  vis,       \* objects of the pack visible in the store
  err, steps,
  cur, visited,    \* random access walk
  pass, cnt,       \* 1: ingestion; 2: _complete_pack's validation of the installed pack.  cnt: entries the header declares
  reported

vars == <<case, pc, i, pofs, pref, fulls, todo, extq, extdone, yielded, vis, err, steps, cur, visited, pass, cnt, reported>>

M == ModeRec(case.mode)
N == case.n
Count == case.n + case.hdr
Kind(j) == case.e[j][1]
Arg(j) == case.e[j][2]
SId == case.n + 1
MId == case.n + 2
Malformed(j) == case.szat = j \/ (Kind(j) = 1 /\ Arg(j) = 0)
ExtUsed == \E k \in 1..Len(yielded) : yielded[k][2] = SId

Init ==
  /\ \E m \in Modes, n \in MinN..MaxN :
       \E p \in Packs(n), a \in Attrs(n), s \in (IF m = 7 THEN 1..n ELSE {0}) :
          case = [mode |-> m, n |-> n, e |-> p, hdr |-> a.hdr, tr |-> a.tr, szat |-> a.szat, szdir |-> a.szdir, start |-> s]
  /\ pc = "check" /\ i = 1
  /\ pofs = [k \in (-2)..MaxN |-> <<>>]
  /\ pref = [k \in 1..(MaxN + 2) |-> <<>>]
  /\ fulls = <<>> /\ todo = <<>> /\ extq = <<>> /\ extdone = FALSE
  /\ yielded = <<>> /\ vis = {} /\ err = "" /\ steps = 0
  /\ cur = 0 /\ visited = {} /\ reported = FALSE
  /\ pass = 1 /\ cnt = case.n + case.hdr

FailCore(label) ==
  /\ pc' = "error" /\ err' = label
  /\ vis' = IF M.atomic THEN {} ELSE vis
  /\ UNCHANGED <<i, pofs, pref, fulls, todo, extq, extdone, yielded, cur, pass, cnt>>
Fail(label) == FailCore(label) /\ UNCHANGED visited

(* PackData.__init__ / Pack.check_length_and_checksum / PackData.check() before anything is read *)
Check ==
  /\ pc = "check"
  /\ IF M.resolve = "random"
       THEN IF Count # N THEN Fail("length")       \* assert len(index) == len(data)
            ELSE /\ pc' = "rwalk" /\ cur' = case.start
                 /\ UNCHANGED <<i, pofs, pref, fulls, todo, extq, extdone, yielded, vis, err, visited, pass, cnt>>
       ELSE IF ~M.stream /\ M.verify /\ case.tr = 0 THEN Fail("checksum")
            ELSE /\ pc' = "scan"
                 /\ UNCHANGED <<i, pofs, pref, fulls, todo, extq, extdone, yielded, vis, err, cur, visited, pass, cnt>>

(* one entry read and recorded, or the end of the declared entries *)
Streaming == M.stream /\ pass = 1      \* the validation pass reads the installed file, not a stream

(* the end of the declared entries.  A stream reader keeps the last 20 bytes it took off the wire as the
   trailer and hashes the rest: if fewer entries are declared than the stream holds, the check fails --
   unless read-ahead happened to swallow the whole rest of the stream, in which case the genuine trailer
   matches everything before it and the undeclared entries are silently dropped (both outcomes are
   possible, depending on how the transport chunks the data) *)
ScanEnd ==
  /\ pc = "scan" /\ i > cnt
  /\ \/ /\ Streaming /\ (cnt < N \/ case.tr = 0)
        /\ Fail("checksum")
     \/ /\ ~Streaming \/ case.tr = 1
        /\ pc' = (IF M.resolve = "none" THEN "done" ELSE "walkfull")
        /\ UNCHANGED <<i, pofs, pref, fulls, todo, extq, extdone, yielded, vis, err, cur, visited, pass, cnt>>

(* one entry read and recorded *)
ScanEntry ==
  /\ pc = "scan" /\ i <= cnt
  /\ IF i > N THEN Fail("garbage")                             \* the trailer is parsed as an entry
     ELSE IF Malformed(i) THEN Fail(IF case.szat = i THEN "zlib" ELSE "ofs0")
     ELSE IF M.nodelta /\ Kind(i) # 0 THEN Fail("assert-delta")
     ELSE /\ i' = i + 1
          /\ fulls' = IF Kind(i) = 0 THEN Append(fulls, i) ELSE fulls
          /\ pofs' = IF Kind(i) = 1 THEN [pofs EXCEPT ![Arg(i)] = Append(@, i)] ELSE pofs
          /\ pref' = IF Kind(i) = 2 THEN [pref EXCEPT ![Arg(i)] = Append(@, i)] ELSE pref
          /\ yielded' = IF M.resolve = "none" THEN Append(yielded, <<i, 0>>) ELSE yielded
          /\ UNCHANGED <<pc, todo, extq, extdone, vis, err, cur, visited, pass, cnt>>

Scan == ScanEnd \/ ScanEntry

(* _follow_chain: pop, resolve, yield, push whatever was waiting for this offset / this name *)
ChainStep ==
  /\ pc \in {"walkfull", "walkref"} /\ todo # <<>>
  /\ LET t == todo[Len(todo)]
         unblocked == pofs[t.e] \o pref[t.e]
     IN /\ yielded' = IF pass = 1 THEN Append(yielded, <<t.e, t.via>>) ELSE yielded
        /\ pofs' = [pofs EXCEPT ![t.e] = <<>>]
        /\ pref' = [pref EXCEPT ![t.e] = <<>>]
        /\ todo' = SubSeq(todo, 1, Len(todo) - 1) \o [k \in 1..Len(unblocked) |-> [e |-> unblocked[k], via |-> t.e]]
        /\ vis' = IF M.atomic \/ pass = 2 THEN vis ELSE vis \cup {t.e}
  /\ UNCHANGED <<pc, i, fulls, extq, extdone, err, cur, visited, pass, cnt>>

WalkFull ==
  /\ pc = "walkfull" /\ todo = <<>>
  /\ IF fulls # <<>>
       THEN /\ todo' = <<[e |-> Head(fulls), via |-> 0]>> /\ fulls' = Tail(fulls) /\ UNCHANGED pc
       ELSE /\ pc' = "walkref" /\ UNCHANGED <<todo, fulls>>
  /\ UNCHANGED <<i, pofs, pref, extq, extdone, yielded, vis, err, cur, visited, pass, cnt>>

(* _walk_ref_chains: the only name the store can resolve is S *)
WalkRef ==
  /\ pc = "walkref" /\ todo = <<>>
  /\ IF ~extdone
       THEN /\ extdone' = TRUE
            /\ extq' = IF M.thin THEN pref[SId] ELSE <<>>
            /\ pref' = IF M.thin THEN [pref EXCEPT ![SId] = <<>>] ELSE pref
            /\ UNCHANGED <<pc, todo>>
       ELSE IF extq # <<>>
       THEN /\ todo' = <<[e |-> Head(extq), via |-> SId]>> /\ extq' = Tail(extq)
            /\ UNCHANGED <<pc, pref, extdone>>
       ELSE /\ pc' = "final" /\ UNCHANGED <<todo, extq, pref, extdone>>
  /\ UNCHANGED <<i, pofs, fulls, yielded, vis, err, cur, visited, pass, cnt>>

(* _ensure_no_pending, then `assert not self._pending_ofs`, then the caller installs / returns *)
Final ==
  /\ pc = "final"
  /\ IF \E k \in DOMAIN pref : pref[k] # <<>> THEN Fail("unresolved")
     ELSE IF \E k \in DOMAIN pofs : pofs[k] # <<>> THEN Fail("assert-pending-ofs")
     ELSE IF pass = 1 /\ case.mode \in {1, 2} /\ ExtUsed /\ cnt < N
       THEN \* extend_pack appended the base after the undeclared rest of the file and raised the count by one:
            \* the validation of the installed pack reads that rest as the next entry
            /\ pass' = 2 /\ cnt' = cnt + 1 /\ pc' = "scan" /\ i' = 1
            /\ fulls' = <<>> /\ todo' = <<>> /\ extq' = <<>> /\ extdone' = FALSE
            /\ UNCHANGED <<pofs, pref, yielded, vis, err, cur, visited>>
       ELSE /\ pc' = "done" /\ vis' = {yielded[k][1] : k \in 1..Len(yielded)}
            /\ UNCHANGED <<i, pofs, pref, fulls, todo, extq, extdone, yielded, err, cur, visited, pass, cnt>>

(* Pack.resolve_object: walk from the requested entry towards a non-delta base *)
RStep ==
  /\ pc = "rwalk"
  /\ visited' = visited \cup {cur}
  /\ IF Malformed(cur) THEN FailCore(IF case.szat = cur THEN "zlib" ELSE "ofs0")
     ELSE IF Kind(cur) = 0
       THEN /\ pc' = "done" /\ vis' = {case.start} /\ yielded' = <<<<case.start, cur>>>>
            /\ UNCHANGED <<i, pofs, pref, fulls, todo, extq, extdone, err, cur, pass, cnt>>
     ELSE IF Kind(cur) = 1
       THEN IF Arg(cur) >= 1
              THEN /\ cur' = Arg(cur)
                   /\ UNCHANGED <<pc, i, pofs, pref, fulls, todo, extq, extdone, yielded, vis, err, pass, cnt>>
              ELSE FailCore(IF Arg(cur) = -1 THEN "garbage" ELSE "assert-offset")
     ELSE IF Arg(cur) > N THEN FailCore("keyerror")                 \* not in the index, no resolve_ext_ref
     ELSE IF Arg(cur) = cur THEN FailCore("unresolved-self")        \* "object is based on itself"
     ELSE IF CycleGuard /\ Arg(cur) \in visited THEN FailCore("cycle")
     ELSE /\ cur' = Arg(cur)
          /\ UNCHANGED <<pc, i, pofs, pref, fulls, todo, extq, extdone, yielded, vis, err, pass, cnt>>

Step == Check \/ Scan \/ ChainStep \/ WalkFull \/ WalkRef \/ Final \/ RStep

Mask(S) == LET f[T \in SUBSET S] == IF T = {} THEN 0 ELSE LET x == CHOOSE x \in T : TRUE IN 2 ^ (x - 1) + f[T \ {x}]
           IN f[S]
Flat(n) == [k \in 1..(2 * n) |-> case.e[(k + 1) \div 2][IF k % 2 = 1 THEN 1 ELSE 2]]

Report ==
  /\ Emit /\ pc \in {"done", "error"} /\ ~reported
  /\ PrintT(ToString(<<"PA", case.mode, case.n, Flat(case.n), case.hdr, case.tr, case.szat, case.szdir, case.start,
                       IF pc = "done" THEN 1 ELSE 0, Mask(vis), Len(yielded), err>>))
  /\ reported' = TRUE
  /\ UNCHANGED <<case, pc, i, pofs, pref, fulls, todo, extq, extdone, yielded, vis, err, steps, cur, visited, pass, cnt>>

Next == \/ Step /\ steps' = steps + 1 /\ UNCHANGED <<case, reported>>
        \/ Report

Spec == Init /\ [][Next]_vars

(* ----------------------------------------------------------------------- *)
(* properties                                                               *)
StepBound == 8 * MaxN + 16
Terminates == /\ steps <= StepBound
              /\ pc \notin {"done", "error"} => ENABLED Step

RECURSIVE Resolvable(_, _, _)
Resolvable(j, fuel, thin) ==
  /\ fuel > 0 /\ j <= Count /\ ~Malformed(j)
  /\ \/ Kind(j) = 0
     \/ Kind(j) = 1 /\ Arg(j) >= 1 /\ Resolvable(Arg(j), fuel - 1, thin)
     \/ Kind(j) = 2 /\ Arg(j) <= N /\ Arg(j) # j /\ Resolvable(Arg(j), fuel - 1, thin)
     \/ Kind(j) = 2 /\ Arg(j) = SId /\ thin

IntendedBase(j) == IF Kind(j) = 0 THEN 0 ELSE Arg(j)

(* a walk that ends without error has yielded every declared entry exactly once, each against the base it names *)
ErrorOrAll ==
  pc = "done" =>
    IF M.resolve = "chain"
      THEN /\ Len(yielded) = Count
           /\ {yielded[k][1] : k \in 1..Len(yielded)} = 1..Count
           /\ \A k \in 1..Len(yielded) : yielded[k][2] = IntendedBase(yielded[k][1])
           /\ \A j \in 1..Count : Resolvable(j, N + 1, M.thin)
           /\ vis = 1..Count
    ELSE IF M.resolve = "none"
      THEN Len(yielded) = Count /\ Count <= N /\ \A j \in 1..Count : ~Malformed(j)
    ELSE Resolvable(case.start, N + 1, FALSE)

(* a failed ingestion leaves nothing of the pack visible *)
FailedInvisible == pc = "error" => vis = {}

(* a path that takes the raw pack never accepts one whose trailer does not match *)
TrailerChecked == (pc = "done" /\ M.raw) => case.tr = 1

(* vacuity guard: an undamaged, well-founded pack is accepted *)
ValidAccepted ==
  (pc = "error" /\ M.resolve = "chain") =>
     ~(case.hdr = 0 /\ case.tr = 1 /\ case.szat = 0 /\ (\A j \in 1..N : Resolvable(j, N + 1, M.thin))
       /\ (M.nodelta => \A j \in 1..N : Kind(j) = 0))
=============================================================================

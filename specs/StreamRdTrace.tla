--------------------------- MODULE StreamRdTrace ---------------------------
(***************************************************************************)
(* Batch validation of executions of the real ReceivableProtocol against   *)
(* StreamRd.  One ndjson line per execution: [tid, stream, ev], the events *)
(* in the format of StreamRd's history:                                    *)
(*   <<"op", t, n>>                      an operation starts               *)
(*   <<"rx", _, asked, k>>               _recv(asked) returned k bytes      *)
(*   <<"ret", st, buffered, 0, kind, d>> it ended: status, unread bytes in *)
(*                                        _rbuf, kind of result, result    *)
(* The machine of StreamRd is driven by the events (its internal steps run *)
(* in between).  A step of the real code that is not a step of the machine *)
(* is drift (shape).  The verdict comes from the property clauses only:    *)
(* every result the real code returned is compared with the oracle `want`  *)
(* (the PktLine reference applied to the bytes not consumed yet).          *)
(***************************************************************************)
EXTENDS StreamRd, IOUtils

Traces == ndJsonDeserialize(IOEnv.TRACE_FILE)

VARIABLES tid, l, verdict, failAt, driftAt
tv == <<tid, l, verdict, failAt, driftAt>>
tvars == <<vars, tid, l, verdict, failAt, driftAt>>
Evs == Traces[tid].ev

TraceInit ==
    /\ tid \in 1..Len(Traces)
    /\ l = 1 /\ verdict = "ok" /\ failAt = 0 /\ driftAt = 0
    /\ stream = Traces[tid].stream
    /\ pos = 0 /\ rb = <<>> /\ ra = [set |-> FALSE, b |-> <<>>]
    /\ pc = "idle" /\ cur = Op("none", 0) /\ rd = [size |-> 0, got |-> <<>>] /\ cont = "top" /\ hdrn = 0
    /\ nops = 0 /\ halted = FALSE
    /\ logical = stream /\ want = NoRes /\ last = NoRes /\ hist = <<>>

Internal == pc \in {"rd_begin", "rd_done", "pkt_ra", "rv_begin", "un"}
InternalStep == Internal /\ (RdBegin \/ RdDone \/ PktRa \/ RvBegin \/ Unread) /\ UNCHANGED tv

Mark == IF driftAt = 0 THEN l ELSE driftAt

\* the result the real code returned, against the oracle
RetClause(e) ==
    LET st == e[2]  k == e[5]  d == e[6] IN
    IF st \notin {"ok", "hangup", "proterr"} THEN "TotalDecoder"
    ELSE IF want.st = "ok" THEN
         IF st # "ok" THEN "RoundTrip"
         ELSE IF want.k = "some"
              THEN (IF k = "some" /\ Len(d) <= cur.n /\ d = Take(want.d, Len(d)) /\ (want.d # <<>> => d # <<>>)
                    THEN "ok" ELSE "RoundTrip")
              ELSE (IF want.k = "-" \/ (k = want.k /\ d = want.d) THEN "ok" ELSE "RoundTrip")
    ELSE IF st = "ok" /\ ~(want.st = "proterr" /\ P!Decode1(logical).st = "frame") THEN "TotalDecoder"
    ELSE "ok"
RetShape(e) == pc = "idle" /\ last.st = e[2] /\ Len(rb) = e[3]
               /\ ((e[2] = "ok" /\ cur.t # "unread") => (last.k = e[5] /\ (e[5] \in {"bytes", "some", "data"} => last.d = e[6])))

Consume ==
    /\ ~Internal /\ l <= Len(Evs)
    /\ LET e == Evs[l] IN
       IF e[1] = "op" THEN
            LET o == Op(e[2], e[3]) IN
            /\ IF pc = "idle" /\ ENABLED Start(o) THEN Start(o) /\ driftAt' = driftAt
               ELSE UNCHANGED vars /\ driftAt' = Mark
            /\ UNCHANGED <<verdict, failAt>>
       ELSE IF e[1] = "rx" THEN
            /\ IF pc = "rd_loop" /\ ENABLED RdRecv(e[4])
               THEN RdRecv(e[4]) /\ driftAt' = IF e[3] = rd.size - Len(rd.got) THEN driftAt ELSE Mark
               ELSE IF pc = "rv_wire" /\ ENABLED RvRecv(e[4])
               THEN RvRecv(e[4]) /\ driftAt' = IF e[3] = RBuf THEN driftAt ELSE Mark
               ELSE UNCHANGED vars /\ driftAt' = Mark
            /\ UNCHANGED <<verdict, failAt>>
       ELSE \* "ret"
            /\ UNCHANGED vars
            /\ LET c == RetClause(e) IN
               /\ verdict' = IF verdict = "ok" THEN c ELSE verdict
               /\ failAt' = IF verdict = "ok" /\ c # "ok" THEN l ELSE failAt
            /\ driftAt' = IF RetShape(e) THEN driftAt ELSE Mark
    /\ l' = l + 1
    /\ UNCHANGED tid

Finish ==
    /\ ~Internal /\ l = Len(Evs) + 1
    /\ PrintT(<<"VERDICT", Traces[tid].tid, verdict, failAt, driftAt>>)
    /\ l' = l + 1
    /\ UNCHANGED <<vars, tid, verdict, failAt, driftAt>>

TraceNext == InternalStep \/ Consume \/ Finish
TraceSpec == TraceInit /\ [][TraceNext]_tvars
=============================================================================

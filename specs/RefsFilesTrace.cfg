SPECIFICATION TraceSpec
CONSTANTS
  Actors = {0, 1, 2}
  Menus = {}
  Inits = {}
  PruneBeforeWrite = FALSE
  LooseBeforePacked = FALSE
  StaleSnapshot = FALSE
  StaleShortcut = FALSE
CHECK_DEADLOCK FALSE

------------------------- MODULE WorkTreeStatusBridge -------------------------
(***************************************************************************)
(* Ties the flat maps of WorkTreeStatus to the tree semantics of TreeDiff   *)
(* (property C12, reused read-only): over a small universe TLC checks that  *)
(*   (1) the tree built from a map identifies the map (Build is injective   *)
(*       on valid listings, and flattening it gives the listing back) --    *)
(*       this is what lets WorkTreeStatus use the map itself as "tree id";  *)
(*   (2) the staged classes of status (StagedAdd / StagedDel / StagedMod)   *)
(*       are exactly the add / delete / modify entries of the tree diff     *)
(*       HEAD tree -> index tree with change_type_same (a file that became  *)
(*       a link is one "modify", as Index.changes_from_tree reports it).    *)
(* Every pair of valid maps over the universe is an initial state.          *)
(***************************************************************************)
EXTENDS TreeDiff

\* WorkTreeStatus is instantiated for its operators only (its variables are not used)
CONSTANT BCells       \* the cells of the universe (cfg: BCells <- CellsQ | CellsT)
VARIABLES m1, m2
W == INSTANCE WorkTreeStatus WITH Paths <- {}, Trees <- {}, NewCells <- {}, Contents <- {}, MaxEdits <- 0, Acts <- {},
                                  ModeBlind <- FALSE, LinkBlind <- FALSE,
                                  head <- m1, index <- m2, wd <- m2, rep <- {}, n <- 0, last <- {}

\* names as byte strings: a = 97, d = 100, b = 98, x = 120
BName(s) == CASE s = "a" -> <<97>> [] s = "d" -> <<100>> [] s = "b" -> <<98>> [] s = "x" -> <<120>> [] s = "c" -> <<99>>
BPath(p) == [j \in DOMAIN p |-> BName(p[j])]
Id(c) == IF c = 1 THEN "one" ELSE IF c = 2 THEN "two" ELSE "three"
Listing(m) == {[path |-> BPath(p), mode |-> m[p].k, id |-> Id(m[p].c), tree |-> <<>>] : p \in W!Present(m)}

U == {<<"a">>, <<"a", "x">>, <<"d", "b">>, <<"d", "c">>}
CellsT == {W!Cell("F", 1), W!Cell("F", 2), W!Cell("X", 1), W!Cell("L", 1)}
CellsQ == {W!Cell("F", 1), W!Cell("X", 2), W!Cell("L", 1)}
Maps == {m \in [U -> BCells \cup {W!NoCell}] : W!Valid(m)}

Init == m1 \in Maps /\ m2 \in Maps
Next == UNCHANGED <<m1, m2>>
Spec == Init /\ [][Next]_<<m1, m2>>

CTS == Flags(FALSE, FALSE, TRUE)
DiffPaths(d, t) == {ChangePath(d[j]) : j \in {j \in DOMAIN d : d[j].type = t}}
BSet(S) == {BPath(p) : p \in S}

TreeIdentifiesMap ==
    /\ Valid(Listing(m1))
    /\ Flatten(Build(Listing(m1)), <<>>) = Listing(m1)
    /\ (Build(Listing(m1)) = Build(Listing(m2))) <=> (m1 = m2)

StagedIsTreeDiff ==
    LET d == DiffSeq(Listing(m1), Listing(m2), CTS) IN
    /\ DiffPaths(d, "add") = BSet(W!StagedAdd(m1, m2))
    /\ DiffPaths(d, "delete") = BSet(W!StagedDel(m1, m2))
    /\ DiffPaths(d, "modify") = BSet(W!StagedMod(m1, m2))
    /\ \A j \in DOMAIN d : d[j].type \in {"add", "delete", "modify"}
=============================================================================

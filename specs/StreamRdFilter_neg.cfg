SPECIFICATION Spec
CONSTANTS
  Scen = "response"
  MaxChunks = 3
  Gen = FALSE
  EmptyIsFlush = TRUE
INVARIANT ConsumerExact
INVARIANT NeverStarved
CHECK_DEADLOCK FALSE

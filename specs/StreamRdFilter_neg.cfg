SPECIFICATION Spec
CONSTANTS
  Scen = "response"
  Gen = FALSE
  EmptyIsFlush = TRUE
INVARIANT ConsumerExact
INVARIANT NeverStarved
CHECK_DEADLOCK FALSE

--------------------------- MODULE LockFileTrace ---------------------------
(***************************************************************************)
(* Batch trace validation of real _GitFile executions against LockFile.    *)
(*                                                                         *)
(* One ndjson line per execution: [tid, of: <<chunks per actor>>, ev: <<events>>].  *)
(* An event is [a, op, ok, lw, ln, tw, tn, out]: actor, interposed call,   *)
(* success, and the projected file-system state *after* the call (file at  *)
(* the lock path / at the target path as writer + chunk count).            *)
(*                                                                         *)
(* Every event is first matched against the protocol (LockFile!Next        *)
(* constrained by the logged call and the logged post-state).  If no       *)
(* protocol step matches, the execution has left the modelled protocol:    *)
(* that is recorded as drift (shape), the observed state is adopted and    *)
(* the ghost variables are updated from the call itself, so the property   *)
(* clauses keep being evaluated on what the code really did.  Only a       *)
(* property clause produces a verdict other than "ok".                     *)
(***************************************************************************)
EXTENDS LockFile, Json, IOUtils

Traces == ndJsonDeserialize(IOEnv.TRACE_FILE)

VARIABLES tid, l, verdict, failAt, driftAt
tvars == <<vars, tid, l, verdict, failAt, driftAt>>

Ev == Traces[tid].ev
ObsLck(e) == [w |-> e.lw, n |-> e.ln]
ObsTgt(e) == [w |-> e.tw, n |-> e.tn]

TraceInit ==
    /\ tid \in 1..Len(Traces)
    /\ l = 1 /\ verdict = "ok" /\ failAt = 0 /\ driftAt = 0
    /\ Init

Strict(e) ==
    /\ Next
    /\ last' = [a |-> e.a, op |-> e.op, ok |-> e.ok]
    /\ lck' = ObsLck(e) /\ tgt' = ObsTgt(e)
    /\ \A a \in Actors : of'[a] \in {0, Traces[tid].of[a + 1]}
    /\ e.op = "ret" => out[e.a] = e.out

Generic(e) ==
    /\ lck' = ObsLck(e) /\ tgt' = ObsTgt(e)
    /\ last' = [a |-> e.a, op |-> e.op, ok |-> e.ok]
    /\ holder' = IF e.op \in {"open_excl", "open_w"} /\ e.ok THEN holder \cup {e.a}
                 ELSE IF e.op \in {"replace", "rename", "unlink", "ret"} THEN holder \ {e.a}
                 ELSE holder
    /\ pc' = [pc EXCEPT ![e.a] = IF e.op = "ret" THEN "done" ELSE "drift"]
    /\ out' = [out EXCEPT ![e.a] = IF e.op = "ret" THEN e.out ELSE @]
    /\ of' = [a \in Actors |-> Traces[tid].of[a + 1]]
    /\ loc' = [a \in Actors |-> IF ObsLck(e).w = a THEN "lock" ELSE IF ObsTgt(e).w = a THEN "target"
                                ELSE IF loc[a] = "none" THEN "none" ELSE "orphan"]
    /\ UNCHANGED <<wr, buf, faults>>

\* first property clause that fails in the step just taken
Clause ==
    IF ~Mutex' THEN "Mutex"
    ELSE IF ForeignRelease THEN "NoForeignRelease"
    ELSE IF ~AtomicReplace' THEN "AtomicReplace"
    ELSE IF ~FailedKeepsOld' THEN "FailedKeepsOld"
    ELSE IF ~ReleasedAtExit' THEN "ReleasedAtExit"
    ELSE "ok"

Consume ==
    /\ l <= Len(Ev)
    /\ LET e == Ev[l] IN
         IF ENABLED Strict(e)
         THEN Strict(e) /\ driftAt' = driftAt
         ELSE Generic(e) /\ driftAt' = IF driftAt = 0 THEN l ELSE driftAt
    /\ l' = l + 1
    /\ LET c == Clause IN
         /\ verdict' = IF verdict = "ok" THEN c ELSE verdict
         /\ failAt' = IF verdict = "ok" /\ c # "ok" THEN l ELSE failAt
    /\ UNCHANGED tid

Finish ==
    /\ l = Len(Ev) + 1
    /\ PrintT(<<"VERDICT", Traces[tid].tid, verdict, failAt, driftAt>>)
    /\ l' = l + 1
    /\ UNCHANGED <<vars, tid, verdict, failAt, driftAt>>

TraceNext == Consume \/ Finish
TraceSpec == TraceInit /\ [][TraceNext]_tvars
=============================================================================

------------------------ MODULE WorkTreeStatusTrace ------------------------
(***************************************************************************)
(* Batch validation of executions of the real dulwich code against         *)
(* WorkTreeStatus.                                                         *)
(*                                                                         *)
(* One ndjson line per execution:  [tid, paths, ev] (paths: the universe of *)
(* the batch, carried by the first line).  An event is what the             *)
(* harness did and saw at one step on a real repository:                   *)
(*   act, p, q, k, c     the action and its arguments (cell = [k, c])      *)
(*   t                   target tree of Checkout / Switch (entries); for   *)
(*                       ResetHard the HEAD tree it has to reproduce       *)
(*   h, i, w             HEAD tree, index and directory *after* the step,  *)
(*                       projected from the repository independently of    *)
(*                       dulwich (git ls-tree / ls-files, os.walk);        *)
(*                       entries are [p, k, c]                             *)
(*   hasrep, rep         what porcelain.status returned (five path lists;  *)
(*                       hasrep is false when the call raised)             *)
(*   hasnorm, norm       the default ("normal") presentation of untracked  *)
(*   hasgit, git         `git status` run on the same directory            *)
(*                                                                         *)
(* The specification's variables head/index/wd hold the *observed* triple, *)
(* rep what the specification says status returns for it, obs what the     *)
(* real status returned.  Every event is first matched against the         *)
(* specification's own action (Strict); when the observed transition is    *)
(* not the action's effect the execution has left the model (drift, a      *)
(* shape verdict), the observed triple is adopted and the property clauses *)
(* keep being evaluated on what the code really did.  Property clauses are *)
(* the invariants of WorkTreeStatus, evaluated on the real state.  The     *)
(* Clauses: RoundTrip (Checkout, Switch, ResetHard), StageAllComplete,      *)
(* StageComplete, EditEffect (Unstage, RmCached, Commit, ResetMixed do      *)
(* what the specification's action does), StatusExact, StatusExactNormal,   *)
(* GitDisagrees (git on the same directory against the specification).  The *)
(* module is a monitor: it prints one STEP line per step that is not a     *)
(* clean step of the specification and one DIFF line per path and field    *)
(* that differs; every step of every trace is judged (a known defect early *)
(* in a trace does not hide a different one later).                        *)
(***************************************************************************)
EXTENDS WorkTreeStatusStash, Json, IOUtils

Traces == ndJsonDeserialize(IOEnv.TRACE_FILE)
Rng(s) == {s[j] : j \in DOMAIN s}
TracePaths == Rng(Traces[1].paths)      \* the harness puts the path universe of the whole batch into the first line
TraceActs == {"Checkout", "Switch", "Modify", "Chmod", "Delete", "Create", "Retype", "FileToDir", "DirToFile",
              "Stage", "StageAll", "Unstage", "RmCached", "Commit", "ResetMixed", "ResetHard", "StashPush", "StashPop"}
NoBound == 0

\* constants of WorkTreeStatus that the trace dispatch does not use
NoTrees == {}
NoCells == {}
NoContents == {}

VARIABLES tid, l, obs
tvars == <<svars, tid, l, obs>>

Ev == Traces[tid].ev
ToMap(es) == [p \in Paths |-> IF \E j \in DOMAIN es : es[j].p = p
                              THEN LET e == es[CHOOSE j \in DOMAIN es : es[j].p = p] IN Cell(e.k, e.c)
                              ELSE NoCell]
ToRep(r) == [add |-> Rng(r.add), del |-> Rng(r.del), mod |-> Rng(r.mod),
             unstaged |-> Rng(r.unstaged), untracked |-> Rng(r.untracked)]
ToNorm(s) == {[p |-> s[j].p, dir |-> s[j].dir] : j \in DOMAIN s}

TraceInit ==
    /\ tid \in DOMAIN Traces
    /\ l = 1
    /\ obs = CleanReport
    /\ SInit

\* the specification's own action for the logged step
BaseAct(e) ==
    CASE e.act = "Checkout"   -> Checkout(ToMap(e.t))
      [] e.act = "Switch"     -> Switch(ToMap(e.t))
      [] e.act = "Modify"     -> Modify(e.p, e.c)
      [] e.act = "Chmod"      -> Chmod(e.p)
      [] e.act = "Delete"     -> Delete(e.p)
      [] e.act = "Create"     -> Create(e.p, Cell(e.k, e.c))
      [] e.act = "Retype"     -> Retype(e.p)
      [] e.act = "FileToDir"  -> FileToDir(e.p, e.q, Cell(e.k, e.c))
      [] e.act = "DirToFile"  -> DirToFile(e.p, Cell(e.k, e.c))
      [] e.act = "Stage"      -> Stage(e.p)
      [] e.act = "StageAll"   -> StageAll
      [] e.act = "Unstage"    -> Unstage(e.p)
      [] e.act = "RmCached"   -> RmCached(e.p)
      [] e.act = "Commit"     -> Commit
      [] e.act = "ResetMixed" -> ResetMixed
      [] e.act = "ResetHard"  -> ResetHard
      [] OTHER                -> FALSE
\* stash push / pop (WorkTreeStatusStash); every other action leaves the stash alone
Act(e) ==
    CASE e.act = "StashPush"  -> StashPush
      [] e.act = "StashPop"   -> StashPop
      [] OTHER                -> BaseAct(e) /\ UNCHANGED stash

Strict(e) ==
    /\ Act(e)
    /\ head' = ToMap(e.h) /\ index' = ToMap(e.i) /\ wd' = ToMap(e.w)

Generic(e) ==
    /\ head' = ToMap(e.h) /\ index' = ToMap(e.i) /\ wd' = ToMap(e.w)
    /\ rep' = Report(head', index', wd')
    /\ n' = n + 1
    /\ last' = [act |-> e.act, p |-> e.p, q |-> e.q, cell |-> Cell(e.k, e.c)]
    /\ stash' = CASE e.act = "StashPush" -> Saved(head, index, wd)
                  [] e.act = "StashPop"  -> NoStash
                  [] OTHER               -> stash

\* the index-only edits: where the specification's action is enabled in the observed state, the
\* observed state after the step has to be the one the action leads to.  (The specification's
\* version of these edits is the one validated against git's own commands.)
EffectActs == {"Unstage", "RmCached", "Commit", "ResetMixed"}
EffectGuard(e) ==
    CASE e.act = "Unstage"    -> UnstageOK(head, index, e.p)
      [] e.act = "RmCached"   -> index[e.p] # NoCell
      [] e.act = "Commit"     -> Valid(index)
      [] OTHER                -> TRUE
ExpIndex(e) ==
    CASE e.act = "Unstage"    -> UnstageOn(head, index, {e.p})
      [] e.act = "RmCached"   -> [index EXCEPT ![e.p] = NoCell]
      [] e.act = "ResetMixed" -> head
      [] OTHER                -> index
ExpHead(e) == IF e.act = "Commit" THEN index ELSE head

\* the property clauses that fail in the state just reached (invariants of WorkTreeStatus
\* evaluated on the real state, plus the comparison of the real status with the
\* specification's)
Failing(e) ==
    (IF last'.act \in {"Checkout", "Switch", "ResetHard"} /\ ~(RoundTrip' /\ head' = ToMap(e.t)) THEN {"RoundTrip"} ELSE {})
    \cup (IF ~StageAllComplete' THEN {"StageAllComplete"} ELSE {})
    \cup (IF e.act = "Stage" /\ StageOK(index, wd, Paths, e.p) /\ ~StageComplete' THEN {"StageComplete"} ELSE {})
    \cup (IF e.act \in EffectActs /\ EffectGuard(e) /\ (index' # ExpIndex(e) \/ head' # ExpHead(e) \/ wd' # wd) THEN {"EditEffect"} ELSE {})
    \cup (IF e.hasrep /\ obs' # rep' THEN {"StatusExact"} ELSE {})
    \cup (IF e.hasnorm /\ NormalComparable(index', wd') /\ ToNorm(e.norm) # UntrackedNormal(index', wd') THEN {"StatusExactNormal"} ELSE {})
    \cup (IF e.hasgit /\ ToRep(e.git) # rep' THEN {"GitDisagrees"} ELSE {})

\* what exactly differs (the harness builds the signature of a finding from these lines)
Fields == {"add", "del", "mod", "unstaged", "untracked"}
Explain(e, cs) ==
    /\ \A c \in cs \cap {"StatusExact", "GitDisagrees"} :
          LET got == IF c = "StatusExact" THEN obs' ELSE ToRep(e.git) IN
          \A f \in Fields :
              /\ \A p \in got[f] \ rep'[f] : PrintT(<<"DIFF", Traces[tid].tid, l, c, f, "+", p>>)
              /\ \A p \in rep'[f] \ got[f] : PrintT(<<"DIFF", Traces[tid].tid, l, c, f, "-", p>>)
    /\ "StatusExactNormal" \in cs =>
          LET got == ToNorm(e.norm)  want == UntrackedNormal(index', wd') IN
          /\ \A x \in got \ want : PrintT(<<"DIFF", Traces[tid].tid, l, "StatusExactNormal", IF x.dir THEN "normdir" ELSE "normfile", "+", x.p>>)
          /\ \A x \in want \ got : PrintT(<<"DIFF", Traces[tid].tid, l, "StatusExactNormal", IF x.dir THEN "normdir" ELSE "normfile", "-", x.p>>)
    /\ "StageAllComplete" \in cs =>
          \A p \in {q \in Paths : index'[q] # wd'[q]} : PrintT(<<"DIFF", Traces[tid].tid, l, "StageAllComplete", "index", "#", p>>)
    /\ "EditEffect" \in cs =>
          /\ \A p \in {q \in Paths : index'[q] # ExpIndex(e)[q]} : PrintT(<<"DIFF", Traces[tid].tid, l, "EditEffect", "index", "#", p>>)
          /\ \A p \in {q \in Paths : head'[q] # ExpHead(e)[q]} : PrintT(<<"DIFF", Traces[tid].tid, l, "EditEffect", "head", "#", p>>)
          /\ \A p \in {q \in Paths : wd'[q] # wd[q]} : PrintT(<<"DIFF", Traces[tid].tid, l, "EditEffect", "wd", "#", p>>)
    /\ "StageComplete" \in cs =>
          \A p \in {q \in Covered(Paths, e.p) : index'[q] # wd'[q]} : PrintT(<<"DIFF", Traces[tid].tid, l, "StageComplete", "index", "#", p>>)
    /\ "RoundTrip" \in cs =>
          LET t == ToMap(e.t) IN
          /\ \A p \in {q \in Paths : head'[q] # t[q]} : PrintT(<<"DIFF", Traces[tid].tid, l, "RoundTrip", "head", "#", p>>)
          /\ \A p \in {q \in Paths : index'[q] # t[q]} : PrintT(<<"DIFF", Traces[tid].tid, l, "RoundTrip", "index", "#", p>>)
          /\ \A p \in {q \in Paths : (t[q] # NoCell \/ e.act = "Checkout") /\ wd'[q] # t[q]} : PrintT(<<"DIFF", Traces[tid].tid, l, "RoundTrip", "wd", "#", p>>)

\* one line per step that is not (a step of the specification and free of failing clauses)
Consume ==
    /\ l <= Len(Ev)
    /\ LET e == Ev[l]
           strict == ENABLED Strict(e)
       IN
         /\ IF strict THEN Strict(e) ELSE Generic(e)
         /\ obs' = IF e.hasrep THEN ToRep(e.rep) ELSE CleanReport
         /\ LET cs == Failing(e) IN
              /\ (~strict \/ cs # {}) => PrintT(<<"STEP", Traces[tid].tid, l, strict, cs>>)
              /\ Explain(e, cs)
    /\ l' = l + 1
    /\ UNCHANGED tid

Finish ==
    /\ l = Len(Ev) + 1
    /\ PrintT(<<"DONE", Traces[tid].tid, Len(Ev)>>)
    /\ l' = l + 1
    /\ UNCHANGED <<svars, tid, obs>>

TraceNext == Consume \/ Finish
TraceSpec == TraceInit /\ [][TraceNext]_tvars
=============================================================================

------------------------ MODULE WorkTreeStatusTrace ------------------------
(***************************************************************************)
(* Batch validation of executions of the real dulwich code against         *)
(* WorkTreeStatus.                                                         *)
(*                                                                         *)
(* One ndjson line per execution:  [tid, paths, ev].  An event is what the *)
(* harness did and saw at one step on a real repository:                   *)
(*   act, p, q, k, c     the action and its arguments (cell = [k, c])      *)
(*   t                   target tree of Checkout / Switch (entries)        *)
(*   h, i, w             HEAD tree, index and directory *after* the step,  *)
(*                       projected from the repository independently of    *)
(*                       dulwich (git ls-tree / ls-files, os.walk);        *)
(*                       entries are [p, k, c]                             *)
(*   rep                 what porcelain.status returned (five path lists)  *)
(*   hasnorm, norm       the default ("normal") presentation of untracked  *)
(*   hasgit, git         `git status` run on the same directory            *)
(*                                                                         *)
(* The specification's variables head/index/wd hold the *observed* triple, *)
(* rep what the specification says status returns for it, obs what the     *)
(* real status returned.  Every event is first matched against the         *)
(* specification's own action (Strict); when the observed transition is    *)
(* not the action's effect the execution has left the model (drift, a      *)
(* shape verdict), the observed triple is adopted and the property clauses *)
(* keep being evaluated on what the code really did.  Property clauses are *)
(* the invariants of WorkTreeStatus, evaluated on the real state.          *)
(***************************************************************************)
EXTENDS WorkTreeStatus, Json, IOUtils

Traces == ndJsonDeserialize(IOEnv.TRACE_FILE)
Rng(s) == {s[j] : j \in DOMAIN s}
TracePaths == UNION {Rng(Traces[t].paths) : t \in DOMAIN Traces}
TraceActs == {"Checkout", "Switch", "Modify", "Chmod", "Delete", "Create", "Retype", "FileToDir", "DirToFile",
              "Stage", "StageAll", "Unstage", "RmCached", "Commit", "ResetMixed", "ResetHard"}

\* constants of WorkTreeStatus that the trace dispatch does not use
NoTrees == {}
NoCells == {}
NoContents == {}

VARIABLES tid, l, obs, verdict, failAt, driftAt
tvars == <<vars, tid, l, obs, verdict, failAt, driftAt>>

Ev == Traces[tid].ev
ToMap(es) == [p \in Paths |-> IF \E j \in DOMAIN es : es[j].p = p
                              THEN LET e == es[CHOOSE j \in DOMAIN es : es[j].p = p] IN Cell(e.k, e.c)
                              ELSE NoCell]
ToRep(r) == [add |-> Rng(r.add), del |-> Rng(r.del), mod |-> Rng(r.mod),
             unstaged |-> Rng(r.unstaged), untracked |-> Rng(r.untracked)]
ToNorm(s) == {[p |-> s[j].p, dir |-> s[j].dir] : j \in DOMAIN s}

TraceInit ==
    /\ tid \in DOMAIN Traces
    /\ l = 1 /\ verdict = "ok" /\ failAt = 0 /\ driftAt = 0
    /\ obs = CleanReport
    /\ Init

\* the specification's own action for the logged step
Act(e) ==
    CASE e.act = "Checkout"   -> Checkout(ToMap(e.t))
      [] e.act = "Switch"     -> Switch(ToMap(e.t))
      [] e.act = "Modify"     -> Modify(e.p, e.c)
      [] e.act = "Chmod"      -> Chmod(e.p)
      [] e.act = "Delete"     -> Delete(e.p)
      [] e.act = "Create"     -> Create(e.p, Cell(e.k, e.c))
      [] e.act = "Retype"     -> Retype(e.p)
      [] e.act = "FileToDir"  -> FileToDir(e.p, e.q, Cell(e.k, e.c))
      [] e.act = "DirToFile"  -> DirToFile(e.p, Cell(e.k, e.c))
      [] e.act = "Stage"      -> Stage(e.p)
      [] e.act = "StageAll"   -> StageAll
      [] e.act = "Unstage"    -> Unstage(e.p)
      [] e.act = "RmCached"   -> RmCached(e.p)
      [] e.act = "Commit"     -> Commit
      [] e.act = "ResetMixed" -> ResetMixed
      [] e.act = "ResetHard"  -> ResetHard
      [] OTHER                -> FALSE

Strict(e) ==
    /\ Act(e)
    /\ head' = ToMap(e.h) /\ index' = ToMap(e.i) /\ wd' = ToMap(e.w)

Generic(e) ==
    /\ head' = ToMap(e.h) /\ index' = ToMap(e.i) /\ wd' = ToMap(e.w)
    /\ rep' = Report(head', index', wd')
    /\ n' = n + 1
    /\ last' = [act |-> e.act, p |-> e.p, q |-> e.q, cell |-> Cell(e.k, e.c)]

\* first property clause that fails in the state just reached
Clause(e) ==
    IF last'.act \in {"Checkout", "Switch"} /\ ~(RoundTrip' /\ head' = ToMap(e.t)) THEN "RoundTrip"
    ELSE IF ~StageAllComplete' THEN "StageAllComplete"
    ELSE IF obs' # rep' THEN "StatusExact"
    ELSE IF e.hasnorm /\ NormalComparable(index', wd') /\ ToNorm(e.norm) # UntrackedNormal(index', wd') THEN "StatusExactNormal"
    ELSE IF e.hasgit /\ ToRep(e.git) # rep' THEN "GitDisagrees"
    ELSE "ok"

\* what exactly differs (printed for the first failing step only; the harness builds the
\* signature of the finding from it)
Fields == {"add", "del", "mod", "unstaged", "untracked"}
Explain(e, c) ==
    /\ c \in {"StatusExact", "GitDisagrees"} =>
          LET got == IF c = "StatusExact" THEN obs' ELSE ToRep(e.git) IN
          \A f \in Fields :
              /\ \A p \in got[f] \ rep'[f] : PrintT(<<"DIFF", Traces[tid].tid, l, c, f, "+", p>>)
              /\ \A p \in rep'[f] \ got[f] : PrintT(<<"DIFF", Traces[tid].tid, l, c, f, "-", p>>)
    /\ c = "StatusExactNormal" =>
          LET got == ToNorm(e.norm)  want == UntrackedNormal(index', wd') IN
          /\ \A x \in got \ want : PrintT(<<"DIFF", Traces[tid].tid, l, c, IF x.dir THEN "normdir" ELSE "normfile", "+", x.p>>)
          /\ \A x \in want \ got : PrintT(<<"DIFF", Traces[tid].tid, l, c, IF x.dir THEN "normdir" ELSE "normfile", "-", x.p>>)
    /\ c = "StageAllComplete" =>
          \A p \in {q \in Paths : index'[q] # wd'[q]} : PrintT(<<"DIFF", Traces[tid].tid, l, c, "index", "#", p>>)
    /\ c = "RoundTrip" =>
          LET t == ToMap(e.t) IN
          /\ \A p \in {q \in Paths : head'[q] # t[q]} : PrintT(<<"DIFF", Traces[tid].tid, l, c, "head", "#", p>>)
          /\ \A p \in {q \in Paths : index'[q] # t[q]} : PrintT(<<"DIFF", Traces[tid].tid, l, c, "index", "#", p>>)
          /\ \A p \in {q \in Paths : (t[q] # NoCell \/ e.act = "Checkout") /\ wd'[q] # t[q]} : PrintT(<<"DIFF", Traces[tid].tid, l, c, "wd", "#", p>>)

Consume ==
    /\ l <= Len(Ev)
    /\ LET e == Ev[l] IN
         /\ IF ENABLED Strict(e)
            THEN Strict(e) /\ driftAt' = driftAt
            ELSE Generic(e) /\ driftAt' = IF driftAt = 0 THEN l ELSE driftAt
         /\ obs' = ToRep(e.rep)
         /\ LET c == Clause(e) IN
              /\ verdict' = IF verdict = "ok" THEN c ELSE verdict
              /\ failAt' = IF verdict = "ok" /\ c # "ok" THEN l ELSE failAt
              /\ (verdict = "ok" /\ c # "ok") => Explain(e, c)
    /\ l' = l + 1
    /\ UNCHANGED tid

Finish ==
    /\ l = Len(Ev) + 1
    /\ PrintT(<<"VERDICT", Traces[tid].tid, verdict, failAt, driftAt>>)
    /\ l' = l + 1
    /\ UNCHANGED <<vars, tid, obs, verdict, failAt, driftAt>>

TraceNext == Consume \/ Finish
TraceSpec == TraceInit /\ [][TraceNext]_tvars
=============================================================================

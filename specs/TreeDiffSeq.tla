----------------------------- MODULE TreeDiffSeq -----------------------------
(***************************************************************************)
(* One RenameDetector object used for a SEQUENCE of diffs (C12).           *)
(*                                                                         *)
(* State: the content-rename candidates the detector object holds after    *)
(* the diffs made so far (prev).  Step 1 diffs any determined pair of      *)
(* listings, step 2 any other pair with the same object.  The property:    *)
(* the result of a diff does not depend on the diffs made before it (it    *)
(* equals the result of a fresh detector) and is a sound description of    *)
(* the way from A to B.  MaxFiles is small enough to be exceeded by the    *)
(* bounded listings, so that "content detection skipped" is reachable.     *)
(* Stale = TRUE is the defect model (candidates survive a skipped diff):   *)
(* the negative control requires TLC to find Lemmas violated there.        *)
(*                                                                         *)
(* VIEW hides which first pair produced prev, so step 2 is explored once   *)
(* per distinct detector state, and `out` carries one witness first pair.  *)
(***************************************************************************)
EXTENDS TreeDiff, Json

CONSTANTS SPaths, SCells, SMax, MaxFiles, Stale

nA == <<97>>
nB == <<98>>
nC == <<99>>
ThreePaths == {<<nA>>, <<nB>>, <<nC>>}
FourPaths == {<<nA>>, <<nB>>, <<nC>>, <<nA, nB>>}
SimCells == {<<"F", "x">>, <<"F", "u">>, <<"F", "y">>}
SimCells5 == {<<"F", "x">>, <<"F", "u">>, <<"F", "y">>, <<"L", "x">>, <<"G", "x">>}

VARIABLES step, src, prev, ok, out
vars == <<step, src, prev, ok, out>>
View == <<step, prev, out>>

EntJ(e) == IF e = NoEntry THEN <<>> ELSE <<e.path, e.mode, e.id>>
ChgJ(c) == <<c.type, EntJ(c.old), EntJ(c.new)>>
SeqJ(s) == [i \in DOMAIN s |-> ChgJ(s[i])]
ListJ0(s) == [i \in DOMAIN s |-> EntJ(s[i])]
ListJ(L) == ListJ0(SortSeq(SetToSeq(L), LAMBDA e, f : PathLess(e.path, f.path)))
RECURSIVE TreeJ(_)
TreeJ(T) == [i \in DOMAIN T |-> <<T[i].name, T[i].mode, T[i].id, TreeJ(T[i].sub)>>]
ResJ(R) == SeqJ(SortSeq(SetToSeq(R), LAMBDA x, y : PathLess(ChangePath(x), ChangePath(y))))
StepJ(p, R) == [A |-> ListJ(p[1]), B |-> ListJ(p[2]), ta |-> TreeJ(Build(p[1])), tb |-> TreeJ(Build(p[2])), ren |-> ResJ(R)]

Listings == ListingsOver(SPaths, SCells, SMax)
Pairs == {p \in Listings \X Listings : Determined(p[1], p[2], MaxFiles)}

Init == step = 0 /\ src = <<>> /\ prev = {} /\ ok = "ok" /\ out = ""

First1(p, r) == step' = 1 /\ src' = p /\ prev' = r.cands /\ ok' = "ok" /\ out' = ""
First == step = 0 /\ \E p \in Pairs : First1(p, Detect({}, p[1], p[2], MaxFiles, Stale))

\* r1 = what the fresh object reported for src, r2 = what the used object reports for p,
\* f2 = what a fresh, correct detector reports for p
Second1(p, r1, r2, f2) ==
    /\ step' = 2 /\ src' = src /\ prev' = r2.cands
    /\ ok' = IF r2.res # f2.res THEN "Stateless"
             ELSE IF ~RenameSound(r2.res, p[1], p[2]) THEN "Sound"
             ELSE "ok"
    /\ out' = ToJson([m |-> MaxFiles, steps |-> <<StepJ(src, r1.res), StepJ(p, f2.res)>>])
Second == step = 1 /\ \E p \in Pairs :
             Second1(p, Detect({}, src[1], src[2], MaxFiles, Stale), Detect(prev, p[1], p[2], MaxFiles, Stale),
                     Detect({}, p[1], p[2], MaxFiles, FALSE))

Next == First \/ Second
Spec == Init /\ [][Next]_vars
Lemmas == ok = "ok"
=============================================================================

------------------------- MODULE StreamRdPackTrace -------------------------
(***************************************************************************)
(* Batch validation of executions of the real PackStreamReader (driven by  *)
(* read_objects() on real packs read through ReceivableProtocol under a    *)
(* partition of the stream) against StreamRdPack.                          *)
(* ndjson line: [tid, stream, valid, ev]; events                           *)
(*   <<t, size, k, d, wpos, tlen, cons, hok>>  t = read | recv | push:     *)
(*        size asked, bytes the callback returned (-1: not called), result,*)
(*        then the observed _offset, deque length, client offset, and      *)
(*        hok = (bytes fed to the hash ++ deque = stream[1.._offset])      *)
(*   <<"end", outcome>>  how read_objects() ended                          *)
(***************************************************************************)
EXTENDS StreamRdPack, IOUtils

Traces == ndJsonDeserialize(IOEnv.TRACE_FILE)

VARIABLES tid, l, verdict, failAt, driftAt
tvars == <<vars, tid, l, verdict, failAt, driftAt>>
Evs == Traces[tid].ev

TraceInit ==
    /\ tid \in 1..Len(Traces)
    /\ l = 1 /\ verdict = "ok" /\ failAt = 0 /\ driftAt = 0
    /\ stream = Traces[tid].stream
    /\ wpos = 0 /\ rbuf = <<>> /\ trailer = <<>> /\ hashed = <<>> /\ cons = 0
    /\ last = [t |-> "none", n |-> 0, d |-> <<>>, wire |-> 0] /\ nops = 0 /\ hist = <<>>

Strict(e) ==
    /\ \/ e[1] = "read" /\ Read(e[2])
       \/ e[1] = "recv" /\ Recv(e[2], IF e[3] < 0 THEN 0 ELSE e[3])
       \/ e[1] = "push" /\ Pushback(e[2])
    /\ wpos' = e[5] /\ Len(trailer') = e[6] /\ cons' = e[7]
    /\ e[1] # "push" => last'.d = e[4]

Generic(e) ==            \* the code left the model: adopt what was observed
    /\ wpos' = e[5] /\ cons' = e[7]
    /\ trailer' = SubSeq(stream, e[5] - e[6] + 1, e[5])
    /\ hashed' = Take(stream, e[5] - e[6])
    /\ rbuf' = SubSeq(stream, e[7] + 1, e[5])
    /\ last' = [t |-> e[1], n |-> e[2], d |-> e[4], wire |-> 0]
    /\ nops' = nops + 1
    /\ UNCHANGED <<stream, hist>>

Clause(e) ==
    IF e[1] = "end" THEN
        IF Traces[tid].valid
        THEN (IF e[2] = "ok" THEN "ok" ELSE IF e[2] = "ChecksumMismatch" THEN "TrailerExact" ELSE "TotalDecoder")
        ELSE (IF e[2] = "ok" THEN "TrailerExact" ELSE "ok")
    ELSE IF ~e[8] \/ e[6] # Min(HS, e[5]) THEN "TrailerExact"
    ELSE IF e[1] \in {"read", "recv"} /\ e[4] # SubSeq(stream, e[7] - Len(e[4]) + 1, e[7]) THEN "RoundTrip"
    ELSE "ok"

Consume ==
    /\ l <= Len(Evs)
    /\ LET e == Evs[l] IN
       /\ IF e[1] = "end" THEN UNCHANGED vars /\ driftAt' = driftAt
          ELSE IF ENABLED Strict(e) THEN Strict(e) /\ driftAt' = driftAt
          ELSE Generic(e) /\ driftAt' = IF driftAt = 0 THEN l ELSE driftAt
       /\ LET c == Clause(e) IN
          /\ verdict' = IF verdict = "ok" THEN c ELSE verdict
          /\ failAt' = IF verdict = "ok" /\ c # "ok" THEN l ELSE failAt
    /\ l' = l + 1
    /\ UNCHANGED tid

Finish ==
    /\ l = Len(Evs) + 1
    /\ PrintT(<<"VERDICT", Traces[tid].tid, verdict, failAt, driftAt>>)
    /\ l' = l + 1
    /\ UNCHANGED <<vars, tid, verdict, failAt, driftAt>>

TraceNext == Consume \/ Finish
TraceSpec == TraceInit /\ [][TraceNext]_tvars
=============================================================================

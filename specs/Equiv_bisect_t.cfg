SPECIFICATION Spec
CONSTANTS
  Fam = "bisect"
  MaxLen = 4
  Sel <- BisectSelT
INVARIANT Lemmas
INVARIANT InModel
CHECK_DEADLOCK FALSE

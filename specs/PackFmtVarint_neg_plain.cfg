SPECIFICATION Spec
CONSTANTS
  Small = 200
  Plain = TRUE
INVARIANT Lemma
CHECK_DEADLOCK FALSE

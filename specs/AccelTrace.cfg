SPECIFICATION TraceSpec
CONSTANTS
  N = 6
  Refs = {"a", "b"}
  MaxDepth = 0
  MaxPacks = 6
  WithCopies = TRUE
  WithIdx = TRUE
  MidxChecksPack = TRUE
  CgChecksStore = TRUE
  CgWriterCloses = TRUE
  BitmapChecksum = TRUE
  BitmapClosedPack = TRUE
  BitmapExcludeExact = TRUE
  ProvidersAgree = TRUE
  DeleteDropsPacked = TRUE
  BitmapHonoursShallow = TRUE
  CgOctopusOk = TRUE
  MaxParents = 6
  GraftsBeforeGraph = TRUE
  IdxLargeFrom31 = TRUE
  CgHonoursShallow = TRUE
  Focus = "all"
CHECK_DEADLOCK FALSE

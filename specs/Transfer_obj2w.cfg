\* thorough: like obj2 with all 5 pool trees (nested subtree)
\* (harness/props/c05.py writes the same configuration at run time; TransferCases uses the same constants
\*  plus SampleMod / SampleSeed)
SPECIFICATION Spec
CONSTANTS
  NC = 2
  NTP = 5
  NT = 1
  MaxHeads = 2
  MaxWants = 2
  Modes = {"detailed"}
  IncTag = {FALSE, TRUE}
  Thin = {TRUE}
  SFull = {FALSE}
  Forge = FALSE
  MaxInVain = 2
  AtomicNeg = TRUE
  PopAny = FALSE
  MaxDangle = 0
  Bug = "none"
INVARIANT TypeOK
INVARIANT Antecedent
INVARIANT ReceiverComplete
INVARIANT NoLoss
INVARIANT SenderSound
INVARIANT WantValidation
INVARIANT ThinResolvable
INVARIANT Confluent
INVARIANT HavesSound
CHECK_DEADLOCK FALSE

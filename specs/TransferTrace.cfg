\* TRACE_FILE=<ndjson of executed transfers>
SPECIFICATION TraceSpec
CONSTANTS
  Bug = "none"
CHECK_DEADLOCK FALSE

------------------------------ MODULE Transfer ------------------------------
(***************************************************************************)
(* C05 -- fetch / clone / push transfer a complete, byte-identical object   *)
(* closure.                                                                 *)
(*                                                                          *)
(* Parts 1-3 (objects and closures, MissingObjectFinder, the walker and the *)
(*         ack implementations) are the operators of TransferOps.           *)
(* Part 4  _handle_upload_pack_head / _tail (client.py), want validation    *)
(*         and find_common_revisions (server.py) around a FIFO channel:     *)
(*         one transfer as a state machine over a case (universe, sender    *)
(*         refs, receiver tips, wants, capability set) chosen in Init, and  *)
(*         the properties ReceiverComplete, NoLoss, SenderSound,            *)
(*         WantValidation, ThinResolvable as invariants.                    *)
(*                                                                          *)
(* The operators of parts 1-3 are reused by TransferCases (case             *)
(* enumeration for replay on the real code) and TransferTrace (judging      *)
(* recorded real transfers).                                                *)
(***************************************************************************)
EXTENDS TransferOps

CONSTANTS
    NC,          \* commits 1..NC; commit i has its parents among 1..i-1 (canonical DAGs)
    NTP,         \* the first NTP trees of Pool may be root trees of commits
    NT,          \* at most NT annotated tags (0..2)
    MaxHeads,    \* the sender has at most MaxHeads branches
    MaxWants,    \* |wants| <= MaxWants
    Modes,       \* subset of {"single", "multi", "detailed"}: multi_ack off / on / detailed
    IncTag,      \* subset of BOOLEAN: client asks for include-tag
    Thin,        \* subset of BOOLEAN: thin-pack negotiated (deltas against objects of remote_has)
    SFull,       \* subset of BOOLEAN: TRUE = the sender also stores every object of the universe
                 \*   that its refs do not reach (deleted branches: objects it must never send)
    Forge,       \* BOOLEAN: also explore requests for one object that is not an advertised value
    MaxInVain,   \* client gives up after this many haves without ACK (256 in dulwich/client.py)
    AtomicNeg,   \* TRUE: negotiation collapsed into one step (complete walk); object-graph configs
    PopAny,      \* TRUE: MissingObjectFinder pops any todo entry; FALSE: the least (state reduction)
    MaxDangle    \* the receiver also holds up to MaxDangle objects of the sender that none of its refs
                 \*   reaches and whose own closure it lacks (left by an interrupted transfer, a partial
                 \*   prune, another process): it is complete w.r.t. its refs, its store is not closed
                 \* (Bug, the seeded model defect of the negative controls, is declared in TransferOps)

(***************************************************************************)
(* Part 4 -- one transfer                                                   *)
(***************************************************************************)
Pool == << {B(1)},             \* t1: f1
           {B(1), B(2)},       \* t2: f1 f2        (shares b1 with t1)
           {T(1), B(3)},       \* t3: d1/ f3       (t1 as a subtree)
           {T(1), B(2)},       \* t4: d1/ f2 sub@  (t1 as a subtree, b2 shared with t2, gitlink)
           {T(3), B(1)} >>     \* t5: d3/ f1       (nested: t3 -> t1)
PoolLink == <<0, 0, 0, -1, 0>>     \* the gitlink of t4; the replay lets it name a commit of the universe as well (TransferOps: lnk)

RECURSIVE Dags(_)
Dags(k) == IF k = 0 THEN {<<>>} ELSE {Append(d, P) : d \in Dags(k - 1), P \in SUBSET (1..(k - 1))}

TagTargets == {C(i) : i \in 1..NC} \cup {T(1), B(2)}
TagSeqs == {<<>>}
           \cup (IF NT >= 1 THEN {<<a>> : a \in TagTargets} ELSE {})
           \cup (IF NT >= 2 THEN {<<a, b>> : a \in TagTargets, b \in TagTargets \cup {G(1)}} ELSE {})

Universes == {[par |-> p, tr |-> t, ent |-> Pool, lnk |-> PoolLink, tg |-> g] :
                 p \in Dags(NC), t \in [1..NC -> 1..NTP], g \in TagSeqs}

\* a case: universe, sender branch heads, "sender keeps unreferenced objects", receiver branch
\* heads and tag refs, wants, ack mode, include-tag, thin-pack
SenderRefs(U, sh)   == {C(i) : i \in sh} \cup TagsOf(U)          \* every tag has a ref on the sender
SenderStore(U, sh, full) == IF full THEN AllObjects(U) ELSE Closure(U, SenderRefs(U, sh))
ReceiverTips(rh, rt) == {C(i) : i \in rh} \cup {G(j) : j \in rt}

\* dangling objects of the receiver: any few objects of the sender outside the closure of the
\* receiver's refs (the tip that is about to be transferred among them)
DangleSets(U, sh, full, rh, rt) ==
    {dg \in SUBSET (SenderStore(U, sh, full) \ Closure(U, ReceiverTips(rh, rt))) : Cardinality(dg) <= MaxDangle}

WantSets(U, sh, full) ==
    {w \in SUBSET SenderRefs(U, sh) : w # {} /\ Cardinality(w) <= MaxWants}
    \cup (IF Forge THEN {{o} : o \in SenderStore(U, sh, full) \ SenderRefs(U, sh)} ELSE {})

VARIABLES
    cs,        \* the case (constant during a behaviour)
    rstore,    \* receiver's object store
    cpc,       \* client: "head" | "tail" | "end" | "failed"
    heads, wp, inVain, gotAck, mayRead,
    s2c,       \* FIFO channel server -> client
    spc,       \* server: "wants" | "haves" | "mof" | "end" | "refused"
    st,        \* server negotiation state [common, found, haves]
    tagged, todo, shaDone, sent, remoteHas, bases,
    outcome    \* "" | "ok" | "refused" | "client_error" | "unresolved"

vars == <<cs, rstore, cpc, heads, wp, inVain, gotAck, mayRead, s2c, spc, st,
          tagged, todo, shaDone, sent, remoteHas, bases, outcome>>

U_       == [par |-> cs.par, tr |-> cs.tr, ent |-> Pool, lnk |-> PoolLink, tg |-> cs.tg]
SRefs    == cs.srefs
SStore   == cs.sstore
RStore0  == cs.r0

Init ==
    /\ \E u \in Universes, sh \in {x \in SUBSET (1..NC) : x # {} /\ Cardinality(x) <= MaxHeads},
          full \in SFull, rh \in SUBSET (1..NC),
          m \in Modes, it \in IncTag, th \in Thin :
         \E rt \in SUBSET (1..Len(u.tg)), w \in WantSets(u, sh, full) :
          \E dg \in DangleSets(u, sh, full, rh, rt) :
            cs = [par |-> u.par, tr |-> u.tr, tg |-> u.tg, sh |-> sh, full |-> full, rh |-> rh, rt |-> rt, wants |-> w,
                  mode |-> m, inctag |-> it, thin |-> th,
                  \* derived once per case (constant during the behaviour)
                  srefs |-> SenderRefs(u, sh), sstore |-> SenderStore(u, sh, full),
                  dg |-> dg, r0 |-> Closure(u, ReceiverTips(rh, rt)) \cup dg]
    /\ rstore = RStore0
    /\ cpc = "head" /\ heads = cs.rh /\ wp = WalkerInit(Len(cs.par)) /\ inVain = 0 /\ gotAck = FALSE /\ mayRead = FALSE
    /\ s2c = <<>>
    /\ spc = "wants" /\ st = [common |-> <<>>, found |-> FALSE, haves |-> <<>>]
    /\ tagged = <<>> /\ todo = {} /\ shaDone = {} /\ sent = {} /\ remoteHas = {} /\ bases = {}
    /\ outcome = ""

cvars == <<heads, wp, inVain, gotAck, mayRead, cpc>>
mvars == <<tagged, todo, shaDone, sent, remoteHas, bases>>

(* Reduction used below.  The server's reaction to a have depends only on the sequence of haves  *)
(* it has read, never on timing, and the channels are FIFO; the client reads at most one packet  *)
(* after each have and only if one is there (can_read()).  So "the server has not answered yet"  *)
(* is indistinguishable from "the client did not look" (CNoRead), and the server's step can be   *)
(* taken together with the client's write without losing any behaviour of either side.           *)
---------------------------------------------------------------------------
(* server: determine_wants -- want validation against the advertised values *)
SWants ==
    /\ spc = "wants"
    /\ IF cs.wants \subseteq SRefs \/ Bug = "NoWantCheck"
       THEN spc' = "haves" /\ UNCHANGED <<outcome, cpc>>
       ELSE spc' = "refused" /\ outcome' = "refused" /\ cpc' = "failed"    \* GitProtocolError, connection closed
    /\ UNCHANGED <<cs, rstore, heads, wp, inVain, gotAck, mayRead, s2c, st, mvars>>

(* client: _handle_upload_pack_head: have = next(graph_walker); write "have"; in_vain += 1;      *)
(* server: find_common_revisions reads it (next), acks it if the object is in its store          *)
Have ==
    /\ ~AtomicNeg /\ cpc = "head" /\ ~mayRead /\ spc = "haves"
    /\ \E h \in heads :
         LET n == WalkerNext(U_, heads, wp, h)
             r == SrvHave(U_, SStore, cs.wants, cs.mode, st, C(h)) IN
         /\ heads' = n.heads /\ wp' = n.wp
         /\ st' = r.st /\ s2c' = s2c \o r.out
    /\ inVain' = inVain + 1 /\ mayRead' = TRUE
    /\ UNCHANGED <<cs, rstore, gotAck, cpc, spc, mvars, outcome>>

CRead ==          \* can_read() was true: read one pkt
    /\ cpc = "head" /\ mayRead /\ s2c # <<>>
    /\ LET p == Head(s2c) IN
         /\ s2c' = Tail(s2c)
         /\ IF p[1] = "ACK"
            THEN IF p[3] = ""        \* "ACK <sha>" has no third field: parts[2] raises IndexError
                 THEN /\ cpc' = "failed" /\ outcome' = "client_error"
                      /\ UNCHANGED <<heads, wp, inVain, gotAck>>
                 ELSE LET a == WalkerAck(heads, wp, {Num(p[2])}) IN
                      /\ heads' = a.heads /\ wp' = a.wp /\ inVain' = 0 /\ gotAck' = TRUE
                      /\ UNCHANGED <<cpc, outcome>>
            ELSE UNCHANGED <<heads, wp, inVain, gotAck, cpc, outcome>>
    /\ mayRead' = FALSE
    /\ UNCHANGED <<cs, rstore, spc, st, mvars>>

CNoRead ==        \* can_read() was false
    /\ cpc = "head" /\ mayRead
    /\ mayRead' = FALSE
    /\ UNCHANGED <<cs, rstore, heads, wp, inVain, gotAck, cpc, s2c, spc, st, mvars, outcome>>

MofStart(hs) ==
    \* get_tagged() returns {} when the backend repository has no .repo attribute (a plain Repo
    \* behind FileSystemBackend): include-tag then adds nothing
    \E tg \in (IF cs.inctag THEN TaggedChoices(U_, TagsOf(U_)) \cup {<<>>} ELSE {<<>>}) :
         \* negative control: a sender that can look into the receiver's store (LocalGitClient, a
         \* pusher told so by the remote) leaves out every wanted tip the receiver already holds as
         \* an object, without asking whether it holds what the tip reaches
         LET i == MofInit(U_, SStore, hs, IF Bug = "SkipPresentWant" THEN cs.wants \ RStore0 ELSE cs.wants) IN
         /\ tagged' = tg
         \* negative control: every advertised tag is added, whether or not its target is sent
         /\ todo' = IF Bug = "TaggedAny" /\ cs.inctag
                    THEN i.todo \cup {<<g, TRUE>> : g \in TagsOf(U_)} ELSE i.todo
         /\ shaDone' = i.remoteHas /\ remoteHas' = i.remoteHas /\ sent' = {}

(* the walker is exhausted or the in_vain cut-off fired: the client writes "done", the server's  *)
(* find_common_revisions returns and MissingObjectFinder is set up                               *)
Done ==
    /\ ~AtomicNeg /\ cpc = "head" /\ ~mayRead /\ spc = "haves"
    /\ heads = {} \/ (inVain >= MaxInVain /\ gotAck)
    /\ cpc' = "tail" /\ spc' = "mof"
    /\ MofStart({st.haves[i] : i \in 1..Len(st.haves)})
    /\ UNCHANGED <<cs, rstore, heads, wp, inVain, gotAck, mayRead, s2c, st, bases, outcome>>

(* both sides in one step (object-graph configurations): the walk runs to the end *)
AtomicNegotiation ==
    /\ AtomicNeg /\ spc = "haves" /\ cpc = "head"
    /\ LET hs == CompleteWalk(U_, SStore, cs.rh, WalkerInit(Len(cs.par)), {}) IN
         /\ MofStart(hs)
         /\ st' = [st EXCEPT !.haves = SetToSeqLeast(hs)]
    /\ spc' = "mof" /\ cpc' = "tail"
    /\ UNCHANGED <<cs, rstore, heads, wp, inVain, gotAck, mayRead, s2c, bases, outcome>>

(* server: list(missing_objects) -- MissingObjectFinder.__next__ until StopIteration.          *)
(* PopAny: one popped entry per step, any entry (set.pop()); otherwise the whole iteration in    *)
(* one step in the fixed order of MofRun (the PopAny configurations show the order is irrelevant)*)
SMofStep ==
    /\ PopAny /\ spc = "mof" /\ todo # {}
    /\ \E e \in todo :
         LET r == MofStep(U_, tagged, todo, shaDone, sent, e) IN
         todo' = r.todo /\ shaDone' = r.shaDone /\ sent' = r.sent
    /\ UNCHANGED <<cs, rstore, cvars, s2c, spc, st, tagged, remoteHas, bases, outcome>>

SMofAll ==
    /\ ~PopAny /\ spc = "mof" /\ todo # {}
    /\ sent' = MofRun(U_, tagged, todo, shaDone, sent)
    /\ todo' = {} /\ shaDone' = shaDone \cup sent'
    /\ UNCHANGED <<cs, rstore, cvars, s2c, spc, st, tagged, remoteHas, bases, outcome>>

(* server: handle_done + write the pack; with thin-pack the deltas may use any object of
   remote_has as a base (find_reusable_deltas: base in object_ids or in other_haves) *)
SPack ==
    /\ spc = "mof" /\ todo = {}
    /\ \E b \in (IF cs.thin THEN {{}, remoteHas} ELSE {{}}) : bases' = b
    /\ s2c' = s2c \o (IF AtomicNeg THEN <<>> ELSE SrvDone(cs.mode, st)) \o <<<<"PACK">>>>
    /\ spc' = "end"
    /\ UNCHANGED <<cs, rstore, cvars, st, tagged, todo, shaDone, sent, remoteHas, outcome>>

(* client: _handle_upload_pack_tail reads the remaining ACK / NAK lines (walker.ack has no       *)
(* effect on the result any more), then the pack is completed and installed                      *)
CTail ==
    /\ cpc = "tail" /\ s2c # <<>> /\ s2c[Len(s2c)][1] = "PACK"
    /\ s2c' = <<>>
    /\ IF bases \subseteq rstore \cup sent
       THEN rstore' = rstore \cup sent /\ outcome' = "ok" /\ cpc' = "end"
       ELSE outcome' = "unresolved" /\ cpc' = "failed" /\ UNCHANGED rstore
    /\ UNCHANGED <<cs, heads, wp, inVain, gotAck, mayRead, spc, st, mvars>>

Next == SWants \/ Have \/ CRead \/ CNoRead \/ Done \/ AtomicNegotiation \/ SMofStep \/ SMofAll \/ SPack \/ CTail

Spec == Init /\ [][Next]_vars

---------------------------------------------------------------------------
(* properties *)
WantClosure == Closure(U_, cs.wants)
AutoTags ==       \* tags the sender may add on its own when include-tag was requested
    IF cs.inctag THEN UNION {TagChain(U_, g) : g \in {t \in TagsOf(U_) : Peel(U_, t) \in WantClosure}} ELSE {}

TypeOK ==
    /\ cpc \in {"head", "tail", "end", "failed"}
    /\ spc \in {"wants", "haves", "mof", "end", "refused"}
    /\ outcome \in {"", "ok", "refused", "client_error", "unresolved"}

\* the case is inside the property's antecedent: both stores closed, receiver complete
\* (complete = it holds everything its refs reach; what else lies in its store need not be closed)
Antecedent == spc = "wants" => /\ Closed(U_, SStore) /\ Closed(U_, RStore0 \ cs.dg)
                               /\ Closure(U_, ReceiverTips(cs.rh, cs.rt)) \subseteq RStore0

\* after a successful transfer the receiver holds everything reachable from what it asked for,
\* and is closed again
ReceiverComplete ==
    outcome = "ok" => /\ WantClosure \subseteq rstore
                      /\ Closure(U_, ReceiverTips(cs.rh, cs.rt) \cup cs.wants) \subseteq rstore

NoLoss == outcome = "ok" => RStore0 \subseteq rstore

\* nothing outside the closure of the wants (apart from auto-followed tags), nothing the
\* advertised refs do not reach, nothing the sender does not have; checked while the pack is
\* being assembled, not only at the end
SenderSound ==
    sent # {} =>
    /\ sent \subseteq WantClosure \cup AutoTags
    /\ sent \subseteq Closure(U_, SRefs)
    /\ sent \subseteq SStore

\* a want that is not an advertised value is refused and nothing is sent
WantValidation ==
    ~(cs.wants \subseteq SRefs) => (sent = {} /\ outcome \in {"", "refused"} /\ spc \in {"wants", "refused"})

\* a thin pack can always be completed by the receiver
ThinResolvable == outcome # "unresolved"

\* the pack content does not depend on the order in which the work set is processed and equals
\* the closed form used for judging real transfers
Confluent ==
    (spc = "end" /\ Bug \notin {"TaggedAny", "SkipPresentWant"}) =>
        sent = MofSent(U_, SStore, {st.haves[i] : i \in 1..Len(st.haves)}, cs.wants, tagged)

\* the server only ever counts as common what the receiver really has (so remote_has is sound)
HavesSound == spc \in {"mof", "end"} => \A i \in 1..Len(st.haves) : st.haves[i] \in RStore0 \cap SStore
=============================================================================

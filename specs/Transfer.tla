------------------------------ MODULE Transfer ------------------------------
(***************************************************************************)
(* C05 -- fetch / clone / push transfer a complete, byte-identical object   *)
(* closure.                                                                 *)
(*                                                                          *)
(* Part 1  object universe (commits, trees with shared subtrees and blobs,  *)
(*         gitlinks, annotated tags and tag chains), stores, closures.      *)
(* Part 2  MissingObjectFinder (dulwich/object_store.py) transcribed:       *)
(*         _split_commits_and_tags, get_reachable_commits,                  *)
(*         _collect_ancestors, remote_has, the work-set iteration           *)
(*         (__next__) with sha_done, leaf entries and include-tag.          *)
(* Part 3  the have/ACK negotiation: ObjectStoreGraphWalker (client),       *)
(*         _handle_upload_pack_head / _tail (client.py), find_common_       *)
(*         revisions + Single/Multi/MultiAckDetailed graph walker           *)
(*         implementations and want validation (server.py), two FIFO        *)
(*         channels in between.                                             *)
(* Part 4  one transfer as a state machine over a case (universe, sender    *)
(*         refs, receiver tips, wants, capability set) chosen in Init, and  *)
(*         the properties ReceiverComplete, NoLoss, SenderSound,            *)
(*         WantValidation, ThinResolvable as invariants.                    *)
(*                                                                          *)
(* The operators of parts 1-3 are reused by TransferCases (case             *)
(* enumeration for replay on the real code) and TransferTrace (judging      *)
(* recorded real transfers).                                                *)
(***************************************************************************)
EXTENDS Integers, Sequences, FiniteSets, TLC

CONSTANTS
    NC,          \* commits 1..NC; commit i has its parents among 1..i-1 (canonical DAGs)
    NTP,         \* the first NTP trees of Pool may be root trees of commits
    NT,          \* at most NT annotated tags (0..2)
    MaxWants,    \* |wants| <= MaxWants
    Modes,       \* subset of {"single", "multi", "detailed"}: multi_ack off / on / detailed
    IncTag,      \* subset of BOOLEAN: client asks for include-tag
    Thin,        \* subset of BOOLEAN: thin-pack negotiated (deltas against objects of remote_has)
    SFull,       \* subset of BOOLEAN: TRUE = the sender also stores every object of the universe
                 \*   that its refs do not reach (deleted branches: objects it must never send)
    Forge,       \* BOOLEAN: also explore requests for one object that is not an advertised value
    MaxInVain,   \* client gives up after this many haves without ACK (256 in dulwich/client.py)
    AtomicNeg,   \* TRUE: negotiation collapsed into one step (complete walk); object-graph configs
    PopAny,      \* TRUE: MissingObjectFinder pops any todo entry; FALSE: the least (state reduction)
    Bug          \* "none", or a seeded defect of the model (negative controls)

(***************************************************************************)
(* Part 1 -- objects                                                        *)
(***************************************************************************)
C(i) == <<"c", i>>
T(i) == <<"t", i>>
B(i) == <<"b", i>>
G(i) == <<"g", i>>
Kind(o) == o[1]
Num(o)  == o[2]
Rank(o) == (CASE Kind(o) = "c" -> 0 [] Kind(o) = "g" -> 1 [] Kind(o) = "t" -> 2 [] OTHER -> 3) * 1000 + Num(o)
Least(S) == CHOOSE o \in S : \A p \in S : Rank(o) <= Rank(p)
RECURSIVE SetToSeqLeast(_)
SetToSeqLeast(S) == IF S = {} THEN <<>> ELSE <<Least(S)>> \o SetToSeqLeast(S \ {Least(S)})

(* A universe U is a record                                                *)
(*   par : sequence (per commit) of sets of parent commit numbers           *)
(*   tr  : sequence (per commit) of root tree numbers                       *)
(*   ent : sequence (per tree) of sets of child objects (trees, blobs);     *)
(*         a gitlink entry is NOT an object of any store and is not listed  *)
(*   lnk : sequence (per tree) of BOOLEAN, the tree also has a gitlink      *)
(*   tg  : sequence (per tag) of target objects (commit/tree/blob/tag)      *)
CommitsOf(U) == {C(i) : i \in 1..Len(U.par)}
TagsOf(U)    == {G(i) : i \in 1..Len(U.tg)}

Kids(U, o) ==
    CASE Kind(o) = "c" -> {T(U.tr[Num(o)])} \cup {C(p) : p \in U.par[Num(o)]}
      [] Kind(o) = "t" -> U.ent[Num(o)]
      [] Kind(o) = "g" -> {U.tg[Num(o)]}
      [] OTHER         -> {}

RECURSIVE Close(_, _, _)
Close(U, done, front) ==
    IF front = {} THEN done
    ELSE Close(U, done \cup front, (UNION {Kids(U, o) : o \in front}) \ (done \cup front))
Closure(U, S) == Close(U, {}, S)            \* everything reachable from S, S included

AllObjects(U) == Closure(U, CommitsOf(U) \cup TagsOf(U))
Closed(U, S)  == \A o \in S : Kids(U, o) \subseteq S

RECURSIVE AncIdx(_, _, _)
AncIdx(U, done, front) ==                   \* commit numbers reachable through parents
    IF front = {} THEN done
    ELSE AncIdx(U, done \cup front, (UNION {U.par[i] : i \in front}) \ (done \cup front))
Anc(U, cs) == {C(i) : i \in AncIdx(U, {}, {Num(c) : c \in cs})}     \* ancestors-or-self

RECURSIVE Peel(_, _)
Peel(U, o) == IF Kind(o) = "g" THEN Peel(U, U.tg[Num(o)]) ELSE o
RECURSIVE TagChain(_, _)
TagChain(U, o) == IF Kind(o) = "g" THEN {o} \cup TagChain(U, U.tg[Num(o)]) ELSE {}

(***************************************************************************)
(* Part 2 -- MissingObjectFinder                                            *)
(***************************************************************************)
\* _split_commits_and_tags(store, [o], unknown="ignore"): (commits, tags, others), tags peeled
\* recursively; objects the store does not hold are dropped
RECURSIVE SplitOne(_, _, _)
SplitOne(U, store, o) ==
    IF o \notin store THEN [c |-> {}, g |-> {}, o |-> {}]
    ELSE IF Kind(o) = "c" THEN [c |-> {o}, g |-> {}, o |-> {}]
    ELSE IF Kind(o) = "g" THEN LET r == SplitOne(U, store, U.tg[Num(o)])
                               IN  [c |-> r.c, g |-> r.g \cup {o}, o |-> r.o]
    ELSE [c |-> {}, g |-> {}, o |-> {o}]
Split(U, store, lst) ==
    [c |-> UNION {SplitOne(U, store, x).c : x \in lst},
     g |-> UNION {SplitOne(U, store, x).g : x \in lst},
     o |-> UNION {SplitOne(U, store, x).o : x \in lst}]

\* _collect_ancestors(store, heads, common): (commits reachable from heads without passing a
\* commit of common, the commits of common met on the way); the result does not depend on the
\* queue order, so it is given as a fixpoint
RECURSIVE CollectMissing(_, _, _, _)
CollectMissing(U, common, done, front) ==
    LET f == front \ (common \cup done) IN
    IF f = {} THEN done
    ELSE CollectMissing(U, common, done \cup f, UNION {{C(p) : p \in U.par[Num(c)]} : c \in f})
Missing(U, heads, common) == CollectMissing(U, common, {}, heads)
Bases(U, heads, common) ==
    LET m == Missing(U, heads, common)
    IN  (heads \cup UNION {{C(p) : p \in U.par[Num(c)]} : c \in m}) \cap common

\* _collect_filetree_revs(store, tree, kset): everything below the tree, the tree itself NOT included
TreeObjs(U, t) == Closure(U, U.ent[t])

\* get_tagged(): peeled object -> one tag whose ref peels to it (dict, a later ref overwrites an
\* earlier one: any choice); only consulted with include-tag
TaggedChoices(U, tagrefs) ==
    LET P == {Peel(U, g) : g \in tagrefs}
    IN  {f \in [P -> tagrefs] : \A p \in P : Peel(U, f[p]) = p}

\* MissingObjectFinder.__init__
MofInit(U, store, haves, wants) ==
    LET hv == Split(U, store, haves)
        wv == Split(U, store, wants)
        allAnc == Anc(U, hv.c)
        miss == Missing(U, wv.c, allAnc)
        bases0 == Bases(U, wv.c, allAnc)
        \* negative control: the parents of the missing commits are taken for common without
        \* looking whether the peer really has them
        bases == IF Bug = "RemoteHasParents"
                 THEN bases0 \cup ((UNION {{C(p) : p \in U.par[Num(c)]} : c \in miss}) \ miss)
                 ELSE bases0
        rh == bases \cup UNION {TreeObjs(U, U.tr[Num(b)]) : b \in bases} \cup hv.g
    IN  [remoteHas |-> rh,
         todo |-> {<<o, FALSE>> : o \in miss \cup (wv.g \ hv.g) \cup (wv.o \ hv.o)}]

\* one iteration of __next__ for the popped entry e = <<object, leaf>>: (todo', shaDone', sent')
MofStep(U, tagged, todo, shaDone, sent, e) ==
    LET o == e[1]
        rest == todo \ {e}
    IN  IF o \in shaDone THEN [todo |-> rest, shaDone |-> shaDone, sent |-> sent]
        ELSE LET exp == IF e[2] THEN {}
                        ELSE CASE Kind(o) = "c" -> {<<T(U.tr[Num(o)]), FALSE>>}
                               [] Kind(o) = "t" -> {<<k, Kind(k) = "b">> : k \in U.ent[Num(o)]}
                               [] Kind(o) = "g" -> {<<U.tg[Num(o)], FALSE>>}
                               [] OTHER -> {}
                 tg  == IF o \in DOMAIN tagged THEN {<<tagged[o], TRUE>>} ELSE {}
                 add == {x \in exp \cup tg : x[1] \notin shaDone}
             IN  [todo |-> rest \cup add, shaDone |-> shaDone \cup {o}, sent |-> sent \cup {o}]

\* the iteration run to the end, popping the least entry (reference result for the traces; the
\* model checks with PopAny that the order is irrelevant)
RECURSIVE MofRun(_, _, _, _, _)
MofRun(U, tagged, todo, shaDone, sent) ==
    IF todo = {} THEN sent
    ELSE LET e == CHOOSE x \in todo : \A y \in todo :
                      Rank(x[1]) * 2 + (IF x[2] THEN 1 ELSE 0) <= Rank(y[1]) * 2 + (IF y[2] THEN 1 ELSE 0)
             r == MofStep(U, tagged, todo, shaDone, sent, e)
         IN  MofRun(U, tagged, r.todo, r.shaDone, r.sent)
MofSent(U, store, haves, wants, tagged) ==
    LET i == MofInit(U, store, haves, wants)
    IN  MofRun(U, tagged, i.todo, i.remoteHas, {})

(***************************************************************************)
(* Part 3 -- negotiation                                                    *)
(***************************************************************************)
\* ObjectStoreGraphWalker: heads = set of commit numbers, wp[i] = <<0,{}>> not in self.parents,
\* <<1, ps>> parents recorded, <<2, {}>> None
WalkerInit(n) == [i \in 1..n |-> <<0, {}>>]

\* next() having popped head h; ps = parents of h in the client's store
WalkerNext(U, heads, wp, h) ==
    LET ps  == U.par[h]
        wp2 == [wp EXCEPT ![h] = <<1, ps>>]
    IN  [heads |-> (heads \ {h}) \cup {p \in ps : wp2[p][1] = 0}, wp |-> wp2]

RECURSIVE WalkerAck(_, _, _)
WalkerAck(heads, wp, anc) ==
    IF heads = {} THEN [heads |-> heads, wp |-> wp]
    ELSE LET h2  == heads \ anc
             new == UNION {IF wp[a][1] = 1 THEN wp[a][2] ELSE {} : a \in anc}
             wp2 == [a \in DOMAIN wp |-> IF a \in anc THEN <<2, {}>> ELSE wp[a]]
         IN  IF new = {} THEN [heads |-> h2, wp |-> wp2] ELSE WalkerAck(h2, wp2, new)

\* the complete walk against a sender store (LocalGitClient: find_common_revisions is called with
\* the client's walker directly): the set of haves found does depend on the pop order, the set
\* of their ancestors does not; CompleteWalk picks the least head each time
RECURSIVE CompleteWalk(_, _, _, _, _)
CompleteWalk(U, sstore, heads, wp, found) ==
    IF heads = {} THEN found
    ELSE LET h == CHOOSE x \in heads : \A y \in heads : x >= y
             n == WalkerNext(U, heads, wp, h)
         IN  IF C(h) \in sstore
             THEN LET a == WalkerAck(n.heads, n.wp, {h}) IN CompleteWalk(U, sstore, a.heads, a.wp, found \cup {C(h)})
             ELSE CompleteWalk(U, sstore, n.heads, n.wp, found)

\* server.py _want_satisfied / _all_wants_satisfied with commit times that increase from parent to
\* child (the time cut-off is then exact): a want is satisfied iff it is a commit that has one of
\* the haves among its ancestors-or-self; a want that is not a commit is never satisfied
AllSatisfied(U, wants, common) ==
    /\ wants # {}
    /\ \A w \in wants : Kind(w) = "c" /\ Anc(U, {w}) \cap common # {}

\* what the server writes after reading "have h" and how its state changes.
\* st = [common: Seq(obj), found: BOOLEAN, haves: Seq(obj)]
SrvHave(U, sstore, wants, mode, st, h) ==
    LET known == h \in sstore IN
    CASE mode = "single" ->
           IF known
           THEN [st |-> [st EXCEPT !.haves = Append(@, h),
                                   !.common = IF st.common = <<>> THEN <<h>> ELSE @],
                 out |-> IF st.common = <<>> THEN <<<<"ACK", h, "">>>> ELSE <<>>]
           ELSE [st |-> st, out |-> <<>>]
      [] mode = "multi" ->
           LET blind == IF st.found THEN <<<<"ACK", h, "continue">>>> ELSE <<>> IN
           IF known
           THEN LET c2 == Append(st.common, h)
                    f2 == st.found \/ AllSatisfied(U, wants, {c2[i] : i \in 1..Len(c2)})
                IN  [st |-> [common |-> c2, found |-> f2, haves |-> Append(st.haves, h)],
                     out |-> blind \o (IF st.found THEN <<>> ELSE <<<<"ACK", h, "continue">>>>)]
           ELSE [st |-> st, out |-> blind]
      [] OTHER ->  \* "detailed"
           IF known
           THEN [st |-> [st EXCEPT !.common = Append(@, h), !.haves = Append(@, h)],
                 out |-> <<<<"ACK", h, "common">>>>]
           ELSE [st |-> st, out |-> <<>>]

\* a flush-pkt in the middle of the haves (C git clients; the dulwich client never sends one)
SrvFlush(U, wants, mode, st) ==
    CASE mode = "multi"    -> <<<<"NAK">>>>
      [] mode = "detailed" -> (IF AllSatisfied(U, wants, {st.common[i] : i \in 1..Len(st.common)})
                               THEN <<<<"ACK", st.common[Len(st.common)], "ready">>>> ELSE <<>>) \o <<<<"NAK">>>>
      [] OTHER             -> <<>>         \* single: a flush ends the have list like "done"

\* handle_done after "done"
SrvDone(mode, st) ==
    CASE mode = "single" -> IF st.common = <<>> THEN <<<<"NAK">>>> ELSE <<>>
      [] OTHER           -> IF st.common = <<>> THEN <<<<"NAK">>>>
                            ELSE <<<<"ACK", st.common[Len(st.common)], "">>>>

(***************************************************************************)
(* Part 4 -- one transfer                                                   *)
(***************************************************************************)
Pool == << {B(1)},             \* t1: f1
           {B(1), B(2)},       \* t2: f1 f2        (shares b1 with t1)
           {T(1), B(3)},       \* t3: d1/ f3       (t1 as a subtree)
           {T(1), B(2)},       \* t4: d1/ f2 sub@  (t1 as a subtree, b2 shared with t2, gitlink)
           {T(3), B(1)} >>     \* t5: d3/ f1       (nested: t3 -> t1)
PoolLink == <<FALSE, FALSE, FALSE, TRUE, FALSE>>

RECURSIVE Dags(_)
Dags(k) == IF k = 0 THEN {<<>>} ELSE {Append(d, P) : d \in Dags(k - 1), P \in SUBSET (1..(k - 1))}

TagTargets == {C(i) : i \in 1..NC} \cup {T(1), B(2)}
TagSeqs == {<<>>}
           \cup (IF NT >= 1 THEN {<<a>> : a \in TagTargets} ELSE {})
           \cup (IF NT >= 2 THEN {<<a, b>> : a \in TagTargets, b \in TagTargets \cup {G(1)}} ELSE {})

Universes == {[par |-> p, tr |-> t, ent |-> Pool, lnk |-> PoolLink, tg |-> g] :
                 p \in Dags(NC), t \in [1..NC -> 1..NTP], g \in TagSeqs}

\* a case: universe, sender branch heads, "sender keeps unreferenced objects", receiver branch
\* heads and tag refs, wants, ack mode, include-tag, thin-pack
SenderRefs(U, sh)   == {C(i) : i \in sh} \cup TagsOf(U)          \* every tag has a ref on the sender
SenderStore(U, sh, full) == IF full THEN AllObjects(U) ELSE Closure(U, SenderRefs(U, sh))
ReceiverTips(rh, rt) == {C(i) : i \in rh} \cup {G(j) : j \in rt}

WantSets(U, sh, full) ==
    {w \in SUBSET SenderRefs(U, sh) : w # {} /\ Cardinality(w) <= MaxWants}
    \cup (IF Forge THEN {{o} : o \in SenderStore(U, sh, full) \ SenderRefs(U, sh)} ELSE {})

VARIABLES
    cs,        \* the case (constant during a behaviour)
    rstore,    \* receiver's object store
    cpc,       \* client: "head" | "tail" | "end" | "failed"
    heads, wp, inVain, gotAck, mayRead,
    s2c,       \* FIFO channel server -> client
    spc,       \* server: "wants" | "haves" | "mof" | "end" | "refused"
    st,        \* server negotiation state [common, found, haves]
    tagged, todo, shaDone, sent, remoteHas, bases,
    outcome    \* "" | "ok" | "refused" | "client_error" | "unresolved"

vars == <<cs, rstore, cpc, heads, wp, inVain, gotAck, mayRead, s2c, spc, st,
          tagged, todo, shaDone, sent, remoteHas, bases, outcome>>

U_       == [par |-> cs.par, tr |-> cs.tr, ent |-> Pool, lnk |-> PoolLink, tg |-> cs.tg]
SRefs    == cs.srefs
SStore   == cs.sstore
RStore0  == cs.r0

Init ==
    /\ \E u \in Universes, sh \in (SUBSET (1..NC)) \ {{}}, full \in SFull, rh \in SUBSET (1..NC),
          m \in Modes, it \in IncTag, th \in Thin :
         \E rt \in SUBSET (1..Len(u.tg)), w \in WantSets(u, sh, full) :
            cs = [par |-> u.par, tr |-> u.tr, tg |-> u.tg, sh |-> sh, full |-> full, rh |-> rh, rt |-> rt, wants |-> w,
                  mode |-> m, inctag |-> it, thin |-> th,
                  \* derived once per case (constant during the behaviour)
                  srefs |-> SenderRefs(u, sh), sstore |-> SenderStore(u, sh, full),
                  r0 |-> Closure(u, ReceiverTips(rh, rt))]
    /\ rstore = RStore0
    /\ cpc = "head" /\ heads = cs.rh /\ wp = WalkerInit(Len(cs.par)) /\ inVain = 0 /\ gotAck = FALSE /\ mayRead = FALSE
    /\ s2c = <<>>
    /\ spc = "wants" /\ st = [common |-> <<>>, found |-> FALSE, haves |-> <<>>]
    /\ tagged = <<>> /\ todo = {} /\ shaDone = {} /\ sent = {} /\ remoteHas = {} /\ bases = {}
    /\ outcome = ""

cvars == <<heads, wp, inVain, gotAck, mayRead, cpc>>
mvars == <<tagged, todo, shaDone, sent, remoteHas, bases>>

(* Reduction used below.  The server's reaction to a have depends only on the sequence of haves  *)
(* it has read, never on timing, and the channels are FIFO; the client reads at most one packet  *)
(* after each have and only if one is there (can_read()).  So "the server has not answered yet"  *)
(* is indistinguishable from "the client did not look" (CNoRead), and the server's step can be   *)
(* taken together with the client's write without losing any behaviour of either side.           *)
---------------------------------------------------------------------------
(* server: determine_wants -- want validation against the advertised values *)
SWants ==
    /\ spc = "wants"
    /\ IF cs.wants \subseteq SRefs \/ Bug = "NoWantCheck"
       THEN spc' = "haves" /\ UNCHANGED <<outcome, cpc>>
       ELSE spc' = "refused" /\ outcome' = "refused" /\ cpc' = "failed"    \* GitProtocolError, connection closed
    /\ UNCHANGED <<cs, rstore, heads, wp, inVain, gotAck, mayRead, s2c, st, mvars>>

(* client: _handle_upload_pack_head: have = next(graph_walker); write "have"; in_vain += 1;      *)
(* server: find_common_revisions reads it (next), acks it if the object is in its store          *)
Have ==
    /\ ~AtomicNeg /\ cpc = "head" /\ ~mayRead /\ spc = "haves"
    /\ \E h \in heads :
         LET n == WalkerNext(U_, heads, wp, h)
             r == SrvHave(U_, SStore, cs.wants, cs.mode, st, C(h)) IN
         /\ heads' = n.heads /\ wp' = n.wp
         /\ st' = r.st /\ s2c' = s2c \o r.out
    /\ inVain' = inVain + 1 /\ mayRead' = TRUE
    /\ UNCHANGED <<cs, rstore, gotAck, cpc, spc, mvars, outcome>>

CRead ==          \* can_read() was true: read one pkt
    /\ cpc = "head" /\ mayRead /\ s2c # <<>>
    /\ LET p == Head(s2c) IN
         /\ s2c' = Tail(s2c)
         /\ IF p[1] = "ACK"
            THEN IF p[3] = ""        \* "ACK <sha>" has no third field: parts[2] raises IndexError
                 THEN /\ cpc' = "failed" /\ outcome' = "client_error"
                      /\ UNCHANGED <<heads, wp, inVain, gotAck>>
                 ELSE LET a == WalkerAck(heads, wp, {Num(p[2])}) IN
                      /\ heads' = a.heads /\ wp' = a.wp /\ inVain' = 0 /\ gotAck' = TRUE
                      /\ UNCHANGED <<cpc, outcome>>
            ELSE UNCHANGED <<heads, wp, inVain, gotAck, cpc, outcome>>
    /\ mayRead' = FALSE
    /\ UNCHANGED <<cs, rstore, spc, st, mvars>>

CNoRead ==        \* can_read() was false
    /\ cpc = "head" /\ mayRead
    /\ mayRead' = FALSE
    /\ UNCHANGED <<cs, rstore, heads, wp, inVain, gotAck, cpc, s2c, spc, st, mvars, outcome>>

MofStart(hs) ==
    \E tg \in (IF cs.inctag THEN TaggedChoices(U_, TagsOf(U_)) ELSE {<<>>}) :
         LET i == MofInit(U_, SStore, hs, cs.wants) IN
         /\ tagged' = tg
         \* negative control: every advertised tag is added, whether or not its target is sent
         /\ todo' = IF Bug = "TaggedAny" /\ cs.inctag
                    THEN i.todo \cup {<<g, TRUE>> : g \in TagsOf(U_)} ELSE i.todo
         /\ shaDone' = i.remoteHas /\ remoteHas' = i.remoteHas /\ sent' = {}

(* the walker is exhausted or the in_vain cut-off fired: the client writes "done", the server's  *)
(* find_common_revisions returns and MissingObjectFinder is set up                               *)
Done ==
    /\ ~AtomicNeg /\ cpc = "head" /\ ~mayRead /\ spc = "haves"
    /\ heads = {} \/ (inVain >= MaxInVain /\ gotAck)
    /\ cpc' = "tail" /\ spc' = "mof"
    /\ MofStart({st.haves[i] : i \in 1..Len(st.haves)})
    /\ UNCHANGED <<cs, rstore, heads, wp, inVain, gotAck, mayRead, s2c, st, bases, outcome>>

(* both sides in one step (object-graph configurations): the walk runs to the end *)
AtomicNegotiation ==
    /\ AtomicNeg /\ spc = "haves" /\ cpc = "head"
    /\ LET hs == CompleteWalk(U_, SStore, cs.rh, WalkerInit(Len(cs.par)), {}) IN
         /\ MofStart(hs)
         /\ st' = [st EXCEPT !.haves = SetToSeqLeast(hs)]
    /\ spc' = "mof" /\ cpc' = "tail"
    /\ UNCHANGED <<cs, rstore, heads, wp, inVain, gotAck, mayRead, s2c, bases, outcome>>

(* server: list(missing_objects) -- MissingObjectFinder.__next__ until StopIteration.          *)
(* PopAny: one popped entry per step, any entry (set.pop()); otherwise the whole iteration in    *)
(* one step in the fixed order of MofRun (the PopAny configurations show the order is irrelevant)*)
SMofStep ==
    /\ PopAny /\ spc = "mof" /\ todo # {}
    /\ \E e \in todo :
         LET r == MofStep(U_, tagged, todo, shaDone, sent, e) IN
         todo' = r.todo /\ shaDone' = r.shaDone /\ sent' = r.sent
    /\ UNCHANGED <<cs, rstore, cvars, s2c, spc, st, tagged, remoteHas, bases, outcome>>

SMofAll ==
    /\ ~PopAny /\ spc = "mof" /\ todo # {}
    /\ sent' = MofRun(U_, tagged, todo, shaDone, sent)
    /\ todo' = {} /\ shaDone' = shaDone \cup sent'
    /\ UNCHANGED <<cs, rstore, cvars, s2c, spc, st, tagged, remoteHas, bases, outcome>>

(* server: handle_done + write the pack; with thin-pack the deltas may use any object of
   remote_has as a base (find_reusable_deltas: base in object_ids or in other_haves) *)
SPack ==
    /\ spc = "mof" /\ todo = {}
    /\ \E b \in (IF cs.thin THEN {{}, remoteHas} ELSE {{}}) : bases' = b
    /\ s2c' = s2c \o (IF AtomicNeg THEN <<>> ELSE SrvDone(cs.mode, st)) \o <<<<"PACK">>>>
    /\ spc' = "end"
    /\ UNCHANGED <<cs, rstore, cvars, st, tagged, todo, shaDone, sent, remoteHas, outcome>>

(* client: _handle_upload_pack_tail reads the remaining ACK / NAK lines (walker.ack has no       *)
(* effect on the result any more), then the pack is completed and installed                      *)
CTail ==
    /\ cpc = "tail" /\ s2c # <<>> /\ s2c[Len(s2c)][1] = "PACK"
    /\ s2c' = <<>>
    /\ IF bases \subseteq rstore \cup sent
       THEN rstore' = rstore \cup sent /\ outcome' = "ok" /\ cpc' = "end"
       ELSE outcome' = "unresolved" /\ cpc' = "failed" /\ UNCHANGED rstore
    /\ UNCHANGED <<cs, heads, wp, inVain, gotAck, mayRead, spc, st, mvars>>

Next == SWants \/ Have \/ CRead \/ CNoRead \/ Done \/ AtomicNegotiation \/ SMofStep \/ SMofAll \/ SPack \/ CTail

Spec == Init /\ [][Next]_vars

---------------------------------------------------------------------------
(* properties *)
WantClosure == Closure(U_, cs.wants)
AutoTags ==       \* tags the sender may add on its own when include-tag was requested
    IF cs.inctag THEN UNION {TagChain(U_, g) : g \in {t \in TagsOf(U_) : Peel(U_, t) \in WantClosure}} ELSE {}

TypeOK ==
    /\ cpc \in {"head", "tail", "end", "failed"}
    /\ spc \in {"wants", "haves", "mof", "end", "refused"}
    /\ outcome \in {"", "ok", "refused", "client_error", "unresolved"}

\* the case is inside the property's antecedent: both stores closed, receiver complete
Antecedent == spc = "wants" => (Closed(U_, SStore) /\ Closed(U_, RStore0))

\* after a successful transfer the receiver holds everything reachable from what it asked for,
\* and is closed again
ReceiverComplete ==
    outcome = "ok" => /\ WantClosure \subseteq rstore
                      /\ Closure(U_, ReceiverTips(cs.rh, cs.rt) \cup cs.wants) \subseteq rstore

NoLoss == outcome = "ok" => RStore0 \subseteq rstore

\* nothing outside the closure of the wants (apart from auto-followed tags), nothing the
\* advertised refs do not reach, nothing the sender does not have; checked while the pack is
\* being assembled, not only at the end
SenderSound ==
    sent # {} =>
    /\ sent \subseteq WantClosure \cup AutoTags
    /\ sent \subseteq Closure(U_, SRefs)
    /\ sent \subseteq SStore

\* a want that is not an advertised value is refused and nothing is sent
WantValidation ==
    ~(cs.wants \subseteq SRefs) => (sent = {} /\ outcome \in {"", "refused"} /\ spc \in {"wants", "refused"})

\* a thin pack can always be completed by the receiver
ThinResolvable == outcome # "unresolved"

\* the pack content does not depend on the order in which the work set is processed and equals
\* the closed form used for judging real transfers
Confluent ==
    (spc = "end" /\ ~(Bug = "TaggedAny")) =>
        sent = MofSent(U_, SStore, {st.haves[i] : i \in 1..Len(st.haves)}, cs.wants, tagged)

\* the server only ever counts as common what the receiver really has (so remote_has is sound)
HavesSound == spc \in {"mof", "end"} => \A i \in 1..Len(st.haves) : st.haves[i] \in RStore0 \cap SStore
=============================================================================

------------------------------ MODULE StreamRd ------------------------------
(***************************************************************************)
(* dulwich/protocol.py:ReceivableProtocol (read / recv over a socket-like  *)
(* _recv that may return fewer bytes than asked) and Protocol.read_pkt_line*)
(* / unread_pkt_line / eof on top of it, as a state machine with one step  *)
(* per call of _recv.  The environment chooses, at every _recv(asked), how *)
(* many bytes k in 1..min(asked, remaining) arrive (0 only at end of       *)
(* stream): the behaviours of the machine are exactly the partitions of    *)
(* the byte stream into chunks.                                            *)
(*                                                                         *)
(*   read(size)   : size bytes unless the stream ends; buffered bytes      *)
(*                  first, then _recv(left) until complete                 *)
(*   recv(size)   : 1..size bytes; refills _rbuf with _recv(_rbufsize)     *)
(*                  only when it is empty                                  *)
(*   read_pkt_line: read(4); length prefix; read(n - 4)                    *)
(*   eof          : read_pkt_line; HangupException -> True; else unread    *)
(*   unread       : _readahead = pkt_line(data), served to the next        *)
(*                  read_pkt_line                                          *)
(*                                                                         *)
(* The oracle is independent of the machine: `logical` is the byte string  *)
(* the client has not consumed yet, `want` is what the PktLine reference   *)
(* says the operation just started must return.  Properties: OpExact (the  *)
(* result equals the reference: RoundTrip under every partition),          *)
(* TotalDecoder (an operation ends with a result, HangupException or       *)
(* GitProtocolError, nothing else), Conservation (no byte lost, duplicated *)
(* or reordered between wire, buffers and client).                         *)
(***************************************************************************)
EXTENDS Integers, Sequences, FiniteSets, TLC, Json

CONSTANTS Scen,               \* "pkts" | "mixed": which streams / operation menu
          RBuf,               \* _rbufsize
          MaxOps,             \* operations per behaviour
          MaxItems,           \* item sequences up to this length
          MaxLen,             \* only streams up to this many bytes
          Gen,                \* TRUE: keep the history (behaviour tree for replay); FALSE: state graph
          EmptyReadAsserts    \* TRUE: read(0) raises AssertionError (the code as it is: read_pkt_line
                              \*       on the frame "0004"); FALSE: an empty payload is returned

P == INSTANCE PktLine WITH Family <- "none", case <- 0, exp <- 0

Min(a, b) == IF a < b THEN a ELSE b
Take(s, n) == SubSeq(s, 1, Min(n, Len(s)))
Drop(s, n) == SubSeq(s, Min(n, Len(s)) + 1, Len(s))

\* ---------------------------------------------------------------- scenarios
ItemSeqs == P!SeqsUpTo(P!SmallItems, MaxItems)
GoodStreams == {P!Encode(is) : is \in ItemSeqs}
Prefixes(S) == UNION {{SubSeq(s, 1, k) : k \in 0..Len(s)} : s \in S}
\* not frames: length 3, response-end, sign, 0x, blank, short payload; and an upper-case prefix that is one
BadStreams == {<<48, 48, 48, 51>>, <<48, 48, 48, 50>>, <<43, 48, 48, 53, 9>>, <<48, 120, 48, 53, 9>>,
               <<45, 48, 48, 49>>, <<32, 48, 48, 53, 9>>, <<48, 48, 95, 53, 9>>, <<48, 48, 70, 70, 1, 2, 3>>,
               <<48, 48, 48, 65, 1, 2, 3, 4, 5, 6>>, <<48, 48, 48, 54, 1, 2, 48, 48, 48, 103>>}
Raw == {<<1, 2, 3, 4, 5, 6, 7>>,
        P!Encode(<<P!Data(<<7>>), P!Flush>>) \o <<1, 2, 3, 4, 5>>,
        P!Encode(<<P!Data(<<>>), P!Data(<<48, 48>>)>>),
        P!Encode(<<P!Delim, P!Data(<<9>>)>>) \o <<48, 48>>}
Streams == {s \in (IF Scen = "pkts" THEN Prefixes(GoodStreams) \cup BadStreams ELSE Raw) : Len(s) <= MaxLen}

Op(t, n) == [t |-> t, n |-> n]
Menu == IF Scen = "pkts" THEN {Op("pkt", 0)}
        ELSE {Op("read", 1), Op("read", 2), Op("read", 5), Op("recv", 1), Op("recv", 2), Op("recv", 4),
              Op("pkt", 0), Op("eof", 0), Op("unread", 0)}

VARIABLES stream,    \* the bytes the peer sends
          pos,       \* bytes handed over by _recv so far
          rb,        \* unread part of _rbuf
          ra,        \* _readahead: [set, b]
          pc, cur,   \* control state, operation in progress
          rd, cont,  \* read() frame [size, got] and who called it ("top" | "hdr" | "body")
          hdrn,      \* value of the length prefix of the frame being read
          nops, halted,
          logical, want,   \* oracle
          last,      \* outcome of the last completed operation
          hist       \* Gen only: what happened, for replay
vars == <<stream, pos, rb, ra, pc, cur, rd, cont, hdrn, nops, halted, logical, want, last, hist>>

NoRes == [t |-> "none", n |-> 0, st |-> "none", k |-> "-", d |-> <<>>]
Res(st, k, d) == [t |-> cur.t, n |-> cur.n, st |-> st, k |-> k, d |-> d]
Ev(e, s, a, b, k, d) == <<e, s, a, b, k, d>>
Log(x) == hist' = IF Gen THEN Append(hist, x) ELSE hist

Init ==
    /\ stream \in Streams
    /\ pos = 0 /\ rb = <<>> /\ ra = [set |-> FALSE, b |-> <<>>]
    /\ pc = "idle" /\ cur = Op("none", 0) /\ rd = [size |-> 0, got |-> <<>>] /\ cont = "top" /\ hdrn = 0
    /\ nops = 0 /\ halted = FALSE
    /\ logical = stream /\ want = NoRes /\ last = NoRes /\ hist = <<>>

\* ---------------------------------------------------------------- oracle (PktLine reference)
\* unread_pkt_line(None) writes a flush-pkt whatever None stood for
Reframe(it) == IF it.k = "data" THEN P!EncItem(it) ELSE P!EncItem(P!Flush)
WantPkt(s) == LET d == P!Decode1(s) IN
    IF d.st = "eof" THEN [st |-> "hangup", k |-> "-", d |-> <<>>, adv |-> 0]
    ELSE IF d.st = "err" \/ d.it.k = "respend" THEN [st |-> "proterr", k |-> "-", d |-> <<>>, adv |-> 0]
    ELSE IF d.it.k = "data" THEN [st |-> "ok", k |-> "data", d |-> d.it.p, adv |-> d.n]
    ELSE [st |-> "ok", k |-> "none", d |-> <<>>, adv |-> d.n]
Oracle(o) ==
    IF o.t = "read" THEN [st |-> "ok", k |-> "bytes", d |-> Take(logical, o.n), adv |-> Min(o.n, Len(logical))]
    ELSE IF o.t = "recv" THEN [st |-> "ok", k |-> "some", d |-> Take(logical, o.n), adv |-> 0]
    ELSE IF o.t = "pkt" THEN WantPkt(logical)
    ELSE IF o.t = "eof" THEN LET w == WantPkt(logical) IN
         IF w.st = "hangup" THEN [st |-> "ok", k |-> "true", d |-> <<>>, adv |-> 0]
         ELSE IF w.st = "proterr" THEN w
         ELSE [st |-> "ok", k |-> "false", d |-> <<>>, adv |-> 0]
    ELSE [st |-> "ok", k |-> "-", d |-> <<>>, adv |-> 0]

\* ---------------------------------------------------------------- operations
Complete(st, k, d) ==
    /\ last' = Res(st, k, d)
    /\ pc' = "idle"
    /\ halted' = (st # "ok")
    /\ Log(Ev("ret", st, Len(rb'), 0, k, IF k \in {"bytes", "some", "data"} THEN d ELSE <<>>))

Start(o) ==
    /\ pc = "idle" /\ ~halted /\ nops < MaxOps
    /\ o.t \in {"read", "recv"} => ~ra.set                \* raw reads bypass _readahead: clients never mix them
    /\ o.t = "unread" => (last.t = "pkt" /\ last.st = "ok" /\ ~ra.set)
    /\ cur' = o /\ nops' = nops + 1
    /\ want' = Oracle(o)
    \* (the history also records the length prefix the operation is about to meet: -2 = fewer than 4 bytes)
    /\ hist' = IF Gen THEN Append(hist, Ev("op", o.t, o.n, IF o.t \in {"pkt", "eof"} /\ Len(logical) >= 4
                                                             THEN P!LenPrefix(Take(logical, 4)) ELSE 0 - 2, "-", <<>>)) ELSE hist
    /\ UNCHANGED <<stream, pos, rb, hdrn, halted, last>>
    /\ IF o.t = "read" THEN
            /\ pc' = "rd_begin" /\ rd' = [size |-> o.n, got |-> <<>>] /\ cont' = "top"
            /\ logical' = Drop(logical, o.n) /\ UNCHANGED ra
       ELSE IF o.t = "recv" THEN
            /\ pc' = "rv_begin" /\ UNCHANGED <<rd, cont, ra, logical>>        \* logical advances when the length is known
       ELSE IF o.t \in {"pkt", "eof"} THEN
            /\ IF ra.set THEN pc' = "pkt_ra" /\ UNCHANGED <<rd, cont>>
               ELSE pc' = "rd_begin" /\ rd' = [size |-> 4, got |-> <<>>] /\ cont' = "hdr"
            /\ LET w == WantPkt(logical) IN
               logical' = IF w.st # "ok" THEN logical
                          ELSE IF o.t = "pkt" THEN Drop(logical, w.adv)
                          ELSE Reframe(P!Decode1(logical).it) \o Drop(logical, w.adv)
            /\ UNCHANGED ra
       ELSE \* unread the line just read
            /\ pc' = "un" /\ UNCHANGED <<rd, cont, ra>>
            /\ logical' = Reframe(IF last.k = "data" THEN P!Data(last.d) ELSE P!Flush) \o logical

Unread ==
    /\ pc = "un"
    /\ ra' = [set |-> TRUE, b |-> Reframe(IF last.k = "data" THEN P!Data(last.d) ELSE P!Flush)]
    /\ UNCHANGED <<stream, pos, rb, cur, rd, cont, hdrn, nops, logical, want>>
    /\ last' = [Res("ok", "-", <<>>) EXCEPT !.t = "pkt", !.k = last.k, !.d = last.d]   \* still "the line just read"
    /\ pc' = "idle" /\ halted' = FALSE
    /\ Log(Ev("ret", "ok", Len(rb), 0, "-", <<>>))

\* ---- read(size)
RdBegin ==
    /\ pc = "rd_begin"
    /\ IF Len(rb) >= rd.size
       THEN rd' = [rd EXCEPT !.got = Take(rb, rd.size)] /\ rb' = Drop(rb, rd.size) /\ pc' = "rd_done"
       ELSE rd' = [rd EXCEPT !.got = rb] /\ rb' = <<>> /\ pc' = "rd_loop"
    /\ UNCHANGED <<stream, pos, ra, cur, cont, hdrn, nops, halted, logical, want, last, hist>>

RdRecv(k) ==
    /\ pc = "rd_loop"
    /\ LET left == rd.size - Len(rd.got)
           avail == Len(stream) - pos
           got == rd.got \o SubSeq(stream, pos + 1, pos + k) IN
       /\ k \in (IF avail = 0 THEN {0} ELSE 1..Min(left, avail))
       /\ rd' = [rd EXCEPT !.got = got]
       /\ pos' = pos + k
       /\ pc' = IF k = 0 \/ Len(got) = rd.size THEN "rd_done" ELSE "rd_loop"
       /\ Log(Ev("rx", "read", left, k, "-", <<>>))
    /\ UNCHANGED <<stream, rb, ra, cur, cont, hdrn, nops, halted, logical, want, last>>

\* the frame just decoded goes to the caller (read_pkt_line) or back into _readahead (eof)
PktResult(st, k, d) ==
    IF cur.t = "pkt" \/ st = "proterr" THEN Complete(st, k, d) /\ UNCHANGED ra
    ELSE IF st = "hangup" THEN Complete("ok", "true", <<>>) /\ UNCHANGED ra
    ELSE /\ ra' = [set |-> TRUE, b |-> Reframe(IF k = "data" THEN P!Data(d) ELSE P!Flush)]
         /\ Complete("ok", "false", <<>>)

RdDone ==
    /\ pc = "rd_done"
    /\ UNCHANGED <<stream, pos, rb, cur, nops, logical, want>>
    /\ IF cont = "top" THEN Complete("ok", "bytes", rd.got) /\ UNCHANGED <<ra, rd, cont, hdrn>>
       ELSE IF cont = "hdr" THEN
            IF rd.got = <<>> THEN PktResult("hangup", "-", <<>>) /\ UNCHANGED <<rd, cont, hdrn>>
            ELSE LET n == P!LenPrefix(rd.got) IN
                 IF n < 0 \/ n \in {2, 3} THEN PktResult("proterr", "-", <<>>) /\ UNCHANGED <<rd, cont, hdrn>>
                 ELSE IF n \in {0, 1} THEN PktResult("ok", "none", <<>>) /\ UNCHANGED <<rd, cont, hdrn>>
                 ELSE IF n = 4 /\ ~EmptyReadAsserts THEN PktResult("ok", "data", <<>>) /\ UNCHANGED <<rd, cont, hdrn>>
                 ELSE IF n = 4 THEN Complete("crash", "-", <<>>) /\ UNCHANGED <<ra, rd, cont, hdrn>>
                 ELSE /\ pc' = "rd_begin" /\ rd' = [size |-> n - 4, got |-> <<>>] /\ cont' = "body" /\ hdrn' = n
                      /\ UNCHANGED <<ra, halted, last, hist>>
       ELSE \* body
            /\ IF Len(rd.got) + 4 # hdrn THEN PktResult("proterr", "-", <<>>) ELSE PktResult("ok", "data", rd.got)
            /\ UNCHANGED <<rd, cont, hdrn>>

\* ---- read_pkt_line served from _readahead (a BytesIO: never short)
PktRa ==
    /\ pc = "pkt_ra"
    /\ UNCHANGED <<stream, pos, rb, cur, rd, cont, hdrn, nops, logical, want>>
    /\ LET w == WantPkt(ra.b) IN
       IF cur.t = "pkt" THEN Complete(w.st, w.k, w.d) /\ ra' = [set |-> FALSE, b |-> <<>>]
       ELSE Complete("ok", "false", <<>>) /\ ra' = [set |-> TRUE, b |-> Reframe(IF w.k = "data" THEN P!Data(w.d) ELSE P!Flush)]

\* ---- recv(size)
RvBegin ==
    /\ pc = "rv_begin"
    /\ IF rb # <<>>
       THEN /\ rb' = Drop(rb, cur.n)
            /\ logical' = Drop(logical, Min(cur.n, Len(rb)))
            /\ Complete("ok", "some", Take(rb, cur.n))
       ELSE pc' = "rv_wire" /\ UNCHANGED <<rb, logical, halted, last, hist>>
    /\ UNCHANGED <<stream, pos, ra, cur, rd, cont, hdrn, nops, want>>

RvRecv(k) ==
    /\ pc = "rv_wire"
    /\ LET avail == Len(stream) - pos
           data == SubSeq(stream, pos + 1, pos + k) IN
       /\ k \in (IF avail = 0 THEN {0} ELSE 1..Min(RBuf, avail))
       /\ pos' = pos + k
       /\ rb' = Drop(data, cur.n)
       /\ logical' = Drop(logical, Min(cur.n, k))
       /\ last' = Res("ok", "some", Take(data, cur.n))
       /\ pc' = "idle" /\ halted' = FALSE
       /\ hist' = IF Gen THEN hist \o <<Ev("rx", "recv", RBuf, k, "-", <<>>),
                                        Ev("ret", "ok", Len(rb'), 0, "some", Take(data, cur.n))>> ELSE hist
    /\ UNCHANGED <<stream, ra, cur, rd, cont, hdrn, nops, want>>

Next ==
    \/ \E o \in Menu : Start(o)
    \/ Unread \/ RdBegin \/ RdDone \/ PktRa \/ RvBegin
    \/ \E k \in 0..Len(stream) : RdRecv(k) \/ RvRecv(k)

Spec == Init /\ [][Next]_vars

\* ---------------------------------------------------------------- properties
Idle == pc = "idle"

\* the operation returned what the reference says, whatever the partition (RoundTrip)
OpExact == (Idle /\ last.t \notin {"none", "unread"}) =>
    /\ last.st = want.st
    /\ last.st = "ok" =>
         IF want.k = "some"                                   \* recv: 1..n bytes, the next ones
         THEN /\ last.k = "some" /\ Len(last.d) <= last.n
              /\ last.d = Take(want.d, Len(last.d))
              /\ (want.d # <<>>) => last.d # <<>>
         ELSE (want.k = "-" \/ (last.k = want.k /\ last.d = want.d))

\* an operation ends with a result, a hang-up or a protocol error -- nothing else
TotalDecoder == last.st \in {"none", "ok", "hangup", "proterr"}

\* between operations: what is buffered plus what is still on the wire is what the client has not seen
Conservation == Idle => (ra.b \o rb \o SubSeq(stream, pos + 1, Len(stream)) = logical \/ halted)

\* read() never over-reads: only recv() leaves bytes in _rbuf, and never more than _rbufsize
BufferBound == Len(rb) <= RBuf

Done == Idle /\ (halted \/ nops = MaxOps)
\* Gen: every complete behaviour (stream, operations, chunk sizes, expected results) goes to the harness
EmitLeaf == (Gen /\ Done) => PrintT(ToJson([leaf |-> "StreamRd", stream |-> stream, hist |-> hist]))
=============================================================================

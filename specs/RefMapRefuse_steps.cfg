SPECIFICATION StepSpec
CONSTANTS
  Names <- NamesR
  Values = {"v1", "v2"}
  MaxDepth = 5
  LooseFirst = FALSE
INVARIANT RefusedUnchanged
INVARIANT DoneApplied
CHECK_DEADLOCK FALSE

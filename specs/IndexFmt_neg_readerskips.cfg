SPECIFICATION Spec
CONSTANTS
  NameMask = 7
  Family = "neg"
  MaxKeys = 2
  MaxEdits = 1
  Defect = "readerskips"
INVARIANT ChecksumInv
CHECK_DEADLOCK FALSE

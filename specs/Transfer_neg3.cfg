\* negotiation-focused (quick + thorough): every DAG on 3 commits, one tree, no tags; sender heads x receiver heads x wants x ack mode x 'sender keeps unreferenced objects' x forged wants; all have/ACK interleavings
\* (harness/props/c05.py writes the same configuration at run time; TransferCases uses the same constants
\*  plus SampleMod / SampleSeed)
SPECIFICATION Spec
CONSTANTS
  NC = 3
  NTP = 1
  NT = 0
  MaxHeads = 3
  MaxWants = 2
  Modes = {"single", "multi", "detailed"}
  IncTag = {FALSE}
  Thin = {FALSE}
  SFull = {FALSE, TRUE}
  Forge = TRUE
  MaxInVain = 2
  AtomicNeg = FALSE
  PopAny = FALSE
  MaxDangle = 0
  Bug = "none"
INVARIANT TypeOK
INVARIANT Antecedent
INVARIANT ReceiverComplete
INVARIANT NoLoss
INVARIANT SenderSound
INVARIANT WantValidation
INVARIANT ThinResolvable
INVARIANT Confluent
INVARIANT HavesSound
CHECK_DEADLOCK FALSE

SPECIFICATION Spec
CONSTANTS
  Family = "sbmix"
INVARIANT Theorems
CHECK_DEADLOCK FALSE

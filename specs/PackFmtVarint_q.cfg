SPECIFICATION Spec
CONSTANTS
  Small = 20000
  Plain = FALSE
INVARIANT Lemma
CHECK_DEADLOCK FALSE

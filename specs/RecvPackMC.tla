----------------------------- MODULE RecvPackMC -----------------------------
(***************************************************************************)
(* Finite instances of RecvPack: initial server states and push spaces.    *)
(* Objects: 1, 2 = commits the server has (A, B); 3 = a commit that exists *)
(* only in the pack the client sends (C); 4 = a commit that is neither in  *)
(* the server's store nor in the pack (M).                                 *)
(***************************************************************************)
EXTENDS RecvPack

AllCaps == {"report-status", "atomic", "side-band-64k", "delete-refs"}
Cmd(r, o, n) == [r |-> r, old |-> o, new |-> n]
PackFor(cmds) == IF \E i \in DOMAIN cmds : cmds[i].new = 3 THEN {3} ELSE {}
Needs(cmds) == \E i \in DOMAIN cmds : cmds[i].new # 0
CmdRefs(cmds) == {cmds[i].r : i \in DOMAIN cmds}

Wire(cmds, caps, v) ==
    [kind |-> "wire", cmds |-> cmds, caps |-> caps, pack |-> PackFor(cmds),
     packok |-> v[1], decl |-> v[2], predecl |-> v[3]]
Local(cmds, atomic) ==
    [kind |-> "local", cmds |-> cmds, caps |-> IF atomic THEN {"atomic"} ELSE {}, pack |-> PackFor(cmds),
     packok |-> TRUE, decl |-> {}, predecl |-> FALSE]

Plain == <<TRUE, {}, FALSE>>
\* every way a push can be made to fail other than through its old values
VarAll(cmds) == {Plain, <<TRUE, {}, TRUE>>}
                \cup (IF Needs(cmds) THEN {<<FALSE, {}, FALSE>>} ELSE {})
                \cup {<<TRUE, {r}, FALSE>> : r \in CmdRefs(cmds)}
\* plain, damaged pack, update hook declines the ref of the last command
VarSome(cmds) == {Plain, <<TRUE, {cmds[Len(cmds)].r}, FALSE>>}
                 \cup (IF Needs(cmds) THEN {<<FALSE, {}, FALSE>>} ELSE {})

Cmd1(os, ns) == {<<Cmd(r, o, n)>> : r \in Refs, o \in os, n \in ns}
Cmd2(os, ns) == UNION {{<<Cmd(r1, o1, n1), Cmd(r2, o2, n2)>> :
                               r2 \in Refs \ {r1}, o1 \in os, o2 \in os, n1 \in ns, n2 \in ns} : r1 \in Refs}
\* all wire pushes with command lists cs, capability sets cps, failure variants V(c)
WAll(cs, cps) == UNION {{Wire(c, caps, v) : caps \in cps, v \in VarAll(c)} : c \in cs}
WSome(cs, cps) == UNION {{Wire(c, caps, v) : caps \in cps, v \in VarSome(c)} : c \in cs}

InitsOver(vals) == {[refs |-> f, store |-> {1, 2}] : f \in [Refs -> vals]}
Inits01 == InitsOver({0, 1})
Inits012 == InitsOver({0, 1, 2})

One(S) == {[p \in Pushers |-> d] : d \in S}

OldV == {0, 1, 2}
NewV == {0, 1, 3, 4}
CapsFew == {{"report-status"}, {"report-status", "atomic"}, AllCaps, {"atomic", "side-band-64k"}}

\* ---- sequential case spaces (one pusher) ------------------------------------------------
\* quick: one command x every capability set x every failure variant; two commands x four
\* capability sets x three variants
WireQuick ==
    One(WAll(Cmd1(OldV, NewV), SUBSET AllCaps) \cup WSome(Cmd2(OldV, NewV), CapsFew))
\* thorough: everything x everything
WireFull ==
    One(WAll(Cmd1(OldV, NewV) \cup Cmd2(OldV, NewV), SUBSET AllCaps))
\* model checking only (no emission): one capability set per behaviourally distinct class
WireMC ==
    One(WAll(Cmd1(OldV, NewV) \cup Cmd2(OldV, NewV), {{}, {"report-status"}, {"report-status", "atomic"}}))

LCmd1(news) == {<<Cmd(r, 0, n)>> : r \in Refs, n \in news}
LCmd2(news) == UNION {{<<Cmd(r1, 0, n1), Cmd(r2, 0, n2)>> : r2 \in Refs \ {r1}, n1 \in news, n2 \in news} : r1 \in Refs}
LocalAll == One({Local(c, a) : c \in LCmd1(NewV \cup {2}) \cup LCmd2(NewV \cup {2}), a \in BOOLEAN})

\* ---- racing spaces (two pushers; pusher 2 sends one command for ref 1, no pack) ---------
Two(S1, S2) == {(1 :> a) @@ (2 :> b) : a \in S1, b \in S2}
Racer == {Wire(<<Cmd(1, o, n)>>, {"report-status"}, Plain) : o \in {0, 1}, n \in {0, 2}}
RaceCmds == Cmd1({0, 1}, {0, 1, 3})
            \cup {<<Cmd(1, o, n), Cmd(2, 1, m)>> : o \in {0, 1}, n \in {0, 1, 3}, m \in {0, 3}}
            \cup {<<Cmd(2, 1, m), Cmd(1, o, n)>> : o \in {0, 1}, n \in {0, 1, 3}, m \in {0, 3}}
RaceInits == {[refs |-> (1 :> v) @@ (2 :> 1), store |-> {1, 2}] : v \in {0, 1}}
RaceWire == Two({Wire(c, caps, Plain) : c \in RaceCmds, caps \in {{"report-status"}, {"report-status", "atomic"}}}, Racer)
LRaceCmds == {<<Cmd(1, 0, n)>> : n \in {0, 3}}
             \cup {<<Cmd(1, 0, n), Cmd(2, 0, m)>> : n \in {0, 3}, m \in {0, 3}}
             \cup {<<Cmd(2, 0, m), Cmd(1, 0, n)>> : n \in {0, 3}, m \in {0, 3}}
RaceLocal == Two({Local(c, a) : c \in LRaceCmds, a \in BOOLEAN}, Racer)
\* model checking: any two wire pushes of up to two / one commands
RaceMC == Two(WSome(Cmd1({0, 1}, {0, 1, 3, 4}) \cup Cmd2({0, 1}, {0, 3, 4}), {{"report-status"}, {"report-status", "atomic"}}),
              {Wire(c, {"report-status"}, Plain) : c \in Cmd1({0, 1, 2}, {0, 2, 3})}
              \cup {Local(c, a) : c \in LCmd1({0, 2, 3}), a \in BOOLEAN})
RaceLocalMC == Two({Local(c, a) : c \in LCmd1({0, 1, 3, 4}) \cup LCmd2({0, 3, 4}), a \in BOOLEAN},
                   {Wire(c, {"report-status"}, Plain) : c \in Cmd1({0, 1, 2}, {0, 2, 3})})
=============================================================================

----------------------------- MODULE RecvPackMC -----------------------------
(***************************************************************************)
(* Finite instances of RecvPack: initial server states and push spaces.    *)
(* Objects: 1, 2 = commits the server has (A, B); 3 = a commit that exists *)
(* only in the pack the client sends (C); 4 = a commit that is neither in  *)
(* the server's store nor in the pack (M).                                 *)
(* The spaces are predicates over the variable `push` (existential         *)
(* quantifiers that TLC enumerates lazily) rather than sets of records.    *)
(***************************************************************************)
EXTENDS RecvPack

AllCaps == {"report-status", "atomic", "side-band-64k", "delete-refs"}
Cmd(r, o, n) == [r |-> r, old |-> o, new |-> n]
PackFor(cmds) == IF \E i \in DOMAIN cmds : cmds[i].new = 3 THEN {3} ELSE {}
Needs(cmds) == \E i \in DOMAIN cmds : cmds[i].new # 0
CmdRefs(cmds) == {cmds[i].r : i \in DOMAIN cmds}

Wire(cmds, caps, v) ==
    [kind |-> "wire", cmds |-> cmds, caps |-> caps, pack |-> PackFor(cmds),
     packok |-> v[1], decl |-> v[2], predecl |-> v[3]]
Local(cmds, atomic) ==
    [kind |-> "local", cmds |-> cmds, caps |-> IF atomic THEN {"atomic"} ELSE {}, pack |-> PackFor(cmds),
     packok |-> TRUE, decl |-> {}, predecl |-> FALSE]

Plain == <<TRUE, {}, FALSE>>
\* every way a push can be made to fail other than through its old values:
\* pre-receive hook declines, damaged pack, update hook declines one of the refs
VarAll(cmds) == {Plain, <<TRUE, {}, TRUE>>}
                \cup (IF Needs(cmds) THEN {<<FALSE, {}, FALSE>>} ELSE {})
                \cup {<<TRUE, {r}, FALSE>> : r \in CmdRefs(cmds)}
\* plain, damaged pack, update hook declines the ref of the last command
VarSome(cmds) == {Plain, <<TRUE, {cmds[Len(cmds)].r}, FALSE>>}
                 \cup (IF Needs(cmds) THEN {<<FALSE, {}, FALSE>>} ELSE {})

Cmd1(os, ns) == {<<Cmd(r, o, n)>> : r \in Refs, o \in os, n \in ns}
Cmd2(os, ns) == UNION {{<<Cmd(r1, o1, n1), Cmd(r2, o2, n2)>> :
                               r2 \in Refs \ {r1}, o1 \in os, o2 \in os, n1 \in ns, n2 \in ns} : r1 \in Refs}
LCmd1(ns) == {<<Cmd(r, 0, n)>> : r \in Refs, n \in ns}
LCmd2(ns) == UNION {{<<Cmd(r1, 0, n1), Cmd(r2, 0, n2)>> : r2 \in Refs \ {r1}, n1 \in ns, n2 \in ns} : r1 \in Refs}

InitsOver(vals) == {[refs |-> f, store |-> {1, 2}] : f \in [Refs -> vals]}
Inits01 == InitsOver({0, 1})
Inits012 == InitsOver({0, 1, 2})

OldV == {0, 1, 2}
NewV == {0, 1, 3, 4}
CapsFew == {{"report-status"}, {"report-status", "atomic"}, AllCaps}
\* capability sets without report-status (the pusher is told nothing) and the same with it
CapsQuiet == {{}, {"atomic", "delete-refs"}}
CapsQuietTwin == {c \cup {"report-status"} : c \in CapsQuiet}
CapsMC == {{}, {"report-status"}, {"report-status", "atomic"}}
CapsRS == {{"report-status"}, {"report-status", "atomic"}}

One(d) == [p \in Pushers |-> d]
Two(a, b) == (1 :> a) @@ (2 :> b)
WAll(x, cs, cps) == \E c \in cs, caps \in cps : \E v \in VarAll(c) : x = One(Wire(c, caps, v))
WSome(x, cs, cps) == \E c \in cs, caps \in cps : \E v \in VarSome(c) : x = One(Wire(c, caps, v))

\* ---- sequential case spaces (one pusher) ------------------------------------------------
\* quick: one command x (every capability set, or three capability sets x every failure variant);
\* two commands (new values 0 / C / M) x three capability sets x three variants
WireQuick(x) == \/ WAll(x, Cmd1(OldV, NewV), CapsFew)
                \/ \E c \in Cmd1(OldV, NewV), caps \in SUBSET AllCaps : x = One(Wire(c, caps, Plain))
                \/ WSome(x, Cmd2(OldV, {0, 3, 4}), CapsFew)
                \/ \E c \in Cmd2(OldV, {0, 3, 4}), caps \in CapsQuiet \cup CapsQuietTwin : x = One(Wire(c, caps, Plain))
\* negative controls: small, contains a stale command, a missing object and an atomic pair
WireNeg(x) == WAll(x, Cmd1(OldV, NewV) \cup Cmd2({1, 2}, {3}), CapsRS)
WireNegQuiet(x) == WAll(x, Cmd1(OldV, NewV), {{}, {"atomic"}})
\* thorough: everything x everything
WireFull(x) == WAll(x, Cmd1(OldV, NewV) \cup Cmd2(OldV, NewV), SUBSET AllCaps)
\* model checking only: one capability set per behaviourally distinct class
WireMC(x) == WAll(x, Cmd1(OldV, NewV) \cup Cmd2(OldV, NewV), CapsMC)
LocalAll(x) == \E c \in LCmd1(NewV \cup {2}) \cup LCmd2(NewV \cup {2}), a \in BOOLEAN : x = One(Local(c, a))

\* ---- racing spaces (two pushers) --------------------------------------------------------
\* replayed on the real code: pusher 2 sends one command for ref 1 and no pack
Racer == {Wire(<<Cmd(1, o, n)>>, {"report-status"}, Plain) : o \in {0, 1}, n \in {0, 2}}
RaceCmds == Cmd1({0, 1}, {0, 1, 3})
            \cup {<<Cmd(1, o, n), Cmd(2, 1, m)>> : o \in {0, 1}, n \in {0, 1, 3}, m \in {0, 3}}
            \cup {<<Cmd(2, 1, m), Cmd(1, o, n)>> : o \in {0, 1}, n \in {0, 1, 3}, m \in {0, 3}}
RaceInits == {[refs |-> (1 :> v) @@ (2 :> 1), store |-> {1, 2}] : v \in {0, 1}}
RaceWire(x) == \E c \in RaceCmds, caps \in CapsRS, b \in Racer : x = Two(Wire(c, caps, Plain), b)
\* quick tier: pusher 1 sends at most one command per ref, new values 0 / C
RaceCmdsQ == Cmd1({0, 1}, {0, 3})
             \cup {<<Cmd(1, o, n), Cmd(2, 1, 3)>> : o \in {0, 1}, n \in {0, 3}}
             \cup {<<Cmd(2, 1, 3), Cmd(1, o, n)>> : o \in {0, 1}, n \in {0, 3}}
RaceWireQ(x) == \E c \in RaceCmdsQ, caps \in CapsRS, b \in Racer : x = Two(Wire(c, caps, Plain), b)
LRaceCmds == {<<Cmd(1, 0, n)>> : n \in {0, 3}}
             \cup {<<Cmd(1, 0, n), Cmd(2, 0, m)>> : n \in {0, 3}, m \in {0, 3}}
             \cup {<<Cmd(2, 0, m), Cmd(1, 0, n)>> : n \in {0, 3}, m \in {0, 3}}
RaceLocal(x) == \E c \in LRaceCmds, a \in BOOLEAN, b \in Racer : x = Two(Local(c, a), b)
\* model checking: a wire push of up to two commands against any wire or local push of one
RaceMC(x) ==
    \E c \in Cmd1({0, 1}, {0, 1, 3, 4}) \cup Cmd2({0, 1}, {0, 3, 4}), caps \in CapsRS : \E v \in VarSome(c) :
        \/ \E c2 \in Cmd1({0, 1, 2}, {0, 2, 3}) : x = Two(Wire(c, caps, v), Wire(c2, {"report-status"}, Plain))
        \/ \E c2 \in LCmd1({0, 2, 3}), a \in BOOLEAN : x = Two(Wire(c, caps, v), Local(c2, a))
\* quick tier model checking: as RaceMC with fewer values
RaceMCQ(x) ==
    \E c \in Cmd1({0, 1}, {0, 3, 4}) \cup Cmd2({1}, {0, 3}), caps \in CapsRS : \E v \in VarSome(c) :
        \/ \E c2 \in Cmd1({0, 1}, {0, 2}) : x = Two(Wire(c, caps, v), Wire(c2, {"report-status"}, Plain))
        \/ \E c2 \in LCmd1({0, 2}), a \in BOOLEAN : x = Two(Wire(c, caps, v), Local(c2, a))
\* three pushers: two wire pushes of one command each and a local push, all on the same two refs
Three(a, b, c) == (1 :> a) @@ (2 :> b) @@ (3 :> c)
RaceMC3(x) ==
    \E c1 \in Cmd1({0, 1}, {0, 3}), c2 \in Cmd2({1}, {0, 2}), c3 \in LCmd1({0, 2}), caps \in CapsRS :
        x = Three(Wire(c1, {"report-status"}, Plain), Wire(c2, caps, Plain), Local(c3, TRUE))
RaceLocalMC(x) ==
    \E c \in LCmd1({0, 1, 3, 4}) \cup LCmd2({0, 3, 4}), a \in BOOLEAN, c2 \in Cmd1({0, 1, 2}, {0, 2, 3}) :
        x = Two(Local(c, a), Wire(c2, {"report-status"}, Plain))

\* ---- ref backends --------------------------------------------------------------------------
\* The compare-and-swap of RecvPack is the contract of *every* ref storage a server repository can
\* be configured with (files: loose / packed; extensions.refStorage = reftable).  These behaviours
\* are replayed once per backend: one or two commands with matching, stale, and zero old values
\* (a create of a ref that exists, a delete / update of one that does not), both capability sets
\* that are told something, plain / declined / damaged-pack variants; the racing spaces above
\* (two creates of the same absent ref among them) are replayed per backend as well.
BackendSeq(x) == WSome(x, Cmd1(OldV, NewV) \cup Cmd2({0, 1}, {0, 3}), CapsRS)
\* defect model of a backend: the zero id taken as "nothing to compare against" (what None means
\* in the Python interface) -- a create then overwrites an existing ref and is reported ok
CasMatchZeroAny(cur, old) == old = 0 \/ cur = old

\* ---- pushes a C git client can produce -----------------------------------------------------
\* old values are what the server advertised (= the initial state, hence the reference to `ini`,
\* which Init fixes before it evaluates PushIn); staleness arises only from a racing pusher whose
\* ref operation lands between the advertisement and the commands (schedule "pusher 2 first").
\* git sends the commands for refs the server advertised first, then the ones it creates.
GitCmds == {<<Cmd(1, ini.refs[1], n)>> : n \in {0, 2, 3} \ {ini.refs[1]}}
           \cup {IF ini.refs[1] = 0 THEN <<Cmd(2, ini.refs[2], m), Cmd(1, 0, n)>>
                                    ELSE <<Cmd(1, ini.refs[1], n), Cmd(2, ini.refs[2], m)>> :
                    n \in {0, 2, 3} \ {ini.refs[1]}, m \in {0, 3}}
GitCaps(at) == {"report-status", "side-band-64k"} \cup (IF at THEN {"atomic"} ELSE {})
GitVars(c) == {Plain} \cup (IF Len(c) = 2 THEN {<<TRUE, {2}, FALSE>>} ELSE {})
GitRacer == {Wire(<<Cmd(1, ini.refs[1], n)>>, {"report-status"}, Plain) : n \in {0, 2} \ {ini.refs[1]}}
GitSolo(x) == \E c \in GitCmds, at \in BOOLEAN : \E v \in GitVars(c) : x = One(Wire(c, GitCaps(at), v))
GitRace(x) == \E c \in GitCmds, at \in BOOLEAN, b \in GitRacer : \E v \in GitVars(c) : x = Two(Wire(c, GitCaps(at), v), b)
=============================================================================

SPECIFICATION Spec
CONSTANTS
  NF = 1
  Vals = {0, 1, 2}
  IsBlob = TRUE
  SetterMarksDirty = TRUE
  ExplicitSha1Recomputes = TRUE
  DirtyUntilSerialized = TRUE
  ChunkedResetsSha = TRUE
INVARIANT TypeOK
INVARIANT IdIsHash
INVARIANT SerCurrent
INVARIANT NoStaleAfterFailure
INVARIANT CacheCoherent
CHECK_DEADLOCK FALSE

SPECIFICATION SpecD
CONSTANTS
  N = 3
  Names = {"refs/heads/a", "refs/heads/b"}
  MaxPacks = 3
  MaxLen = 6
INVARIANT ReachablePreserved
INVARIANT TypeOK
PROPERTY OnlyGcRemoves
PROPERTY GraceRespected
CHECK_DEADLOCK FALSE

----------------------------- MODULE RefMapTrace -----------------------------
(***************************************************************************)
(* Batch validation of recorded executions of the real ref containers      *)
(* (DiskRefsContainer, DictRefsContainer, ReftableRefsContainer) against   *)
(* RefMap / RefMapFiles.                                                   *)
(*                                                                         *)
(* One ndjson line per execution:                                          *)
(*   [tid, backend, names, values, peel, ev]                               *)
(* names/values: the universe (the same for all executions of a batch);    *)
(* peel: <<v, peeled v>> pairs.  An event is one call:                     *)
(*   [op, n, old, v, t,            the call (as RefMap!Call)               *)
(*    got, oserr, form,            what it returned / raised               *)
(*    loose, packed, dirs,         the state read back afterwards          *)
(*    get, asd, sym,               refs[n] for every name, as_dict(),      *)
(*                                 get_symrefs() (or "exc:X" in asdx/symx) *)
(*    git]                         C git's listing (files backend only)    *)
(*                                                                         *)
(* The monitor computes, from the state it holds, what the specification   *)
(* says the call returns and leaves behind (RefMapFiles!Outcome), judges   *)
(* the recorded event clause by clause, prints one FAIL line per failed    *)
(* clause and then ADOPTS the recorded state, so that every later call is  *)
(* judged from the state the implementation really was in.                 *)
(*   clauses: result, state, placement (shape: drift, not a violation),    *)
(*            get, as_dict, symrefs, git-refs, git-peeled, git-symref,     *)
(*            git-head                                                     *)
(* For the in-memory and reftable backends only calls inside the common    *)
(* contract (RefMap!Common) are judged; the others are just adopted.       *)
(***************************************************************************)
EXTENDS RefMapFiles, Json, IOUtils, TLCExt

Traces == ndJsonDeserialize(IOEnv.TRACE_FILE)

Range(s) == {s[i] : i \in DOMAIN s}
TraceNames  == Range(Traces[1].names)
TraceValues == Range(Traces[1].values)
PeelOf(v) == LET S == {p \in Range(Traces[1].peel) : p[1] = v} IN
             IF S = {} THEN v ELSE (CHOOSE p \in S : TRUE)[2]

VARIABLES tid, l, nfail
tvars == <<fvars, tid, l, nfail>>

Ev == Traces[tid].ev
IsFiles == Traces[tid].backend = "disk"

\* recorded entries [n, k, v, t] -> ref map
ToMap(rows) ==
    [n \in Names |->
        LET S == {i \in DOMAIN rows : rows[i].n = n} IN
        IF S = {} THEN Absent
        ELSE LET r == rows[CHOOSE i \in S : TRUE] IN [k |-> r.k, v |-> r.v, t |-> r.t]]

CallOps == {"Set", "SetIfEquals", "AddIfNew", "Remove", "RemoveIfEquals", "SetSymbolic"}

\* does the recorded result satisfy the specification's result class?
ResultOK(want, e) ==
    CASE want = "NoEffect"   -> TRUE
      [] want = "True"       -> e.got = "True" \/ (e.form = "item" /\ e.got = "None")
      [] want = "False"      -> e.got = "False"
      [] want = "None"       -> e.got = "None"
      [] want = "Refused"    -> e.got = "False" \/ e.oserr
      [] want = "SymrefLoop" -> e.got = "exc:SymrefLoop"
      [] OTHER               -> FALSE

TraceInit ==
    /\ tid \in 1..Len(Traces)
    /\ l = 1 /\ nfail = 0
    /\ FInit

Fail(clause, want, tgt) == PrintT(<<"FAIL", Traces[tid].tid, l, clause, want, tgt>>)

Consume ==
    /\ l <= Len(Ev)
    /\ LET e  == Ev[l]
           c  == Call(e.op, e.n, e.old, e.v, e.t)
           o  == IF e.op \in CallOps THEN Outcome(c)
                 ELSE IF e.op = "PackRefs" THEN PackOutcome(e.v)
                 ELSE IF e.op = "GitPack" THEN GitPackOutcome
                 ELSE [res |-> "None", common |-> TRUE, tgt |-> NoName, loose |-> loose, packed |-> packed, dirs |-> dirs]
           judged == IsFiles \/ o.common
           oL == ToMap(e.loose)
           oP == ToMap(e.packed)
           oD == Range(e.dirs)
           oE == EffOf(oL, oP)
           resOK   == ResultOK(o.res, e)
           stateOK == oE = EffOf(o.loose, o.packed)
           placeOK == oL = o.loose /\ oP = o.packed /\ (IsFiles => oD = o.dirs)
           getOK   == \A i \in DOMAIN e.get : e.get[i].r = GetStr(oE, e.get[i].n)
           asdOK   == e.asdx = "" /\ {<<x.n, x.v>> : x \in Range(e.asd)} = {<<n, Get(oE, n).v>> : n \in Resolvable(oE)}
           symOK   == e.symx = "" /\ {<<x.n, x.t>> : x \in Range(e.sym)} = {<<n, oE[n].t>> : n \in {x \in Names : oE[x].k = "sym"}}
           hasGit  == IsFiles /\ e.git.on
           listed  == {n \in Resolvable(oE) : n # HeadRef \/ e.git.head_ok}
           gRefsOK == {<<x.n, x.v>> : x \in Range(e.git.refs)} = {<<n, Get(oE, n).v>> : n \in listed}
           gPeelOK == {<<x.n, x.v>> : x \in Range(e.git.peeled)}
                        = {<<n, PeelOf(Get(oE, n).v)>> : n \in {x \in listed : PeelOf(Get(oE, x).v) # Get(oE, x).v}}
           gSymOK  == {<<x.n, x.t>> : x \in Range(e.git.symref)}
                        = {<<n, oE[n].t>> : n \in {x \in listed \ {HeadRef} : oE[x].k = "sym"}}
           \* git symbolic-ref HEAD answers for a symbolic HEAD unless the chain loops
           gHeadOK == ~e.git.head_ok \/
                      e.git.head_sym = (IF oE[HeadRef].k = "sym" /\ Get(oE, HeadRef).res # "SymrefLoop" THEN oE[HeadRef].t ELSE NoName)
           fails == (IF judged /\ ~resOK THEN {"result"} ELSE {})
                    \cup (IF judged /\ resOK /\ ~stateOK THEN {"state"} ELSE {})
                    \cup (IF judged /\ resOK /\ stateOK /\ ~placeOK THEN {"placement"} ELSE {})
                    \cup (IF ~getOK THEN {"get"} ELSE {})
                    \cup (IF ~asdOK THEN {"as_dict"} ELSE {})
                    \cup (IF ~symOK THEN {"symrefs"} ELSE {})
                    \cup (IF hasGit /\ ~gRefsOK THEN {"git-refs"} ELSE {})
                    \cup (IF hasGit /\ ~gPeelOK THEN {"git-peeled"} ELSE {})
                    \cup (IF hasGit /\ ~gSymOK THEN {"git-symref"} ELSE {})
                    \cup (IF hasGit /\ ~gHeadOK THEN {"git-head"} ELSE {})
       IN  /\ \A f \in fails : Fail(f, o.res, o.tgt)
           /\ nfail' = nfail + Cardinality(fails)
           /\ loose' = oL /\ packed' = oP
           /\ dirs' = IF IsFiles THEN oD ELSE dirs
           /\ obs' = ObsOf(oE)
           /\ last' = [c |-> c, res |-> o.res]
    /\ l' = l + 1
    /\ UNCHANGED tid

Finish ==
    /\ l = Len(Ev) + 1
    /\ PrintT(<<"DONE", Traces[tid].tid, nfail>>)
    /\ l' = l + 1
    /\ UNCHANGED <<fvars, tid, nfail>>

TraceNext == Consume \/ Finish
TraceSpec == TraceInit /\ [][TraceNext]_tvars
=============================================================================

----------------------------- MODULE RefMapTrace -----------------------------
(***************************************************************************)
(* Batch validation of recorded executions of the real ref containers      *)
(* (DiskRefsContainer, DictRefsContainer, ReftableRefsContainer) against   *)
(* RefMap / RefMapFiles.                                                   *)
(*                                                                         *)
(* One ndjson line per execution:                                          *)
(*   [tid, backend, names, values, peel, ev]                               *)
(* names/values: the universe (the same for all executions of a batch);    *)
(* peel: <<v, peeled v>> pairs.  An event is one call:                     *)
(*   [op, n, old, v, t,            the call (as RefMap!Call)               *)
(*    got, oserr, form,            what it returned / raised               *)
(*    loose, packed, dirs,         the state read back afterwards          *)
(*    get, peeled, asd, sym,       refs[n] and get_peeled(n) for every     *)
(*                                 name, as_dict(), get_symrefs() (or      *)
(*                                 "exc:X" in asdx / symx)                 *)
(*    git]                         C git's listing (files backend only)    *)
(*                                                                         *)
(* The monitor computes, from the state it holds, what the specification   *)
(* says the call returns and leaves behind (RefMapFiles!Outcome), judges   *)
(* the recorded event clause by clause, prints one FAIL line per failed    *)
(* clause and then ADOPTS the recorded state, so that every later call is  *)
(* judged from the state the implementation really was in.                 *)
(*   clauses: result, state, placement (shape: drift, not a violation),    *)
(*            get, peeled, as_dict, symrefs, subkeys:<i>, as_dict-base:<i> *)
(*            (the i-th base-restricted listing), git-refs, git-peeled,    *)
(*            git-symref, git-head                                         *)
(* For the in-memory and reftable backends only calls inside the common    *)
(* contract (RefMap!Common) are judged; the others are just adopted.       *)
(***************************************************************************)
EXTENDS RefMapFiles, Json, IOUtils, TLCExt

Traces == ndJsonDeserialize(IOEnv.TRACE_FILE)

Range(s) == {s[i] : i \in DOMAIN s}
TraceNames  == Range(Traces[1].names)
TraceValues == Range(Traces[1].values)
PeelOf(v) == LET S == {p \in Range(Traces[1].peel) : p[1] = v} IN
             IF S = {} THEN v ELSE (CHOOSE p \in S : TRUE)[2]

VARIABLES tid, l, nfail,
          effv      \* the effective map of the current state (kept as a value: it is read many times)
tvars == <<fvars, tid, l, nfail, effv>>

Ev == Traces[tid].ev
IsFiles == Traces[tid].backend = "disk"

\* recorded entries [n, k, v, t] -> ref map
ToMap(rows) ==
    [n \in Names |->
        LET S == {i \in DOMAIN rows : rows[i].n = n} IN
        IF S = {} THEN Absent
        ELSE LET r == rows[CHOOSE i \in S : TRUE] IN [k |-> r.k, v |-> r.v, t |-> r.t]]

CallOps == {"Set", "SetIfEquals", "AddIfNew", "Remove", "RemoveIfEquals", "SetSymbolic"}

\* BatchSet: refs[n] = v for a sequence of <<n, v>> items made as one unit (reftable batch_update; a
\* plain loop elsewhere) and observed once, afterwards: the effect is that of the Set calls in order.
\* Only recorded for the backends without placement; judged if every item is inside the common contract.
RECURSIVE FoldSet(_, _, _)
FoldSet(m, items, i) ==
    IF i > Len(items) THEN m ELSE FoldSet(Set(m, items[i].n, items[i].v).m, items, i + 1)
RECURSIVE AllCommon(_, _, _)
AllCommon(m, items, i) ==
    IF i > Len(items) THEN TRUE
    ELSE LET c == Call("Set", items[i].n, AnyOld, items[i].v, NoName)
             r == Apply(m, c)
         IN  Common(m, c) /\ r.res = "True" /\ AllCommon(r.m, items, i + 1)
BatchOutcome(items) ==
    [res |-> "None", common |-> AllCommon(loose, items, 1), tgt |-> NoName,
     loose |-> FoldSet(loose, items, 1), packed |-> packed, dirs |-> dirs]

\* does the recorded result satisfy the specification's result class?
ResultOK(want, e) ==
    CASE want = "NoEffect"   -> TRUE
      [] want = "True"       -> e.got = "True" \/ (e.form = "item" /\ e.got = "None")
      [] want = "False"      -> e.got = "False"
      [] want = "None"       -> e.got = "None"
      [] want = "Refused"    -> e.got = "False" \/ e.oserr
      [] want = "SymrefLoop" -> e.got = "exc:SymrefLoop"
      [] OTHER               -> FALSE

TraceInit ==
    /\ tid \in 1..Len(Traces)
    /\ l = 1 /\ nfail = 0
    /\ FInit
    /\ effv = EmptyMap

\* a failed clause: <<clause, what the specification says, the name concerned>>
\* (the name is printed as its position in the universe of the batch: TLC breaks long values over lines)
NameNo(n) == LET S == {i \in DOMAIN Traces[1].names : Traces[1].names[i] = n} IN
             IF S = {} THEN 0 ELSE CHOOSE i \in S : TRUE
Fail(f) == PrintT(<<"FAIL", Traces[tid].tid, l, f[1], f[2], NameNo(f[3])>>)

\* The failed clauses of event e, given the specification's outcome o of the call.  Reads the
\* PRIMED variables: Consume has adopted the recorded state into them, so they are plain values.
Failures(e, o, judged) ==
    LET oE == effv'
        resOK   == ResultOK(o.res, e)
        stateOK == oE = EffOf(o.loose, o.packed)
        placeOK == loose' = o.loose /\ packed' = o.packed /\ (IsFiles => dirs' = o.dirs)
        badGet  == {<<"get", obs'[e.get[i].n], e.get[i].n>> :
                       i \in {j \in DOMAIN e.get : e.get[j].r # obs'[e.get[j].n]}}
        \* get_peeled: nothing cached ("") or the peeled value of what the ref resolves to
        badPeel == {<<"peeled", obs'[e.peeled[i].n], e.peeled[i].n>> :
                       i \in {j \in DOMAIN e.peeled :
                                 LET p == e.peeled[j].p  g == obs'[e.peeled[j].n] IN
                                 ~(\/ p = ""
                                   \/ g \in Values /\ p = PeelOf(g)
                                   \/ g \notin Values /\ p \in {"exc:KeyError", "exc:SymrefLoop"})}}
        resolv  == {n \in Names : obs'[n] \in Values}
        asdOK   == e.asdx = "" /\ {<<x.n, x.v>> : x \in Range(e.asd)} = {<<n, obs'[n]>> : n \in resolv}
        \* base-restricted listings: subkeys(base) / as_dict(base) name what lies under the base (whole path
        \* components), the base stripped -- the same with and without a trailing slash, nothing for a base cut
        \* inside a component
        UnderB(s) == IF s.mode = "partial" THEN {}
                     ELSE {n \in Names : oE[n].k # "absent" /\ IsStrictPrefix(s.base, n)}
        Strip(s, n) == SubSeq(n, Len(s.base) + 1, Len(n))
        badKeys == {<<"subkeys:" \o ToString(i), e.sub[i].mode, NoName>> :
                       i \in {j \in DOMAIN e.sub : ~(e.sub[j].keysx = ""
                                 /\ Range(e.sub[j].keys) = {Strip(e.sub[j], n) : n \in UnderB(e.sub[j])})}}
        badSubD == {<<"as_dict-base:" \o ToString(i), e.sub[i].mode, NoName>> :
                       i \in {j \in DOMAIN e.sub : ~(e.sub[j].asdx = ""
                                 /\ {<<x.k, x.v>> : x \in Range(e.sub[j].asd)}
                                      = {<<Strip(e.sub[j], n), obs'[n]>> : n \in UnderB(e.sub[j]) \cap resolv})}}
        symOK   == e.symx = "" /\ {<<x.n, x.t>> : x \in Range(e.sym)} = {<<n, oE[n].t>> : n \in {x \in Names : oE[x].k = "sym"}}
        hasGit  == IsFiles /\ e.git.on /\ NoCollision(oE)
        listed  == {n \in resolv : n # HeadRef \/ e.git.head_ok}
        gRefsOK == {<<x.n, x.v>> : x \in Range(e.git.refs)} = {<<n, obs'[n]>> : n \in listed}
        gPeelOK == {<<x.n, x.v>> : x \in Range(e.git.peeled)}
                     = {<<n, PeelOf(obs'[n])>> : n \in {x \in listed : PeelOf(obs'[x]) # obs'[x]}}
        \* for-each-ref %(symref) names the ref at the END of the chain
        gSymOK  == {<<x.n, x.t>> : x \in Range(e.git.symref)}
                     = {<<n, Follow(oE, n).last>> : n \in {x \in listed \ {HeadRef} : oE[x].k = "sym"}}
        \* git symbolic-ref --no-recurse HEAD
        gHeadOK == ~e.git.head_ok \/ e.git.head_sym = (IF oE[HeadRef].k = "sym" THEN oE[HeadRef].t ELSE NoName)
        F(cl)   == {<<cl, o.res, o.tgt>>}
    IN  (IF judged /\ ~resOK THEN F("result") ELSE {})
        \cup (IF judged /\ resOK /\ ~stateOK THEN F("state") ELSE {})
        \cup (IF judged /\ resOK /\ stateOK /\ ~placeOK THEN F("placement") ELSE {})
        \cup badGet \cup badPeel \cup badKeys \cup badSubD
        \cup (IF ~asdOK THEN F("as_dict") ELSE {})
        \cup (IF ~symOK THEN F("symrefs") ELSE {})
        \cup (IF hasGit /\ ~gRefsOK THEN F("git-refs") ELSE {})
        \cup (IF hasGit /\ ~gPeelOK THEN F("git-peeled") ELSE {})
        \cup (IF hasGit /\ ~gSymOK THEN F("git-symref") ELSE {})
        \cup (IF hasGit /\ ~gHeadOK THEN F("git-head") ELSE {})

Consume ==
    /\ l <= Len(Ev)
    /\ LET e  == Ev[l]
           c  == Call(e.op, e.n, e.old, e.v, e.t)
           o  == IF e.op \in CallOps THEN Outcome(c)
                 ELSE IF e.op = "PackRefs" THEN PackOutcome(e.v)
                 ELSE IF e.op = "GitPack" THEN GitPackOutcome
                 ELSE IF e.op = "BatchSet" THEN BatchOutcome(e.items)
                 ELSE [res |-> "None", common |-> TRUE, tgt |-> NoName, loose |-> loose, packed |-> packed, dirs |-> dirs]
           \* a state in which two refs collide is outside the contract (reaching it was reported)
           judged == (IsFiles \/ o.common) /\ NoCollision(effv)
       IN  \* adopt the recorded state, then judge
           /\ loose' = ToMap(e.loose) /\ packed' = ToMap(e.packed)
           /\ dirs' = IF IsFiles THEN Range(e.dirs) ELSE dirs
           /\ effv' = EffOf(loose', packed')
           /\ obs' = [n \in Names |-> GetStr(effv', n)]
           /\ last' = [c |-> c, res |-> o.res]
           /\ LET fails == Failures(e, o, judged) IN
                /\ \A f \in fails : Fail(f)
                /\ nfail' = nfail + Cardinality(fails)
    /\ l' = l + 1
    /\ UNCHANGED tid

Finish ==
    /\ l = Len(Ev) + 1
    /\ PrintT(<<"DONE", Traces[tid].tid, nfail>>)
    /\ l' = l + 1
    /\ UNCHANGED <<fvars, tid, nfail, effv>>

TraceNext == Consume \/ Finish
TraceSpec == TraceInit /\ [][TraceNext]_tvars
=============================================================================

SPECIFICATION Spec
CONSTANTS
  MaxObjs = 2
  UIds <- UDup
  RowSet <- RowsPlain
  AllowDup = TRUE
  DedupInput = FALSE
  OfsPlain = FALSE
  EmitMod = 1
  EmitRes = 0
INVARIANT GitInv
CHECK_DEADLOCK FALSE

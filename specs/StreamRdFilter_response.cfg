SPECIFICATION Spec
CONSTANTS
  Scen = "response"
  Gen = TRUE
  EmptyIsFlush = FALSE
INVARIANT ConsumerExact
INVARIANT NeverStarved
INVARIANT EmitLeaf
CHECK_DEADLOCK FALSE

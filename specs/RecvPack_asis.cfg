SPECIFICATION Spec
CONSTANTS
  Refs = {1, 2}
  Pushers = {1}
  Inits <- Inits01
  PushIn <- WireNeg
  CheckCas = FALSE
  CheckObj = FALSE
  AtomicMode = "hooks"
  LocalCheckObj = FALSE
  LocalAtomicMode = "none"
  KeepHist = FALSE
  Emit = FALSE
INVARIANT StatusExact
INVARIANT NoDanglingRef
INVARIANT AtomicOK
CHECK_DEADLOCK FALSE

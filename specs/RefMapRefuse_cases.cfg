SPECIFICATION RSpec
CONSTANTS
  Names <- NamesR
  Values = {"v1", "v2"}
  MaxDepth = 5
  LooseFirst = FALSE
INVARIANT TypeOKR
INVARIANT OutcomeOK
CHECK_DEADLOCK FALSE

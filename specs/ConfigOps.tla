------------------------------ MODULE ConfigOps ------------------------------
(***************************************************************************)
(* Histories of set / add / remove / rewrite on one ConfigFile object      *)
(* (ConfigDict.set, .add, .remove; write_to_file followed by from_file).   *)
(* The state is the configuration the object holds.  Section and key menus *)
(* contain names that differ only in case (the same section / key under    *)
(* git's rules) and subsections that differ only in case (different ones). *)
(* Every reachable configuration must survive a rewrite and mean the same  *)
(* to git; multi-valued keys keep their order.                             *)
(***************************************************************************)
EXTENDS Config

CONSTANTS MaxItems,     \* bound on the number of key/value items held at once
          NSec, NKey, NVal  \* how many entries of the menus below are used

VARIABLES cfg

SecMenu == << [sec |-> <<115>>, hs |-> FALSE, sub |-> <<>>],        \* [s]
              [sec |-> <<83>>,  hs |-> FALSE, sub |-> <<>>],        \* [S]      same section as [s]
              [sec |-> <<115>>, hs |-> TRUE,  sub |-> <<120>>],     \* [s "x"]
              [sec |-> <<83>>,  hs |-> TRUE,  sub |-> <<88>>] >>    \* [S "X"]  not the same as [s "x"]
KeyMenu == << <<107>>, <<75>>, <<106>> >>                           \* k, K (same key), j
ValMenu == << <<49>>, <<32, 97, 34, 92, 35>>, <<>> >>               \* 1 | SP a " \ # | empty

RECURSIVE CountItems(_, _)
CountItems(c, n) == IF n > Len(c) THEN 0 ELSE Len(c[n].items) + CountItems(c, n + 1)
NItems(c) == CountItems(c, 1)

Init == cfg = <<>>

Set(si, ki, vi) ==
    /\ cfg' = SetItem(cfg, SecMenu[si], KeyMenu[ki], ValMenu[vi])
    /\ NItems(cfg') <= MaxItems
Add(si, ki, vi) ==
    /\ NItems(cfg) < MaxItems
    /\ cfg' = AddItem(cfg, SecMenu[si], KeyMenu[ki], ValMenu[vi])
Remove(si, ki) ==
    /\ HasKey(cfg, SecMenu[si], KeyMenu[ki])
    /\ cfg' = DelKey(cfg, SecMenu[si], KeyMenu[ki])
Rewrite ==
    LET r == DulRead(DulWrite(cfg)) IN r.ok /\ cfg' = r.cfg

Next == \/ \E si \in 1..NSec, ki \in 1..NKey, vi \in 1..NVal : Set(si, ki, vi) \/ Add(si, ki, vi)
        \/ \E si \in 1..NSec, ki \in 1..NKey : Remove(si, ki)
        \/ Rewrite
Spec == Init /\ [][Next]_cfg

\* C20 on every reachable configuration
InvRoundTrip == RoundTrip(cfg)
InvInteropDG == InteropDG(cfg)
\* rewriting is the identity: nothing is lost, reordered, merged or re-cased
RewriteIsIdentity == [][Rewrite => cfg' = cfg]_cfg
=============================================================================

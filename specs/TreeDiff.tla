------------------------------ MODULE TreeDiff ------------------------------
(***************************************************************************)
(* Reference semantics of git trees as dulwich builds, flattens, diffs and *)
(* patches them (property C12).  A constant module: everything is an       *)
(* operator, so that TLC can (a) enumerate inputs and emit the expected    *)
(* results (TreeDiffGen), and (b) judge results recorded from the real     *)
(* code (TreeDiffTrace).                                                   *)
(*                                                                         *)
(*   dulwich.index.commit_tree            ~ Build                          *)
(*   dulwich.objects.Tree.iteritems       ~ order of Build (GitLess)       *)
(*   object_store.iter_tree_contents      ~ Flatten / IterRoot             *)
(*   diff_tree.walk_trees/_merge_entries  ~ Walk / Merge  (operational)    *)
(*   diff_tree.tree_changes               ~ DiffSeq (declarative),         *)
(*                                          WalkDiff (operational)         *)
(*   object_store.commit_tree_changes     ~ Patch                          *)
(*   diff_tree.RenameDetector (exact)     ~ ExactRenames / RenameSound     *)
(*   RenameDetector reused for a sequence ~ Detect (candidates kept between *)
(*   of diffs, max_files limit              diffs, abstract similarity)     *)
(*                                                                         *)
(* A name is a non-empty sequence of byte values without 47 ('/'), a path  *)
(* a non-empty sequence of names.  A mode is one of "F" 100644, "X"        *)
(* 100755, "L" 120000 (symlink), "G" 160000 (gitlink), "T" 040000 (tree).  *)
(* An object id is an uninterpreted string; the identity of a tree is its  *)
(* canonical entry sequence (equal content <=> equal id: SHA-1 is treated  *)
(* as injective, the harness computes the real hash).                      *)
(*                                                                         *)
(* Style note: TLC re-evaluates a LET definition at every use inside an    *)
(* action but evaluates an operator argument once; shared sub-results are  *)
(* therefore passed as arguments of helper operators (suffix 0/1).         *)
(***************************************************************************)
EXTENDS Naturals, Sequences, FiniteSets, TLC, SequencesExt

Slash == 47
MinI(x, y) == IF x < y THEN x ELSE y
MinOf(S) == CHOOSE i \in S : \A j \in S : i <= j
Force(s) == SubSeq(s, 1, Len(s))          \* evaluate a sequence once (TLC keeps functions lazy)
RECURSIVE Concat(_)
Concat(s) == IF s = <<>> THEN <<>> ELSE Head(s) \o Concat(Tail(s))
RECURSIVE SumSeq(_)
SumSeq(s) == IF s = <<>> THEN 0 ELSE Head(s) + SumSeq(Tail(s))

\* ------------------------------------------------------------------ orders
\* bytewise lexicographic order (memcmp, then the shorter first)
LexLess0(s, t, D) == IF D = {} THEN Len(s) < Len(t) ELSE s[MinOf(D)] < t[MinOf(D)]
LexLess(s, t) == LexLess0(s, t, {i \in 1..MinI(Len(s), Len(t)) : s[i] # t[i]})

\* git's base_name_compare (read-cache.c), transcribed: the byte after the end of a
\* name is NUL, except that a directory's name is followed by '/'
BaseNameCompare1(c1, c2) == IF c1 < c2 THEN "lt" ELSE IF c1 > c2 THEN "gt" ELSE "eq"
BaseNameCompare0(n1, dir1, n2, dir2, len, D) ==
    IF D # {} THEN (IF n1[MinOf(D)] < n2[MinOf(D)] THEN "lt" ELSE "gt")
    ELSE BaseNameCompare1(IF Len(n1) > len THEN n1[len + 1] ELSE IF dir1 THEN Slash ELSE 0,
                          IF Len(n2) > len THEN n2[len + 1] ELSE IF dir2 THEN Slash ELSE 0)
BaseNameCompare(n1, dir1, n2, dir2) ==
    BaseNameCompare0(n1, dir1, n2, dir2, MinI(Len(n1), Len(n2)), {i \in 1..MinI(Len(n1), Len(n2)) : n1[i] # n2[i]})

\* the order in which a tree object stores its entries: a directory compares as "name/"
SortKey(name, mode) == IF mode = "T" THEN Append(name, Slash) ELSE name
GitLess(e, f) == LexLess(SortKey(e.name, e.mode), SortKey(f.name, f.mode))
NameLess(e, f) == LexLess(e.name, f.name)

\* pre-order of a walk that visits siblings in plain name order (walk_trees,
\* iter_tree_contents): component-wise, a directory before its contents
PathLess0(p, q, D) == IF D = {} THEN Len(p) < Len(q) ELSE LexLess(p[MinOf(D)], q[MinOf(D)])
PathLess(p, q) == PathLess0(p, q, {i \in 1..MinI(Len(p), Len(q)) : p[i] # q[i]})

\* ------------------------------------------------------------------ listings
\* entry of a flat listing or of a walk: tree = <<>> unless mode = "T"
NoEntry == [path |-> <<>>, mode |-> "-", id |-> "", tree |-> <<>>]
FileModes == {"F", "X", "L", "G"}
Fmt(m) == IF m \in {"F", "X"} THEN "R" ELSE m          \* stat.S_IFMT

Above(p, q) == Len(p) < Len(q) /\ SubSeq(q, 1, Len(p)) = p       \* p is a proper ancestor of q
PrefixFree(S) == \A p, q \in S : ~Above(p, q)
PathsOf(L) == {e.path : e \in L}

Valid(L) ==
    /\ \A e \in L : /\ e.path # <<>> /\ e.mode \in FileModes /\ e.tree = <<>>
                    /\ \A i \in DOMAIN e.path : e.path[i] # <<>> /\ Slash \notin Range(e.path[i])
    /\ \A e, f \in L : e.path = f.path => e = f
    /\ PrefixFree(PathsOf(L))

\* all valid listings with at most k entries over paths P and cells C = {<<mode, id>>}
ListingsOver(P, C, k) ==
    UNION { { {[path |-> p, mode |-> f[p][1], id |-> f[p][2], tree |-> <<>>] : p \in S} : f \in [S -> C] }
            : S \in {S \in SUBSET P : Cardinality(S) <= k /\ PrefixFree(S)} }

\* the entries below directory d, with paths relative to d
Under(L, d) == {[e EXCEPT !.path = SubSeq(e.path, Len(d) + 1, Len(e.path))] : e \in {x \in L : Above(d, x.path)}}
Dirs(L) == {<<>>} \cup UNION {{SubSeq(e.path, 1, k) : k \in 1..(Len(e.path) - 1)} : e \in L}

\* ------------------------------------------------------------------ build / flatten
\* a tree = sequence of [name, mode, id, sub] in GitLess order; sub = <<>> unless mode = "T"
FileNode(n, e) == [name |-> n, mode |-> e.mode, id |-> e.id, sub |-> <<>>]
RECURSIVE Build(_)
Build(L) ==
    LET Ent(n) == IF \E e \in L : e.path = <<n>>
                  THEN FileNode(n, CHOOSE x \in L : x.path = <<n>>)
                  ELSE [name |-> n, mode |-> "T", id |-> "", sub |-> Build(Under(L, <<n>>))]
    IN  SortSeq(SetToSeq({Ent(n) : n \in {e.path[1] : e \in L}}), GitLess)

RECURSIVE Flatten(_, _)
Flatten(T, pre) ==
    UNION { IF T[i].mode = "T" THEN Flatten(T[i].sub, Append(pre, T[i].name))
            ELSE {[path |-> Append(pre, T[i].name), mode |-> T[i].mode, id |-> T[i].id, tree |-> <<>>]}
            : i \in DOMAIN T }

\* what a tree object must look like: strictly increasing in git order (hence no duplicate
\* name) and, as built from a listing, no empty subtree
RECURSIVE Canonical(_)
Canonical(T) ==
    /\ \A i \in 1..(Len(T) - 1) : GitLess(T[i], T[i + 1])
    /\ \A i \in DOMAIN T : T[i].mode = "T" => T[i].sub # <<>> /\ Canonical(T[i].sub)

TEntry(pre, x) == [path |-> Append(pre, x.name), mode |-> x.mode, id |-> x.id, tree |-> x.sub]
RootEntry(T) == [path |-> <<>>, mode |-> "T", id |-> "", tree |-> T]

\* iter_tree_contents: depth-first pre-order, siblings in plain name order
RECURSIVE Iter(_, _, _)
Iter0(s, pre, inclTrees) ==
    Concat(Force([i \in 1..Len(s) |->
        IF s[i].mode = "T"
        THEN (IF inclTrees THEN <<TEntry(pre, s[i])>> ELSE <<>>) \o Iter(s[i].sub, Append(pre, s[i].name), inclTrees)
        ELSE <<TEntry(pre, s[i])>>]))
Iter(T, pre, inclTrees) == Iter0(SortSeq(T, NameLess), pre, inclTrees)
IterRoot(T, inclTrees) == (IF inclTrees THEN <<RootEntry(T)>> ELSE <<>>) \o Iter(T, <<>>, inclTrees)

\* ------------------------------------------------------------------ diff, declaratively
EntryAt(L, p) ==
    IF \E e \in L : e.path = p THEN CHOOSE e \in L : e.path = p
    ELSE IF p \in Dirs(L) THEN [path |-> p, mode |-> "T", id |-> "", tree |-> Build(Under(L, p))]
    ELSE NoEntry

\* flags of tree_changes: wu want_unchanged, it include_trees, cts change_type_same
Flags(wu, it, cts) == [wu |-> wu, it |-> it, cts |-> cts]
Default == Flags(FALSE, FALSE, FALSE)
Chg(t, o, n) == [type |-> t, old |-> o, new |-> n]
SkipTree(e, it) == IF e.mode = "T" /\ ~it THEN NoEntry ELSE e

\* what tree_changes reports for one pair of entries met at the same path
\* (s1, s2 = the entries with trees hidden unless include_trees)
PairChanges0(e1, e2, s1, s2, fl) ==
    IF e1 = e2 /\ ~fl.wu THEN <<>>
    ELSE IF s1 # NoEntry /\ s2 # NoEntry
         THEN IF Fmt(s1.mode) # Fmt(s2.mode) /\ ~fl.cts
              THEN <<Chg("delete", s1, NoEntry), Chg("add", NoEntry, s2)>>
              ELSE IF s1 = s2 THEN <<Chg("unchanged", s1, s2)>> ELSE <<Chg("modify", s1, s2)>>
    ELSE IF s1 # NoEntry THEN <<Chg("delete", s1, NoEntry)>>
    ELSE IF s2 # NoEntry THEN <<Chg("add", NoEntry, s2)>>
    ELSE <<>>
PairChanges(e1, e2, fl) == PairChanges0(e1, e2, SkipTree(e1, fl.it), SkipTree(e2, fl.it), fl)

AllPaths(A, B) == PathsOf(A) \cup PathsOf(B) \cup Dirs(A) \cup Dirs(B)

\* the pairs of entries met at every path of either side, in walk order (independent of flags)
PathPairs0(A, B, ps) == Force([i \in 1..Len(ps) |-> <<EntryAt(A, ps[i]), EntryAt(B, ps[i])>>])
PathPairs(A, B) == PathPairs0(A, B, SortSeq(SetToSeq(AllPaths(A, B)), PathLess))
ChangesOf(pairs, fl) == Concat(Force([i \in DOMAIN pairs |-> PairChanges(pairs[i][1], pairs[i][2], fl)]))

DiffSeq(A, B, fl) == ChangesOf(PathPairs(A, B), fl)

ChangePath(c) == IF c.new # NoEntry THEN c.new.path ELSE c.old.path

\* path filter (tree_changes(paths=...)) as git's literal pathspec: an entry matches when it is
\* one of the filter paths or lies below one
Matches(p, P) == \E f \in P : p = f \/ Above(f, p)
Filt(d, P) == SelectSeq(d, LAMBDA c : Matches(ChangePath(c), P))
DiffFiltered(A, B, fl, P) == Filt(DiffSeq(A, B, fl), P)

\* ------------------------------------------------------------------ diff, operationally
\* _merge_entries: two-pointer merge of the name-ordered entries of two trees
RECURSIVE MergeRec(_, _, _, _)
MergeRec(s1, s2, i1, i2) ==
    IF i1 > Len(s1) /\ i2 > Len(s2) THEN <<>>
    ELSE IF i2 > Len(s2) THEN <<<<s1[i1], NoEntry>>>> \o MergeRec(s1, s2, i1 + 1, i2)
    ELSE IF i1 > Len(s1) THEN <<<<NoEntry, s2[i2]>>>> \o MergeRec(s1, s2, i1, i2 + 1)
    ELSE IF PathLess(s1[i1].path, s2[i2].path) THEN <<<<s1[i1], NoEntry>>>> \o MergeRec(s1, s2, i1 + 1, i2)
    ELSE IF PathLess(s2[i2].path, s1[i1].path) THEN <<<<NoEntry, s2[i2]>>>> \o MergeRec(s1, s2, i1, i2 + 1)
    ELSE <<<<s1[i1], s2[i2]>>>> \o MergeRec(s1, s2, i1 + 1, i2 + 1)

TreeEntries0(pre, s) == Force([i \in 1..Len(s) |-> TEntry(pre, s[i])])
TreeEntries(pre, T) == TreeEntries0(pre, SortSeq(T, NameLess))
Merge(pre, T1, T2) == MergeRec(TreeEntries(pre, T1), TreeEntries(pre, T2), 1, 1)

\* walk_trees: pre-order over pairs of entries; a pair of identical trees is not entered when
\* prune is set
RECURSIVE Walk(_, _, _)
WalkKids(kids, prune) == Concat(Force([i \in DOMAIN kids |-> Walk(kids[i][1], kids[i][2], prune)]))
Walk(e1, e2, prune) ==
    IF prune /\ e1.mode = "T" /\ e2.mode = "T" /\ e1 = e2 THEN <<>>
    ELSE IF e1.mode = "T" \/ e2.mode = "T"
         THEN <<<<e1, e2>>>> \o WalkKids(Merge(IF e1 # NoEntry THEN e1.path ELSE e2.path,
                                               IF e1.mode = "T" THEN e1.tree ELSE <<>>,
                                               IF e2.mode = "T" THEN e2.tree ELSE <<>>), prune)
    ELSE <<<<e1, e2>>>>

WalkOf(A, B, prune) == Walk(RootEntry(Build(A)), RootEntry(Build(B)), prune)
WalkDiff(A, B, fl) == ChangesOf(WalkOf(A, B, ~fl.wu), fl)
\* number of tree objects fetched from the store: every tree side of every visited pair
Loads(w) == SumSeq(Force([i \in DOMAIN w |-> (IF w[i][1].mode = "T" THEN 1 ELSE 0) + (IF w[i][2].mode = "T" THEN 1 ELSE 0)]))

\* ------------------------------------------------------------------ applying a diff
IsFile(e) == e # NoEntry /\ e.mode # "T"
Removed(C) == {c.old : c \in {x \in C : x.type \in {"delete", "modify", "rename"} /\ IsFile(x.old)}}
Added(C)   == {c.new : c \in {x \in C : x.type \in {"add", "modify", "rename", "copy"} /\ IsFile(x.new)}}
Apply(C, L) == (L \ Removed(C)) \cup Added(C)

\* soundness + completeness of a set of changes C claimed to lead from A to B
Sound(C, A, B) ==
    /\ Removed(C) \subseteq A
    /\ \A c \in C : c.type = "unchanged" /\ IsFile(c.old) => c.old \in A /\ c.new = c.old /\ c.old \in B
    /\ \A c \in C : c.type = "copy" => c.old \in A
    /\ Apply(C, A) = B

NoDup(s) == \A i, j \in DOMAIN s : i # j => s[i] # s[j]
\* every path at most once on the old side and at most once on the new side (a type change is
\* documented to be reported as delete + add of the same path); exactly once overall when
\* change_type_same is requested.  A copy source may be mentioned again.
OldPathSeq(m) == Force([i \in DOMAIN m |-> m[i].old.path])
NewPathSeq(m) == Force([i \in DOMAIN m |-> m[i].new.path])
Once(s, cts) ==
    /\ NoDup(OldPathSeq(SelectSeq(s, LAMBDA c : c.old # NoEntry /\ c.type # "copy")))
    /\ NoDup(NewPathSeq(SelectSeq(s, LAMBDA c : c.new # NoEntry)))
    /\ cts => NoDup(Force([i \in DOMAIN s |-> ChangePath(s[i])]))

\* ------------------------------------------------------------------ commit_tree_changes
\* a change list entry: [path, mode, id]; mode "-" deletes the path
\* (a type change, reported as delete + add of one path, becomes a single set)
ChangeList(s) ==
    Concat(Force([i \in DOMAIN s |->
        IF s[i].type = "delete" /\ IsFile(s[i].old) /\ ~\E j \in DOMAIN s : s[j].type = "add" /\ s[j].new.path = s[i].old.path
        THEN <<[path |-> s[i].old.path, mode |-> "-", id |-> ""]>>
        ELSE IF s[i].type \in {"add", "modify"} /\ IsFile(s[i].new)
             THEN <<[path |-> s[i].new.path, mode |-> s[i].new.mode, id |-> s[i].new.id]>>
        ELSE <<>>]))
\* result listing: a deletion removes the path (a directory path: everything below it), a set
\* puts a file there
ApplyCL(cl, L) ==
    {e \in L : \A k \in DOMAIN cl : cl[k].path # e.path /\ ~(cl[k].mode = "-" /\ Above(cl[k].path, e.path))}
    \cup {[path |-> cl[k].path, mode |-> cl[k].mode, id |-> cl[k].id, tree |-> <<>>] : k \in {k \in DOMAIN cl : cl[k].mode # "-"}}
\* the change list is meaningful for L: deletions name something that exists, no path twice,
\* and the result is a valid listing
ApplicableCL(cl, L) ==
    /\ NoDup(Force([k \in DOMAIN cl |-> cl[k].path]))
    /\ \A k \in DOMAIN cl : cl[k].mode = "-" => cl[k].path \in PathsOf(L) \cup (Dirs(L) \ {<<>>})
    /\ Valid(ApplyCL(cl, L))
Patch(L, cl) == Build(ApplyCL(cl, L))

\* ------------------------------------------------------------------ exact renames
\* RenameDetector with content similarity out of the picture (ids differ => unrelated):
\* an added path whose id equals that of a deleted path of the same file type is a rename,
\* of a modified path a copy.  The pairing is determined only when ids are not shared.
AddsOf(D) == {c \in D : c.type = "add" /\ IsFile(c.new)}
SrcsOf(D) == {c \in D : c.type \in {"delete", "modify"} /\ IsFile(c.old)}
Unambiguous(D) ==
    /\ \A x \in AddsOf(D) : Cardinality({d \in SrcsOf(D) : d.old.id = x.new.id}) <= 1
    /\ \A d \in SrcsOf(D) : Cardinality({x \in AddsOf(D) : d.old.id = x.new.id}) <= 1
RenamePairs(D) == {p \in SrcsOf(D) \X AddsOf(D) : p[1].old.id = p[2].new.id /\ Fmt(p[1].old.mode) = Fmt(p[2].new.mode)}
ExactRenames0(D, P) ==
    (D \ ({p[1] : p \in {q \in P : q[1].type = "delete"}} \cup {p[2] : p \in P}))
    \cup {Chg(IF p[1].type = "delete" THEN "rename" ELSE "copy", p[1].old, p[2].new) : p \in P}
ExactRenames(D) == ExactRenames0(D, RenamePairs(D))

\* ------------------------------------------------------------------ the detector as an object
\* A RenameDetector is reused for many diffs (Walker, log -M); besides its parameters it keeps
\* the list of content-rename candidates of the diff it last examined.  Content similarity is
\* abstract: ids "x" and "u" stand for a blob and an edited copy of it (similar above the
\* threshold), all other distinct ids are unrelated.  After the exact renames, the remaining
\* adds are compared with the remaining deletes and all modifies, unless that matrix exceeds
\* max_files^2; then content detection is skipped for this diff.  `stale` = TRUE models a
\* detector that keeps the candidates of an earlier diff when it skips (defect model).
Related(i, j) == i = j \/ {i, j} = {"x", "u"}
ContentSrcs(E) == {c \in E : c.type \in {"delete", "modify"} /\ IsFile(c.old)}
Within(E, M) == Cardinality(AddsOf(E)) * Cardinality(ContentSrcs(E)) <= M * M
Candidates(E) ==
    {Chg(IF p[1].type = "delete" THEN "rename" ELSE "copy", p[1].old, p[2].new) :
        p \in {q \in ContentSrcs(E) \X AddsOf(E) :
                  /\ q[1].old.mode # "G" /\ Fmt(q[1].old.mode) = Fmt(q[2].new.mode)
                  /\ q[1].old.id # q[2].new.id /\ Related(q[1].old.id, q[2].new.id)}}
\* _choose_content_renames + _prune for a set C of candidates with distinct paths
UseCands(E, C) ==
    (E \ ({x \in AddsOf(E) : \E c \in C : c.new.path = x.new.path}
          \cup {d \in ContentSrcs(E) : \E c \in C : c.type = "rename" /\ c.old.path = d.old.path}))
    \cup C
DetCands(prev, E, M, stale) == IF Within(E, M) THEN Candidates(E) ELSE IF stale THEN prev ELSE {}
Detect1(E, C) == [res |-> UseCands(E, C), cands |-> C]
Detect0(prev, E, M, stale) == Detect1(E, DetCands(prev, E, M, stale))
\* one use of a detector whose previous candidates are prev: result and the candidates it keeps
Detect(prev, A, B, M, stale) == Detect0(prev, ExactRenames(Range(DiffSeq(A, B, Default))), M, stale)
\* the result is determined by the model: exact pairing unambiguous, at most one content candidate
Determined0(D0, M) == Unambiguous(D0) /\ (Within(ExactRenames(D0), M) => Cardinality(Candidates(ExactRenames(D0))) <= 1)
Determined(A, B, M) == Determined0(Range(DiffSeq(A, B, Default)), M)

\* what the property demands of a change list with renames/copies: it leads from A to B, and a
\* rename/copy claim is justified (the source existed with the same or a related id, the target
\* is new in B)
RenameSound(C, A, B) ==
    /\ Sound(C, A, B)
    /\ \A c \in C : c.type \in {"rename", "copy"} =>
          c.old \in A /\ c.new \in B /\ Related(c.old.id, c.new.id) /\ c.new \notin A
=============================================================================

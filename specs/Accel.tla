-------------------------------- MODULE Accel --------------------------------
(***************************************************************************)
(* C14 -- optional acceleration data never changes any answer.             *)
(*                                                                         *)
(* Primary data of a repository: a history of at most N commits (commit i  *)
(* may only have parents < i; its tree and blob are private to it, so      *)
(* "group i" stands for the three objects c_i, t_i, b_i), where each group *)
(* is stored (loose or in which pack; a pack IS the set of groups it holds *)
(* together with the scheme its file name follows: dulwich names a pack    *)
(* after the hash of its object names, git after the hash of its bytes),   *)
(* and the refs with their storage (loose file / packed-refs entry).       *)
(*                                                                         *)
(* Acceleration data, one record each, with the snapshot of exactly the    *)
(* primary data it encodes ("builtFrom"):                                  *)
(*   cg    commit-graph       commits it lists (parents are those of the   *)
(*                            commit, or truncated to the listed ones when *)
(*                            the writer did not close the set)            *)
(*   midx  multi-pack-index   the set of packs it indexes                  *)
(*   bmp   pack bitmaps       per file: the pack whose name it carries     *)
(*                            (at), the pack it was built for (for), the   *)
(*                            commits that have an entry (sel)             *)
(*   pref  packed-refs        the packed value of every ref                *)
(*   idxv  pack index version (no semantics: any version lists the same    *)
(*                            names; replayed on the real code)            *)
(* Staleness is simply builtFrom # current.  Files are written by the      *)
(* maintenance entry points of dulwich or of C git (the writer is an       *)
(* argument of the action, replayed by the harness), removed, or copied    *)
(* from another repository / another pack.                                 *)
(*                                                                         *)
(* Queries are DEFINED on primary data only (Truth).  The answers "with"   *)
(* a set A of accelerators are transcriptions of dulwich's lookup paths:   *)
(*   DiskObjectStore.contains_packed / get_raw      (midx)                 *)
(*   ParentsProvider.get_parents / _collect_ancestors / find_merge_base    *)
(*                                                   (commit-graph)        *)
(*   BitmapReachability / GraphTraversalReachability / MissingObjectFinder *)
(*                                                   (bitmaps)             *)
(*   DiskRefsContainer.read_loose_ref / get_packed_refs  (packed-refs)     *)
(* Each path has a guard constant: TRUE = the path verifies the file       *)
(* against the primary data it is about to stand in for, FALSE = the file  *)
(* is trusted.  Accel_mc.cfg (all guards TRUE) is the design in which the  *)
(* property holds; every Accel_d_*.cfg switches one guard off, TLC must    *)
(* then find a behaviour that violates Transparent/StaleRejected, and the  *)
(* harness replays that behaviour on the real code.                        *)
(***************************************************************************)
EXTENDS Integers, FiniteSets, TLC

CONSTANTS N,                    \* commits in the universe
          Refs,                 \* ref names
          MaxDepth,             \* behaviours explored up to this many steps
          MaxPacks,             \* packs alive at once
          WithCopies,           \* enable the copy-from-elsewhere actions
          WithIdx,              \* enable the Reindex action
          MidxChecksPack,       \* contains_packed: a midx hit counts only if the named pack exists and lists the object
          CgChecksStore,        \* a commit-graph hit counts only if the commit is in the object store
          CgWriterCloses,       \* the commit-graph writer closes the commit set under parents
          BitmapChecksum,       \* a bitmap is used only if it records the checksum of the pack it sits next to
          BitmapClosedPack,     \* a bitmap is built/used only for a pack closed under reachability
          BitmapExcludeExact,   \* exclusion by bitmap needs a bitmap for every excluded commit (else fall back)
          ProvidersAgree,       \* graph-traversal provider implements the documented meaning (= what bitmaps give)
          DeleteDropsPacked,    \* deleting a ref also drops its packed-refs entry
          CgHonoursShallow,     \* a shallow boundary is tested before the commit-graph is asked for parents
          BitmapHonoursShallow, \* with a shallow boundary the bitmap provider traverses instead of using bitmaps
          CgOctopusOk,          \* the commit-graph writer keeps all parents of every merge with three or more
          MaxParents,           \* parents per commit
          GraftsBeforeGraph,    \* graft points and the shallow file are consulted before the commit-graph
          IdxLargeFrom31,       \* a v2/v3 pack index moves every offset >= 2^31 to its 64-bit table
          Focus                 \* "all", or a family of histories explored deeper with few actions:
                                \* "refs" (ref storage), "bmp" (one reader packs and builds bitmaps), "octo"
                                \* (merges of three parents and commit-graphs), "graft" (graft points, shallow
                                \* file and commit-graphs)

VARIABLES n,        \* commits created so far: 1..n
          par,      \* [1..N -> SUBSET 1..N]   parents
          loose,    \* SUBSET 1..N             groups stored as loose objects
          packs,    \* set of <<SUBSET 1..N, "d" | "g">>   packs
          tref,     \* [Refs -> 0..N]          THE value of each ref (0 = absent): primary truth
          lref,     \* [Refs -> 0..N]          loose ref file
          pref,     \* [Refs -> 0..N]          packed-refs entry
          graft,    \* [1..N -> SUBSET 1..N or NOGRAFT]  info/grafts: replacement parents (primary data)
          shal,     \* SUBSET 1..N             the shallow file: commits whose parents are cut off (primary data)
          cg,       \* [on, commits, closed]
          midx,     \* [on, packs]
          bmp,      \* set of [at, for, sel]
          idxv,     \* 1 | 2
          act       \* the step that led here (history variable, hidden by VIEW view)
vars == <<n, par, loose, packs, tref, lref, pref, graft, shal, cg, midx, bmp, idxv, act>>
view == <<n, par, loose, packs, tref, lref, pref, graft, shal, cg, midx, bmp, idxv>>
gs   == <<graft, shal>>
NOGRAFT == {N + 1}
prim == <<n, par, loose, packs, tref, lref, pref>>

Commits   == 1..n
Objs(p)   == p[1]                          \* a pack is <<set of groups, naming>>: "d" = pack-<hash of the object
Packed    == UNION {Objs(p) : p \in packs}  \* names> (dulwich), "g" = pack-<hash of the pack bytes> (git)
PresentS  == loose \cup Packed
Present(i) == i \in PresentS
NoCg   == [on |-> FALSE, commits |-> {}, closed |-> TRUE]
NoMidx == [on |-> FALSE, packs |-> {}]

-----------------------------------------------------------------------------
(* graph theory on primary data *)
Force(f)  == f @@ <<>>                      \* TLC: evaluate a function once (tuples/records are eager)
MISSING   == {0}                            \* the answer "no such object" (KeyError); 0 is not a commit
Tips      == {tref[r] : r \in Refs} \ {0}
RefVal(r) == IF lref[r] # 0 THEN lref[r] ELSE pref[r]
\* ancestors (reflexive) of every commit under the parent function p : 0..N -> SUBSET 0..N, p[0] = {}:
\* parents are smaller than the commit, so one pass in increasing order suffices
RECURSIVE AncUpTo(_, _)
AncUpTo(p, k) == IF k = 0 THEN <<>>
                 ELSE LET a == AncUpTo(p, k - 1) IN
                      a @@ (k :> ({k} \cup p[k] \cup UNION {a[q] : q \in p[k] \ {0}}))
AncFn(p)  == (0 :> {0}) @@ AncUpTo(p, N)
TParFn    == Force([i \in 0..N |-> IF i = 0 THEN {} ELSE par[i]])
TAncFn    == AncFn(TParFn)
AncOf(a, S) == UNION {a[c] : c \in S}
Anc(S)    == AncOf(TAncFn, S)
Reach     == Anc(Tips)
ClosedIn(S, U) == Anc(S) \subseteq U
\* the repository is not corrupt: every present commit has its ancestry, every ref its target
Healthy   == /\ \A i \in PresentS : par[i] \subseteq PresentS
             /\ Tips \subseteq PresentS

-----------------------------------------------------------------------------
(* queries: the definition on primary data (Truth) *)
Heads   == {H \in SUBSET Commits : Cardinality(H) \in 1..2}
Excl    == {X \in SUBSET Commits : Cardinality(X) \in 0..1}
Norm(R) == IF 0 \in R THEN MISSING ELSE R
\* lowest common ancestors: common ancestors that are not proper ancestors of a common ancestor
Lca(p, a, i, j) ==
    LET C == a[i] \cap a[j] IN
    IF 0 \in a[i] \cup a[j] THEN MISSING
    ELSE C \ AncOf(a, UNION {p[d] : d \in C})

T_Has(i)      == Present(i)
T_Par(i)      == IF Present(i) THEN par[i] ELSE MISSING
\* (ta is TAncFn, computed once by the caller)
T_Anc(ta, H)  == IF H \subseteq PresentS THEN AncOf(ta, H) ELSE MISSING
\* EFFECTIVE parents (what Repo.get_parents, the walker and merge-base work with): a graft point replaces the
\* parents recorded in the commit, a commit named by the shallow file has none
\* (Repo reads info/grafts, then the shallow file into the same table: the shallow entry wins)
T_EPar(i)     == IF i \in shal THEN {} ELSE IF graft[i] # NOGRAFT THEN graft[i] ELSE T_Par(i)
T_EParFn      == Force([i \in 0..N |-> IF i = 0 THEN {} ELSE T_EPar(i)])
T_Mb(i, j)    == IF {i, j} \subseteq PresentS THEN Lca(T_EParFn, AncFn(T_EParFn), i, j) ELSE MISSING
T_Walk(i)     == Norm(AncFn(T_EParFn)[i])         \* the commits a history walk from i visits
T_RC(ta, H, X) == IF H \cup X \subseteq PresentS THEN AncOf(ta, H) \ AncOf(ta, X) ELSE MISSING
\* groups (every object of every such commit); commits that are not there are skipped, not an error
T_RO(ta, H, X) == AncOf(ta, H \cap PresentS) \ AncOf(ta, X \cap PresentS)
T_Miss(ta, Hv, W) == IF W \subseteq PresentS THEN AncOf(ta, W) \ AncOf(ta, Hv \cap PresentS) ELSE MISSING
T_Ref(r)      == tref[r]
\* walk from S along p, not expanding the commits in Stop (they are reached, not passed)
RECURSIVE TWalk(_, _, _, _)
TWalk(p, S, Stop, k) == IF k = 0 THEN S ELSE TWalk(p, S \cup UNION {p[c] : c \in S \ Stop}, Stop, k - 1)
\* history cut at a shallow boundary Sh: the boundary commits belong to it, their parents do not
\*   _collect_ancestors(heads = W, common = X, shallow = Sh)
\*   (a commit is only looked up when it is expanded: a boundary commit that is not there raises nothing)
TParM == Force([i \in 0..N |-> IF i = 0 THEN {} ELSE T_Par(i)])
T_Cut(W, X, Sh) == Norm(TWalk(TParM, W, X \cup Sh, N) \ X)
\*   MissingObjectFinder(haves = Hv, wants = W, shallow = Sh)
T_MissS(Hv, W, Sh) ==
    IF ~(W \subseteq PresentS) THEN MISSING
    ELSE LET hv == Hv \cap PresentS
             anc == IF hv = {} THEN {} ELSE TWalk(TParFn, hv, Sh, N)
         IN  TWalk(TParFn, W, anc \cup Sh, N) \ anc
Singles == {{i} : i \in Commits}

-----------------------------------------------------------------------------
(* lookup paths with the set A of accelerator kinds in use *)
Kinds == {"cg", "midx", "bmp"}

\* --- multi-pack-index: DiskObjectStore.contains_packed
MidxLists(i)  == \E p \in midx.packs : i \in Objs(p)
MidxLive(i)   == \E p \in midx.packs \cap packs : i \in Objs(p)
MidxHit(A, i) == "midx" \in A /\ midx.on /\ MidxLists(i) /\ (MidxChecksPack => MidxLive(i))
\* --- commit-graph: ParentsProvider.get_parents, _collect_ancestors
CgHit(A, i)   == "cg" \in A /\ cg.on /\ i \in cg.commits /\ (CgChecksStore => Present(i))
Octopus(i)    == Cardinality(par[i]) >= 3
Min(S)        == CHOOSE m \in S : \A x \in S : m <= x
\* missing parent positions are dropped; (defect model) a writer that addresses the extra-edge list wrongly gets
\* only the first octopus merge of the file right, the others keep their first parent
CgPar(i)      == LET ps == IF cg.closed THEN par[i] ELSE par[i] \cap cg.commits IN
                 IF ~CgOctopusOk /\ Octopus(i) /\ (\E j \in cg.commits : j < i /\ Octopus(j)) /\ ps # {}
                 THEN {Min(ps)} ELSE ps
\* --- bitmaps: BitmapReachability (falls back to GraphTraversalReachability)
Usable(A, b)  == /\ "bmp" \in A /\ b.at \in packs
                 /\ BitmapChecksum => b.for = b.at
                 /\ BitmapClosedPack => ClosedIn(b.sel, Objs(b.for))
\* what the bits of commit set S decode to: positions are those of pack b.for read against pack b.at
Decode(b, S)  == IF b.for = b.at THEN Anc(S) \cap Objs(b.at) ELSE Objs(b.at) \ Anc(S)

\* everything a reader with accelerators A derives once: parents and ancestors of every commit, usable bitmaps
View(A) ==
    LET p == Force([i \in 0..N |-> IF i = 0 THEN {} ELSE IF CgHit(A, i) THEN CgPar(i) ELSE T_Par(i)])
        \* ParentsProvider.get_parents: grafts, shallow, commit-graph, commit object -- in this order
        e == Force([i \in 0..N |->
                 IF i = 0 THEN {}
                 ELSE IF ~GraftsBeforeGraph /\ CgHit(A, i) THEN CgPar(i)
                 ELSE IF i \in shal THEN {}
                 ELSE IF graft[i] # NOGRAFT THEN graft[i]
                 ELSE p[i]])
    IN  [A |-> A, par |-> p, anc |-> AncFn(p), epar |-> e, eanc |-> AncFn(e), bm |-> {b \in bmp : Usable(A, b)}]

W_Has(v, i)   == MidxHit(v.A, i) \/ Present(i)
\* get_raw: the midx names a pack; a pack that is gone falls through to the normal lookup
W_Get(v, i)   == Present(i)
W_Par(v, i)   == v.epar[i]
W_Walk(v, i)  == Norm(v.eanc[i])
W_Anc(v, H)   == Norm(AncOf(v.anc, H))
W_Mb(v, i, j) == Lca(v.epar, v.eanc, i, j)
\* walk from S along v.par, not expanding the commits in Stop (they are reported, not passed)
RECURSIVE Walk(_, _, _, _)
Walk(v, S, Stop, k) == IF k = 0 THEN S
                       ELSE Walk(v, S \cup UNION {v.par[c] : c \in S \ Stop}, Stop, k - 1)
Trav_RC(v, H, X) ==            \* _collect_ancestors(heads, common = exclude)
    IF ProvidersAgree THEN (IF 0 \in AncOf(v.anc, H \cup X) THEN MISSING ELSE AncOf(v.anc, H) \ AncOf(v.anc, X))
    ELSE Norm(Walk(v, H, X, N) \ X)
Trav_RO(v, H, X) ==            \* the commits given and their trees, minus those of the excluded commits
    IF ProvidersAgree THEN Norm(AncOf(v.anc, H \cap PresentS)) \ Norm(AncOf(v.anc, X \cap PresentS))
    ELSE (H \ X) \cap PresentS
Bmp_R(b, H, X) ==
    Decode(b, H) \ (IF X # {} /\ X \subseteq b.sel THEN Decode(b, X) ELSE {})
BmpFor(v, H, X) == {b \in v.bm : H \subseteq b.sel /\ (BitmapExcludeExact => X \subseteq b.sel)}
\* the set of answers the provider may give (which pack is found first is not determined)
W_RCs(v, H, X) == IF BmpFor(v, H, X) = {} THEN {Trav_RC(v, H, X)} ELSE {Bmp_R(b, H, X) : b \in BmpFor(v, H, X)}
W_ROs(v, H, X) == IF BmpFor(v, H, X) = {} THEN {Trav_RO(v, H, X)} ELSE {Bmp_R(b, H, X) : b \in BmpFor(v, H, X)}
\* MissingObjectFinder: all_ancestors by the provider, then _collect_ancestors(wants, common = all_ancestors)
W_Misss(v, Hv, W) ==
    IF ~(W \subseteq PresentS) THEN {MISSING}
    ELSE LET hv == Hv \cap PresentS IN
         { Norm(Walk(v, W, anc, N) \ anc) : anc \in (IF hv = {} THEN {{}} ELSE W_RCs(v, hv, {})) }

\* --- shallow boundaries (fetch --depth): the walks of _collect_ancestors with shallow = Sh.  With a shallow
\* set the provider traverses (bitmaps are not consulted; BitmapHonoursShallow), so only the commit-graph can
\* interfere.  W_MissS is the SET of possible answers (which bitmap is found first is not determined).
Expands(v, c, Common, Sh) == c \notin Common /\ ~(c \in Sh /\ (CgHonoursShallow \/ ~CgHit(v.A, c)))
RECURSIVE WalkS(_, _, _, _, _)
WalkS(v, S, Common, Sh, k) ==
    IF k = 0 THEN S
    ELSE WalkS(v, S \cup UNION {v.par[c] : c \in {x \in S : Expands(v, x, Common, Sh)}}, Common, Sh, k - 1)
W_Cut(v, W, X, Sh) == Norm(WalkS(v, W, X, Sh, N) \ X)
W_MissS(v, Hv, W, Sh) ==
    IF ~(W \subseteq PresentS) THEN {MISSING}
    ELSE LET hv == Hv \cap PresentS
             ancs == IF hv = {} THEN {{}}
                     ELSE IF BitmapHonoursShallow \/ BmpFor(v, hv, {}) = {} THEN {WalkS(v, hv, {}, Sh, N)}
                     ELSE {Bmp_R(b, hv, {}) : b \in BmpFor(v, hv, {})}
         IN  {Norm(WalkS(v, W, anc, Sh, N) \ anc) : anc \in ancs}

-----------------------------------------------------------------------------
(* the property *)
\* (the answers are functions of the view and of primary data, so equal views need no comparison)
Same(v, u) ==
    /\ \A i \in Commits : W_Has(v, i) = W_Has(u, i) /\ W_Get(v, i) = W_Get(u, i)
    /\ v.epar # u.epar =>
          /\ \A i \in Commits : W_Par(v, i) = W_Par(u, i) /\ W_Walk(v, i) = W_Walk(u, i)
          /\ \A i, j \in Commits : i < j => W_Mb(v, i, j) = W_Mb(u, i, j)
    /\ v.par # u.par =>
          /\ \A H \in Heads : W_Anc(v, H) = W_Anc(u, H)
    /\ (v.par # u.par \/ ("cg" \in v.A /\ cg.on) \/ v.bm # u.bm) =>
          \A W \in Singles, X \in Excl, Sh \in Singles : /\ W_Cut(v, W, X, Sh) = W_Cut(u, W, X, Sh)
                                                         /\ W_MissS(v, X, W, Sh) = W_MissS(u, X, W, Sh)
    /\ (v.par # u.par \/ v.bm # u.bm) =>
          \A H \in Heads, X \in Excl : /\ W_RCs(v, H, X) = W_RCs(u, H, X)
                                       /\ W_ROs(v, H, X) = W_ROs(u, H, X)
                                       /\ W_Misss(v, X, H) = W_Misss(u, X, H)
\* answers with any subset of the accelerators = answers with none
OnKinds == {k \in Kinds : (k = "cg" /\ cg.on) \/ (k = "midx" /\ midx.on) \/ (k = "bmp" /\ bmp # {})}
Transparent == LET u == View({}) IN \A A \in (SUBSET OnKinds) \ {{}} : Same(View(A), u)
\* ... = the definition on primary data
Exact ==
    LET u == View({})  ta == TAncFn IN
    /\ \A i \in Commits : W_Has(u, i) = T_Has(i) /\ W_Par(u, i) = T_EPar(i) /\ W_Walk(u, i) = T_Walk(i)
    /\ \A i, j \in Commits : i < j => W_Mb(u, i, j) = T_Mb(i, j)
    /\ \A H \in Heads :
          /\ W_Anc(u, H) = T_Anc(ta, H)
          /\ \A X \in Excl : /\ W_RCs(u, H, X) = {T_RC(ta, H, X)}
                             /\ W_ROs(u, H, X) = {T_RO(ta, H, X)}
                             /\ W_Misss(u, X, H) = {T_Miss(ta, X, H)}
    /\ \A W \in Singles, X \in Excl, Sh \in Singles : /\ W_Cut(u, W, X, Sh) = T_Cut(W, X, Sh)
                                                   /\ W_MissS(u, X, W, Sh) = {T_MissS(X, W, Sh)}
\* the storage of refs (loose file shadowing a packed entry) always yields THE value
RefsTransparent == \A r \in Refs : RefVal(r) = tref[r]
\* an entry that disagrees with the data it indexes contributes nothing
StaleRejected ==
    /\ \A i \in Commits : MidxHit(Kinds, i) => MidxLive(i)
    /\ \A i \in Commits : CgHit(Kinds, i) => Present(i) /\ CgPar(i) = par[i]
    /\ \A b \in bmp : Usable(Kinds, b) => b.for = b.at /\ ClosedIn(b.sel, Objs(b.for))
TypeOK ==
    /\ n \in 0..N /\ loose \subseteq Commits /\ Packed \subseteq Commits
    /\ \A p \in packs : Objs(p) # {} /\ p[2] \in {"d", "g"}
    /\ \A p, q \in packs : p # q => Objs(p) \cap Objs(q) = {}      \* no object is packed twice
    /\ loose \cap Packed = {}
    /\ \A i \in 1..N : par[i] \subseteq 1..(i - 1) /\ (i > n => par[i] = {})
    /\ Healthy
    /\ shal \subseteq Commits /\ \A i \in 1..N : graft[i] = NOGRAFT \/ graft[i] \subseteq 1..(i - 1)

-----------------------------------------------------------------------------
Init == /\ n = 0 /\ par = [i \in 1..N |-> {}] /\ loose = {} /\ packs = {}
        /\ tref = [r \in Refs |-> 0] /\ lref = [r \in Refs |-> 0] /\ pref = [r \in Refs |-> 0]
        /\ graft = [i \in 1..N |-> NOGRAFT] /\ shal = {}
        /\ cg = NoCg /\ midx = NoMidx /\ bmp = {} /\ idxv = 2 /\ act = <<"Init">>

acc == <<cg, midx, bmp, idxv>>
\* behaviours are explored up to MaxDepth steps (0 = no bound: trace validation)
Lvl == MaxDepth = 0 \/ TLCGet("level") <= MaxDepth
FocusActs == CASE Focus = "refs" -> {"Commit", "SetRef", "DeleteRef", "PackRefs"}
               [] Focus = "bmp"  -> {"Commit", "PackLoose", "RepackD", "BuildBmp"}
               [] Focus = "octo" -> {"Commit", "BuildCg"}
               [] Focus = "graft" -> {"Commit", "SetGraft", "SetShallow", "BuildCg", "CopyCg"}
               [] OTHER -> {}
Allowed(a) == (Focus = "all" /\ a \notin {"SetGraft", "SetShallow"}) \/ a \in FocusActs
Full == Focus = "all"

\* ---- history growth.  how = "loose" (add_object) | "pack" (add_objects: arrives as a pack of its own)
Commit(P, r, how) ==
    /\ Lvl /\ UNCHANGED gs /\ act' = <<"Commit", P, r, how>> /\ n < N /\ Cardinality(P) <= MaxParents /\ P \subseteq PresentS
    /\ Focus = "octo" => r = "a" /\ Cardinality(P) \in {0, 3}
    /\ Focus \in {"bmp", "graft"} => Cardinality(P) <= 1
    /\ how = "pack" => Full /\ Cardinality(packs) < MaxPacks
    /\ n' = n + 1 /\ par' = [par EXCEPT ![n + 1] = P]
    /\ IF how = "loose" THEN loose' = loose \cup {n + 1} /\ UNCHANGED packs
                        ELSE packs' = packs \cup {<<{n + 1}, "d">>} /\ UNCHANGED loose
    /\ tref' = [tref EXCEPT ![r] = n + 1] /\ lref' = [lref EXCEPT ![r] = n + 1]
    /\ UNCHANGED <<pref, acc>>
SetRef(r, c) ==
    /\ Lvl /\ UNCHANGED gs /\ Allowed("SetRef") /\ act' = <<"SetRef", r, c>> /\ c \in PresentS /\ tref[r] # c
    /\ tref' = [tref EXCEPT ![r] = c] /\ lref' = [lref EXCEPT ![r] = c]
    /\ UNCHANGED <<n, par, loose, packs, pref, acc>>
DeleteRef(r) ==
    /\ Lvl /\ UNCHANGED gs /\ Allowed("DeleteRef") /\ act' = <<"DeleteRef", r>> /\ tref[r] # 0
    /\ tref' = [tref EXCEPT ![r] = 0] /\ lref' = [lref EXCEPT ![r] = 0]
    /\ pref' = IF DeleteDropsPacked THEN [pref EXCEPT ![r] = 0] ELSE pref
    /\ UNCHANGED <<n, par, loose, packs, acc>>

\* ---- maintenance
PackRefs(w) ==
    /\ Lvl /\ UNCHANGED gs /\ Allowed("PackRefs") /\ act' = <<"PackRefs", w>> /\ \E r \in Refs : lref[r] # 0
    /\ pref' = [r \in Refs |-> RefVal(r)] /\ lref' = [r \in Refs |-> 0]
    /\ UNCHANGED <<n, par, loose, packs, tref, acc>>
PackLoose ==
    /\ Lvl /\ UNCHANGED gs /\ Allowed("PackLoose") /\ act' = <<"PackLoose">> /\ loose # {} /\ Cardinality(packs) < MaxPacks
    /\ packs' = packs \cup {<<loose, "d">>} /\ loose' = {}
    /\ UNCHANGED <<n, par, tref, lref, pref, acc>>
\* dulwich repack(): everything into one pack; accelerator files are left alone (bitmaps of removed packs
\* stay on disk as orphans and re-attach if a pack of that name comes back)
RepackD ==
    /\ Lvl /\ UNCHANGED gs /\ Allowed("RepackD") /\ act' = <<"RepackD">> /\ PresentS # {} /\ (packs # {<<PresentS, "d">>} \/ loose # {})
    /\ <<PresentS, "g">> \notin packs          \* (dulwich would keep the git-named twin: not modelled)
    /\ packs' = {<<PresentS, "d">>} /\ loose' = {}
    /\ UNCHANGED <<n, par, tref, lref, pref, acc>>
\* dulwich garbage_collect(grace_period=None): unreachable objects go, the rest into one pack
Gc ==
    /\ Lvl /\ UNCHANGED gs /\ Allowed("Gc") /\ act' = <<"Gc">> /\ PresentS # {} /\ (loose # {} \/ packs # {<<Reach, "d">>})
    /\ <<Reach, "g">> \notin packs             \* (dulwich would keep the git-named twin: not modelled)
    /\ packs' = (IF Reach = {} THEN {} ELSE {<<Reach, "d">>}) /\ loose' = {}
    /\ UNCHANGED <<n, par, tref, lref, pref, acc>>
\* git repack -a -d [-b]: reachable objects into one pack, old packs (with their unreachable objects) deleted,
\* loose copies of packed objects pruned; the midx is deleted when it names a pack that existed; bitmaps of the
\* old packs are deleted; -b writes a bitmap for the new pack
RepackG(b) ==
    /\ Lvl /\ UNCHANGED gs /\ Allowed("RepackG") /\ act' = <<"RepackG", b>> /\ Reach # {}
    \* (not modelled: a foreign midx that already names the pack git is about to write -- git 2.39 then leaves the
    \* loose copies behind; and git refusing to work because a midx has offsets for other bytes under a pack's name)
    /\ ~(midx.on /\ <<Reach, "g">> \in midx.packs \ packs)
    /\ LET new  == <<Reach, "g">>                  \* the same objects always give the same bytes, hence the same name
           gone == packs \ {new}
           nl   == loose \ Reach IN
       /\ \A i \in nl : par[i] \subseteq nl \cup Reach            \* what stays behind keeps its ancestry
       /\ packs' = {new} /\ loose' = nl
       /\ midx' = IF midx.on /\ midx.packs \cap gone # {} THEN NoMidx ELSE midx
       /\ bmp' = {x \in bmp : x.at \notin packs /\ x.at # new}
                 \cup (IF b THEN {[at |-> new, for |-> new, sel |-> Tips]} ELSE {})
    /\ UNCHANGED <<n, par, tref, lref, pref, cg, idxv>>

\* ---- accelerators.  w = "dulwich" | "git" is the writer (replayed, not part of the state)
\* mode: "all" dulwich write_commit_graph() (every commit in the store), "reach" from the ref tips
\* (git commit-graph write --reachable / dulwich refs=tips), "tips" dulwich reachable=False
BuildCg(w, mode) ==
    /\ Lvl /\ UNCHANGED gs /\ Allowed("BuildCg") /\ act' = <<"BuildCg", w, mode>> /\ Tips # {} /\ (w = "git" => mode = "reach" /\ shal = {} /\ \A i \in 1..N : graft[i] = NOGRAFT)
    /\ mode = "tips" => ~CgWriterCloses        \* a writer that closes the set makes "tips" the same as "reach"
    /\ LET C == CASE mode = "all" -> PresentS [] mode = "reach" -> Reach [] mode = "tips" -> Tips IN
       cg' = [on |-> TRUE, commits |-> IF CgWriterCloses THEN Anc(C) ELSE C,
              closed |-> CgWriterCloses \/ ClosedIn(C, C)]
    /\ cg' # cg
    /\ UNCHANGED <<prim, midx, bmp, idxv>>
\* dulwich write_midx() indexes the packs present; git multi-pack-index write (2.39) also keeps every pack
\* named by the midx it finds, whether or not that pack still exists
BuildMidx(w) ==
    /\ Lvl /\ UNCHANGED gs /\ Allowed("BuildMidx") /\ act' = <<"BuildMidx", w>> /\ packs # {}
    /\ midx' = [on |-> TRUE, packs |-> IF w = "git" /\ midx.on THEN packs \cup midx.packs ELSE packs]
    /\ midx' # midx
    /\ UNCHANGED <<prim, cg, bmp, idxv>>
\* dulwich generate_pack_bitmaps(refs): every pack without an accepted bitmap gets one for the tips it holds
BuildBmp ==
    /\ Lvl /\ UNCHANGED gs /\ Allowed("BuildBmp") /\ act' = <<"BuildBmp">> /\ Tips # {} /\ packs # {}
    /\ LET ok(p) == \E b \in bmp : b.at = p /\ (BitmapChecksum => b.for = p)
           new == {[at |-> p, for |-> p, sel |-> Tips \cap Objs(p)] : p \in {q \in packs : ~ok(q)}} IN
       /\ new # {}
       /\ bmp' = {b \in bmp : ok(b.at) \/ b.at \notin packs} \cup new
    /\ UNCHANGED <<prim, cg, midx, idxv>>
Remove(k) ==
    /\ Lvl /\ UNCHANGED gs /\ Allowed("Remove") /\ act' = <<"Remove", k>>
    /\ \/ k = "cg" /\ cg.on /\ cg' = NoCg /\ UNCHANGED <<midx, bmp>>
       \/ k = "midx" /\ midx.on /\ midx' = NoMidx /\ UNCHANGED <<cg, bmp>>
       \/ k = "bmp" /\ bmp # {} /\ bmp' = {} /\ UNCHANGED <<cg, midx>>
    /\ UNCHANGED <<prim, idxv>>
\* files built elsewhere: the other repository is a fully packed clone holding every commit ever created
CopyMidx(wo) ==
    /\ Lvl /\ UNCHANGED gs /\ Allowed("CopyMidx") /\ act' = <<"CopyMidx", wo>> /\ WithCopies /\ n > 0 /\ midx # [on |-> TRUE, packs |-> {<<Commits, wo>>}]
    /\ midx' = [on |-> TRUE, packs |-> {<<Commits, wo>>}]
    /\ UNCHANGED <<prim, cg, bmp, idxv>>
CopyCg ==
    /\ Lvl /\ UNCHANGED gs /\ Allowed("CopyCg") /\ act' = <<"CopyCg">> /\ WithCopies /\ n > 0 /\ cg # [on |-> TRUE, commits |-> Commits, closed |-> TRUE]
    /\ cg' = [on |-> TRUE, commits |-> Commits, closed |-> TRUE]
    /\ UNCHANGED <<prim, midx, bmp, idxv>>
\* the bitmap of pack p renamed to sit next to pack q
CopyBmp(p, q) ==
    /\ Lvl /\ UNCHANGED gs /\ Allowed("CopyBmp") /\ act' = <<"CopyBmp", p, q>> /\ WithCopies /\ p # q /\ q \in packs
    /\ \E b \in bmp : /\ b.at = p /\ b.for = p
                      /\ bmp' = {x \in bmp : x.at # q} \cup {[at |-> q, for |-> p, sel |-> b.sel]}
    /\ UNCHANGED <<prim, cg, midx, idxv>>
Reindex(w, v) ==
    /\ Lvl /\ UNCHANGED gs /\ Allowed("Reindex") /\ act' = <<"Reindex", w, v>> /\ WithIdx /\ packs # {} /\ idxv # v /\ idxv' = v
    /\ UNCHANGED <<prim, cg, midx, bmp>>

\* ---- graft points and the shallow file (primary data: they change what the history IS)
SetGraft(c, P) ==
    /\ Lvl /\ Allowed("SetGraft") /\ act' = <<"SetGraft", c, P>>
    /\ c \in PresentS /\ graft[c] = NOGRAFT /\ P \subseteq PresentS \cap 1..(c - 1) /\ Cardinality(P) <= 1 /\ P # par[c]
    /\ graft' = [graft EXCEPT ![c] = P]
    /\ UNCHANGED <<n, par, loose, packs, tref, lref, pref, shal, acc>>
SetShallow(c) ==
    /\ Lvl /\ Allowed("SetShallow") /\ act' = <<"SetShallow", c>>
    /\ c \in PresentS \ shal /\ par[c] # {}
    /\ shal' = shal \cup {c}
    /\ UNCHANGED <<n, par, loose, packs, tref, lref, pref, graft, acc>>

\* ---- pack index versions and large offsets (no state: a property of the three formats).  An offset is small
\* (< 2^31), mid (2^31 .. 2^32 - 1) or big (>= 2^32).  v1 stores 32 bits; v2/v3 store 31 bits inline and use the
\* top bit to point into a table of 64-bit offsets.
OffClass == {"small", "mid", "big"}
IdxStores(v, c) == IF v = 1 THEN (IF c = "big" THEN "refused" ELSE "inline")
                   ELSE IF c = "small" THEN "inline"
                   ELSE IF c = "mid" /\ ~IdxLargeFrom31 THEN "inline" ELSE "table"
IdxReads(v, c)  == IF v # 1 /\ IdxStores(v, c) = "inline" /\ c # "small" THEN "garbage" ELSE c   \* top bit read as flag
IdxTransparent  == n \in 0..N /\ \A v \in 1..3, c \in OffClass : IdxStores(v, c) # "refused" => IdxReads(v, c) = c

Writers == {"dulwich", "git"}
Next ==
    \/ \E P \in SUBSET (1..N), r \in Refs, how \in {"loose", "pack"} : Commit(P, r, how)
    \/ \E r \in Refs, c \in 1..N : SetRef(r, c)
    \/ \E r \in Refs : DeleteRef(r)
    \/ \E w \in Writers : PackRefs(w)
    \/ PackLoose \/ RepackD \/ Gc
    \/ \E b \in BOOLEAN : RepackG(b)
    \/ \E w \in Writers, m \in {"all", "reach", "tips"} : BuildCg(w, m)
    \/ \E w \in Writers : BuildMidx(w)
    \/ BuildBmp
    \/ \E k \in Kinds : Remove(k)
    \/ \E wo \in {"d", "g"} : CopyMidx(wo)
    \/ CopyCg
    \/ \E p, q \in ((SUBSET (1..N)) \ {{}}) \X {"d", "g"} : CopyBmp(p, q)
    \/ \E w \in Writers, v \in {1, 2} : Reindex(w, v)
    \/ \E c \in 1..N, P \in SUBSET (1..N) : SetGraft(c, P)
    \/ \E c \in 1..N : SetShallow(c)

Spec == Init /\ [][Next]_vars
=============================================================================

------------------------- MODULE WorkTreeConfTrace -------------------------
(***************************************************************************)
(* Batch validation of histories recorded from the real code against       *)
(* WorkTreeConf.                                                           *)
(*                                                                         *)
(* One ndjson line per history:                                            *)
(*   [tid, prot: [ntfs, hfs], steps: << [op, tree, res, fs, idx] >>]       *)
(* tree: sequence of entries [n: <<components>>, k: [t, c, m, to, ch]]     *)
(* fs / idx: sequences of <<path, [t, c, x, to]>> - the projection of the  *)
(* real directory (everything below the scratch root that the model knows) *)
(* and of the real index after the operation.                              *)
(*                                                                         *)
(* Every step is first matched against the specification: the observed     *)
(* outcome, file system and index must be one of Results(op, tree) in the  *)
(* current state.  If not, the history has left the specification: that is *)
(* drift (shape), the observed state is adopted and validation continues.  *)
(* The property clauses are evaluated on the observed states either way;   *)
(* only they produce a verdict other than "ok".                            *)
(***************************************************************************)
EXTENDS WorkTreeConf, Json, IOUtils

Traces == ndJsonDeserialize(IOEnv.TRACE_FILE)

VARIABLES tid, l, verdict, failAt, driftAt
tvars == <<vars, tid, l, verdict, failAt, driftAt>>

RECURSIVE TreeOf(_)
KindOf(k) == [t |-> k.t, c |-> k.c, m |-> k.m, to |-> k.to, ch |-> TreeOf(k.ch)]
TreeOf(a) == { [n |-> a[i].n, k |-> KindOf(a[i].k)] : i \in 1..Len(a) }

NodeOf(v) == [t |-> v.t, c |-> v.c, x |-> v.x, to |-> v.to]
PairsToFun(a) == [p \in {a[i][1] : i \in 1..Len(a)} |-> NodeOf(a[CHOOSE i \in 1..Len(a) : a[i][1] = p][2])]
FsOf(a) == LET m == PairsToFun(a) IN [p \in DOMAIN m \cup {<<>>} |-> IF p = <<>> THEN DirN ELSE m[p]]
IdxOf(a) == IF Len(a) = 0 THEN EmptyIdx ELSE PairsToFun(a)

Steps == Traces[tid].steps

TraceInit ==
    /\ tid \in 1..Len(Traces)
    /\ l = 1 /\ verdict = "ok" /\ failAt = 0 /\ driftAt = 0
    /\ fs = InitFS /\ idx = EmptyIdx /\ head = {} /\ hasHead = FALSE
    /\ prot = [ntfs |-> Traces[tid].prot.ntfs, hfs |-> Traces[tid].prot.hfs]
    /\ n = 0 /\ out = [op |-> "init", res |-> "ok", lp |-> {}] /\ esc = FALSE

Strict(e) ==
    /\ Step(e.op, TreeOf(e.tree))
    /\ fs' = FsOf(e.fs)
    /\ idx' = IdxOf(e.idx)
    /\ out'.res = e.res

Generic(e) ==
    LET T == TreeOf(e.tree) IN
    /\ fs' = FsOf(e.fs) /\ idx' = IdxOf(e.idx)
    /\ out' = [op |-> e.op, res |-> e.res, lp |-> out.lp]
    /\ head' = IF e.op \in {"CL", "RH", "RM"} \/ (e.op \in {"CO", "COF"} /\ e.res = "ok") THEN T ELSE head
    /\ hasHead' = (hasHead \/ e.op \in {"CL", "RH", "RM"} \/ (e.op \in {"CO", "COF"} /\ e.res = "ok"))
    /\ n' = n + 1
    /\ UNCHANGED <<prot, esc>>

\* outside the modelled domain (the real step is still executed and judged by the property clauses)
Unmodelled(e) == (e.op = "RH" /\ ~IdxSane(idx)) \/ ~Modelled

\* first property clause that fails in the state just reached
Clause ==
    IF Protected(fs') # Protected(InitFS) THEN "Confined"
    ELSE IF ~UnsafeRefused' THEN "UnsafeRefused"
    ELSE "ok"

Consume ==
    /\ l <= Len(Steps)
    /\ LET e == Steps[l] IN
         IF ENABLED Strict(e)
         THEN Strict(e) /\ driftAt' = driftAt
         ELSE /\ Generic(e)
              /\ driftAt' = IF driftAt = 0 /\ ~Unmodelled(e) THEN l ELSE driftAt
              \* diagnostics: what the specification allows here (work tree part and index)
              /\ (Unmodelled(e) \/ driftAt # 0 \/
                  PrintT(<<"EXPECT", Traces[tid].tid, l, Enabled(e.op),
                           {[r |-> x.r, I |-> x.I, wt |-> [p \in {q \in DOMAIN x.F : InWT(q)} |-> x.F[p]]]
                              : x \in Results(e.op, TreeOf(e.tree))}>>))
    /\ l' = l + 1
    /\ LET c == Clause IN
         /\ verdict' = IF verdict = "ok" THEN c ELSE verdict
         /\ failAt' = IF verdict = "ok" /\ c # "ok" THEN l ELSE failAt
    /\ UNCHANGED tid

Finish ==
    /\ l = Len(Steps) + 1
    /\ PrintT(<<"VERDICT", Traces[tid].tid, verdict, failAt, driftAt>>)
    /\ l' = l + 1
    /\ UNCHANGED <<vars, tid, verdict, failAt, driftAt>>

TraceNext == Consume \/ Finish
TraceSpec == TraceInit /\ [][TraceNext]_tvars
=============================================================================

\* the contract itself (both defect models off); the harness walks this state graph on the real code
SPECIFICATION Spec
CONSTANTS
  Cached = FALSE
  CommitOnError = FALSE
INVARIANT ReadFresh
PROPERTY WritePreserves
PROPERTY RefusedAtomic
CHECK_DEADLOCK FALSE

SPECIFICATION Spec
CONSTANTS
  Letters = {97, 98, 99}
  MaxStr = 3
  MinCopies = {1, 2}
INVARIANT RoundTripHolds
INVARIANT PostHolds
INVARIANT NoWaste
CHECK_DEADLOCK FALSE

--------------------------- MODULE IndexFmtTrace ---------------------------
(***************************************************************************)
(* Batch validation of recorded executions against IndexFmt.               *)
(*                                                                         *)
(* One ndjson line per execution (all byte strings as runs, all wide       *)
(* integers as limbs, exactly the value shapes of IndexFmt):               *)
(*                                                                         *)
(*  kind "dw"   the implementation was handed ents (any order), version v, *)
(*              skipHash skip and wrote a file:                            *)
(*                wrote   FALSE if the writer raised                       *)
(*                obs     the bytes before the 20-byte trailer             *)
(*                trailer "sha1" | "zeros" | "bad" (hashlib, trusted)      *)
(*                rbok/rb its own read-back (entries in the order yielded) *)
(*                glok/gl C git's listing of the file (ls-files --debug)   *)
(*                pok/okeys keys in file order (independent projection)    *)
(*  kind "git"  C git wrote the file; ents = git's own listing of it,      *)
(*              hv = version in the header, obs as above,                  *)
(*              rbok/rb = what the implementation read from it             *)
(*  kind "rw"   the implementation read file A (ents per git's listing,    *)
(*              exts per projection, header version hv) and wrote file B:  *)
(*              obs/trailer/rb/gl/okeys describe B, bexts = B's extensions *)
(*              fsckok = git fsck accepts B's checksum (TRUE if not run)    *)
(*                                                                         *)
(* Verdict: <<"VERDICT", tid, property clauses failed, shape clauses       *)
(* failed, machinery clauses failed>>.  Property clauses are the clauses   *)
(* of C11; "Layout" (the file is not byte-for-byte what the specification  *)
(* lays out) is shape; "SpecVsGit" (the specification does not lay out     *)
(* what git wrote) is a defect of the specification.                       *)
(***************************************************************************)
EXTENDS IndexFmt, Json, IOUtils

Traces == ndJsonDeserialize(IOEnv.TRACE_FILE)

VARIABLE tid
tvars == <<vars, tid>>      \* (mem and eds of IndexFmt stay empty here)

Range(s) == { s[i] : i \in DOMAIN s }
SameSet(a, b) == Len(a) = Len(b) /\ Range(a) = Range(b)
If(b, name) == IF b THEN <<>> ELSE <<name>>

Judge(t) ==
    LET ES  == Range(t.ents)
        es  == IF Ordered(t.ents) THEN t.ents ELSE Sorted(ES)   \* (a sorted listing needs no sorting)
        exp == MapNorm(es)
    IN
    CASE t.kind = "dw" ->
           IF ~t.wrote THEN << <<"WriteRaises">>, <<>>, <<>> >>
           ELSE
           << If(t.rbok /\ SameSet(t.rb, exp), "RoundTrip")
              \o If(t.glok /\ t.gl = exp, "GitLists")
              \o If(t.pok => (Ordered(t.okeys) /\ Len(t.okeys) = Len(es)), "Order")
              \o If(t.trailer = (IF t.skip THEN "zeros" ELSE "sha1"), "Checksum"),
              If(t.obs = Runs(EntryRegion(EffVersion(t.v, ES), es)), "Layout"),
              <<>> >>
      [] t.kind = "git" ->
           LET region == Runs(EntryRegion(t.hv, es)) IN
           << If(t.rbok /\ SameSet(t.rb, exp), "ReadsGit"),
              <<>>,
              If(RIsPrefix(region, t.obs), "SpecVsGit") >>
      [] t.kind = "rw" ->
           IF ~t.wrote THEN << <<"WriteRaises">>, <<>>, <<>> >>
           ELSE
           << If(SelectSeq(t.bexts, MustKeep) = SelectSeq(t.exts, MustKeep), "Exts")
              \o If(t.rbok /\ SameSet(t.rb, exp), "RoundTrip")
              \o If(t.glok /\ t.gl = exp, "GitLists")
              \o If(t.pok => (Ordered(t.okeys) /\ Len(t.okeys) = Len(es)), "Order")
              \o If(t.trailer = (IF t.skip THEN "zeros" ELSE "sha1") /\ t.fsckok, "Checksum"),
              If(t.obs = Runs(EntryRegion(t.hv, es) \o ExtsFields(SelectSeq(t.exts, Keeps), 1)), "Layout"),
              <<>> >>

\* kind "hist": the implementation read a file (ents per git's listing, exts per projection, header
\* version hv), the harness applied t.edits to the entry objects that were read (re-slotting them),
\* and the implementation wrote the result: expected entries = SlotView of the edited index.
JudgeHist(t) ==
    LET m0 == MemOf(Range(t.ents)) IN
    IF ~AllOK(m0, t.edits, 1) THEN << <<>>, <<>>, <<"BadEdit">> >>
    ELSE IF ~t.wrote THEN << <<"WriteRaises">>, <<>>, <<>> >>
    ELSE LET m   == ApplyAll(m0, t.edits, 1)
             es  == Sorted(SlotView(m))
             exp == MapNorm(es)
         IN  << If(t.rbok /\ SameSet(t.rb, exp), "RoundTrip")
                \o If(t.glok /\ t.gl = exp, "GitLists")
                \o If(t.pok => (Ordered(t.okeys) /\ Len(t.okeys) = Len(es)), "Order")
                \o If(t.trailer = "sha1" /\ t.fsckok, "Checksum"),
                If(t.obs = Runs(EntryRegion(EffVersion(t.hv, SlotView(m)), es) \o ExtsFields(SelectSeq(t.exts, Keeps), 1)), "Layout"),
                <<>> >>

TraceInit == tid \in 1..Len(Traces) /\ c = <<>> /\ ph = 0 /\ out = <<>> /\ mem = {} /\ eds = <<>>
TraceNext ==
    /\ ph = 0
    /\ ph' = 1
    /\ out' = IF Traces[tid].kind = "hist" THEN JudgeHist(Traces[tid]) ELSE Judge(Traces[tid])
    /\ PrintT(<<"VERDICT", Traces[tid].tid>> \o out')
    /\ UNCHANGED <<c, tid, mem, eds>>
TraceSpec == TraceInit /\ [][TraceNext]_tvars
=============================================================================

SPECIFICATION Spec
CONSTANTS
  ShallowAfterCommit = TRUE
INVARIANT FailedTransferInvisible
INVARIANT SuccessIsComplete
INVARIANT ShallowNeverAhead
CHECK_DEADLOCK FALSE

SPECIFICATION Spec
CONSTANTS
  MaxN = 3
  NP = 2
  LoffAt32 = FALSE
INVARIANT Lemma
CHECK_DEADLOCK FALSE

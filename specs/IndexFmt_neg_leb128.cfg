SPECIFICATION Spec
CONSTANTS
  NameMask = 7
  Family = "neg"
  MaxKeys = 2
  MaxEdits = 1
  Defect = "leb128"
INVARIANT OrderInv
CHECK_DEADLOCK FALSE
INVARIANT ParseInv

\* all 64 canonical DAGs on 4 commits x all 75 weak orders of their timestamps (quick + thorough)
\* (harness/props/c13.py writes the same configuration with Seed = VERIF_SEED)
SPECIFICATION Spec
CONSTANTS
  MaxExtra = 5
  N = 4
  L = 4
  K = 0
  Seed = 0
INVARIANT DefsOK
CHECK_DEADLOCK FALSE

--------------------------- MODULE TransferShallow ---------------------------
(***************************************************************************)
(* C05, depth-limited fetches: where the shallow-info part of the           *)
(* upload-pack conversation sits and how dulwich's client reads it          *)
(* (client.py: _handle_upload_pack_head, _read_shallow_updates,             *)
(* _handle_upload_pack_tail).  The object-level meaning of a depth (which    *)
(* commits form the boundary, what "complete" means for a shallow           *)
(* repository) is in TransferOps (DepthCut, ClosureCut) and is judged on    *)
(* real transfers by TransferTrace; this module is about not losing what    *)
(* the server said.                                                         *)
(*                                                                          *)
(* Variant "v0" -- protocol v0/v1 on a stateful connection (git://, ssh,    *)
(*   subprocess).  The server answers the deepen request with its           *)
(*   "shallow <id>" lines and a flush-pkt as soon as it has read the        *)
(*   client's wants -- before it reads any have.  ACK lines follow, one     *)
(*   per common have, then the final ACK/NAK and the pack.                  *)
(* Variant "v2" -- protocol v2: the request is complete before the server   *)
(*   answers; the answer is a sequence of sections: shallow-info (header,   *)
(*   lines, delim-pkt) if the client asked to deepen OR is shallow itself,  *)
(*   then packfile (header, side-band data, flush-pkt).                     *)
(*                                                                          *)
(* ReadFirst / HandleUnasked select the client: FALSE = the code of the     *)
(* snapshot, TRUE = the proposed repairs.  Every behaviour of the model is  *)
(* replayed on the real functions with a scripted can_read() and a canned   *)
(* server stream (harness/props/c05.py: shallow_paths).                     *)
(***************************************************************************)
EXTENDS Integers, Sequences, FiniteSets, TLC

CONSTANTS Variants,       \* subset of {"v0", "v2"}
          MaxNB,          \* the server announces the boundary commits 1..NB, NB <= MaxNB
          MaxNH,          \* the client's walker offers NH <= MaxNH haves
          ReadFirst,      \* v0: the shallow-info answer is read before the first have goes out
          HandleUnasked   \* v2: the tail recognises a shallow-info section nobody asked for

VARIABLES sc,        \* the scenario, chosen in Init: [v, nb, nh, asked, cshal]
                     \*   asked: the client asked to deepen (depth, shallow-since, shallow-exclude)
                     \*   cshal: the client is shallow and says so ("shallow <id>" lines in the request)
          pc,        \* "preread" | "haves" | "postread" | "tail" | "pack" | "end" | "failed"
          s2c,       \* what the server has written and the client has not read yet
          nHave,     \* haves written so far
          mayRead,   \* a have was just written: the client looks once whether something can be read
          cshallow,  \* boundary commits the client has recorded
          packRead,  \* the pack data reached pack_data()
          outcome    \* "" | "ok" | "assert" | "protocol_error" | "sideband_error"
vars == <<sc, pc, s2c, nHave, mayRead, cshallow, packRead, outcome>>

Variant       == sc.v
NB            == sc.nb
NH            == sc.nh
Asked         == sc.asked
ClientShallow == sc.cshal
ShallowLines  == [i \in 1..NB |-> <<"shallow", i>>]
SectionSent   == Asked \/ (Variant = "v2" /\ ClientShallow)

Init ==
    /\ sc \in {x \in [v : Variants, nb : 0..MaxNB, nh : 0..MaxNH, asked : BOOLEAN, cshal : BOOLEAN] :
                 \* nothing to look at without a shallow-info answer; v0 servers only send one when asked
                 /\ x.asked \/ (x.v = "v2" /\ x.cshal)
                 /\ x.v = "v0" => ~x.cshal}
    /\ nHave = 0 /\ mayRead = FALSE /\ cshallow = {} /\ packRead = FALSE /\ outcome = ""
    /\ IF Variant = "v0"
       THEN /\ s2c = IF Asked THEN ShallowLines \o <<<<"flush">>>> ELSE <<>>
            /\ pc = IF Asked /\ ReadFirst THEN "preread" ELSE "haves"
       ELSE /\ s2c = <<>>          \* nothing comes back before the request is complete
            /\ pc = "haves"

\* _read_shallow_updates(proto.read_pkt_seq()): lines up to the next flush-/delim-pkt; anything
\* that is not a shallow line is a GitProtocolError.  -> <<recorded, rest, ok>>
RECURSIVE ReadSection(_, _)
ReadSection(q, acc) ==
    IF q = <<>> THEN <<acc, q, FALSE>>                      \* would block: the model never gets here
    ELSE LET p == Head(q) IN
         IF p[1] \in {"flush", "delim"} THEN <<acc, Tail(q), TRUE>>
         ELSE IF p[1] = "shallow" THEN ReadSection(Tail(q), acc \cup {p[2]})
         ELSE IF p[1] = "shallow-info" THEN ReadSection(Tail(q), acc)
         ELSE <<acc, q, FALSE>>

PreRead_ ==      \* repaired v0 client: the answer to the deepen request first
    /\ pc = "preread"
    /\ LET r == ReadSection(s2c, {}) IN
         /\ cshallow' = r[1] /\ s2c' = r[2]
         /\ IF r[3] THEN pc' = "haves" /\ UNCHANGED outcome
            ELSE pc' = "failed" /\ outcome' = "protocol_error"
    /\ UNCHANGED <<nHave, mayRead, packRead>>

Have_ ==         \* write "have"; a stateful v0 server answers with an ACK if it knows the commit
    /\ pc = "haves" /\ ~mayRead /\ nHave < NH
    /\ nHave' = nHave + 1
    /\ IF Variant = "v0"
       THEN (\E known \in BOOLEAN : s2c' = IF known THEN Append(s2c, <<"ACK", nHave + 1>>) ELSE s2c) /\ mayRead' = TRUE
       ELSE s2c' = s2c /\ mayRead' = FALSE         \* v2: can_read() is false until the request is flushed
    /\ UNCHANGED <<pc, cshallow, packRead, outcome>>

CRead_ ==        \* can_read(): pkt = read_pkt_line(); assert pkt is not None; only "ACK" means anything
    /\ pc = "haves" /\ mayRead /\ s2c # <<>>
    /\ s2c' = Tail(s2c) /\ mayRead' = FALSE
    /\ IF Head(s2c)[1] = "flush"
       THEN pc' = "failed" /\ outcome' = "assert"
       ELSE UNCHANGED <<pc, outcome>>                \* ACK: walker.ack(); a shallow line: dropped
    /\ UNCHANGED <<nHave, cshallow, packRead>>

CNoRead_ ==
    /\ pc = "haves" /\ mayRead
    /\ mayRead' = FALSE
    /\ UNCHANGED <<pc, s2c, nHave, cshallow, packRead, outcome>>

Done_ ==         \* write "done" (v2: and the flush-pkt that ends the request); the server finishes its answer
    /\ pc = "haves" /\ ~mayRead /\ nHave = NH
    /\ s2c' = IF Variant = "v0"
              THEN s2c \o <<<<"NAK">>, <<"PACK">>>>
              ELSE (IF SectionSent THEN <<<<"shallow-info">>>> \o ShallowLines \o <<<<"delim">>>> ELSE <<>>)
                   \o <<<<"packfile">>, <<"PACK">>, <<"flush">>>>
    /\ pc' = IF Asked /\ ~(Variant = "v0" /\ ReadFirst) THEN "postread" ELSE "tail"
    /\ UNCHANGED <<nHave, mayRead, cshallow, packRead, outcome>>

PostRead_ ==     \* the client asked to deepen: _read_shallow_updates after "done"
    /\ pc = "postread"
    /\ LET r == ReadSection(s2c, cshallow) IN
         /\ cshallow' = r[1] /\ s2c' = r[2]
         /\ IF r[3] THEN pc' = "tail" /\ UNCHANGED outcome
            ELSE pc' = "failed" /\ outcome' = "protocol_error"
    /\ UNCHANGED <<nHave, mayRead, packRead>>

TailStep_ ==       \* _handle_upload_pack_tail up to the pack
    /\ pc = "tail" /\ s2c # <<>>
    /\ LET p == Head(s2c) IN
       IF Variant = "v0"
       THEN /\ s2c' = Tail(s2c)                      \* ACK / NAK lines; the last one has no status word
            /\ pc' = IF p[1] \in {"NAK"} THEN "pack" ELSE "tail"
            /\ UNCHANGED <<cshallow, outcome>>
       ELSE IF p[1] = "shallow-info" /\ HandleUnasked
            THEN LET r == ReadSection(Tail(s2c), cshallow) IN
                 /\ cshallow' = r[1] /\ s2c' = r[2] /\ pc' = "tail" /\ UNCHANGED outcome
            ELSE /\ s2c' = Tail(s2c) /\ pc' = "pack"  \* "break after handling first response packet"
                 /\ UNCHANGED <<cshallow, outcome>>
    /\ UNCHANGED <<nHave, mayRead, packRead>>

PackStep_ ==       \* v0: the raw / side-band pack; v2: _read_side_band64k_data(read_pkt_seq())
    /\ pc = "pack"
    /\ IF Variant = "v0"
       THEN packRead' = TRUE /\ outcome' = "ok" /\ pc' = "end" /\ s2c' = <<>>
       ELSE LET p == Head(s2c) IN
            IF p[1] = "PACK" THEN packRead' = TRUE /\ s2c' = Tail(s2c) /\ UNCHANGED <<pc, outcome>>
            ELSE IF p[1] \in {"flush", "delim"}      \* end of the pkt sequence: nothing more is read
                 THEN outcome' = "ok" /\ pc' = "end" /\ s2c' = Tail(s2c) /\ UNCHANGED packRead
            ELSE outcome' = "sideband_error" /\ pc' = "failed" /\ UNCHANGED <<s2c, packRead>>   \* "Invalid sideband channel"
    /\ UNCHANGED <<nHave, mayRead, cshallow>>

PreRead == PreRead_ /\ UNCHANGED sc
Have == Have_ /\ UNCHANGED sc
CRead == CRead_ /\ UNCHANGED sc
CNoRead == CNoRead_ /\ UNCHANGED sc
Done == Done_ /\ UNCHANGED sc
PostRead == PostRead_ /\ UNCHANGED sc
TailStep == TailStep_ /\ UNCHANGED sc
PackStep == PackStep_ /\ UNCHANGED sc

Next == PreRead \/ Have \/ CRead \/ CNoRead \/ Done \/ PostRead \/ TailStep \/ PackStep
Spec == Init /\ [][Next]_vars

\* a successful fetch has recorded every boundary commit the server announced ...
ShallowRecorded == outcome = "ok" /\ SectionSent => cshallow = 1..NB
\* ... and has read the pack
PackDelivered   == outcome = "ok" => packRead
=============================================================================

\* negative control: the sender leaves out a wanted tip that the receiver holds as a dangling object -> ReceiverComplete violated
SPECIFICATION Spec
CONSTANTS
  NC = 2
  NTP = 2
  NT = 0
  MaxHeads = 2
  MaxWants = 1
  Modes = {"detailed"}
  IncTag = {FALSE}
  Thin = {TRUE}
  SFull = {FALSE}
  Forge = FALSE
  MaxInVain = 2
  AtomicNeg = TRUE
  PopAny = FALSE
  MaxDangle = 1
  Bug = "SkipPresentWant"
INVARIANT TypeOK
INVARIANT Antecedent
INVARIANT ReceiverComplete
INVARIANT NoLoss
INVARIANT SenderSound
INVARIANT WantValidation
INVARIANT ThinResolvable
INVARIANT Confluent
INVARIANT HavesSound
CHECK_DEADLOCK FALSE

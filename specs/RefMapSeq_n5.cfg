SPECIFICATION SSpec
CONSTANTS
  Names <- Names5
  Values = {"v1", "v2"}
  MaxDepth = 5
INVARIANT TypeOK
INVARIANT CollisionFree
PROPERTY Contract
VIEW SeqView
CHECK_DEADLOCK FALSE

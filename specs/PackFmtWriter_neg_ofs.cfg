SPECIFICATION Spec
CONSTANTS
  MaxObjs = 2
  UIds <- UMid
  RowSet <- RowsPlain
  AllowDup = FALSE
  DedupInput = FALSE
  OfsPlain = TRUE
  EmitMod = 1
  EmitRes = 0
INVARIANT PrefixInv
INVARIANT PackInv
CHECK_DEADLOCK FALSE

\* thorough: 3 commits x 27 root-tree assignments x <= 1 tag
\* (harness/props/c05.py writes the same configuration at run time; TransferCases uses the same constants
\*  plus SampleMod / SampleSeed)
SPECIFICATION Spec
CONSTANTS
  NC = 3
  NTP = 3
  NT = 1
  MaxHeads = 3
  MaxWants = 1
  Modes = {"detailed"}
  IncTag = {FALSE}
  Thin = {TRUE}
  SFull = {FALSE}
  Forge = FALSE
  MaxInVain = 2
  AtomicNeg = TRUE
  PopAny = FALSE
  MaxDangle = 0
  Bug = "none"
INVARIANT TypeOK
INVARIANT Antecedent
INVARIANT ReceiverComplete
INVARIANT NoLoss
INVARIANT SenderSound
INVARIANT WantValidation
INVARIANT ThinResolvable
INVARIANT Confluent
INVARIANT HavesSound
CHECK_DEADLOCK FALSE

SPECIFICATION Spec
CONSTANTS
  Actors = {0, 1}
  Menus <- MenusNoPack
  Inits <- AllInits
  PruneBeforeWrite = FALSE
  LooseBeforePacked = TRUE
  StaleSnapshot = FALSE
  StaleShortcut = FALSE
INVARIANT VisIsAbs
INVARIANT CasSound
INVARIANT ShortcutSound
INVARIANT AddSound
INVARIANT DelSound
INVARIANT ReadSound
INVARIANT NoLockLeft
VIEW View
CHECK_DEADLOCK FALSE

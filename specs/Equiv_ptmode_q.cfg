SPECIFICATION Spec
CONSTANTS
  Fam = "ptmode"
  MaxLen = 3
  Sel = {1, 2, 3, 4}
INVARIANT Lemmas
INVARIANT InModel
CHECK_DEADLOCK FALSE

------------------------------ MODULE ObjGrammar ------------------------------
(***************************************************************************)
(* Canonical serialisation of git objects (blob, tree, commit, tag) at     *)
(* token level -- the grammar C git emits and dulwich/objects.py must      *)
(* reproduce (Commit._serialize, Tag._serialize, serialize_tree,           *)
(* sorted_tree_items/key_entry, format_time_entry, format_timezone,        *)
(* _format_message).                                                       *)
(*                                                                         *)
(* A field value that the grammar does not look into (an identity, a hex   *)
(* object id, one LF-free line of text, a header keyword of an extra       *)
(* header, a blob chunk) is an ATOM.  In the enumerated spaces an atom is  *)
(* an index into a pool whose bytes live in the harness; in trace          *)
(* validation (ObjGrammarTrace) an atom is the tuple of its bytes.  Every  *)
(* value the grammar does look into is explicit: integers are decimal-     *)
(* converted here (limbs base 10^9, TLC integers are 32 bit), time zones   *)
(* are the (offset seconds, negative-utc flag) pair of the dulwich API,    *)
(* multi-line values are sequences of LF-free lines (so that header        *)
(* folding is done here), tree entry names are byte tuples (so that git's  *)
(* ordering is done here), modes are numbers (octal conversion here).      *)
(*                                                                         *)
(* Tokens:  <<"k",w>> keyword  <<"s">> SP  <<"l">> LF  <<"n">> NUL          *)
(*          <<"d",i>> digit    <<"c",x>> sign character                    *)
(*          <<"v",pool,a>> atom   <<"b",bytes>> literal bytes              *)
(***************************************************************************)
EXTENDS Integers, Sequences, FiniteSets, TLC, FiniteSetsExt, SequencesExt, Json, IOUtils

CONSTANTS Radius,      \* commits/tags: all cases within this Hamming distance of a base case
          TreeMax,     \* trees: all entry sets up to this size over the ordering universe
          Alphabet,    \* bytes used in tree entry names of the ordering universe
          Kinds,       \* which object kinds this run enumerates
          EmptyLine,   \* the atom that is the empty line (0 in the pools, <<>> in traces)
          Edits,       \* TRUE: explore the one-field-edit graph (lemmas); FALSE: enumerate the cases only
          Part         \* 0: the whole commit/tag space; 1, 2: one half of it (case enumeration by parallel TLC runs)

KW(w) == <<"k", w>>
SP    == <<"s">>
LF    == <<"l">>
NUL   == <<"n">>
D(i)  == <<"d", i>>
CH(x) == <<"c", x>>
V(pool, a) == <<"v", pool, a>>
B(bytes)   == <<"b", bytes>>

Cat(ss) == FlattenSeq(ss)       \* concatenation of a sequence of sequences

\* ------------------------------------------------------------------ numbers
RECURSIVE DecNat(_)
DecNat(n) == IF n < 10 THEN <<D(n)>> ELSE DecNat(n \div 10) \o <<D(n % 10)>>

RECURSIVE PadDec(_, _)       \* at least w digits, zero padded
PadDec(n, w) == IF w <= 1 /\ n < 10 THEN <<D(n)>> ELSE PadDec(n \div 10, w - 1) \o <<D(n % 10)>>

RECURSIVE Oct(_)
Oct(n) == IF n < 8 THEN <<D(n)>> ELSE Oct(n \div 8) \o <<D(n % 8)>>

\* a timestamp: sign and magnitude in limbs base 10^9, most significant first
Limb == 1000000000
TimeOK(t) == /\ Len(t.limbs) >= 1
             /\ \A i \in 1..Len(t.limbs) : t.limbs[i] >= 0 /\ t.limbs[i] < Limb
             /\ (Len(t.limbs) > 1 => t.limbs[1] > 0)
             /\ (t.neg => t.limbs # <<0>>)
DecTime(t) == (IF t.neg THEN <<CH("-")>> ELSE <<>>)
              \o DecNat(t.limbs[1])
              \o Cat([i \in 1..(Len(t.limbs) - 1) |-> PadDec(t.limbs[i + 1], 9)])

\* a time zone as the dulwich API has it: offset in seconds east of UTC and the
\* "negative UTC" flag (-0000).  git writes sign, two digits hours, two digits minutes.
Abs(x) == IF x < 0 THEN 0 - x ELSE x
TzOK(z) == Abs(z.off) % 60 = 0 /\ Abs(z.off) < 360000 /\ (z.negutc => z.off = 0)
TzToks(z) == <<CH(IF z.off < 0 \/ z.negutc THEN "-" ELSE "+")>>
             \o PadDec(Abs(z.off) \div 3600, 2) \o PadDec((Abs(z.off) \div 60) % 60, 2)

\* ------------------------------------------------------------------ header lines
\* lines (atoms of pool) joined by LF
JoinLF(pool, ls) == Cat([i \in 1..Len(ls) |-> IF i < Len(ls) THEN <<V(pool, ls[i]), LF>> ELSE <<V(pool, ls[i])>>])

\* header folding: every LF inside a value is followed by one SP
FoldLF(ts) == Cat([i \in 1..Len(ts) |-> IF ts[i][1] = "l" THEN <<LF, SP>> ELSE <<ts[i]>>])

HdrK(keytok, val) == <<keytok, SP>> \o FoldLF(val) \o <<LF>>
Hdr(w, val) == HdrK(KW(w), val)
Who(id, t, z) == <<V("id", id), SP>> \o DecTime(t) \o <<SP>> \o TzToks(z)

\* ------------------------------------------------------------------ tag
\* [target: [h, t], name, tagger: Seq(id) (0 or 1), ttime, ttz, message: Seq(line), signature: Seq(line), blank]
\* message = <<>> is "no message"; otherwise the message is its lines joined by LF
\* (a trailing LF is a last empty line).  The signature is appended to the message.
\* blank: the blank line that ends the headers is present.  Every object git writes has it; an
\* object that simply ends after its last header is accepted by git too (fsck --strict) and is a
\* different object ("message absent" as opposed to "message empty"): blank = FALSE, only
\* together with an empty message and signature.
TagSegs(t) ==
    [target    |-> Hdr("object", <<V("hex", t.target.h)>>) \o Hdr("type", <<KW(t.target.t)>>),
     name      |-> Hdr("tag", <<V("name", t.name)>>),
     tagger    |-> IF Len(t.tagger) = 0 THEN <<>> ELSE Hdr("tagger", Who(t.tagger[1], t.ttime, t.ttz)),
     message   |-> IF t.blank THEN <<LF>> \o JoinLF("ln", t.message) ELSE <<>>,
     signature |-> JoinLF("ln", t.signature)]
SerTag(t) == LET s == TagSegs(t) IN s.target \o s.name \o s.tagger \o s.message \o s.signature

TagOK(t) == /\ (Len(t.tagger) > 0 => TimeOK(t.ttime) /\ TzOK(t.ttz))
            /\ (~t.blank => Len(t.message) = 0 /\ Len(t.signature) = 0)
            /\ t.target.t \in {"commit", "tree", "blob", "tag"}

\* A tag embedded in a commit (mergetag): git embeds signed tags only, their text ends with LF
\* (the last line of the signature -- or of the message -- is the empty line).  That final LF is
\* not part of the header value: it is the LF that ends the header.
LastText(t) == IF Len(t.signature) > 0 THEN t.signature ELSE t.message
EndsWithLF(t) == LET x == LastText(t) IN Len(x) >= 2 /\ x[Len(x)] = EmptyLine
SerTagNoFinalLF(t) == LET s == TagSegs(t) IN
    s.target \o s.name \o s.tagger \o
    (IF Len(t.signature) > 0 THEN s.message \o JoinLF("ln", Front(t.signature))
                             ELSE <<LF>> \o JoinLF("ln", Front(t.message)))

\* ------------------------------------------------------------------ commit
\* [tree, parents: Seq(hex), author, atime, atz, committer, ctime, ctz, encoding: Seq(atom) (0 or 1),
\*  mergetags: Seq(tag record), extra: Seq([k, v: Seq(line)]), gpgsig: Seq(line), message: Seq(line), blank]
CommitSegs(c) ==
    [tree      |-> Hdr("tree", <<V("hex", c.tree)>>),
     parents   |-> Cat([i \in 1..Len(c.parents) |-> Hdr("parent", <<V("hex", c.parents[i])>>)]),
     author    |-> Hdr("author", Who(c.author, c.atime, c.atz)),
     committer |-> Hdr("committer", Who(c.committer, c.ctime, c.ctz)),
     encoding  |-> IF Len(c.encoding) = 0 THEN <<>> ELSE Hdr("encoding", <<V("enc", c.encoding[1])>>),
     mergetags |-> Cat([i \in 1..Len(c.mergetags) |-> Hdr("mergetag", SerTagNoFinalLF(c.mergetags[i]))]),
     extra     |-> Cat([i \in 1..Len(c.extra) |-> HdrK(V("key", c.extra[i].k), JoinLF("ln", c.extra[i].v))]),
     gpgsig    |-> IF Len(c.gpgsig) = 0 THEN <<>> ELSE Hdr("gpgsig", JoinLF("ln", c.gpgsig)),
     message   |-> IF c.blank THEN <<LF>> \o JoinLF("ln", c.message) ELSE <<>>]
SerCommit(c) == LET s == CommitSegs(c) IN
    s.tree \o s.parents \o s.author \o s.committer \o s.encoding \o s.mergetags \o s.extra \o s.gpgsig \o s.message

CommitOK(c) == /\ TimeOK(c.atime) /\ TimeOK(c.ctime) /\ TzOK(c.atz) /\ TzOK(c.ctz)
               /\ \A i \in 1..Len(c.mergetags) : TagOK(c.mergetags[i]) /\ EndsWithLF(c.mergetags[i])
               /\ \A i \in 1..Len(c.extra) : Len(c.extra[i].v) >= 1
               /\ (~c.blank => Len(c.message) = 0)

\* segment a field belongs to (fields that share a line share a segment)
GroupOf(f) == CASE f \in {"author", "atime", "atz"} -> "author"
                [] f = "blank" -> "message"
                [] f \in {"committer", "ctime", "ctz"} -> "committer"
                [] f \in {"tagger", "ttime", "ttz"} -> "tagger"
                [] OTHER -> f

\* ------------------------------------------------------------------ tree
\* a set of [name: bytes, mode: Nat, sha: atom] with distinct names
IsDir(m) == (m \div 4096) % 16 = 4                       \* S_IFMT(m) = S_IFDIR
KeyOf(e) == IF IsDir(e.mode) THEN e.name \o <<47>> ELSE e.name

RECURSIVE BytesLess(_, _)                                 \* memcmp order, unsigned bytes, prefix first
BytesLess(a, b) == IF Len(a) = 0 THEN Len(b) # 0
                   ELSE IF Len(b) = 0 THEN FALSE
                   ELSE IF a[1] # b[1] THEN a[1] < b[1]
                   ELSE BytesLess(Tail(a), Tail(b))
GitLess(e, f) == BytesLess(KeyOf(e), KeyOf(f))

RECURSIVE SortEntries(_)
SortEntries(S) == IF S = {} THEN <<>>
                  ELSE LET m == CHOOSE e \in S : \A f \in S \ {e} : GitLess(e, f)
                       IN <<m>> \o SortEntries(S \ {m})

EntryToks(e) == Oct(e.mode) \o <<SP, B(e.name), NUL, V("raw", e.sha)>>
SerTree(S) == LET s == SortEntries(S) IN Cat([i \in 1..Len(s) |-> EntryToks(s[i])])
TreeOK(S) == \A e, f \in S : e.name = f.name => e = f

\* ------------------------------------------------------------------ blob: chunks, concatenated
SerBlob(chunks) == [i \in 1..Len(chunks) |-> V("chunk", chunks[i])]

Ser(k, c) == CASE k = "commit" -> SerCommit(c)
               [] k = "tag"    -> SerTag(c)
               [] k = "tree"   -> SerTree(c)
               [] k = "blob"   -> SerBlob(c)

\* ------------------------------------------------------------------ bytes (trace validation: atoms are byte tuples)
KwBytes == [tree      |-> <<116, 114, 101, 101>>,
            parent    |-> <<112, 97, 114, 101, 110, 116>>,
            author    |-> <<97, 117, 116, 104, 111, 114>>,
            committer |-> <<99, 111, 109, 109, 105, 116, 116, 101, 114>>,
            encoding  |-> <<101, 110, 99, 111, 100, 105, 110, 103>>,
            mergetag  |-> <<109, 101, 114, 103, 101, 116, 97, 103>>,
            gpgsig    |-> <<103, 112, 103, 115, 105, 103>>,
            object    |-> <<111, 98, 106, 101, 99, 116>>,
            type      |-> <<116, 121, 112, 101>>,
            tag       |-> <<116, 97, 103>>,
            tagger    |-> <<116, 97, 103, 103, 101, 114>>,
            commit    |-> <<99, 111, 109, 109, 105, 116>>,
            blob      |-> <<98, 108, 111, 98>>]
TokBytes(t) == CASE t[1] = "k" -> KwBytes[t[2]]
                 [] t[1] = "s" -> <<32>>
                 [] t[1] = "l" -> <<10>>
                 [] t[1] = "n" -> <<0>>
                 [] t[1] = "d" -> <<48 + t[2]>>
                 [] t[1] = "c" -> IF t[2] = "+" THEN <<43>> ELSE <<45>>
                 [] t[1] = "v" -> t[3]
                 [] t[1] = "b" -> t[2]
Render(ts) == Cat([i \in 1..Len(ts) |-> TokBytes(ts[i])])

\* ------------------------------------------------------------------ compact text form of a token sequence
RECURSIVE JoinStr(_, _)
JoinStr(ss, sep) == IF Len(ss) = 0 THEN ""
                    ELSE IF Len(ss) = 1 THEN ss[1]
                    ELSE ss[1] \o sep \o JoinStr(Tail(ss), sep)
TokStr(t) == CASE t[1] = "k" -> "K" \o t[2]
               [] t[1] = "s" -> "S"
               [] t[1] = "l" -> "L"
               [] t[1] = "n" -> "N"
               [] t[1] = "d" -> "D" \o ToString(t[2])
               [] t[1] = "c" -> "C" \o t[2]
               [] t[1] = "v" -> "V" \o t[2] \o ":" \o ToString(t[3])
               [] t[1] = "b" -> "B" \o JoinStr([i \in 1..Len(t[2]) |-> ToString(t[2][i])], ".")
ToksStr(ts) == [i \in 1..Len(ts) |-> TokStr(ts[i])]     \* a tuple of short strings (long string concatenation is slow in TLC)

\* ------------------------------------------------------------------ pools (index -> abstract value)
T(neg, limbs) == [neg |-> neg, limbs |-> limbs]
Z(off, negutc) == [off |-> off, negutc |-> negutc]

TimePool == << T(FALSE, <<1, 234567890>>),            \* 1234567890
               T(FALSE, <<0>>),
               T(FALSE, <<1, 0>>),                    \* 10^9: limb padding
               T(FALSE, <<2, 147483648>>),            \* 2^31
               T(FALSE, <<1099, 511627776>>),         \* 2^40
               T(FALSE, <<9, 223372036, 854775807>>), \* 2^63 - 1
               T(TRUE, <<1>>) >>                      \* -1
TzPool   == << Z(0, FALSE), Z(0, TRUE), Z(19800, FALSE), Z(0 - 45900, FALSE), Z(359940, FALSE), Z(0 - 1800, FALSE) >>

\* line atoms: 0 "", 1 subject, 2 odd bytes, 3 leading space, 4-7 PGP armour, 8-10 SSH armour, 11.. values
MsgPool  == << <<1, 0>>, <<>>, <<1>>, <<1, 0, 2, 0>>, <<0, 3, 0, 0>> >>
PgpLines == <<4, 0, 5, 6, 7>>
SshLines == <<8, 9, 10>>

TagPool == [target    |-> << [h |-> 3, t |-> "commit"], [h |-> 1, t |-> "tree"], [h |-> 6, t |-> "blob"], [h |-> 7, t |-> "tag"] >>,
            name      |-> <<1, 2>>,
            tagger    |-> << <<1>>, <<2>>, <<>>, <<3>> >>,
            ttime     |-> TimePool,
            ttz       |-> TzPool,
            message   |-> MsgPool,
            signature |-> << <<>>, PgpLines \o <<0>>, SshLines \o <<0>> >>,
            blank     |-> <<TRUE, FALSE, TRUE>>]        \* first and last index TRUE: both base cases have the blank line
TagFields == <<"target", "name", "tagger", "ttime", "ttz", "message", "signature", "blank">>

MTag1 == [target |-> [h |-> 4, t |-> "commit"], name |-> 1, tagger |-> <<1>>, ttime |-> TimePool[1], ttz |-> TzPool[3],
          message |-> <<1, 0, 2, 0>>, signature |-> PgpLines \o <<0>>, blank |-> TRUE]
MTag2 == [target |-> [h |-> 5, t |-> "commit"], name |-> 2, tagger |-> <<2>>, ttime |-> TimePool[4], ttz |-> TzPool[2],
          message |-> <<1, 0>>, signature |-> SshLines \o <<0>>, blank |-> TRUE]

X(k, v) == [k |-> k, v |-> v]
CommitPool == [tree      |-> <<1, 2>>,
               parents   |-> << <<3>>, <<>>, <<3, 4>>, <<5, 3, 4>> >>,
               author    |-> <<1, 2, 3>>,
               atime     |-> TimePool,
               atz       |-> TzPool,
               committer |-> <<1, 2, 3>>,
               ctime     |-> TimePool,
               ctz       |-> TzPool,
               encoding  |-> << <<>>, <<1>> >>,
               mergetags |-> << <<>>, <<MTag1>>, <<MTag1, MTag2>> >>,
               extra     |-> << <<>>,
                                <<X(1, <<11>>)>>,
                                <<X(1, <<11, 3, 0>>)>>,                               \* multi-line, continuation starts with SP, trailing LF
                                <<X(1, <<11>>), X(2, <<12>>), X(1, <<0>>)>>,          \* duplicate key, empty value
                                <<X(3, <<0, 4, 0, 5, 7>>)>> >>,                       \* value starts with LF; armour inside an unknown header
               gpgsig    |-> << <<>>, PgpLines, SshLines >>,
               message   |-> MsgPool,
               blank     |-> <<TRUE, FALSE, TRUE>>]
CommitFields == <<"tree", "parents", "author", "atime", "atz", "committer", "ctime", "ctz",
                  "encoding", "mergetags", "extra", "gpgsig", "message", "blank">>

\* field triples used by the life-cycle replay (ObjFile): every field occurs in one
CommitTriples == << <<"message", "parents", "atime">>, <<"tree", "author", "atz">>, <<"committer", "ctime", "ctz">>,
                    <<"encoding", "mergetags", "gpgsig">>, <<"extra", "message", "tree">> >>
TagTriples    == << <<"message", "target", "ttime">>, <<"name", "tagger", "ttz">>, <<"signature", "message", "name">> >>

\* ------------------------------------------------------------------ spaces
Ball1(P, b) == UNION {{[b EXCEPT ![f] = i] : i \in 1..Len(P[f])} : f \in DOMAIN P}
RECURSIVE Ball(_, _, _)
Ball(P, b, k) == IF k = 0 THEN {b} ELSE UNION {Ball1(P, c) : c \in Ball(P, b, k - 1)}
Alt(P, b, f) == (b[f] % Len(P[f])) + 1
Cube(P, b, tr) == {[f \in DOMAIN P |-> IF f \in S THEN Alt(P, b, f) ELSE b[f]] : S \in SUBSET {tr[i] : i \in 1..Len(tr)}}
FirstIx(P) == [f \in DOMAIN P |-> 1]
LastIx(P) == [f \in DOMAIN P |-> Len(P[f])]
CaseOf(P, ix) == [f \in DOMAIN P |-> P[f][ix[f]]]
KeyStr(F, ix) == JoinStr([i \in 1..Len(F) |-> ToString(ix[F[i]])], ",")

\* third base case: the object ends after its last header (message index 2 = <<>>, blank index 2 = FALSE)
NoBlank(P) == [FirstIx(P) EXCEPT !.message = 2, !.blank = 2]
IxSpace(P, Tr) == (IF Part \in {0, 1} THEN Ball(P, FirstIx(P), Radius) \cup Ball(P, NoBlank(P), Radius - 1)
                                           \cup UNION {Cube(P, FirstIx(P), Tr[i]) : i \in 1..Len(Tr)}
                                      ELSE {})
                  \cup (IF Part \in {0, 2} THEN Ball(P, LastIx(P), Radius) ELSE {})
\* (TLCEval: enumerate once; a lazily filtered set would be re-filtered on every membership test)
CommitSpace == TLCEval({ix \in IxSpace(CommitPool, CommitTriples) : CommitOK(CaseOf(CommitPool, ix))})
TagSpace    == TLCEval({ix \in IxSpace(TagPool, TagTriples) : TagOK(CaseOf(TagPool, ix))})

\* trees: (1) ordering universe: every name of length 1..2 over Alphabet as file and as directory;
\*        (2) mode universe: three names that collide on a prefix, every legal mode
RECURSIVE Words(_)
Words(n) == IF n = 0 THEN {<<>>} ELSE {<<a>> \o w : a \in Alphabet, w \in Words(n - 1)}
OrderNames == Words(1) \cup Words(2)
\* ids of the right type (hex pool: 1,2 trees; 3,4,5 commits; 6 blob), so that git mktree accepts the entry
ShaFor(name, mode) == IF mode = 16384 THEN 1 + (Len(name) % 2)
                      ELSE IF mode = 57344 THEN 3 + (Len(name) % 3)
                      ELSE 6
E(name, mode) == [name |-> name, mode |-> mode, sha |-> ShaFor(name, mode)]
OrderUniverse == {E(n, m) : n \in OrderNames, m \in {33188, 16384}}          \* 100644, 40000
Modes == {33188, 33261, 33204, 40960, 16384, 57344}                          \* 100644 100755 100664 120000 40000 160000
ModeUniverse == {E(n, m) : n \in {<<97>>, <<97, 46>>, <<97, 48>>}, m \in Modes}
UpTo(U, k) == {S \in UNION {kSubset(j, U) : j \in 0..k} : TreeOK(S)}
TreeSpace == TLCEval(UpTo(OrderUniverse, TreeMax) \cup UpTo(ModeUniverse, 3))
TreeUniverse == TLCEval(OrderUniverse \cup ModeUniverse)

TreeKey(S) == LET s == SortEntries(S) IN
    JoinStr([i \in 1..Len(s) |-> JoinStr([j \in 1..Len(s[i].name) |-> ToString(s[i].name[j])], ".") \o ":" \o ToString(s[i].mode) \o ":" \o ToString(s[i].sha)], " ")

\* blobs: chunk lists over the chunk pool (0 is the empty chunk)
BlobSpace == { <<>>, <<0>>, <<1>>, <<1, 2>>, <<0, 1, 0>>, <<2, 1>>, <<3>>, <<3, 0, 3>>, <<1, 2, 3>>, <<4>>, <<4, 4>> }
BlobKey(c) == JoinStr([i \in 1..Len(c) |-> ToString(c[i])], ",")

\* fields a rewriter (see Rewrite below) can be asked to change
RewriterFields == {"message", "author", "committer", "atime", "ctime", "atz", "ctz", "encoding", "parents"}

\* the harness reads the pools (abstract value of every index) from here, never from a copy
Pools == [commit |-> CommitPool, tag |-> TagPool, commitFields |-> CommitFields, tagFields |-> TagFields,
          commitTriples |-> CommitTriples, tagTriples |-> TagTriples,
          rewriterFields |-> SetToSeq(RewriterFields)]
ASSUME "POOL_FILE" \in DOMAIN IOEnv => JsonSerialize(IOEnv.POOL_FILE, Pools)

\* ------------------------------------------------------------------ enumeration: one state per case, one transition per one-field edit
VARIABLES kind, ix, case, key, toks, strict
vars == <<kind, ix, case, key, toks, strict>>

\* what `git fsck --strict' accepts among the canonical cases (validated against git 2.39.5 on every
\* enumerated case, both ways): everything except timestamps that do not fit git's unsigned
\* timestamp_t (negative ones).  dulwich must still serialise, name and parse the others.
GitStrictOK(k, c) == CASE k = "commit" -> ~c.atime.neg /\ ~c.ctime.neg
                       [] k = "tag"    -> Len(c.tagger) = 0 \/ ~c.ttime.neg
                       [] OTHER        -> TRUE

\* the edit graph is explored without the token text (states are identified by kind and case)
Toks(ts) == IF Edits THEN <<>> ELSE ToksStr(ts)

Init ==
    \/ /\ "commit" \in Kinds /\ kind = "commit"
       /\ ix \in CommitSpace
       /\ case = CaseOf(CommitPool, ix) /\ key = KeyStr(CommitFields, ix)
       /\ toks = Toks(SerCommit(case)) /\ strict = GitStrictOK(kind, case)
    \/ /\ "tag" \in Kinds /\ kind = "tag"
       /\ ix \in TagSpace
       /\ case = CaseOf(TagPool, ix) /\ key = KeyStr(TagFields, ix)
       /\ toks = Toks(SerTag(case)) /\ strict = GitStrictOK(kind, case)
    \/ /\ "tree" \in Kinds /\ kind = "tree"
       /\ case \in TreeSpace
       /\ ix = <<>> /\ key = TreeKey(case)
       /\ toks = Toks(SerTree(case)) /\ strict = TRUE
    \/ /\ "blob" \in Kinds /\ kind = "blob"
       /\ case \in BlobSpace
       /\ ix = <<>> /\ key = BlobKey(case)
       /\ toks = Toks(SerBlob(case)) /\ strict = TRUE

EditAt(P, F, Space, f, i) ==
        /\ i # ix[f]
        /\ ix' = [ix EXCEPT ![f] = i]
        /\ ix' \in Space
        /\ case' = CaseOf(P, ix') /\ key' = KeyStr(F, ix')
        /\ toks' = <<>> /\ strict' = GitStrictOK(kind, case')
        /\ UNCHANGED kind
EditField(P, F, Space) == \E f \in DOMAIN P : \E i \in 1..Len(P[f]) : EditAt(P, F, Space, f, i)

\* A REWRITER builds a new object from an old one (filter-branch's CommitFilter.process_commit; the same
\* holds for any code that copies a commit field by field).  Given the identity filter except for one
\* field f it must produce exactly the case the edit of f produces -- every other field is copied
\* losslessly, every other byte is reproduced, the new name is the hash of these bytes.  So a rewrite
\* is the edit transition, for the fields a rewriter can be asked to change; the filter interface
\* passes a zone as its offset only, so a zone is rewritable between values without the -0000 flag.
Rewritable(f, c, d) == /\ f \in RewriterFields /\ c.blank
                       /\ (f \in {"atz", "ctz"} => ~c[f].negutc /\ ~d[f].negutc)
RewriteIn(P, F, Space) == \E f \in RewriterFields : \E i \in 1..Len(P[f]) :
                              EditAt(P, F, Space, f, i) /\ Rewritable(f, case, case')
Rewrite == kind = "commit" /\ RewriteIn(CommitPool, CommitFields, CommitSpace)

EditTree ==
    \E e \in TreeUniverse :
        /\ case' = IF e \in case THEN case \ {e} ELSE case \cup {e}
        /\ case' \in TreeSpace
        /\ key' = TreeKey(case') /\ toks' = <<>>
        /\ UNCHANGED <<kind, ix, strict>>

Next == /\ Edits
        /\ \/ kind = "commit" /\ EditField(CommitPool, CommitFields, CommitSpace)
           \/ Rewrite
           \/ kind = "tag" /\ EditField(TagPool, TagFields, TagSpace)
           \/ kind = "tree" /\ EditTree

Spec == Init /\ [][Next]_vars

\* ------------------------------------------------------------------ lemmas about the grammar itself
WellFormed == CASE kind = "commit" -> CommitOK(case)
                [] kind = "tag"    -> TagOK(case)
                [] kind = "tree"   -> TreeOK(case)
                [] OTHER           -> TRUE

\* a one-field edit changes only the segment that field belongs to
SegsOf(k, c) == IF k = "commit" THEN CommitSegs(c) ELSE TagSegs(c)
\* ... and it does change that segment (the grammar is unambiguous along every edit), except where two
\* cases are the same object: a tag without tagger has no tag time and zone
SameObject(k, c, d) == c = d \/ (k = "tag" /\ Len(c.tagger) = 0 /\ Len(d.tagger) = 0
                                  /\ [c EXCEPT !.ttime = d.ttime, !.ttz = d.ttz] = d)
EditLemmaStep ==
    kind \in {"commit", "tag"} =>
        LET s0 == SegsOf(kind, case) s1 == SegsOf(kind, case')
        IN /\ \A g \in DOMAIN s0 :
                (\A f \in DOMAIN ix : ix'[f] # ix[f] => GroupOf(f) # g) => (s1[g] = s0[g])
           /\ (s1 = s0 => SameObject(kind, case, case'))
OtherSegsStable == [][EditLemmaStep]_vars

\* tree entries come out strictly increasing in git order whatever the set; adding or removing an
\* entry leaves the relative order and the bytes of all other entries alone
TreeSorted == kind = "tree" =>
    LET s == SortEntries(case) IN \A i \in 1..(Len(s) - 1) : GitLess(s[i], s[i + 1])
TreeEditStep ==
    kind = "tree" =>
        LET a == SortEntries(case) b == SortEntries(case')
            big == IF Len(a) > Len(b) THEN a ELSE b
            small == IF Len(a) > Len(b) THEN b ELSE a
        IN \E i \in 1..Len(big) : RemoveAt(big, i) = small
TreeEditLocal == [][TreeEditStep]_vars
=============================================================================

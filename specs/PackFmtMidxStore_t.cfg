SPECIFICATION Spec
CONSTANTS
  Layouts = {1, 2, 3, 4}
  MaxOps = 5
  TrustMidx = FALSE
INVARIANT ReadInv
CHECK_DEADLOCK FALSE

SPECIFICATION Spec
CONSTANTS
  Scen = "parser"
  MaxItems = 3
  MaxLen = 40
  MaxFrag = 40
  BufSizes = {0}
  SbMax = 3
  ResetBufLen = FALSE
  Gen = FALSE
INVARIANT ParserExact
INVARIANT WriterNoLoss
INVARIANT SbWellFormed
INVARIANT PipelineRoundTrip
CHECK_DEADLOCK FALSE

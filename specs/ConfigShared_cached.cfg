\* negative control: a parse cache keyed on (mtime, size) -- TLC must find ReadFresh violated
SPECIFICATION Spec
CONSTANTS
  Cached = TRUE
  CommitOnError = FALSE
INVARIANT ReadFresh
CHECK_DEADLOCK FALSE

SPECIFICATION Spec
CONSTANTS
  Refs = {1, 2}
  Pushers = {1, 2, 3}
  Inits <- Inits01
  PushIn <- RaceMC3
  CheckCas = TRUE
  CheckObj = TRUE
  AtomicMode = "txn"
  LocalCheckObj = TRUE
  LocalAtomicMode = "txn"
  KeepHist = FALSE
  Emit = FALSE
INVARIANT TypeOK
INVARIANT StatusExact
INVARIANT ImpliedSuccess
INVARIANT NoDanglingRef
INVARIANT AtomicOK
CHECK_DEADLOCK FALSE

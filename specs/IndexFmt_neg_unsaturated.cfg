SPECIFICATION Spec
CONSTANTS
  NameMask = 7
  Family = "neg"
  MaxKeys = 2
  MaxEdits = 1
  Defect = "unsaturated"
INVARIANT OrderInv
CHECK_DEADLOCK FALSE
INVARIANT ParseInv

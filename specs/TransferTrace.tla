---------------------------- MODULE TransferTrace ----------------------------
(***************************************************************************)
(* TLC as the judge of transfers executed by the real code (code -> spec;  *)
(* the cases enumerated by TransferCases come back through here as well,   *)
(* which is the spec -> code direction).                                   *)
(*                                                                         *)
(* One ndjson line per executed transfer:                                  *)
(*   tid                                                                   *)
(*   U      [par, tr, ent, lnk, tg]  the universe (sets as sequences,      *)
(*          objects as <<kind, n>>)                                        *)
(*   op     "fetch" | "clone" | "push"                                     *)
(*   snd, rcv   "d" (dulwich) | "g" (C git): who sent / who received       *)
(*   sstore, srefs   sender's store and advertised ref values (push: the   *)
(*          values the pusher was asked to send)                           *)
(*   sshal  the sender's own .git/shallow (the sender is a shallow clone);  *)
(*          an info/grafts file of the sender is not part of the trace:    *)
(*          the parents of a commit are the ones written in the commit     *)
(*   r0, rtips0, shal0   receiver's store, ref values and .git/shallow     *)
(*          before                                                         *)
(*   dang   objects in r0 that the receiver's refs do not reach and whose   *)
(*          own closure it lacks (Transfer: cs.dg): the receiver is         *)
(*          complete w.r.t. its refs, its store is not closed               *)
(*   r1, rtips1, shal1   ... after (projected from the directory by a      *)
(*          fresh reader); rtips1 includes the wanted values after a fetch *)
(*   depth  0, or the depth of a depth-limited fetch / clone               *)
(*   runk   number of objects in the receiver that are not objects of U    *)
(*   idbad  number of objects whose bytes differ from the sender's         *)
(*   gitok  1: git cat-file --batch-all-objects lists the same objects and *)
(*          git fsck --connectivity-only accepts the receiver; 0: not;     *)
(*          2: not asked                                                   *)
(*   wants  what was asked for;  forged = 1: not an advertised value;      *)
(*          mwants: the want list the sender's MissingObjectFinder was     *)
(*          given (push: the new values the remote does not list already)  *)
(*   inctag 1: include-tag was requested                                   *)
(*   ok     1: the operation reported success                              *)
(*   cap    1: the pack on the wire was captured: sent (ids in the pack),  *)
(*          sunk (ids in the pack that are not objects of U), thin (bases  *)
(*          outside the pack)                                              *)
(*   hk     1: the haves the sender worked from are known: haves           *)
(*   offered   every object a dulwich client named in a "have" line        *)
(*   mode, srv   ack mode and the server's view of the dialogue            *)
(*          (<<"r","have",o>> <<"r","flush">> <<"r","done">>               *)
(*           <<"w","ACK",o,kind>> <<"w","NAK">>), <<>> if not recorded      *)
(*   cli, rheads, miv   the dulwich client's view (<<"w","have",o>>        *)
(*          <<"r","ACK",o,kind>> <<"r","NAK">> <<"w","done">>), the heads   *)
(*          its walker started from, MAX_IN_VAIN; <<>> if not recorded      *)
(*                                                                         *)
(* Verdict <<"V", tid, clause, shape, detail>>:                            *)
(*   clause = first clause of the property statement the observed sets      *)
(*            contradict ("ok" if none).  A clause about the *sender* when  *)
(*            C git was the sender is reported as "SpecVsGit:<clause>" (a   *)
(*            bug of this specification, machinery failure).  "Antecedent"  *)
(*            = the harness built a case outside the property (machinery).  *)
(*   shape  = first way in which the run differs from the model although    *)
(*            the property holds ("ok" if none): drift, never an alarm.     *)
(***************************************************************************)
EXTENDS TransferOps, Json, IOUtils

Traces == ndJsonDeserialize(IOEnv.TRACE_FILE)

VARIABLES tid, stage
tvars == <<tid, stage>>

SeqSet(s) == {s[i] : i \in DOMAIN s}

Univ(j) == [par |-> [i \in 1..Len(j.par) |-> SeqSet(j.par[i])],
            tr  |-> j.tr,
            ent |-> [i \in 1..Len(j.ent) |-> SeqSet(j.ent[i])],
            lnk |-> j.lnk,
            tg  |-> j.tg]

\* ------------------------------------------------------------ dialogue, server side
\* -> 0 if the recorded reads/writes are exactly what the ack implementation of Transfer does,
\*    else the index of the first event that is not; second component: the haves it accepted
RECURSIVE SrvReplay(_, _, _, _, _, _, _, _)
SrvReplay(U, sstore, wants, mode, ev, k, st, pend) ==
    IF k > Len(ev) THEN <<IF pend = <<>> THEN 0 ELSE k, st.haves>>
    ELSE LET e == ev[k] IN
         IF e[1] = "w"
         THEN IF pend # <<>> /\ Head(pend) = Tail(e)
              THEN SrvReplay(U, sstore, wants, mode, ev, k + 1, st, Tail(pend))
              ELSE <<k, st.haves>>
         ELSE IF pend # <<>> THEN <<k, st.haves>>
         ELSE IF e[2] = "have"
              THEN LET r == SrvHave(U, sstore, wants, mode, st, e[3])
                   IN  SrvReplay(U, sstore, wants, mode, ev, k + 1, r.st, r.out)
         ELSE IF e[2] = "flush" /\ mode # "single"
              THEN SrvReplay(U, sstore, wants, mode, ev, k + 1, st, SrvFlush(U, wants, mode, st))
         ELSE SrvReplay(U, sstore, wants, mode, ev, k + 1, st, SrvDone(mode, st))

\* ------------------------------------------------------------ dialogue, client side (dulwich)
\* s = [heads, wp, inVain, gotAck, done, ready]; "ACK <id> ready" (C git server) ends the have list
RECURSIVE CliReplay(_, _, _, _, _)
CliReplay(U, miv, ev, k, s) ==
    IF k > Len(ev) THEN (IF s.done THEN 0 ELSE k)
    ELSE LET e == ev[k] IN
         IF s.done THEN CliReplay(U, miv, ev, k + 1, s)              \* tail: nothing left to decide
         ELSE IF e[1] = "w" /\ e[2] = "have"
              THEN IF Kind(e[3]) = "c" /\ Num(e[3]) \in s.heads
                   THEN LET n == WalkerNext(U, s.heads, s.wp, Num(e[3]))
                        IN  CliReplay(U, miv, ev, k + 1, [s EXCEPT !.heads = n.heads, !.wp = n.wp, !.inVain = @ + 1])
                   ELSE k
         ELSE IF e[1] = "w"       \* done
              THEN IF s.heads = {} \/ (s.inVain >= miv /\ s.gotAck) \/ s.ready
                   THEN CliReplay(U, miv, ev, k + 1, [s EXCEPT !.done = TRUE])
                   ELSE k
         ELSE IF e[2] = "ACK" /\ e[4] # ""
              THEN LET a == WalkerAck(s.heads, s.wp, {Num(e[3])})
                   IN  CliReplay(U, miv, ev, k + 1, [s EXCEPT !.heads = a.heads, !.wp = a.wp, !.inVain = 0, !.gotAck = TRUE,
                                                              !.ready = @ \/ e[4] = "ready"])
         ELSE CliReplay(U, miv, ev, k + 1, s)

\* ------------------------------------------------------------ one transfer
Judge(t) ==
    LET U       == Univ(t.U)
        sstore  == SeqSet(t.sstore)
        srefs   == SeqSet(t.srefs)
        r0      == SeqSet(t.r0)
        r1      == SeqSet(t.r1)
        wants   == SeqSet(t.wants)
        sent    == SeqSet(t.sent)
        ok      == t.ok = 1
        cap     == t.cap = 1
        shal0   == SeqSet(t.shal0)
        shal1   == SeqSet(t.shal1)
        shallow == t.depth > 0 \/ shal0 # {} \/ shal1 # {} \/ t.sshal # <<>>
        wcl     == Closure(U, wants)
        wcut    == ClosureCut(U, shal1, wants)
        tagrefs == {g \in srefs : Kind(g) = "g"}
        auto    == IF t.inctag = 1
                   THEN UNION {TagChain(U, g) : g \in {x \in tagrefs : Peel(U, x) \in wcl}} ELSE {}
        need    == ClosureCut(U, shal1, SeqSet(t.rtips1) \cup (IF ok THEN wants ELSE {}))
        sndClause ==
            IF ~cap THEN "ok"
            ELSE IF t.sunk > 0 \/ ~(sent \subseteq sstore) THEN "SenderSound.store"
            ELSE IF t.op # "push" /\ ~(sent \subseteq Closure(U, srefs)) THEN "SenderSound.advertised"
            ELSE IF ~(sent \subseteq wcl \cup auto) THEN "SenderSound.wants"
            ELSE "ok"
        rcvClause ==
            IF ~(r0 \subseteq r1) THEN "NoLoss"
            ELSE IF t.idbad > 0 \/ t.runk > 0 THEN "Identity"
            ELSE IF ok /\ ~(wcut \subseteq r1) THEN "ReceiverComplete.wants"
            ELSE IF ~(need \subseteq r1) THEN "ReceiverComplete.closed"
            ELSE IF t.gitok = 0 THEN "Identity.git"
            ELSE "ok"
        clause ==
            IF ~ClosedCut(U, SeqSet(t.sshal), sstore) \/ ~ClosedCut(U, shal0, r0 \ SeqSet(t.dang)) \/ ~(ClosureCut(U, shal0, SeqSet(t.rtips0)) \subseteq r0)
               \/ ~(srefs \subseteq sstore) THEN "Antecedent"
            ELSE IF sndClause # "ok" THEN (IF t.snd = "g" THEN "SpecVsGit:" \o sndClause ELSE sndClause)
            \* a request for an object that no advertised ref reaches was served
            ELSE IF t.forged = 1 /\ ok /\ t.op # "push" /\ t.snd = "d" /\ ~(wants \subseteq Closure(U, srefs))
                 THEN "WantValidation"
            ELSE IF rcvClause # "ok"
                 THEN (IF t.snd = "g" /\ t.rcv = "g" THEN "SpecVsGit:" \o rcvClause ELSE rcvClause)
            ELSE "ok"
        \* shape: does the run look like the model?
        sr      == IF t.srv # <<>> /\ ok
                   THEN SrvReplay(U, sstore, wants, t.mode, t.srv, 1, [common |-> <<>>, found |-> FALSE, haves |-> <<>>], <<>>)
                   ELSE <<0, <<>>>>
        haves   == IF t.srv # <<>> /\ ok THEN SeqSet(sr[2]) ELSE SeqSet(t.haves)
        hk      == t.hk = 1 \/ (t.srv # <<>> /\ ok)
        mofOK   == \/ ~cap \/ ~hk \/ t.snd # "d" \/ ~ok \/ shallow
                   \* get_tagged() returns {} when the backend repository has no .repo attribute
                   \* (a plain Repo behind FileSystemBackend): include-tag then adds nothing
                   \/ \E tg \in (IF t.inctag = 1 THEN TaggedChoices(U, tagrefs) \cup {<<>>} ELSE {<<>>}) :
                        sent = MofSent(U, sstore, haves, SeqSet(t.mwants), tg)
        cr      == IF t.cli # <<>> /\ ok
                   THEN CliReplay(U, t.miv, t.cli, 1,
                                  [heads |-> SeqSet(t.rheads), wp |-> WalkerInit(Len(U.par)), inVain |-> 0,
                                   gotAck |-> FALSE, done |-> FALSE, ready |-> FALSE])
                   ELSE 0
        shape ==
            IF t.forged = 1 /\ ok THEN "ForgedWantAccepted"
            \* a client only offers what it holds (shallow or not): the walker never leaves its store
            ELSE IF ~(SeqSet(t.offered) \subseteq r0) THEN "ClientOffersAbsent"
            ELSE IF ~shallow /\ sr[1] # 0 THEN "ServerDialogue@" \o ToString(sr[1])
            ELSE IF ~shallow /\ cr # 0 THEN "ClientDialogue@" \o ToString(cr)
            ELSE IF hk /\ ~(haves \subseteq (IF t.op = "push" THEN r0 ELSE r0 \cap sstore)) THEN "HavesSound"
            ELSE IF ~mofOK THEN "MofConform"
            \* a depth-limited fetch into a repository that was not shallow delivers everything
            \* down to the boundary find_shallow computes
            ELSE IF ok /\ t.depth > 0 /\ shal0 = {}
                    /\ ~(ClosureCut(U, DepthCut(U, wants, t.depth).edge, wants) \subseteq r1) THEN "DepthHonoured"
            ELSE IF cap /\ ok /\ ~(SeqSet(t.thin) \subseteq r0 \cup sent) THEN "ThinBases"
            ELSE "ok"
    IN  PrintT(<<"V", t.tid, clause, shape,
                 IF clause = "ReceiverComplete.wants" THEN wcut \ r1
                 ELSE IF clause = "ReceiverComplete.closed" THEN need \ r1
                 ELSE IF sndClause = "SenderSound.advertised" THEN sent \ Closure(U, srefs)
                 ELSE IF sndClause # "ok" THEN sent \ (wcl \cup auto)
                 ELSE IF shape = "MofConform" THEN <<sent, MofSent(U, sstore, haves, SeqSet(t.mwants), <<>>)>>
                 ELSE {}>>)

TraceInit == tid \in 1..Len(Traces) /\ stage = 0
TraceNext == stage = 0 /\ stage' = 1 /\ tid' = tid /\ Judge(Traces[tid])
TraceSpec == TraceInit /\ [][TraceNext]_tvars
=============================================================================

SPECIFICATION Spec
CONSTANTS
  Actors = {0, 1, 2}
  MaxWrites = 2
  MaxFaults = 2
  CleanupAfterReplace = FALSE
  CloseOnError = FALSE
INVARIANT TypeOK
INVARIANT Mutex
INVARIANT AtomicReplace
INVARIANT FailedKeepsOld
INVARIANT ReleasedAtExit
INVARIANT OkMeansReplaced
PROPERTY NoForeignRelease
VIEW View
CHECK_DEADLOCK FALSE

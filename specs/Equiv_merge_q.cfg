SPECIFICATION Spec
CONSTANTS
  Fam = "merge"
  MaxLen = 2
  Sel <- MergeCellsQ
INVARIANT Lemmas
INVARIANT InModel
CHECK_DEADLOCK FALSE

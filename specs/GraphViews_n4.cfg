\* every canonical DAG on 4 commits x every single cut (shallow boundary / graft point) of one commit
\* (harness/props/c13.py writes the same configuration; N=5 is sampled by the harness in the quick tier)
SPECIFICATION Spec
CONSTANTS
  MaxExtra = 5
  N = 4
INVARIANT ViewOK
CHECK_DEADLOCK FALSE

SPECIFICATION Spec
CONSTANTS
  Refs = {1, 2}
  Pushers = {1}
  Inits <- Inits012
  PushIn <- WireMC
  CheckCas = TRUE
  CheckObj = TRUE
  AtomicMode = "precheck"
  LocalCheckObj = TRUE
  LocalAtomicMode = "precheck"
  KeepHist = FALSE
  Emit = FALSE
INVARIANT TypeOK
INVARIANT StatusExact
INVARIANT ImpliedSuccess
INVARIANT NoDanglingRef
INVARIANT AtomicOK
CHECK_DEADLOCK FALSE

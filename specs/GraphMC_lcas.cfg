\* _find_lcas as find_merge_base runs it today: what holds under any clock (quick: L = 3; thorough adds N = 5, L = 3, TieBreak asc and N = 4, MaxD = 3)
SPECIFICATION Spec
CONSTANTS
  MaxExtra = 5
  N = 4
  L = 4
  Mode = "lcas"
  UseMinStamp = TRUE
  Reduce = FALSE
  Clocks = "any"
  MaxD = 1
  TieBreak = "both"
INVARIANT PaintSound
INVARIANT NoLostBase
INVARIANT Superset
INVARIANT ExactWhenStrict
INVARIANT Bounded
CHECK_DEADLOCK FALSE

SPECIFICATION Spec
CONSTANTS
  MinN = 1
  MaxN = 2
  AttrMode = 2
  Modes = {1, 2, 3, 4, 5, 6, 7}
  CycleGuard = TRUE
  MemAtomic = TRUE
  DiskVerify = TRUE
  Emit = TRUE
INVARIANT Terminates
INVARIANT ErrorOrAll
INVARIANT FailedInvisible
INVARIANT TrailerChecked
INVARIANT ValidAccepted
CHECK_DEADLOCK FALSE

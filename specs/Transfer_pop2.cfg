\* MissingObjectFinder work-set order: every pop order, 2 commits x 25 tree assignments x <= 1 tag, include-tag
SPECIFICATION Spec
CONSTANTS
  NC = 2
  NTP = 5
  NT = 1
  MaxHeads = 3
  MaxWants = 1
  Modes = {"detailed"}
  IncTag = {TRUE}
  Thin = {FALSE}
  SFull = {FALSE}
  Forge = FALSE
  MaxInVain = 2
  AtomicNeg = TRUE
  PopAny = TRUE
  Bug = "none"
INVARIANT TypeOK
INVARIANT Antecedent
INVARIANT ReceiverComplete
INVARIANT NoLoss
INVARIANT SenderSound
INVARIANT WantValidation
INVARIANT ThinResolvable
INVARIANT Confluent
INVARIANT HavesSound
CHECK_DEADLOCK FALSE

\* MissingObjectFinder work-set order (quick + thorough): every pop order, include-tag on
\* (harness/props/c05.py writes the same configuration at run time; TransferCases uses the same constants
\*  plus SampleMod / SampleSeed)
SPECIFICATION Spec
CONSTANTS
  NC = 2
  NTP = 4
  NT = 1
  MaxHeads = 2
  MaxWants = 1
  Modes = {"detailed"}
  IncTag = {TRUE}
  Thin = {FALSE}
  SFull = {FALSE}
  Forge = FALSE
  MaxInVain = 2
  AtomicNeg = TRUE
  PopAny = TRUE
  MaxDangle = 0
  Bug = "none"
INVARIANT TypeOK
INVARIANT Antecedent
INVARIANT ReceiverComplete
INVARIANT NoLoss
INVARIANT SenderSound
INVARIANT WantValidation
INVARIANT ThinResolvable
INVARIANT Confluent
INVARIANT HavesSound
CHECK_DEADLOCK FALSE

SPECIFICATION Spec
CONSTANTS
  Layouts = {1, 2}
  MaxOps = 3
  TrustMidx = TRUE
INVARIANT ReadInv
CHECK_DEADLOCK FALSE

SPECIFICATION Spec
CONSTANTS
  NF = 3
  Vals = {0, 1}
  IsBlob = FALSE
  SetterMarksDirty = FALSE
  ExplicitSha1Recomputes = TRUE
  ChunkedResetsSha = TRUE
INVARIANT IdIsHash
INVARIANT SerCurrent
CHECK_DEADLOCK FALSE

\* object-graph, quick: 2 commits x all 25 root-tree assignments x <= 1 tag; negotiation collapsed, fixed pop order
SPECIFICATION Spec
CONSTANTS
  NC = 2
  NTP = 5
  NT = 1
  MaxHeads = 3
  MaxWants = 2
  Modes = {"detailed"}
  IncTag = {FALSE, TRUE}
  Thin = {TRUE}
  SFull = {FALSE}
  Forge = FALSE
  MaxInVain = 2
  AtomicNeg = TRUE
  PopAny = FALSE
  Bug = "none"
INVARIANT TypeOK
INVARIANT Antecedent
INVARIANT ReceiverComplete
INVARIANT NoLoss
INVARIANT SenderSound
INVARIANT WantValidation
INVARIANT ThinResolvable
INVARIANT Confluent
INVARIANT HavesSound
CHECK_DEADLOCK FALSE

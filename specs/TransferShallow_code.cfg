\* the client as the snapshot has it: both properties fail (known findings)
SPECIFICATION Spec
CONSTANTS
  Variants = {"v0", "v2"}
  MaxNB = 2
  MaxNH = 2
  ReadFirst = FALSE
  HandleUnasked = FALSE
INVARIANT ShallowRecorded
INVARIANT PackDelivered
CHECK_DEADLOCK FALSE

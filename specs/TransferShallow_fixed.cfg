\* the client with the two proposed repairs: both properties hold
SPECIFICATION Spec
CONSTANTS
  Variants = {"v0", "v2"}
  MaxNB = 2
  MaxNH = 2
  ReadFirst = TRUE
  HandleUnasked = TRUE
INVARIANT ShallowRecorded
INVARIANT PackDelivered
CHECK_DEADLOCK FALSE

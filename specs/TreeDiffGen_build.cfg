SPECIFICATION BuildSpec
CONSTANTS
  BPaths <- ConflictPaths
  BCells <- AllCells
  BMax = 3
  DPaths <- TinyPaths
  DCells <- FourCells
  DMax = 2
  Filters <- StdFilters
INVARIANT Lemmas
CHECK_DEADLOCK FALSE

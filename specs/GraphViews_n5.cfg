\* every canonical DAG on 5 commits x every single cut (shallow boundary / graft point) of one commit
\* (harness/props/c13.py writes the same configuration; N=5 is sampled by the harness in the quick tier)
SPECIFICATION Spec
CONSTANTS
  MaxExtra = 5
  N = 5
INVARIANT ViewOK
CHECK_DEADLOCK FALSE

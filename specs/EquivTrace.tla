------------------------------ MODULE EquivTrace ------------------------------
(***************************************************************************)
(* Batch validation of recorded executions of the two real implementations *)
(* against Equiv (code -> spec).  One ndjson line per execution:           *)
(*                                                                         *)
(*   {"tid", "fam", <inputs>, "py": [obs...], "rs": [obs...]}              *)
(*                                                                         *)
(* one observation per variant of the call.  TLC evaluates the reference   *)
(* semantics on the recorded input and judges, per variant,                *)
(*     eq    ObsEq(py, rs)                    -- the property              *)
(*     pyOk  the pure-Python answer is inside what the reference permits   *)
(*     rsOk  the Rust answer is inside what the reference permits          *)
(*     pyRef the pure-Python answer IS the reference answer (blame)        *)
(*     rsRef the Rust answer IS the reference answer                       *)
(* and prints <<"VERDICT", tid, fam, refSummary, eq, pyOk, rsOk, pyRef,    *)
(* rsRef>>.  (Ok and Ref differ for the decoders -- a decoder may fail or  *)
(* return the output C03's postcondition admits -- and for the shared '+'  *)
(* leniency of parse_tree.)                                                *)
(*                                                                         *)
(*  fam "pt"      text, shaLen; variants strict off/on;                    *)
(*                obs {"k":"f"} | {"k":"v","e":[[digits],[name],[id]]...}  *)
(*  fam "items"   items [[name, tag]...], no; obs {"k":"v","e":[[name,tag]]}*)
(*  fam "delta"   base, delta; obs {"k":"v","out":[...]}                   *)
(*  fam "cdelta"  base, target; obs {"k":"v","d":[delta bytes]}: judged by *)
(*                Decode(base, d) = target ("the bytes may differ but both *)
(*                must decode to the target")                              *)
(*  fam "bisect"  table, lo, hi, key; obs {"k":"val","i":n} | {"k":"none"} *)
(*  fam "merge"   t1, t2; obs {"k":"v","e":[[e1, e2]...]}                  *)
(*  fam "blocks"  content; obs {"k":"v","totals":[sorted byte totals]};    *)
(*                refSummary = Count(content), the harness re-keys it by   *)
(*                hash(block) for the exact comparison                     *)
(***************************************************************************)
EXTENDS Equiv, Json, IOUtils

Traces == ndJsonDeserialize(IOEnv.TRACE_FILE)

Fail == <<"f">>
IsF(o) == o.k = "f"

\* ---- parse_tree
PtObs(o) == IF IsF(o) THEN Fail ELSE <<"v", o.e>>
PtRef(r) == IF r[1] = "ok" THEN <<"v", r[4]>> ELSE Fail
VerdictPt(t) ==
    LET r  == <<ParseTree(t.text, t.shaLen, FALSE), ParseTree(t.text, t.shaLen, TRUE)>>
        py == [j \in 1..2 |-> PtObs(t.py[j])]
        rs == [j \in 1..2 |-> PtObs(t.rs[j])]
    IN <<"VERDICT", t.tid, "pt", [j \in 1..2 |-> <<r[j][1], r[j][2], r[j][3], r[j][5]>>],
         [j \in 1..2 |-> ObsEq(py[j], rs[j])],
         [j \in 1..2 |-> ParseAllowed(r[j], py[j])],
         [j \in 1..2 |-> ParseAllowed(r[j], rs[j])],
         [j \in 1..2 |-> py[j] = PtRef(r[j])],
         [j \in 1..2 |-> rs[j] = PtRef(r[j])]>>

\* ---- sorted_tree_items
ItObs(o) == IF IsF(o) THEN Fail ELSE <<"v", o.e>>
VerdictItems(t) ==
    LET ref == <<"v", SortItems(t.items, t.no = 1)>> IN
    <<"VERDICT", t.tid, "items", <<>>,
      <<ObsEq(ItObs(t.py[1]), ItObs(t.rs[1]))>>, <<ItObs(t.py[1]) = ref>>, <<ItObs(t.rs[1]) = ref>>,
      <<ItObs(t.py[1]) = ref>>, <<ItObs(t.rs[1]) = ref>>>>

\* ---- apply_delta
DObs(o) == IF IsF(o) THEN Fail ELSE <<"v", o.out>>
DRef(j) == IF j[1] = "ok" THEN <<"v", j[3]>> ELSE Fail
VerdictDelta(t) ==
    LET j == DeltaJudge(t.base, t.delta)
        n == Len(t.py)
    IN <<"VERDICT", t.tid, "delta", <<j[1], j[2], j[4]>>,
         [k \in 1..n |-> ObsEq(DObs(t.py[k]), DObs(t.rs[k]))],
         [k \in 1..n |-> DeltaAllowed(j, DObs(t.py[k]))],
         [k \in 1..n |-> DeltaAllowed(j, DObs(t.rs[k]))],
         [k \in 1..n |-> DObs(t.py[k]) = DRef(j)],
         [k \in 1..n |-> DObs(t.rs[k]) = DRef(j)]>>

\* ---- create_delta
COk(t, o) == ~IsF(o) /\ D!Decode(t.base, o.d) = [st |-> "ok", out |-> t.target]
VerdictCDelta(t) ==
    LET n == Len(t.py) IN
    <<"VERDICT", t.tid, "cdelta", <<>>,
      [k \in 1..n |-> (IsF(t.py[k]) /\ IsF(t.rs[k])) \/ (COk(t, t.py[k]) /\ COk(t, t.rs[k]))],
      [k \in 1..n |-> COk(t, t.py[k])],
      [k \in 1..n |-> COk(t, t.rs[k])],
      [k \in 1..n |-> COk(t, t.py[k])],
      [k \in 1..n |-> COk(t, t.rs[k])]>>

\* ---- bisect_find_sha
BObs(o) == IF o.k = "f" THEN Fail ELSE IF o.k = "none" THEN <<"n">> ELSE <<"v", o.i>>
BRef(r) == IF r[1] = "fail" THEN Fail ELSE IF r[1] = "none" THEN <<"n">> ELSE <<"v", r[2]>>
VerdictBisect(t) ==
    LET r == Find(t.table, t.lo, t.hi, t.key) IN
    <<"VERDICT", t.tid, "bisect", <<r[1]>>,
      <<ObsEq(BObs(t.py[1]), BObs(t.rs[1]))>>, <<BObs(t.py[1]) = BRef(r)>>, <<BObs(t.rs[1]) = BRef(r)>>,
      <<BObs(t.py[1]) = BRef(r)>>, <<BObs(t.rs[1]) = BRef(r)>>,
      FindLemma(t.table, t.lo, t.hi, t.key)>>

\* ---- _merge_entries
MObs(o) == IF IsF(o) THEN Fail ELSE <<"v", o.e>>
VerdictMerge(t) ==
    LET ref == <<"v", MergeEntries(t.t1, t.t2)>> IN
    <<"VERDICT", t.tid, "merge", <<>>,
      <<ObsEq(MObs(t.py[1]), MObs(t.rs[1]))>>, <<MObs(t.py[1]) = ref>>, <<MObs(t.rs[1]) = ref>>,
      <<MObs(t.py[1]) = ref>>, <<MObs(t.rs[1]) = ref>>>>

\* ---- _count_blocks
Totals(c) == SortSeq([k \in DOMAIN c |-> c[k][3]], <)
KObs(o) == IF IsF(o) THEN Fail ELSE <<"v", o.totals>>
VerdictBlocks(t) ==
    LET c == Count(t.content)
        n == Len(t.py)
    IN <<"VERDICT", t.tid, "blocks", c,
         [k \in 1..n |-> ObsEq(KObs(t.py[k]), KObs(t.rs[k]))],
         [k \in 1..n |-> KObs(t.py[k]) = <<"v", Totals(c)>>],
         [k \in 1..n |-> KObs(t.rs[k]) = <<"v", Totals(c)>>],
         [k \in 1..n |-> KObs(t.py[k]) = <<"v", Totals(c)>>],
         [k \in 1..n |-> KObs(t.rs[k]) = <<"v", Totals(c)>>]>>

Verdict(t) ==
    CASE t.fam = "pt" -> VerdictPt(t)
      [] t.fam = "items" -> VerdictItems(t)
      [] t.fam = "delta" -> VerdictDelta(t)
      [] t.fam = "cdelta" -> VerdictCDelta(t)
      [] t.fam = "bisect" -> VerdictBisect(t)
      [] t.fam = "merge" -> VerdictMerge(t)
      [] t.fam = "blocks" -> VerdictBlocks(t)

VARIABLE i
Init == i = 0
Next == /\ i < Len(Traces)
        /\ PrintT(ToString(Verdict(Traces[i + 1])))
        /\ i' = i + 1
Spec == Init /\ [][Next]_i
=============================================================================

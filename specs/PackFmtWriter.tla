--------------------------- MODULE PackFmtWriter ---------------------------
(***************************************************************************)
(* The pack writer of dulwich as a state machine, one action per step of   *)
(* the real code:                                                          *)
(*                                                                         *)
(*   Start      pack_objects_to_data / generate_unpacked_objects: decide   *)
(*              the record stream (input order, or sort_objects_for_delta) *)
(*   SrcDelta   (api 6 only) the pack the container already holds, written *)
(*              earlier by the deltifying writer: which object is a delta  *)
(*              of which                                                   *)
(*   Reuse      (api 6) find_reusable_deltas: deltas of the container whose*)
(*              base is sent too or is one of the receiver's objects come  *)
(*              first, as records with a base                              *)
(*   Delta      deltas_from_sorted_objects: one record per step, base      *)
(*              chosen among the last `window` records of the same type    *)
(*   Write      PackChunkGenerator._pack_data_chunks, one record per step: *)
(*              full | OFS(offset - entries[base]) | REF(base);            *)
(*              entries[id] := offset                                      *)
(*   Trailer    the checksum                                               *)
(*   Ingest     (apis 8, 9) the stream just written is handed to a store:  *)
(*              DiskObjectStore.add_thin_pack (streaming reader) or        *)
(*              add_pack (mapped reader); the store appends the outside    *)
(*              bases of a thin pack (extend_pack) and fixes the count     *)
(*   Index      write_pack_index over sorted(entries) (apis that keep the  *)
(*              dict) or over the scan of the pack (DiskObjectStore)       *)
(*                                                                         *)
(* A case = (objects in the order handed to the writer, the receiver's     *)
(* objects for a thin pack, an option row).  Every case is an initial      *)
(* state, so the state graph is the forest of all writer behaviours; each  *)
(* completed behaviour is printed (CASE ...) for replay on the real code.  *)
(* Lengths of compressed data are abstract (CLen), everything else about   *)
(* the layout is computed with the operators of PackFmt and the layout     *)
(* invariants are checked in every state.                                  *)
(***************************************************************************)
EXTENDS PackFmt, SequencesExt

CONSTANTS
    MaxObjs,        \* objects per case
    UIds,           \* the part of the universe used
    RowSet,         \* option rows (RowsAll, RowsPairwise, ...)
    AllowDup,       \* may the same object be handed to the writer twice
    DedupInput,     \* repaired writer: duplicates are dropped before counting (FALSE = the code as is)
    OfsPlain,       \* defect model: un-biased OFS encoding
    EmitMod, EmitRes  \* print the behaviours of the cases whose hash is EmitRes modulo EmitMod

VARIABLES case, pc, order, src, recs, ents, pos, es, cnt
vars == <<case, pc, order, src, recs, ents, pos, es, cnt>>

\* ------------------------------------------------------------------ universe
\* id -> type, size, family (0 = resembles nothing); concrete twin: harness/c02_lib.py universe()
\* (all blobs of family 2 are prefixes of one incompressible stream)
U(oid) ==
    LET hex == 2 * oid IN
    << [t |-> BLOB,   size |-> N(0),              fam |-> 0],   \*  1 empty blob
       [t |-> BLOB,   size |-> N(15),             fam |-> 0],   \*  2 last size in one header byte
       [t |-> BLOB,   size |-> N(16),             fam |-> 0],   \*  3 first size needing two
       [t |-> BLOB,   size |-> N(2047),           fam |-> 2],   \*  4 last size in two header bytes
       [t |-> BLOB,   size |-> N(2048),           fam |-> 2],   \*  5
       [t |-> BLOB,   size |-> N(65535),          fam |-> 2],   \*  6 largest single copy op
       [t |-> BLOB,   size |-> N(65536),          fam |-> 2],   \*  7
       [t |-> BLOB,   size |-> N(65537),          fam |-> 2],   \*  8
       [t |-> BLOB,   size |-> N(65510),          fam |-> 2],   \*  9 zlib stream of exactly 64 KiB (levels # 0)
       [t |-> BLOB,   size |-> N(65525),          fam |-> 2],   \* 10 zlib stream of exactly 64 KiB (level 0)
       [t |-> TREE,   size |-> N(8 * (11 + oid)), fam |-> 3],   \* 11
       [t |-> TREE,   size |-> N(9 * (11 + oid)), fam |-> 3],   \* 12
       [t |-> COMMIT, size |-> N(318 + hex),      fam |-> 4],   \* 13
       [t |-> COMMIT, size |-> N(326 + 2 * hex),  fam |-> 4],   \* 14
       [t |-> TAG,    size |-> N(93 + hex),       fam |-> 0],   \* 15
       [t |-> BLOB,   size |-> N(262144),         fam |-> 2] >> \* 16 first size needing four header bytes

\* ------------------------------------------------------------------ option rows
\* <<api, deltify, window, reuse, thin, ofs, level, idxv, oid>>
\* api: 1 write_pack  2 write_pack_objects  3 pack_objects_to_data + write_pack_data
\*      4 DiskObjectStore.add_objects  5 DiskObjectStore.repack  6 write_pack_from_container
\*      8 DiskObjectStore.add_thin_pack  9 DiskObjectStore.add_pack   (both ingest the stream api 6 would write;
\*        ofs = 0: every delta of the stream is a REF_DELTA, also where the base precedes it -- what a peer
\*        without ofs-delta sends)
\*      10 pack_objects_to_data + PackBasedObjectStore.add_pack_data
\*      (7 is a harness-only scenario: a pack copied record by record with its compressed chunks)
Container(a) == a \in {6, 8, 9}
Ingest(a) == a \in {8, 9}
RowValid(r) ==
    /\ (r[1] \in {4, 5}) => (r[2] = 0)
    /\ (r[2] = 0) => (r[3] = 10)
    /\ (~Container(r[1])) => (r[4] = 0 /\ r[5] = 0)
    /\ (r[1] \notin {3, 8, 9}) => (r[6] = 1)
    /\ (r[1] = 1) => (r[8] = 2)
    /\ (r[5] = 1) => (r[4] = 1)
RowsAll == { r \in {1, 2, 3, 4, 5, 6, 8, 9, 10} \X {0, 1} \X {0, 1, 10} \X {0, 1} \X {0, 1} \X {0, 1} \X {-1, 0, 9}
                  \X {1, 2, 3} \X {20, 32} : RowValid(r) }
\* every pair of option values that occurs in RowsAll occurs here (plus the ingest rows with REF_DELTA entries
\* before / after / outside their base)
RowsPairwise == {
    <<6, 1, 10, 1, 1, 1, 9, 1, 32>>, <<8, 1, 0, 0, 0, 0, -1, 2, 20>>, <<5, 0, 10, 0, 0, 1, 0, 3, 32>>,
    <<9, 1, 1, 1, 1, 0, 0, 1, 20>>, <<9, 0, 10, 1, 1, 1, -1, 2, 20>>, <<3, 1, 1, 0, 0, 0, 9, 3, 32>>,
    <<2, 1, 0, 0, 0, 1, -1, 1, 32>>, <<8, 0, 10, 1, 1, 0, 9, 3, 32>>, <<10, 1, 1, 0, 0, 1, 9, 2, 20>>,
    <<1, 1, 0, 0, 0, 1, 0, 2, 32>>, <<6, 1, 0, 0, 0, 1, -1, 3, 20>>, <<4, 0, 10, 0, 0, 1, 9, 1, 20>>,
    <<9, 1, 0, 1, 0, 1, 9, 3, 32>>, <<3, 0, 10, 0, 0, 1, 0, 2, 20>>, <<2, 0, 10, 0, 0, 1, 0, 2, 20>>,
    <<10, 0, 10, 0, 0, 1, -1, 3, 32>>, <<8, 1, 1, 1, 1, 1, -1, 1, 20>>, <<5, 0, 10, 0, 0, 1, 9, 2, 20>>,
    <<1, 0, 10, 0, 0, 1, 9, 2, 20>>, <<6, 0, 10, 0, 0, 1, 0, 2, 32>>, <<10, 1, 0, 0, 0, 1, 0, 1, 32>>,
    <<3, 1, 0, 0, 0, 0, -1, 1, 32>>, <<4, 0, 10, 0, 0, 1, -1, 2, 32>>, <<8, 1, 0, 1, 1, 0, 0, 2, 32>>,
    <<2, 1, 1, 0, 0, 1, 9, 3, 20>>, <<4, 0, 10, 0, 0, 1, 0, 3, 32>>, <<1, 1, 1, 0, 0, 1, -1, 2, 20>>,
    <<5, 0, 10, 0, 0, 1, -1, 1, 20>>, <<9, 0, 10, 0, 0, 0, 0, 3, 32>>, <<6, 1, 1, 0, 0, 1, -1, 2, 20>>,
    <<8, 0, 10, 1, 0, 1, -1, 2, 20>>, <<8, 0, 10, 1, 1, 1, 0, 2, 20>>, <<8, 1, 10, 0, 0, 0, -1, 2, 20>>,
    <<9, 0, 10, 1, 1, 0, 9, 1, 20>>, <<9, 1, 10, 0, 0, 0, 0, 2, 20>>, <<8, 1, 1, 1, 1, 0, 9, 3, 20>>,
    <<10, 1, 10, 0, 0, 1, -1, 2, 20>> }
RowsPlain == { r \in RowsPairwise : r[9] = 20 /\ r[1] \in {1, 3, 4} }

Api(c) == c.row[1]
Deltify(c) == c.row[2] = 1
\* write_pack and write_pack_objects do not pass delta_window_size on: the default (10) is used
Window(c) == IF c.row[1] \in {1, 2} THEN 10 ELSE c.row[3]
Reuse(c) == c.row[4] = 1
IdxV(c) == c.row[8]
Oid(c) == c.row[9]
\* which index the api produces: from the dict `entries` (one entry per name) or from a scan of the pack
IdxFromDict(c) == c.row[1] \in {1, 2, 3, 6}
\* the ingested stream carries REF_DELTA entries only
ForceRef(c) == Ingest(c.row[1]) /\ c.row[6] = 0

U20 == U(20)
U32 == U(32)
UU(c) == IF Oid(c) = 20 THEN U20 ELSE U32
Friendly(c, a, b) ==
    IF a = b THEN ~LZero(UU(c)[a].size)
    ELSE UU(c)[a].fam # 0 /\ UU(c)[a].fam = UU(c)[b].fam /\ UU(c)[a].t = UU(c)[b].t

\* ------------------------------------------------------------------ cases
RECURSIVE SeqsOf(_)
SeqsOf(n) ==
    IF n = 0 THEN { <<>> }
    ELSE { Append(s, x) : s \in SeqsOf(n - 1), x \in UIds }
NoRepeat(s) == \A i, j \in DOMAIN s : i # j => s[i] # s[j]
InputSeqs == { s \in UNION { SeqsOf(n) : n \in 0..MaxObjs } : AllowDup \/ NoRepeat(s) }
\* the receiver's objects of a thin pack: one object resembling something that is sent
Haves(s, r) ==
    IF r[5] = 1
    THEN { {h} : h \in { x \in UIds \ Rng(s) : \E y \in Rng(s) :
                             U20[x].fam # 0 /\ U20[x].fam = U20[y].fam /\ U20[x].t = U20[y].t } }
         \cup { {} }
    ELSE { {} }
UAll == 1..16
UMid == {1, 2, 3, 5, 7, 9, 11, 12, 13, 14, 15, 16}
USmall == {1, 2, 4, 5, 11, 12, 15}
UDup == {1, 2, 5, 12}

RECURSIVE SumSeq(_, _)
SumSeq(s, i) == IF i > Len(s) THEN 0 ELSE (s[i] * (7 * i + 1) + SumSeq(s, i + 1)) % 100003
CaseHash(c) == (SumSeq(c.objs, 1) * 31 + c.row[1] * 7 + c.row[2] * 3 + c.row[3] + c.row[4] * 11 + c.row[5] * 13
                + c.row[6] * 17 + (c.row[7] + 1) * 19 + c.row[8] * 23 + c.row[9] + Cardinality(c.have) * 29) % 100003
Emitted(c) == CaseHash(c) % EmitMod = EmitRes

\* ------------------------------------------------------------------ record generation
\* sort_objects_for_delta: (type_num, path, -size, id); paths are all None here; sizes of distinct objects of
\* one type differ in the universe, so the order is total without knowing the names
KeyLess(c, a, b) ==
    \/ UU(c)[a].t < UU(c)[b].t
    \/ UU(c)[a].t = UU(c)[b].t /\ LLess(UU(c)[b].size, UU(c)[a].size)
RECURSIVE Insert(_, _, _)
Insert(c, s, x) ==
    IF s = <<>> THEN <<x>>
    ELSE IF KeyLess(c, x, s[1]) THEN <<x>> \o s
    ELSE <<s[1]>> \o Insert(c, Tail(s), x)
RECURSIVE Sorted(_, _)
Sorted(c, s) == IF s = <<>> THEN <<>> ELSE Insert(c, Sorted(c, SubSeq(s, 1, Len(s) - 1)), s[Len(s)])

RECURSIVE Dedup(_)
Dedup(s) == IF s = <<>> THEN <<>>
            ELSE LET d == Dedup(SubSeq(s, 1, Len(s) - 1)) IN
                 IF s[Len(s)] \in Rng(d) THEN d ELSE Append(d, s[Len(s)])

Max2(a, b) == IF a > b THEN a ELSE b
\* positions of `ord` the record at position j may be a delta of: the last w records, same type, resembling
FriendlyBases(c, ord, lo, j, w) ==
    { ord[i] : i \in { i \in Max2(lo, j - w)..(j - 1) :
                         UU(c)[ord[i]].t = UU(c)[ord[j]].t /\ Friendly(c, ord[j], ord[i]) } }

Full(s) == [ i \in DOMAIN s |-> [id |-> s[i], base |-> 0] ]

\* ------------------------------------------------------------------ abstract lengths
\* compressed length of n bytes: stored (n + 11) -- keeps OFS distances in the 1, 2 and 3 byte classes
CLen(n) == LAdd(n, N(11))
DeltaSize == N(9)

\* ------------------------------------------------------------------ the machine
Init ==
    /\ \E s \in InputSeqs, r \in RowSet : \E h \in Haves(s, r) : case = [objs |-> s, have |-> h, row |-> r]
    /\ pc = "start" /\ order = <<>> /\ src = <<>> /\ recs = <<>> /\ ents = <<>> /\ pos = N(12)   \* (header: 12 bytes)
    /\ es = <<>> /\ cnt = 0

Input == IF DedupInput THEN Dedup(case.objs) ELSE case.objs

\* pack_objects_to_data (apis 1-3), add_objects (4), repack (5: a set, any order -- the canonical one here)
Start ==
    /\ pc = "start"
    /\ cnt' = Len(Input)
    /\ IF Container(Api(case))
       THEN /\ order' = Sorted(case, Input \o SetToSeq(case.have))
            /\ pc' = "srcdelta" /\ recs' = <<>>
       ELSE IF Deltify(case)
       THEN /\ order' = Sorted(case, Input) /\ recs' = <<>>
            /\ pc' = IF Input = <<>> THEN "write" ELSE "delta"
       ELSE /\ order' = Input /\ recs' = Full(Input) /\ pc' = "write"
    /\ UNCHANGED <<case, src, ents, pos, es>>

\* the container's pack: written by the deltifying writer with the default window
SrcDelta ==
    /\ pc = "srcdelta"
    /\ IF Len(src) = Len(order) THEN pc' = "reuse" /\ UNCHANGED src
       ELSE LET j == Len(src) + 1
                fb == FriendlyBases(case, order, 1, j, 10) IN
            /\ IF fb = {} THEN src' = Append(src, [id |-> order[j], base |-> 0])
               ELSE \E b \in fb : src' = Append(src, [id |-> order[j], base |-> b])
            /\ pc' = pc
    /\ UNCHANGED <<case, order, recs, ents, pos, es, cnt>>

\* find_reusable_deltas + the rest of generate_unpacked_objects
Reusable ==
    IF Reuse(case)
    THEN SelectSeq(src, LAMBDA r : r.base # 0 /\ r.id \in Rng(Input)
                                   /\ (r.base \in Rng(Input) \/ r.base \in case.have))
    ELSE <<>>
ReuseStep ==
    /\ pc = "reuse"
    /\ LET ru == Reusable
           rest == SelectSeq(Dedup(Input), LAMBDA x : ~\E i \in DOMAIN ru : ru[i].id = x) IN
       IF Deltify(case)
       THEN /\ recs' = ru /\ order' = ru \o Full(Sorted(case, rest))
            /\ pc' = IF rest = <<>> THEN "write" ELSE "delta"
       ELSE /\ recs' = ru \o Full(rest) /\ order' = order /\ pc' = "write"
    /\ UNCHANGED <<case, src, ents, pos, es, cnt>>

\* deltas_from_sorted_objects, one object per step
OrdId(j) == IF Container(Api(case)) THEN order[j].id ELSE order[j]
OrdIds == [ j \in DOMAIN order |-> OrdId(j) ]
DeltaLo == IF Container(Api(case)) THEN Len(Reusable) + 1 ELSE 1
DeltaStep ==
    /\ pc = "delta"
    /\ LET j == Len(recs) + 1
           fb == FriendlyBases(case, OrdIds, DeltaLo, j, Window(case)) IN
       /\ IF fb = {} THEN recs' = Append(recs, [id |-> OrdId(j), base |-> 0])
          ELSE \E b \in fb : recs' = Append(recs, [id |-> OrdId(j), base |-> b])
       /\ pc' = IF j = Len(order) THEN "write" ELSE "delta"
    /\ UNCHANGED <<case, order, src, ents, pos, es, cnt>>

Crc(k) == <<0, k>>
EntryFor(r, k) ==
    LET u == UU(case)[r.id] IN
    IF r.base = 0
    THEN LET h == ObjHeader(u.t, u.size) IN
         [ off |-> pos, end |-> LAdd(pos, AddSmall(CLen(u.size), Len(h))), id |-> r.id, kind |-> "full", t |-> u.t,
           size |-> u.size, hdr |-> h, ofsb |-> <<>>, base |-> 0, crc |-> Crc(k), rt |-> u.t ]
    ELSE IF r.base \in DOMAIN ents /\ ~ForceRef(case)
    THEN LET h == ObjHeader(OFS, DeltaSize)
             d == LSub(pos, ents[r.base])
             o == IF OfsPlain THEN OfsEncodePlain(d) ELSE OfsEncode(d) IN
         [ off |-> pos, end |-> LAdd(pos, AddSmall(CLen(DeltaSize), Len(h) + Len(o))), id |-> r.id, kind |-> "ofs",
           t |-> OFS, size |-> DeltaSize, hdr |-> h, ofsb |-> o, base |-> r.base, crc |-> Crc(k), rt |-> u.t ]
    ELSE LET h == ObjHeader(REF, DeltaSize) IN
         [ off |-> pos, end |-> LAdd(pos, AddSmall(CLen(DeltaSize), Len(h) + Oid(case))), id |-> r.id, kind |-> "ref",
           t |-> REF, size |-> DeltaSize, hdr |-> h, ofsb |-> <<>>, base |-> r.base, crc |-> Crc(k), rt |-> u.t ]

\* one record (the 12-byte header precedes the first, the trailer follows the last)
AfterWrite == IF Ingest(Api(case)) THEN "ingest" ELSE "index"
Write ==
    /\ pc = "write"
    /\ IF recs = <<>> THEN pc' = AfterWrite /\ UNCHANGED <<es, ents, pos>>
       ELSE LET k == Len(es) + 1
                e == EntryFor(recs[k], k) IN
            /\ es' = Append(es, e)
            /\ ents' = (recs[k].id :> pos) @@ ents
            /\ pos' = e.end
            /\ pc' = IF k = Len(recs) THEN AfterWrite ELSE "write"
    /\ UNCHANGED <<case, order, src, recs, cnt>>

\* add_thin_pack / add_pack: the stream is copied as it is; the bases it names but does not contain are fetched
\* from the store and appended as full objects (extend_pack), the count field is corrected
Missing == { es[i].base : i \in { j \in DOMAIN es : es[j].kind = "ref" } } \ { es[i].id : i \in DOMAIN es }
FullAt(id, at, k) ==
    LET u == UU(case)[id]  h == ObjHeader(u.t, u.size) IN
    [ off |-> at, end |-> LAdd(at, AddSmall(CLen(u.size), Len(h))), id |-> id, kind |-> "full", t |-> u.t,
      size |-> u.size, hdr |-> h, ofsb |-> <<>>, base |-> 0, crc |-> Crc(k), rt |-> u.t ]
RECURSIVE Extend(_, _, _)
Extend(acc, ms, at) ==
    IF ms = <<>> THEN acc
    ELSE LET e == FullAt(ms[1], at, Len(acc) + 1) IN Extend(Append(acc, e), Tail(ms), e.end)
IngestStep ==
    /\ pc = "ingest"
    /\ LET ms == SetToSeq(Missing)
           es2 == Extend(es, ms, pos) IN
       /\ es' = es2
       /\ cnt' = cnt + Len(ms)
       /\ pos' = IF es2 = <<>> THEN pos ELSE es2[Len(es2)].end
       /\ ents' = [ id \in DOMAIN ents \cup Missing |->
                      IF id \in DOMAIN ents THEN ents[id]
                      ELSE es2[CHOOSE j \in DOMAIN es2 : es2[j].id = id].off ]
    /\ pc' = "index"
    /\ UNCHANGED <<case, order, src, recs>>

Pk == [ count |-> N(cnt), hlen |-> 12, dlen |-> pos, trailer |-> TRUE, oidlen |-> Oid(case),
        ext |-> IF Ingest(Api(case)) /\ pc \in {"index", "done"} THEN {} ELSE case.have, es |-> es ]

FirstByte(id) == (id * 53) % 256
\* <<id, off, crc>> sorted by id (the model's name order)
IdxEntries ==
    IF IdxFromDict(case)
    THEN LET ids == SetToSeq(DOMAIN ents)
             byId == SortSeq(ids, LAMBDA a, b : a < b) IN
         [ i \in DOMAIN byId |-> LET j == CHOOSE j \in DOMAIN es : es[j].off = ents[byId[i]] IN
                                 <<byId[i], ents[byId[i]], es[j].crc>> ]
    ELSE SortSeq([ j \in DOMAIN es |-> <<es[j].id, es[j].off, es[j].crc>> ],
                 LAMBDA a, b : a[1] < b[1] \/ (a[1] = b[1] /\ LLess(a[2], b[2])))

\* write_pack_index: the tables for the sorted entries, or refusal
Ix ==
    LET L == IdxEntries
        v == IdxV(case)
        fo == [ i \in DOMAIN L |-> [first |-> FirstByte(L[i][1]), off |-> L[i][2]] ] IN
    IF IdxRefuses(fo, v, Oid(case)) THEN [ ok |-> FALSE ]
    ELSE [ ok |-> TRUE, v |-> v, oidlen |-> Oid(case), len |-> N(ExpectedIdxLen(fo, v, Oid(case))),
           fan |-> ExpectedFan(fo), first |-> [ i \in DOMAIN L |-> fo[i].first ],
           names |-> [ i \in DOMAIN L |-> L[i][1] ], ids |-> [ i \in DOMAIN L |-> L[i][1] ],
           crcs |-> IF v = 1 THEN <<>> ELSE [ i \in DOMAIN L |-> L[i][3] ],
           o32 |-> ExpectedO32(fo, v), o64 |-> ExpectedO64(fo, v), packsum |-> TRUE, idxsum |-> TRUE,
           hdr |-> IF v = 3 THEN <<1, 20>> ELSE <<>> ]

KindCode(k) == IF k = "full" THEN 0 ELSE IF k = "ofs" THEN 1 ELSE 2
Index ==
    /\ pc = "index"
    /\ pc' = "done"
    /\ Emitted(case) =>
         PrintT(<< "CASE", case.objs, SetToSeq(case.have), case.row,
                   [ i \in DOMAIN src |-> <<src[i].id, src[i].base>> ],
                   [ i \in DOMAIN es |-> <<es[i].id, KindCode(es[i].kind), es[i].base>> ],
                   [ i \in DOMAIN es |-> IF es[i].kind = "full" THEN es[i].hdr ELSE <<>> ],
                   cnt, IF Ix.ok THEN 1 ELSE 0 >>)
    /\ UNCHANGED <<case, order, src, recs, ents, pos, es, cnt>>

Next == Start \/ SrcDelta \/ ReuseStep \/ DeltaStep \/ Write \/ IngestStep \/ Index
Spec == Init /\ [][Next]_vars

\* ------------------------------------------------------------------ invariants
\* while writing: what has been written so far is a well laid out prefix
PrefixPk == [ Pk EXCEPT !.count = N(Len(es)) ]
PrefixInv ==
    pc = "write" =>
        /\ \A i \in DOMAIN es : HeaderOK(es[i]) /\ OfsLands(PrefixPk, i)
        /\ OffsetsOK(PrefixPk)
\* the finished pack is consistent and is what the writer rule produces
\* (a stream turned into REF_DELTA entries throughout is deliberately not what PackChunkGenerator writes)
PackInv == pc \in {"index", "done"} => (PackLayout(Pk) = <<>> /\ (ForceRef(case) \/ WriterRule(Pk) = <<>>))
\* sequential iteration (full entries first, then whatever they unblock) reaches every entry
RECURSIVE Reach(_, _)
Reach(pk, S) ==
    LET S2 == S \cup { i \in DOMAIN pk.es :
                         /\ pk.es[i].kind # "full"
                         /\ \/ \E j \in S : pk.es[j].id = pk.es[i].base /\ j # i
                            \/ pk.es[i].kind = "ref" /\ pk.es[i].base \in pk.ext } IN
    IF S2 = S THEN S ELSE Reach(pk, S2)
IterCovers(pk) == Reach(pk, { i \in DOMAIN pk.es : pk.es[i].kind = "full" }) = DOMAIN pk.es
IterInv == pc \in {"index", "done"} => IterCovers(Pk)
\* the index agrees with itself and with the pack
IdxInv == (pc = "done" /\ Ix.ok) => (IdxLayout(Ix) = <<>> /\ IdxMatchesPack(Ix, Pk) = <<>>)
\* what C git insists on (verify-pack, index-pack --strict): no name twice
GitInv == (pc = "done" /\ Ix.ok) => NamesDistinct(Ix)
\* the count field is the number of records handed in (the writer asserts this)
CountInv == pc \in {"index", "done"} => Len(es) = cnt
=============================================================================

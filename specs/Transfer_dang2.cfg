\* dangling objects in the receiver (quick + thorough): 2 commits x 9 root-tree assignments over 3 pool trees x no tag x
\* every set of <= 2 objects of the sender that the receiver's refs do not reach, present in the receiver's store
\* (harness/props/c05.py writes the same configuration at run time; TransferCases replays a sample as pushes and fetches)
SPECIFICATION Spec
CONSTANTS
  NC = 2
  NTP = 3
  NT = 0
  MaxHeads = 2
  MaxWants = 1
  Modes = {"detailed"}
  IncTag = {FALSE}
  Thin = {TRUE}
  SFull = {FALSE}
  Forge = FALSE
  MaxInVain = 2
  AtomicNeg = TRUE
  PopAny = FALSE
  MaxDangle = 2
  Bug = "none"
INVARIANT TypeOK
INVARIANT Antecedent
INVARIANT ReceiverComplete
INVARIANT NoLoss
INVARIANT SenderSound
INVARIANT WantValidation
INVARIANT ThinResolvable
INVARIANT Confluent
INVARIANT HavesSound
CHECK_DEADLOCK FALSE

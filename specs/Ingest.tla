------------------------------- MODULE Ingest -------------------------------
(***************************************************************************)
(* C04 (c) -- the ingestion transaction of an object store.                *)
(*                                                                         *)
(* Disk store (DiskObjectStore.add_pack + commit, add_thin_pack,           *)
(* add_pack_data -> _complete_pack), one action per file-system call that  *)
(* matters, each with a failing twin (ok = FALSE: an injected OS fault):   *)
(*                                                                         *)
(*   CreateTmp  ChmodTmp  WriteTmp*  FlushTmp  CloseTmp                    *)
(*      (copy of the stream, verification of the trailer and indexing      *)
(*       happen between the writes; completion of a thin pack and the new  *)
(*       trailer are further WriteTmp steps)                               *)
(*   [UnlinkTmp TouchExisting -- the objects are already packed: Return ok] *)
(*   RenamePack  CreateLock  WriteLock*  FlushLock  CloseLock  ReplaceIdx  *)
(*   (validation of the installed pack reads only)                         *)
(*   [UnlinkPack UnlinkIdx -- roll back when validation fails]             *)
(*   Return                                                                *)
(*                                                                         *)
(* Internal decisions (the input turns out to be bad while it is copied /  *)
(* indexed / validated) have no file-system call of their own; they are    *)
(* folded into the preceding action as a nondeterministic choice of the    *)
(* continuation, so that every step of the model is an observable event    *)
(* and recorded executions can be matched step by step (IngestTrace).      *)
(*                                                                         *)
(* Memory store (MemoryObjectStore.add_pack commit): spool, check trailer, *)
(* inflate, publish.                                                       *)
(*                                                                         *)
(* The observation predicates (…Obs) are shared with IngestTrace, which    *)
(* evaluates them on what the real code did.                               *)
(***************************************************************************)
EXTENDS IngestObs, FiniteSets, TLC

CONSTANTS MaxWrites,       \* bound on WriteTmp / WriteLock repetitions
          MaxFaults,       \* injected OS faults per run
          Rollback,        \* _complete_pack removes pack and idx when validation fails (negative control: FALSE)
          RollbackRobust,  \* the rollback runs even if closing the pack raised (repaired) / is skipped then (as is)
          MemAtomic        \* memory store publishes after the whole pack inflated (repaired) / object by object (as is)

Kinds == {"add_pack", "add_thin_pack", "add_pack_data", "memory"}
Bad == {"none", "copy", "index", "validate", "validate-buffers"}
  \* where the input turns out to be bad: while copied (stream error, trailer), while indexed
  \* (unresolved deltas ...), in the post-install validation (object does not parse), or in the
  \* post-install validation with an error raised from inside the inflater (live buffer exports)

VARIABLES kind, inp,      \* path and input class [bad, dup]
          pc, failing,
          tmp, tmpc,      \* temporary file: "none" | "open" | "closed";  content "empty" | "partial" | "complete"
          pack, packc,    \* file under the final .pack name: "absent" | "present";  content
          lock, lockc,    \* <name>.idx.lock: "none" | "open" | "closed"
          idx, idxc,      \* <name>.idx
          validated, res, \* "none" | "ok" | "failed"
          madded,         \* memory store: objects published by this ingestion (0..2), mtotal = 2
          nw, faults, last

vars == <<kind, inp, pc, failing, tmp, tmpc, pack, packc, lock, lockc, idx, idxc, validated, res, madded, nw, faults, last>>
fs == <<tmp, tmpc, pack, packc, lock, lockc, idx, idxc>>

Init ==
  /\ kind \in Kinds
  /\ inp \in [bad : Bad, dup : BOOLEAN]
  /\ (inp.dup => inp.bad = "none")
  /\ (kind = "add_pack" => inp.bad # "copy")          \* the caller writes blindly; errors surface in commit()
  /\ (kind = "memory" => ~inp.dup /\ inp.bad \in {"none", "copy", "index"})
  /\ pc = IF kind = "memory" THEN "m_spool" ELSE "start"
  /\ failing = FALSE
  /\ tmp = "none" /\ tmpc = "empty" /\ pack = "absent" /\ packc = "empty"
  /\ lock = "none" /\ lockc = "empty" /\ idx = "absent" /\ idxc = "empty"
  /\ validated = FALSE /\ res = "none" /\ madded = 0 /\ nw = 0 /\ faults = 0
  /\ last = [op |-> "init", role |-> "none", ok |-> TRUE]

Lbl(op, role, ok) == last' = [op |-> op, role |-> role, ok |-> ok]
Fault(ok) == /\ (~ok => faults < MaxFaults)
             /\ faults' = IF ok THEN faults ELSE faults + 1

(* where control goes when something failed while the temporary file is open *)
TmpCleanup ==
  IF kind = "add_thin_pack" THEN {"close_then_ret"}                  \* `with os.fdopen(...)` closes, the file stays
  ELSE {"abort_close", "ret"}                                        \* caller's abort() (close + unlink), or commit() just raises

CreateTmp(ok) ==
  /\ pc = "start" /\ Fault(ok) /\ Lbl("create", "tmp", ok)
  /\ IF ok THEN tmp' = "open" /\ pc' = "chmod" /\ UNCHANGED failing
     ELSE pc' = "ret" /\ failing' = TRUE /\ UNCHANGED tmp
  /\ UNCHANGED <<kind, inp, tmpc, pack, packc, lock, lockc, idx, idxc, validated, res, madded, nw>>

ChmodTmp(ok) ==
  /\ pc = "chmod" /\ Fault(ok) /\ Lbl("chmod", "tmp", ok)
  /\ IF ok THEN pc' = "copy" /\ UNCHANGED failing
     ELSE failing' = TRUE /\ pc' = (IF kind = "add_thin_pack" THEN "close_then_ret" ELSE "ret")
  /\ UNCHANGED <<kind, inp, fs, validated, res, madded, nw>>

(* one write to the temporary file; afterwards the input may turn out to be bad *)
WriteTmp(ok) ==
  /\ pc \in {"copy", "flushed"} /\ tmp = "open" /\ nw < MaxWrites /\ Fault(ok) /\ Lbl("write", "tmp", ok)
  /\ nw' = nw + 1
  /\ IF ok
       THEN \/ /\ tmpc' \in (IF nw + 1 = MaxWrites THEN {"complete"} ELSE {"partial", "complete"})
               /\ ~(inp.bad \in {"copy", "index"} /\ nw + 1 = MaxWrites)      \* a bad input is noticed at the latest now
               /\ pc' = "copy" /\ UNCHANGED failing
            \/ /\ inp.bad \in {"copy", "index"} /\ tmpc' = "partial"
               /\ failing' = TRUE /\ pc' \in TmpCleanup
       ELSE /\ tmpc' = "partial" /\ failing' = TRUE /\ pc' \in TmpCleanup
  /\ UNCHANGED <<kind, inp, tmp, pack, packc, lock, lockc, idx, idxc, validated, res, madded>>

FlushTmp(ok) ==
  /\ pc = "copy" /\ tmp = "open" /\ tmpc = "complete" /\ inp.bad \notin {"copy", "index"}
  /\ Fault(ok) /\ Lbl("flush", "tmp", ok)
  /\ IF ok THEN pc' = "flushed" /\ UNCHANGED failing
     ELSE failing' = TRUE /\ pc' = (IF kind = "add_thin_pack" THEN "close_then_ret" ELSE "ret")
  /\ UNCHANGED <<kind, inp, fs, validated, res, madded, nw>>

(* a failing close leaves the handle open (the injected fault replaces the call); add_thin_pack's `with` block
   then closes it on the way out *)
CloseTmp(ok) ==
  /\ pc \in {"flushed", "close_then_ret", "abort_close"} /\ tmp = "open"
  /\ Fault(ok) /\ Lbl("close", "tmp", ok)
  /\ IF ~ok THEN /\ failing' = TRUE /\ UNCHANGED tmp
                 /\ pc' = (IF kind = "add_thin_pack" /\ pc = "flushed" THEN "close_then_ret" ELSE "ret")
     ELSE /\ tmp' = "closed" /\ UNCHANGED failing
          /\ pc' = (IF pc = "flushed" THEN "closed" ELSE IF pc = "abort_close" THEN "abort_unlink" ELSE "ret")
  /\ UNCHANGED <<kind, inp, tmpc, pack, packc, lock, lockc, idx, idxc, validated, res, madded, nw>>

UnlinkTmp(ok) ==
  /\ \/ pc = "abort_unlink"
     \/ pc = "closed" /\ inp.dup
  /\ Fault(ok) /\ Lbl("unlink", "tmp", ok)
  /\ IF ok THEN tmp' = "none" /\ tmpc' = "empty" ELSE UNCHANGED <<tmp, tmpc>>
  /\ failing' = (failing \/ ~ok)
  /\ pc' = (IF pc = "closed" /\ ok THEN "touch" ELSE "ret")
  /\ UNCHANGED <<kind, inp, pack, packc, lock, lockc, idx, idxc, validated, res, madded, nw>>

(* the objects are already packed: the pack that is kept is freshened (os.utime, OSError suppressed) so that it is
   as recent as the copy that was dropped; only a non-OSError (an interrupt) makes the call fail here *)
TouchExisting(ok) ==
  /\ pc = "touch" /\ Fault(ok) /\ Lbl("utime", "pack", ok)
  /\ pc' = "ret"
  /\ failing' \in (IF ok THEN {failing} ELSE {failing, TRUE})
  /\ UNCHANGED <<kind, inp, fs, validated, res, madded, nw>>

RenamePack(ok) ==
  /\ pc = "closed" /\ ~inp.dup /\ Fault(ok) /\ Lbl("rename", "pack", ok)
  /\ IF ok THEN /\ tmp' = "none" /\ pack' = "present" /\ packc' = tmpc /\ tmpc' = "empty"
                /\ pc' = "renamed" /\ UNCHANGED failing
     ELSE failing' = TRUE /\ pc' = "ret" /\ UNCHANGED <<tmp, tmpc, pack, packc>>
  /\ UNCHANGED <<kind, inp, lock, lockc, idx, idxc, validated, res, madded, nw>>

CreateLock(ok) ==
  /\ pc = "renamed" /\ Fault(ok) /\ Lbl("create", "lock", ok)
  /\ IF ok THEN lock' = "open" /\ pc' = "lockopen" /\ nw' = 0 /\ UNCHANGED failing
     ELSE failing' = TRUE /\ pc' = "ret" /\ UNCHANGED <<lock, nw>>
  /\ UNCHANGED <<kind, inp, tmp, tmpc, pack, packc, lockc, idx, idxc, validated, res, madded>>

WriteLock(ok) ==
  /\ pc = "lockopen" /\ lock = "open" /\ nw < MaxWrites /\ Fault(ok) /\ Lbl("write", "lock", ok)
  /\ nw' = nw + 1
  /\ IF ok THEN lockc' \in (IF nw + 1 = MaxWrites THEN {"complete"} ELSE {"partial", "complete"}) /\ UNCHANGED <<pc, failing>>
     ELSE lockc' = "partial" /\ failing' = TRUE /\ pc' = "lock_abort"
  /\ UNCHANGED <<kind, inp, tmp, tmpc, pack, packc, lock, idx, idxc, validated, res, madded>>

FlushLock(ok) ==
  /\ pc = "lockopen" /\ lock = "open" /\ lockc = "complete" /\ Fault(ok) /\ Lbl("flush", "lock", ok)
  /\ IF ok THEN pc' = "lockflushed" /\ UNCHANGED failing
     ELSE failing' = TRUE /\ pc' = "lock_abort"
  /\ UNCHANGED <<kind, inp, fs, validated, res, madded, nw>>

(* GitFile.close: a failing close is followed by abort(): close again, remove the lock file *)
CloseLock(ok) ==
  /\ pc \in {"lockflushed", "lock_abort"} /\ lock = "open"
  /\ Fault(ok) /\ Lbl("close", "lock", ok)
  /\ lock' = (IF ok THEN "closed" ELSE lock)
  /\ IF pc = "lockflushed" /\ ok THEN pc' = "lockclosed" /\ UNCHANGED failing
     ELSE /\ failing' = TRUE
          /\ pc' = (IF pc = "lockflushed" THEN "lock_abort" ELSE "lock_unlink")
  /\ UNCHANGED <<kind, inp, tmp, tmpc, pack, packc, lockc, idx, idxc, validated, res, madded, nw>>

(* the index appears atomically; afterwards the installed pack is validated (reads only) *)
ReplaceIdx(ok) ==
  /\ pc = "lockclosed" /\ Fault(ok) /\ Lbl("replace", "idx", ok)
  /\ IF ok
       THEN /\ lock' = "none" /\ idx' = "present" /\ idxc' = lockc /\ lockc' = "empty" /\ UNCHANGED failing
            /\ \/ inp.bad = "none" /\ validated' = TRUE /\ pc' = "ret"
               \/ inp.bad = "validate" /\ validated' = FALSE /\ pc' = (IF Rollback THEN "rollback" ELSE "ret_failed")
               \/ inp.bad = "validate-buffers" /\ validated' = FALSE
                  /\ pc' = (IF Rollback /\ RollbackRobust THEN "rollback" ELSE "ret_failed")
       ELSE failing' = TRUE /\ pc' = "lock_unlink" /\ UNCHANGED <<lock, lockc, idx, idxc, validated>>
  /\ UNCHANGED <<kind, inp, tmp, tmpc, pack, packc, res, madded, nw>>

UnlinkLock ==
  /\ pc = "lock_unlink" /\ lock \in {"open", "closed"} /\ Lbl("unlink", "lock", TRUE)
  /\ lock' = "none" /\ lockc' = "empty" /\ pc' = "ret"
  /\ UNCHANGED <<kind, inp, failing, tmp, tmpc, pack, packc, idx, idxc, validated, res, madded, nw, faults>>

(* roll back: a failing unlink here cannot be handled by any implementation and is not injected *)
UnlinkPack ==
  /\ pc = "rollback" /\ Lbl("unlink", "pack", TRUE)
  /\ pack' = "absent" /\ packc' = "empty" /\ pc' = "rollback2" /\ failing' = TRUE
  /\ UNCHANGED <<kind, inp, tmp, tmpc, lock, lockc, idx, idxc, validated, res, madded, nw, faults>>

UnlinkIdx ==
  /\ pc = "rollback2" /\ Lbl("unlink", "idx", TRUE)
  /\ idx' = "absent" /\ idxc' = "empty" /\ pc' = "ret"
  /\ UNCHANGED <<kind, inp, failing, tmp, tmpc, pack, packc, lock, lockc, validated, res, madded, nw, faults>>

Return ==
  /\ pc \in {"ret", "ret_failed"} /\ res = "none"
  /\ res' = IF failing \/ pc = "ret_failed" THEN "failed" ELSE "ok"
  /\ Lbl("ret", "none", ~(failing \/ pc = "ret_failed"))
  /\ pc' = "done"
  /\ UNCHANGED <<kind, inp, failing, fs, validated, madded, nw, faults>>

(* ---- memory store: spool, PackData.check(), inflate and publish ---- *)
MSpool ==
  /\ pc = "m_spool" /\ Lbl("spool", "mem", TRUE)
  /\ IF inp.bad = "copy" THEN pc' = "ret" /\ failing' = TRUE      \* stream error / trailer mismatch: nothing inflated
     ELSE pc' = "m_inflate" /\ UNCHANGED failing
  /\ UNCHANGED <<kind, inp, fs, validated, res, madded, nw, faults>>

MInflate ==
  /\ pc = "m_inflate" /\ Lbl("inflate", "mem", TRUE)
  /\ \/ /\ madded < 2 /\ ~(inp.bad = "index" /\ madded = 1)
        /\ madded' = madded + 1 /\ UNCHANGED <<pc, failing, validated>>
     \/ /\ inp.bad = "index" /\ madded = 1        \* e.g. UnresolvedDeltas after one object was yielded
        /\ failing' = TRUE /\ pc' = "ret" /\ madded' = (IF MemAtomic THEN 0 ELSE madded) /\ UNCHANGED validated
     \/ /\ madded = 2 /\ inp.bad # "index"
        /\ pc' = "ret" /\ validated' = TRUE /\ UNCHANGED <<failing, madded>>
  /\ UNCHANGED <<kind, inp, fs, res, nw, faults>>

Next ==
  \/ \E ok \in BOOLEAN : \/ CreateTmp(ok) \/ ChmodTmp(ok) \/ WriteTmp(ok) \/ FlushTmp(ok) \/ CloseTmp(ok)
                         \/ UnlinkTmp(ok) \/ TouchExisting(ok) \/ RenamePack(ok) \/ CreateLock(ok) \/ WriteLock(ok)
                         \/ FlushLock(ok) \/ CloseLock(ok) \/ ReplaceIdx(ok)
  \/ UnlinkLock \/ UnlinkPack \/ UnlinkIdx \/ Return \/ MSpool \/ MInflate

Spec == Init /\ [][Next]_vars

(* ----------------------------------------------------------------------- *)
(* observation predicates, shared with IngestTrace                          *)
(* o = [outcome, ordinary, pre, post, bad, partialvisible, trailerok, rawpath, ms, budget] *)
ContainedObs(o) == o.outcome \in {"ok", "error"} /\ (o.outcome = "error" => o.ordinary)
PromptObs(o) == o.ms <= o.budget
FailedInvisibleObs(o) == o.outcome # "ok" => o.post = o.pre
ConsistentObs(o) == o.bad = 0
NoPartialObs(o) == ~o.partialvisible
TrailerObs(o) == (o.outcome = "ok" /\ o.rawpath) => o.trailerok

(* the model's own observation *)
Visible == pack = "present" /\ idx = "present"
Obs == [outcome |-> IF res = "ok" THEN "ok" ELSE "error", ordinary |-> TRUE,
        pre |-> {}, post |-> (IF Visible THEN {1, 2} ELSE {}) \cup (IF madded > 0 THEN 1..madded ELSE {}),
        bad |-> IF Visible /\ ~validated /\ res # "none" THEN 1 ELSE 0,
        partialvisible |-> Visible /\ (packc # "complete" \/ idxc # "complete"),
        trailerok |-> inp.bad # "copy", rawpath |-> TRUE, ms |-> 0, budget |-> 1]

FailedIngestInvisible == res = "failed" => FailedInvisibleObs(Obs)
NoPartialPackUsed == NoPartialObs(Obs)
SuccessIsConsistent == res = "ok" => /\ ConsistentObs(Obs)
                                     /\ inp.bad = "none"
                                     /\ (kind # "memory" => (inp.dup \/ (Visible /\ validated)))
                                     /\ (kind = "memory" => madded = 2)
TmpNeverInstalledPartial == pack = "present" => packc = "complete"
Finishes == (pc # "done") => ENABLED Next
=============================================================================

SPECIFICATION Spec
CONSTANTS
  N = 3
  Refs = {"a", "b"}
  MaxDepth = 5
  MaxPacks = 2
  WithCopies = TRUE
  WithIdx = FALSE
  MidxChecksPack = TRUE
  CgChecksStore = TRUE
  CgWriterCloses = TRUE
  BitmapChecksum = TRUE
  BitmapClosedPack = TRUE
  BitmapExcludeExact = TRUE
  ProvidersAgree = TRUE
  DeleteDropsPacked = TRUE
  BitmapHonoursShallow = TRUE
  CgOctopusOk = TRUE
  MaxParents = 2
  GraftsBeforeGraph = TRUE
  IdxLargeFrom31 = TRUE
  CgHonoursShallow = TRUE
  Focus = "graft"
INVARIANT TypeOK
INVARIANT IdxTransparent
INVARIANT Transparent
INVARIANT Exact
INVARIANT RefsTransparent
INVARIANT StaleRejected
VIEW view
CHECK_DEADLOCK FALSE

SPECIFICATION Spec
CONSTANTS
  V = 2
  DeletePackedFirst = FALSE
  PackWriteFirst = TRUE
INVARIANT TypeOK
INVARIANT Atomic
INVARIANT Final
CHECK_DEADLOCK FALSE

--------------------------- MODULE RefsFilesTrace ---------------------------
(***************************************************************************)
(* Shape conformance of real DiskRefsContainer executions with RefsFiles.  *)
(* One ndjson line per execution: [tid, init: <<loose, packed>>,           *)
(* ops: <<[k, old, new]>> (one per actor), res: <<result per actor>>,      *)
(* ev: <<[a, ev, l, p]>>] -- the observable events (lock taken / refused / *)
(* released, rename, unlink on the ref and on packed-refs) with the loose  *)
(* and packed value observed after each.  Internal steps of the model      *)
(* (reads, comparisons) are silent: any number may happen between two      *)
(* observed events.  An execution conforms iff the model can produce the   *)
(* observed events in order with the observed states, ending with every    *)
(* actor done and the observed results.  Non-conformance is drift, never   *)
(* a violation: the verdict on the property comes from RefsLin.            *)
(***************************************************************************)
EXTENDS RefsFiles, Json, IOUtils

Traces == ndJsonDeserialize(IOEnv.TRACE_FILE)

VARIABLES tid, l, acc
tvars == <<vars, tid, l, acc>>
T == Traces[tid]

TraceInit ==
    /\ tid \in 1..Len(Traces)
    /\ l = 1 /\ acc = FALSE
    /\ loose = T.init[1] /\ packed = T.init[2]
    /\ refLock = None /\ packLock = None
    /\ abs = Vis
    /\ op = [a \in Actors |-> IF a + 1 <= Len(T.ops) THEN T.ops[a + 1] ELSE [k |-> "read", old |-> 0, new |-> 0]]
    /\ pc = [a \in Actors |-> IF a + 1 <= Len(T.ops) THEN "start" ELSE "done"]
    /\ snap = [a \in Actors |-> 0]
    /\ val = [a \in Actors |-> 0]
    /\ res = [a \in Actors |-> -9]
    /\ seen = [a \in Actors |-> {}]
    /\ last = [a |-> None, ev |-> "init"]

Silent == Next /\ last'.ev = "tau" /\ UNCHANGED <<tid, l, acc>>

Observed ==
    /\ l <= Len(T.ev)
    /\ Next
    /\ last' = [a |-> T.ev[l].a, ev |-> T.ev[l].ev]
    /\ loose' = T.ev[l].l /\ packed' = T.ev[l].p
    /\ l' = l + 1
    /\ UNCHANGED <<tid, acc>>

Accept ==
    /\ ~acc /\ l = Len(T.ev) + 1
    /\ \A a \in Actors : pc[a] = "done"
    /\ \A a \in Actors : a + 1 <= Len(T.ops) => res[a] = T.res[a + 1]
    /\ PrintT(<<"SHAPE", T.tid>>)
    /\ acc' = TRUE
    /\ UNCHANGED <<vars, tid, l>>

TraceNext == Silent \/ Observed \/ Accept
TraceSpec == TraceInit /\ [][TraceNext]_tvars
=============================================================================

SPECIFICATION Spec
CONSTANTS
  Refs = {1, 2}
  Pushers = {1, 2}
  Inits <- Inits01
  PushIn <- RaceLocalMC
  CheckCas = TRUE
  CheckObj = TRUE
  AtomicMode = "txn"
  LocalCheckObj = TRUE
  LocalAtomicMode = "precheck"
  KeepHist = FALSE
  Emit = FALSE
INVARIANT StatusExact
INVARIANT NoDanglingRef
INVARIANT AtomicOK
CHECK_DEADLOCK FALSE

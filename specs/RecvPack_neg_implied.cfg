SPECIFICATION Spec
CONSTANTS
  Refs = {1, 2}
  Pushers = {1}
  Inits <- Inits01
  PushIn <- WireNegQuiet
  CheckCas = FALSE
  CheckObj = TRUE
  AtomicMode = "txn"
  LocalCheckObj = TRUE
  LocalAtomicMode = "txn"
  KeepHist = FALSE
  Emit = FALSE
INVARIANT ImpliedSuccess
CHECK_DEADLOCK FALSE

SPECIFICATION Spec
CONSTANTS
  SPaths <- FourPaths
  SCells <- SimCells
  SMax = 2
  MaxFiles = 1
  Stale = FALSE
INVARIANT Lemmas
VIEW View
CHECK_DEADLOCK FALSE

SPECIFICATION Spec
CONSTANTS
  Fam = "cdelta"
  MaxLen = 4
  Sel = {}
INVARIANT Lemmas
INVARIANT InModel
CHECK_DEADLOCK FALSE

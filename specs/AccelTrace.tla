----------------------------- MODULE AccelTrace -----------------------------
(***************************************************************************)
(* Batch validation of real repository histories against Accel (C14).      *)
(*                                                                         *)
(* One ndjson line per history: [tid, free, steps: << [act, st, obs] >>].  *)
(*   act  the action performed on the real repository, as the tuple the    *)
(*        history variable of Accel records (<<"Commit", P, r, how>> ...)  *)
(*   st   the abstract state PROJECTED from the real directory after the   *)
(*        step by the harness' own parsers (objects, packs and their       *)
(*        naming, refs, commit-graph / midx / bitmap contents)             *)
(*   obs  the answers a fresh reader gave on a copy of the directory with  *)
(*        every acceleration file removed                                  *)
(* For every step TLC decides                                              *)
(*   shape  whether Accel has a step with that label from the current      *)
(*          state to the projected state (free = TRUE: the first state is  *)
(*          adopted as it is; used for the states reached by graph replay) *)
(*   exact  whether every recorded answer is the one Accel DEFINES on the  *)
(*          primary data of the projected state.  For the two queries      *)
(*          whose graph-traversal implementation is known to deviate from  *)
(*          its documentation (get_reachable_commits with exclusion,       *)
(*          get_reachable_objects) either meaning is accepted and counted. *)
(* One PrintT(<<"VERDICT", tid, verdict, failAt, driftAt, asis>>) per line.*)
(***************************************************************************)
EXTENDS Accel, Json, IOUtils, Sequences

Traces == ndJsonDeserialize(IOEnv.TRACE_FILE)

VARIABLES tid, l, verdict, failAt, driftAt, asis
tvars == <<vars, tid, l, verdict, failAt, driftAt, asis>>

SetOf(s)   == {s[i] : i \in DOMAIN s}
PackOf(p)  == <<SetOf(p[1]), p[2]>>
Steps      == Traces[tid].steps
\* the projected state as values of Accel's variables
RecPar(st)   == [i \in 1..N |-> IF i <= Len(st.par) THEN SetOf(st.par[i]) ELSE {}]
RecPacks(st) == {PackOf(st.packs[i]) : i \in DOMAIN st.packs}
RecRef(f)    == [r \in Refs |-> f[r]]
\* grafts come as one entry per commit: [has |-> BOOLEAN, p |-> <<parents>>]
RecGraft(st) == [i \in 1..N |-> IF i <= Len(st.graft) /\ st.graft[i].has THEN SetOf(st.graft[i].p) ELSE NOGRAFT]
RecCg(st)    == [on |-> st.cg.on, commits |-> SetOf(st.cg.commits), closed |-> st.cg.closed]
RecMidx(st)  == [on |-> st.midx.on, packs |-> {PackOf(st.midx.packs[i]) : i \in DOMAIN st.midx.packs}]
RecBmp(st)   == {[at |-> PackOf(st.bmp[i].at), for |-> PackOf(st.bmp[i]["for"])] : i \in DOMAIN st.bmp}
\* action arguments come tagged: [k |-> "set" | "pack" | "val", v |-> ...]
RecAct(a)    == [i \in DOMAIN a |-> CASE a[i].k = "set" -> SetOf(a[i].v) [] a[i].k = "pack" -> PackOf(a[i].v) [] OTHER -> a[i].v]

\* the primed state agrees with the projection (bitmap entries are compared without their commit selection)
Matches(st) ==
    /\ n' = st.n /\ par' = RecPar(st) /\ loose' = SetOf(st.loose) /\ packs' = RecPacks(st)
    /\ lref' = RecRef(st.lref) /\ pref' = RecRef(st.pref)
    /\ graft' = RecGraft(st) /\ shal' = SetOf(st.shal)
    /\ midx' = RecMidx(st)
    /\ cg'.on = st.cg.on /\ (st.cg.on => cg' = RecCg(st))
    /\ {[at |-> b.at, for |-> b.for] : b \in bmp'} = RecBmp(st)

Cur == [act |-> RecAct(Steps[l].act), st |-> Steps[l].st]
\* the action of Accel the recorded label names (dispatch instead of enumerating Next)
StepOf(a) ==
    CASE a[1] = "Commit"    -> Commit(a[2], a[3], a[4])
      [] a[1] = "SetRef"    -> SetRef(a[2], a[3])
      [] a[1] = "DeleteRef" -> DeleteRef(a[2])
      [] a[1] = "PackRefs"  -> PackRefs(a[2])
      [] a[1] = "PackLoose" -> PackLoose
      [] a[1] = "RepackD"   -> RepackD
      [] a[1] = "Gc"        -> Gc
      [] a[1] = "RepackG"   -> RepackG(a[2])
      [] a[1] = "BuildCg"   -> BuildCg(a[2], a[3])
      [] a[1] = "BuildMidx" -> BuildMidx(a[2])
      [] a[1] = "BuildBmp"  -> BuildBmp
      [] a[1] = "Remove"    -> Remove(a[2])
      [] a[1] = "CopyMidx"  -> CopyMidx(a[2])
      [] a[1] = "CopyCg"    -> CopyCg
      [] a[1] = "CopyBmp"   -> CopyBmp(a[2], a[3])
      [] a[1] = "Reindex"   -> Reindex(a[2], a[3])
      [] a[1] = "SetGraft"  -> SetGraft(a[2], a[3])
      [] a[1] = "SetShallow" -> SetShallow(a[2])
      [] OTHER -> FALSE
StrictNow == StepOf(Cur.act) /\ Matches(Cur.st)
\* leave the model: adopt what the directory shows
Adopt(s) ==
    /\ n' = s.st.n /\ par' = RecPar(s.st) /\ loose' = SetOf(s.st.loose) /\ packs' = RecPacks(s.st)
    /\ lref' = RecRef(s.st.lref) /\ pref' = RecRef(s.st.pref)
    /\ graft' = RecGraft(s.st) /\ shal' = SetOf(s.st.shal)
    /\ tref' = [r \in Refs |-> IF lref'[r] # 0 THEN lref'[r] ELSE pref'[r]]
    /\ midx' = RecMidx(s.st) /\ cg' = RecCg(s.st)
    /\ bmp' = {[at |-> b.at, for |-> b.for, sel |-> {}] : b \in RecBmp(s.st)}
    /\ idxv' = idxv /\ act' = s.act

AdoptNow == Adopt(Cur)

(* ---- the answers of the accelerator-free reader against the definitions (evaluated in the NEW state) *)
Ans(r) == SetOf(r)                     \* [0] = KeyError, [-1] = something that is not a set of whole groups
\* c is the context computed once per state: [ta |-> TAncFn, u |-> View({})]
ExactHas(o) == \A i \in 1..n : o.has[i] = (IF T_Has(i) THEN 1 ELSE 0)
ExactPar(o) == \A i \in 1..n : Ans(o.par[i]) = T_EPar(i) /\ Ans(o.walk[i]) = T_Walk(i)
ExactAnc(c, o) == \A k \in DOMAIN o.anc : Ans(o.anc[k].r) = T_Anc(c.ta, SetOf(o.anc[k].H))
ExactMb(c, o)  == \A k \in DOMAIN o.mb : Ans(o.mb[k].r) = T_Mb(o.mb[k].i, o.mb[k].j)
\* longest path to a root (what get_depth documents); 0 for a commit that is not there
RECURSIVE DepthUpTo(_)
DepthUpTo(k) == IF k = 0 THEN <<>>
                ELSE LET d == DepthUpTo(k - 1)
                         ps == {d[p] : p \in par[k]} IN
                     d @@ (k :> (IF ps = {} THEN 1 ELSE 1 + CHOOSE m \in ps : \A x \in ps : x <= m))
ExactDepth(o) == LET d == DepthUpTo(n) IN \A i \in 1..n : o.depth[i] = (IF T_Has(i) THEN d[i] ELSE 0)
ExactMiss(c, o) == \A k \in DOMAIN o.miss : Ans(o.miss[k].r) = T_Miss(c.ta, SetOf(o.miss[k].X), SetOf(o.miss[k].H))
ExactCut(o)   == \A k \in DOMAIN o.cut : Ans(o.cut[k].r) = T_Cut(SetOf(o.cut[k].W), SetOf(o.cut[k].X), SetOf(o.cut[k].S))
ExactMissS(o) == \A k \in DOMAIN o.miss_s :
                    Ans(o.miss_s[k].r) = T_MissS(SetOf(o.miss_s[k].X), SetOf(o.miss_s[k].W), SetOf(o.miss_s[k].S))
ExactRef(o)  == \A r \in Refs : o.ref[r] = RefVal(r) /\ o.refs[r] = RefVal(r)
ExactAll(o)  == Ans(o.all) = PresentS
\* documented meaning / meaning of the graph-traversal code as it is
DocRC(c, e)  == Ans(e.r) = T_RC(c.ta, SetOf(e.H), SetOf(e.X))
AsIsRC(c, e) == LET H == SetOf(e.H)  X == SetOf(e.X) IN
                Ans(e.r) = (IF ~(H \subseteq PresentS) THEN MISSING ELSE Norm(Walk(c.u, H, X, N) \ X))
\* the objects come classified per group: full = all three, cb = commit and blob only, c = the commit id only
DocRO(c, e)  == ~e.other /\ e.cb = <<>> /\ e.c = <<>> /\ Ans(e.full) = T_RO(c.ta, SetOf(e.H), SetOf(e.X))
AsIsRO(e) == /\ ~e.other /\ e.full = <<>>
             /\ Ans(e.cb) = (SetOf(e.H) \ SetOf(e.X)) \cap PresentS
             /\ Ans(e.c) = (SetOf(e.H) \ SetOf(e.X)) \ PresentS
ExactRC(c, o) == \A k \in DOMAIN o.rc : DocRC(c, o.rc[k]) \/ AsIsRC(c, o.rc[k])
ExactRO(c, o) == \A k \in DOMAIN o.ro : DocRO(c, o.ro[k]) \/ AsIsRO(o.ro[k])
AsIsCount(c, o) == Cardinality({k \in DOMAIN o.rc : ~DocRC(c, o.rc[k])}) + Cardinality({k \in DOMAIN o.ro : ~DocRO(c, o.ro[k])})

\* <<first failing clause, number of answers that match the code but not the documentation>>
Judge(o) ==
    LET c == [ta |-> TAncFn, u |-> View({})] IN
    << IF ~ExactHas(o) THEN "Exact:has"
       ELSE IF ~ExactPar(o) THEN "Exact:par"
       ELSE IF ~ExactAnc(c, o) THEN "Exact:anc"
       ELSE IF ~ExactMb(c, o) THEN "Exact:mb"
       ELSE IF ~ExactDepth(o) THEN "Exact:depth"
       ELSE IF ~ExactMiss(c, o) THEN "Exact:miss"
       ELSE IF ~ExactCut(o) THEN "Exact:cut"
       ELSE IF ~ExactMissS(o) THEN "Exact:miss_s"
       ELSE IF ~ExactRef(o) THEN "Exact:refs"
       ELSE IF ~ExactAll(o) THEN "Exact:all"
       ELSE IF ~ExactRC(c, o) THEN "Exact:rc"
       ELSE IF ~ExactRO(c, o) THEN "Exact:ro"
       ELSE "ok",
       AsIsCount(c, o) >>

TraceInit ==
    /\ tid \in 1..Len(Traces)
    /\ l = 1 /\ verdict = "ok" /\ failAt = 0 /\ driftAt = 0 /\ asis = 0
    /\ Init

\* The answers recorded after step l-1 are judged in the state that step produced, i.e. at the beginning of
\* the next action (evaluating them unprimed lets TLC cache the context).
JudgePrev == IF l > 1 /\ (driftAt = 0 \/ l = Len(Steps) + 1) THEN Judge(Steps[IF driftAt # 0 THEN driftAt ELSE l - 1].obs) ELSE <<"ok", 0>>
Account ==
    LET j == JudgePrev IN
    /\ verdict' = IF verdict = "ok" THEN j[1] ELSE verdict
    /\ failAt' = IF verdict = "ok" /\ j[1] # "ok" THEN (IF driftAt # 0 THEN driftAt ELSE l - 1) ELSE failAt
    /\ asis' = asis + j[2]

\* Either the step is a step of Accel with that label leading to the projected state, or the model is left
\* (drift) and the projected state adopted.  Both branches are explored; the harness takes, per history, the
\* verdict of the branch that conformed longest.
Consume ==
    /\ l <= Len(Steps)
    /\ \/ ~(Traces[tid].free /\ l = 1) /\ StrictNow /\ driftAt' = driftAt /\ l' = l + 1
       \/ Traces[tid].free /\ l = 1 /\ AdoptNow /\ driftAt' = driftAt /\ l' = l + 1
       \* leaving the model ends the history: the state is adopted, its answers judged, nothing after it
       \/ ~(Traces[tid].free /\ l = 1) /\ AdoptNow /\ driftAt' = l /\ l' = Len(Steps) + 1
    /\ Account
    /\ UNCHANGED tid

Finish ==
    /\ l = Len(Steps) + 1
    /\ Account
    /\ l' = l + 1
    /\ UNCHANGED <<vars, tid, driftAt>>

Report ==
    /\ l = Len(Steps) + 2
    /\ PrintT(<<"VERDICT", Traces[tid].tid, verdict, failAt, driftAt, asis>>)
    /\ l' = l + 1
    /\ UNCHANGED <<vars, tid, verdict, failAt, driftAt, asis>>

TraceNext == Consume \/ Finish \/ Report
TraceSpec == TraceInit /\ [][TraceNext]_tvars
=============================================================================

SPECIFICATION Spec
CONSTANTS
  Family = "enc"
INVARIANT Theorems
CHECK_DEADLOCK FALSE

\* negative control: the same cache -- TLC must find WritePreserves violated (a stale copy written back)
SPECIFICATION Spec
CONSTANTS
  Cached = TRUE
  CommitOnError = FALSE
PROPERTY WritePreserves
CHECK_DEADLOCK FALSE

------------------------------- MODULE RefsLin -------------------------------
(***************************************************************************)
(* Linearizability of recorded histories of concurrent ref operations      *)
(* against the sequential ref contract (C08), plus "no successful commit   *)
(* is lost".                                                               *)
(*                                                                         *)
(* One ndjson line per real execution:                                     *)
(*   [tid, init: <<v per name>>, final: <<v per name>>, hinit, hfinal,     *)
(*    ops: <<op>>, commits: <<[id, parent]>>, tip]                         *)
(* op = [k: kind, n: name index, via, old, new, res, exc: BOOLEAN, c, r]   *)
(*   c / r = global sequence numbers of the call and of the return.        *)
(*   via = 1: the operation was issued on the symbolic ref HEAD; the name  *)
(*   it acts on is HEAD's target AT ITS LINEARIZATION POINT (ht below).    *)
(*   hinit / hfinal = index of the name HEAD points at before / after.     *)
(* Values are small integers: 0 = absent (ZERO_SHA), -1 = None             *)
(* (unconditional), >0 = an object id.  Names are indices; symbolic refs   *)
(* are resolved by the harness before logging (HEAD -> its target), which  *)
(* is what "symbolic refs are followed on update" means for the contract.  *)
(*                                                                         *)
(* The search state is (set of linearized ops, abstract ref map).  An op   *)
(* may be linearized once every op that returned before it was called is   *)
(* linearized, and only if the sequential contract yields the recorded     *)
(* result.  An op that ended with an exception is a legitimate loser and   *)
(* is linearized as a no-op.  The history is accepted iff all ops can be   *)
(* linearized and the resulting map equals the observed final state.       *)
(***************************************************************************)
EXTENDS Integers, Sequences, FiniteSets, TLC, Json, IOUtils

Traces == ndJsonDeserialize(IOEnv.TRACE_FILE)

VARIABLES tid, done, cur, ok,
          ht,      \* the name (index) the symbolic ref HEAD points at
          mode,    \* "strict": the contract; "dev" / "devsym": the contract plus ONE named deviation below
          pread,   \* dev mode: value pack_refs read for the ref before it took packed-refs.lock
          rname    \* devsym mode: the name an operation issued on HEAD resolved HEAD to, before it took any lock
vars == <<tid, done, cur, ok, ht, mode, pread, rname>>

T == Traces[tid]
Ops == T.ops
OpIds == 1..Len(Ops)

\* the sequential contract: [post-state, post-HEAD-target, result] of op o in state (m, h)
Apply(o, m, h, hn) ==
    LET nm == IF o.via = 1 THEN hn ELSE o.n
        v == m[nm] IN
    CASE o.exc -> [m |-> m, h |-> h, res |-> o.res]
      [] o.k = "set_if_equals" ->
            IF o.old = -1 \/ o.old = v THEN [m |-> [m EXCEPT ![nm] = o.new], h |-> h, res |-> 1]
            ELSE [m |-> m, h |-> h, res |-> 0]
      [] o.k = "add_if_new" ->
            IF v = 0 THEN [m |-> [m EXCEPT ![nm] = o.new], h |-> h, res |-> 1] ELSE [m |-> m, h |-> h, res |-> 0]
      [] o.k = "remove_if_equals" ->
            IF o.old = -1 \/ o.old = v THEN [m |-> [m EXCEPT ![nm] = 0], h |-> h, res |-> 1]
            ELSE [m |-> m, h |-> h, res |-> 0]
      [] o.k = "read" -> [m |-> m, h |-> h, res |-> v]
      [] o.k = "set_symref" -> [m |-> m, h |-> o.new, res |-> 1]      \* HEAD re-pointed at name o.new
      [] o.k = "read_link" -> [m |-> m, h |-> h, res |-> h]           \* which name does HEAD point at
      [] o.k = "pack_refs" -> [m |-> m, h |-> h, res |-> o.res]
      [] OTHER -> [m |-> m, h |-> h, res |-> o.res]

Init ==
    /\ tid \in 1..Len(Traces)
    /\ done = {}
    /\ cur = T.init
    /\ ht = T.hinit
    /\ ok = FALSE
    /\ mode \in {"strict", "dev", "devsym"}
    /\ pread = [i \in OpIds |-> -9]
    /\ rname = [i \in OpIds |-> 0]

Linearize(i) ==
    /\ i \notin done
    /\ ~(mode = "dev" /\ Ops[i].k = "pack_refs" /\ ~Ops[i].exc)
    /\ \A j \in OpIds : Ops[j].r < Ops[i].c => j \in done
    /\ (mode = "devsym" /\ Ops[i].via = 1 /\ ~Ops[i].exc) => rname[i] # 0
    /\ LET hn == IF mode = "devsym" /\ Ops[i].via = 1 /\ ~Ops[i].exc THEN rname[i] ELSE ht
           a == Apply(Ops[i], cur, ht, hn) IN
         /\ a.res = Ops[i].res
         /\ cur' = a.m
         /\ ht' = a.h
    /\ done' = done \cup {i}
    /\ UNCHANGED <<tid, ok, mode, pread, rname>>

(***************************************************************************)
(* Named deviation (known finding, refs.py:pack_refs): pack_refs reads the *)
(* values to pack BEFORE it takes packed-refs.lock and writes them         *)
(* afterwards without looking again, so a delete -- or, with two packers,   *)
(* an update -- that completes in between is undone: the ref comes back    *)
(* with the stale value read.  In "dev" mode                               *)
(* pack_refs is two steps, PackRead and PackWrite.  A history accepted     *)
(* only in dev mode is reported as that known finding; a history accepted  *)
(* in neither mode is a different violation.                               *)
(***************************************************************************)
PackRead(i) ==
    /\ mode = "dev" /\ i \notin done /\ Ops[i].k = "pack_refs" /\ ~Ops[i].exc /\ pread[i] = -9
    /\ \A j \in OpIds : Ops[j].r < Ops[i].c => j \in done
    /\ pread' = [pread EXCEPT ![i] = cur[Ops[i].n]]
    /\ UNCHANGED <<tid, done, cur, ok, ht, mode, rname>>

PackWrite(i) ==
    /\ mode = "dev" /\ i \notin done /\ pread[i] # -9
    /\ \/ cur' = cur
       \/ pread[i] > 0 /\ cur' = [cur EXCEPT ![Ops[i].n] = pread[i]]    \* stale value written back
    /\ done' = done \cup {i}
    /\ UNCHANGED <<tid, ok, ht, mode, pread, rname>>

(***************************************************************************)
(* Second named deviation (refs.py: follow() before the lock / before the  *)
(* value is read): an operation issued on the symbolic ref HEAD resolves   *)
(* HEAD to a name first (SymResolve) and acts on THAT name later, although *)
(* HEAD may have been re-pointed in between.  C git's files backend reads  *)
(* through symbolic refs in the same two steps, but holds HEAD.lock while  *)
(* it updates through one.  A history accepted only in "devsym" mode is    *)
(* reported under that name; one accepted in no mode is something else.    *)
(***************************************************************************)
SymResolve(i) ==
    /\ mode = "devsym" /\ i \notin done /\ Ops[i].via = 1 /\ ~Ops[i].exc /\ rname[i] = 0
    /\ \A j \in OpIds : Ops[j].r < Ops[i].c => j \in done
    /\ rname' = [rname EXCEPT ![i] = ht]
    /\ UNCHANGED <<tid, done, cur, ok, ht, mode, pread>>

Range(s) == {s[i] : i \in 1..Len(s)}

\* every commit reported as successful is contained in the final branch history
RECURSIVE Anc(_, _)
Anc(c, fuel) == IF c = 0 \/ fuel = 0 THEN {}
                ELSE {c} \cup UNION {Anc(p.parent, fuel - 1) : p \in {q \in Range(T.commits) : q.id = c}}
NoLostCommit == \A c \in Range(T.commits) : c.ok => c.id \in Anc(T.tip, Len(T.commits) + 1)

Accept ==
    /\ ~ok
    /\ done = OpIds
    /\ cur = T.final
    /\ ht = T.hfinal
    /\ NoLostCommit
    /\ PrintT(<<"LIN", T.tid, mode>>)
    /\ ok' = TRUE
    /\ UNCHANGED <<tid, done, cur, ht, mode, pread, rname>>

Next == (\E i \in OpIds : Linearize(i) \/ PackRead(i) \/ PackWrite(i) \/ SymResolve(i)) \/ Accept
Spec == Init /\ [][Next]_vars
=============================================================================

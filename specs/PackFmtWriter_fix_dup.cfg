SPECIFICATION Spec
CONSTANTS
  MaxObjs = 3
  UIds <- UDup
  RowSet <- RowsPlain
  AllowDup = TRUE
  DedupInput = TRUE
  OfsPlain = FALSE
  EmitMod = 1
  EmitRes = 0
INVARIANT PrefixInv
INVARIANT PackInv
INVARIANT IterInv
INVARIANT IdxInv
INVARIANT GitInv
INVARIANT CountInv
CHECK_DEADLOCK FALSE

\* negative control: close() instead of abort() when serialisation fails -- RefusedAtomic violated
SPECIFICATION Spec
CONSTANTS
  Cached = FALSE
  CommitOnError = TRUE
PROPERTY RefusedAtomic
CHECK_DEADLOCK FALSE

------------------------- MODULE WorkTreeConfNames -------------------------
(***************************************************************************)
(* C17, character level: what a tree-entry path element is, which elements *)
(* are unsafe to materialise (reference predicate, written from the        *)
(* property statement and C git's verify_path), and a transcription of     *)
(* dulwich's element validators (dulwich/index.py: validate_path_element_  *)
(* default / _ntfs / _hfs, get_path_element_validator, validate_path).     *)
(*                                                                         *)
(* A path element ("component") is named by a string token; Chars maps the *)
(* token to its characters (one-character strings; ZWNJ = U+200C, an HFS+  *)
(* ignorable code point; FF = bytes that are not UTF-8).  Rank is the byte *)
(* order of the real names (used for tree / change ordering).  The harness *)
(* checks both tables against the real bytes before anything else runs.    *)
(***************************************************************************)
EXTENDS Naturals, Sequences, FiniteSets, TLC

Comps == {"", ".", "..", "...", " ", ".git", ".GIT", ".Git", ".git ", ".git.", ".git. .", "git~1", "GIT~1", "git~2", "git~1x", ".git~1", ".git::$INDEX_ALLOCATION", ".git:x", ".gitx", ".gi", "a\\b", "..\\x", ".git\\x", "a\\.git\\x", "a\\git~1", "\\abs", "C:", "C:x", "C:\\x", ".g{ZWNJ}it", "{ZWNJ}.git", ".GIT{ZWNJ}", "{FF}", "~", "a", "d", "e", "x", "h", "of", "od", "ol", "p", "repo", "config", "hooks", "tmp", "repo-x", "f", "b", "c", "0", "z"}
Chars ==
    ("" :> <<>>) @@
    ("." :> <<".">>) @@
    (".." :> <<".", ".">>) @@
    ("..." :> <<".", ".", ".">>) @@
    (" " :> <<" ">>) @@
    (".git" :> <<".", "g", "i", "t">>) @@
    (".GIT" :> <<".", "G", "I", "T">>) @@
    (".Git" :> <<".", "G", "i", "t">>) @@
    (".git " :> <<".", "g", "i", "t", " ">>) @@
    (".git." :> <<".", "g", "i", "t", ".">>) @@
    (".git. ." :> <<".", "g", "i", "t", ".", " ", ".">>) @@
    ("git~1" :> <<"g", "i", "t", "~", "1">>) @@
    ("GIT~1" :> <<"G", "I", "T", "~", "1">>) @@
    ("git~2" :> <<"g", "i", "t", "~", "2">>) @@
    ("git~1x" :> <<"g", "i", "t", "~", "1", "x">>) @@
    (".git~1" :> <<".", "g", "i", "t", "~", "1">>) @@
    (".git::$INDEX_ALLOCATION" :> <<".", "g", "i", "t", ":", ":", "$", "I", "N", "D", "E", "X", "_", "A", "L", "L", "O", "C", "A", "T", "I", "O", "N">>) @@
    (".git:x" :> <<".", "g", "i", "t", ":", "x">>) @@
    (".gitx" :> <<".", "g", "i", "t", "x">>) @@
    (".gi" :> <<".", "g", "i">>) @@
    ("a\\b" :> <<"a", "\\", "b">>) @@
    ("..\\x" :> <<".", ".", "\\", "x">>) @@
    (".git\\x" :> <<".", "g", "i", "t", "\\", "x">>) @@
    ("a\\.git\\x" :> <<"a", "\\", ".", "g", "i", "t", "\\", "x">>) @@
    ("a\\git~1" :> <<"a", "\\", "g", "i", "t", "~", "1">>) @@
    ("\\abs" :> <<"\\", "a", "b", "s">>) @@
    ("C:" :> <<"C", ":">>) @@
    ("C:x" :> <<"C", ":", "x">>) @@
    ("C:\\x" :> <<"C", ":", "\\", "x">>) @@
    (".g{ZWNJ}it" :> <<".", "g", "ZWNJ", "i", "t">>) @@
    ("{ZWNJ}.git" :> <<"ZWNJ", ".", "g", "i", "t">>) @@
    (".GIT{ZWNJ}" :> <<".", "G", "I", "T", "ZWNJ">>) @@
    ("{FF}" :> <<"FF">>) @@
    ("~" :> <<"~">>) @@
    ("a" :> <<"a">>) @@
    ("d" :> <<"d">>) @@
    ("e" :> <<"e">>) @@
    ("x" :> <<"x">>) @@
    ("h" :> <<"h">>) @@
    ("of" :> <<"o", "f">>) @@
    ("od" :> <<"o", "d">>) @@
    ("ol" :> <<"o", "l">>) @@
    ("p" :> <<"p">>) @@
    ("repo" :> <<"r", "e", "p", "o">>) @@
    ("config" :> <<"c", "o", "n", "f", "i", "g">>) @@
    ("hooks" :> <<"h", "o", "o", "k", "s">>) @@
    ("tmp" :> <<"t", "m", "p">>) @@
    ("repo-x" :> <<"r", "e", "p", "o", "-", "x">>) @@
    ("f" :> <<"f">>) @@
    ("b" :> <<"b">>) @@
    ("c" :> <<"c">>) @@
    ("0" :> <<"0">>) @@
    ("z" :> <<"z">>)
Rank ==
    ("" :> 0) @@
    (" " :> 1) @@
    ("." :> 2) @@
    (".." :> 3) @@
    ("..." :> 4) @@
    ("..\\x" :> 5) @@
    (".GIT" :> 6) @@
    (".GIT{ZWNJ}" :> 7) @@
    (".Git" :> 8) @@
    (".gi" :> 9) @@
    (".git" :> 10) @@
    (".git " :> 11) @@
    (".git." :> 12) @@
    (".git. ." :> 13) @@
    (".git::$INDEX_ALLOCATION" :> 14) @@
    (".git:x" :> 15) @@
    (".git\\x" :> 16) @@
    (".gitx" :> 17) @@
    (".git~1" :> 18) @@
    (".g{ZWNJ}it" :> 19) @@
    ("0" :> 20) @@
    ("C:" :> 21) @@
    ("C:\\x" :> 22) @@
    ("C:x" :> 23) @@
    ("GIT~1" :> 24) @@
    ("\\abs" :> 25) @@
    ("a" :> 26) @@
    ("a\\.git\\x" :> 27) @@
    ("a\\b" :> 28) @@
    ("a\\git~1" :> 29) @@
    ("b" :> 30) @@
    ("c" :> 31) @@
    ("config" :> 32) @@
    ("d" :> 33) @@
    ("e" :> 34) @@
    ("f" :> 35) @@
    ("git~1" :> 36) @@
    ("git~1x" :> 37) @@
    ("git~2" :> 38) @@
    ("h" :> 39) @@
    ("hooks" :> 40) @@
    ("od" :> 41) @@
    ("of" :> 42) @@
    ("ol" :> 43) @@
    ("p" :> 44) @@
    ("repo" :> 45) @@
    ("repo-x" :> 46) @@
    ("tmp" :> 47) @@
    ("x" :> 48) @@
    ("z" :> 49) @@
    ("~" :> 50) @@
    ("{ZWNJ}.git" :> 51) @@
    ("{FF}" :> 52)

(***************************************************************************)
(* helpers on character sequences                                          *)
(***************************************************************************)
Lower(c) == CASE c = "G" -> "g" [] c = "I" -> "i" [] c = "T" -> "t" [] c = "C" -> "c"
              [] c = "N" -> "n" [] c = "D" -> "d" [] c = "E" -> "e" [] c = "X" -> "x"
              [] c = "A" -> "a" [] c = "L" -> "l" [] c = "O" -> "o" [] OTHER -> c
LowerS(s) == [i \in 1..Len(s) |-> Lower(s[i])]

RECURSIVE RStrip(_, _)
RStrip(s, cs) == IF s # <<>> /\ s[Len(s)] \in cs THEN RStrip(SubSeq(s, 1, Len(s) - 1), cs) ELSE s

Filter(s, drop) == SelectSeq(s, LAMBDA c : c \notin drop)

\* split a character sequence at every occurrence of sep
RECURSIVE SplitAt(_, _)
SplitAt(s, sep) ==
    IF \A i \in 1..Len(s) : s[i] # sep THEN <<s>>
    ELSE LET k == CHOOSE i \in 1..Len(s) : s[i] = sep /\ \A j \in 1..(i - 1) : s[j] # sep
         IN <<SubSeq(s, 1, k - 1)>> \o SplitAt(SubSeq(s, k + 1, Len(s)), sep)

DotGit   == <<".", "g", "i", "t">>
Git1     == <<"g", "i", "t", "~", "1">>
Dot      == <<".">>
DotDot   == <<".", ".">>
InvalidDotNames == {DotGit, Dot, DotDot, <<>>}          \* INVALID_DOTNAMES
HfsIgnorable == {"ZWNJ"}
Prefix(s, k) == SubSeq(s, 1, IF k <= Len(s) THEN k ELSE Len(s))

(***************************************************************************)
(* Transcription of dulwich's validators (POSIX branch: os.name # "nt")    *)
(***************************************************************************)
ValidDefault(e) == LowerS(e) \notin InvalidDotNames

\* _is_ntfs_dotgit
RECURSIVE NtfsTail(_, _)
NtfsTail(s, i) == IF i > Len(s) THEN TRUE
                  ELSE IF s[i] = ":" THEN TRUE
                  ELSE IF s[i] # "." /\ s[i] # " " THEN FALSE
                  ELSE NtfsTail(s, i + 1)
IsNtfsDotgit(s) ==
    IF Prefix(s, 1) = <<".">> THEN
        IF LowerS(SubSeq(s, 2, IF Len(s) < 4 THEN Len(s) ELSE 4)) # <<"g", "i", "t">> THEN FALSE ELSE NtfsTail(s, 5)
    ELSE IF LowerS(Prefix(s, 1)) = <<"g">> THEN
        IF LowerS(SubSeq(s, 2, IF Len(s) < 3 THEN Len(s) ELSE 3)) # <<"i", "t">>
           \/ SubSeq(s, 4, IF Len(s) < 5 THEN Len(s) ELSE 5) # <<"~", "1">> THEN FALSE ELSE NtfsTail(s, 6)
    ELSE FALSE

ValidNtfs(e) ==
    /\ \A k \in 1..Len(SplitAt(e, "\\")) : ~IsNtfsDotgit(SplitAt(e, "\\")[k])
    /\ LowerS(RStrip(e, {".", " "})) \notin InvalidDotNames

ValidHfs(e) ==
    /\ \A i \in 1..Len(e) : e[i] # "FF"                                  \* malformed UTF-8: rejected
    /\ LET nrm == LowerS(Filter(e, HfsIgnorable)) IN nrm \notin InvalidDotNames /\ nrm # Git1

\* get_path_element_validator: pr = [ntfs |-> BOOLEAN, hfs |-> BOOLEAN]
Accept(e, pr) ==
    IF pr.ntfs /\ pr.hfs THEN ValidNtfs(e) /\ ValidHfs(e)
    ELSE IF pr.ntfs THEN ValidNtfs(e)
    ELSE IF pr.hfs THEN ValidHfs(e)
    ELSE ValidDefault(e)

\* validate_path on a path given as a sequence of component tokens
ValidPath(cs, pr) == \A i \in 1..Len(cs) : Accept(Chars[cs[i]], pr)

(***************************************************************************)
(* Reference: which elements are unsafe (property statement; C git's       *)
(* verify_path / verify_dotfile / is_ntfs_dotgit / is_hfs_dotgit on a      *)
(* POSIX host).  Written declaratively, independent of the transcription.  *)
(***************************************************************************)
\* s spells .git or git~1 (any case), then only dots and blanks, then ends or continues with ':'
NtfsDotgitRef(s) ==
    \E k \in {4, 5} :
        /\ k <= Len(s)
        /\ LowerS(SubSeq(s, 1, k)) \in {DotGit, Git1}
        /\ \E m \in k..Len(s) :
              /\ \A j \in (k + 1)..m : s[j] \in {".", " "}
              /\ (m = Len(s) \/ s[m + 1] = ":")

Unsafe(e, pr) ==
    \/ e \in {<<>>, Dot, DotDot}
    \/ LowerS(e) = DotGit
    \/ pr.ntfs /\ \E k \in 1..Len(SplitAt(e, "\\")) : NtfsDotgitRef(SplitAt(e, "\\")[k])
    \/ pr.hfs /\ LowerS(Filter(e, HfsIgnorable)) = DotGit

UnsafePath(cs, pr) == \E i \in 1..Len(cs) : Unsafe(Chars[cs[i]], pr)

AllProts == [ntfs : BOOLEAN, hfs : BOOLEAN]

\* the element-level statement of UnsafeRefused: every unsafe element is refused by the validator
ElementsRefused == \A c \in Comps, pr \in AllProts : Unsafe(Chars[c], pr) => ~Accept(Chars[c], pr)

=============================================================================

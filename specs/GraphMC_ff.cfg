\* _find_lcas as can_fast_forward runs it today (min_stamp cut-off): sound, never a wrong yes, exact under strictly monotone clocks
SPECIFICATION Spec
CONSTANTS
  MaxExtra = 5
  N = 4
  L = 4
  Mode = "ff"
  UseMinStamp = TRUE
  Reduce = FALSE
  Clocks = "any"
  MaxD = 1
  TieBreak = "both"
INVARIANT PaintSound
INVARIANT NoFalsePositive
INVARIANT ExactWhenStrict
INVARIANT Bounded
CHECK_DEADLOCK FALSE

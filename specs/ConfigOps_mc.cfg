\* Histories of set/add/remove/rewrite (quick bound; thorough: MaxItems = 3).
SPECIFICATION Spec
CONSTANTS
  MaxItems = 2
  NSec = 4
  NKey = 3
  NVal = 2
  QuoteSemi = FALSE
  CrRaw = FALSE
  QuoteAnySpace = FALSE
  ValueStripGit = FALSE
  HdrEscAware = FALSE
INVARIANT InvRoundTrip
INVARIANT InvInteropDG
PROPERTY RewriteIsIdentity
CHECK_DEADLOCK FALSE

---------------------------- MODULE RefNameTrace ----------------------------
(***************************************************************************)
(* Judges recorded verdicts of dulwich.refs.check_ref_format and of        *)
(* `git check-ref-format` against RefName!Valid.  One ndjson line per      *)
(* name: [id, b (the bytes), dul, git]  with dul, git in {"T","F","na"}.   *)
(* One initial state per name; a line is printed for every name on which   *)
(* an implementation differs from the specification.                       *)
(***************************************************************************)
EXTENDS RefName, Json, IOUtils, TLC

Cases == ndJsonDeserialize(IOEnv.CASE_FILE)

VARIABLE i
Str(v) == IF v THEN "T" ELSE "F"
Judge(c) ==
    LET v == Str(Valid(c.b)) IN
    IF (c.dul = v \/ c.dul = "na") /\ (c.git = v \/ c.git = "na") THEN TRUE
    ELSE PrintT(<<"MISMATCH", c.id, v, c.dul, c.git>>)
CaseInit == i \in 1..Len(Cases) /\ Judge(Cases[i]) /\ bytes = <<>> /\ ok = TRUE
CaseNext == UNCHANGED <<i, bytes, ok>>
CaseSpec == CaseInit /\ [][CaseNext]_<<i, bytes, ok>>
=============================================================================

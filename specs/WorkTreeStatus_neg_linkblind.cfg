SPECIFICATION Spec
CONSTANTS
  Paths <- TinyPaths
  Trees <- TinyTrees
  NewCells <- EditNew
  Contents <- EditContents
  MaxEdits = 3
  Acts <- AllActs
  ModeBlind = FALSE
  LinkBlind = TRUE
INVARIANT RoundTrip
CHECK_DEADLOCK FALSE

----------------------------- MODULE TreeDiffGen -----------------------------
(***************************************************************************)
(* Case enumerator for C12.  Two state machines over the operators of      *)
(* TreeDiff:                                                               *)
(*                                                                         *)
(*  BuildSpec: one state per valid listing L over (BPaths, BCells, BMax):  *)
(*             the expected nested tree, iteration orders; lemmas          *)
(*             Flatten(Build(L)) = L, Canonical(Build(L)), order lemma.    *)
(*  DiffSpec:  one state per ordered pair (A, B) of valid listings over    *)
(*             (DPaths, DCells, DMax): the expected change lists for all   *)
(*             flag combinations, path filters, the change list for        *)
(*             commit_tree_changes, exact renames; lemmas Apply(Diff)=B,   *)
(*             Once, WalkDiff = DiffSeq, pruning, filter, patch.           *)
(*                                                                         *)
(* The expected results leave TLC as a JSON string in the variable `out`   *)
(* (state dump); the lemmas are evaluated in the same step and recorded in *)
(* `ok`, which the invariant Lemmas requires to be "ok".                   *)
(***************************************************************************)
EXTENDS TreeDiff, Json

CONSTANTS BPaths, BCells, BMax, DPaths, DCells, DMax, Filters

\* names: a  a.b  a-  a0  b  c
nA == <<97>>
nAdotB == <<97, 46, 98>>
nAdash == <<97, 45>>
nA0 == <<97, 48>>
nB == <<98>>
nC == <<99>>
\* the conflict alphabet of the property: a  a.b  a/b  a/c  a-  a0  a/b/c  b
ConflictPaths == {<<nA>>, <<nAdotB>>, <<nA, nB>>, <<nA, nC>>, <<nAdash>>, <<nA0>>, <<nA, nB, nC>>, <<nB>>}
SmallPaths == {<<nA>>, <<nAdotB>>, <<nA, nB>>, <<nA0>>, <<nA, nB, nC>>, <<nB>>}
DeepPaths == {<<nA>>, <<nA, nB>>, <<nA, nC>>, <<nA, nB, nC>>, <<nAdotB>>, <<nB>>}
MiniPaths == {<<nA>>, <<nA, nB>>, <<nB>>}
TinyPaths == {<<nA>>, <<nAdotB>>, <<nA, nB>>, <<nB>>}
AllCells == {<<"F", "x">>, <<"F", "y">>, <<"X", "x">>, <<"X", "y">>, <<"L", "x">>, <<"L", "y">>, <<"G", "x">>, <<"G", "y">>}
FourCells == {<<"F", "x">>, <<"F", "y">>, <<"L", "x">>, <<"G", "x">>}
TwoCells == {<<"F", "x">>, <<"F", "y">>}
ThreeCells == {<<"F", "x">>, <<"F", "y">>, <<"L", "x">>}
FiveCells == {<<"F", "x">>, <<"F", "y">>, <<"X", "x">>, <<"L", "x">>, <<"G", "x">>}
\* path filters: single paths, a directory, a directory and a file, nested filters
\* (the last one names a directory and a path below it; the harness passes the deeper one first)
StdFilters == << {<<nA>>}, {<<nA, nB>>}, {<<nAdotB>>, <<nA, nC>>}, {<<nB>>, <<nA, nB, nC>>}, {<<nA, nB>>, <<nA>>} >>

VARIABLES ph, a, b, ok, out
vars == <<ph, a, b, ok, out>>

\* ------------------------------------------------------------------ JSON projections
EntJ(e) == IF e = NoEntry THEN <<>> ELSE <<e.path, e.mode, e.id>>
ChgJ(c) == <<c.type, EntJ(c.old), EntJ(c.new)>>
SeqJ(s) == [i \in DOMAIN s |-> ChgJ(s[i])]
ListJ0(s) == [i \in DOMAIN s |-> EntJ(s[i])]
ListJ(L) == ListJ0(SortSeq(SetToSeq(L), LAMBDA e, f : PathLess(e.path, f.path)))
RECURSIVE TreeJ(_)
TreeJ(T) == [i \in DOMAIN T |-> <<T[i].name, T[i].mode, T[i].id, TreeJ(T[i].sub)>>]
IterJ(s) == [i \in DOMAIN s |-> <<s[i].path, s[i].mode, s[i].id>>]
BoolKey(x) == IF x THEN "1" ELSE "0"

\* ------------------------------------------------------------------ order lemma
NamesOf(P) == UNION {Range(p) : p \in P}
OrderLemma(P) ==
    \A n1, n2 \in NamesOf(P) : \A d1, d2 \in BOOLEAN :
        LET m1 == IF d1 THEN "T" ELSE "F"
            m2 == IF d2 THEN "T" ELSE "F"
        IN  /\ (BaseNameCompare(n1, d1, n2, d2) = "lt") <=> LexLess(SortKey(n1, m1), SortKey(n2, m2))
            /\ (BaseNameCompare(n1, d1, n2, d2) = "eq") <=> (SortKey(n1, m1) = SortKey(n2, m2))
ASSUME OrderLemma(BPaths \cup DPaths)

\* ------------------------------------------------------------------ build cases
BuildLemma(L, T) ==
    IF ~Valid(L) THEN "Valid"
    ELSE IF Flatten(T, <<>>) # L THEN "FlattenBuild"
    ELSE IF ~Canonical(T) THEN "Canonical"
    ELSE IF Build(Flatten(T, <<>>)) # T THEN "BuildFlatten"
    ELSE IF {[e EXCEPT !.tree = <<>>] : e \in Range(IterRoot(T, FALSE))} # L THEN "Iter"
    ELSE IF {e.path : e \in {x \in Range(IterRoot(T, TRUE)) : x.mode = "T"}} # Dirs(L) THEN "IterTrees"
    ELSE "ok"

BuildCase(L, T) ==
    [L |-> ListJ(L), tree |-> TreeJ(T), iter |-> IterJ(IterRoot(T, FALSE)), itert |-> IterJ(IterRoot(T, TRUE))]
BuildStep(L, T) == ok' = BuildLemma(L, T) /\ out' = ToJson(BuildCase(L, T))

BuildStep0(L) == BuildStep(L, Build(L))

BuildInit ==
    /\ ph = 0 /\ b = {} /\ ok = "ok" /\ out = ""
    /\ a \in {S \in SUBSET BPaths : Cardinality(S) <= BMax /\ PrefixFree(S)}
BuildNext ==
    /\ ph = 0 /\ ph' = 1 /\ b' = b /\ a' = {}
    /\ \E f \in [a -> BCells] :
         BuildStep0({[path |-> p, mode |-> f[p][1], id |-> f[p][2], tree |-> <<>>] : p \in a})
BuildSpec == BuildInit /\ [][BuildNext]_vars

\* ------------------------------------------------------------------ diff cases
\* the eight flag combinations, in the order the harness replays them (wu, it, cts)
FlagSeq == << Flags(FALSE, FALSE, FALSE), Flags(FALSE, FALSE, TRUE), Flags(FALSE, TRUE, FALSE), Flags(FALSE, TRUE, TRUE),
              Flags(TRUE, FALSE, FALSE),  Flags(TRUE, FALSE, TRUE),  Flags(TRUE, TRUE, FALSE),  Flags(TRUE, TRUE, TRUE) >>

\* D[k] = DiffSeq(A, B, FlagSeq[k]);  WP / WF = pruned / full walk of the built trees;
\* cl = change list of the default diff; R = exact renames of the default diff
DiffLemma(A, B, D, WP, WF, cl, R) ==
    IF \E k \in DOMAIN FlagSeq :
          \/ ~Sound(Range(D[k]), A, B)
          \/ ~Once(D[k], FlagSeq[k].cts)
          \/ ChangesOf(IF FlagSeq[k].wu THEN WF ELSE WP, FlagSeq[k]) # D[k]
    THEN "Diff"
    \* identical subtrees are not entered: the pruned walk never loads more trees than the
    \* full walk, and none at all for identical roots
    ELSE IF Loads(WP) > Loads(WF) THEN "PruneLoads"
    ELSE IF A = B /\ Loads(WP) # 0 THEN "PruneRoot"
    ELSE IF (D[1] = <<>>) # (A = B) THEN "EmptyIffEqual"
    \* the filtered diff is the diff of the filtered listings
    ELSE IF \E i \in DOMAIN Filters :
              Range(Filt(D[1], Filters[i]))
                # Range(DiffSeq({e \in A : Matches(e.path, Filters[i])}, {e \in B : Matches(e.path, Filters[i])}, Default))
         THEN "Filter"
    ELSE IF ~ApplicableCL(cl, A) \/ ApplyCL(cl, A) # B THEN "ChangeList"
    ELSE IF Patch(A, cl) # Build(B) THEN "Patch"
    ELSE IF ~RenameSound(R, A, B) THEN "Rename"
    ELSE "ok"

CLJ(cl) == [i \in DOMAIN cl |-> <<cl[i].path, cl[i].mode, cl[i].id>>]
DiffCase(A, B, D, WP, WF, cl, R) ==
    [A |-> ListJ(A), B |-> ListJ(B), ta |-> TreeJ(Build(A)), tb |-> TreeJ(Build(B)),
     d |-> [k \in DOMAIN FlagSeq |-> SeqJ(D[k])],
     loads |-> <<Loads(WP), Loads(WF)>>,
     pf |-> [i \in DOMAIN Filters |-> SeqJ(Filt(D[1], Filters[i]))],
     cl |-> CLJ(cl),
     unamb |-> Unambiguous(Range(D[1])),
     ren |-> SeqJ(SortSeq(SetToSeq(R), LAMBDA x, y : PathLess(ChangePath(x), ChangePath(y))))]

DListings == ListingsOver(DPaths, DCells, DMax)
DiffInit == ph = 0 /\ b = {} /\ ok = "ok" /\ out = "" /\ a \in DListings
DiffStep2(A, B, D, WP, WF, cl, R) ==
    ok' = DiffLemma(A, B, D, WP, WF, cl, R) /\ out' = ToJson(DiffCase(A, B, D, WP, WF, cl, R))
DiffStep1(A, B, D) == DiffStep2(A, B, D, WalkOf(A, B, TRUE), WalkOf(A, B, FALSE), ChangeList(D[1]), ExactRenames(Range(D[1])))
DiffStep0(A, B, PP) == DiffStep1(A, B, Force([k \in DOMAIN FlagSeq |-> ChangesOf(PP, FlagSeq[k])]))
DiffNext ==
    /\ ph = 0 /\ ph' = 1 /\ a' = {} /\ b' = {}
    /\ \E B \in DListings : DiffStep0(a, B, PathPairs(a, B))
DiffSpec == DiffInit /\ [][DiffNext]_vars

Lemmas == ok = "ok"
=============================================================================

SPECIFICATION Spec
CONSTANTS
  NameMask = 4095
  Family = "conf"
  MaxKeys = 0
  MaxEdits = 0
  Defect = "manyfilesforces"
INVARIANT ConfInv
CHECK_DEADLOCK FALSE

\* object-graph focused: 2 commits x every root-tree assignment from the pool (shared blobs, shared and nested
\* subtrees, gitlink) x <= 2 tags (of commits / a tree / a blob / a tag) x sender heads x receiver tips x wants
\* x include-tag x thin-pack; negotiation collapsed, MissingObjectFinder pops in every order
SPECIFICATION Spec
CONSTANTS
  NC = 2
  NTP = 5
  NT = 2
  MaxHeads = 3
  MaxWants = 2
  Modes = {"detailed"}
  IncTag = {FALSE, TRUE}
  Thin = {FALSE, TRUE}
  SFull = {FALSE, TRUE}
  Forge = TRUE
  MaxInVain = 2
  AtomicNeg = TRUE
  PopAny = TRUE
  Bug = "none"
INVARIANT TypeOK
INVARIANT Antecedent
INVARIANT ReceiverComplete
INVARIANT NoLoss
INVARIANT SenderSound
INVARIANT WantValidation
INVARIANT ThinResolvable
INVARIANT Confluent
INVARIANT HavesSound
CHECK_DEADLOCK FALSE

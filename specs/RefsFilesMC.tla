----------------------------- MODULE RefsFilesMC -----------------------------
(* Model-checking instances of RefsFiles: operation menus and initial layouts. *)
EXTENDS RefsFiles

Cas(o, n) == [k |-> "cas", old |-> o, new |-> n]
Add(n)    == [k |-> "add", old |-> 0, new |-> n]
Del(o)    == [k |-> "del", old |-> o, new |-> 0]
Read      == [k |-> "read", old |-> 0, new |-> 0]
Pack      == [k |-> "pack", old |-> 0, new |-> 0]

AllInits == {<<0, 0>>, <<1, 0>>, <<0, 1>>, <<2, 1>>}      \* absent, loose, packed, both (loose shadows packed)

\* Cas(0, 1): create-if-absent with the value the packed entry holds initially (the shortcut of F62)
Writers  == {Cas(o, n) : o \in {-1, 0, 1, 2}, n \in {3, 4}} \cup {Add(3), Add(4), Cas(0, 1)}
Deleters == {Del(o) : o \in {-1, 0, 1, 2}}
OpsNoPack == Writers \cup Deleters \cup {Read}
OpsNoDel  == Writers \cup {Read, Pack}
OpsAll    == Writers \cup Deleters \cup {Read, Pack}

Order(o) == CASE o.k = "cas" -> 10 * (o.old + 2) + o.new
              [] o.k = "add" -> 100 + o.new
              [] o.k = "del" -> 200 + o.old + 2
              [] o.k = "read" -> 300
              [] o.k = "pack" -> 400
\* actors are interchangeable: keep one representative per multiset of operations
Sorted(f) == \A a, b \in Actors : a < b => Order(f[a]) <= Order(f[b])

MenusNoPack == {f \in [Actors -> OpsNoPack] : Sorted(f)}
MenusNoDel  == {f \in [Actors -> OpsNoDel] : Sorted(f)}
MenusAll    == {f \in [Actors -> OpsAll] : Sorted(f)}
\* 3 actors: a reduced menu keeps the instance small
Small == {Cas(-1, 3), Cas(1, 3), Cas(2, 4), Add(4), Read, Pack}
SmallD == {Cas(1, 3), Cas(2, 4), Cas(0, 1), Del(1), Del(2), Del(-1), Read}
Menus3NoDel == {f \in [Actors -> Small] : Sorted(f)}
Menus3NoPack == {f \in [Actors -> SmallD] : Sorted(f)}
=============================================================================

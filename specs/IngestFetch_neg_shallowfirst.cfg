SPECIFICATION Spec
CONSTANTS
  ShallowAfterCommit = FALSE
INVARIANT FailedTransferInvisible
INVARIANT SuccessIsComplete
INVARIANT ShallowNeverAhead
CHECK_DEADLOCK FALSE

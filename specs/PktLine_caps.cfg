SPECIFICATION Spec
CONSTANTS
  Family = "caps"
INVARIANT Theorems
CHECK_DEADLOCK FALSE

SPECIFICATION Spec
CONSTANTS
  Fam = "negpyint"
  MaxLen = 2
  Sel = {}
INVARIANT Lemmas
CHECK_DEADLOCK FALSE

SPECIFICATION Spec
CONSTANTS
  TreeSet <- TreesUnch
  Ops <- OpsUnch
  MaxLen = 3
  Prots <- ProtsDefault
  FixDelete = TRUE
  FixPatch = TRUE
  CacheTrunc = TRUE
INVARIANT TypeOK
INVARIANT Confined
INVARIANT UnsafeRefused
CONSTRAINT Modelled
CHECK_DEADLOCK FALSE

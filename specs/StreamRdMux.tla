---------------------------- MODULE StreamRdMux ----------------------------
(***************************************************************************)
(* The pkt-lines-inside-side-band path of dulwich (report-status of        *)
(* receive-pack): server.py writes pkt-lines through                       *)
(* protocol.py:BufferedPktLineWriter, whose buffer flushes go through      *)
(* Protocol.write_sideband (channel 1, at most SbMax data bytes per frame);*)
(* client.py demultiplexes the outer frames (_read_side_band64k_data) and  *)
(* feeds the channel-1 fragments to protocol.py:PktLineParser, which must  *)
(* hand over the original pkt-lines however the inner stream was cut.      *)
(*                                                                         *)
(* Scen = "parser":   PktLineParser alone; the environment cuts an inner   *)
(*                    byte stream (well-formed, truncated or malformed)    *)
(*                    into fragments of every possible size.               *)
(* Scen = "pipeline": payloads -> BufferedPktLineWriter(bufsize) ->        *)
(*                    side-band split -> demux -> PktLineParser.           *)
(* The oracle is the PktLine reference decoder applied to the whole prefix *)
(* fed so far (incremental parsing = batch decoding).                      *)
(***************************************************************************)
EXTENDS Integers, Sequences, FiniteSets, TLC, Json

CONSTANTS Scen, MaxItems, MaxLen,
          MaxFrag,        \* parser: largest fragment
          BufSizes,       \* pipeline: the bufsize values explored
          SbMax,          \* pipeline: largest side-band data chunk (65515 in the code)
          ResetBufLen,    \* FALSE: flush() leaves _buflen alone, as the code does (it resets `_len`)
          Gen

P == INSTANCE PktLine WITH Family <- "none", case <- 0, exp <- 0

Min(a, b) == IF a < b THEN a ELSE b
Max(a, b) == IF a > b THEN a ELSE b
Take(s, n) == SubSeq(s, 1, Min(n, Len(s)))
Drop(s, n) == SubSeq(s, Min(n, Len(s)) + 1, Len(s))
PyTo(s, i)   == IF i >= 0 THEN Take(s, i) ELSE Take(s, Max(0, Len(s) + i))     \* s[:i]
PyFrom(s, i) == IF i >= 0 THEN Drop(s, i) ELSE Drop(s, Max(0, Len(s) + i))     \* s[i:]

\* ---------------------------------------------------------------- PktLineParser.parse (the code)
RECURSIVE ParserRun(_, _)
ParserRun(buf, acc) ==
    IF Len(buf) < 4 THEN [out |-> acc, rest |-> buf, err |-> FALSE]
    ELSE LET n == P!LenPrefix(Take(buf, 4)) IN
         IF n < 0 THEN [out |-> acc, rest |-> buf, err |-> TRUE]
         ELSE IF n = 0 THEN ParserRun(Drop(buf, 4), Append(acc, P!Flush))
         ELSE IF n < 4 THEN [out |-> acc, rest |-> buf, err |-> TRUE]
         ELSE IF n <= Len(buf) THEN ParserRun(Drop(buf, n), Append(acc, P!Data(SubSeq(buf, 5, n))))
         ELSE [out |-> acc, rest |-> buf, err |-> FALSE]

\* ---------------------------------------------------------------- oracle (the PktLine reference)
RECURSIVE WantAcc(_, _)
WantAcc(s, acc) == LET d == P!Decode1(s) IN
    IF d.st = "frame" /\ d.it.k \in {"data", "flush"} THEN WantAcc(Drop(s, d.n), Append(acc, d.it))
    ELSE IF d.st = "frame" THEN [out |-> acc, rest |-> s, err |-> TRUE]     \* delim / response-end: refused here
    ELSE IF d.st = "eof" \/ d.why \in {"short-prefix", "short-payload"} THEN [out |-> acc, rest |-> s, err |-> FALSE]
    ELSE [out |-> acc, rest |-> s, err |-> TRUE]
Want(s) == WantAcc(s, <<>>)

\* ---------------------------------------------------------------- scenarios
Payloads == P!SmallPayloads \cup {<<1, 2, 3, 4, 5, 6, 7, 8, 9>>}
ParserItems == {P!Data(p) : p \in P!SmallPayloads} \cup {P!Flush}
Prefixes(S) == UNION {{SubSeq(s, 1, k) : k \in 0..Len(s)} : s \in S}
BadStreams == {<<48, 48, 48, 51>>, <<48, 48, 48, 50>>, <<48, 48, 48, 49>>, <<43, 48, 48, 53, 9>>, <<48, 120, 48, 53, 9>>,
               <<45, 48, 48, 49>>, <<48, 48, 95, 53, 9>>, <<48, 48, 48, 65, 1, 2, 3, 4, 5, 6>>,
               <<48, 48, 48, 54, 1, 2, 48, 48, 48, 103>>, <<48, 48, 48, 53, 7, 48, 48, 48, 49, 48, 48, 48, 48>>}
Inners == {s \in Prefixes({P!Encode(is) : is \in P!SeqsUpTo(ParserItems, MaxItems)}) \cup BadStreams : Len(s) <= MaxLen}

VARIABLES inner, fed, ra, out, err,                         \* parser
          payloads, bsz, widx, wbuf, buflen, emitted, outer, \* writer + side-band
          hist
vars == <<inner, fed, ra, out, err, payloads, bsz, widx, wbuf, buflen, emitted, outer, hist>>

Init ==
    /\ fed = 0 /\ ra = <<>> /\ out = <<>> /\ err = FALSE /\ hist = <<>>
    /\ widx = 0 /\ wbuf = <<>> /\ buflen = 0 /\ emitted = <<>> /\ outer = <<>>
    /\ IF Scen = "parser"
       THEN inner \in Inners /\ payloads = <<>> /\ bsz = 0
       ELSE /\ payloads \in P!SeqsUpTo(Payloads, MaxItems)
            /\ bsz \in BufSizes
            /\ inner = P!Encode([i \in 1..Len(payloads) |-> P!Data(payloads[i])])

\* ---- parser: one call of parse(fragment)
ParseInto(frag) ==
    LET r == ParserRun(ra \o frag, <<>>) IN
    /\ out' = out \o r.out
    /\ err' = r.err
    /\ ra' = r.rest                      \* (after an error the parser is dead; rest is not compared)

Feed(k) ==
    /\ Scen = "parser" /\ ~err /\ fed < Len(inner)
    /\ k \in 1..Min(MaxFrag, Len(inner) - fed)
    /\ ParseInto(SubSeq(inner, fed + 1, fed + k))
    /\ fed' = fed + k
    /\ hist' = IF Gen THEN Append(hist, k) ELSE hist
    /\ UNCHANGED <<inner, payloads, bsz, widx, wbuf, buflen, emitted, outer>>

\* ---- pipeline: what one buffer flush sends, and what the receiver makes of it
RECURSIVE FeedAll(_, _)
FeedAll(st, frags) ==                    \* st = [ra, out, err]
    IF frags = <<>> \/ st.err THEN st
    ELSE LET r == ParserRun(st.ra \o Head(frags), <<>>) IN
         FeedAll([ra |-> r.rest, out |-> st.out \o r.out, err |-> r.err], Tail(frags))

Send(chunks) ==                          \* chunks: what BufferedPktLineWriter handed to its write callback
    LET items == P!Concat([i \in 1..Len(chunks) |-> P!SbItems(1, chunks[i], SbMax)])
        st == FeedAll([ra |-> ra, out |-> out, err |-> err], [i \in 1..Len(items) |-> Tail(items[i].p)]) IN
    /\ emitted' = emitted \o chunks
    /\ outer' = outer \o items
    /\ ra' = st.ra /\ out' = st.out /\ err' = st.err
    /\ fed' = fed + Len(P!Concat(chunks))

Write ==
    /\ Scen = "pipeline" /\ widx < Len(payloads)
    /\ LET line == P!EncItem(P!Data(payloads[widx + 1]))
           over == buflen + Len(line) - bsz IN
       IF over >= 0
       THEN LET start == Len(line) - over
                data == wbuf \o PyTo(line, start)
                saved == PyFrom(line, start) IN
            /\ Send(IF data = <<>> THEN <<>> ELSE <<data>>)
            /\ wbuf' = saved
            /\ buflen' = (IF ResetBufLen THEN 0 ELSE buflen) + Len(saved)
       ELSE /\ Send(<<>>)
            /\ wbuf' = wbuf \o line
            /\ buflen' = buflen + Len(line)
    /\ widx' = widx + 1
    /\ UNCHANGED <<inner, payloads, bsz, hist>>

Flush ==
    /\ Scen = "pipeline" /\ widx = Len(payloads)
    /\ Send(IF wbuf = <<>> THEN <<>> ELSE <<wbuf>>)
    /\ wbuf' = <<>> /\ buflen' = IF ResetBufLen THEN 0 ELSE buflen
    /\ widx' = widx + 1
    /\ UNCHANGED <<inner, payloads, bsz, hist>>

Next == (\E k \in 1..MaxFrag : Feed(k)) \/ Write \/ Flush
Spec == Init /\ [][Next]_vars

\* ---------------------------------------------------------------- properties
\* incremental parsing = decoding the whole prefix at once, for every fragmentation
ParserExact == LET w == Want(Take(inner, fed)) IN
    /\ err = w.err
    /\ out = w.out
    /\ ~err => ra = w.rest

\* the writer neither loses, duplicates nor reorders a byte, whatever its buffer does
WriterNoLoss == Scen = "pipeline" =>
    P!Concat(emitted) \o wbuf = P!Encode([i \in 1..Min(widx, Len(payloads)) |-> P!Data(payloads[i])])

\* every outer frame is a legal side-band frame and channel 1 carries exactly the writer's bytes
SbWellFormed == Scen = "pipeline" =>
    /\ \A i \in 1..Len(outer) : outer[i].k = "data" /\ Len(outer[i].p) \in 2..(SbMax + 1) /\ outer[i].p[1] = 1
    /\ P!ChanCat(outer, 1) = P!Concat(emitted)

PipelineDone == Scen = "pipeline" /\ widx = Len(payloads) + 1
PipelineRoundTrip == PipelineDone =>
    /\ ~err /\ ra = <<>> /\ wbuf = <<>>
    /\ out = [i \in 1..Len(payloads) |-> P!Data(payloads[i])]

Done == IF Scen = "parser" THEN (err \/ fed = Len(inner)) ELSE PipelineDone
EmitLeaf == (Gen /\ Done) => PrintT(ToJson(
    IF Scen = "parser"
    THEN [leaf |-> "parser", inner |-> inner, frags |-> hist, out |-> out, tail |-> ra, err |-> err]
    ELSE [leaf |-> "pipeline", payloads |-> payloads, bsz |-> bsz, emitted |-> emitted,
          outer |-> [i \in 1..Len(outer) |-> outer[i].p], out |-> out]))
=============================================================================

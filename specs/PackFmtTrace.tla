---------------------------- MODULE PackFmtTrace ----------------------------
(***************************************************************************)
(* Batch validation of recorded executions against PackFmt.                *)
(*                                                                         *)
(* One ndjson line per execution.  All wide integers are limbs, names are  *)
(* small ints (ids), contents are small ints, exactly the record shapes    *)
(* documented in PackFmt.tla (pk, ix):                                     *)
(*                                                                         *)
(*   tid      trace id                                                     *)
(*   kind     "dw"  the implementation wrote pack (and index) from the     *)
(*                  objects `written`                                      *)
(*            "git" C git wrote pack and index; `written` is C git's own   *)
(*                  listing of it (cat-file)                               *)
(*   pk       the pack as projected from its bytes                         *)
(*   hasix/ix the index as projected from its bytes                        *)
(*   written  sequence of <<id, type, content>>                            *)
(*   reads    sequence of [name, ok, items]: one read-back of the          *)
(*            implementation (random access in some order under some cache *)
(*            limit, sequential iteration, sorted_entries, ...):           *)
(*            ok = it did not raise, items = <<id, type, content>> it      *)
(*            produced                                                     *)
(*   entries  sequence of [name, ok, full, items]: entry listings of the   *)
(*            implementation, items = <<id, off limb, crc pair>>; full =   *)
(*            a listing of every entry (else: one lookup per name)         *)
(*   depthcap for "git": the --depth given to pack-objects (-1: none)      *)
(*   wr       the pack's entries were laid out by PackChunkGenerator (FALSE *)
(*            for a stream a store ingested: its bytes are the sender's)   *)
(*                                                                         *)
(* Verdict: <<"VERDICT", tid, property clauses failed, shape clauses       *)
(* failed, specification clauses failed, max delta chain depth>>.          *)
(* Property clauses are clauses of C02 (layout consistency, index          *)
(* consistency, read-back); the shape clause "WriterRule" says the bytes   *)
(* are not what PackChunkGenerator's rule produces (git accepts other      *)
(* choices); for kind "git" a failed layout clause is a defect of the      *)
(* specification (the specification is validated against C git first).     *)
(***************************************************************************)
EXTENDS PackFmt, Json, IOUtils

Traces == ndJsonDeserialize(IOEnv.TRACE_FILE)

VARIABLES tid, ph
tvars == <<tid, ph>>

\* sequential iteration reaches every entry (same definition as PackFmtWriter!IterCovers)
RECURSIVE Reach(_, _)
Reach(pk, S) ==
    LET S2 == S \cup { i \in DOMAIN pk.es :
                         /\ pk.es[i].kind # "full"
                         /\ \/ \E j \in S : pk.es[j].id = pk.es[i].base /\ j # i
                            \/ pk.es[i].kind = "ref" /\ pk.es[i].base \in pk.ext } IN
    IF S2 = S THEN S ELSE Reach(pk, S2)
IterCovers(pk) == Reach(pk, { i \in DOMAIN pk.es : pk.es[i].kind = "full" }) = DOMAIN pk.es

Pk(t) == [ t.pk EXCEPT !.ext = Rng(t.pk.ext) ]

\* every resolved entry has the type and content that was written under that name
EntriesAreWritten(t) ==
    \A i \in DOMAIN t.pk.es :
        LET e == t.pk.es[i] IN e.rt # 0 /\ \E w \in Rng(t.written) : w[1] = e.id /\ w[2] = e.rt
AllWrittenPresent(t) == { w[1] : w \in Rng(t.written) } = { t.pk.es[i].id : i \in DOMAIN t.pk.es }

RECURSIVE ReadClauses(_, _)
ReadClauses(t, i) ==
    IF i > Len(t.reads) THEN <<>>
    ELSE LET r == t.reads[i] IN
         If(r.ok /\ ReadBackOK(Rng(t.written), r.items), "Read:" \o r.name) \o ReadClauses(t, i + 1)

\* an entry listing of the implementation (sorted_entries, index iterentries) is the pack's own truth
ListingOK(t, r) ==
    LET got == { <<x[1], x[2]>> : x \in Rng(r.items) }
        all == { <<t.pk.es[j].id, t.pk.es[j].off>> : j \in DOMAIN t.pk.es } IN
    /\ r.ok
    /\ IF r.full THEN got = all     \* a listing of everything
       ELSE got \subseteq all /\ { x[1] : x \in got } = { x[1] : x \in all }   \* one lookup per name
    /\ \A x \in Rng(r.items) : x[3] = <<-1, -1>> \/
          \E j \in DOMAIN t.pk.es : t.pk.es[j].off = x[2] /\ t.pk.es[j].crc = x[3]
RECURSIVE ListClauses(_, _)
ListClauses(t, i) ==
    IF i > Len(t.entries) THEN <<>>
    ELSE If(ListingOK(t, t.entries[i]), "Entries:" \o t.entries[i].name) \o ListClauses(t, i + 1)

Layout(t) ==
    LET pk == Pk(t) IN
       PackLayout(pk)
    \o If(IterCovers(pk), "IterCovers")
    \o If(EntriesAreWritten(t), "EntryContent")
    \o If(AllWrittenPresent(t), "ObjectSet")
    \o (IF t.hasix THEN IdxLayout(t.ix) \o IdxMatchesPack(t.ix, pk) \o If(NamesDistinct(t.ix), "IdxNamesDistinct")
        ELSE <<>>)

Judge(t) ==
    LET lay == Layout(t)
        rd == ReadClauses(t, 1) \o ListClauses(t, 1)
        d == MaxDepth(Pk(t)) IN
    IF t.kind = "git"
    THEN << rd, <<>>, lay \o If(t.depthcap < 0 \/ d <= t.depthcap, "DepthCap"), d >>
    ELSE << lay \o rd, IF t.wr THEN WriterRule(Pk(t)) ELSE <<>>, <<>>, d >>

TraceInit == tid \in 1..Len(Traces) /\ ph = 0
TraceNext ==
    /\ ph = 0
    /\ ph' = 1
    /\ PrintT(<<"VERDICT", Traces[tid].tid>> \o Judge(Traces[tid]))
    /\ UNCHANGED tid
TraceSpec == TraceInit /\ [][TraceNext]_tvars
=============================================================================

SPECIFICATION StepSpec
CONSTANTS
  Names <- NamesR
  Values = {"v1", "v2"}
  MaxDepth = 5
  LooseFirst = TRUE
INVARIANT RefusedUnchanged
INVARIANT DoneApplied
CHECK_DEADLOCK FALSE

SPECIFICATION TraceSpec
CONSTANTS
  Names <- TraceNames
  Values <- TraceValues
  MaxDepth = 5
  Defects <- NoDefects
CHECK_DEADLOCK FALSE

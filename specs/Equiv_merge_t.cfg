SPECIFICATION Spec
CONSTANTS
  Fam = "merge"
  MaxLen = 3
  Sel <- MergeCellsQ
INVARIANT Lemmas
INVARIANT InModel
CHECK_DEADLOCK FALSE

SPECIFICATION Spec
CONSTANTS
  Fam = "merge"
  MaxLen = 3
  Sel <- MergeCellsT
INVARIANT Lemmas
INVARIANT InModel
CHECK_DEADLOCK FALSE

----------------------------- MODULE GraphCases -----------------------------
(***************************************************************************)
(* TLC as the enumerator of C13 cases (spec -> code direction).            *)
(*                                                                         *)
(* Level 1 states: every canonical DAG on N commits (commit i has parents  *)
(* only among 1..i-1: 2^(N(N-1)/2) graphs, every DAG up to isomorphism is  *)
(* among them) together with the table of graph-theoretic answers to every *)
(* question that can be asked about it (Graph.tla part 1).                 *)
(* Level 2 states: that DAG x every weak order of the N timestamps with at *)
(* most L distinct values (ties included; 75 for N=4, 541 for N=5), or --  *)
(* K > 0 -- K pseudo-randomly chosen ones per DAG, together with the       *)
(* clock facts the walk clauses are conditional on.                        *)
(*                                                                         *)
(* The harness reads the state dump, builds every (DAG, timestamps) as a   *)
(* real repository, asks the real dulwich functions every question and     *)
(* compares with the table.  Sets are emitted as bit masks (commit c is    *)
(* bit 2^(c-1)) so that 10^5..10^6 states can be read back quickly.        *)
(***************************************************************************)
EXTENDS Graph, SequencesExt

CONSTANTS N,      \* commits
          L,      \* at most L distinct timestamp values
          K,      \* 0: all weak orders; > 0: K sampled weak orders per DAG
          Seed

VARIABLES lvl, par, ts, ans
vars == <<lvl, par, ts, ans>>

C == 1..N
M == 2^N - 1                                         \* non-empty subsets as masks 1..M

RECURSIVE MaskUpTo(_, _)
MaskUpTo(S, k) == IF k = 0 THEN 0 ELSE MaskUpTo(S, k - 1) + (IF k \in S THEN 2^(k - 1) ELSE 0)
Mask(S) == MaskUpTo(S, N)
Sub(m)  == {c \in C : (m \div 2^(c - 1)) % 2 = 1}

RECURSIVE Dags(_)
Dags(k) == IF k = 0 THEN {<<>>}
           ELSE {Append(d, P) : d \in Dags(k - 1), P \in SUBSET (1..(k - 1))}

\* position of the DAG in the enumeration (commit i contributes (i-1) bits)
RECURSIVE DagCode(_, _)
DagCode(p, k) == IF k <= 1 THEN 0
                 ELSE DagCode(p, k - 1) + MaskUpTo(p[k], k - 1) * 2^(((k - 1) * (k - 2)) \div 2)

WeakOrders == {t \in [C -> 1..L] : \E k \in 1..L : {t[i] : i \in C} = 1..k}
WOSeq == SetToSeq(WeakOrders)
TsChoices(code) ==
    IF K = 0 THEN WeakOrders
    ELSE {WOSeq[((code * 7919 + k * 104729 + Seed) % Len(WOSeq)) + 1] : k \in 1..K}

(* Level-1 table, in this order:                                            *)
(*   anc[c]          c = 1..N        ancestors-or-self of c                 *)
(*   mb[a][m]        a = 1..N, m = 1..M   MergeBases(a, Sub(m))             *)
(*   oct[m]          m = 1..M        OctopusBases(Sub(m))                   *)
(*   ind[m]          m = 1..M        Independent(Sub(m))                    *)
(*   reach[m]        m = 1..M        Reach(Sub(m))                          *)
(*   cover...        every non-empty down-closed set of commits (a possible *)
(*                   extent of a commit-graph file, complete or stale), in  *)
(*                   increasing mask order; the answers above must be given *)
(*                   whichever of them the repository's commit-graph covers *)
Covers(p) == {m \in 1..M : DownClosed(p, Sub(m))}
RECURSIVE Asc(_)
Asc(S) == IF S = {} THEN <<>>
          ELSE LET m == CHOOSE x \in S : \A y \in S : x <= y IN <<m>> \o Asc(S \ {m})
GraphAnswers(p) ==
    LET A == Anc(p) IN
       [c \in C |-> Mask(A[c])]
    \o [k \in 1..(N * M) |-> Mask(MergeBases(A, ((k - 1) \div M) + 1, Sub(((k - 1) % M) + 1)))]
    \o [m \in 1..M |-> Mask(OctopusBases(A, Sub(m)))]
    \o [m \in 1..M |-> Mask(Independent(A, Sub(m)))]
    \o [m \in 1..M |-> Mask(Reach(A, Sub(m)))]
    \o Asc(Covers(p))

(* Level-2 table: commits all of whose parent edges are (strictly) monotone *)
ClockAnswers(p, t) ==
    << Mask({c \in C : \A q \in p[c] : t[q] <= t[c]}),
       Mask({c \in C : \A q \in p[c] : t[q] <  t[c]}) >>

\* level 0 only exists so that the tables are computed by all TLC workers (initial states
\* are computed by one thread)
Init == /\ lvl = 0
        /\ par \in Dags(N)
        /\ ts = <<>>
        /\ ans = <<>>

Tabulate == /\ lvl = 0
            /\ lvl' = 1
            /\ ans' = GraphAnswers(par)
            /\ UNCHANGED <<par, ts>>

Clock == /\ lvl = 1
         /\ lvl' = 2
         /\ par' = par
         /\ ts' \in TsChoices(DagCode(par, N))
         /\ ans' = ClockAnswers(par, ts')

Next == Tabulate \/ Clock

Spec == Init /\ [][Next]_vars

\* sanity of the definitions themselves (checked on every enumerated DAG)
DefsOK ==
    lvl = 1 =>
      LET A == Anc(par) IN
      /\ \A a, b \in C : IsAncestor(A, a, b) <=> MergeBases(A, a, {b}) = {a}
      /\ \A a, b \in C : MergeBases(A, a, {b}) = MergeBases(A, b, {a})
      /\ \A a, b \in C : MergeBases(A, a, {b}) = OctopusBases(A, {a, b})
      /\ \A a \in C : \A p \in par[a] : IsAncestor(A, p, a) /\ ~ IsAncestor(A, a, p)
      /\ \A m \in 1..M : Independent(A, Sub(m)) # {} /\ Reach(A, Independent(A, Sub(m))) = Reach(A, Sub(m))
      /\ LET G == Gen(par) IN
           \A m \in Covers(par) : SeenThrough(par, Sub(m)) = par /\ GenerationCutoffSound(G, A, Sub(m))
      /\ \A m \in 1..M : Mask(Reach(A, Sub(m))) \in Covers(par)
=============================================================================

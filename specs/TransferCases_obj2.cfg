\* example: the cases of the obj2 space that the quick tier replays (1 in 47; run with -dump <file>)
SPECIFICATION CasesSpec
CONSTANTS
  NC = 2
  NTP = 4
  NT = 1
  MaxHeads = 2
  MaxWants = 2
  Modes = {"detailed"}
  IncTag = {FALSE, TRUE}
  Thin = {TRUE}
  SFull = {FALSE}
  Forge = FALSE
  MaxInVain = 2
  AtomicNeg = TRUE
  PopAny = FALSE
  MaxDangle = 0
  Bug = "none"
  SampleMod = 47
  SampleSeed = 0
CHECK_DEADLOCK FALSE

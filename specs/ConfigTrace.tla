----------------------------- MODULE ConfigTrace -----------------------------
(***************************************************************************)
(* Batch validation of recorded executions of the real dulwich and the     *)
(* real git against Config.tla (code -> spec).                             *)
(*                                                                         *)
(* One ndjson line per execution:                                          *)
(*   tid    trace id                                                       *)
(*   cfg    the configuration that was stored (sections with items)        *)
(*   dw     bytes ConfigFile.write_to_file produced                        *)
(*   dr     what ConfigFile.from_file read from dw        [ok, cfg]        *)
(*   gr     what `git config --file --list -z` read from dw  [ok, ents]    *)
(*   hasgw  git was also asked to write cfg (git config --file F --add)    *)
(*   gw, dg, gg   git's bytes, dulwich's and git's reading of them         *)
(* git entries are [k, hv, v] with k the full variable name git prints.    *)
(*                                                                         *)
(* The verdict has three parts:                                            *)
(*   prop   the first clause of C20 that the *observed* results violate    *)
(*          ("ok" if none) -- a property verdict about the real code       *)
(*   model  the same clauses evaluated on Config.tla's own writer/readers  *)
(*          (what the specification of the code predicts for this input)   *)
(*   drift  which observed bytes / readings differ from what Config.tla    *)
(*          computes for the same input (shape, not property)              *)
(***************************************************************************)
EXTENDS Config, IOUtils

Traces == ndJsonDeserialize(IOEnv.TRACE_FILE)

KV(ents) == [i \in 1..Len(ents) |-> [k |-> FullKey(ents[i]), hv |-> ents[i].hv, v |-> ents[i].v]]
KeysKV(kv) == {kv[i].k : i \in 1..Len(kv)}
ValsKV(kv, key) == LET s == SelectSeq(kv, LAMBDA e : e.k = key) IN [i \in 1..Len(s) |-> <<s[i].hv, s[i].v>>]
SameKV(a, b) == \A key \in KeysKV(a) \cup KeysKV(b) : ValsKV(a, key) = ValsKV(b, key)

\* ---------------------------------------------------------------- C20 on what was observed
ObsRoundTrip(t) == t.dr.ok /\ Norm(t.dr.cfg) = Norm(t.cfg)
ObsInteropDG(t) == t.gr.ok /\ SameKV(t.gr.ents, KV(Flat(t.cfg)))
ObsInteropGD(t) == t.hasgw =>
                   /\ t.dg.ok
                   /\ \/ SameKV(KV(Flat(t.dg.cfg)), KV(Flat(t.cfg)))
                      \/ t.gg.ok /\ SameKV(KV(Flat(t.dg.cfg)), t.gg.ents)
Prop(t) == IF ~ObsRoundTrip(t) THEN "RoundTrip"
           ELSE IF ~ObsInteropDG(t) THEN "InteropDG"
           ELSE IF ~ObsInteropGD(t) THEN "InteropGD"
           ELSE "ok"
AllProps(t) == <<ObsRoundTrip(t), ObsInteropDG(t), ObsInteropGD(t)>>

\* ---------------------------------------------------------------- what the specification predicts
Model(t) == <<RoundTrip(t.cfg), InteropDG(t.cfg), t.hasgw => InteropGD(t.cfg)>>

\* ---------------------------------------------------------------- conformance of the observations
SameDul(m, o) == m.ok = o.ok /\ (m.ok => m.cfg = o.cfg)
SameGit(m, o) == m.ok = o.ok /\ (m.ok => KV(m.ents) = o.ents)
Drift(t) ==
    LET a == IF DulWrite(t.cfg) = t.dw THEN <<>> ELSE <<"DulWrite">>
        b == IF SameDul(DulRead(t.dw), t.dr) THEN <<>> ELSE <<"DulRead">>
        c == IF SameGit(GitRead(t.dw), t.gr) THEN <<>> ELSE <<"GitRead">>
        d == IF ~t.hasgw \/ ~t.fresh \/ GitWrite(t.cfg) = t.gw THEN <<>> ELSE <<"GitWrite">>
        e == IF ~t.hasgw \/ SameDul(DulRead(t.gw), t.dg) THEN <<>> ELSE <<"DulRead(git)">>
        f == IF ~t.hasgw \/ SameGit(GitRead(t.gw), t.gg) THEN <<>> ELSE <<"GitRead(git)">>
    IN  a \o b \o c \o d \o e \o f

Judge(t) == ToJson([tid |-> t.tid, prop |-> Prop(t), obs |-> AllProps(t), model |-> Model(t), drift |-> Drift(t)])

\* two levels so that the traces of different groups are judged by different workers
GroupSize == 50
NGroups == (Len(Traces) + GroupSize - 1) \div GroupSize
VARIABLES grp, tid, j
tvars == <<grp, tid, j>>
TraceInit == grp \in 1..NGroups /\ tid = 0 /\ j = ""
TraceNext == /\ tid = 0
             /\ tid' \in ((grp - 1) * GroupSize + 1)..(IF grp * GroupSize < Len(Traces) THEN grp * GroupSize ELSE Len(Traces))
             /\ j' = Judge(Traces[tid'])
             /\ UNCHANGED grp
TraceSpec == TraceInit /\ [][TraceNext]_tvars
=============================================================================

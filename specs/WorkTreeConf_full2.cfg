\* WorkTreeConf, repaired variant; the check generates the same configuration with the variant
\* (FixDelete / FixPatch) that the code under test implements and dumps the state graph for replay.
SPECIFICATION Spec
CONSTANTS
  TreeSet <- TreesFull
  Ops <- OpsNoClone
  MaxLen = 2
  Prots <- ProtsDefault
  FixDelete = TRUE
  FixPatch = TRUE
  CacheTrunc = TRUE
INVARIANT TypeOK
INVARIANT Confined
INVARIANT UnsafeRefused
CONSTRAINT Modelled
CHECK_DEADLOCK FALSE

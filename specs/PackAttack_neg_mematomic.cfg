SPECIFICATION Spec
CONSTANTS
  MinN = 2
  MaxN = 2
  AttrMode = 0
  Modes = {3, 4}
  CycleGuard = TRUE
  MemAtomic = FALSE
  DiskVerify = TRUE
  Emit = FALSE
INVARIANT Terminates
INVARIANT ErrorOrAll
INVARIANT FailedInvisible
INVARIANT TrailerChecked
INVARIANT ValidAccepted
CHECK_DEADLOCK FALSE

SPECIFICATION Spec
CONSTANTS
  N = 5
  Refs = {"a", "b"}
  MaxDepth = 0
  MaxPacks = 3
  WithCopies = TRUE
  WithIdx = FALSE
  MidxChecksPack = TRUE
  CgChecksStore = TRUE
  CgWriterCloses = TRUE
  BitmapChecksum = TRUE
  BitmapClosedPack = TRUE
  BitmapExcludeExact = TRUE
  ProvidersAgree = TRUE
  DeleteDropsPacked = TRUE
INVARIANT TypeOK
INVARIANT Transparent

INVARIANT RefsTransparent
INVARIANT StaleRejected

CHECK_DEADLOCK FALSE

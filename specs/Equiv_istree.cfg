SPECIFICATION Spec
CONSTANTS
  Fam = "istree"
  MaxLen = 0
  Sel = {}
INVARIANT Lemmas
INVARIANT InModel
CHECK_DEADLOCK FALSE

------------------------------ MODULE LockFile ------------------------------
(***************************************************************************)
(* The git lock-file protocol as dulwich/file.py:_GitFile implements it,   *)
(* one action per system call / file-object call.                          *)
(*                                                                         *)
(*   GitFile(p,'wb')  = os.open(p.lock, O_CREAT|O_EXCL) ; os.fdopen        *)
(*   f.write(chunk)   = BufferedWriter.write (buffered or written through) *)
(*   f.close()        = flush ; fsync ; file.close ; os.replace(p.lock, p) *)
(*                      ; finally: abort()                                 *)
(*   f.abort()        = file.close (flushes!) ; os.remove(p.lock)          *)
(*                                                                         *)
(* One protected path.  A file is a record [w, n]: w = whose bytes it      *)
(* holds (Old = the content that existed before, None = no file), n = how  *)
(* many chunks have reached the kernel.  An actor's content is complete    *)
(* iff n = of[a], the number of chunks it intends to write.  A handle      *)
(* refers to an inode, not to a path: loc[a] says where a's inode is       *)
(* linked now ("lock", "target", "orphan").                                *)
(***************************************************************************)
EXTENDS Naturals, FiniteSets, Sequences, TLC

CONSTANTS Actors,               \* e.g. {0, 1, 2}
          MaxWrites,            \* every operation writes 1..MaxWrites chunks
          MaxFaults,            \* number of injected failures (ENOSPC, EIO, EPERM, KeyboardInterrupt)
          CleanupAfterReplace,  \* TRUE: close() still runs abort()'s os.remove after a successful
                                \*       os.replace (file.py before the fix); FALSE: it does not
          CloseOnError          \* TRUE: a caller reacts to a failed write() by calling close()
                                \*       (index.py:Index.write before the fix); FALSE: abort()

None == 0 - 1      \* integers, so that they compare with actor ids
Old  == 0 - 2
NoFile == [w |-> None, n |-> 0]

VARIABLES lck,      \* file linked at <path>.lock
          tgt,      \* file linked at <path>
          pc,       \* per actor: control state
          of,       \* per actor: chunks it intends to write
          wr,       \* per actor: chunks handed to write() so far
          buf,      \* per actor: chunks sitting in the user-space buffer
          loc,      \* per actor: where its inode is linked
          out,      \* per actor: outcome of the operation
          holder,   \* ghost: actors that currently believe they hold the lock
          faults,   \* injected failures so far
          last      \* [a, op, ok]: the step just taken (binding + action properties)

vars == <<lck, tgt, pc, of, wr, buf, loc, out, holder, faults, last>>

Complete(f) == f.w = Old \/ (f.w \in Actors /\ f.n = of[f.w])

\* ---------------------------------------------------------------- file-system effects
\* a's buffered chunks reach a's inode, wherever it is linked now
Reach(a, k) ==
    /\ lck' = IF loc[a] = "lock"   /\ lck.w = a THEN [lck EXCEPT !.n = @ + k] ELSE lck
    /\ tgt' = IF loc[a] = "target" /\ tgt.w = a THEN [tgt EXCEPT !.n = @ + k] ELSE tgt

\* os.remove(<path>.lock): unlinks whatever is linked there
UnlinkLock ==
    /\ lck' = NoFile
    /\ loc' = [b \in Actors |-> IF lck.w = b /\ loc[b] = "lock" THEN "orphan" ELSE loc[b]]
    /\ UNCHANGED tgt

\* os.replace(<path>.lock, <path>): moves whatever is linked at the lock path
RenameLock ==
    /\ lck.w # None
    /\ tgt' = lck
    /\ lck' = NoFile
    /\ loc' = [b \in Actors |-> IF lck.w = b /\ loc[b] = "lock" THEN "target"
                                ELSE IF tgt.w = b /\ loc[b] = "target" THEN "orphan" ELSE loc[b]]

Step(a, op, ok) == last' = [a |-> a, op |-> op, ok |-> ok]
CanFail == faults < MaxFaults
Fail == faults' = faults + 1

\* ---------------------------------------------------------------- the protocol
Init ==
    /\ lck = NoFile
    /\ tgt = [w |-> Old, n |-> 0]
    /\ pc = [a \in Actors |-> "start"]
    /\ of = [a \in Actors |-> 0]
    /\ wr = [a \in Actors |-> 0]
    /\ buf = [a \in Actors |-> 0]
    /\ loc = [a \in Actors |-> "none"]
    /\ out = [a \in Actors |-> "none"]
    /\ holder = {}
    /\ faults = 0
    /\ last = [a |-> None, op |-> "init", ok |-> TRUE]

OpenExclOk(a, k) ==
    /\ pc[a] = "start" /\ lck.w = None
    /\ lck' = [w |-> a, n |-> 0]
    /\ loc' = [loc EXCEPT ![a] = "lock"]
    /\ of' = [of EXCEPT ![a] = k]
    /\ pc' = [pc EXCEPT ![a] = "open"]
    /\ holder' = holder \cup {a}
    /\ Step(a, "open_excl", TRUE)
    /\ UNCHANGED <<tgt, wr, buf, out, faults>>

OpenExclFail(a) ==                         \* EEXIST -> FileLocked
    /\ pc[a] = "start" /\ lck.w # None
    /\ pc' = [pc EXCEPT ![a] = "ret"]
    /\ out' = [out EXCEPT ![a] = "locked"]
    /\ Step(a, "open_excl", FALSE)
    /\ UNCHANGED <<lck, tgt, of, wr, buf, loc, holder, faults>>

WriteBuffered(a) ==
    /\ pc[a] = "open" /\ wr[a] < of[a]
    /\ wr' = [wr EXCEPT ![a] = @ + 1]
    /\ buf' = [buf EXCEPT ![a] = @ + 1]
    /\ Step(a, "fwrite", TRUE)
    /\ UNCHANGED <<lck, tgt, pc, of, loc, out, holder, faults>>

WriteThrough(a) ==                         \* chunk larger than the buffer: everything reaches the kernel
    /\ pc[a] = "open" /\ wr[a] < of[a]
    /\ wr' = [wr EXCEPT ![a] = @ + 1]
    /\ Reach(a, buf[a] + 1)
    /\ buf' = [buf EXCEPT ![a] = 0]
    /\ Step(a, "fwrite", TRUE)
    /\ UNCHANGED <<pc, of, loc, out, holder, faults>>

\* write() raises.  The caller either aborts (with-statement, try/except abort) or --
\* CloseOnError -- commits what there is.
WriteFail(a) ==
    /\ pc[a] = "open" /\ wr[a] < of[a] /\ CanFail /\ Fail
    /\ pc' = [pc EXCEPT ![a] = IF CloseOnError THEN "closing" ELSE "aborting"]
    /\ out' = [out EXCEPT ![a] = "failed"]
    /\ Step(a, "fwrite", FALSE)
    /\ UNCHANGED <<lck, tgt, of, wr, buf, loc, holder>>

\* the caller has written everything and chooses close() or abort()
Flush(a) ==
    /\ \/ pc[a] = "open" /\ wr[a] = of[a]
       \/ pc[a] = "closing"
    /\ Reach(a, buf[a])
    /\ buf' = [buf EXCEPT ![a] = 0]
    /\ pc' = [pc EXCEPT ![a] = "c_flushed"]
    /\ Step(a, "fflush", TRUE)
    /\ UNCHANGED <<of, wr, loc, out, holder, faults>>

FlushFail(a) ==                            \* close() raises before the rename; its finally
    /\ \/ pc[a] = "open" /\ wr[a] = of[a]  \* clause runs abort()
       \/ pc[a] = "closing"
    /\ CanFail /\ Fail
    /\ pc' = [pc EXCEPT ![a] = "aborting"]
    /\ out' = [out EXCEPT ![a] = "failed"]
    /\ Step(a, "fflush", FALSE)
    /\ UNCHANGED <<lck, tgt, of, wr, buf, loc, holder>>

Fsync(a) ==
    /\ pc[a] = "c_flushed"
    /\ pc' = [pc EXCEPT ![a] = "c_synced"]
    /\ Step(a, "fsync", TRUE)
    /\ UNCHANGED <<lck, tgt, of, wr, buf, loc, out, holder, faults>>

FsyncFail(a) ==
    /\ pc[a] = "c_flushed" /\ CanFail /\ Fail
    /\ pc' = [pc EXCEPT ![a] = "aborting"]
    /\ out' = [out EXCEPT ![a] = "failed"]
    /\ Step(a, "fsync", FALSE)
    /\ UNCHANGED <<lck, tgt, of, wr, buf, loc, holder>>

CloseFd(a) ==                              \* fsync is optional (GitFile(fsync=False))
    /\ pc[a] \in {"c_flushed", "c_synced"}
    /\ pc' = [pc EXCEPT ![a] = "c_closed"]
    /\ Step(a, "fclose", TRUE)
    /\ UNCHANGED <<lck, tgt, of, wr, buf, loc, out, holder, faults>>

CloseFdFail(a) ==                          \* close() raises before the rename; finally: abort()
    /\ pc[a] \in {"c_flushed", "c_synced"} /\ CanFail /\ Fail
    /\ pc' = [pc EXCEPT ![a] = "aborting"]
    /\ out' = [out EXCEPT ![a] = "failed"]
    /\ Step(a, "fclose", FALSE)
    /\ UNCHANGED <<lck, tgt, of, wr, buf, loc, holder>>

Replace(a) ==
    /\ pc[a] = "c_closed"
    /\ RenameLock
    /\ holder' = holder \ {a}
    /\ pc' = [pc EXCEPT ![a] = IF CleanupAfterReplace THEN "c_cleanup" ELSE "ret"]
    /\ out' = [out EXCEPT ![a] = IF @ = "none" THEN "ok" ELSE @]
    /\ Step(a, "replace", TRUE)
    /\ UNCHANGED <<of, wr, buf, faults>>

ReplaceEnoent(a) ==                        \* somebody removed the lock file under us
    /\ pc[a] = "c_closed" /\ lck.w = None
    /\ pc' = [pc EXCEPT ![a] = "c_cleanup"]
    /\ out' = [out EXCEPT ![a] = "failed"]
    /\ Step(a, "replace", FALSE)
    /\ UNCHANGED <<lck, tgt, of, wr, buf, loc, holder, faults>>

ReplaceFail(a) ==                          \* injected EPERM/EIO
    /\ pc[a] = "c_closed" /\ CanFail /\ Fail
    /\ pc' = [pc EXCEPT ![a] = "c_cleanup"]
    /\ out' = [out EXCEPT ![a] = "failed"]
    /\ Step(a, "replace", FALSE)
    /\ UNCHANGED <<lck, tgt, of, wr, buf, loc, holder>>

\* finally: abort()  ->  os.remove(<path>.lock), FileNotFoundError tolerated
Cleanup(a) ==
    /\ pc[a] = "c_cleanup"
    /\ UnlinkLock
    /\ holder' = holder \ {a}
    /\ pc' = [pc EXCEPT ![a] = "ret"]
    /\ Step(a, "unlink", lck.w # None)
    /\ UNCHANGED <<of, wr, buf, out, faults>>

\* abort(): file.close() flushes the buffer, then os.remove
AbortCloseFd(a) ==                         \* a caller may abort at any time while it holds the handle
    /\ pc[a] \in {"open", "aborting"}
    /\ Reach(a, buf[a])
    /\ buf' = [buf EXCEPT ![a] = 0]
    /\ pc' = [pc EXCEPT ![a] = "x_closed"]
    /\ out' = [out EXCEPT ![a] = IF @ = "none" THEN "aborted" ELSE @]
    /\ Step(a, "fclose", TRUE)
    /\ UNCHANGED <<of, wr, loc, holder, faults>>

AbortUnlink(a) ==
    /\ pc[a] = "x_closed"
    /\ UnlinkLock
    /\ holder' = holder \ {a}
    /\ pc' = [pc EXCEPT ![a] = "ret"]
    /\ Step(a, "unlink", lck.w # None)
    /\ UNCHANGED <<of, wr, buf, out, faults>>

\* abort(): closing the underlying file fails (buffered data cannot be flushed); the lock
\* file is removed all the same (finally).  A failing os.remove itself is not modelled: no
\* implementation can release a lock it is not allowed to unlink.
AbortCloseFdFail(a) ==
    /\ pc[a] \in {"open", "aborting"} /\ CanFail /\ Fail
    /\ pc' = [pc EXCEPT ![a] = "x_closed"]
    /\ out' = [out EXCEPT ![a] = "failed"]
    /\ Step(a, "fclose", FALSE)
    /\ UNCHANGED <<lck, tgt, of, wr, buf, loc, holder>>

Return(a) ==
    /\ pc[a] = "ret"
    /\ pc' = [pc EXCEPT ![a] = "done"]
    /\ Step(a, "ret", out[a] \in {"ok", "aborted", "locked"})
    /\ UNCHANGED <<lck, tgt, of, wr, buf, loc, out, holder, faults>>

ActorNext(a) ==
    \/ \E k \in 1..MaxWrites : OpenExclOk(a, k)
    \/ OpenExclFail(a)
    \/ WriteBuffered(a) \/ WriteThrough(a) \/ WriteFail(a)
    \/ Flush(a) \/ FlushFail(a) \/ Fsync(a) \/ FsyncFail(a) \/ CloseFd(a)
    \/ Replace(a) \/ ReplaceEnoent(a) \/ ReplaceFail(a) \/ Cleanup(a)
    \/ AbortCloseFd(a) \/ AbortUnlink(a) \/ Return(a)
    \/ CloseFdFail(a) \/ AbortCloseFdFail(a)

Next == \E a \in Actors : ActorNext(a)

Spec == Init /\ [][Next]_vars
FairSpec == Spec /\ \A a \in Actors : WF_vars(ActorNext(a))

\* ---------------------------------------------------------------- properties (C07)
TypeOK ==
    /\ lck.w \in Actors \cup {None} /\ lck.n \in 0..MaxWrites
    /\ tgt.w \in Actors \cup {Old}  /\ tgt.n \in 0..MaxWrites
    /\ holder \subseteq Actors

\* no two writers hold the lock at once
Mutex == Cardinality(holder) <= 1

\* committing or releasing never disturbs a lock taken by someone else
ForeignRelease == lck.w # None /\ lck'.w # lck.w /\ last'.a # lck.w
NoForeignRelease == [][~ForeignRelease]_vars

\* the protected file only ever holds the complete old or a complete new content
AtomicReplace == Complete(tgt)

\* a write that failed or was aborted leaves the old content in place ...
FailedKeepsOld == \A a \in Actors : out[a] \in {"failed", "aborted", "locked"} => tgt.w # a

\* ... and the lock released
ReleasedAtExit == \A a \in Actors : pc[a] = "done" => (lck.w # a /\ a \notin holder)

\* a caller that was told "ok" really replaced the file at that moment
OkMeansReplaced == \A a \in Actors : (pc[a] = "done" /\ out[a] = "ok") => loc[a] \in {"target", "orphan"}

\* every started operation terminates and the lock ends up free (checked under FairSpec)
Terminates == <>(\A a \in Actors : pc[a] = "done")
LockFreeAtEnd == <>[](lck.w = None)

View == <<lck, tgt, pc, of, wr, buf, loc, out, holder, faults>>
=============================================================================

----------------------------- MODULE PackFmtIdx -----------------------------
(***************************************************************************)
(* Pack index layout on synthetic entry tables (no pack data needed):      *)
(* every initial state is one table of up to MaxN entries -- first name    *)
(* bytes from the fan-out boundary set, offsets from the 31/32-bit         *)
(* boundary set -- for one index version and one hash length, together     *)
(* with what IdxLayout says a writer has to lay out (or that it has to     *)
(* refuse).  The invariant is the model-level lemma: an index laid out as  *)
(* the writer side prescribes satisfies every clause of the reader side    *)
(* and every entry's offset is found again through the 31-bit field or the *)
(* MSB indirection into the 64-bit table.                                  *)
(* Replay: write_pack_index_v1/v2/v3 are called with the same table (names *)
(* synthesised from the first bytes), the bytes are parsed independently   *)
(* and compared with the expected tables; PackIndex1/2/3 read them back.   *)
(***************************************************************************)
EXTENDS PackFmt

CONSTANTS MaxN,
          LargeMsbOnly   \* defect model: >= 2^31 offsets written in place (no 64-bit table)

VARIABLES firsts, offs, v, oid, refuse, o32, o64, len, fansteps
vars == <<firsts, offs, v, oid, refuse, o32, o64, len, fansteps>>

\* tables of three entries: fewer first bytes (the product with 7^3 offset tables stays enumerable in minutes)
FirstBytes == IF MaxN >= 3 THEN {0, 1, 255} ELSE {0, 1, 127, 128, 254, 255}
OffSet == { N(12), <<1, B - 1>>, <<2, 0>>, <<2, 1>>, <<3, B - 1>>, <<4, 0>>, <<1024, 0>> }

RECURSIVE NonDecr(_)
NonDecr(n) ==
    IF n = 0 THEN { <<>> }
    ELSE { Append(s, b) : s \in NonDecr(n - 1), b \in FirstBytes } 
Sortedness(s) == \A i \in 1..(Len(s) - 1) : s[i] <= s[i + 1]
RECURSIVE OffSeqs(_)
OffSeqs(n) == IF n = 0 THEN { <<>> } ELSE { Append(s, o) : s \in OffSeqs(n - 1), o \in OffSet }

Es(f, o) == [ i \in DOMAIN f |-> [first |-> f[i], off |-> o[i]] ]

RECURSIVE Flat(_)
Flat(s) == IF s = <<>> THEN <<>> ELSE s[1] \o Flat(Tail(s))

\* the fan-out table as its steps: <<byte, cumulative count, ...>> at every byte where the count changes
RECURSIVE Steps(_, _, _)
Steps(fan, b, prev) ==
    IF b > 255 THEN <<>>
    ELSE IF fan[b + 1] # prev THEN <<b, fan[b + 1]>> \o Steps(fan, b + 1, fan[b + 1])
    ELSE Steps(fan, b + 1, prev)

PlainO32(es) == [ i \in DOMAIN es |-> IF LLess(es[i].off, <<2, 0>>) THEN <<0, LInt(es[i].off)>> ELSE <<1, 0>> ]

Init ==
    /\ \E n \in 0..MaxN : firsts \in { s \in NonDecr(n) : Sortedness(s) } /\ offs \in OffSeqs(n)
    /\ v \in {1, 2, 3}
    /\ oid \in {20, 32}
    /\ LET es == Es(firsts, offs) IN
       /\ refuse = IdxRefuses(es, v, oid)
       /\ o32 = IF refuse THEN <<>> ELSE IF LargeMsbOnly /\ v # 1 THEN PlainO32(es) ELSE ExpectedO32(es, v)
       /\ o64 = IF refuse \/ LargeMsbOnly THEN <<>> ELSE ExpectedO64(es, v)
       /\ len = IF refuse THEN 0 ELSE ExpectedIdxLen(es, v, oid)
       /\ fansteps = Steps(ExpectedFan(es), 0, 0)
Next == UNCHANGED vars
Spec == Init /\ [][Next]_vars

Ix == [ v |-> v, oidlen |-> oid, len |-> N(len), fan |-> ExpectedFan(Es(firsts, offs)), first |-> firsts,
        names |-> [ i \in DOMAIN firsts |-> i ], ids |-> [ i \in DOMAIN firsts |-> i ],
        crcs |-> [ i \in DOMAIN firsts |-> <<0, i>> ], o32 |-> o32, o64 |-> o64,
        packsum |-> TRUE, idxsum |-> TRUE, hdr |-> IF v = 3 THEN <<1, 20>> ELSE <<>> ]

LemmaOn(ix) ==
    /\ IdxLayout(ix) = <<>>
    /\ \A i \in DOMAIN firsts : IdxOffset(ix, i) = offs[i]
Lemma == ~refuse => LemmaOn(Ix)
=============================================================================

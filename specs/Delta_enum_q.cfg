SPECIFICATION Spec
CONSTANTS
  MaxLen = 5
  BaseSel = {1, 2, 3}
  PruneSrc = TRUE
INVARIANT InModel
INVARIANT RefSatisfiesPost
INVARIANT CandLength
CHECK_DEADLOCK FALSE

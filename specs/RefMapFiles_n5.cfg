SPECIFICATION FSpecFast
CONSTANTS
  Names <- Names5
  Values = {"v1", "v2"}
  MaxDepth = 5
  Defects <- NoDefects
INVARIANT TypeOKF
INVARIANT CollisionFree
INVARIANT ObsOK
INVARIANT FsOK
PROPERTY RefinesFast
PROPERTY ContractF
VIEW GraphView
CHECK_DEADLOCK FALSE

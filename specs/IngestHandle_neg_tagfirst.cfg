SPECIFICATION Spec
CONSTANTS
  TagAfterParse = FALSE
  MaxAcc = 5
INVARIANT RepeatContained
INVARIANT NothingLost
CHECK_DEADLOCK FALSE

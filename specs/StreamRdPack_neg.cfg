SPECIFICATION Spec
CONSTANTS
  N = 9
  HS = 3
  MaxOps = 6
  Sizes = {1, 2, 3, 4, 5}
  Gen = FALSE
  HashAfterPop = FALSE
INVARIANT TrailerExact
INVARIANT ByteExact
CHECK_DEADLOCK FALSE

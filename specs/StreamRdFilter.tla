--------------------------- MODULE StreamRdFilter ---------------------------
(***************************************************************************)
(* A consumer of the pkt-line decoder for which an EMPTY data packet       *)
(* ("0004") is a legal element of the sequence it reads: the long-running  *)
(* filter process protocol (filter.<name>.process) as                      *)
(* dulwich/filters.py:ProcessFilterDriver speaks it.                       *)
(*                                                                         *)
(*   handshake : welcome, version, flush; then the capability list, flush  *)
(*   response  : header list, flush; if status=success: content packets,   *)
(*               flush, final header list, flush                           *)
(*                                                                         *)
(* Every list ends at the flush-pkt and only there.  An empty packet       *)
(* inside the content contributes nothing, inside a header or capability   *)
(* list it is a line that says nothing -- in no case is it the end of the  *)
(* list.  The machine reads one packet per step (Protocol.read_pkt_line on *)
(* the process's stdout); the oracle splits the reference decoding of the  *)
(* same bytes at the flush-pkts.  ConsumerExact: the result (content or    *)
(* error, capabilities) is the oracle's and the stream is left exactly     *)
(* behind the response (the next request is in step).                      *)
(***************************************************************************)
EXTENDS Integers, Sequences, FiniteSets, TLC, Json

CONSTANTS Scen,            \* "response" | "handshake"
          MaxChunks,       \* content: up to this many packets
          Gen,
          EmptyIsFlush     \* TRUE: `if not pkt: break` -- an empty packet ends a list (defect model)

P == INSTANCE PktLine WITH Family <- "none", case <- 0, exp <- 0

S == <<115, 116, 97, 116, 117, 115, 61, 115, 117, 99, 99, 101, 115, 115>>      \* status=success
E == <<115, 116, 97, 116, 117, 115, 61, 101, 114, 114, 111, 114>>      \* status=error
X == <<120, 61, 49>>      \* x=1   (a header that says nothing about the status)
CC == <<99, 97, 112, 97, 98, 105, 108, 105, 116, 121, 61, 99, 108, 101, 97, 110>>     \* capability=clean
CM == <<99, 97, 112, 97, 98, 105, 108, 105, 116, 121, 61, 115, 109, 117, 100, 103, 101>>     \* capability=smudge
WEL == <<103, 105, 116, 45, 102, 105, 108, 116, 101, 114, 45, 115, 101, 114, 118, 101, 114>>   \* git-filter-server
VER == <<118, 101, 114, 115, 105, 111, 110, 61, 50>>   \* version=2
Empty == <<>>

HdrLists == {<<S>>, <<Empty, S>>, <<S, Empty>>, <<X, S>>, <<E>>}
Chunks   == {Empty, <<10>>, <<97, 98>>}
FinLists == {<<>>, <<S>>, <<Empty>>, <<E>>, <<Empty, E>>}
CapLists == {<<CC, CM>>, <<CC, Empty, CM>>, <<Empty, CC, CM>>, <<CC, CM, Empty>>}

DataItems(ps) == [i \in 1..Len(ps) |-> P!Data(ps[i])]
In(x, s) == \E i \in 1..Len(s) : s[i] = x

VARIABLES hdr, chunks, fin,    \* the case (handshake: hdr = the capability list)
          bytes,               \* what the process writes
          idx, phase, acc, seen, result,
          want                 \* oracle
vars == <<hdr, chunks, fin, bytes, idx, phase, acc, seen, result, want>>

Items == P!Decode(bytes).items          \* what read_pkt_line returns, packet by packet

\* ---------------------------------------------------------------- oracle: sections between flush-pkts
RECURSIVE Sections(_, _)
Sections(items, cur) ==
    IF items = <<>> THEN (IF cur = <<>> THEN <<>> ELSE <<cur>>)
    ELSE IF Head(items).k = "flush" THEN <<cur>> \o Sections(Tail(items), <<>>)
    ELSE Sections(Tail(items), Append(cur, Head(items).p))
StatusOf(sec, default) == IF In(E, sec) THEN "error" ELSE IF In(S, sec) THEN "success" ELSE default
Oracle ==
    LET secs == Sections(Items, <<>>) IN
    IF Scen = "handshake"
    THEN [st |-> "ok", content |-> <<>>, caps |-> {c \in {CC, CM} : In(c, secs[2])}, used |-> Len(Items)]
    ELSE IF StatusOf(secs[1], "error") # "success"
         THEN [st |-> "err", content |-> <<>>, caps |-> {}, used |-> Len(Items)]
         ELSE [st |-> IF StatusOf(secs[3], "success") = "success" THEN "ok" ELSE "err",
               content |-> P!Concat(secs[2]), caps |-> {}, used |-> Len(Items)]

Init ==
    /\ IF Scen = "handshake"
       THEN /\ hdr \in CapLists /\ chunks = <<>> /\ fin = <<>>
            /\ bytes = P!Encode(<<P!Data(WEL), P!Data(VER), P!Flush>> \o DataItems(hdr) \o <<P!Flush>>)
       ELSE /\ hdr \in HdrLists
            /\ IF In(E, hdr) THEN chunks = <<>> /\ fin = <<>>
               ELSE chunks \in P!SeqsUpTo(Chunks, MaxChunks) /\ fin \in FinLists
            /\ bytes = P!Encode(DataItems(hdr) \o <<P!Flush>> \o
                                (IF In(E, hdr) THEN <<>> ELSE DataItems(chunks) \o <<P!Flush>> \o DataItems(fin) \o <<P!Flush>>))
    /\ idx = 1 /\ acc = <<>> /\ seen = <<>> /\ result = [st |-> "none", content |-> <<>>, caps |-> {}]
    /\ phase = IF Scen = "handshake" THEN "welcome" ELSE "hdr"
    /\ want = Oracle

\* ---------------------------------------------------------------- the consumer (one read_pkt_line per step)
Ends(it) == it.k = "flush" \/ (EmptyIsFlush /\ it.k = "data" /\ it.p = Empty)

Read ==
    /\ phase \notin {"done", "starved"}
    /\ UNCHANGED <<hdr, chunks, fin, bytes, want>>
    /\ IF idx > Len(Items)
       THEN phase' = "starved" /\ UNCHANGED <<idx, acc, seen, result>>        \* waits for a packet that never comes
       ELSE LET it == Items[idx] IN
            /\ idx' = idx + 1
            /\ IF phase = "welcome" THEN                                      \* welcome, version, flush: three reads
                    /\ phase' = (IF idx = 3 THEN "caps" ELSE "welcome") /\ UNCHANGED <<acc, seen, result>>
               ELSE IF phase = "caps" THEN
                    IF Ends(it)
                    THEN /\ phase' = "done" /\ UNCHANGED <<acc, seen>>
                         /\ result' = [st |-> "ok", content |-> <<>>, caps |-> {c \in {CC, CM} : In(c, seen)}]
                    ELSE seen' = Append(seen, it.p) /\ UNCHANGED <<phase, acc, result>>
               ELSE IF phase = "hdr" THEN
                    IF Ends(it)
                    THEN IF StatusOf(seen, "error") = "success"
                         THEN phase' = "content" /\ seen' = <<>> /\ UNCHANGED <<acc, result>>
                         ELSE phase' = "done" /\ result' = [st |-> "err", content |-> <<>>, caps |-> {}] /\ UNCHANGED <<acc, seen>>
                    ELSE seen' = Append(seen, it.p) /\ UNCHANGED <<phase, acc, result>>
               ELSE IF phase = "content" THEN
                    IF Ends(it) THEN phase' = "fin" /\ UNCHANGED <<acc, seen, result>>
                    ELSE acc' = acc \o it.p /\ UNCHANGED <<phase, seen, result>>
               ELSE \* final headers
                    IF Ends(it)
                    THEN /\ phase' = "done" /\ UNCHANGED <<acc, seen>>
                         /\ result' = [st |-> IF StatusOf(seen, "success") = "success" THEN "ok" ELSE "err",
                                       content |-> IF StatusOf(seen, "success") = "success" THEN acc ELSE <<>>, caps |-> {}]
                    ELSE seen' = Append(seen, it.p) /\ UNCHANGED <<phase, acc, result>>

Next == Read
Spec == Init /\ [][Next]_vars

\* ---------------------------------------------------------------- properties
\* the consumer keeps 0000 and 0004 apart: same result as the oracle, stream left right behind the response
ConsumerExact == phase = "done" =>
    /\ result.st = want.st
    /\ result.st = "ok" => (result.content = want.content /\ result.caps = want.caps)
    /\ idx = want.used + 1
NeverStarved == phase # "starved"

EmitLeaf == (Gen /\ phase = "done") => PrintT(ToJson(
    [leaf |-> "filter", scen |-> Scen, hdr |-> hdr, chunks |-> chunks, fin |-> fin, bytes |-> bytes,
     st |-> want.st, content |-> want.content, ncaps |-> Cardinality(want.caps)]))
=============================================================================

---------------------------- MODULE ObjStoreTrace ----------------------------
(***************************************************************************)
(* Validation of recorded maintenance executions (C10).                    *)
(* One ndjson line per execution:                                          *)
(*   [tid, reach: <<objects reachable from the refs throughout>>,          *)
(*    states: <<[q: sequence number, loose: <<..>>,                        *)
(*               packs: <<[pack, idx, objs]>>]>>   (projection of the      *)
(*        object directory at the start and after every call of the        *)
(*        maintainer that changes it),                                     *)
(*    reads: <<[o, res ("hit"|"miss"|"exc"), c, r]>>]  (reader lookups     *)
(*        with the sequence numbers of call and return)                    *)
(* ReachablePreserved: every reachable object is readable in every state.  *)
(* NoSpuriousMiss: a lookup that reports "missing" (or leaks an exception) *)
(* overlapped a state in which the object was indeed not readable.         *)
(***************************************************************************)
EXTENDS Integers, Sequences, FiniteSets, TLC, Json, IOUtils

Traces == ndJsonDeserialize(IOEnv.TRACE_FILE)
VARIABLES tid, done
vars == <<tid, done>>
T == Traces[tid]
ToSet(s) == {s[j] : j \in 1..Len(s)}
Readable(s) == ToSet(s.loose) \cup UNION {ToSet(p.objs) : p \in {q \in ToSet(s.packs) : q.pack /\ q.idx}}

\* index of the state in effect at sequence number q (the last state with s.q <= q)
At(q) == LET js == {j \in 1..Len(T.states) : T.states[j].q <= q} IN
         CHOOSE j \in js : \A k \in js : k <= j
During(c, r) == {j \in 1..Len(T.states) : j >= At(c) /\ T.states[j].q <= r}

LostAt == {j \in 1..Len(T.states) : ~(ToSet(T.reach) \subseteq Readable(T.states[j]))}
Spurious == {i \in 1..Len(T.reads) :
                /\ T.reads[i].res # "hit"
                /\ \A j \in During(T.reads[i].c, T.reads[i].r) : T.reads[i].o \in Readable(T.states[j])}

Init == tid \in 1..Len(Traces) /\ done = FALSE
Judge ==
    /\ ~done
    /\ PrintT(<<"OBJ", T.tid, LostAt, Spurious>>)
    /\ done' = TRUE /\ UNCHANGED tid
Spec == Init /\ [][Judge]_vars
=============================================================================

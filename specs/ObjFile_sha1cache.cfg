SPECIFICATION Spec
CONSTANTS
  NF = 3
  Vals = {0, 1}
  IsBlob = FALSE
  SetterMarksDirty = TRUE
  ExplicitSha1Recomputes = FALSE
  DirtyUntilSerialized = TRUE
  ChunkedResetsSha = TRUE
INVARIANT IdIsHash
INVARIANT SerCurrent
CHECK_DEADLOCK FALSE

------------------------------ MODULE RecvPack ------------------------------
(***************************************************************************)
(* Receiving a push (C06).                                                 *)
(*                                                                         *)
(* The server side of `git push` as dulwich implements it:                 *)
(*   wire   dulwich/server.py  ReceivePackHandler.handle / _apply_pack /   *)
(*          _report_status, the client reading the answer with             *)
(*          ReportStatusParser (dulwich/client.py);                        *)
(*   local  dulwich/client.py  LocalGitClient.send_pack (in-process push   *)
(*          into a repository on disk).                                    *)
(*                                                                         *)
(* Shared state: the ref map of the receiving repository (0 = the ref does *)
(* not exist = ZERO id on the wire) and the set of objects in its store.   *)
(* A push is a descriptor chosen in the initial state:                     *)
(*   kind     "wire" | "local"                                             *)
(*   cmds     sequence of [r, old, new]   (distinct refs; new = 0 deletes, *)
(*            old = 0 creates; a local push takes `old` from its own read  *)
(*            of the refs, the field is ignored)                           *)
(*   caps     subset of {report-status, atomic, side-band-64k, delete-refs}*)
(*   pack     objects contained in the pack that accompanies the commands  *)
(*   packok   FALSE: the pack is damaged, unpacking fails                  *)
(*   decl     refs the server's update hook declines                       *)
(*   predecl  TRUE: the server's pre-receive hook declines the push        *)
(*                                                                         *)
(* One action per step of the code that touches shared state:              *)
(*   Receive   read commands, pre-receive hook, add_thin_pack              *)
(*   Validate  the first pass of the atomic branch                         *)
(*   Update    one command: update hook, set_if_equals / remove_if_equals  *)
(*   AtomicTxn validation and application as one step (a design the        *)
(*             property needs under races; not what the code does)         *)
(*   LStart / LPack / LCheck / LUpdate   the same for the local path       *)
(* Steps of several pushers interleave freely.                             *)
(*                                                                         *)
(* The code's treatment of three things is a parameter, so that the same   *)
(* module describes the tree as it is, the repaired tree, and each single  *)
(* deviation (negative controls):                                          *)
(*   CheckCas       the handler looks at the boolean returned by           *)
(*                  set_if_equals / remove_if_equals                       *)
(*   CheckObj       the handler refuses a new value absent from the store  *)
(*   AtomicMode     "hooks"    validation pass asks the update hook only,  *)
(*                             then applies one by one                     *)
(*                  "precheck" validation also compares every old value    *)
(*                             (and CheckObj) before anything is applied   *)
(*                  "txn"      validate + apply in one step (all ref locks *)
(*                             held)                                       *)
(*   LocalCheckObj  the local path refuses a new value absent from store   *)
(*   LocalAtomicMode "none"     get_peeled() knows nothing about a loose   *)
(*                             ref: the check before applying is void      *)
(*                  "precheck" | "txn" as above                            *)
(***************************************************************************)
EXTENDS Integers, Sequences, FiniteSets, TLC, Json

CONSTANTS Refs,            \* ref names (1..n)
          Pushers,         \* pusher ids (1..m)
          Inits,           \* set of [refs: [Refs -> value], store: set of objects]
          PushIn(_),       \* predicate: the argument is an admissible function Pushers -> push descriptor
          CheckCas, CheckObj, AtomicMode, LocalCheckObj, LocalAtomicMode,
          KeepHist,        \* TRUE: keep the step history (behaviour enumeration)
          Emit             \* TRUE: print every completed behaviour as JSON

VARIABLES refs, store,     \* the receiving repository
          ini, push,       \* the case (constant along a behaviour)
          pc, k,           \* per pusher: control state, index of the next command
          olds,            \* per pusher, per command: the old value the compare-and-swap uses
          unp,             \* per pusher: "none" | "ok" | "fail" (what the client learns about the pack)
          st,              \* per pusher, per command: "-" (nothing said) | "ok" | "ng"
          exe, pre, post,  \* per pusher, per command: a ref operation was executed; ref value
                           \*   immediately before / after it (post of a command without a ref
                           \*   operation: value when the push ended)
          hist, emitted

vars == <<refs, store, ini, push, pc, k, olds, unp, st, exe, pre, post, hist, emitted>>

D(p) == push[p]
C(p) == push[p].cmds
N(p) == Len(push[p].cmds)
Idx(p) == 1..N(p)
Cap(p, c) == c \in push[p].caps
IsAtomic(p) == Cap(p, "atomic")
IsLocal(p) == push[p].kind = "local"
NeedsPack(p) == \E i \in Idx(p) : C(p)[i].new # 0
All(p, s) == [i \in Idx(p) |-> s]

\* ---------------------------------------------------------------- pure step operators
\* (shared by the actions below and by the trace monitor RecvPackTrace)
ObjRejW(stor, c) == CheckObj /\ c.new # 0 /\ c.new \notin stor
ObjRejL(stor, c) == LocalCheckObj /\ c.new # 0 /\ c.new \notin stor
\* the comparison a ref backend's compare-and-swap makes (set_if_equals / remove_if_equals of the
\* files backend and of the reftable backend alike): the zero id means "the ref must not exist".
\* A definition of its own so that a configuration can substitute a backend's defect model for it
\* (RecvPackMC!CasMatchZeroAny, RecvPack_neg_backend_zero.cfg).
CasMatch(cur, old) == cur = old
CasHit(rf, c, old) == CasMatch(rf[c.r], old)
CasRefs(rf, c, old) == IF CasMatch(rf[c.r], old) THEN [rf EXCEPT ![c.r] = c.new] ELSE rf
WireStatus(hit) == IF hit \/ ~CheckCas THEN "ok" ELSE "ng"
LocalStatus(hit) == IF hit THEN "ok" ELSE "ng"
\* post values of the commands once the push has ended.  A command without a ref operation is
\* judged by the value of the ref when the push ended -- except in a local push for a ref that
\* held the requested value when the client read the refs (nothing to do: the instant of that
\* read is what the reported success refers to, whatever another pusher does afterwards)
Finish(p, rf, ex, po) ==
    [i \in Idx(p) |-> IF ex[i] THEN po[i]
                      ELSE IF push[p].kind = "local" /\ olds[p][i] = C(p)[i].new THEN C(p)[i].new
                      ELSE rf[C(p)[i].r]]

H(rec) == hist' = IF KeepHist THEN Append(hist, rec) ELSE hist

Init ==
    /\ ini \in Inits
    /\ PushIn(push)
    /\ refs = ini.refs /\ store = ini.store
    /\ pc = [p \in Pushers |-> IF push[p].kind = "local" THEN "lstart" ELSE "recv"]
    /\ k = [p \in Pushers |-> 1]
    /\ olds = [p \in Pushers |-> [i \in 1..Len(push[p].cmds) |-> push[p].cmds[i].old]]
    /\ unp = [p \in Pushers |-> "none"]
    /\ st = [p \in Pushers |-> [i \in 1..Len(push[p].cmds) |-> "-"]]
    /\ exe = [p \in Pushers |-> [i \in 1..Len(push[p].cmds) |-> FALSE]]
    /\ pre = [p \in Pushers |-> [i \in 1..Len(push[p].cmds) |-> 0]]
    /\ post = [p \in Pushers |-> [i \in 1..Len(push[p].cmds) |-> 0]]
    /\ hist = <<>>
    /\ emitted = FALSE

\* the push of p ends without (further) ref operations
End(p, status, u) ==
    /\ pc' = [pc EXCEPT ![p] = "done"]
    /\ st' = [st EXCEPT ![p] = status]
    /\ unp' = [unp EXCEPT ![p] = u]
    /\ post' = [post EXCEPT ![p] = Finish(p, refs, exe[p], post[p])]
    /\ UNCHANGED <<refs, store, k, olds, exe, pre>>

\* ---------------------------------------------------------------- wire path
\* handle(): command lines, pre-receive hook, then _apply_pack: add_thin_pack
Receive(p) ==
    /\ pc[p] = "recv"
    /\ IF D(p).predecl \/ (NeedsPack(p) /\ ~D(p).packok)
       THEN End(p, All(p, "-"), "fail")          \* "unpack <error>", no ref lines
       ELSE /\ unp' = [unp EXCEPT ![p] = "ok"]
            /\ store' = IF NeedsPack(p) THEN store \cup D(p).pack ELSE store
            /\ pc' = [pc EXCEPT ![p] = IF IsAtomic(p) THEN "validate" ELSE "update"]
            /\ UNCHANGED <<refs, k, olds, st, exe, pre, post>>
    /\ H([p |-> p, a |-> "recv"])
    /\ UNCHANGED <<ini, push, emitted>>

VFail(p, i) ==
    LET c == C(p)[i] IN
      \/ c.r \in D(p).decl
      \/ AtomicMode # "hooks" /\ (refs[c.r] # olds[p][i] \/ ObjRejW(store, c))

\* atomic branch, first pass
Validate(p) ==
    /\ pc[p] = "validate" /\ AtomicMode # "txn"
    /\ IF \E i \in Idx(p) : VFail(p, i)
       THEN End(p, All(p, "ng"), unp[p])
       ELSE /\ pc' = [pc EXCEPT ![p] = "update"]
            /\ UNCHANGED <<refs, store, k, olds, unp, st, exe, pre, post>>
    /\ H([p |-> p, a |-> "validate"])
    /\ UNCHANGED <<ini, push, emitted>>

\* atomic branch as one step
AtomicTxn(p) ==
    /\ pc[p] = "validate" /\ AtomicMode = "txn"
    /\ IF \E i \in Idx(p) : VFail(p, i)
       THEN End(p, All(p, "ng"), unp[p])
       ELSE /\ refs' = [r \in Refs |-> IF \E i \in Idx(p) : C(p)[i].r = r
                                       THEN C(p)[CHOOSE i \in Idx(p) : C(p)[i].r = r].new
                                       ELSE refs[r]]
            /\ exe' = [exe EXCEPT ![p] = All(p, TRUE)]
            /\ pre' = [pre EXCEPT ![p] = [i \in Idx(p) |-> refs[C(p)[i].r]]]
            /\ post' = [post EXCEPT ![p] = [i \in Idx(p) |-> C(p)[i].new]]
            /\ st' = [st EXCEPT ![p] = All(p, "ok")]
            /\ pc' = [pc EXCEPT ![p] = "done"]
            /\ UNCHANGED <<store, k, olds, unp>>
    /\ H([p |-> p, a |-> "txn"])
    /\ UNCHANGED <<ini, push, emitted>>

\* one command: update hook (non-atomic branch), then the compare-and-swap
Update(p) ==
    /\ pc[p] = "update"
    /\ LET i == k[p]
           c == C(p)[i]
           old == olds[p][i]
           skip == (~IsAtomic(p) /\ c.r \in D(p).decl) \/ ObjRejW(store, c)
           hit == CasHit(refs, c, old)
           rf == IF skip THEN refs ELSE CasRefs(refs, c, old)
           last == i = N(p)
           ex == [exe[p] EXCEPT ![i] = ~skip]
           po == [post[p] EXCEPT ![i] = rf[c.r]]
       IN /\ refs' = rf
          /\ st' = [st EXCEPT ![p][i] = IF skip THEN "ng" ELSE WireStatus(hit)]
          /\ exe' = [exe EXCEPT ![p] = ex]
          /\ pre' = [pre EXCEPT ![p][i] = refs[c.r]]
          /\ post' = [post EXCEPT ![p] = IF last THEN Finish(p, rf, ex, po) ELSE po]
          /\ k' = [k EXCEPT ![p] = i + 1]
          /\ pc' = [pc EXCEPT ![p] = IF last THEN "done" ELSE "update"]
          /\ H([p |-> p, a |-> "update", i |-> i, x |-> ~skip, pre |-> refs[c.r], post |-> rf[c.r]])
    /\ UNCHANGED <<store, olds, unp, ini, push, emitted>>

\* ---------------------------------------------------------------- local path
\* target.get_refs(); update_refs(); early return when nothing changes
LStart(p) ==
    /\ pc[p] = "lstart"
    /\ LET cur == [i \in Idx(p) |-> refs[C(p)[i].r]]
           have == {refs[r] : r \in Refs} \ {0}
           want == {C(p)[i].new : i \in Idx(p)} \ (have \cup {0})
           noop == want = {} /\ \A i \in Idx(p) : C(p)[i].new # 0 /\ C(p)[i].new = cur[i]
       IN IF noop
          THEN /\ pc' = [pc EXCEPT ![p] = "done"]
               /\ st' = [st EXCEPT ![p] = All(p, "ok")]
               /\ post' = [post EXCEPT ![p] = cur]
               /\ olds' = [olds EXCEPT ![p] = cur]
               /\ unp' = [unp EXCEPT ![p] = "ok"]
               /\ UNCHANGED <<refs, store, k, exe, pre>>
          ELSE /\ olds' = [olds EXCEPT ![p] = cur]
               /\ pc' = [pc EXCEPT ![p] = "lpack"]
               /\ UNCHANGED <<refs, store, k, unp, st, exe, pre, post>>
    /\ H([p |-> p, a |-> "lstart"])
    /\ UNCHANGED <<ini, push, emitted>>

\* target.object_store.add_pack_data(...)
LPack(p) ==
    /\ pc[p] = "lpack"
    /\ store' = store \cup D(p).pack
    /\ unp' = [unp EXCEPT ![p] = "ok"]
    /\ pc' = [pc EXCEPT ![p] = IF IsAtomic(p) THEN "lcheck" ELSE "lupdate"]
    /\ H([p |-> p, a |-> "lpack"])
    /\ UNCHANGED <<refs, k, olds, st, exe, pre, post, ini, push, emitted>>

\* atomic=True: every ref is compared with the value read at the start (the code as it is asks
\* get_peeled(), which knows nothing about loose refs: LocalAtomicMode = "none")
LFail(p, i) ==
    LET c == C(p)[i] IN
      LocalAtomicMode # "none" /\ (refs[c.r] # olds[p][i] \/ ObjRejL(store, c))

LCheck(p) ==
    /\ pc[p] = "lcheck"
    /\ IF \E i \in Idx(p) : LFail(p, i)
       THEN End(p, All(p, "ng"), unp[p])
       ELSE IF LocalAtomicMode = "txn"
       THEN /\ refs' = [r \in Refs |-> IF \E i \in Idx(p) : C(p)[i].r = r
                                       THEN C(p)[CHOOSE i \in Idx(p) : C(p)[i].r = r].new
                                       ELSE refs[r]]
            /\ exe' = [exe EXCEPT ![p] = All(p, TRUE)]
            /\ pre' = [pre EXCEPT ![p] = [i \in Idx(p) |-> refs[C(p)[i].r]]]
            /\ post' = [post EXCEPT ![p] = [i \in Idx(p) |-> C(p)[i].new]]
            /\ st' = [st EXCEPT ![p] = All(p, "ok")]
            /\ pc' = [pc EXCEPT ![p] = "done"]
            /\ UNCHANGED <<store, k, olds, unp>>
       ELSE /\ pc' = [pc EXCEPT ![p] = "lupdate"]
            /\ UNCHANGED <<refs, store, k, olds, unp, st, exe, pre, post>>
    /\ H([p |-> p, a |-> "lcheck"])
    /\ UNCHANGED <<ini, push, emitted>>

\* set_if_equals / remove_if_equals, result honoured
LUpdate(p) ==
    /\ pc[p] = "lupdate"
    /\ LET i == k[p]
           c == C(p)[i]
           old == olds[p][i]
           skip == ObjRejL(store, c)
           hit == CasHit(refs, c, old)
           rf == IF skip THEN refs ELSE CasRefs(refs, c, old)
           last == i = N(p)
           ex == [exe[p] EXCEPT ![i] = ~skip]
           po == [post[p] EXCEPT ![i] = rf[c.r]]
       IN /\ refs' = rf
          /\ st' = [st EXCEPT ![p][i] = IF skip THEN "ng" ELSE LocalStatus(hit)]
          /\ exe' = [exe EXCEPT ![p] = ex]
          /\ pre' = [pre EXCEPT ![p][i] = refs[c.r]]
          /\ post' = [post EXCEPT ![p] = IF last THEN Finish(p, rf, ex, po) ELSE po]
          /\ k' = [k EXCEPT ![p] = i + 1]
          /\ pc' = [pc EXCEPT ![p] = IF last THEN "done" ELSE "lupdate"]
          /\ H([p |-> p, a |-> "update", i |-> i, x |-> ~skip, pre |-> refs[c.r], post |-> rf[c.r]])
    /\ UNCHANGED <<store, olds, unp, ini, push, emitted>>

\* ---------------------------------------------------------------- emission of completed behaviours
Summary == [ini |-> ini, push |-> push, olds |-> olds, unp |-> unp, st |-> st, exe |-> exe,
            pre |-> pre, post |-> post, refs |-> refs, store |-> store, hist |-> hist]

EmitStep ==
    /\ Emit /\ ~emitted /\ \A p \in Pushers : pc[p] = "done"
    /\ PrintT(ToJson(Summary))
    /\ emitted' = TRUE
    /\ UNCHANGED <<refs, store, ini, push, pc, k, olds, unp, st, exe, pre, post, hist>>

Step(p) == Receive(p) \/ Validate(p) \/ AtomicTxn(p) \/ Update(p)
           \/ LStart(p) \/ LPack(p) \/ LCheck(p) \/ LUpdate(p)
Next == (\E p \in Pushers : Step(p)) \/ EmitStep
Spec == Init /\ [][Next]_vars

\* ---------------------------------------------------------------- the property (C06)
\* Each clause is the set of its counterexamples in the current state (empty = holds), so that
\* the trace monitor can name the offending push and command.
\* What the client is told: a local push always returns ref_status, a wire push only with
\* report-status; a push whose connection broke told the client nothing.
Reported(p) == IsLocal(p) \/ Cap(p, "report-status")
Told(p) == pc[p] = "done" /\ Reported(p) /\ unp[p] \in {"ok", "fail"}
Pairs == UNION {{<<p, i>> : i \in Idx(p)} : p \in Pushers}
Changed(p, i) == exe[p][i] /\ pre[p][i] # post[p][i]
Applied(p, i) == exe[p][i] /\ pre[p][i] = olds[p][i] /\ post[p][i] = C(p)[i].new

\* success is reported only for a ref that holds the requested value (immediately after this
\* push's operation on it, or, without an operation, when the push ended)
BadOkMeansHolds ==
    {w \in Pairs : Told(w[1]) /\ st[w[1]][w[2]] = "ok" /\ post[w[1]][w[2]] # C(w[1])[w[2]].new}
\* a ref this push changed, or whose compare-and-swap went through, is reported as success
BadAppliedMeansOk ==
    {w \in Pairs : Told(w[1]) /\ (Changed(w[1], w[2]) \/ Applied(w[1], w[2])) /\ st[w[1]][w[2]] # "ok"}
\* a ref whose value differs from the old value named is left alone and reported as rejected
\* (when it happens to hold the requested value already, either report is accepted)
BadStaleUntouched ==
    {w \in Pairs : LET p == w[1] i == w[2] IN
        /\ exe[p][i] /\ pre[p][i] # olds[p][i]
        /\ \/ post[p][i] # pre[p][i]
           \/ Told(p) /\ pre[p][i] # C(p)[i].new /\ st[p][i] = "ok"}
\* the server never has a ref naming an object it does not have
BadNoDanglingRef == {r \in Refs : refs[r] # 0 /\ refs[r] \notin store}
\* atomic: all ref updates are applied or none
BadAtomicOK ==
    {p \in Pushers : /\ pc[p] = "done" /\ IsAtomic(p)
                     /\ \E i \in Idx(p) : Changed(p, i)
                     /\ \E j \in Idx(p) : post[p][j] # C(p)[j].new}

\* Implied success.  A wire push without report-status is told nothing; the pusher (C git,
\* SendPackResult) takes every command as accepted unless the connection fails.  Capabilities that
\* only concern reporting must not change what is applied: a command that would be reported ok
\* with report-status (st is the status the server computes whether or not it sends it; for a
\* recorded execution it is the status the same push received when it was run with
\* report-status added) leaves the ref holding the requested value.  Commands that would be
\* reported ng, and pushes whose pack fails, make no claim: the protocol cannot say so.
BadImpliedSuccess ==
    {w \in Pairs : LET p == w[1] i == w[2] IN
        /\ ~IsLocal(p) /\ ~Cap(p, "report-status") /\ pc[p] = "done" /\ unp[p] # "fail"
        /\ st[p][i] = "ok" /\ post[p][i] # C(p)[i].new}

\* The same requirement over a pair of runs of one push from one server state, with and without
\* report-status (evaluated by the trace monitor on two real executions): the repository ends the same.
ReportIndependent(refsA, storeA, refsB, storeB) == refsA = refsB /\ storeA = storeB

OkMeansHolds == BadOkMeansHolds = {}
ImpliedSuccess == BadImpliedSuccess = {}
AppliedMeansOk == BadAppliedMeansOk = {}
StaleUntouched == BadStaleUntouched = {}
StatusExact == OkMeansHolds /\ AppliedMeansOk /\ StaleUntouched
NoDanglingRef == BadNoDanglingRef = {}
AtomicOK == BadAtomicOK = {}

TypeOK ==
    /\ \A p \in Pushers : pc[p] \in {"recv", "validate", "update", "lstart", "lpack", "lcheck", "lupdate", "done"}
    /\ \A p \in Pushers : unp[p] \in {"none", "ok", "fail"}
    /\ \A p \in Pushers : \A i \in Idx(p) : st[p][i] \in {"-", "ok", "ng"}

\* everything ends
AllDone == \A p \in Pushers : pc[p] = "done"
Terminates == <>[]AllDone
=============================================================================

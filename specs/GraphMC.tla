------------------------------- MODULE GraphMC -------------------------------
(***************************************************************************)
(* The algorithms of dulwich/graph.py and dulwich/walk.py as state         *)
(* machines (one loop iteration of the real code per step, the step        *)
(* operators are those of Graph.tla parts 2 and 3), checked by TLC against *)
(* the graph-theoretic definitions on every canonical DAG with N commits x *)
(* every weak order of timestamps with <= L values x every query.          *)
(*                                                                         *)
(*  Mode = "lcas": _find_lcas as find_merge_base uses it (no cut-off)      *)
(*  Mode = "ff"  : _find_lcas as can_fast_forward uses it                  *)
(*                 (min_stamp = commit time of c1)                         *)
(*  Mode = "walk": _CommitTimeQueue draining its heap                      *)
(*  UseMinStamp, Reduce: the two switches of Graph.tla part 2              *)
(*  (dulwich today = TRUE, FALSE; repaired = FALSE, TRUE)                  *)
(*  Clocks = "any" | "mono" | "strict": which timestamp assignments        *)
(*                                                                         *)
(* What holds for dulwich as it is (GraphMC_lcas/_ff/_walk.cfg):           *)
(*   PaintSound, NoLostBase, Superset, NoFalsePositive, Bounded  any clock *)
(*   Exact                                             strict clocks only  *)
(*   WalkSound, WalkOnce, WalkComplete                           any clock *)
(*   WalkExcludes                                      monotone clocks     *)
(* and what does not (negative controls, TLC must find the counterexample; *)
(* the harness replays it on the real functions):                          *)
(*   Exact with Clocks = "any" (Mode lcas and ff), WalkExcludes with "any" *)
(* (GraphMC_neg_lcas/_neg_ff/_neg_walk.cfg).                               *)
(* With UseMinStamp = FALSE and Reduce = TRUE, Exact holds for any clock   *)
(* (GraphMC_repaired.cfg).                                                 *)
(***************************************************************************)
EXTENDS Graph

CONSTANTS N, L, Mode, UseMinStamp, Reduce, Clocks,
          MaxD,      \* lcas: |D| <= MaxD ; walk: |I| <= MaxD and |E| <= MaxD
          TieBreak   \* "asc" | "desc" | "both": id order = commit number order or its reverse

VARIABLES par, ts, rank, qa, qD, s, pc, res, steps
vars == <<par, ts, rank, qa, qD, s, pc, res, steps>>

C == 1..N

RECURSIVE Dags(_)
Dags(k) == IF k = 0 THEN {<<>>}
           ELSE {Append(d, P) : d \in Dags(k - 1), P \in SUBSET (1..(k - 1))}

WeakOrders == {t \in [C -> 1..L] : \E k \in 1..L : {t[i] : i \in C} = 1..k}

ClockOK(p, t) == CASE Clocks = "any"    -> TRUE
                   [] Clocks = "mono"   -> Monotone(p, t, C)
                   [] Clocks = "strict" -> StrictlyMonotone(p, t, C)

Ranks == CASE TieBreak = "asc"  -> {[c \in C |-> c]}
           [] TieBreak = "desc" -> {[c \in C |-> N + 1 - c]}
           [] TieBreak = "both" -> {[c \in C |-> c], [c \in C |-> N + 1 - c]}

Small == {S \in SUBSET C : Cardinality(S) <= MaxD}

A == Anc(par)

Init ==
    /\ par \in Dags(N)
    /\ ts \in {t \in WeakOrders : ClockOK(par, t)}
    /\ rank \in Ranks
    /\ pc = "loop" /\ res = <<>> /\ steps = 0
    /\ CASE Mode = "lcas" -> /\ qa \in C
                             /\ qD \in {S \in Small : S # {} /\ qa \notin S}
                             /\ s = LcasInit(N, qa, qD)
         [] Mode = "ff"   -> /\ qa \in C
                             /\ qD \in {{b} : b \in C \ {qa}}
                             /\ s = LcasInit(N, qa, qD)
         [] Mode = "walk" -> /\ qa = 0
                             /\ qD \in {<<I, E>> : I \in Small \ {{}}, E \in Small}
                             /\ s = WalkInit(qD[1], qD[2])

MinStamp == IF Mode = "ff" /\ UseMinStamp THEN ts[qa] ELSE 0

LcasNext ==
    /\ pc = "loop"
    /\ IF HasCand(s)
       THEN /\ s' = LcasStep(par, ts, rank, MinStamp, s)
            /\ steps' = steps + 1
            /\ UNCHANGED <<pc, res>>
       ELSE /\ pc' = "done"
            /\ res' = IF Reduce THEN RemoveRedundant(par, ts, rank, LcasResult(s, ts))
                      ELSE LcasResult(s, ts)
            /\ UNCHANGED <<s, steps>>
    /\ UNCHANGED <<par, ts, rank, qa, qD>>

WalkNext ==
    /\ pc = "loop"
    /\ IF ~ s.fin
       THEN /\ s' = WalkStep(par, ts, rank, 0, s)
            /\ steps' = steps + 1
            /\ UNCHANGED <<pc, res>>
       ELSE /\ pc' = "done"
            /\ res' = SelectSeq(s.out, LAMBDA c : c \notin s.excl)
            /\ UNCHANGED <<s, steps>>
    /\ UNCHANGED <<par, ts, rank, qa, qD>>

Next == IF Mode = "walk" THEN WalkNext ELSE LcasNext
Spec == Init /\ [][Next]_vars

\* ------------------------------------------------------------------ merge base / fast-forward
IsLcas == Mode \in {"lcas", "ff"}
CA     == CommonAnc(A, qa, qD)
MB     == MergeBases(A, qa, qD)
Rel    == Reach(A, qD \cup {qa})

\* the flags mean what their names say
PaintSound ==
    IsLcas =>
      /\ s.a1 \subseteq A[qa]
      /\ s.a2 \subseteq Reach(A, qD)
      /\ s.lca \subseteq CA
      /\ SeqSet(s.cands) = s.lca
      /\ s.dnc \subseteq UNION {A[y] \ {y} : y \in CA}
      /\ Queued(s) \subseteq s.a1 \cup s.a2

\* the loop cannot stop, and _DNC cannot reach a maximal common ancestor, before it is a candidate
NoLostBase ==
    (IsLcas /\ MinStamp = 0) =>
      \A m \in MB : m \notin s.dnc /\ (m \in s.lca \/ (pc = "loop" /\ HasCand(s)))

Superset ==
    (IsLcas /\ pc = "done" /\ MinStamp = 0) => (MB \subseteq SeqSet(res) /\ SeqSet(res) \subseteq CA)

\* the timestamp cut-off of can_fast_forward never produces a wrong "yes"
NoFalsePositive ==
    (Mode = "ff" /\ pc = "done" /\ res = <<qa>>) => IsAncestor(A, qa, CHOOSE b \in qD : TRUE)

Exact ==
    (IsLcas /\ pc = "done") =>
       IF Mode = "ff" THEN (res = <<qa>>) <=> IsAncestor(A, qa, CHOOSE b \in qD : TRUE)
       ELSE SeqSet(res) = MB

\* the fast-forward answer derived from the same run (for runs without cut-off and |qD| = 1)
FfFromLcasExact ==
    (Mode = "lcas" /\ pc = "done" /\ Cardinality(qD) = 1) =>
       ((res = <<qa>>) <=> IsAncestor(A, qa, CHOOSE b \in qD : TRUE))

ExactWhenStrict ==
    (IsLcas /\ pc = "done" /\ StrictlyMonotone(par, ts, Rel)) =>
       IF Mode = "ff" THEN (res = <<qa>>) <=> IsAncestor(A, qa, CHOOSE b \in qD : TRUE)
       ELSE SeqSet(res) = MB

\* every flag set costs at most one more visit: the loop is bounded (termination)
Bounded == steps <= 4 * N + 2

\* ------------------------------------------------------------------ walk
WI == qD[1]
WE == qD[2]
WalkSound ==
    Mode = "walk" =>
      /\ s.done \cap s.pq = {}
      /\ s.done \cup s.pq = s.seen
      /\ s.seen \subseteq Reach(A, WI \cup WE)
      /\ s.excl \subseteq Reach(A, WE)
      /\ NoDup(s.out) /\ SeqSet(s.out) \subseteq s.done
WalkOnce     == (Mode = "walk" /\ pc = "done") => (NoDup(res) /\ SeqSet(res) \subseteq Reach(A, WI))
WalkComplete == (Mode = "walk" /\ pc = "done" /\ WE = {}) => SeqSet(res) = Reach(A, WI)
WalkExcludes == (Mode = "walk" /\ pc = "done") => SeqSet(res) = WalkSet(A, WI, WE)
WalkExcludesWhenMonotone ==
    (Mode = "walk" /\ pc = "done" /\ Monotone(par, ts, Reach(A, WI \cup WE))) => SeqSet(res) = WalkSet(A, WI, WE)
=============================================================================

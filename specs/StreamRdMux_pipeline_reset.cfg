SPECIFICATION Spec
CONSTANTS
  Scen = "pipeline"
  MaxItems = 3
  MaxLen = 40
  MaxFrag = 1
  BufSizes = {1, 4, 5, 8, 9, 13, 20, 100}
  SbMax = 2
  ResetBufLen = TRUE
  Gen = FALSE
INVARIANT ParserExact
INVARIANT WriterNoLoss
INVARIANT SbWellFormed
INVARIANT PipelineRoundTrip
CHECK_DEADLOCK FALSE

SPECIFICATION TraceSpec
CONSTANTS
  NF = 1
  Vals = {0, 1, 2}
  IsBlob = TRUE
  SetterMarksDirty = TRUE
  ExplicitSha1Recomputes = TRUE
  DirtyUntilSerialized = TRUE
  ChunkedResetsSha = TRUE
CHECK_DEADLOCK FALSE

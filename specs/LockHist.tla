------------------------------ MODULE LockHist ------------------------------
(***************************************************************************)
(* Mutual exclusion on histories recorded from REAL PROCESSES (C07).       *)
(*                                                                         *)
(* One ndjson line per round:  [tid, holds: <<[a, s, e]>>]                 *)
(* Each element is one successful acquisition of <path>.lock by process a: *)
(*   s = rank of the time just AFTER GitFile(path, "wb") returned,         *)
(*   e = rank of the time just BEFORE close()/abort() was called,          *)
(* so [s, e] lies inside the interval during which the process owned the   *)
(* lock (LockFile.tla: from OpenExclOk to Rename/Abort).  Mutex of         *)
(* LockFile.tla says no two owners at any time; on a history that is:      *)
(* no two such intervals of different processes intersect.                 *)
(* The contents seen by readers and the final content are judged by        *)
(* RefsLin.tla (the protected file as an atomic register).                 *)
(***************************************************************************)
EXTENDS Integers, Sequences, FiniteSets, TLC, Json, IOUtils

Traces == ndJsonDeserialize(IOEnv.TRACE_FILE)

VARIABLES tid, done
vars == <<tid, done>>

T == Traces[tid]
H == T.holds
Overlap(x, y) == ~(x.e < y.s \/ y.e < x.s)
Bad == {<<i, j>> \in (1..Len(H)) \X (1..Len(H)) : i < j /\ H[i].a # H[j].a /\ Overlap(H[i], H[j])}

Init == tid \in 1..Len(Traces) /\ done = FALSE
Judge ==
    /\ ~done
    /\ PrintT(<<"LOCKHIST", T.tid, Bad>>)
    /\ done' = TRUE
    /\ UNCHANGED tid
Spec == Init /\ [][Judge]_vars
=============================================================================

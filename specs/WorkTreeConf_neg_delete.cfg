SPECIFICATION Spec
CONSTANTS
  TreeSet <- TreesTiny
  Ops <- OpsAll
  MaxLen = 3
  Prots <- ProtsDefault
  FixDelete = FALSE
  FixPatch = TRUE
INVARIANT TypeOK
INVARIANT Confined
INVARIANT UnsafeRefused
CHECK_DEADLOCK FALSE
CONSTRAINT Modelled

SPECIFICATION Spec
CONSTANTS
  BCells <- CellsT
INVARIANT TreeIdentifiesMap
INVARIANT StagedIsTreeDiff
CHECK_DEADLOCK FALSE

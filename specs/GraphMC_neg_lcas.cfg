\* negative control: TLC must find that today's _find_lcas is inexact (Exact violated; equal timestamps suffice)
SPECIFICATION Spec
CONSTANTS
  MaxExtra = 5
  N = 4
  L = 2
  Mode = "lcas"
  UseMinStamp = TRUE
  Reduce = FALSE
  Clocks = "any"
  MaxD = 1
  TieBreak = "asc"
INVARIANT Exact
CHECK_DEADLOCK FALSE

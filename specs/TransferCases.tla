---------------------------- MODULE TransferCases ----------------------------
(***************************************************************************)
(* TLC as the enumerator of C05 cases for replay on the real code           *)
(* (spec -> code).  The initial states are exactly the initial states of    *)
(* Transfer (same Init, same constants as the model-checking configuration  *)
(* of the same name), thinned out by a deterministic sample: a case is kept *)
(* iff its code, multiplied and shifted by the seed, is 0 modulo SampleMod  *)
(* (SampleMod = 1 keeps all).  The harness reads the dumped states,         *)
(* materialises every case as two real repositories, runs the transfer      *)
(* over every transport and hands what it observed to TransferTrace.        *)
(***************************************************************************)
EXTENDS Transfer

CONSTANTS SampleMod, SampleSeed

Mix(h, x) == (h * 31 + x + 7) % 100003

RECURSIVE MaskOf(_, _)
MaskOf(S, k) == IF k = 0 THEN 0 ELSE MaskOf(S, k - 1) * 2 + (IF k \in S THEN 1 ELSE 0)

RECURSIVE SeqCode(_, _, _)
SeqCode(s, k, h) == IF k > Len(s) THEN h ELSE SeqCode(s, k + 1, Mix(h, s[k]))

RECURSIVE SetCode(_, _)
SetCode(S, h) == IF S = {} THEN h ELSE SetCode(S \ {Least(S)}, Mix(h, Rank(Least(S))))

CaseCode(c) ==
    LET n  == Len(c.par)
        h1 == SeqCode([i \in 1..n |-> MaskOf(c.par[i], n)], 1, 17)
        h2 == SeqCode(c.tr, 1, h1)
        h3 == SeqCode([i \in 1..Len(c.tg) |-> Rank(c.tg[i])], 1, Mix(h2, Len(c.tg)))
        h4 == Mix(Mix(Mix(h3, MaskOf(c.sh, n)), MaskOf(c.rh, n)), MaskOf(c.rt, 2))
        h5 == SetCode(c.wants, h4)
        h6 == Mix(h5, CASE c.mode = "single" -> 1 [] c.mode = "multi" -> 2 [] OTHER -> 3)
        h7 == Mix(Mix(Mix(h6, IF c.inctag THEN 1 ELSE 0), IF c.thin THEN 1 ELSE 0), IF c.full THEN 1 ELSE 0)
    IN  IF c.dg = {} THEN h7 ELSE SetCode(c.dg, Mix(h7, 5))

Sampled == SampleMod = 1 \/ (CaseCode(cs) * 7919 + SampleSeed) % SampleMod = 0

CasesInit == Init /\ Sampled
CasesNext == FALSE /\ UNCHANGED vars
CasesSpec == CasesInit /\ [][CasesNext]_vars
=============================================================================

SPECIFICATION Spec
CONSTANTS
  Fam = "blocks"
  MaxLen = 3
  Sel <- BlocksSelQ
INVARIANT Lemmas
INVARIANT InModel
CHECK_DEADLOCK FALSE

SPECIFICATION Spec
CONSTANTS
  Family = "sideband"
INVARIANT Theorems
CHECK_DEADLOCK FALSE

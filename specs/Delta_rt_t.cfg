SPECIFICATION Spec
CONSTANTS
  Letters = {97, 98, 99}
  MaxStr = 4
  MinCopies = {1, 2, 3}
INVARIANT RoundTripHolds
INVARIANT PostHolds
INVARIANT NoWaste
CHECK_DEADLOCK FALSE

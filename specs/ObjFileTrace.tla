---------------------------- MODULE ObjFileTrace ----------------------------
(***************************************************************************)
(* Batch validation of life-cycle histories recorded from real dulwich     *)
(* objects (code -> spec).  One ndjson line per history:                   *)
(*   [tid, origin, ofmt, v0, ev: <<event>>]                                *)
(* event = [op, f, x, v, ret, rfmt, fields, dirty, text, shak, shav, shaf]:*)
(* the call (op as ObjFile!last.op names it; f, x for "set"; f = requested *)
(* format for "idF", f = format of the given name for "setraw"/"reload";   *)
(* v the valuation given to setraw/chunked), the valuation its result      *)
(* stands for and the format a returned name is the hash in, and the       *)
(* projection of the real object after the call (shaf = format of the      *)
(* cached name).  Valuations are tuples; <<>> = none, <<-1>> = bytes/hash  *)
(* that belong to no valuation; formats 1 = SHA-1, 2 = SHA-256, 0 = none.  *)
(* err: the call raised; bad: the harness has given the object a value     *)
(* that cannot be serialised and has not repaired it yet (op "spoil" /     *)
(* "unspoil"); a read of such an object is logged as op "fail" when it     *)
(* raised and under its own name when it returned something.               *)
(*                                                                         *)
(* Every event is first matched against ObjFile!Next (same call, same      *)
(* result, same post-state).  If no step matches the history has left the  *)
(* modelled shape (drift); the observed state is adopted, the ghost        *)
(* `fields' keeps following the setter calls, and the property clauses     *)
(* IdIsHash / SerCurrent keep being evaluated on what the code returned.   *)
(***************************************************************************)
EXTENDS ObjFile, Json, IOUtils

Traces == ndJsonDeserialize(IOEnv.TRACE_FILE)

VARIABLES tid, l, verdict, failAt, driftAt
tvars == <<vars, tid, l, verdict, failAt, driftAt>>

Ev == Traces[tid].ev

ObsText(e) == IF e.text = <<>> THEN NoText ELSE Text(e.text)
ObsSha(e)  == IF e.shak = "none" THEN NoSha ELSE [k |-> e.shak, v |-> e.shav, fmt |-> e.shaf]

TraceInit ==
    /\ tid \in 1..Len(Traces)
    /\ l = 1 /\ verdict = "ok" /\ failAt = 0 /\ driftAt = 0
    /\ Init
    /\ fields = Traces[tid].v0
    /\ last.op = Traces[tid].origin
    /\ last.f = Traces[tid].ofmt

Strict(e) ==
    /\ Next
    /\ last'.op = e.op /\ last'.err = e.err /\ bad' = e.bad
    /\ (e.op = "set" => last'.f = e.f /\ last'.x = e.x)
    /\ (e.op \in {"setraw", "reload", "idF"} => last'.f = e.f)
    /\ (e.op \in {"setraw", "chunked"} => last'.ret = e.v)
    /\ (e.op \notin {"set", "setraw", "chunked"} => last'.ret = e.ret)
    /\ (e.op \in {"id", "idF"} => last'.rfmt = e.rfmt)
    /\ fields' = e.fields /\ dirty' = e.dirty
    /\ text' = ObsText(e)
    /\ sha'.k = e.shak /\ (e.shak # "none" => sha'.v = e.shav /\ sha'.fmt = e.shaf)

Generic(e) ==
    /\ fields' = IF e.op = "set" THEN [fields EXCEPT ![e.f] = e.x]
                 ELSE IF e.op \in {"setraw", "chunked"} THEN e.v
                 ELSE fields
    /\ dirty' = e.dirty /\ text' = ObsText(e) /\ sha' = ObsSha(e) /\ bad' = e.bad
    /\ last' = [op |-> e.op, f |-> e.f, x |-> e.x, ret |-> e.ret, rfmt |-> e.rfmt, err |-> e.err]

Clause(e) ==
    IF e.op \in Reads /\ ~e.err /\ e.bad THEN "NoStaleAfterFailure"
    ELSE IF e.err THEN "ok"
    ELSE IF e.op = "id" /\ e.ret # fields' THEN "IdIsHash"
    ELSE IF e.op = "idF" /\ (e.ret # fields' \/ e.rfmt # e.f) THEN "IdIsHash"
    ELSE IF e.op \in {"raw", "copy", "check", "reload"} /\ e.ret # fields' THEN "SerCurrent"
    ELSE "ok"

Consume ==
    /\ l <= Len(Ev)
    /\ LET e == Ev[l] IN
         /\ IF ENABLED Strict(e)
            THEN Strict(e) /\ driftAt' = driftAt
            ELSE Generic(e) /\ driftAt' = IF driftAt = 0 THEN l ELSE driftAt
         /\ LET c == Clause(e) IN
              /\ verdict' = IF verdict = "ok" THEN c ELSE verdict
              /\ failAt' = IF verdict = "ok" /\ c # "ok" THEN l ELSE failAt
    /\ l' = l + 1
    /\ UNCHANGED tid

Finish ==
    /\ l = Len(Ev) + 1
    /\ PrintT(<<"VERDICT", Traces[tid].tid, verdict, failAt, driftAt>>)
    /\ l' = l + 1
    /\ UNCHANGED <<vars, tid, verdict, failAt, driftAt>>

TraceNext == Consume \/ Finish
TraceSpec == TraceInit /\ [][TraceNext]_tvars
=============================================================================

---------------------------- MODULE ObjFileTrace ----------------------------
(***************************************************************************)
(* Batch validation of life-cycle histories recorded from real dulwich     *)
(* objects (code -> spec).  One ndjson line per history:                   *)
(*   [tid, origin, v0, ev: <<event>>]                                      *)
(* event = [op, f, x, v, ret, fields, dirty, text, shak, shav]: the call   *)
(* (op as ObjFile!last.op names it; f, x for "set"; v the valuation given  *)
(* to setraw/chunked), the valuation its result stands for, and the        *)
(* projection of the real object after the call.  Valuations are tuples;   *)
(* <<>> = none, <<-1>> = bytes/hash that belong to no valuation.           *)
(*                                                                         *)
(* Every event is first matched against ObjFile!Next (same call, same      *)
(* result, same post-state).  If no step matches the history has left the  *)
(* modelled shape (drift); the observed state is adopted, the ghost        *)
(* `fields' keeps following the setter calls, and the property clauses     *)
(* IdIsHash / SerCurrent keep being evaluated on what the code returned.   *)
(***************************************************************************)
EXTENDS ObjFile, Json, IOUtils

Traces == ndJsonDeserialize(IOEnv.TRACE_FILE)

VARIABLES tid, l, verdict, failAt, driftAt
tvars == <<vars, tid, l, verdict, failAt, driftAt>>

Ev == Traces[tid].ev

ObsText(e) == IF e.text = <<>> THEN NoText ELSE Text(e.text)
ObsSha(e)  == IF e.shak = "none" THEN NoSha ELSE [k |-> e.shak, v |-> e.shav]

TraceInit ==
    /\ tid \in 1..Len(Traces)
    /\ l = 1 /\ verdict = "ok" /\ failAt = 0 /\ driftAt = 0
    /\ Init
    /\ fields = Traces[tid].v0
    /\ last.op = Traces[tid].origin

Strict(e) ==
    /\ Next
    /\ last'.op = e.op
    /\ (e.op = "set" => last'.f = e.f /\ last'.x = e.x)
    /\ (e.op \in {"setraw", "setrawsha", "chunked"} => last'.ret = e.v)
    /\ (e.op \notin {"set", "setraw", "setrawsha", "chunked"} => last'.ret = e.ret)
    /\ fields' = e.fields /\ dirty' = e.dirty
    /\ text' = ObsText(e)
    /\ sha'.k = e.shak /\ (e.shak # "none" => sha'.v = e.shav)

Generic(e) ==
    /\ fields' = IF e.op = "set" THEN [fields EXCEPT ![e.f] = e.x]
                 ELSE IF e.op \in {"setraw", "setrawsha", "chunked"} THEN e.v
                 ELSE fields
    /\ dirty' = e.dirty /\ text' = ObsText(e) /\ sha' = ObsSha(e)
    /\ last' = [op |-> e.op, f |-> e.f, x |-> e.x, ret |-> e.ret]

Clause(e) ==
    IF e.op \in {"id", "id256"} /\ e.ret # fields' THEN "IdIsHash"
    ELSE IF e.op \in {"raw", "copy", "check", "reload", "reloadsha"} /\ e.ret # fields' THEN "SerCurrent"
    ELSE "ok"

Consume ==
    /\ l <= Len(Ev)
    /\ LET e == Ev[l] IN
         /\ IF ENABLED Strict(e)
            THEN Strict(e) /\ driftAt' = driftAt
            ELSE Generic(e) /\ driftAt' = IF driftAt = 0 THEN l ELSE driftAt
         /\ LET c == Clause(e) IN
              /\ verdict' = IF verdict = "ok" THEN c ELSE verdict
              /\ failAt' = IF verdict = "ok" /\ c # "ok" THEN l ELSE failAt
    /\ l' = l + 1
    /\ UNCHANGED tid

Finish ==
    /\ l = Len(Ev) + 1
    /\ PrintT(<<"VERDICT", Traces[tid].tid, verdict, failAt, driftAt>>)
    /\ l' = l + 1
    /\ UNCHANGED <<vars, tid, verdict, failAt, driftAt>>

TraceNext == Consume \/ Finish
TraceSpec == TraceInit /\ [][TraceNext]_tvars
=============================================================================

SPECIFICATION Spec
CONSTANTS
  MaxN = 2
  LargeMsbOnly = FALSE
INVARIANT Lemma
CHECK_DEADLOCK FALSE

---------------------------- MODULE ConfigShared ----------------------------
(***************************************************************************)
(* One configuration file shared by a long-lived owner (a dulwich Repo     *)
(* object: every access goes through Repo.get_config()) and external       *)
(* writers (git config, a second dulwich handle).  The steps are           *)
(* sequential (no interleaving inside a step; the lock protocol is C07's), *)
(* but every rewrite keeps the byte size and lands in the same timestamp   *)
(* tick, so that size and mtime of the file never tell that it changed.    *)
(*                                                                         *)
(* The file is a map key -> value (0 = the key is not in the file).  C20   *)
(* for such histories:                                                     *)
(*   ReadFresh      what the owner reads is what the file says;            *)
(*   WritePreserves a read-modify-write by the owner changes its key only: *)
(*                  what another writer stored under other keys survives;  *)
(*   RefusedAtomic  a rewrite that is refused half-way (a section that     *)
(*                  cannot be serialised, reached after serialisable ones) *)
(*                  leaves the file as it was.                             *)
(* Two defect models (constants, FALSE = the code as it should be) serve   *)
(* as negative controls.                                                   *)
(***************************************************************************)
EXTENDS Naturals, TLC

CONSTANTS Cached,         \* the owner keeps its last parse, keyed on (mtime, size) of the file
          CommitOnError   \* a refused rewrite still renames the partial lock file over the file

Keys == {1, 2}            \* 1: user.name   2: alias.co  (the later section of the file)
Vals == {1, 2}            \* two values of the same byte length
Writers == {1, 2}         \* 1: git config   2: a second dulwich ConfigFile handle

VARIABLES file,           \* key -> value | 0
          cache,          \* the owner's cached parse (meaningful only if Cached)
          last            \* the step just taken: [op, k, ret]
vars == <<file, cache, last>>

Present(f) == {k \in Keys : f[k] # 0}
\* the cache is refreshed only when the stamp differs; same-size same-tick rewrites keep the stamp
View == IF Cached /\ Present(cache) = Present(file) THEN cache ELSE file

Init == /\ file = [k \in Keys |-> 1]
        /\ cache = file
        /\ last = [op |-> "init", k |-> 0, ret |-> 0]

OwnerRead(k) ==
    /\ last' = [op |-> "read", k |-> k, ret |-> View[k]]
    /\ cache' = View
    /\ UNCHANGED file
OwnerSet(k, v) ==
    /\ file' = [View EXCEPT ![k] = v]
    /\ cache' = View
    /\ last' = [op |-> "oset", k |-> k, ret |-> v]
ExtSet(w, k, v) ==
    /\ file[k] # 0 /\ v # file[k]
    /\ file' = [file EXCEPT ![k] = v]
    /\ last' = [op |-> "ext", k |-> k, ret |-> v]
    /\ UNCHANGED cache
\* the owner regenerates the file; an unserialisable section comes right after the first key's section
Refused ==
    /\ file' = IF CommitOnError THEN [k \in Keys |-> IF k = 1 THEN View[k] ELSE 0] ELSE file
    /\ cache' = View
    /\ last' = [op |-> "refused", k |-> 0, ret |-> 0]

Next == \/ \E k \in Keys : OwnerRead(k)
        \/ \E k \in Keys, v \in Vals : OwnerSet(k, v)
        \/ \E w \in Writers, k \in Keys, v \in Vals : ExtSet(w, k, v)
        \/ Refused
Spec == Init /\ [][Next]_vars

ReadFresh == last.op = "read" => last.ret = file[last.k]
WritePreserves == [][\A k \in Keys, v \in Vals : OwnerSet(k, v) => file' = [file EXCEPT ![k] = v]]_vars
RefusedAtomic == [][Refused => file' = file]_vars
\* the graph the harness walks hides the ghost variables
GraphView == <<file, IF Cached THEN cache ELSE file>>
=============================================================================

--------------------------- MODULE RecvPackTrace ---------------------------
(***************************************************************************)
(* Batch validation of recorded real pushes against RecvPack (C06).        *)
(*                                                                         *)
(* One ndjson line per execution of the real code:                         *)
(*   [tid, refs0: <<v per ref>>, store0: <<objects>>, push: <<descriptor>>,*)
(*    ev: <<event>>]                                                       *)
(* Events, in the global order in which they happened:                     *)
(*   [p, op |-> "lstart", olds]          local push read the refs          *)
(*   [p, op |-> "unpack", ok, store]     pack ingestion returned / raised  *)
(*   [p, op |-> "refop", i, pre, post, res, refs]                          *)
(*                                       ref operation for command i (0 =  *)
(*                                       a ref the push did not name):     *)
(*                                       value before / after, result      *)
(*                                       (1 TRUE, 0 FALSE, -1 exception)   *)
(*   [p, op |-> "done", unp, st, refs, store (, implied)]                  *)
(*                                       the push ended; what the client   *)
(*                                       was told; repository read back;   *)
(*                                       implied: for a push without       *)
(*                                       report-status, the statuses the   *)
(*                                       same push received in a second    *)
(*                                       real run with report-status added *)
(*                                                                         *)
(* The monitor rebuilds the variables of RecvPack from the events and      *)
(* evaluates RecvPack's own property operators after every event           *)
(* (property clauses -> VIOLATION).  Separately it checks that the events  *)
(* are what RecvPack's step operators predict under the design parameters  *)
(* in force (shape clauses -> SPEC-DRIFT only).                            *)
(***************************************************************************)
EXTENDS RecvPack, IOUtils

Traces == ndJsonDeserialize(IOEnv.TRACE_FILE)

VARIABLES tid, l, bad, shape
tvars == <<vars, tid, l, bad, shape>>

T == Traces[tid]
Ev == T.ev
SetOf(s) == {s[i] : i \in DOMAIN s}
NP == Len(T.push)

AnyPush(x) == TRUE
NoInits == {}

Desc(j) == [kind |-> j.kind, cmds |-> j.cmds, caps |-> SetOf(j.caps), pack |-> SetOf(j.pack),
            packok |-> j.packok, decl |-> SetOf(j.decl), predecl |-> j.predecl]
NoPush == [kind |-> "wire", cmds |-> <<>>, caps |-> {}, pack |-> {}, packok |-> TRUE, decl |-> {}, predecl |-> FALSE]

TraceInit ==
    /\ tid \in 1..Len(Traces)
    /\ l = 1 /\ bad = {} /\ shape = {}
    /\ ini = [refs |-> T.refs0, store |-> SetOf(T.store0)]
    /\ push = [p \in Pushers |-> IF p <= NP THEN Desc(T.push[p]) ELSE NoPush]
    /\ refs = T.refs0 /\ store = SetOf(T.store0)
    /\ pc = [p \in Pushers |-> IF p <= NP THEN "run" ELSE "done"]
    /\ k = [p \in Pushers |-> 1]
    /\ olds = [p \in Pushers |-> IF p <= NP THEN [i \in 1..Len(T.push[p].cmds) |-> T.push[p].cmds[i].old] ELSE <<>>]
    /\ unp = [p \in Pushers |-> "none"]
    /\ st = [p \in Pushers |-> IF p <= NP THEN [i \in 1..Len(T.push[p].cmds) |-> "-"] ELSE <<>>]
    /\ exe = [p \in Pushers |-> IF p <= NP THEN [i \in 1..Len(T.push[p].cmds) |-> FALSE] ELSE <<>>]
    /\ pre = [p \in Pushers |-> IF p <= NP THEN [i \in 1..Len(T.push[p].cmds) |-> 0] ELSE <<>>]
    /\ post = [p \in Pushers |-> IF p <= NP THEN [i \in 1..Len(T.push[p].cmds) |-> 0] ELSE <<>>]
    /\ hist = <<>> /\ emitted = FALSE

\* ---------------------------------------------------------------- ghost state from events
Apply(e) ==
    CASE e.op = "lstart" ->
            /\ olds' = [olds EXCEPT ![e.p] = e.olds]
            /\ UNCHANGED <<refs, store, pc, unp, st, exe, pre, post>>
      [] e.op = "unpack" ->
            /\ store' = SetOf(e.store)
            /\ unp' = [unp EXCEPT ![e.p] = IF e.ok THEN "ok" ELSE "fail"]
            /\ UNCHANGED <<refs, pc, olds, st, exe, pre, post>>
      [] e.op = "refop" ->
            /\ refs' = e.refs
            /\ IF e.i > 0
               THEN /\ exe' = [exe EXCEPT ![e.p][e.i] = TRUE]
                    \* a second operation on the same ref: keep the first `pre`
                    /\ pre' = [pre EXCEPT ![e.p][e.i] = IF exe[e.p][e.i] THEN @ ELSE e.pre]
                    /\ post' = [post EXCEPT ![e.p][e.i] = e.post]
               ELSE UNCHANGED <<exe, pre, post>>
            /\ UNCHANGED <<store, pc, olds, unp, st>>
      [] e.op = "done" ->
            /\ refs' = e.refs /\ store' = SetOf(e.store)
            \* a push without report-status: the statuses the same push got with report-status added
            /\ st' = [st EXCEPT ![e.p] = IF "implied" \in DOMAIN e THEN e.implied ELSE e.st]
            /\ unp' = [unp EXCEPT ![e.p] = IF e.unp \in {"ok", "fail"} THEN e.unp ELSE "none"]
            /\ pc' = [pc EXCEPT ![e.p] = "done"]
            /\ post' = [post EXCEPT ![e.p] = Finish(e.p, e.refs, exe[e.p], post[e.p])]
            /\ UNCHANGED <<olds, exe, pre>>

\* ---------------------------------------------------------------- property clauses (RecvPack's own operators, primed)
Clauses ==
    {<<"OkMeansHolds", w[1], w[2]>> : w \in BadOkMeansHolds'}
    \cup {<<"AppliedMeansOk", w[1], w[2]>> : w \in BadAppliedMeansOk'}
    \cup {<<"StaleUntouched", w[1], w[2]>> : w \in BadStaleUntouched'}
    \cup {<<"ImpliedSuccess", w[1], w[2]>> : w \in BadImpliedSuccess'}
    \cup {<<"NoDanglingRef", r, 0>> : r \in BadNoDanglingRef'}
    \cup {<<"AtomicOK", p, 0>> : p \in BadAtomicOK'}

\* ---------------------------------------------------------------- shape clauses (drift)
\* the ref operation behaved like the sequential compare-and-swap contract for the command
\* it implements (RefsLin.tla:Apply restricted to set_if_equals / remove_if_equals)
ShapeRefop(e) ==
    IF e.i = 0 THEN {<<"ForeignRefop", e.p, 0>>}
    ELSE LET c == C(e.p)[e.i]
             old == olds[e.p][e.i]
             hit == e.pre = old
         IN (IF e.res = -1 THEN {<<"RefopRaised", e.p, e.i>>} ELSE {})
            \cup (IF e.res # -1 /\ (e.res = 1) # hit THEN {<<"CasResult", e.p, e.i>>} ELSE {})
            \cup (IF e.post # (IF hit THEN c.new ELSE e.pre) THEN {<<"CasEffect", e.p, e.i>>} ELSE {})
            \cup (IF exe[e.p][e.i] THEN {<<"RefopTwice", e.p, e.i>>} ELSE {})
            \cup (IF IsLocal(e.p) THEN (IF ObjRejL(store, c) THEN {<<"ShouldSkip", e.p, e.i>>} ELSE {})
                  ELSE (IF ObjRejW(store, c) \/ (~IsAtomic(e.p) /\ c.r \in D(e.p).decl)
                        THEN {<<"ShouldSkip", e.p, e.i>>} ELSE {}))

\* the statuses the client was told are the ones the step operators give
ShapeDone(e) ==
    LET p == e.p
        want(i) == IF ~Reported(p) THEN "-"
                   ELSE IF e.unp # "ok" THEN "-"
                   ELSE IF exe[p][i]
                        THEN (IF IsLocal(p) THEN LocalStatus(pre[p][i] = olds[p][i])
                              ELSE WireStatus(pre[p][i] = olds[p][i]))
                        ELSE IF IsLocal(p) /\ \A j \in Idx(p) : ~exe[p][j] /\ C(p)[j].new # 0 /\ C(p)[j].new = olds[p][j]
                             THEN "ok"      \* nothing to do: early return
                             ELSE "ng"
    IN {<<"Status", p, i>> : i \in {j \in Idx(p) : e.st[j] # want(j)}}
       \cup (IF e.unp \notin {"ok", "fail", "none"} THEN {<<"PushCrashed", p, 0>>} ELSE {})
       \cup (IF e.rest # 0 THEN {<<"TrailingBytes", p, 0>>} ELSE {})

Shapes(e) == IF e.op = "refop" THEN ShapeRefop(e) ELSE IF e.op = "done" THEN ShapeDone(e) ELSE {}

\* pair clause: the run of the same push with report-status added ended in the same repository
PairClauses(e) ==
    IF e.op = "done" /\ "twinrefs" \in DOMAIN e
       /\ ~ReportIndependent(e.refs, SetOf(e.store), e.twinrefs, SetOf(e.twinstore))
    THEN {<<"ReportIndependent", e.p, 0>>} ELSE {}

Consume ==
    /\ l <= Len(Ev)
    /\ UNCHANGED <<tid, ini, push, k, hist, emitted>>
    /\ LET e == Ev[l] IN
         /\ Apply(e)
         /\ shape' = shape \cup Shapes(e)
    /\ bad' = bad \cup {<<c[1], c[2], c[3], l>> : c \in {d \in Clauses \cup PairClauses(Ev[l]) : \A b \in bad : <<b[1], b[2], b[3]>> # d}}
    /\ l' = l + 1

Finish2 ==
    /\ l = Len(Ev) + 1
    /\ PrintT(<<"VERDICT", T.tid, bad, shape>>)
    /\ l' = l + 1
    /\ UNCHANGED <<vars, tid, bad, shape>>

TraceNext == Consume \/ Finish2
TraceSpec == TraceInit /\ [][TraceNext]_tvars
=============================================================================

SPECIFICATION Spec
CONSTANTS
  TreeSet <- TreesMove
  Ops <- OpsMove
  MaxLen = 2
  Prots <- ProtsDefault
  FixDelete = TRUE
  FixPatch = TRUE
  CacheTrunc = TRUE
INVARIANT TypeOK
INVARIANT Confined
INVARIANT UnsafeRefused
CONSTRAINT Modelled
CHECK_DEADLOCK FALSE

SPECIFICATION Spec
CONSTANTS
  MaxLen = 5
  BaseSel = {1, 2, 3}
  PruneSrc = FALSE
INVARIANT InModel
INVARIANT RefSatisfiesPost
INVARIANT CandLength
INVARIANT PostAgrees
CHECK_DEADLOCK FALSE

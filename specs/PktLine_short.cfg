SPECIFICATION Spec
CONSTANTS
  Family = "prefix-short"
INVARIANT Theorems
CHECK_DEADLOCK FALSE

----------------------------- MODULE GraphViews -----------------------------
(***************************************************************************)
(* TLC as the enumerator of C13 cases in which the history the repository  *)
(* must answer about is NOT the one written in the commit objects, and an  *)
(* accelerator written earlier still describes the old one (spec -> code). *)
(*                                                                         *)
(* Multi-step history modelled by one state of level 1:                    *)
(*   1. the commits of a canonical DAG `par` on N commits are written;     *)
(*   2. a commit-graph is written over a down-closed part of it (cover);   *)
(*   3. commit c is cut: it becomes a shallow boundary (kind 0: the        *)
(*      repository sees no parents) or gets a graft point (kind 1: the     *)
(*      repository sees the parents P instead, any P among 1..c-1 that     *)
(*      differs from par[c], {} included).                                 *)
(* The property statement speaks about "the commit DAG": that is the DAG   *)
(* the repository presents, View(par, c, P) -- C git drops the             *)
(* commit-graph altogether in such a repository.  So every question has    *)
(* the graph-theoretic answer on View, whatever the accelerator covers.    *)
(*                                                                         *)
(* ans = <<c, kind, Mask(P)>> \o ancestors-or-self (masks) of every commit *)
(*       in the view \o masks of every possible commit-graph extent        *)
(*       (down-closed in the OBJECT DAG) that contains c, increasing.      *)
(* The harness builds the objects, attaches a commit-graph generated from  *)
(* them over one of the extents, applies the cut through the repository's  *)
(* own shallow / graft interface, asks the real functions and compares.    *)
(***************************************************************************)
EXTENDS Graph

CONSTANTS N

VARIABLES lvl, par, ans
vars == <<lvl, par, ans>>

C == 1..N
M == 2^N - 1

RECURSIVE MaskUpTo(_, _)
MaskUpTo(S, k) == IF k = 0 THEN 0 ELSE MaskUpTo(S, k - 1) + (IF k \in S THEN 2^(k - 1) ELSE 0)
Mask(S) == MaskUpTo(S, N)
Sub(m)  == {c \in C : (m \div 2^(c - 1)) % 2 = 1}

RECURSIVE Dags(_)
Dags(k) == IF k = 0 THEN {<<>>}
           ELSE {Append(d, P) : d \in Dags(k - 1), P \in SUBSET (1..(k - 1))}

\* what the repository's parents provider must present after the cut
View(p, c, P) == [x \in DOMAIN p |-> IF x = c THEN P ELSE p[x]]

Cuts(p) == {cut \in C \X {0, 1} \X SUBSET C :
              /\ cut[3] \subseteq 1..(cut[1] - 1)
              /\ cut[3] # p[cut[1]]
              /\ cut[2] = 0 => cut[3] = {}}

RECURSIVE Asc(_)
Asc(S) == IF S = {} THEN <<>>
          ELSE LET m == CHOOSE x \in S : \A y \in S : x <= y IN <<m>> \o Asc(S \ {m})

StaleCovers(p, c) == {m \in 1..M : c \in Sub(m) /\ DownClosed(p, Sub(m))}

ViewAnswers(p, cut) ==
    LET v == View(p, cut[1], cut[3])
        A == Anc(v)
    IN  <<cut[1], cut[2], Mask(cut[3])>> \o [x \in C |-> Mask(A[x])] \o Asc(StaleCovers(p, cut[1]))

Init == lvl = 0 /\ par \in Dags(N) /\ ans = <<>>

Cut == /\ lvl = 0
       /\ lvl' = 1
       /\ par' = par
       /\ \E cut \in Cuts(par) : ans' = ViewAnswers(par, cut)

Next == Cut
Spec == Init /\ [][Next]_vars

\* sanity of the definitions: a cut changes the answers only for descendants of the cut commit,
\* it really changes what c's ancestors are unless the new parents reach the same commits, and the
\* complete commit-graph is always among the stale extents
ViewOK ==
    lvl = 1 =>
      LET c  == ans[1]
          P  == Sub(ans[3])
          v  == View(par, c, P)
          A  == Anc(v)
          A0 == Anc(par)
      IN  /\ \A x \in C : c \notin A0[x] => A[x] = A0[x]
          /\ \A x \in C : Mask(A[x]) = ans[3 + x]
          /\ A[c] = {c} \cup UNION {A0[q] : q \in P}
          /\ ans[Len(ans)] = M
          /\ (ans[2] = 0 => A[c] = {c})
=============================================================================

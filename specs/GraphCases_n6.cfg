\* all 32768 canonical DAGs on 6 commits x 4 pseudo-randomly chosen weak orders out of 4683 each (thorough)
SPECIFICATION Spec
CONSTANTS
  MaxExtra = 5
  N = 6
  L = 6
  K = 4
  Seed = 0
INVARIANT DefsOK
CHECK_DEADLOCK FALSE

SPECIFICATION TraceSpec
CONSTANTS
  Refs = {1, 2, 3, 4, 5}
  Pushers = {1, 2, 3}
  Inits <- NoInits
  PushIn <- AnyPush
  CheckCas = FALSE
  CheckObj = FALSE
  AtomicMode = "hooks"
  LocalCheckObj = FALSE
  LocalAtomicMode = "none"
  KeepHist = FALSE
  Emit = FALSE
CHECK_DEADLOCK FALSE

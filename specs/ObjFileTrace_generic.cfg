SPECIFICATION TraceSpec
CONSTANTS
  NF = 3
  Vals = {0, 1}
  IsBlob = FALSE
  SetterMarksDirty = TRUE
  ExplicitSha1Recomputes = TRUE
  DirtyUntilSerialized = TRUE
  ChunkedResetsSha = TRUE
CHECK_DEADLOCK FALSE

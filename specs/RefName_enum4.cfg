SPECIFICATION EnumSpec
CONSTANTS
  MaxTokens = 4
INVARIANT Sane
CHECK_DEADLOCK FALSE

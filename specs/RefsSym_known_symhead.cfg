SPECIFICATION Spec
CONSTANT LockHead = FALSE
INVARIANT CasViaHeadSound
INVARIANT NoLockLeft
CHECK_DEADLOCK FALSE

---------------------------- MODULE WorkTreeConf ----------------------------
(***************************************************************************)
(* C17 - materialising a tree never writes outside the work tree or into   *)
(* its .git directory; unsafe entries are refused.                         *)
(*                                                                         *)
(* The state is an abstract file system (directories, files, symbolic      *)
(* links; path resolution follows symbolic links in leading components     *)
(* like the kernel), the index (path -> blob as recorded), and HEAD's      *)
(* tree.  The file system has three zones:                                 *)
(*     Outside   <<"p","of">> <<"p","od",..>> <<"p","ol">>   (canaries)    *)
(*               <<"p","repo-x","f">>  (sibling sharing the name prefix)   *)
(*     Git       <<"p","repo",".git",..>>      (config, hooks/, hooks/h)   *)
(*     WT        everything else below <<"p","repo">>                      *)
(* One action = one entry point of dulwich applied to one tree:            *)
(*     CL  porcelain.clone                (init + build_index_from_tree)   *)
(*     RI  WorkTree.reset_index(tree)     (build_index_from_tree on top)   *)
(*     CO  porcelain.checkout(commit)     (update_working_tree, not forced)*)
(*     COF porcelain.checkout(force=True)                                  *)
(*     RH  porcelain.reset(mode="hard")   (update_working_tree from index) *)
(*     RM  porcelain.reset(mode="mixed")  (HEAD and index move, the work   *)
(*                                         tree is untouched: index and    *)
(*                                         disk may now disagree)          *)
(*     ST  porcelain.stash_pop of a stash whose tree is the given tree     *)
(*     MV  porcelain.apply_patch of one rename / copy patch (action Move)  *)
(*     AP  porcelain.apply_patch, one file patch per regular file of the   *)
(*         tree: a patch that MODIFIES the path if it currently resolves   *)
(*         to a regular file (through links), else a "new file" patch      *)
(* Trees are sets of entries [n: raw name as a sequence of path elements,  *)
(* k: regular file (content class, mode class incl. set-id / world-        *)
(* writable bits) | symbolic link (target) | directory (children) |        *)
(* gitlink]; an entry name may itself contain "/" (several elements).      *)
(* The bodies are transcriptions of dulwich/index.py (build_file_from_blob,*)
(* verify_leading_dirs, build_index_from_tree, update_working_tree and its *)
(* _transition_to_* helpers), diff_tree.tree_changes (order of changes),   *)
(* stash.Stash.pop and patch.apply_patches, at the grain of file-system    *)
(* calls (lstat, unlink, rmdir, mkdir, makedirs, open(wb), chmod, symlink, *)
(* listdir, rmtree).  Every file-system mutation records the canonical     *)
(* location it touched; Confined says no touched location lies outside WT. *)
(*                                                                         *)
(* FixDelete / FixPatch select the repaired behaviour (TRUE) or the        *)
(* behaviour of the snapshot 671b511 (FALSE) for two defects found with    *)
(* this specification (negative controls run the FALSE variants).          *)
(* CacheTrunc = FALSE is the negative control for the verified-prefix      *)
(* cache of verify_leading_dirs (stale entries survive a change of         *)
(* directory and a symlinked a/d/c is trusted because a/b/c was verified). *)
(***************************************************************************)
EXTENDS WorkTreeConfNames

CONSTANTS TreeSet,      \* the trees an action may materialise
          Ops,          \* entry points explored
          MaxLen,       \* number of operations in a history
          Prots,        \* settings of core.protectNTFS / core.protectHFS explored
          FixDelete,    \* deletions refuse to traverse a symlinked leading directory
          FixPatch,     \* patch application replaces a symlink at the target path
          CacheTrunc    \* verify_leading_dirs drops the stale tail of its verified-prefix cache (TRUE: as implemented)

VARIABLES fs,      \* path (sequence of components from the model root) -> node
          idx,     \* tree path -> blob as recorded in the index
          head,    \* tree of HEAD's commit ({} when hasHead = FALSE)
          hasHead,
          prot,    \* [ntfs, hfs]
          n,       \* operations done
          out,     \* [op, res] of the last operation: res in ok / refused / err
          esc      \* some operation touched a location outside WT

vars == <<fs, idx, head, hasHead, prot, n, out, esc>>

(***************************************************************************)
(* Trees                                                                   *)
(***************************************************************************)
NoK     == [t |-> "none", c |-> "", m |-> "", to |-> <<>>, ch |-> {}]
FK(c, m) == [t |-> "f", c |-> c, m |-> m, to |-> <<>>, ch |-> {}]   \* m: 644 755 odd (0o106777) oddnx (0o104666)
LK(to)  == [t |-> "l", c |-> "", m |-> "", to |-> to, ch |-> {}]
DK(ch)  == [t |-> "d", c |-> "", m |-> "", to |-> <<>>, ch |-> ch]  \* children: blobs with one-component names
GK      == [t |-> "g", c |-> "", m |-> "", to |-> <<>>, ch |-> {}]
E(nm, k) == [n |-> nm, k |-> k]

ExecOf(k) == k.t = "f" /\ k.m \in {"755", "odd"}

\* order of raw names (bytes): component-wise by Rank, a prefix first
RECURSIVE NameLess(_, _)
NameLess(a, b) ==
    IF a = <<>> THEN b # <<>>
    ELSE IF b = <<>> THEN FALSE
    ELSE IF Head(a) = Head(b) THEN NameLess(Tail(a), Tail(b))
    ELSE Rank[Head(a)] < Rank[Head(b)]

RECURSIVE SortNames(_)
SortNames(S) == IF S = {} THEN <<>>
                ELSE LET m == CHOOSE x \in S : \A y \in S \ {x} : NameLess(x, y)
                     IN <<m>> \o SortNames(S \ {m})

EntryOf(T, nm) == IF \E e \in T : e.n = nm THEN (CHOOSE e \in T : e.n = nm).k ELSE NoK
Blob(k) == IF k.t = "d" THEN NoK ELSE k                              \* _skip_tree
Fmt(k) == k.t

\* posixpath.join as used for the paths below a directory entry: an empty directory name adds nothing
DirPrefix(prefix, nm) == IF nm = <<"">> THEN prefix ELSE prefix \o nm

\* iter_tree_contents: entries in tree order, directories expanded in place
RECURSIVE FlatSeqOf(_, _, _)
FlatSeqOf(T, names, prefix) ==
    IF names = <<>> THEN <<>>
    ELSE LET nm == Head(names)  k == EntryOf(T, nm) IN
         (IF k.t = "d" THEN FlatSeqOf(k.ch, SortNames({c.n : c \in k.ch}), DirPrefix(prefix, nm))
          ELSE <<[p |-> prefix \o nm, k |-> k]>>) \o FlatSeqOf(T, Tail(names), prefix)
FlatSeq(T) == FlatSeqOf(T, SortNames({e.n : e \in T}), <<>>)

\* a tree is well formed for this model if names are unique in every directory and flattened paths are unique
RECURSIVE NamesUnique(_)
NamesUnique(T) == /\ Cardinality({e.n : e \in T}) = Cardinality(T)
                  /\ \A e \in T : e.k.t = "d" => NamesUnique(e.k.ch)
WellFormed(T) == /\ NamesUnique(T)
                 /\ LET f == FlatSeq(T) IN Cardinality({f[i].p : i \in 1..Len(f)}) = Len(f)

(***************************************************************************)
(* diff_tree.tree_changes(old, new, want_unchanged): pre-order walk, names *)
(* merged in byte order; a type change is reported as delete + add         *)
(***************************************************************************)
Ch(ty, p, old, new) == [ty |-> ty, p |-> p, old |-> old, new |-> new]

EmitPair(k1, k2, p, wantU) ==
    IF k1 = NoK /\ k2 = NoK THEN <<>>
    ELSE IF k1 # NoK /\ k2 # NoK THEN
        IF Fmt(k1) # Fmt(k2) THEN <<Ch("D", p, k1, NoK), Ch("A", p, NoK, k2)>>
        ELSE IF k1 = k2 THEN (IF wantU THEN <<Ch("U", p, k1, k2)>> ELSE <<>>)
        ELSE <<Ch("M", p, k1, k2)>>
    ELSE IF k1 # NoK THEN <<Ch("D", p, k1, NoK)>>
    ELSE <<Ch("A", p, NoK, k2)>>

RECURSIVE ChangesIn(_, _, _, _, _)
ChangesIn(T1, T2, names, prefix, wantU) ==
    IF names = <<>> THEN <<>>
    ELSE LET nm == Head(names)  k1 == EntryOf(T1, nm)  k2 == EntryOf(T2, nm)
             c1 == IF k1.t = "d" THEN k1.ch ELSE {}
             c2 == IF k2.t = "d" THEN k2.ch ELSE {}
         IN EmitPair(Blob(k1), Blob(k2), prefix \o nm, wantU)
            \o (IF k1.t = "d" \/ k2.t = "d"
                THEN ChangesIn(c1, c2, SortNames({c.n : c \in c1 \cup c2}), DirPrefix(prefix, nm), wantU) ELSE <<>>)
            \o ChangesIn(T1, T2, Tail(names), prefix, wantU)

TreeChanges(T1, T2, wantU) == ChangesIn(T1, T2, SortNames({e.n : e \in T1 \cup T2}), <<>>, wantU)

(***************************************************************************)
(* File system                                                             *)
(***************************************************************************)
DirN        == [t |-> "d", c |-> "", x |-> FALSE, to |-> <<>>]
FileN(c, x) == [t |-> "f", c |-> c, x |-> x, to |-> <<>>]
LinkN(to)   == [t |-> "l", c |-> "", x |-> FALSE, to |-> to]

W == <<"p", "repo">>
G == <<"p", "repo", ".git">>

InitFS ==
    (<<>> :> DirN) @@ (<<"p">> :> DirN) @@
    (<<"p", "of">> :> FileN("A", FALSE)) @@
    (<<"p", "od">> :> DirN) @@ (<<"p", "od", "x">> :> FileN("A", FALSE)) @@
    (<<"p", "od", "e">> :> DirN) @@ (<<"p", "od", "e", "x">> :> FileN("A", FALSE)) @@
    (<<"p", "ol">> :> LinkN(<<"of">>)) @@
    (<<"p", "repo-x">> :> DirN) @@ (<<"p", "repo-x", "f">> :> FileN("A", FALSE)) @@   \* sibling whose name starts with the work tree's
    (W :> DirN) @@ (G :> DirN) @@
    (Append(G, "config") :> FileN("G", FALSE)) @@
    (Append(G, "hooks") :> DirN) @@ (G \o <<"hooks", "h">> :> FileN("A", FALSE))

IsPrefix(p, q) == Len(p) <= Len(q) /\ SubSeq(q, 1, Len(p)) = p
InWT(p) == IsPrefix(W, p) /\ p # W /\ ~IsPrefix(G, p)
Parent(p) == IF p = <<>> THEN <<>> ELSE SubSeq(p, 1, Len(p) - 1)
Front(s) == SubSeq(s, 1, Len(s) - 1)
Fuel == 6
IsAbs(cs) == Len(cs) >= 2 /\ cs[1] = ""

\* resolve all components but the last one, following symbolic links (lstat semantics)
RECURSIVE Walk(_, _, _, _)
Walk(F, cur, rest, fuel) ==
    IF rest = <<>> THEN [e |-> "ok", loc |-> cur]
    ELSE LET c == Head(rest)  tl == Tail(rest) IN
        IF c = "" \/ c = "." THEN Walk(F, cur, tl, fuel)
        ELSE IF c = ".." THEN Walk(F, Parent(cur), tl, fuel)
        ELSE LET child == Append(cur, c) IN
            IF tl = <<>> THEN [e |-> "ok", loc |-> child]
            ELSE IF child \notin DOMAIN F THEN [e |-> "ENOENT", loc |-> child]
            ELSE IF F[child].t = "d" THEN Walk(F, child, tl, fuel)
            ELSE IF F[child].t = "f" THEN [e |-> "ENOTDIR", loc |-> child]
            ELSE IF fuel = 0 THEN [e |-> "ELOOP", loc |-> child]
            ELSE Walk(F, IF IsAbs(F[child].to) THEN <<>> ELSE cur, F[child].to \o tl, fuel - 1)

\* os.path.join(W, tree path): an absolute tree path discards W
LRes(F, cs) == Walk(F, IF IsAbs(cs) THEN <<>> ELSE W, cs, Fuel)

\* also follow a symbolic link in the last component (stat / open semantics)
RECURSIVE Follow(_, _, _)
Follow(F, r, fuel) ==
    IF r.e # "ok" THEN r
    ELSE IF r.loc \in DOMAIN F /\ F[r.loc].t = "l" THEN
        IF fuel = 0 THEN [e |-> "ELOOP", loc |-> r.loc]
        ELSE Follow(F, Walk(F, IF IsAbs(F[r.loc].to) THEN <<>> ELSE Parent(r.loc), F[r.loc].to, fuel - 1), fuel - 1)
    ELSE r
SRes(F, cs) == Follow(F, LRes(F, cs), Fuel)

Present(F, r) == r.e = "ok" /\ r.loc \in DOMAIN F
Exists(F, cs) == Present(F, SRes(F, cs))                          \* os.path.exists
IsDirP(F, cs) == LET r == SRes(F, cs) IN Present(F, r) /\ F[r.loc].t = "d"
\* os.lstat: "none" (FileNotFoundError), "ERR" (another OSError), or the type of the node
LStatT(F, cs) == LET r == LRes(F, cs) IN
    IF r.e = "ENOENT" THEN "none" ELSE IF r.e # "ok" THEN "ERR"
    ELSE IF r.loc \notin DOMAIN F THEN "none" ELSE F[r.loc].t
\* the lstat of update_working_tree: a leading component that is a file (ENOTDIR) also means "absent"
LStatA(F, cs) == LET r == LRes(F, cs) IN
    IF r.e \in {"ENOENT", "ENOTDIR"} THEN "none" ELSE IF r.e # "ok" THEN "ERR"
    ELSE IF r.loc \notin DOMAIN F THEN "none" ELSE F[r.loc].t
LNode(F, cs) == F[LRes(F, cs).loc]

Children(F, loc) == {p \in DOMAIN F : Len(p) = Len(loc) + 1 /\ IsPrefix(loc, p)}
Desc(F, loc) == {p \in DOMAIN F : IsPrefix(loc, p)}
Remove(F, S) == [p \in DOMAIN F \ S |-> F[p]]
Put(F, loc, node) == [p \in DOMAIN F \cup {loc} |-> IF p = loc THEN node ELSE F[p]]

\* result of a file-system call: error name, new file system, touched locations
R(e, F, t) == [e |-> e, F |-> F, t |-> t]

Unlink(F, cs) == LET r == LRes(F, cs) IN
    IF r.e # "ok" THEN R(r.e, F, {})
    ELSE IF r.loc \notin DOMAIN F THEN R("ENOENT", F, {})
    ELSE IF F[r.loc].t = "d" THEN R("EISDIR", F, {})
    ELSE R("ok", Remove(F, {r.loc}), {r.loc})

Rmdir(F, cs) == LET r == LRes(F, cs) IN
    IF r.e # "ok" THEN R(r.e, F, {})
    ELSE IF r.loc \notin DOMAIN F THEN R("ENOENT", F, {})
    ELSE IF F[r.loc].t # "d" THEN R("ENOTDIR", F, {})
    ELSE IF Children(F, r.loc) # {} THEN R("ENOTEMPTY", F, {})
    ELSE R("ok", Remove(F, {r.loc}), {r.loc})

Mkdir(F, cs) == LET r == LRes(F, cs) IN
    IF r.e # "ok" THEN R(r.e, F, {})
    ELSE IF r.loc \in DOMAIN F THEN R("EEXIST", F, {})
    ELSE IF Parent(r.loc) \notin DOMAIN F THEN R("ENOENT", F, {})
    ELSE R("ok", Put(F, r.loc, DirN), {r.loc})

\* os.makedirs(W/cs, exist_ok)
RECURSIVE Makedirs(_, _, _)
Makedirs(F, cs, existOk) ==
    LET up == IF Len(cs) > 1 /\ ~Exists(F, Front(cs)) THEN Makedirs(F, Front(cs), existOk) ELSE R("ok", F, {})
    IN IF up.e \notin {"ok", "EEXIST"} THEN up
       ELSE LET m == Mkdir(up.F, cs) IN
            IF m.e = "ok" THEN R("ok", m.F, up.t \cup m.t)
            ELSE IF existOk /\ IsDirP(up.F, cs) THEN R("ok", up.F, up.t)
            ELSE R(m.e, up.F, up.t)

\* open(path, "wb") + write: follows a symbolic link in the last component, creates the file if absent
WriteFile(F, cs, c) == LET r == SRes(F, cs) IN
    IF r.e # "ok" THEN R(r.e, F, {})
    ELSE IF r.loc \in DOMAIN F THEN
        IF F[r.loc].t = "d" THEN R("EISDIR", F, {})
        ELSE R("ok", Put(F, r.loc, FileN(c, F[r.loc].x)), {r.loc})
    ELSE IF Parent(r.loc) \notin DOMAIN F \/ F[Parent(r.loc)].t # "d" THEN R("ENOENT", F, {})
    ELSE R("ok", Put(F, r.loc, FileN(c, FALSE)), {r.loc})

Chmod(F, cs, x) == LET r == SRes(F, cs) IN
    IF ~Present(F, r) THEN R("ENOENT", F, {})
    ELSE IF F[r.loc].t = "f" THEN R("ok", Put(F, r.loc, FileN(F[r.loc].c, x)), {r.loc})
    ELSE R("ok", F, {r.loc})

Symlink(F, to, cs) == LET r == LRes(F, cs) IN
    IF r.e # "ok" THEN R(r.e, F, {})
    ELSE IF r.loc \in DOMAIN F THEN R("EEXIST", F, {})
    ELSE IF Parent(r.loc) \notin DOMAIN F THEN R("ENOENT", F, {})
    ELSE R("ok", Put(F, r.loc, LinkN(to)), {r.loc})

\* shutil.rmtree: refuses a symbolic link, removes everything below a directory
Rmtree(F, cs) == LET r == LRes(F, cs) IN
    IF r.e # "ok" THEN R(r.e, F, {})
    ELSE IF r.loc \notin DOMAIN F THEN R("ENOENT", F, {})
    ELSE IF F[r.loc].t # "d" THEN R("ENOTDIR", F, {})
    ELSE R("ok", Remove(F, Desc(F, r.loc)), Desc(F, r.loc))

ListNames(F, cs) == LET r == SRes(F, cs) IN
    IF Present(F, r) /\ F[r.loc].t = "d" THEN {p[Len(p)] : p \in Children(F, r.loc)} ELSE {}

(***************************************************************************)
(* Running state of one operation: file system, index being built, touched *)
(* locations, r = "run" while executing, then ok / refused / err           *)
(***************************************************************************)
\* sp: the chain of leading directories already verified in this walk (safe_prefix of verify_leading_dirs;
\* shared across the entries by build_index_from_tree and Stash.pop, empty for every other call)
St(F, I) == [F |-> F, I |-> I, t |-> {}, r |-> "run", sp |-> <<>>]
Err(S)     == [S EXCEPT !.r = "err"]
Refused(S) == [S EXCEPT !.r = "refused"]
Done(S)    == IF S.r = "run" THEN [S EXCEPT !.r = "ok"] ELSE S
\* apply the result of a file-system call; any error ends the operation with an exception
Do(S, res) == IF S.r # "run" THEN S
              ELSE IF res.e = "ok" THEN [S EXCEPT !.F = res.F, !.t = S.t \cup res.t]
              ELSE [S EXCEPT !.r = "err", !.t = S.t \cup res.t]

FileIdx(c, x) == [t |-> "f", c |-> c, x |-> x, to |-> <<>>]
GIdx  == [t |-> "g", c |-> "", x |-> FALSE, to |-> <<>>]     \* gitlink recorded as such (build_index_from_tree)
GdIdx == [t |-> "gd", c |-> "", x |-> FALSE, to |-> <<>>]    \* gitlink recorded with the mode of the directory
GlIdx == [t |-> "gl", c |-> "", x |-> FALSE, to |-> <<>>]    \* gitlink recorded with the mode of a symbolic link
LinkIdx(to)   == [t |-> "l", c |-> "", x |-> FALSE, to |-> to]
IdxPut(I, p, v) == [q \in DOMAIN I \cup {p} |-> IF q = p THEN v ELSE I[q]]
IdxDel(I, p) == [q \in DOMAIN I \ {p} |-> I[q]]
EmptyIdx == [q \in {} |-> FileIdx("", FALSE)]
\* index_entry_from_stat of what is now at the path
IdxFromFs(F, cs, k) == LET nd == LNode(F, cs) IN
    IF nd.t = "l" THEN LinkIdx(nd.to) ELSE FileIdx(k.c, nd.x)

\* verify_leading_dirs(path, [], W): "ok" / "refused" (a leading component is a symlink) / "err"
RECURSIVE VerifyFrom(_, _, _)
VerifyFrom(F, lead, i) ==
    IF i > Len(lead) THEN "ok"
    ELSE LET r == Walk(F, W, SubSeq(lead, 1, i), Fuel) IN
         IF r.e = "ENOENT" THEN "ok"
         ELSE IF r.e # "ok" THEN "err"
         ELSE IF r.loc \notin DOMAIN F THEN "ok"
         ELSE IF F[r.loc].t = "l" THEN "refused"
         ELSE VerifyFrom(F, lead, i + 1)
VerifyLeading(F, cs) == IF Len(cs) <= 1 \/ (Len(cs) = 2 /\ cs[1] = "") THEN "ok" ELSE VerifyFrom(F, Front(cs), 1)

\* verify_leading_dirs(path, safe_prefix, W) with the shared cache: the components that agree with the
\* cached chain are trusted without an lstat; the rest are lstat-ed and appended.  Returns [v, sp].
RECURSIVE CommonLen(_, _, _)
CommonLen(a, b, k) == IF k < Len(a) /\ k < Len(b) /\ a[k + 1] = b[k + 1] THEN CommonLen(a, b, k + 1) ELSE k
RECURSIVE VerifyCachedFrom(_, _, _, _)
VerifyCachedFrom(F, lead, i, sp) ==
    IF i > Len(lead) THEN [v |-> "ok", sp |-> sp]
    ELSE LET r == Walk(F, W, SubSeq(lead, 1, i), Fuel) IN
         IF r.e = "ENOENT" THEN [v |-> "ok", sp |-> sp]
         ELSE IF r.e # "ok" THEN [v |-> "err", sp |-> sp]
         ELSE IF r.loc \notin DOMAIN F THEN [v |-> "ok", sp |-> sp]
         ELSE IF F[r.loc].t = "l" THEN [v |-> "refused", sp |-> sp]
         ELSE VerifyCachedFrom(F, lead, i + 1,
                               IF i <= Len(sp) THEN [sp EXCEPT ![i] = lead[i]] ELSE Append(sp, lead[i]))
VerifyCached(F, sp, cs) ==
    IF Len(cs) <= 1 \/ (Len(cs) = 2 /\ cs[1] = "") THEN [v |-> "ok", sp |-> sp]
    ELSE LET lead == Front(cs)
             common == CommonLen(sp, lead, 0)
             sp0 == IF CacheTrunc THEN SubSeq(sp, 1, common) ELSE sp      \* del safe_prefix[common:]
         IN VerifyCachedFrom(F, lead, common + 1, sp0)

\* build_file_from_blob(blob, mode, W/cs)
BuildFile(S, k, cs) ==
    IF S.r # "run" THEN S
    ELSE LET old == LStatT(S.F, cs) IN
    IF old = "ERR" THEN Err(S)
    ELSE IF k.t = "l" THEN
        LET S1 == IF old # "none" THEN Do(S, Unlink(S.F, cs)) ELSE S
        IN IF S1.r # "run" THEN S1 ELSE Do(S1, Symlink(S1.F, k.to, cs))
    ELSE
        LET S1 == IF old = "l" THEN Do(S, Unlink(S.F, cs)) ELSE S IN
        IF S1.r # "run" THEN S1
        ELSE IF old = "f" /\ LNode(S1.F, cs).c = k.c THEN S1          \* same content: returned as is (no chmod)
        ELSE LET S2 == Do(S1, WriteFile(S1.F, cs, k.c))
             IN IF S2.r # "run" THEN S2 ELSE Do(S2, Chmod(S2.F, cs, ExecOf(k)))

(***************************************************************************)
(* build_index_from_tree(W, index, store, tree)   (CL, RI)                 *)
(***************************************************************************)
BuildEntry(S, ent, pr) ==
    IF S.r # "run" THEN S
    ELSE IF ~ValidPath(ent.p, pr) THEN Refused(S)
    ELSE LET vc == VerifyCached(S.F, S.sp, ent.p)  v == vc.v  S0 == [S EXCEPT !.sp = vc.sp] IN
    IF v = "refused" THEN Refused(S) ELSE IF v = "err" THEN Err(S)
    ELSE LET S1 == IF Len(ent.p) > 1 /\ ~Exists(S0.F, Front(ent.p))
                   THEN Do(S0, Makedirs(S0.F, Front(ent.p), FALSE)) ELSE S0
             S2 == IF S1.r # "run" THEN S1
                   ELSE IF ent.k.t = "g" THEN (IF IsDirP(S1.F, ent.p) THEN S1 ELSE Do(S1, Mkdir(S1.F, ent.p)))
                   ELSE BuildFile(S1, ent.k, ent.p)
         IN IF S2.r # "run" THEN S2
            ELSE [S2 EXCEPT !.I = IdxPut(S2.I, ent.p, IF ent.k.t = "g" THEN GIdx ELSE IdxFromFs(S2.F, ent.p, ent.k))]

RECURSIVE BuildAll(_, _, _)
BuildAll(S, ents, pr) == IF S.r # "run" \/ ents = <<>> THEN S ELSE BuildAll(BuildEntry(S, Head(ents), pr), Tail(ents), pr)

BuildIndexFromTree(F, T, pr) == Done(BuildAll(St(F, EmptyIdx), FlatSeq(T), pr))

(***************************************************************************)
(* update_working_tree(repo, old, new, changes, allow_overwrite_modified)  *)
(***************************************************************************)
\* _check_file_matches of the regular file at cs against the blob k
FileMatches(F, cs, k) == LET nd == LNode(F, cs) IN k.t = "f" /\ nd.x = ExecOf(k) /\ nd.c = k.c

\* _remove_empty_parents(W/cs, W)
RECURSIVE RemoveEmptyParents(_, _)
RemoveEmptyParents(S, pcs) ==
    IF S.r # "run" \/ pcs = <<>> THEN S
    ELSE LET r == Rmdir(S.F, pcs) IN
         IF r.e = "ok" THEN RemoveEmptyParents(Do(S, r), Front(pcs))
         ELSE IF r.e \in {"ENOENT", "ENOTEMPTY"} THEN S
         ELSE Err(S)

\* the directory hierarchy at cs without its files: os.walk(topdown=False) + rmdir of every directory.
\* If anything but directories is below, the first non-empty directory ends it with an error; the
\* sub-hierarchies that consist of directories only have been removed by then (they are visited
\* before their parents; the order of sibling directories is not modelled).
ClearDirs(S, cs) ==
    LET loc == LRes(S.F, cs).loc
        D == Desc(S.F, loc)
        allDir(p) == \A q \in Desc(S.F, p) : S.F[q].t = "d"
    IN IF allDir(loc) THEN Do(S, R("ok", Remove(S.F, D), D))
       ELSE LET gone == {p \in D \ {loc} : allDir(p)}            \* IsADirectoryError after a partial clean-up
            IN [S EXCEPT !.F = Remove(S.F, gone), !.t = S.t \cup gone, !.r = "err"]

\* a directory found where a blob is wanted (_transition_to_file)
RemoveDirForFile(S, cs) ==
    LET names == ListNames(S.F, cs) IN
    IF ".git" \in names THEN (IF names = {".git"} THEN Do(S, Rmtree(S.F, cs)) ELSE Err(S))
    ELSE ClearDirs(S, cs)

\* a directory found where a blob was tracked (_transition_to_absent): removed if empty, else left
RemoveDirIfEmpty(S, cs) ==
    LET names == ListNames(S.F, cs) IN
    IF names = {".git"} THEN Do(S, Rmtree(S.F, cs))
    ELSE LET r == Rmdir(S.F, cs) IN IF r.e = "ENOTEMPTY" THEN S ELSE Do(S, r)

\* _transition_to_absent
TransAbsent(S, cs, st) ==
    IF st = "none" THEN [S EXCEPT !.I = IdxDel(S.I, cs)]    \* nothing on disk, the entry still leaves the index
    ELSE LET S1 == IF st = "d" THEN RemoveDirIfEmpty(S, cs) ELSE Do(S, Unlink(S.F, cs))
             S2 == IF S1.r = "run" THEN [S1 EXCEPT !.I = IdxDel(S1.I, cs)] ELSE S1
         IN RemoveEmptyParents(S2, Front(cs))

\* _transition_to_file
TransFile(S, cs, st, k) ==
    LET needs == IF st = "f" /\ k.t # "l" THEN ~FileMatches(S.F, cs, k)
                 ELSE IF st = "l" /\ k.t = "l" THEN LNode(S.F, cs).to # k.to
                 ELSE TRUE
    IN IF ~needs THEN [S EXCEPT !.I = IdxPut(S.I, cs, IdxFromFs(S.F, cs, k))]
       ELSE LET S1 == IF st = "d" THEN RemoveDirForFile(S, cs)
                      ELSE IF st # "none" THEN Do(S, Unlink(S.F, cs)) ELSE S
                S2 == IF S1.r = "run" /\ Len(cs) > 1 /\ ~Exists(S1.F, Front(cs))
                      THEN Do(S1, Makedirs(S1.F, Front(cs), FALSE)) ELSE S1
                S3 == BuildFile(S2, k, cs)
            IN IF S3.r # "run" THEN S3 ELSE [S3 EXCEPT !.I = IdxPut(S3.I, cs, IdxFromFs(S3.F, cs, k))]

\* _transition_to_submodule + ensure_submodule_placeholder
TransSub(S, cs, st) ==
    LET S1 == IF st \in {"none", "d"} THEN S ELSE Do(S, Unlink(S.F, cs))
        S2 == IF S1.r = "run" /\ ~Exists(S1.F, cs) THEN Do(S1, Makedirs(S1.F, cs, FALSE)) ELSE S1
        S3 == IF S2.r = "run" /\ ~Exists(S2.F, Append(cs, ".git"))
              THEN Do(S2, WriteFile(S2.F, Append(cs, ".git"), "M")) ELSE S2
    IN IF S3.r # "run" THEN S3
       ELSE [S3 EXCEPT !.I = IdxPut(S3.I, cs, GdIdx)]       \* index_entry_from_stat of a directory

ApplyChange(S, ch, pr) ==
    IF S.r # "run" THEN S
    ELSE IF ch.ty = "D" THEN
        IF ~ValidPath(ch.p, pr) THEN S
        ELSE IF FixDelete /\ VerifyLeading(S.F, ch.p) = "refused"
             THEN [S EXCEPT !.I = IdxDel(S.I, ch.p)]       \* repaired: the link is not followed, the entry is gone
        ELSE IF VerifyLeading(S.F, ch.p) = "err" /\ FixDelete THEN Err(S)
        ELSE LET st == LStatA(S.F, ch.p) IN
             IF st = "ERR" THEN Err(S) ELSE TransAbsent(S, ch.p, st)
    ELSE
        IF ~ValidPath(ch.p, pr) THEN Refused(S)
        ELSE LET v == VerifyLeading(S.F, ch.p) IN
        IF v = "refused" THEN Refused(S) ELSE IF v = "err" THEN Err(S)
        ELSE LET st == LStatA(S.F, ch.p) IN
        IF st = "ERR" THEN Err(S)
        ELSE IF ch.new.t = "g" THEN TransSub(S, ch.p, st)
        ELSE TransFile(S, ch.p, st, ch.new)

RECURSIVE ApplyChanges(_, _, _)
ApplyChanges(S, chs, pr) ==
    IF S.r # "run" \/ chs = <<>> THEN S ELSE ApplyChanges(ApplyChange(S, Head(chs), pr), Tail(chs), pr)

\* "paths becoming directories" pre-check.  Every caller modelled here runs with allow_overwrite_modified
\* (forced checkout, reset --hard): a locally modified file that becomes a directory is overwritten, so
\* only an lstat failure other than "absent" ends the operation here.  (The unforced checkout refuses
\* modified files before anything is touched: that is CO's separate alternative in Results.)
BecomingDirsOk(F, chs) ==
    \A i \in 1..Len(chs), j \in 1..Len(chs) :
        (/\ chs[i].ty \in {"A", "M"} /\ Len(chs[i].p) > 1
         /\ chs[j].ty = "D" /\ Len(chs[j].p) < Len(chs[i].p) /\ IsPrefix(chs[j].p, chs[i].p))
        => LStatA(F, chs[j].p) # "ERR"

UpdateWorkingTree(F, I, chs, pr) ==
    IF ~BecomingDirsOk(F, chs) THEN Err(St(F, I))
    \* every removal first, then the additions and modifications (each in path order)
    ELSE Done(ApplyChanges(ApplyChanges(St(F, I), SelectSeq(chs, LAMBDA c : c.ty = "D"), pr),
                           SelectSeq(chs, LAMBDA c : c.ty # "D"), pr))

(***************************************************************************)
(* The tree an index stands for (Index.commit): nested by components       *)
(***************************************************************************)
TreeKindOfIdx(v) == IF v.t = "l" THEN LK(v.to) ELSE IF v.t = "g" THEN GK ELSE FK(v.c, IF v.x THEN "755" ELSE "644")
IdxSane(I) == /\ \A p, q \in DOMAIN I : p # q => ~IsPrefix(p, q)
              /\ \A p \in DOMAIN I : \A i \in 1..Len(p) : p[i] # ""
RECURSIVE Nest(_)
Nest(I) ==
    { E(p, TreeKindOfIdx(I[p])) : p \in {q \in DOMAIN I : Len(q) = 1} }
    \cup { E(<<d>>, DK(Nest([r \in {Tail(q) : q \in {q2 \in DOMAIN I : Len(q2) > 1 /\ q2[1] = d}} |-> I[<<d>> \o r]])))
           : d \in {q[1] : q \in {q2 \in DOMAIN I : Len(q2) > 1}} }

(***************************************************************************)
(* Stash.pop of a stash commit (one parent: HEAD) whose tree is T          *)
(***************************************************************************)
\* index entry v has the mode and the blob of tree entry k
SameEntry(v, k) == \/ v.t = "f" /\ k.t = "f" /\ v.c = k.c /\ k.m \in {"644", "755"} /\ v.x = (k.m = "755")
                   \/ v.t = "l" /\ k.t = "l" /\ v.to = k.to
                   \/ v.t = "g" /\ k.t = "g"
StashEntry(S, ent, pr) ==
    IF S.r # "run" THEN S
    ELSE IF ~ValidPath(ent.p, pr) THEN Refused(S)
    ELSE LET vc == VerifyCached(S.F, S.sp, ent.p)  v == vc.v  S0 == [S EXCEPT !.sp = vc.sp] IN
    IF v = "refused" THEN Refused(S) ELSE IF v = "err" THEN Err(S)
    ELSE LET S1 == IF Len(ent.p) > 1 /\ ~Exists(S0.F, Front(ent.p))
                   THEN Do(S0, Makedirs(S0.F, Front(ent.p), FALSE)) ELSE S0
             S2 == IF S1.r # "run" THEN S1
                   ELSE IF ent.k.t = "g" THEN (IF IsDirP(S1.F, ent.p) THEN S1 ELSE Do(S1, Mkdir(S1.F, ent.p)))
                   ELSE BuildFile(S1, ent.k, ent.p)
             newv == IF ent.k.t = "g" THEN (IF LNode(S2.F, ent.p).t = "l" THEN GlIdx ELSE GdIdx)
                     ELSE IdxFromFs(S2.F, ent.p, ent.k)
         IN IF S2.r # "run" THEN S2
            \* an entry that is staged with another blob or mode keeps it; otherwise index_entry_from_stat
            ELSE IF ent.p \in DOMAIN S2.I /\ ~SameEntry(S2.I[ent.p], ent.k) THEN S2
            ELSE [S2 EXCEPT !.I = IdxPut(S2.I, ent.p, newv)]
RECURSIVE StashAll(_, _, _)
StashAll(S, ents, pr) == IF S.r # "run" \/ ents = <<>> THEN S ELSE StashAll(StashEntry(S, Head(ents), pr), Tail(ents), pr)
StashPop(F, I, T, pr) == Done(StashAll(St(F, I), FlatSeq(T), pr))

(***************************************************************************)
(* patch.apply_patches of "new file" patches for the regular files of T    *)
(* (the index is written after every file)                                 *)
(***************************************************************************)
\* _ensure_within_repo: os.path.realpath of the target must be W or below W
WithinRepo(F, cs) == IsPrefix(W, SRes(F, cs).loc)

PatchEntry(S, ent, pr) ==
    IF S.r # "run" THEN S
    ELSE IF ~WithinRepo(S.F, ent.p) THEN Refused(S)
    ELSE IF ~ValidPath(ent.p, pr) THEN Refused(S)
    ELSE LET v == VerifyLeading(S.F, ent.p) IN
    IF v = "refused" THEN Refused(S) ELSE IF v = "err" THEN Err(S)
    ELSE LET r0 == SRes(S.F, ent.p)
             isMod == Present(S.F, r0) /\ S.F[r0.loc].t = "f"     \* the patch modifies an existing file: no mode line
             S1 == IF Len(ent.p) > 1 THEN Do(S, Makedirs(S.F, Front(ent.p), TRUE)) ELSE S
             S2 == IF S1.r = "run" /\ FixPatch /\ LStatT(S1.F, ent.p) = "l" THEN Do(S1, Unlink(S1.F, ent.p)) ELSE S1
             S3 == IF S2.r = "run" THEN Do(S2, WriteFile(S2.F, ent.p, ent.k.c)) ELSE S2
             S4 == IF S3.r = "run" /\ ~isMod THEN Do(S3, Chmod(S3.F, ent.p, ExecOf(ent.k))) ELSE S3
         IN IF S4.r # "run" THEN S4
            ELSE LET r == SRes(S4.F, ent.p) IN                      \* os.stat follows the link
                 [S4 EXCEPT !.I = IdxPut(S4.I, ent.p, FileIdx(ent.k.c, S4.F[r.loc].x))]
RECURSIVE PatchAll(_, _, _)
PatchAll(S, ents, pr) == IF S.r # "run" \/ ents = <<>> THEN S ELSE PatchAll(PatchEntry(S, Head(ents), pr), Tail(ents), pr)
ApplyPatch(F, I, T, pr) ==
    Done(PatchAll(St(F, I), SelectSeq(FlatSeq(T), LAMBDA ent : ent.k.t = "f"), pr))

(***************************************************************************)
(* patch.apply_patches of one rename / copy patch (with or without a hunk) *)
(* m = [mode: "ren" | "cpy", hunks: BOOLEAN, src, dst]; a patch with a     *)
(* hunk replaces the source's lines by the line "B".  Destination and      *)
(* source both go through _validate_patch_target.                          *)
(***************************************************************************)
PatchTargetOk(F, cs, pr) ==           \* "ok" / "refused" / "err"
    IF ~WithinRepo(F, cs) \/ ~ValidPath(cs, pr) THEN "refused" ELSE VerifyLeading(F, cs)

MovePatch(F, I, m, pr) ==
    LET S == St(F, I)
        vd == PatchTargetOk(F, m.dst, pr)
        vs == PatchTargetOk(F, m.src, pr)
    IN IF vd = "refused" THEN Refused(S) ELSE IF vd = "err" THEN Err(S)
       ELSE IF vs = "refused" THEN Refused(S) ELSE IF vs = "err" THEN Err(S)
       ELSE LET r == SRes(F, m.src)
                onDisk == Present(F, r)
                readable == IF onDisk THEN F[r.loc].t = "f"                              \* a directory: IsADirectoryError
                            ELSE m.src \in DOMAIN I /\ I[m.src].t = "f"                  \* else the blob in the index
                c == IF onDisk THEN F[r.loc].c ELSE I[m.src].c
            IN IF ~readable THEN Err(S)
               ELSE LET S1 == IF Len(m.dst) > 1 THEN Do(S, Makedirs(S.F, Front(m.dst), TRUE)) ELSE S
                        S2 == IF S1.r = "run" /\ FixPatch /\ LStatT(S1.F, m.dst) = "l" THEN Do(S1, Unlink(S1.F, m.dst)) ELSE S1
                        S3 == IF S2.r = "run" THEN Do(S2, WriteFile(S2.F, m.dst, IF m.hunks THEN "B" ELSE c)) ELSE S2
                        S4 == IF S3.r # "run" THEN S3
                              ELSE [S3 EXCEPT !.I = IdxPut(S3.I, m.dst, FileIdx(IF m.hunks THEN "B" ELSE c,
                                                                                  S3.F[SRes(S3.F, m.dst).loc].x))]
                        S5 == IF S4.r = "run" /\ m.mode = "ren" /\ Exists(S4.F, m.src) THEN Do(S4, Unlink(S4.F, m.src)) ELSE S4
                    IN IF S5.r # "run" THEN S5
                       ELSE Done(IF m.mode = "ren" THEN [S5 EXCEPT !.I = IdxDel(S5.I, m.src)] ELSE S5)

(***************************************************************************)
(* Operations: the set of admissible results of op on tree T               *)
(***************************************************************************)
Res(S, I2, hd, hh) == [F |-> S.F, I |-> I2, head |-> hd, hasHead |-> hh, r |-> S.r, t |-> S.t]

Results(op, T) ==
    CASE op \in {"CL", "RI", "SU"} ->
            \* "SU": porcelain.submodule_update, first-time checkout of a submodule whose tree is T into the
            \* (not yet existing) directory W, under the settings of the superproject: the same
            \* build_index_from_tree as a clone, but reached through another entry point
            LET S == BuildIndexFromTree(fs, T, prot) IN
            {Res(S, IF S.r = "ok" THEN S.I ELSE idx, IF op \in {"CL", "SU"} THEN T ELSE head,
                 IF op \in {"CL", "SU"} THEN TRUE ELSE hasHead)}
      [] op \in {"CO", "COF"} ->
            LET S == UpdateWorkingTree(fs, idx, TreeChanges(IF hasHead THEN head ELSE {}, T, FALSE), prot) IN
            {Res(S, IF S.r = "ok" THEN S.I ELSE idx, IF S.r = "ok" THEN T ELSE head, IF S.r = "ok" THEN TRUE ELSE hasHead)}
            \cup (IF op = "CO" /\ hasHead          \* local modifications: refused before anything is touched
                  THEN {Res(Err(St(fs, idx)), idx, head, hasHead)} ELSE {})
      [] op = "RH" ->
            IF \E p \in DOMAIN idx : idx[p].t = "gd"
            THEN {Res(Err(St(fs, idx)), idx, T, TRUE)}     \* the index names a tree that does not exist: KeyError before anything is touched
            ELSE LET S == UpdateWorkingTree(fs, idx, TreeChanges(Nest(idx), T, TRUE), prot) IN
                 {Res(S, IF S.r = "ok" THEN S.I ELSE idx, T, TRUE)}
      [] op = "RM" ->        \* index := the tree as it is (no validation), HEAD := T, nothing on disk
            LET f == FlatSeq(T) IN
            {Res(Done(St(fs, idx)),
                 [q \in {f[i].p : i \in 1..Len(f)} |->
                     LET k == (CHOOSE i \in 1..Len(f) : f[i].p = q) IN
                     IF f[k].k.t = "l" THEN LinkIdx(f[k].k.to) ELSE IF f[k].k.t = "g" THEN GIdx
                     ELSE FileIdx(f[k].k.c, ExecOf(f[k].k))],
                 T, TRUE)}
      [] op \in {"ST", "STL"} ->     \* "STL": Stash.pop on one long-lived Stash object (every pop verifies afresh)
            LET S == StashPop(fs, idx, T, prot) IN {Res(S, IF S.r = "ok" THEN S.I ELSE idx, head, hasHead)}
      [] op = "AP" ->
            LET S == ApplyPatch(fs, idx, T, prot) IN {Res(S, S.I, head, hasHead)}

\* history variable (out.lp): the leading directories that pops through the long-lived Stash object have
\* verified so far.  The design gives it no influence on any result; it only keeps apart the histories in
\* which an implementation that remembered verified directories across pops would behave differently.
LeadDirs(T) == LET f == FlatSeq(T) IN UNION {{SubSeq(f[i].p, 1, k) : k \in 1..(Len(f[i].p) - 1)} : i \in 1..Len(f)}

Enabled(op) ==
    /\ op = "CL" => n = 0 /\ prot = [ntfs |-> TRUE, hfs |-> FALSE]   \* the clone runs with a fresh configuration
    /\ op \in {"ST", "STL"} => hasHead
    /\ op = "SU" => n = 0                                           \* first-time checkout of the submodule
    /\ out.op # "SU"                                                \* (histories are not continued after it)
    /\ op \in {"RH"} => IdxSane(idx)

Step(op, T) ==
    /\ n < MaxLen
    /\ Enabled(op)
    /\ \E res \in Results(op, T) :
        /\ fs' = res.F /\ idx' = res.I /\ head' = res.head /\ hasHead' = res.hasHead
        /\ out' = [op |-> op, res |-> res.r, lp |-> IF op = "STL" THEN out.lp \cup LeadDirs(T) ELSE out.lp]
        /\ esc' = (esc \/ \E loc \in res.t : ~InWT(loc))
    /\ n' = n + 1
    /\ UNCHANGED prot

Init == /\ fs = InitFS /\ idx = EmptyIdx /\ head = {} /\ hasHead = FALSE
        /\ prot \in Prots /\ n = 0 /\ out = [op |-> "init", res |-> "ok", lp |-> {}] /\ esc = FALSE

\* one rename / copy patch through porcelain.apply_patch (explored when "MV" is among the operations)
Move(m) ==
    /\ n < MaxLen /\ "MV" \in Ops /\ m.src # m.dst /\ out.op # "SU"
    /\ LET S == MovePatch(fs, idx, m, prot) IN
        /\ fs' = S.F /\ idx' = (IF S.r = "ok" THEN S.I ELSE idx)
        /\ out' = [op |-> "MV", res |-> S.r, lp |-> out.lp]
        /\ esc' = (esc \/ \E loc \in S.t : ~InWT(loc))
    /\ n' = n + 1
    /\ UNCHANGED <<head, hasHead, prot>>

MoveSrcs == {<<"..", "of">>, <<"", "p", "of">>, <<".git", "config">>, <<"d", "x">>, <<"a">>, <<"d">>}
MoveDsts == {<<"e">>, <<"..", "tmp">>}
MovesAll == [mode : {"ren", "cpy"}, hunks : BOOLEAN, src : MoveSrcs, dst : MoveDsts]

Next == \/ \E op \in Ops \ {"MV"}, T \in TreeSet : Step(op, T)
        \/ \E m \in MovesAll : Move(m)
Spec == Init /\ [][Next]_vars

(***************************************************************************)
(* Properties                                                              *)
(***************************************************************************)
Protected(F) == [p \in {q \in DOMAIN F : ~InWT(q)} |-> F[p]]
\* nothing outside the work tree and nothing inside .git is created, overwritten, deleted or chmod-ed
Confined == ~esc /\ Protected(fs) = Protected(InitFS)
\* no element that is unsafe under the current settings exists in the work tree
UnsafeRefused == \A p \in DOMAIN fs : InWT(p) =>
                    \A i \in (Len(W) + 1)..Len(p) :
                        (p[i] \in DOMAIN Chars /\ Unsafe(Chars[p[i]], prot))
                            => (p[i] = ".git" /\ i = Len(p) /\ i > Len(W) + 1 /\ fs[p].c = "M")
\* exploration stops where the index records a gitlink with a symbolic link's mode (not modelled further)
Modelled == \A p \in DOMAIN idx : idx[p].t # "gl"
TypeOK == /\ n \in 0..MaxLen /\ out.res \in {"ok", "refused", "err"} /\ esc \in BOOLEAN

(***************************************************************************)
(* Alphabets (cfg files cannot hold tuples: select with  TreeSet <- ...)   *)
(***************************************************************************)
FA == FK("A", "644")
FB == FK("B", "odd")
FX == FK("A", "755")
FN == FK("B", "oddnx")
Lod  == LK(<<"..", "od">>)               \* parent-relative, outside directory
Lof  == LK(<<"..", "of">>)               \* parent-relative, outside file
Labs == LK(<<"", "p", "od">>)            \* absolute, outside directory
Lgit == LK(<<".git">>)                   \* the control directory
Lcfg == LK(<<".git", "config">>)         \* a file in the control directory
Lhk  == LK(<<".git", "hooks">>)
La   == LK(<<"a">>)                      \* sibling
Ld   == LK(<<"d">>)
Lsx  == LK(<<"..", "repo-x", "f">>)      \* file in the sibling whose name has the work tree's name as a prefix
Lsd  == LK(<<"..", "repo-x">>)
\* dangling: the target does not exist (outside, sibling, a hook in .git, absolute)
Ldo == LK(<<"..", "tmp">>)
Lds == LK(<<"..", "repo-x", "x">>)
Ldg == LK(<<".git", "hooks", "x">>)
Lda == LK(<<"", "p", "tmp">>)
Lup  == LK(<<"..", "..", "od">>)         \* for links one level down
DA   == DK({E(<<"x">>, FA)})
DB   == DK({E(<<"x">>, FB)})
DC   == DK({E(<<"config">>, FA)})
DH   == DK({E(<<"h">>, FB)})
DL   == DK({E(<<"x">>, Lup)})
DD   == DK({E(<<"e">>, DK({E(<<"x">>, FB)}))})          \* d/e/x
DG   == DK({E(<<"x">>, GK)})                           \* d/x is a gitlink
DLe  == DK({E(<<"e">>, LK(<<"..", "..", "od">>))})     \* d/e -> ../../od

TreesOver(ents, maxE) == {T \in ({{}} \cup {{e} : e \in ents}
                                  \cup (IF maxE >= 2 THEN {{e1, e2} : e1 \in ents, e2 \in ents} ELSE {})) : WellFormed(T)}

\* tiny: the histories of three operations
EntsTiny == {E(<<"d">>, k) : k \in {FB, Lod, Lsx, DA, DB}} \cup {E(<<"git~1">>, FA)}
TreesTiny == TreesOver(EntsTiny, 1)
TreesPatchNeg == {{E(<<"d">>, Lcfg)}, {E(<<"d">>, FB)}}
\* core
EntsCore == {E(<<"d">>, k) : k \in {FA, FB, Lod, Lof, Labs, Lgit, Lcfg, Lsx, Lsd, Ldo, Ldg, La, DA, DB, DC, DD, DLe, GK}}
            \cup {E(<<"a">>, k) : k \in {FA, Ld, DA}}
            \cup {E(<<".git">>, FA), E(<<"git~1">>, FA), E(<<"d", "x">>, FA), E(<<"..", "of">>, FA)}
TreesCore == TreesOver(EntsCore, 1)
             \cup {T \in TreesOver(EntsCore, 2) : Cardinality(T) = 2 /\ \E e \in T : e.n \in {<<"a">>, <<"git~1">>}}
\* mid: two operations, both settings
EntsMid == {E(<<"d">>, k) : k \in {FB, Lod, Lgit, Lcfg, Lsx, DA, DB, DD, DLe, GK}} \cup {E(<<"a">>, k) : k \in {FA, Ld}}
           \cup {E(<<"git~1">>, FA), E(<<"..", "of">>, FA)}
TreesMid == {T \in TreesOver(EntsMid, 2) : Cardinality(T) = 2 => \E e \in T : e.n \in {<<"git~1">>}}
            \cup {{E(<<"a">>, FA), E(<<"d">>, DB)}, {E(<<"a">>, Ld), E(<<"d">>, DB)}}
\* dangling links
TreesDang == TreesOver({E(<<"d">>, k) : k \in {Ldo, Lds, Ldg, Lda, FB, DB}}, 1)
\* deep paths with a same-named component in sibling directories (the verified-prefix cache)
Lout3 == LK(<<"..", "..", "..", "od">>)
DeepLink  == {E(<<"a">>, DK({E(<<"d">>, DK({E(<<"c">>, Lout3), E(<<"e">>, FA)}))}))}                    \* a/d/c -> outside
DeepFiles == {E(<<"a">>, DK({E(<<"b">>, DK({E(<<"c">>, DK({E(<<"e">>, FA), E(<<"x">>, FA)}))})),
                             E(<<"d">>, DK({E(<<"0">>, FA), E(<<"c">>, DK({E(<<"z">>, FB)}))}))}))}     \* a/b/c/{e,x} a/d/0 a/d/c/z
DeepCraft == {E(<<"a">>, DK({E(<<"b">>, DK({E(<<"c">>, DK({E(<<"e">>, FA), E(<<"x">>, FA)}))})),
                             E(<<"d">>, DK({E(<<"0">>, FA), E(<<"c">>, Lout3), E(<<"c", "z">>, FB)}))}))} \* one tree: c is a link, "c/z" a name
DeepOne   == {E(<<"a">>, DK({E(<<"d">>, DK({E(<<"c">>, DK({E(<<"z">>, FB)}))}))}))}
TreesDeep == {{}, DeepLink, DeepFiles, DeepCraft, DeepOne}
OpsWalk == {"CL", "RI", "ST", "RH", "COF"}
\* rename / copy patches with hostile sources, and "unchanged entry whose file is missing" for reset --hard
TreesMove == {{}, {E(<<"d">>, Lod)}, {E(<<"d">>, DA)}, {E(<<"a">>, FA)}, {E(<<"a">>, LK(<<"..", "of">>))}}
OpsMove == {"RH", "MV"}
DF == DK({E(<<"f">>, FA)})              \* d/f: no file of that name exists in the outside directories
TreesUnch == {{}, {E(<<"d">>, Lod)}, {E(<<"d">>, Lgit)}, {E(<<"d">>, DF)}, {E(<<"d">>, DK({E(<<"x">>, FX)}))}}
OpsUnch == {"RH", "RM", "COF", "RI"}
\* gitlinks: three operations
EntsGl == {E(<<"d">>, k) : k \in {GK, FB, Lod, DA, DK({E(<<"x">>, GK)})}} \cup {E(<<"git~1">>, FA)}
TreesGl == TreesOver(EntsGl, 1)
\* small: three operations
EntsSmall == {E(<<"d">>, k) : k \in {FB, Lod, Lgit, Lcfg, Lsx, DA, DB, DC, DD, DLe, GK}} \cup {E(<<"a">>, k) : k \in {DA}}
             \cup {E(<<"git~1">>, FA)}
TreesSmall == {T \in TreesOver(EntsSmall, 2) : Cardinality(T) = 2 => \E e \in T : e.n = <<"a">>}
\* full
EntsFull == {E(<<"d">>, k) : k \in {FA, FB, FX, FN, Lod, Lof, Labs, Lgit, Lcfg, Lhk, Lsx, Lsd, Ldo, Lds, Ldg, Lda, La, DA, DB, DC, DH, DL, DD, DLe, GK, DG}}
            \cup {E(<<"a">>, k) : k \in {FA, FB, Ld, Lod, DA}}
            \cup {E(<<".git">>, FA), E(<<"git~1">>, FA), E(<<"d", "x">>, FA), E(<<"d", "x">>, FB)}
TreesFull == TreesOver(EntsFull, 1)
             \cup {T \in TreesOver(EntsFull, 2) : Cardinality(T) = 2 /\ \E e \in T : e \in {E(<<"a">>, Ld), E(<<"a">>, DA), E(<<"git~1">>, FA)}}
\* every name of the adversarial alphabet, one entry per tree, regular file and symbolic link
NamesAdv == {<<c>> : c \in Comps \ {"p", "repo", "config", "hooks", "h", "tmp", "e", "of", "od", "ol", "repo-x", "f", "b", "c", "0", "z"}}
            \cup {<<"..", "of">>, <<"..", "..", "tmp">>, <<"d", "..", "..", "of">>, <<".git", "x">>,
                  <<".git", "hooks", "x">>, <<"a", ".git", "x">>, <<"a", ".GIT", "x">>, <<"", "p", "of">>, <<"", "p", "tmp">>,
                  <<"", "p", "repo", ".git", "x">>, <<"d", "", "x">>, <<"d", ".", "x">>, <<"d", "x">>, <<"a", "">>,
                  <<"a", "git~1", "x">>, <<"a", ".git ", "x">>, <<"a", ".g{ZWNJ}it", "x">>}
TreesNames == {{E(nm, k)} : nm \in NamesAdv, k \in {FB, Lof}}
              \cup {{E(nm, DB)} : nm \in {x \in NamesAdv : Len(x) = 1}}       \* a directory of that name, e.g. .GIT/x

ProtsDefault == {[ntfs |-> TRUE, hfs |-> FALSE]}
ProtsQuick == {[ntfs |-> TRUE, hfs |-> FALSE], [ntfs |-> FALSE, hfs |-> FALSE]}
OpsAll == {"CL", "RI", "CO", "COF", "RH", "RM", "ST", "AP", "SU"}
\* one long-lived Stash object: pop while d is a directory, d becomes a link, pop again (four operations)
TreesPop == {{E(<<"d">>, DB)}, {E(<<"d">>, Lod)}, {E(<<"d">>, Lhk)}}
OpsPop == {"RH", "STL"}
OpsNoClone == {"RI", "CO", "COF", "RH", "RM", "ST", "AP"}
=============================================================================

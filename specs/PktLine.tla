------------------------------ MODULE PktLine ------------------------------
(***************************************************************************)
(* The pkt-line framing of the git wire protocol (protocol-common.txt,     *)
(* git's pkt-line.c) as a reference semantics over byte sequences:         *)
(*                                                                         *)
(*   frame      = 4 hex digits n, then n-4 payload bytes                   *)
(*   n = 0000   flush-pkt     n = 0001  delim-pkt    n = 0002 response-end *)
(*   n = 0003   not a frame   n <= 65520 for every frame a writer emits    *)
(*   side-band  = data frame whose first payload byte is the channel       *)
(*                (1 pack data, 2 progress, 3 fatal), <= 65515 data bytes  *)
(*   ref line   = sha SP ref [NUL SP cap (SP cap)*] LF                     *)
(*   want line  = "want" SP sha (SP cap)* LF                               *)
(*                                                                         *)
(* Bytes are integers 0..255; byte strings are sequences.  The module is   *)
(* used three ways: (1) its operators are the reference against which the  *)
(* real encoder/decoder functions of dulwich/protocol.py are compared on   *)
(* every case TLC enumerates (the case families below are the initial      *)
(* states; `case` is the input, `exp` what the reference says); (2) TLC    *)
(* checks the reference itself (Theorems) on every enumerated case;        *)
(* (3) StreamRd and the trace specifications reuse the operators.          *)
(***************************************************************************)
EXTENDS Integers, Sequences, FiniteSets, TLC

CONSTANT Family      \* which case family the initial states enumerate (a string, see Init)

MaxFrame  == 65520            \* LARGE_PACKET_MAX: largest frame, prefix included
MaxData   == MaxFrame - 4     \* 65516: largest payload of one frame
SbMaxData == MaxFrame - 5     \* 65515: largest side-band data chunk (channel byte + data)

NUL == 0   LF == 10   SP == 32   EQ == 61

\* ---------------------------------------------------------------- hexadecimal
IsDigit(c)    == c \in 48..57
IsLowerHex(c) == c \in 97..102
IsUpperHex(c) == c \in 65..70
IsHex(c)      == IsDigit(c) \/ IsLowerHex(c) \/ IsUpperHex(c)
HexVal(c)     == IF IsDigit(c) THEN c - 48 ELSE IF IsLowerHex(c) THEN c - 87 ELSE c - 55
HexChar(d)    == IF d < 10 THEN 48 + d ELSE 87 + d
Hex4(n)       == <<HexChar(n \div 4096), HexChar((n \div 256) % 16), HexChar((n \div 16) % 16), HexChar(n % 16)>>

\* The verdict on a length prefix: its value, or -1 when it is not exactly four hex digits
\* (git's packet_length(): no sign, no blank, no 0x, no underscore; both cases of a-f).
LenPrefix(p) ==
    IF Len(p) = 4 /\ \A i \in 1..4 : IsHex(p[i])
    THEN HexVal(p[1]) * 4096 + HexVal(p[2]) * 256 + HexVal(p[3]) * 16 + HexVal(p[4])
    ELSE -1

\* "oversize": a well-formed prefix announcing more than a writer may send; a reader may deliver the
\* frame (dulwich, and git up to 65523) or refuse it with a protocol error
Kind(n) == IF n < 0 THEN "invalid" ELSE IF n = 0 THEN "flush" ELSE IF n = 1 THEN "delim"
           ELSE IF n = 2 THEN "respend" ELSE IF n = 3 THEN "invalid" ELSE IF n <= MaxFrame THEN "data" ELSE "oversize"

\* ---------------------------------------------------------------- frames
\* An item is [k |-> "data" | "flush" | "delim" | "respend", p |-> payload]
Data(p)  == [k |-> "data",  p |-> p]
Flush    == [k |-> "flush", p |-> <<>>]
Delim    == [k |-> "delim", p |-> <<>>]
RespEnd  == [k |-> "respend", p |-> <<>>]

Encodable(it) == it.k # "data" \/ Len(it.p) <= MaxData
EncItem(it) == IF it.k = "data" THEN Hex4(Len(it.p) + 4) \o it.p
               ELSE IF it.k = "flush" THEN Hex4(0) ELSE IF it.k = "delim" THEN Hex4(1) ELSE Hex4(2)

RECURSIVE Concat(_)
Concat(ss) == IF ss = <<>> THEN <<>> ELSE Head(ss) \o Concat(Tail(ss))
Encode(items) == Concat([i \in 1..Len(items) |-> EncItem(items[i])])

\* one frame at the head of s: st = "frame" (it, n = bytes consumed) | "eof" | "err"
NoItem == [k |-> "none", p |-> <<>>]
Decode1(s) ==
    IF Len(s) = 0 THEN [st |-> "eof", it |-> NoItem, n |-> 0, why |-> "eof"]
    ELSE IF Len(s) < 4 THEN [st |-> "err", it |-> NoItem, n |-> 0, why |-> "short-prefix"]
    ELSE LET n == LenPrefix(SubSeq(s, 1, 4)) IN
         IF n < 0 THEN [st |-> "err", it |-> NoItem, n |-> 0, why |-> "bad-prefix"]
         ELSE IF n = 0 THEN [st |-> "frame", it |-> Flush, n |-> 4, why |-> ""]
         ELSE IF n = 1 THEN [st |-> "frame", it |-> Delim, n |-> 4, why |-> ""]
         ELSE IF n = 2 THEN [st |-> "frame", it |-> RespEnd, n |-> 4, why |-> ""]
         ELSE IF n = 3 THEN [st |-> "err", it |-> NoItem, n |-> 0, why |-> "len-3"]
         ELSE IF Len(s) < n THEN [st |-> "err", it |-> NoItem, n |-> 0, why |-> "short-payload"]
         ELSE [st |-> "frame", it |-> Data(SubSeq(s, 5, n)), n |-> n, why |-> ""]

RECURSIVE DecodeAcc(_, _)
DecodeAcc(s, acc) ==
    LET d == Decode1(s) IN
    IF d.st = "frame" THEN DecodeAcc(SubSeq(s, d.n + 1, Len(s)), Append(acc, d.it))
    ELSE [items |-> acc, st |-> d.st, why |-> d.why]
Decode(s) == DecodeAcc(s, <<>>)

\* a byte string is a well-formed frame sequence a writer may emit
WellFormedStream(s) == LET d == Decode(s) IN
    /\ d.st = "eof"
    /\ \A i \in 1..Len(d.items) : Encodable(d.items[i])

\* ---------------------------------------------------------------- side-band
RECURSIVE Chunks(_, _)
Chunks(d, max) == IF Len(d) = 0 THEN <<>>
                  ELSE IF Len(d) <= max THEN <<d>>
                  ELSE <<SubSeq(d, 1, max)>> \o Chunks(SubSeq(d, max + 1, Len(d)), max)
SbItems(ch, d, max) == LET cs == Chunks(d, max) IN [i \in 1..Len(cs) |-> Data(<<ch>> \o cs[i])]

RECURSIVE ChanCat(_, _)
ChanCat(items, ch) ==          \* concatenation of the data sent on channel ch
    IF items = <<>> THEN <<>>
    ELSE LET it == Head(items) IN
         (IF it.k = "data" /\ Len(it.p) > 0 /\ it.p[1] = ch THEN Tail(it.p) ELSE <<>>) \o ChanCat(Tail(items), ch)

\* by length only (payload content is irrelevant to framing): the real size boundaries
EncVerdict(L) == IF L <= MaxData THEN [ok |-> TRUE, total |-> L + 4, prefix |-> Hex4(L + 4)]
                 ELSE [ok |-> FALSE, total |-> 0, prefix |-> <<>>]
RECURSIVE ChunkLens(_, _)
ChunkLens(D, max) == IF D = 0 THEN <<>> ELSE IF D <= max THEN <<D>> ELSE <<max>> \o ChunkLens(D - max, max)
RECURSIVE Sum(_)
Sum(s) == IF s = <<>> THEN 0 ELSE Head(s) + Sum(Tail(s))
SbVerdict(D) == LET ls == ChunkLens(D, SbMaxData) IN
                [lens |-> ls, prefixes |-> [i \in 1..Len(ls) |-> Hex4(ls[i] + 5)]]

\* ---------------------------------------------------------------- capability / ref lines
RECURSIVE JoinSP(_)
JoinSP(ts) == IF ts = <<>> THEN <<>> ELSE IF Len(ts) = 1 THEN ts[1] ELSE ts[1] \o <<SP>> \o JoinSP(Tail(ts))
CapLine(caps) == Concat([i \in 1..Len(caps) |-> <<SP>> \o caps[i]])        \* " cap1 cap2"
RefLine(sha, ref, caps) == sha \o <<SP>> \o ref \o <<NUL>> \o CapLine(caps) \o <<LF>>
RefLinePlain(sha, ref)  == sha \o <<SP>> \o ref \o <<LF>>
WantLine(sha, caps)     == <<119, 97, 110, 116>> \o <<SP>> \o sha \o CapLine(caps) \o <<LF>>

IsWs(c) == c \in {9, 10, 11, 12, 13, 32}
RECURSIVE RStrip(_)
RStrip(s) == IF Len(s) > 0 /\ IsWs(s[Len(s)]) THEN RStrip(SubSeq(s, 1, Len(s) - 1)) ELSE s
RECURSIVE LStrip(_)
LStrip(s) == IF Len(s) > 0 /\ IsWs(s[1]) THEN LStrip(Tail(s)) ELSE s
Strip(s) == LStrip(RStrip(s))
RECURSIVE SplitOn(_, _, _)
SplitOn(s, c, cur) ==          \* tokens between occurrences of c (like bytes.split(c))
    IF s = <<>> THEN <<cur>>
    ELSE IF Head(s) = c THEN <<cur>> \o SplitOn(Tail(s), c, <<>>)
    ELSE SplitOn(Tail(s), c, Append(cur, Head(s)))
Split(s, c) == SplitOn(s, c, <<>>)
Index(s, c) == IF \E i \in 1..Len(s) : s[i] = c THEN CHOOSE i \in 1..Len(s) : s[i] = c /\ \A j \in 1..(i - 1) : s[j] # c ELSE 0

\* what a receiver of a first ref line / command line gets: text before NUL, capability tokens
ExtractCaps(text) ==
    LET i == Index(text, NUL) IN
    IF i = 0 THEN [head |-> text, caps |-> <<>>]
    ELSE LET t == RStrip(text) IN
         [head |-> SubSeq(t, 1, i - 1), caps |-> Split(Strip(SubSeq(t, i + 1, Len(t))), SP)]
ExtractWantCaps(text) ==
    LET ts == Split(RStrip(text), SP) IN
    IF Len(ts) < 3 THEN [head |-> text, caps |-> <<>>]
    ELSE [head |-> ts[1] \o <<SP>> \o ts[2], caps |-> SubSeq(ts, 3, Len(ts))]
ParseCap(c) == LET i == Index(c, EQ) IN
    IF i = 0 THEN [k |-> c, has |-> FALSE, v |-> <<>>]
    ELSE [k |-> SubSeq(c, 1, i - 1), has |-> TRUE, v |-> SubSeq(c, i + 1, Len(c))]

\* ---------------------------------------------------------------- case families
SeqsUpTo(S, n) == UNION {[1..k -> S] : k \in 0..n}
NonEmptySeqs(S, n) == UNION {[1..k -> S] : k \in 1..n}

HexChars == (48..57) \cup (97..102) \cup (65..70)
\* non-hex classes: the neighbours of the three digit ranges, what int(x, 16) tolerates
\* ('+', '-', blank, 'x', '_'), control bytes, a high byte
NonHex == {47, 58, 64, 71, 96, 103, 43, 45, 32, 120, 95, 10, 0, 255}
ClassQ == {48, 49, 52, 57, 97, 102, 65, 70} \cup NonHex
ClassT == HexChars \cup NonHex

\* payload lengths around every boundary of the format
EncLens == {0, 1, 2, 12, 995, 996, 4091, 4092, 65514, 65515, 65516, 65517, 65518, 65519, 65520, 65521,
            65530, 65531, 65532, 65533, 65535, 65536, 70000, 131072, 1048571, 1048572}
SbLens  == {0, 1, 2, 65514, 65515, 65516, 65519, 65520, 65521, 131029, 131030, 131031, 131032, 196545, 196546, 200000}

SmallPayloads == {<<>>, <<LF>>, <<48, 48>>, <<48, 48, 48, 52, 9>>}
SmallItems == {Data(p) : p \in SmallPayloads} \cup {Flush, Delim}

CapChars == {97, EQ}                         \* "other" and '='
TAB == 9
\* The last token carries a whitespace byte other than SP in INTERIOR position (an agent string such as
\* "a=<TAB>a"): capabilities are separated by SP only, so it is one capability.  (Leading / trailing
\* whitespace of the whole list is trimmed by the receiver and is not part of a token.)
CapTokens == NonEmptySeqs(CapChars, 2) \cup {<<97, EQ, EQ>>, <<97, EQ, 97>>, <<EQ, 97, EQ>>, <<97, EQ, TAB, 97>>}
RefTokens == {<<114>>, <<114, 47, EQ>>, <<97, 47, 98>>}
Sha == [i \in 1..40 |-> 49]

VARIABLES case, exp
vars == <<case, exp>>

Init ==
    \/ /\ Family = "prefix-hex"                 \* every value of a 4-hex-digit prefix, lower case
       /\ \E n \in 0..65535 : case = Hex4(n) /\ exp = [n |-> n, kind |-> Kind(n)]
    \/ /\ Family \in {"prefix-classq", "prefix-classt"}    \* every 4-tuple over the class alphabet
       /\ case \in [1..4 -> IF Family = "prefix-classq" THEN ClassQ ELSE ClassT]
       /\ exp = [n |-> LenPrefix(case), kind |-> Kind(LenPrefix(case))]
    \/ /\ Family = "prefix-short"               \* prefixes that are not four bytes long
       /\ case \in UNION {[1..k -> {48, 97, 43}] : k \in {0, 1, 2, 3, 5}}
       /\ exp = [n |-> LenPrefix(case), kind |-> Kind(LenPrefix(case))]
    \/ /\ Family = "enc"                        \* the encoder at the size boundaries, by length
       /\ \E L \in EncLens : case = L /\ exp = EncVerdict(L)
    \/ /\ Family = "sideband"                   \* write_sideband at the size boundaries, by length
       /\ \E D \in SbLens, ch \in 1..3 : case = [ch |-> ch, D |-> D] /\ exp = SbVerdict(D)
    \/ /\ Family = "frames"                     \* short item sequences: the byte stream and its decoding
       /\ case \in SeqsUpTo(SmallItems, 3)
       /\ exp = [bytes |-> Encode(case)]
    \/ /\ Family = "sbmix"                      \* three channels interleaved: bytes on the wire, data per channel
       /\ case \in SeqsUpTo({[ch |-> c, d |-> d] : c \in 1..3, d \in {<<>>, <<LF>>, <<1, 2, 3>>}}, 3)
       /\ LET items == Concat([i \in 1..Len(case) |-> SbItems(case[i].ch, case[i].d, SbMaxData)]) IN
          exp = [bytes |-> Encode(Append(items, Flush)), cat |-> [c \in 1..3 |-> ChanCat(items, c)]]
    \/ /\ Family = "caps"                       \* first ref line with a capability list
       /\ \E ref \in RefTokens, caps \in NonEmptySeqs(CapTokens, 3) :
            /\ case = [ref |-> ref, caps |-> caps]
            /\ exp = [line |-> RefLine(Sha, ref, caps), head |-> Sha \o <<SP>> \o ref,
                      parsed |-> [i \in 1..Len(caps) |-> ParseCap(caps[i])]]
    \/ /\ Family = "want"                       \* first want line with a capability list
       /\ \E caps \in SeqsUpTo(CapTokens, 3) :
            /\ case = [caps |-> caps]
            /\ exp = [line |-> WantLine(Sha, caps)]

Next == UNCHANGED vars
Spec == Init /\ [][Next]_vars

\* ---------------------------------------------------------------- the reference checked against itself
Theorems ==
    /\ Family = "prefix-hex" =>
         /\ LenPrefix(case) = exp.n
         /\ LenPrefix([i \in 1..4 |-> IF IsLowerHex(case[i]) THEN case[i] - 32 ELSE case[i]]) = exp.n   \* upper case too
    /\ Family \in {"prefix-classq", "prefix-classt", "prefix-short"} =>
         /\ (exp.n >= 0) = (Len(case) = 4 /\ \A i \in 1..Len(case) : case[i] \in HexChars)
         /\ exp.n >= 0 => Hex4(exp.n) = [i \in 1..4 |-> IF IsUpperHex(case[i]) THEN case[i] + 32 ELSE case[i]]
    /\ Family = "enc" =>
         /\ exp.ok = (case + 4 <= MaxFrame)
         /\ exp.ok => LenPrefix(exp.prefix) = case + 4
    /\ Family = "sideband" =>
         /\ \A i \in 1..Len(exp.lens) : exp.lens[i] \in 1..SbMaxData /\ LenPrefix(exp.prefixes[i]) <= MaxFrame
         /\ Sum(exp.lens) = case.D
    /\ Family = "frames" =>                     \* RoundTrip and NoMalformedFrame of the reference codec
         /\ Decode(exp.bytes) = [items |-> case, st |-> "eof", why |-> "eof"]
         /\ WellFormedStream(exp.bytes)
         /\ \A k \in 1..(Len(exp.bytes) - 1) :  \* every proper prefix is either a shorter item list or an error
              LET d == Decode(SubSeq(exp.bytes, 1, k)) IN
              /\ Len(d.items) <= Len(case) /\ d.items = SubSeq(case, 1, Len(d.items))
    /\ Family = "sbmix" =>
         /\ WellFormedStream(exp.bytes)
         /\ \A c \in 1..3 : ChanCat(Decode(exp.bytes).items, c) = exp.cat[c]
         /\ \A c \in 1..3 : exp.cat[c] = Concat([i \in 1..Len(case) |-> IF case[i].ch = c THEN case[i].d ELSE <<>>])
    /\ Family = "caps" =>
         /\ ExtractCaps(exp.line) = [head |-> exp.head, caps |-> case.caps]
         /\ ExtractCaps(RefLinePlain(Sha, case.ref)).caps = <<>>
         /\ \A i \in 1..Len(case.caps) : LET p == exp.parsed[i] IN
              case.caps[i] = (IF p.has THEN p.k \o <<EQ>> \o p.v ELSE p.k)
    /\ Family = "want" =>
         /\ ExtractWantCaps(exp.line).caps = case.caps
         /\ case.caps # <<>> => ExtractWantCaps(exp.line).head = <<119, 97, 110, 116, SP>> \o Sha
=============================================================================

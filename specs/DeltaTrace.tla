------------------------------ MODULE DeltaTrace ------------------------------
(***************************************************************************)
(* Batch validation of recorded executions of the real encoders and        *)
(* decoders against Delta (code -> spec).  One ndjson line per execution:  *)
(*                                                                         *)
(*  kind "rt"   a real encoder (py / rs / git) produced delta for          *)
(*              (base, target); obs = what each real decoder returned for  *)
(*              (base, delta).  Judged: the reference decoder yields the   *)
(*              target (rt), every observation is allowed by the statement *)
(*              (allowed) and equals the target (eq).                      *)
(*  kind "mut"  an arbitrary byte string offered as delta; obs as above.   *)
(*              Judged: every observation is allowed by the statement.     *)
(*  kind "op"   dulwich.pack._encode_copy_operation(off, n) = bytes:       *)
(*              judged by ParseOp.                                         *)
(*  kind "size" dulwich.pack._delta_encode_size(n) = bytes, n as limbs:    *)
(*              judged by VarintAt.                                        *)
(*                                                                         *)
(* full = TRUE: base/target/outputs are carried as bytes and judged here.  *)
(* full = FALSE (large inputs): only blen and the delta are carried; the   *)
(* verdict carries the reference segments and the postcondition's          *)
(* candidate segments, the harness materialises them (op-level).           *)
(***************************************************************************)
EXTENDS Delta, Json, IOUtils

Traces == ndJsonDeserialize(IOEnv.TRACE_FILE)

RECURSIVE Flat(_)
Flat(segs) == IF segs = <<>> THEN <<>> ELSE segs[1] \o Flat(Tail(segs))

ObsAllowed(base, s, o) ==
    Allowed(base, s, [kind |-> o.kind, out |-> o.out])

VerdictDelta(tr) ==
    LET s == tr.delta
        r == Run(tr.blen, s)
        h == Header(s)
        c == Cand(tr.blen, s)
        n == Len(tr.obs)
    IN <<"VERDICT", tr.tid, r.st, r.why,
         IF h.ok THEN h.dst ELSE <<0 - 1>>,
         c.has, r.prod,
         \* rt: reference decoding yields the target
         IF tr.kind = "rt" /\ tr.full
            THEN Decode(tr.base, s) = [st |-> "ok", out |-> tr.target] ELSE r.st = "ok",
         IF tr.full THEN [j \in 1..n |-> ObsAllowed(tr.base, s, tr.obs[j])] ELSE <<>>,
         IF tr.full /\ tr.kind = "rt"
            THEN [j \in 1..n |-> tr.obs[j].kind = "bytes" /\ tr.obs[j].out = tr.target] ELSE <<>>,
         IF tr.full THEN <<>> ELSE Flat(r.segs),
         IF tr.full THEN <<>> ELSE Flat(c.segs)>>

VerdictOp(tr) ==
    LET p == ParseOp(tr.bytes, 1) IN
    <<"VERDICT", tr.tid, "op",
      Len(tr.bytes) >= 1 /\ tr.bytes[1] >= 128 /\ p.k = "copy" /\ ~p.far /\ p.off = tr.off /\ p.n = tr.n
      /\ p.next = Len(tr.bytes) + 1>>

VerdictSize(tr) ==
    LET v == VarintAt(tr.bytes, 1, <<>>) IN
    <<"VERDICT", tr.tid, "size", v.ok /\ v.d = tr.nd /\ v.next = Len(tr.bytes) + 1>>

Verdict(tr) ==
    CASE tr.kind \in {"rt", "mut"} -> VerdictDelta(tr)
      [] tr.kind = "op" -> VerdictOp(tr)
      [] tr.kind = "size" -> VerdictSize(tr)

VARIABLE i
Init == i = 0
Next == /\ i < Len(Traces)
        /\ PrintT(ToString(Verdict(Traces[i + 1])))
        /\ i' = i + 1
Spec == Init /\ [][Next]_i
=============================================================================

----------------------------- MODULE RefMapFiles -----------------------------
(***************************************************************************)
(* The files backend (dulwich DiskRefsContainer): every ref lives as a     *)
(* loose file, as a line of packed-refs, or both (the loose file wins; a   *)
(* packed line under a loose file may be stale); loose files live in       *)
(* directories that are created on demand and removed when empty.  The     *)
(* calls are those of RefMap applied to the effective map; this module     *)
(* adds WHERE the result is stored (loose / packed / which directories     *)
(* exist), pack_refs, C git packing the same directory, and re-opening.    *)
(* Placement is unobservable through the contract, but it is the hidden    *)
(* state of the implementation: keeping it in the state makes TLC          *)
(* enumerate, and the replay reach, every call in every placement (ref     *)
(* loose / packed / both / stale packed line under a symref; left-over     *)
(* empty directory at the name; missing parent directory).                 *)
(*                                                                         *)
(* Checked by TLC:                                                         *)
(*   Refines       the effective map behaves exactly as RefMapSeq (results *)
(*                 and states); in particular PackRefs, GitPack and Reopen *)
(*                 change nothing observable (PackIsInvisible);            *)
(*   CollisionFree, ObsOK, TypeOKF, FsOK.                                  *)
(* `Defects` re-enables, one by one, behaviours the implementation once had *)
(* and that break the contract (negative controls: TLC must find them).    *)
(*                                                                         *)
(* The state graph of this module (VIEW hides `last`) is what the harness  *)
(* replays on the real containers: an edge label carries the call, the     *)
(* expected result, whether the call belongs to the contract shared by all *)
(* backends, and the ref the call really writes; the target node carries   *)
(* the expected placement and `obs`, the expected answer of refs[n] for    *)
(* every name.                                                             *)
(***************************************************************************)
EXTENDS RefMap, TLC

CONSTANTS Defects   \* subset of {"PackSymrefs", "RemoveKeepsPacked", "NoPackedDescendantProbe", "AddNoPackedProbe"}

VARIABLES loose,    \* Names -> Entry: the loose ref files (HEAD included)
          packed,   \* Names -> Entry (absent or direct): the lines of packed-refs
          dirs,     \* the directories that exist below refs/ (paths of length >= 2)
          obs,      \* Names -> STRING: what refs[n] answers (derived from loose and packed)
          last      \* [c, res] as in RefMapSeq

fvars == <<loose, packed, dirs, obs, last>>

HeadRef == <<"HEAD">>
IsTag(n) == Len(n) >= 2 /\ n[1] = "refs" /\ n[2] = "tags"

EffOf(l, p) == [n \in Names |-> IF l[n].k # "absent" THEN l[n] ELSE p[n]]
Eff == EffOf(loose, packed)
ObsOf(m) == [n \in Names |-> GetStr(m, n)]

\* ------------------------------------------------------------- directories
Under(p, q)  == p = q \/ IsStrictPrefix(p, q)                        \* q is p or lies below p
ParentsOf(n) == {SubSeq(n, 1, k) : k \in 2..(Len(n) - 1)}            \* directories the file n needs (none for HEAD)
ParentDir(n) == SubSeq(n, 1, Len(n) - 1)
InitDirs     == {<<"refs", "heads">>, <<"refs", "tags">>}
DirCands     == InitDirs \cup UNION {ParentsOf(n) \cup {n} : n \in Names \ {HeadRef}}
LooseAt(l, p) == p \in Names /\ l[p].k # "absent"
\* os.makedirs(parent directory of n): creates what is missing, cannot get past a loose ref file
Creatable(l, n) == {p \in ParentsOf(n) : ~\E q \in Names : l[q].k # "absent" /\ Under(q, p)}
BlockedByFile(l, n) == \E q \in Names : l[q].k # "absent" /\ IsStrictPrefix(q, n)
EmptyDir(l, ds, p) == /\ ~\E q \in Names : l[q].k # "absent" /\ IsStrictPrefix(p, q)
                      /\ ~\E d \in ds : IsStrictPrefix(p, d)
\* rmdir p and then its parents for as long as they are empty; `keep` levels are never removed
\* (dulwich stops at refs/: keep = 1; git keeps refs/heads, refs/tags, ...: keep = 2)
RECURSIVE CleanUp(_, _, _, _)
CleanUp(l, ds, p, keep) ==
    IF Len(p) <= keep \/ p \notin ds \/ ~EmptyDir(l, ds, p) THEN ds
    ELSE CleanUp(l, ds \ {p}, ParentDir(p), keep)
ClearAt(ds, r) == {d \in ds : ~Under(r, d)}       \* the (empty) directory tree at the path of a file about to be written

NoCall == [c |-> Call("Init", NoName, AnyOld, "", NoName), res |-> "None"]

FInit ==
    /\ loose = EmptyMap /\ packed = EmptyMap
    /\ dirs = InitDirs
    /\ obs = ObsOf(EmptyMap)
    /\ last = NoCall

\* The map a call sees.  With a defect switched on, the implementation overlooks some refs when
\* it looks for file/directory collisions.
PackedOnly(n) == loose[n].k = "absent" /\ packed[n].k # "absent"
Overlooked(c) ==
    LET tgt == Target(Eff, c) IN
    {n \in Names :
        \/ /\ "NoPackedDescendantProbe" \in Defects
           /\ c.op \in {"Set", "SetIfEquals"} /\ PackedOnly(n) /\ IsStrictPrefix(tgt, n)
        \/ /\ "AddNoPackedProbe" \in Defects
           /\ c.op = "AddIfNew" /\ PackedOnly(n) /\ Collide(tgt, n)}
Seen(c) == IF Defects = {} THEN Eff ELSE [n \in Names |-> IF n \in Overlooked(c) THEN Absent ELSE Eff[n]]

PackedConflict(n) == \E b \in Names : packed[b].k # "absent" /\ Collide(b, n)

\* Directories after a call (transcribed from refs.py).  Every writer first refuses a name that
\* collides with a packed ref (_check_packed_conflicts, before anything is created), then makes the
\* parent directories; an empty directory tree left at the name itself is removed (_remove_empty_dirs,
\* as C git does) -- by set_if_equals just before the rename, by the others before they take the lock.
LooseBelow(n) == \E q \in Names : loose[q].k # "absent" /\ IsStrictPrefix(n, q)
DirsAfter(c, res, tgt, nl) ==
    LET mk == dirs \cup Creatable(loose, tgt) IN
    CASE c.op \in {"Set", "SetIfEquals"} ->
            IF res = "Refused" /\ PackedConflict(tgt) THEN dirs            \* refused before anything is created
            ELSE IF res = "True" /\ Content(Eff, tgt) # c.v THEN ClearAt(mk, tgt)
            ELSE mk                                                        \* compare failed / value already there / rename refused
      [] c.op = "AddIfNew" ->
            IF res \in {"False", "SymrefLoop"} THEN dirs                   \* decided before anything is created
            ELSE IF res = "Refused" THEN (IF PackedConflict(tgt) THEN dirs ELSE mk)
            ELSE ClearAt(mk, tgt)
      [] c.op \in {"Remove", "RemoveIfEquals"} ->
            IF BlockedByFile(loose, tgt) THEN mk                           \* the lock file cannot be created
            ELSE IF c.old # AnyOld /\ Content(Eff, tgt) # c.old THEN mk    \* compare failed: nothing is cleaned up
            ELSE IF LooseBelow(tgt) THEN mk                                \* a directory with loose refs below sits at the name
            ELSE CleanUp(nl, ClearAt(mk, tgt), ParentDir(tgt), 1)          \* (an empty directory at the name goes too)
      [] c.op = "SetSymbolic" ->
            IF res = "Refused" THEN (IF PackedConflict(tgt) THEN dirs ELSE mk)
            ELSE ClearAt(mk, tgt)

\* What one call does to the files: result, the ref really written, and the placement afterwards
\* (a function of the current state and the call).
Outcome(c) ==
    LET op == c.op  v == c.v  t == c.t
        res  == Apply(Seen(c), c).res
        tgt  == Target(Eff, c)
        done == res \in {"True", "None"}
        nl  == IF ~done THEN loose
               ELSE IF op \in {"Set", "SetIfEquals", "AddIfNew"}
                    THEN (IF Content(Eff, tgt) = v THEN loose      \* already there: the write is skipped
                          ELSE [loose EXCEPT ![tgt] = Direct(v)])
               ELSE IF op = "SetSymbolic" THEN [loose EXCEPT ![tgt] = Sym(t)]
               ELSE [loose EXCEPT ![tgt] = Absent]
        np  == IF done /\ op \in {"Remove", "RemoveIfEquals"} /\ "RemoveKeepsPacked" \notin Defects
               THEN [packed EXCEPT ![tgt] = Absent] ELSE packed
    IN  [res |-> res, common |-> Common(Eff, c), tgt |-> tgt, loose |-> nl, packed |-> np,
         dirs |-> IF tgt = HeadRef THEN dirs ELSE DirsAfter(c, res, tgt, nl)]

\* pack_refs(all): the value of every ref other than HEAD that resolves (all of them, or only
\* tags) is written to packed-refs; afterwards a loose file is removed if it holds exactly that
\* value.  A symbolic ref therefore stays what it is, with a (shadowed) packed line under it.
\* Directories are left alone.  (Defect PackSymrefs: the loose file is removed regardless.)
Packable(all) == {n \in Names \ {HeadRef} : (all \/ IsTag(n)) /\ Get(Eff, n).res = "ok"}
PackOutcome(arg) ==
    LET P == Packable(arg = "all") IN
    [res |-> "None", common |-> FALSE, tgt |-> NoName,
     packed |-> [n \in Names |-> IF n \in P THEN Direct(Get(Eff, n).v) ELSE packed[n]],
     loose  |-> [n \in Names |-> IF n \in P /\ (loose[n].k = "direct" \/ "PackSymrefs" \in Defects)
                                 THEN Absent ELSE loose[n]],
     dirs   |-> dirs]

\* C git packs the same directory (git pack-refs --all --prune): every direct ref other than HEAD
\* goes to packed-refs, its loose file is removed together with the parent directories that become
\* empty (refs/heads, refs/tags, ... are kept); symbolic refs are not touched.  git only works in a
\* directory whose HEAD it accepts.
GitHeadOK == Eff[HeadRef].k = "direct" \/ (Eff[HeadRef].k = "sym" /\ Len(Eff[HeadRef].t) > 1)
RECURSIVE PruneAll(_, _, _)
PruneAll(l, ds, S) ==
    IF S = {} THEN ds
    ELSE LET n == CHOOSE x \in S : TRUE IN PruneAll(l, CleanUp(l, ds, ParentDir(n), 2), S \ {n})
GitPackOutcome ==
    LET P  == {n \in Names \ {HeadRef} : Eff[n].k = "direct"}
        nl == [n \in Names |-> IF n \in P THEN Absent ELSE loose[n]]
    IN  [res |-> "None", common |-> FALSE, tgt |-> NoName,
         packed |-> [n \in Names |-> IF n \in P THEN Eff[n] ELSE packed[n]],
         loose  |-> nl,
         dirs   |-> PruneAll(nl, dirs, {n \in P : loose[n].k # "absent"})]

Become(o, c) ==
    /\ loose' = o.loose /\ packed' = o.packed /\ dirs' = o.dirs
    /\ obs' = ObsOf(EffOf(o.loose, o.packed))
    /\ last' = [c |-> c, res |-> o.res]

\* One call.  The arguments of Step are what the edge label of the state graph shows (res, common
\* and tgt are bound by quantifiers over constant sets only so that TLC prints them there).
ResultSet == {"True", "False", "None", "Refused", "NoEffect", "SymrefLoop"}
Step(c, res, common, tgt) ==
    /\ res = Apply(Seen(c), c).res          \* (cheap guards first: TLC tries every combination)
    /\ tgt = Target(Eff, c)
    /\ common = Common(Eff, c)
    /\ Become(Outcome(c), c)
DoCall == \E c \in Calls, res \in ResultSet, common \in BOOLEAN, tgt \in Names : Step(c, res, common, tgt)

PackRefs(arg) ==      \* (a conjunction, so that the edge label is PackRefs(arg), not Become)
    /\ arg \in {"all", "tags"}
    /\ Become(PackOutcome(arg), Call("PackRefs", NoName, AnyOld, arg, NoName))
GitPack == GitHeadOK /\ Become(GitPackOutcome, Call("GitPack", NoName, AnyOld, "", NoName))
Reopen ==
    /\ UNCHANGED <<loose, packed, dirs, obs>>
    /\ last' = [c |-> Call("Reopen", NoName, AnyOld, "", NoName), res |-> "None"]

FNext == DoCall \/ (\E arg \in {"all", "tags"} : PackRefs(arg)) \/ GitPack \/ Reopen
FSpec == FInit /\ [][FNext]_fvars

\* The same next-state relation without the label arguments (one evaluation per call instead of
\* one per combination of label values): for universes whose graph is only checked, not dumped.
DoCallFast == \E c \in Calls : Become(Outcome(c), c)
FNextFast == DoCallFast \/ (\E arg \in {"all", "tags"} : PackRefs(arg)) \/ GitPack \/ Reopen
FSpecFast == FInit /\ [][FNextFast]_fvars

\* ------------------------------------------------------------- properties
TypeOKF ==
    /\ loose \in RefMaps
    /\ packed \in [Names -> {Absent} \cup {Direct(v) : v \in Values}]
    /\ packed[HeadRef] = Absent
    /\ dirs \subseteq DirCands
\* the directory tree is one: every loose file has its directories, nothing is file and directory
FsOK == \A n \in Names \ {HeadRef} :
            loose[n].k # "absent" => (ParentsOf(n) \subseteq dirs /\ n \notin dirs)
CollisionFree == NoCollision(Eff)
ObsOK == obs = ObsOf(Eff)

RS == INSTANCE RefMapSeq WITH refs <- Eff
Refines == RS!SSpec
ContractF == RS!Contract
\* The same refinement, cheaper to check: last' names the call that was made, so only that
\* disjunct of RS!SNext has to be evaluated (used for the larger universes).
RefinesStep ==
    LET c == last'.c IN
    IF RS!IsCall(c) THEN RS!Do(c) ELSE (c.op \in {"PackRefs", "GitPack", "Reopen"} /\ RS!Invisible(c.op, c.v))
RefinesFast == [][RefinesStep]_fvars

\* the state graph dumped for replay does not distinguish states by the call that led to them;
\* no action reads `last`, and the step properties only read last', so hiding it loses nothing
GraphView == <<loose, packed, dirs>>

\* ------------------------------------------------------------- defect sets (cfg files cannot hold {".."} of sets)
NoDefects == {}
DefPackSymrefs == {"PackSymrefs"}
DefRemoveKeepsPacked == {"RemoveKeepsPacked"}
DefNoPackedDescendantProbe == {"NoPackedDescendantProbe"}
DefAddNoPackedProbe == {"AddNoPackedProbe"}
=============================================================================

SPECIFICATION Spec
CONSTANTS
  Fam = "bisect"
  MaxLen = 3
  Sel <- BisectSelQ
INVARIANT Lemmas
INVARIANT InModel
CHECK_DEADLOCK FALSE

\* the repaired algorithm (no cut-off + remove_redundant, out/proposed_fixes/C13-graph-exact-under-clock-skew.diff): exact under ANY clock
SPECIFICATION Spec
CONSTANTS
  MaxExtra = 5
  N = 4
  L = 4
  Mode = "lcas"
  UseMinStamp = FALSE
  Reduce = TRUE
  Clocks = "any"
  MaxD = 3
  TieBreak = "both"
INVARIANT PaintSound
INVARIANT NoLostBase
INVARIANT Superset
INVARIANT ExactWhenStrict
INVARIANT Bounded
INVARIANT Exact
INVARIANT FfFromLcasExact
CHECK_DEADLOCK FALSE

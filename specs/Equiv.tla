-------------------------------- MODULE Equiv --------------------------------
(***************************************************************************)
(* Property C15: every function of dulwich that exists both in pure Python *)
(* and in Rust gives the same observable result with either                *)
(*                                                                         *)
(*        Obs(py, x) = Obs(rs, x),   Obs(impl, x) \in {value v} \cup {fail}*)
(*                                                                         *)
(* The property is a relation between two programs; it is evaluated on the *)
(* real code by the harness (ObsEq below is its statement).  This module   *)
(* supplies the other two ingredients:                                     *)
(*                                                                         *)
(*  (i)  the input spaces (EquivCases enumerates them with TLC), and       *)
(*  (ii) REFERENCE SEMANTICS of the five function families, as a third     *)
(*       opinion that says which side is wrong when the two differ:        *)
(*                                                                         *)
(*   ParseTree(text, shaLen, strict)   objects.parse_tree                  *)
(*   SortItems(entries, nameOrder)     objects.sorted_tree_items           *)
(*   Delta!Decode / Delta!Run          pack.apply_delta  (specs/Delta.tla, *)
(*                                     read-only, owned by C03)            *)
(*   Find(table, lo, hi, key)          pack.bisect_find_sha                *)
(*   MergeEntries(pre, t1, t2)         diff_tree._merge_entries            *)
(*                                     (TreeDiff!Merge, read-only, C12)    *)
(*   IsTree(type, perm)                diff_tree._is_tree                  *)
(*   Count(bytes)                      diff_tree._count_blocks             *)
(*                                                                         *)
(* A constant module: everything is an operator.  Results are tuples of    *)
(* integers / strings / tuples only (no records, no functions), so that a  *)
(* TLC state dump is trivially machine readable.                           *)
(*                                                                         *)
(* Bytes are 0..255.  A tree mode is carried as its octal digit sequence   *)
(* (most significant first, leading zeros stripped): TLC integers are 32   *)
(* bit, modes offered to the parsers are not.                              *)
(***************************************************************************)
EXTENDS Naturals, Integers, Sequences, FiniteSets, TLC, SequencesExt

D  == INSTANCE Delta
TD == INSTANCE TreeDiff

\* ------------------------------------------------------------------ the property
\* an observation is <<"val", v>> or <<"fail">> (exception, panic, abort: all "fail")
ObsEq(o1, o2) == o1 = o2

\* ------------------------------------------------------------------ helpers
RECURSIVE Rep(_, _)
Rep(c, n) == IF n = 0 THEN <<>> ELSE <<c>> \o Rep(c, n - 1)

\* run-length decoding: <<<<c1, n1>>, <<c2, n2>>, ...>> -> bytes
RECURSIVE UnRle(_)
UnRle(r) == IF r = <<>> THEN <<>> ELSE Rep(r[1][1], r[1][2]) \o UnRle(Tail(r))

\* first index j >= i with t[j] = c, 0 when there is none
RECURSIVE FindByte(_, _, _)
FindByte(t, c, i) == IF i > Len(t) THEN 0 ELSE IF t[i] = c THEN i ELSE FindByte(t, c, i + 1)

RECURSIVE StripLeft0(_)
StripLeft0(d) == IF d # <<>> /\ d[1] = 0 THEN StripLeft0(Tail(d)) ELSE d

\* ------------------------------------------------------------------ tree payloads
(* A tree object is a sequence of entries                                  *)
(*       mode SP name NUL id                                               *)
(* mode = one or more octal digits (git's get_mode: nothing else, no sign, *)
(* no separator, no white space), value must fit an unsigned 32-bit mode.  *)
(* One shared leniency of dulwich is part of the reference (PlusLenient):  *)
(* both implementations take an integer parser off the shelf (int(s, 8),   *)
(* u32::from_str_radix) and both of those accept ONE leading '+'; git does *)
(* not, but that is no business of an equivalence property.                *)
(* name = the bytes up to the next NUL (the empty name parses; fsck, not   *)
(* the parser, refuses it); id = exactly shaLen raw bytes.  strict refuses *)
(* a mode that starts with 0.  The result is                               *)
(*    <<"ok",  "",  0,   <<entry...>>, plus>>                              *)
(*                                entry = <<modeDigits, name, id>>;        *)
(*                                plus = 1: some mode used the leniency    *)
(*                                (failing is then equally acceptable)     *)
(*    <<"err", why, pos, <<>>, 0>>    pos = 0-based offset of the entry    *)
(*                                    that does not parse                  *)
(***************************************************************************)
IsOct(c) == c >= 48 /\ c <= 55
PlusLenient == TRUE
ModeDigitsOf(m) == IF PlusLenient /\ m # <<>> /\ m[1] = 43 THEN Tail(m) ELSE m
Fits32(d) == Len(d) <= 10 \/ (Len(d) = 11 /\ d[1] <= 3)        \* < 2^32 = 0o40000000000
PErr(why, i) == <<"err", why, i - 1, <<>>, 0>>

RECURSIVE ParseFrom(_, _, _, _, _, _)
ParseFrom(t, i, shaLen, strict, acc, plus) ==
    IF i > Len(t) THEN <<"ok", "", 0, acc, plus>>
    ELSE LET sp == FindByte(t, 32, i) IN
         IF sp = 0 THEN PErr("no-space", i)
         ELSE LET m == SubSeq(t, i, sp - 1) IN
              IF ModeDigitsOf(m) = <<>> THEN PErr("mode-empty", i)
              ELSE IF \E k \in DOMAIN ModeDigitsOf(m) : ~IsOct(ModeDigitsOf(m)[k]) THEN PErr("mode-char", i)
              ELSE IF strict /\ m[1] = 48 THEN PErr("mode-leading-zero", i)
              ELSE LET dg == StripLeft0([k \in DOMAIN ModeDigitsOf(m) |-> ModeDigitsOf(m)[k] - 48]) IN
                   IF ~Fits32(dg) THEN PErr("mode-overflow", i)
                   ELSE LET nul == FindByte(t, 0, sp + 1) IN
                        IF nul = 0 THEN PErr("no-nul", i)
                        ELSE IF nul + shaLen > Len(t) THEN PErr("id-truncated", i)
                        ELSE ParseFrom(t, nul + shaLen + 1, shaLen, strict,
                                       Append(acc, <<dg, SubSeq(t, sp + 1, nul - 1),
                                                     SubSeq(t, nul + 1, nul + shaLen)>>),
                                       IF m[1] = 43 THEN 1 ELSE plus)

ParseTree(text, shaLen, strict) == ParseFrom(text, 1, shaLen, strict, <<>>, 0)
\* obs = <<"v", entries>> | <<"f">>
ParseAllowed(r, obs) == (r[1] = "ok" /\ obs = <<"v", r[4]>>) \/ (obs = <<"f">> /\ (r[1] = "err" \/ r[5] = 1))

\* serialisation of parsed entries (modes without leading zeros): the inverse on canonical input
RECURSIVE Serialize(_)
Serialize(ents) ==
    IF ents = <<>> THEN <<>>
    ELSE LET e == ents[1] IN
         [k \in DOMAIN e[1] |-> e[1][k] + 48] \o <<32>> \o e[2] \o <<0>> \o e[3] \o Serialize(Tail(ents))

\* lemma: what parses with strict, without zero modes and without '+' re-serialises to the same bytes
ParseSerializeLemma(text, shaLen) ==
    LET r == ParseTree(text, shaLen, TRUE) IN
    (r[1] = "ok" /\ 43 \notin Range(text) /\ \A k \in DOMAIN r[4] : r[4][k][1] # <<>>) => Serialize(r[4]) = text

\* ------------------------------------------------------------------ tree order
\* an item is <<name, modeTag>>, modeTag as in TreeDiff ("T" = directory).
\* git order: a directory sorts as name/ ; name order: plain bytes.  Keys of a dictionary are
\* distinct, so both orders are total on the items of one dictionary and the result is unique.
ItemRec(it) == [name |-> it[1], mode |-> it[2]]
SortItems(items, nameOrder) ==
    SortSeq(items, LAMBDA a, b : IF nameOrder THEN TD!NameLess(ItemRec(a), ItemRec(b))
                                 ELSE TD!GitLess(ItemRec(a), ItemRec(b)))
\* lemma: the one-byte-lookahead comparison of git (base_name_compare) gives the same order
\* whenever no name contains '/' or NUL
OrderLemma(a, b) ==
    (TD!BaseNameCompare(a[1], a[2] = "T", b[1], b[2] = "T") = "lt") <=> TD!GitLess(ItemRec(a), ItemRec(b))

\* ------------------------------------------------------------------ delta decoding
(* Delta!Run is git's patch_delta (the strict reference); Delta!Cand is    *)
(* the one output C03's postcondition admits (declared length, slices of   *)
(* the base and literal inserts only).  A decoder is inside its contract   *)
(* when it fails or returns that output; the strict verdict says which of  *)
(* two decoders that differ deviates from git.                             *)
(*    <<st, why, out, chas, cout>>                                         *)
(***************************************************************************)
DeltaJudge(base, s) ==
    LET r == D!Run(Len(base), s)
        c == D!Cand(Len(base), s)
    IN <<r.st, r.why, IF r.st = "ok" THEN D!Mat(base, s, r.segs) ELSE <<>>,
         IF c.has THEN 1 ELSE 0, IF c.has THEN D!Mat(base, s, c.segs) ELSE <<>>>>
\* obs = <<"v", bytes>> | <<"f">>
DeltaAllowed(j, obs) == obs[1] = "f" \/ (j[4] = 1 /\ obs = <<"v", j[5]>>)

\* ------------------------------------------------------------------ bisection
(* bisect_find_sha(start, end, sha, unpack_name): the ids unpack_name(i),  *)
(* start <= i <= end (both inclusive), are sorted; the answer is an index  *)
(* holding sha or None.  table is the 1-based sequence of ids, the index i *)
(* of the real code is table[i + 1]; an index outside the table makes the  *)
(* callback fail.  start > end is a failure (assertion / ValueError).      *)
(* The probe sequence is part of the semantics (with duplicates it decides *)
(* which index is returned; out of range it decides whether the callback   *)
(* fails), so the reference is operational; FindLemma states what it means.*)
(* Indices are translation invariant: the harness adds an offset to every  *)
(* index (and the callback subtracts it) to reach the 32-bit limits that   *)
(* TLC's own integers cannot hold.                                         *)
(***************************************************************************)
RECURSIVE FindOp(_, _, _, _)
FindOp(table, lo, hi, key) ==
    IF lo > hi THEN <<"none", 0>>
    ELSE LET mid == (lo + hi) \div 2 IN
         IF mid + 1 \notin DOMAIN table THEN <<"fail", mid>>
         ELSE IF table[mid + 1] < key THEN FindOp(table, mid + 1, hi, key)
         ELSE IF table[mid + 1] > key THEN FindOp(table, lo, mid - 1, key)
         ELSE <<"val", mid>>

Find(table, lo, hi, key) == IF lo > hi THEN <<"fail", 0 - 1>> ELSE FindOp(table, lo, hi, key)

Sorted(table) == \A i \in 1..(Len(table) - 1) : table[i] <= table[i + 1]
FindLemma(table, lo, hi, key) ==
    (Sorted(table) /\ 0 <= lo /\ lo <= hi /\ hi < Len(table)) =>
        LET r == Find(table, lo, hi, key) IN
        /\ r[1] \in {"val", "none"}
        /\ r[1] = "val" => (lo <= r[2] /\ r[2] <= hi /\ table[r[2] + 1] = key)
        /\ r[1] = "none" => \A i \in lo..hi : table[i + 1] # key

\* ------------------------------------------------------------------ merging tree entries
\* a tree argument is <<1, entries>>, entries a sequence of <<name, modeTag, id>> (any order,
\* distinct names), or <<0, <<>>>> (None); the result pairs entries by name in name order;
\* <<>> = no entry on that side
TreeRecs(t) == IF t[1] = 0 THEN <<>>
               ELSE [k \in DOMAIN t[2] |-> [name |-> t[2][k][1], mode |-> t[2][k][2], id |-> t[2][k][3], sub |-> <<>>]]
EntT(e) == IF e = TD!NoEntry THEN <<>> ELSE <<e.path[Len(e.path)], e.mode, e.id>>
MergeEntries(t1, t2) ==
    LET m == TD!Merge(<<>>, TreeRecs(t1), TreeRecs(t2)) IN
    [k \in DOMAIN m |-> <<EntT(m[k][1]), EntT(m[k][2])>>]
\* lemma: every entry of either tree occurs exactly once, on its side, names ascend strictly
NameOfPair(p) == IF p[1] # <<>> THEN p[1][1] ELSE p[2][1]
MergeLemma(t1, t2) ==
    LET m == MergeEntries(t1, t2)
        s1 == Range(t1[2])
        s2 == Range(t2[2])
    IN /\ {m[k][1] : k \in DOMAIN m} \ {<<>>} = s1
       /\ {m[k][2] : k \in DOMAIN m} \ {<<>>} = s2
       /\ \A k \in 1..(Len(m) - 1) : TD!LexLess(NameOfPair(m[k]), NameOfPair(m[k + 1]))
       /\ \A k \in DOMAIN m : m[k][1] # <<>> /\ m[k][2] # <<>> => m[k][1][1] = m[k][2][1]

\* ------------------------------------------------------------------ _is_tree
\* mode = type * 4096 + perm (type = the S_IFMT nibble): a tree iff type = 4 (S_IFDIR)
IsTree(type, perm) == type = 4

\* ------------------------------------------------------------------ block counting
(* _count_blocks: the content is cut after every LF and after every 64th   *)
(* byte of a line; the result maps each distinct block to the total number *)
(* of bytes it accounts for (the real code keys the map by hash(block)).   *)
(***************************************************************************)
BlockSize == 64
RECURSIVE SplitFrom(_, _, _)
SplitFrom(b, i, cur) ==
    IF i > Len(b) THEN (IF cur = <<>> THEN <<>> ELSE <<cur>>)
    ELSE LET c == Append(cur, b[i]) IN
         IF b[i] = 10 \/ Len(c) = BlockSize THEN <<c>> \o SplitFrom(b, i + 1, <<>>)
         ELSE SplitFrom(b, i + 1, c)
Split(b) == SplitFrom(b, 1, <<>>)

\* blocks as <<0-based offset of the first occurrence, length, total bytes>>, by offset
RECURSIVE Offsets(_, _)
Offsets(bl, at) == IF bl = <<>> THEN <<>> ELSE <<at>> \o Offsets(Tail(bl), at + Len(bl[1]))
Count0(bl, off) ==
    LET first == {i \in DOMAIN bl : \A j \in 1..(i - 1) : bl[j] # bl[i]} IN
    SortSeq(SetToSeq({<<off[i], Len(bl[i]), Len(bl[i]) * Cardinality({j \in DOMAIN bl : bl[j] = bl[i]})>> : i \in first}),
            LAMBDA x, y : x[1] < y[1])
Count(b) == Count0(Split(b), Offsets(Split(b), 0))

RECURSIVE Concat(_)
Concat(s) == IF s = <<>> THEN <<>> ELSE s[1] \o Concat(Tail(s))
RECURSIVE SumThird(_)
SumThird(s) == IF s = <<>> THEN 0 ELSE s[1][3] + SumThird(Tail(s))
SplitLemma(b) ==
    LET bl == Split(b) IN
    /\ Concat(bl) = b
    /\ \A i \in DOMAIN bl : /\ Len(bl[i]) >= 1 /\ Len(bl[i]) <= BlockSize
                            /\ \A k \in 1..(Len(bl[i]) - 1) : bl[i][k] # 10
                            /\ i < Len(bl) => (bl[i][Len(bl[i])] = 10 \/ Len(bl[i]) = BlockSize)
    /\ SumThird(Count(b)) = Len(b)
=============================================================================

SPECIFICATION Spec
CONSTANTS
  Vers = {1, 3, 12, 60}
  Sizes = {400, 70000}
  Depths = {0, 1, 10, 50}
  Windows = {0, 10}
  Oids = {20, 32}
CHECK_DEADLOCK FALSE

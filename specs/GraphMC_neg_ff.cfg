\* negative control: TLC must find the can_fast_forward false negative of DESIGN section 5 row F17 (Exact violated)
SPECIFICATION Spec
CONSTANTS
  MaxExtra = 5
  N = 3
  L = 3
  Mode = "ff"
  UseMinStamp = TRUE
  Reduce = FALSE
  Clocks = "any"
  MaxD = 1
  TieBreak = "both"
INVARIANT Exact
CHECK_DEADLOCK FALSE

\* TRACE_FILE=<ndjson> ; UseMinStamp/Reduce = the variant of graph.py the tree implements (detected by the harness)
SPECIFICATION TraceSpec
CONSTANTS
  MaxExtra = 5
  UseMinStamp = TRUE
  Reduce = FALSE
CHECK_DEADLOCK FALSE

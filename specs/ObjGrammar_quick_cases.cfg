SPECIFICATION Spec
CONSTANTS
  Radius = 2
  TreeMax = 3
  Alphabet = {45, 48, 255}
  Kinds = {"commit", "tag", "tree", "blob"}
  EmptyLine = 0
  Part = 0
  Edits = FALSE
INVARIANT WellFormed
INVARIANT TreeSorted
CHECK_DEADLOCK FALSE

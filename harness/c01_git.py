"""C01: C git as the third party (no dulwich in this module)."""
from __future__ import annotations

import os
import re
import subprocess

from . import c01_lib as L
from .core import MachineryError

ENV = {"GIT_CONFIG_NOSYSTEM": "1", "GIT_CONFIG_GLOBAL": "/dev/null", "HOME": "/nonexistent", "LC_ALL": "C", "TZ": "UTC"}


def git(repo, *args, stdin=None, env=None, check=True):
    e = dict(os.environ)
    e.update(ENV)
    if env:
        e.update(env)
    p = subprocess.run(["git", "-C", repo, *args], input=stdin, stdout=subprocess.PIPE, stderr=subprocess.PIPE, env=e)
    if check and p.returncode != 0:
        raise MachineryError(f"git {args!r} failed rc={p.returncode}: {p.stderr.decode('latin-1')[-1500:]}")
    return p


class Repo:
    def __init__(self, root, algo):
        self.algo = algo
        self.path = os.path.join(root, algo)
        os.makedirs(self.path)
        e = dict(os.environ)
        e.update(ENV)
        subprocess.run(["git", "init", "-q", "--bare", f"--object-format={algo}", self.path], check=True, env=e,
                       stdout=subprocess.PIPE, stderr=subprocess.PIPE)
        self.n = 0
        self.files = os.path.join(root, algo + "-files")
        os.makedirs(self.files)

    def write_objects(self, objs, literally=False):
        """objs: list of (kind, bytes).  Returns git's names (hash-object -w, one process per kind)."""
        out = [None] * len(objs)
        for kind in ("blob", "tree", "commit", "tag"):
            idx = [i for i, (k, _) in enumerate(objs) if k == kind]
            if not idx:
                continue
            paths = []
            for i in idx:
                self.n += 1
                p = os.path.join(self.files, str(self.n))
                with open(p, "wb") as f:
                    f.write(objs[i][1])
                paths.append(p)
            args = ["hash-object", "-w", "-t", kind, "--stdin-paths"] + (["--literally"] if literally else [])
            p = git(self.path, *args, stdin=("\n".join(paths) + "\n").encode())
            ids = p.stdout.split()
            if len(ids) != len(idx):
                raise MachineryError(f"hash-object returned {len(ids)} names for {len(idx)} {kind} objects")
            for i, x in zip(idx, ids):
                out[i] = x
        return out

    def fsck(self):
        """{object id: [msg ids]} of format complaints under --strict (connectivity lines ignored)."""
        p = git(self.path, "fsck", "--strict", "--no-dangling", "--no-progress", check=False)
        flagged = {}
        for line in (p.stdout + p.stderr).decode("latin-1").splitlines():
            m = re.match(r"^(error|warning) in (\w+) ([0-9a-f]+): (\w+):", line)
            if m:
                flagged.setdefault(m.group(3).encode(), []).append(m.group(4))
        return flagged

    def fsck_errors(self):
        """{object id: [msg ids]} of ERROR-level format complaints under --strict."""
        p = git(self.path, "fsck", "--strict", "--no-dangling", "--no-progress", check=False)
        flagged = {}
        for line in (p.stdout + p.stderr).decode("latin-1").splitlines():
            m = re.match(r"^error in (\w+) ([0-9a-f]+): (\w+):", line)
            if m:
                flagged.setdefault(m.group(2).encode(), []).append(m.group(3))
            elif line.startswith("error") or line.startswith("fatal"):
                raise MachineryError(f"git fsck: {line}")
        return flagged

    def read_objects(self, ids):
        """cat-file --batch: {id: (type, bytes)}"""
        p = git(self.path, "cat-file", "--batch", stdin=b"\n".join(ids) + b"\n")
        out, data, pos = {}, p.stdout, 0
        for i in ids:
            nl = data.index(b"\n", pos)
            hdr = data[pos:nl].split()
            if len(hdr) != 3:
                raise MachineryError(f"cat-file: {data[pos:nl]!r}")
            size = int(hdr[2])
            out[i] = (hdr[1].decode(), data[nl + 1:nl + 1 + size])
            pos = nl + 1 + size + 1
        return out

    def mktree_batch(self, trees):
        """trees: list of entry lists [(name, mode, hex)] in any order -> git's tree names."""
        kinds = {0o40000: b"tree", 0o160000: b"commit"}
        buf = []
        for ents in trees:
            for (n, m, h) in ents:
                buf.append(b"%o %s %s\t%s\0" % (m, kinds.get(m, b"blob"), h, n))
            buf.append(b"\0")
        p = git(self.path, "mktree", "-z", "--missing", "--batch", stdin=b"".join(buf))
        ids = p.stdout.split()
        if len(ids) != len(trees):
            raise MachineryError(f"mktree --batch returned {len(ids)} names for {len(trees)} trees: {p.stderr[-500:]}")
        return ids

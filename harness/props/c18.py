"""C18 -- work tree round trip: checkout then stage reproduces the tree; status is exact.

Spec: specs/WorkTreeStatus.tla (+ WorkTreeStatusMC.tla instances, WorkTreeStatusTrace.tla).
Binding:
  R  behaviours enumerated by TLC (every transition of the state graph of the edit
     configuration; every ordered pair of trees of the pairs configuration) are executed on
     a real repository through dulwich's entry points; after every step the triple projected
     from the repository (independently of dulwich) and what porcelain.status returned are
     compared with the state of the specification.
  0  the same behaviours are first carried out with C git's own commands (dulwich not
     involved): a disagreement there is a bug of the specification (machinery failure).
  T  every execution (those of R, and longer random ones over larger path sets, all naming and
     content schemes) is recorded as ndjson and judged by TLC with WorkTreeStatusTrace, which
     evaluates the invariants of the specification on the real states; `git status` run on the
     same directory is part of every event.
"""
from __future__ import annotations

import json
import multiprocessing
import os
import random
import shutil
import time
from types import SimpleNamespace

from .. import tlc
from ..core import MachineryError
from ..c18_lib import DulExec, GitExec, Scheme, World, NAME_SCHEMES
from ..c18_run import (FIELDS, cell_pattern, diff_signature, execute, path_flags, state_flags, to_trace, transition_classes)

SPEC = "WorkTreeStatusMC.tla"
STASH_SPEC = "WorkTreeStatusStashMC.tla"
STASH_SITE = {"StashPush": "dulwich/stash.py:Stash.push", "StashPop": "dulwich/stash.py:Stash.pop"}
CONTENT_SCHEMES = ("text", "shared", "crlf", "binary", "linkdir")
SCHEMES = [("plain", "shared"), ("quote", "text"), ("nonutf8", "crlf"), ("utf8", "linkdir"), ("dashdot", "binary"),
           ("plain", "linkdir"), ("nonutf8", "shared"), ("quote", "crlf"), ("utf8", "text"), ("plain", "binary")]
CHECKOUT_HOW = ("checkout", "reset", "build", "switch")
SWITCH_HOW = ("checkout", "reset", "switch")
EFFECT_SITE = {"Unstage": "dulwich/worktree.py:unstage", "RmCached": "dulwich/porcelain/__init__.py:remove", "Commit": "dulwich/worktree.py:commit",
               "ResetMixed": "dulwich/porcelain/__init__.py:reset"}
SITE_STATUS = {"add": "dulwich/index.py:changes_from_tree", "del": "dulwich/index.py:changes_from_tree", "mod": "dulwich/index.py:changes_from_tree",
               "unstaged": "dulwich/index.py:get_unstaged_changes", "untracked": "dulwich/porcelain/__init__.py:get_untracked_paths",
               "normdir": "dulwich/porcelain/__init__.py:get_untracked_paths", "normfile": "dulwich/porcelain/__init__.py:get_untracked_paths"}


# --------------------------------------------------------------------------- model states -> python
def cells_of(fn: dict) -> dict:
    """TLC function value {path: {'k':..,'c':..}} -> {path: (k, c)} for present paths."""
    out = {}
    for p, v in fn.items():
        if v["k"] != "-":
            out[tuple(str(x) for x in p)] = (str(v["k"]), int(v["c"]))
    return out


def rep_of(r: dict) -> dict:
    return {f: {tuple(str(x) for x in p) for p in r[f]} for f in FIELDS}


def step_of(st: dict) -> dict:
    """The action that led to state st (from its `last` variable) with the expectation st itself."""
    last = st["last"]
    act = str(last["act"])
    cell = (str(last["cell"]["k"]), int(last["cell"]["c"])) if last["cell"]["k"] != "-" else None
    head = cells_of(st["head"])
    return {"act": act, "p": tuple(str(x) for x in last["p"]), "q": tuple(str(x) for x in last["q"]), "cell": cell,
            "tree": head if act in ("Checkout", "Switch") else None,
            "exp": {"h": head, "i": cells_of(st["index"]), "w": cells_of(st["wd"]), "rep": rep_of(st["rep"])}}


def covering_behaviours(g, rng: random.Random, budget: int | None):
    """Behaviours (lists of node ids from the initial state) that between them take every edge of
    the graph (budget permitting).  The graph is layered by the step counter, so every path ends."""
    init = g.init[0]
    parent = {init: None}
    order = [init]
    for nid in order:
        for _lab, dst in g.edges.get(nid, []):
            if dst not in parent:
                parent[dst] = nid
                order.append(dst)

    def prefix(nid):
        out = []
        while nid is not None:
            out.append(nid)
            nid = parent[nid]
        return out[::-1]
    edges = sorted({(s, d) for s, es in g.edges.items() for (_l, d) in es})
    uncovered = set(edges)
    rng.shuffle(edges)
    # deepest edges first: their prefixes cover the shallow ones
    depth = {}
    for nid in order:
        depth[nid] = 0 if parent[nid] is None else depth[parent[nid]] + 1
    edges.sort(key=lambda e: -depth[e[0]])
    behs = []
    for (s, d) in edges:
        if (s, d) not in uncovered:
            continue
        if budget is not None and len(behs) >= budget:
            break
        path = prefix(s) + [d]
        nid = d
        while True:
            cand = [x for (_l, x) in g.edges.get(nid, []) if (nid, x) in uncovered]
            if not cand:
                break
            nxt = cand[rng.randrange(len(cand))]
            path.append(nxt)
            nid = nxt
        fresh = []
        for a, b in zip(path, path[1:]):
            fresh.append((a, b) in uncovered)
            uncovered.discard((a, b))
        behs.append((path, fresh))
    return behs, len(set(edges)), len(set(edges)) - len(uncovered)


# --------------------------------------------------------------------------- worker side
_W = {}


def _world(scratch: str, names: str, contents: str, large: int) -> World:
    key = (names, contents, large)
    w = _W.get(key)
    if w is None:
        base = os.path.join(scratch, f"w{os.getpid()}")
        home = os.path.join(base, "home")
        os.makedirs(home, exist_ok=True)
        os.environ["HOME"] = home
        os.environ["XDG_CONFIG_HOME"] = os.path.join(home, ".config")
        for k in [k for k in os.environ if k.startswith("GIT_")]:
            del os.environ[k]
        w = _W[key] = World(os.path.join(base, f"{names}-{contents}-{large}"), Scheme(names, contents, large), home)
    return w


def judge_against_graph(run: dict):
    """spec -> code: compare every step with the state of the specification it should have
    reached.  -> (diverged_at or None, set of (step, field, sign, path) status differences on the
    steps before that, list of triple differences at the diverging step)."""
    rdiffs = set()
    for k, ev in enumerate(run["events"]):
        exp = ev.get("exp")
        if exp is None:
            return None, rdiffs, []
        tri = [(name, p) for name in "hiw" for p in set(exp[name]) | set(ev[name]) if exp[name].get(p) != ev[name].get(p)]
        if tri:
            return k, rdiffs, tri
        if ev["rep"] is None:
            continue
        for f in FIELDS:
            for p in ev["rep"][f] - exp["rep"][f]:
                rdiffs.add((k, f, "+", p))
            for p in exp["rep"][f] - ev["rep"][f]:
                rdiffs.add((k, f, "-", p))
    return None, rdiffs, []


def run_chunk(task: dict):
    """Execute a chunk of behaviours with one executor, validate the recorded traces with TLC
    (WorkTreeStatusTrace) and judge.  Returns findings, drift, counters -- no bulk data."""
    t0 = time.time()
    scratch = task["scratch"]
    res = {"findings": [], "drift": [], "machinery": [], "n_beh": 0, "n_steps": 0, "n_events": 0, "nontrivial": [], "samples": [],
           "acts": {}, "stops": {}, "tlc": {"distinct": 0, "generated": 0, "wall_s": 0.0, "runs": 0}, "label": task["label"], "strict_steps": 0}
    traces, runs = [], {}
    todo = list(task["behaviours"])
    bi = -1
    while bi + 1 < len(todo):
        bi += 1
        beh = todo[bi]
        names, contents = beh["scheme"]
        w = _world(scratch, names, contents, task.get("large", 200_000))
        ex = GitExec(w) if task["executor"] == "git" else DulExec(w)
        steps = RandomDriver(*beh["gen"]) if beh.get("gen") else beh["steps"]
        run = execute(w, ex, steps, beh["opts"])
        beh = dict(beh, steps=run["done"])
        tid = bi + 1
        runs[tid] = (beh, run)
        st = run["stop"]
        if st is not None and task["label"].startswith("R:pairs") and st["act"] == "Switch" and st["at"] + 1 < len(todo[bi]["steps"]):
            # the switch t_k -> t_k+1 failed: carry on with the rest of the chain from a fresh checkout of t_k+1
            rest = todo[bi]["steps"][st["at"]:]
            todo.append({"steps": [dict(rest[0], act="Checkout")] + rest[1:], "scheme": beh["scheme"], "opts": beh["opts"]})
        res["n_beh"] += 1
        res["n_steps"] += len(run["done"])
        res["n_events"] += len(run["events"])
        for ev in run["events"]:
            res["acts"][ev["act"]] = res["acts"].get(ev["act"], 0) + 1
        if run["events"]:
            traces.append(to_trace(tid, run))
        res["nontrivial"].append(hash((beh["scheme"], tuple(sorted(beh["opts"].items())),
                                       tuple((e["act"], e["p"], e["q"], e["cell"], tuple(sorted((e["tree"] or {}).items()))) for e in run["events"]))))
    # ---- T: TLC judges every recorded execution
    steps_bad, diffs, done = {}, {}, {}
    if traces:
        path = os.path.join(scratch, f"traces-{os.getpid()}-{time.time_ns()}.ndjson")
        universe = sorted({tuple(p) for t in traces for p in t["paths"]})
        for t in traces:
            t["paths"] = []
        traces[0]["paths"] = [list(p) for p in universe]
        with open(path, "w") as f:
            for t in traces:
                f.write(json.dumps(t, separators=(",", ":")) + "\n")
        r = tlc.run("WorkTreeStatusTrace.tla", "WorkTreeStatusTrace.cfg", workers=1, timeout=3600, env={"TRACE_FILE": path},
                    java_opts=["-Xmx1500m", "-XX:ParallelGCThreads=2"])
        res["tlc"] = {"distinct": r.distinct, "generated": r.generated, "wall_s": r.wall_s, "runs": 1}
        for v in tlc.extract_printed(r.output, "DONE"):
            done[v[1]] = v[2]
        for v in tlc.extract_printed(r.output, "STEP"):
            steps_bad[(v[1], v[2])] = (bool(v[3]), {str(x) for x in v[4]})
        for v in tlc.extract_printed(r.output, "DIFF"):
            diffs.setdefault((v[1], v[2]), []).append((str(v[3]), str(v[4]), str(v[5]), tuple(str(x) for x in v[6])))
        if not r.ok or len(done) != len(traces):
            res["machinery"].append(f"trace validation incomplete in {task['label']}: ok={r.ok} done={len(done)}/{len(traces)}\n{r.output[-2500:]}")
            return res
        os.unlink(path)
    is_git = task["executor"] == "git"
    for tid, (beh, run) in runs.items():
        evs = run["events"]
        meta = {"scheme": list(beh["scheme"]), "opts": beh["opts"], "label": task["label"], "executor": task["executor"],
                "large": task.get("large", 200_000), "steps": [ser_step(s) for s in beh["steps"]]}
        # ---- R: step-by-step comparison with the specification's states (when the behaviour came from TLC)
        div, rdiffs, tri = judge_against_graph(run)
        # consistency of the two judges on the steps both judge
        upto = div if div is not None else len(evs)
        tdiffs = {(l - 1, f, s, p) for (t, l), ds in diffs.items() if t == tid and l - 1 < upto for (c, f, s, p) in ds if c == "StatusExact"}
        if evs and evs[0].get("exp") is not None and tdiffs != rdiffs:
            res["machinery"].append(f"graph comparison and trace validation disagree on {meta}: graph={sorted(rdiffs)} trace={sorted(tdiffs)}")
        for k, ev in enumerate(evs):
            bad = steps_bad.get((tid, k + 1))
            if bad is None:
                res["strict_steps"] += 1
            strict, clauses = bad if bad is not None else (True, set())
            prop_fail = False
            for (c, f, s, p) in diffs.get((tid, k + 1), []):
                if c == "GitDisagrees":
                    continue
                prop_fail = True
                if is_git:
                    res["machinery"].append(f"specification disagrees with git (dulwich not involved): step {k} {ev['act']} {c}.{f}{s} {p} in {meta}")
                    continue
                sig_tail = diff_signature(c, f, s, p, ev["h"], ev["i"], ev["w"])
                if c == "RoundTrip":
                    site = "dulwich/index.py:update_working_tree" if k else "dulwich/index.py:build_index_from_tree|update_working_tree"
                    how = "hard" if ev["act"] == "ResetHard" else beh["opts"].get("checkout" if ev["act"] == "Checkout" else "switch")
                    sig_tail += f" via={ev['act']}:{how}"
                elif c in ("StageAllComplete", "StageComplete"):
                    site = "dulwich/porcelain/__init__.py:add"
                elif c == "EditEffect":
                    site = EFFECT_SITE.get(ev["act"], "?")
                    sig_tail = sig_tail.replace("EditEffect.", f"EditEffect.{ev['act']}.", 1)
                elif ev["act"] in STASH_SITE:
                    # the index (entries and stat data) status reads was written by the stash operation just carried out
                    site = STASH_SITE[ev["act"]]
                    sig_tail += f" after={ev['act']}"
                else:
                    site = SITE_STATUS.get(f, "dulwich/porcelain/__init__.py:status")
                got = (ev["rep"] or {}) if c != "StatusExactNormal" else sorted(ev.get("norm") or ())
                res["findings"].append({"sig": f"{site}|{sig_tail}", "what": f"{c}: after {ev['act']} {'/'.join(ev['p'])} status field {f} {s} path {'/'.join(p)} "
                                        f"(HEAD/index/directory there: {ev['h'].get(p)}/{ev['i'].get(p)}/{ev['w'].get(p)}); git on the same directory: "
                                        f"{fmt_rep(ev.get('git'))}", "meta": meta, "step": k, "clause": c, "got": fmt_rep(got) if isinstance(got, dict) else str(got)})
            if "GitDisagrees" in clauses and not is_git:
                # the specification (evaluated on the projected triple) and git (on the same directory) differ
                gd = [(f, s, p) for (c, f, s, p) in diffs.get((tid, k + 1), []) if c == "GitDisagrees"]
                same_as_dulwich = ev["rep"] is not None and all(ev["git"][f] == ev["rep"][f] for f in FIELDS)
                for (f, s, p) in gd:
                    sig_tail = diff_signature("StatusVsGit", f, s, p, ev["h"], ev["i"], ev["w"])
                    res["findings"].append({"sig": f"dulwich/index.py:index stat data|{sig_tail}", "what": f"git status on the directory dulwich left differs from the content-level difference: "
                                            f"{f}{s} {'/'.join(p)} after {ev['act']} (git agrees with dulwich: {same_as_dulwich})", "meta": meta, "step": k, "clause": "StatusVsGit",
                                            "got": fmt_rep(ev["git"])})
                    prop_fail = True
            if not strict and not prop_fail:
                if is_git:
                    res["machinery"].append(f"specification disagrees with git (dulwich not involved): step {k} {ev['act']} is not the action's effect in {meta}: "
                                            f"h={ev['h']} i={ev['i']} w={ev['w']} exp={ev.get('exp')}")
                else:
                    res["drift"].append(f"{task['label']}: step {k} {ev['act']} {'/'.join(ev['p'])} left the model without a property clause failing: scheme={beh['scheme']} "
                                        f"i={ev['i']} w={ev['w']} exp={ {n: (ev.get('exp') or {}).get(n) for n in 'iw'} } steps={[ (s['act'], s.get('p')) for s in beh['steps'][:k + 1]]}")
            sx = ev.get("status_exc")
            if sx is not None:
                key = f"status:{ev['act']}:{sx['exc']}"
                res["stops"][key] = res["stops"].get(key, 0) + 1
                if is_git:
                    res["machinery"].append(f"git status failed at step {k} of {meta}: {sx['exc']} {sx['msg']}")
                else:
                    res["findings"].append({"sig": f"{sx['site']}|StatusRaises|{sx['exc']}|{state_flags(ev['i'], ev['w'])}",
                                            "what": f"porcelain.status(untracked_files={sx['mode']!r}) raised {sx['exc']}: {sx['msg']} after {ev['act']} {'/'.join(ev['p'])}; "
                                                    f"git on the same directory: {fmt_rep(ev.get('git'))}", "meta": meta, "step": k, "clause": "StatusRaises", "got": sx["tb"]})
            # tree id observed through the entry point (Index.commit) against the id of the target tree computed independently
            if ev["act"] in ("Checkout", "Switch") and not is_git and "tree_id" in ev:
                want = _W[(beh["scheme"][0], beh["scheme"][1], task.get("large", 200_000))].tree_id(ev["tree"])
                if ev["tree_id"] != want:
                    res["findings"].append({"sig": f"dulwich/index.py:commit_tree|RoundTrip.treeid|{transition_classes(evs[k - 1]['h'] if k else {}, ev['tree'])}",
                                            "what": f"after {ev['act']} Index.commit gives {ev['tree_id']} but the tree checked out is {want}", "meta": meta, "step": k, "clause": "RoundTrip.treeid", "got": ev["tree_id"]})
            if ev["act"] == "StageAll" and not is_git and "tree_id" in ev and strict and not prop_fail:
                want = _W[(beh["scheme"][0], beh["scheme"][1], task.get("large", 200_000))].tree_id(ev["w"])
                if ev["tree_id"] != want:
                    res["findings"].append({"sig": "dulwich/index.py:commit_tree|StageAllComplete.treeid|index equals directory",
                                            "what": f"after StageAll the index lists exactly the directory, yet Index.commit gives {ev['tree_id']} instead of {want}", "meta": meta, "step": k,
                                            "clause": "StageAllComplete.treeid", "got": ev["tree_id"]})
        # ---- the behaviour could not be carried through
        st = run["stop"]
        if st is not None and st["kind"] == "diverged":
            res["stops"]["diverged:" + st["act"]] = res["stops"].get("diverged:" + st["act"], 0) + 1
        elif st is not None:
            key = f"{st['kind']}:{st['act']}:{st['exc']}"
            res["stops"][key] = res["stops"].get(key, 0) + 1
            k = st["at"]
            s = beh["steps"][k]
            if is_git:
                res["machinery"].append(f"git could not carry out step {k} {st['act']} of {meta}: {st['exc']} {st['msg']}")
            else:
                prev = evs[k - 1] if k else {"h": {}, "i": {}, "w": {}}
                if st["act"] in ("Checkout", "Switch"):
                    ctxs = transition_classes(prev["h"], s["tree"]) + f" via={st['act']}:{beh['opts'].get('checkout' if st['act'] == 'Checkout' else 'switch')}"
                    clause = "RoundTrip.Raises"
                elif st["act"] == "ResetHard":
                    ctxs = transition_classes(prev["w"], prev["h"])
                    clause = "ResetHard.Raises"
                else:
                    ctxs = state_flags(prev["i"], prev["w"])
                    if s.get("p"):
                        pp = tuple(s["p"])
                        fl = path_flags(pp, prev["i"], prev["w"])
                        ctxs += "|" + cell_pattern((prev["h"].get(pp), prev["i"].get(pp), prev["w"].get(pp))) + (f" [{fl}]" if fl else "")
                    clause = f"{st['act']}.Raises"
                res["findings"].append({"sig": f"{st['site']}|{clause}|{st['exc']}|{ctxs}", "what": f"{st['act']} {'/'.join(s.get('p') or ())} raised {st['exc']}: {st['msg']}",
                                        "meta": meta, "step": k, "clause": clause, "got": st["tb"]})
        if len(res["samples"]) < 1 and evs:
            last = evs[-1]
            res["samples"].append({"label": task["label"], "scheme": meta["scheme"], "opts": meta["opts"], "actions": [(s["act"], "/".join(s.get("p") or ())) for s in beh["steps"]],
                                   "final": {"head": fmt_map(last["h"]), "index": fmt_map(last["i"]), "wd": fmt_map(last["w"]), "status": fmt_rep(last["rep"]), "git": fmt_rep(last.get("git"))}})
    seen, uniq = {}, []
    for f in res["findings"]:
        if f["sig"] in seen:
            seen[f["sig"]]["count"] += 1
        else:
            f["count"] = 1
            seen[f["sig"]] = f
            uniq.append(f)
    res["findings"] = uniq
    res["wall_s"] = time.time() - t0
    return res


def ser_step(s):
    return {"act": s["act"], "p": list(s.get("p") or ()), "q": list(s.get("q") or ()), "cell": list(s["cell"]) if s.get("cell") else None,
            "tree": [[list(p), k, c] for p, (k, c) in sorted(s["tree"].items())] if s.get("tree") is not None else None}


def deser_step(s):
    return {"act": s["act"], "p": tuple(s.get("p") or ()), "q": tuple(s.get("q") or ()), "cell": tuple(s["cell"]) if s.get("cell") else None,
            "tree": {tuple(p): (k, c) for p, k, c in s["tree"]} if s.get("tree") is not None else None}


def fmt_map(m):
    return {"/".join(p): f"{k}{c}" for p, (k, c) in sorted(m.items())}


def fmt_rep(r):
    if r is None:
        return None
    return {f: sorted("/".join(p) for p in r[f]) for f in FIELDS if r.get(f)}


# --------------------------------------------------------------------------- behaviour sources
def pick_opts(i: int, git_every=True, normal=True):
    return {"checkout": CHECKOUT_HOW[i % 4], "switch": SWITCH_HOW[(i // 4) % 3], "unstage": ("unstage", "restore")[(i // 12) % 2],
            "prune": bool((i // 24) % 2), "perms": i % 3, "cfg": (i // 3) % 4, "git_every": git_every, "normal": normal}


def git_opts(i: int):
    return {"checkout": ("checkout", "reset")[i % 2], "switch": ("checkout", "reset")[(i // 2) % 2], "prune": bool((i // 4) % 2), "perms": i % 3, "cfg": (i // 3) % 4, "normal": True}


def graph_behaviours(ctx, cfg: str, name: str, budget, spec: str = SPEC, workers: int = 8):
    d = ctx.tmpdir("g")
    dot = os.path.join(d, "g.dot")
    res = tlc.run(spec, cfg, workers=workers, timeout=1500, dump_dot=dot, coverage=not ctx.quick)
    ctx.add_tlc(name, res)
    g = tlc.load_dot(dot)
    shutil.rmtree(d, ignore_errors=True)
    paths, nedges, ncov = covering_behaviours(g, ctx.rng, budget)
    behs = []
    for path, fresh in paths:
        steps = [step_of(g.nodes[nid]) for nid in path[1:]]
        for st, fr in zip(steps, fresh):
            st["obs"] = fr
        behs.append(steps)
    ctx.log(f"{name}: {len(g.nodes)} states, {nedges} transitions, {len(behs)} behaviours cover {ncov}")
    ctx.cov.setdefault("graph_replay", []).append({"config": cfg, "states": len(g.nodes), "transitions": nedges, "behaviours": len(behs), "transitions_covered": ncov})
    return behs


def pair_trees(ctx, cfg: str, name: str):
    """All trees of the pairs configuration (states reached by Checkout), from TLC's state dump."""
    d = ctx.tmpdir("p")
    dump = os.path.join(d, "states")
    res = tlc.run(SPEC, cfg, workers=8, timeout=1500, dump_states=dump)
    ctx.add_tlc(name, res)
    trees = []
    for st in tlc.load_state_dump(dump):
        if str(st["last"]["act"]) == "Checkout":
            trees.append(cells_of(st["head"]))
    shutil.rmtree(d, ignore_errors=True)
    trees.sort(key=lambda t: sorted(t.items()))
    return trees, res


def pair_chains(trees, pairs, chain_len: int):
    """Chains Checkout(t0); Switch(t1); Switch(t2) ... that between them take every ordered pair
    in `pairs` (indices into trees) exactly once as a Switch, greedily following unused pairs."""
    out_edges = {}
    for a, b in pairs:
        out_edges.setdefault(a, []).append(b)
    chains = []
    starts = sorted(out_edges)
    for s in starts:
        while out_edges.get(s):
            chain = [s]
            cur = s
            while len(chain) <= chain_len and out_edges.get(cur):
                nxt = out_edges[cur].pop()
                chain.append(nxt)
                cur = nxt
            chains.append(chain)
    behs = []
    for ch in chains:
        steps = [{"act": "Checkout", "tree": trees[ch[0]], "exp": clean_exp(trees[ch[0]])}]
        for x in ch[1:]:
            steps.append({"act": "Switch", "tree": trees[x], "exp": clean_exp(trees[x])})
        behs.append(steps)
    return behs


def clean_exp(t):
    return {"h": dict(t), "i": dict(t), "w": dict(t), "rep": {f: set() for f in FIELDS}}


# --------------------------------------------------------------------------- random driver (code -> spec)
R_NAMES = ["a", "b", "c", "d", "e", "f", "g", "s", "x"]


def random_universe(rng: random.Random):
    """A prefix-closed menu of paths: top-level names, each possibly also a directory with
    children, one level deeper for some."""
    tops = rng.sample(R_NAMES, rng.randint(3, 5))
    paths = []
    for t in tops:
        paths.append((t,))
        for ch in rng.sample(R_NAMES, rng.randint(0, 3)):
            paths.append((t, ch))
            if rng.random() < 0.4:
                paths.append((t, ch, rng.choice(R_NAMES)))
    return sorted(set(paths))


def above(p, q):
    return len(p) < len(q) and q[:len(p)] == p


def clash(p, q):
    return above(p, q) or above(q, p)


def random_tree(rng, universe, kinds="FXL", contents=(1, 2, 3, 4, 5)):
    t = {}
    for p in rng.sample(universe, len(universe)):
        if rng.random() < 0.55 and not any(clash(p, q) or p == q for q in t):
            t[p] = (rng.choice(kinds), rng.choice(contents))
    return t


def valid(m):
    ps = list(m)
    return not any(above(p, q) for p in ps for q in ps)


class RandomDriver:
    """Random behaviour inside the modelled domain, chosen step by step from the state *observed*
    on the repository (so that a defect already reported never makes the driver ask for an action
    the real state does not admit).  The guards mirror the enabling conditions of
    WorkTreeStatus.tla; what is judged is what the repository really does (TLC applies the
    specification's actions to the observed states)."""

    def __init__(self, seed: int, length: int):
        self.seed, self.length = seed, length
        rng = self.rng = random.Random(seed)
        self.U = random_universe(rng)
        t0 = random_tree(rng, self.U)
        self.trees = [t0] + [random_tree(rng, self.U) for _ in range(2)]
        self.k = 0

    def covered(self, p):
        return [q for q in self.U if q == p or above(p, q)]

    def next(self, h, i, w):
        rng, U = self.rng, self.U
        self.k += 1
        if self.k == 1:
            return {"act": "Checkout", "tree": dict(self.trees[0])}
        if self.k > self.length + 1:
            return None
        known = lambda m: all(p in U and c[0] in "FXL" and isinstance(c[1], int) for p, c in m.items())   # noqa: E731
        if not (known(h) and known(i) and known(w)):
            return None     # the repository holds something the path universe does not know (reported where it arose)
        unstaged = {p for p in i if w.get(p) != i[p]}
        untracked = {p for p in w if p not in i}
        staged = {p for p in set(h) | set(i) if h.get(p) != i.get(p)}
        cands = []
        for p in w:
            cands.append(("Modify", p))
            cands.append(("Delete", p))
            cands.append(("Retype", p))
            if w[p][0] in "FX":
                cands.append(("Chmod", p))
            if any(above(p, q) for q in U):
                cands.append(("FileToDir", p))
        for p in U:
            if p not in w and not any(clash(p, q) for q in w):
                cands.append(("Create", p))
            if p not in w and any(above(p, q) for q in w) and not any(above(q, p) for q in w):
                cands.append(("DirToFile", p))
            cov = self.covered(p)
            if (p in w or p in i or any(above(p, q) for q in w)) and not any(above(r, p) for r in w) \
                    and not (p in w and any(above(p, r) for r in i)) \
                    and all(all(r in cov for r in i if clash(r, q)) for q in cov if q in w):
                cands.append(("Stage", p))
            if (p in h or p in i) and not any(above(p, q) for q in list(h) + list(i)) and not any(above(r, p) for r in list(h) + list(i)):
                cands.append(("Unstage", p))
            if p in i:
                cands.append(("RmCached", p))
        cands += [("StageAll", None)] * 3 + [("ResetMixed", None)]
        if valid(i):
            cands += [("Commit", None)] * 2
            tracked = set(h) | set(i)
            if all(u != q and not clash(u, q) for u in w if u not in tracked for q in h):
                cands.append(("ResetHard", None))
        if not unstaged and not staged:
            for t in self.trees:
                if t != h and all(u != q and not clash(u, q) for u in untracked for q in list(t) + list(h)):
                    cands += [("Switch", t)] * 3
        act, arg = cands[rng.randrange(len(cands))]
        s = {"act": act}
        if act == "Modify":
            s.update(p=arg, cell=(w[arg][0], rng.choice([x for x in (1, 2, 3, 4, 5) if x != w[arg][1]])))
        elif act == "Chmod":
            s.update(p=arg, cell=("X" if w[arg][0] == "F" else "F", w[arg][1]))
        elif act == "Retype":
            s.update(p=arg, cell=("F" if w[arg][0] == "L" else "L", w[arg][1]))
        elif act == "Create":
            s.update(p=arg, cell=(rng.choice("FXL"), rng.choice((1, 2, 3, 4, 5))))
        elif act == "FileToDir":
            s.update(p=arg, q=rng.choice([q for q in U if above(arg, q)]), cell=(rng.choice("FXL"), rng.choice((1, 2, 3))))
        elif act == "DirToFile":
            s.update(p=arg, cell=(rng.choice("FXL"), rng.choice((1, 2, 3))))
        elif act in ("Delete", "Stage", "Unstage", "RmCached"):
            s.update(p=arg)
        elif act == "Switch":
            s.update(tree=dict(arg))
        return s


# --------------------------------------------------------------------------- orchestration
def chunked(behs, label, executor, scratch, nchunks, large=200_000):
    """Split into about nchunks chunks of similar cost (cost ~ steps that are observed, plus a little for the others)."""
    if not behs:
        return []
    def cost(b):
        if b.get("gen"):
            return 3 * (b["gen"][1] + 1)
        return sum(3 if s.get("obs", True) else 1 for s in b["steps"])
    total = sum(cost(b) for b in behs)
    per = max(1, total // max(1, nchunks))
    tasks, cur, acc = [], [], 0
    for b in behs:
        cur.append(b)
        acc += cost(b)
        if acc >= per:
            tasks.append({"label": label, "executor": executor, "scratch": scratch, "behaviours": cur, "large": large, "cost": acc})
            cur, acc = [], 0
    if cur:
        tasks.append({"label": label, "executor": executor, "scratch": scratch, "behaviours": cur, "large": large, "cost": acc})
    return tasks


def with_schemes(step_lists, opts_fn, schemes, offset=0):
    out = []
    for k, steps in enumerate(step_lists):
        out.append({"steps": steps, "scheme": schemes[(k + offset) % len(schemes)], "opts": opts_fn(k + offset)})
    return out


def absorb(ctx, results):
    agg = {}
    for r in results:
        for m in r["machinery"]:
            raise MachineryError(m)
        a = agg.setdefault(r["label"], {"n_beh": 0, "n_steps": 0, "n_events": 0, "distinct": 0, "generated": 0, "wall_s": 0.0, "runs": 0, "acts": {}, "stops": {}, "strict_steps": 0})
        for k in ("n_beh", "n_steps", "n_events", "strict_steps"):
            a[k] += r[k]
        for k in ("distinct", "generated", "wall_s", "runs"):
            a[k] += r["tlc"][k]
        for k, v in r["acts"].items():
            a["acts"][k] = a["acts"].get(k, 0) + v
        for k, v in r["stops"].items():
            a["stops"][k] = a["stops"].get(k, 0) + v
        for f in r["findings"]:
            ctx.violation(f["sig"], f["what"], {"clause": f["clause"], "step": f["step"], "got": f["got"], "meta": f["meta"]})
        for dmsg in r["drift"]:
            ctx.drift_event(dmsg)
        for h in r["nontrivial"]:
            ctx.nontrivial(h)
        for s in r["samples"]:
            ctx.sample(s, limit=6)
    slow = sorted(results, key=lambda r: -r.get("wall_s", 0))[:4]
    ctx.log("slowest chunks: " + "; ".join(f"{r['label']} {r.get('wall_s', 0):.0f}s (tlc {r['tlc']['wall_s']:.0f}s, {r['n_beh']} beh, {r['n_events']} ev)" for r in slow))
    for label, a in agg.items():
        ctx.count(a["n_steps"])
        ctx.validated(a["n_beh"])
        ctx.add_tlc(f"WorkTreeStatusTrace[{label}] ({a['runs']} batches, {a['n_beh']} executions, {a['n_events']} events)",
                    SimpleNamespace(distinct=a["distinct"], generated=a["generated"], depth=0, wall_s=a["wall_s"], ok=True, violated=[], coverage=None, timed_out=False, output=""))
        ctx.cov.setdefault("replay", {})[label] = {"behaviours": a["n_beh"], "steps": a["n_steps"], "events_judged": a["n_events"], "clean_spec_steps": a["strict_steps"],
                                                   "actions": a["acts"], "stopped_by_exception": a["stops"]}
        ctx.log(f"{label}: {a['n_beh']} behaviours, {a['n_steps']} steps, {a['n_events']} events judged by TLC, stops={a['stops']}")
    return agg


def run(ctx):
    from concurrent.futures import ThreadPoolExecutor
    nproc = min(14, os.cpu_count() or 4)
    # ---- 1. the model (the TLC runs go side by side)
    tp = ThreadPoolExecutor(4)
    negs = [(cfg, expect, tp.submit(tlc.run, SPEC, cfg, workers=2, timeout=300))
            for cfg, expect in (("WorkTreeStatus_neg_modeblind.cfg", "StageAllComplete"), ("WorkTreeStatus_neg_linkblind.cfg", "RoundTrip"))]
    f_pairs = tp.submit(pair_trees, ctx, ctx.pick("WorkTreeStatus_pairsq.cfg", "WorkTreeStatus_pairs.cfg"), "pairs (all ordered pairs of trees; Checkout, Switch, StageAll)")
    f_e4 = None if ctx.quick else tp.submit(tlc.run, SPEC, "WorkTreeStatus_edits4.cfg", workers=6, timeout=2400)
    f_br = tp.submit(tlc.run, "WorkTreeStatusBridge.tla", ctx.pick("WorkTreeStatusBridge_q.cfg", "WorkTreeStatusBridge.cfg"), workers=2, timeout=1200)
    edit_behs = graph_behaviours(ctx, ctx.pick("WorkTreeStatus_edits2.cfg", "WorkTreeStatus_edits3.cfg"),
                                 ctx.pick("edits2 (3 trees, every action, 2 steps after checkout)", "edits3 (3 trees, every action, 3 steps after checkout)"),
                                 ctx.pick(None, 90000))
    stash_behs = graph_behaviours(ctx, ctx.pick("WorkTreeStatusStash_q.cfg", "WorkTreeStatusStash_t.cfg"),
                                  ctx.pick("stash (1 tree, edits and staging, 3 steps, then stash push / pop)", "stash (2 trees, edits, staging, unstaging, 4 steps, then stash push / pop)"),
                                  ctx.pick(None, 30000), spec=STASH_SPEC, workers=6)
    trees, _ = f_pairs.result()
    for cfg, expect, fut in negs:
        r = fut.result()
        ctx.add_tlc(f"{cfg} (negative control, expects {expect})", r, require_ok=False)
        if expect not in r.violated:
            raise MachineryError(f"negative control {cfg} did not find {expect}: {r.violated}\n{r.output[-1500:]}")
    # ---- behaviours
    n = len(trees)
    all_pairs = [(a, b) for a in range(n) for b in range(n) if a != b]
    ctx.rng.shuffle(all_pairs)
    if ctx.quick:
        all_pairs = all_pairs[:3600]
    pair_behs = pair_chains(trees, all_pairs, 30)
    ctx.cov["pairs"] = {"trees": n, "ordered_pairs_total": n * (n - 1), "ordered_pairs_replayed": len(all_pairs), "chains": len(pair_behs)}
    # round trip of every tree by every checkout method: Checkout(t); StageAll
    rt_behs = []
    for t in trees:
        rt_behs.append([{"act": "Checkout", "tree": t, "exp": clean_exp(t)}, {"act": "StageAll", "exp": clean_exp(t)}])
    rnd = random.Random(ctx.seed * 7919 + 18)
    rand_gens = [(rnd.randrange(1 << 30), rnd.randint(4, ctx.pick(10, 14))) for _ in range(ctx.pick(320, 7000))]
    scratch = ctx.scratch
    tasks = []
    # 0: the specification against git, dulwich not involved (every step observed)
    sample0 = [[dict(s, obs=True) for s in b] for b in edit_behs[::ctx.pick(14, 40)] + pair_behs[::ctx.pick(16, 10)] + stash_behs[::ctx.pick(8, 20)]]
    git0 = with_schemes(sample0, git_opts, SCHEMES)
    git0 += [{"gen": g, "scheme": SCHEMES[k % len(SCHEMES)], "opts": git_opts(k)} for k, g in enumerate(rand_gens[::ctx.pick(8, 12)])]
    tasks += chunked(git0, "0:spec-vs-git", "git", scratch, ctx.pick(4, 14))
    git_every = not ctx.quick
    tasks += chunked(with_schemes(edit_behs, lambda k: pick_opts(k, git_every=True), SCHEMES), "R:edits", "dulwich", scratch, ctx.pick(14, 56))
    tasks += chunked(with_schemes(pair_behs, lambda k: pick_opts(k, git_every=git_every, normal=False), SCHEMES), "R:pairs", "dulwich", scratch, ctx.pick(14, 28))
    tasks += chunked(with_schemes(stash_behs, lambda k: dict(pick_opts(k, git_every=True), stash=("porcelain", "class")[(k // 5) % 2]), SCHEMES),
                     "R:stash", "dulwich", scratch, ctx.pick(8, 28))
    rt = []
    for k, steps in enumerate(rt_behs):
        for m, how in enumerate(CHECKOUT_HOW):
            if ctx.quick and (k + m) % 2:
                continue
            rt.append({"steps": steps, "scheme": SCHEMES[(k + m) % len(SCHEMES)], "opts": dict(pick_opts(k), checkout=how)})
    tasks += chunked(rt, "R:roundtrip", "dulwich", scratch, ctx.pick(2, 4))
    rand = [{"gen": g, "scheme": SCHEMES[k % len(SCHEMES)], "opts": pick_opts(k, git_every=True)} for k, g in enumerate(rand_gens)]
    tasks += chunked(rand, "T:random", "dulwich", scratch, ctx.pick(8, 42))
    if not ctx.quick:
        big = [{"gen": g, "scheme": (("plain", "binary"), ("nonutf8", "binary"))[k % 2], "opts": pick_opts(k)} for k, g in enumerate(rand_gens[:240])]
        tasks += chunked(big, "T:large-files", "dulwich", scratch, 8, large=6_000_000)
    # longest first
    tasks.sort(key=lambda t: -t["cost"])
    ctx.log(f"{len(tasks)} chunks on {nproc} processes: edits={len(edit_behs)} stash={len(stash_behs)} pair-chains={len(pair_behs)} roundtrip={len(rt)} random={len(rand_gens)} spec-vs-git={len(git0)}")
    mp = multiprocessing.get_context("fork")
    with mp.Pool(nproc) as pool:
        results = pool.map(run_chunk, tasks, chunksize=1)
    if f_e4 is not None:
        ctx.add_tlc("edits4 (4 trees, every action, 4 steps after checkout; model level only)", f_e4.result())
    ctx.add_tlc("bridge to TreeDiff (all pairs of maps: the tree identifies the map; staged classes = tree diff)", f_br.result())
    tp.shutdown()
    absorb(ctx, results)
    ctx.cov["rule"] = ("an execution = one behaviour (checkout, then edits / index operations / switches) carried out on a real repository; distinct = distinct "
                       "(naming and content scheme, entry-point variants, action sequence with arguments); all are non-trivial (each performs at least a checkout and one status call "
                       "judged against the specification)")
    from ..c18_lib import CONFIG_PROFILES
    ctx.cov["config_profiles"] = [dict(p) for p in CONFIG_PROFILES]
    ctx.cov["schemes"] = {"names": sorted(NAME_SCHEMES), "contents": list(CONTENT_SCHEMES), "combinations_used": [list(s) for s in SCHEMES]}
    ctx.assumptions += [
        "racy-git is not part of the property: the harness sets the mtime of every file it writes explicitly (one second per edit, os.utime) so that a size-preserving modification is "
        "distinguishable from the stat data recorded in the index; files written by dulwich itself keep the kernel's time stamps",
        "core.autocrlf=false, core.filemode=true, core.symlinks=true, no filters, no .gitignore, no submodules, HOME pointing at an empty directory; "
        "every behaviour runs under one of four configuration profiles that select alternative code paths without changing the expected answers "
        "(none; core.preloadIndex=true; core.trustctime=false; preloadIndex + trustctime=false + index.version=4); settings that change the answers "
        "(core.fileMode=false, core.symlinks=false, core.maxStat, core.checkStat) are not modelled and not exercised",
        "HEAD tree and directory are projected with git ls-tree and os.walk/lstat/readlink, the index with an independent reader of index v2/v3 (git ls-files as fall-back); "
        "tree and blob ids are computed with hashlib; SHA-1 is treated as injective",
        "C git 2.39.5 is the third opinion: `git status --porcelain=v1 -z -uall --no-renames` and `git write-tree` run on a copy of the index in the same directory "
        "(GIT_OPTIONAL_LOCKS=0) so that git never repairs what dulwich wrote",
        "single-path stage/unstage are modelled only where no index entry outside the selected paths has to be evicted because of a file/directory conflict "
        "(there WorkTree.stage/unstage leave an index holding both `a` and `a/x`, which git refuses to write as a tree; status is still exact for that index, so it is outside this property), "
        "where the path is not below a file or link of the directory, and for unstage where neither HEAD nor the index has a directory at the path; reset --hard where no untracked file is in the way; "
        "branch switches from a state without staged or unstaged changes",
        "stash push / pop (porcelain.stash_push/stash_pop and Stash.push/pop; pop restores the index as `git stash pop --index`, which is what phase 0 compares with) are modelled for one stash "
        "entry, popped on the HEAD it was made on with the tracked paths clean, where no tracked path was removed from the index or the directory, no path with a staged change is back at its HEAD state in the directory, no mode-only (chmod) change is involved "
        "(there Stash.push / pop do not reproduce what git does -- index entry not reset, mode not restored -- while status stays exact, so it is outside this property) and no file/directory conflict is involved; "
        "the harness waits 20 ms before a pop so that files written by pop never share a time stamp with those written by push (racy-git, above)",
        "clauses EditEffect (unstage / rm --cached / commit / reset --mixed leave the state the specification's action leads to) and StageComplete / StageAllComplete read 'edit' in the statement as "
        "the edit git performs for the same command; the specification's version of every action is validated against git's own commands in phase 0 of every run",
        "Linux, case-sensitive file system (tmpfs)",
    ]
    return ctx.finish(exhaustive=False)


def replay(ctx, path):
    """Re-execute one recorded case: print every step (action, projected triple, what status and
    git said), then judge it exactly as the run does.  Exit 1 when the recorded signature (or any
    finding that is not a listed known finding) shows again."""
    import fnmatch
    obj = json.load(open(path))
    print(f"recorded: {obj.get('signature')}\n  {obj.get('what')}\n  clause={obj.get('clause')} step={obj.get('step')} seed={obj.get('seed')} tier={obj.get('tier')}")
    meta = obj.get("meta")
    if not meta:
        print("no behaviour recorded in this file")
        return 1
    steps = [deser_step(s) for s in meta["steps"]]
    scheme, opts, large = tuple(meta["scheme"]), meta["opts"], meta.get("large", 200_000)
    print(f"scheme={scheme} entry points={opts} executor={meta.get('executor', 'dulwich')}")
    w = _world(ctx.scratch, scheme[0], scheme[1], large)
    ex = GitExec(w) if meta.get("executor") == "git" else DulExec(w)
    run = execute(w, ex, steps, dict(opts, git_every=True, normal=True))
    for k, ev in enumerate(run["events"]):
        arg = "/".join(ev["p"]) + (" -> " + "/".join(ev["q"]) if ev["q"] else "") + (f" {ev['cell'][0]}{ev['cell'][1]}" if ev["cell"] else "")
        print(f"step {k}: {ev['act']} {arg}" + (f" tree={fmt_map(ev['tree'])}" if ev["tree"] is not None else ""))
        print(f"    HEAD  {fmt_map(ev['h'])}\n    index {fmt_map(ev['i'])}\n    dir   {fmt_map(ev['w'])}")
        if ev.get("status_exc"):
            print(f"    porcelain.status raised {ev['status_exc']['exc']}: {ev['status_exc']['msg']}")
        print(f"    porcelain.status {fmt_rep(ev['rep'])}  normal-mode untracked {sorted(('/'.join(p) + ('/' if d else '')) for p, d in (ev.get('norm') or ()))}")
        print(f"    git status       {fmt_rep(ev.get('git'))}" + (f"  Index.commit={ev.get('tree_id')} git write-tree={ev.get('git_tree_id')}" if "tree_id" in ev else ""))
    if run["stop"]:
        st = run["stop"]
        print(f"stopped at step {st['at']} ({st['act']}): {st['kind']}" + (f" {st.get('exc')}: {st.get('msg')}\n{st.get('tb', '')}" if st["kind"] != "diverged" else ""))
    beh = {"steps": steps, "scheme": scheme, "opts": dict(opts, git_every=True, normal=True)}
    res = run_chunk({"label": meta.get("label", "replay"), "executor": meta.get("executor", "dulwich"), "scratch": ctx.scratch, "behaviours": [beh], "large": large})
    for m in res["machinery"]:
        print("MACHINERY:", m[:2000])
    rc = 0
    for f in res["findings"]:
        known = [k for k in ctx.known if k.get("status", "open") == "open" and (f["sig"] == k["signature"] or fnmatch.fnmatchcase(f["sig"], k["signature"]))]
        tag = "known finding" if known else "NOT LISTED"
        same = f["sig"] == obj.get("signature")
        print(f"judged: step {f['step']} {f['clause']} [{tag}{', the recorded signature' if same else ''}]\n   {f['sig']}\n   {f['what']}")
        if same or not known:
            rc = 1
    for d in res["drift"]:
        print("DRIFT:", d[:1500])
    print(f"replayed {res['n_steps']} steps, {res['n_events']} events judged by TLC; findings={len(res['findings'])}; verdict={'reproduced' if rc else 'not reproduced'}")
    return rc
